// c20corr: runs sarama/mocks (async producer, sync producer, consumer) on generated scripts and writes the
// observations as Coq cases for SV.C20.Corr / SV.C20.ConsumerCorr, plus the direct property oracle (monitor)
// verdict per case.  Files: common.go (reporter, scripted partitioner/checkers, printing), async.go, sync.go,
// consumer.go, main.go.
package main

import (
	"fmt"
	"strconv"
	"strings"
	"sync"

	"github.com/Shopify/sarama"
	"github.com/Shopify/sarama/mocks"

	cf "verifharness/internal/coqfmt"
)

type exp struct {
	Succ bool  `json:"succ"`
	Err  int64 `json:"err"`
	Chk  int   `json:"chk"` // 0 none 1 pass 2 fail
	CErr int64 `json:"cerr"`
}
type msg struct {
	ID     int64 `json:"id"`
	Topic  int   `json:"topic"`
	POk    bool  `json:"pok"`
	P      int64 `json:"p"`
	PErr   int64 `json:"perr"`
	Sender int   `json:"sender,omitempty"`
}

type reporter struct {
	mu   sync.Mutex
	logs []string
}

func (r *reporter) Errorf(f string, a ...interface{}) {
	r.mu.Lock()
	r.logs = append(r.logs, fmt.Sprintf(f, a...))
	r.mu.Unlock()
}

func classify(s string) string {
	switch {
	case strings.HasPrefix(s, "No more expectation"):
		return "RepNoExpectation"
	case strings.HasPrefix(s, "Partitioner returned"):
		return "RepPartitioner"
	case strings.HasPrefix(s, "Check function returned"):
		return "RepChecker"
	case strings.HasPrefix(s, "Expected to exhaust all expectations, but "):
		n := strings.Fields(strings.TrimPrefix(s, "Expected to exhaust all expectations, but "))[0]
		return "(RepLeftOver " + n + ")"
	case strings.HasPrefix(s, "Insufficient expectations"):
		return "RepInsufficient"
	}
	return "(RepUnknown)" // does not type-check in Coq on purpose: an unknown report is a broken tie
}

func errID(e error) int64 {
	if e == nil {
		return 0
	}
	s := e.Error()
	if strings.HasPrefix(s, "e") {
		if v, err := strconv.ParseInt(s[1:], 10, 64); err == nil {
			return v
		}
	}
	if strings.HasPrefix(s, "No more expectations set on mock") {
		return -1
	}
	return -999
}

// scripted partitioner: outcome is carried by the message's Metadata; records (message id, partition count offered)
type scriptedPartitioner struct {
	seen *[][2]int64
	mu   *sync.Mutex
}

func (p scriptedPartitioner) Partition(m *sarama.ProducerMessage, n int32) (int32, error) {
	sm := m.Metadata.(msg)
	p.mu.Lock()
	*p.seen = append(*p.seen, [2]int64{sm.ID, int64(n)})
	p.mu.Unlock()
	if sm.POk {
		return int32(sm.P), nil
	}
	return -1, fmt.Errorf("e%d", sm.PErr)
}
func (p scriptedPartitioner) RequiresConsistency() bool { return false }

func topicName(i int) string { return fmt.Sprintf("t%d", i) }
func topicIdx(s string) int64 {
	v, err := strconv.ParseInt(strings.TrimPrefix(s, "t"), 10, 64)
	if err != nil {
		return -999
	}
	return v
}

func addExps(es []exp, add func(c mocks.MessageChecker, succ bool, err error)) {
	for _, e := range es {
		e := e
		var c mocks.MessageChecker
		switch e.Chk {
		case 1:
			c = func(*sarama.ProducerMessage) error { return nil }
		case 2:
			c = func(*sarama.ProducerMessage) error { return fmt.Errorf("e%d", e.CErr) }
		}
		if e.Succ {
			add(c, true, nil)
		} else {
			add(c, false, fmt.Errorf("e%d", e.Err))
		}
	}
}

// scriptedOutcome is the property's reading of one (expectation, message) pair: error id (0 = success) and
// the deviation report it must cause ("" = none).
func scriptedOutcome(e exp, m msg) (int64, string) {
	if !m.POk {
		return m.PErr, "RepPartitioner"
	}
	if e.Chk == 2 {
		return e.CErr, "RepChecker"
	}
	if e.Succ {
		return 0, ""
	}
	return e.Err, ""
}

// ---------- printing ----------
func coqExps(es []exp) string {
	var it []string
	for _, e := range es {
		res := "RSucc"
		if !e.Succ {
			res = cf.App("RFail", cf.Z(e.Err))
		}
		chk := "CNone"
		switch e.Chk {
		case 1:
			chk = "CPass"
		case 2:
			chk = cf.App("CFail", cf.Z(e.CErr))
		}
		it = append(it, fmt.Sprintf("{| e_res := %s; e_chk := %s |}", res, chk))
	}
	return cf.List(it)
}
func coqMsg(m msg) string {
	pr := cf.App("PErr", cf.Z(m.PErr))
	if m.POk {
		pr = cf.App("POk", cf.Z(m.P))
	}
	return fmt.Sprintf("{| m_id := %s; m_pres := %s |}", cf.Z(m.ID), pr)
}
func coqMsgs(ms []msg) string {
	var it []string
	for _, m := range ms {
		it = append(it, fmt.Sprintf("(%d, %s)", m.Topic, coqMsg(m)))
	}
	return cf.List(it)
}
func coqOverrides(o map[string]int32) string {
	var it []string
	for i := 0; i < 4; i++ {
		if n, ok := o[topicName(i)]; ok {
			it = append(it, fmt.Sprintf("(%d, %s)", i, cf.Z(int64(n))))
		}
	}
	return cf.List(it)
}
func strsEq(a, b []string) bool {
	if len(a) != len(b) {
		return false
	}
	for i := range a {
		if a[i] != b[i] {
			return false
		}
	}
	return true
}
