// c20corr: runs sarama/mocks (async producer, sync producer, consumer) on generated scripts and writes the
// observations as Coq cases for SV.C20.Corr / SV.C20.ConsumerCorr, plus the direct property oracle (monitor)
// verdict per case.  Files: common.go (reporter, scripted partitioner/checkers, printing), async.go, sync.go,
// consumer.go, main.go.
package main

import (
	"fmt"
	"strconv"
	"strings"
	"sync"
	"sync/atomic"
	"time"

	"github.com/Shopify/sarama"
	"github.com/Shopify/sarama/mocks"

	cf "verifharness/internal/coqfmt"
)

type exp struct {
	Succ bool  `json:"succ"`
	Err  int64 `json:"err"`
	Chk  int   `json:"chk"` // 0 none 1 pass 2 fail
	CErr int64 `json:"cerr"`
	Via  int   `json:"via,omitempty"` // which Expect* variant registers it: 0 WithMessageCheckerFunction, 1 WithCheckerFunction (value checker; only with a checker), 2 plain ExpectXAndSucceed/Fail (only without a checker)
}
type msg struct {
	ID     int64 `json:"id"`
	Topic  int   `json:"topic"`
	POk    bool  `json:"pok"`
	P      int64 `json:"p"`
	PErr   int64 `json:"perr"`
	Sender int   `json:"sender,omitempty"`
}

type reporter struct {
	mu   sync.Mutex
	logs []string
}

func (r *reporter) Errorf(f string, a ...interface{}) {
	r.mu.Lock()
	r.logs = append(r.logs, fmt.Sprintf(f, a...))
	r.mu.Unlock()
}

func (r *reporter) snapshot() []string {
	r.mu.Lock()
	defer r.mu.Unlock()
	return append([]string(nil), r.logs...)
}

func classify(s string) string {
	switch {
	case strings.HasPrefix(s, "No more expectation"):
		return "RepNoExpectation"
	case strings.HasPrefix(s, "Partitioner returned"):
		return "RepPartitioner"
	case strings.HasPrefix(s, "Check function returned"):
		return "RepChecker"
	case strings.HasPrefix(s, "Expected to exhaust all expectations, but "):
		n := strings.Fields(strings.TrimPrefix(s, "Expected to exhaust all expectations, but "))[0]
		return "(RepLeftOver " + n + ")"
	case strings.HasPrefix(s, "Insufficient expectations"):
		return "RepInsufficient"
	}
	return "(RepUnknown)" // does not type-check in Coq on purpose: an unknown report is a broken tie
}

func errID(e error) int64 {
	if e == nil {
		return 0
	}
	s := e.Error()
	if strings.HasPrefix(s, "e") {
		if v, err := strconv.ParseInt(s[1:], 10, 64); err == nil {
			return v
		}
	}
	if strings.HasPrefix(s, "No more expectations set on mock") {
		return -1
	}
	return -999
}

// scripted partitioner: outcome is carried by the message's Metadata. partLog records what the mock did with the
// configured partitioner constructor: the topics it was called with (Ctors) and, per Partition call, the message id,
// the partition count offered and the topic the instance used had been constructed for (Calls).
type partLog struct {
	mu    sync.Mutex
	Ctors []int64
	Calls [][3]int64
}

func (l *partLog) constructor() sarama.PartitionerConstructor {
	return func(topic string) sarama.Partitioner {
		l.mu.Lock()
		l.Ctors = append(l.Ctors, topicIdx(topic))
		l.mu.Unlock()
		return scriptedPartitioner{log: l, topic: topicIdx(topic)}
	}
}

type scriptedPartitioner struct {
	log   *partLog
	topic int64
}

func (p scriptedPartitioner) Partition(m *sarama.ProducerMessage, n int32) (int32, error) {
	sm := m.Metadata.(msg)
	p.log.mu.Lock()
	p.log.Calls = append(p.log.Calls, [3]int64{sm.ID, int64(n), p.topic})
	p.log.mu.Unlock()
	if sm.POk {
		return int32(sm.P), nil
	}
	return -1, fmt.Errorf("e%d", sm.PErr)
}
func (p scriptedPartitioner) RequiresConsistency() bool { return false }

// monitorPartitioner: the configured partitioner of the message's topic is used, with the configured partition
// count of that topic, and the constructor runs once per topic.
func monitorPartitioner(kind string, l *partLog, topicOf map[int64]int, def int32, over map[string]int32) *cf.Monitor {
	seen := map[int64]bool{}
	for _, t := range l.Ctors {
		if seen[t] {
			return &cf.Monitor{Signature: kind + ":partitioner-constructed-twice", What: fmt.Sprintf("partitioner constructor called twice for topic t%d", t)}
		}
		seen[t] = true
	}
	for _, c := range l.Calls {
		t := topicOf[c[0]]
		if c[2] != int64(t) {
			return &cf.Monitor{Signature: kind + ":partitioner-of-other-topic", What: fmt.Sprintf("message %d of topic t%d was partitioned by the partitioner constructed for t%d", c[0], t, c[2])}
		}
		want := def
		if n, ok := over[topicName(t)]; ok {
			want = n
		}
		if c[1] != int64(want) {
			return &cf.Monitor{Signature: kind + ":partition-count", What: fmt.Sprintf("message %d of topic t%d: partitioner offered %d partitions, configured %d", c[0], t, c[1], want)}
		}
	}
	return nil
}

func coqZ3s(xs [][3]int64) string {
	var it []string
	for _, x := range xs {
		it = append(it, fmt.Sprintf("(%s, %s, %s)", cf.Z(x[0]), cf.Z(x[1]), cf.Z(x[2])))
	}
	return cf.List(it)
}

func topicName(i int) string { return fmt.Sprintf("t%d", i) }
func topicIdx(s string) int64 {
	v, err := strconv.ParseInt(strings.TrimPrefix(s, "t"), 10, 64)
	if err != nil {
		return -999
	}
	return v
}

// checkLog records every checker call: message id and the msg.Partition the checker could see at that moment.
// Value checkers only get the encoded value (the id); the harness looks the message up to read its Partition.
type checkLog struct {
	mu    sync.Mutex
	Calls [][2]int64
	live  map[int64]*sarama.ProducerMessage
}

func (l *checkLog) snapshot() [][2]int64 {
	l.mu.Lock()
	defer l.mu.Unlock()
	return append([][2]int64(nil), l.Calls...)
}

func newCheckLog() *checkLog { return &checkLog{live: map[int64]*sarama.ProducerMessage{}} }

func (l *checkLog) message(m msg) *sarama.ProducerMessage {
	pm := &sarama.ProducerMessage{Topic: topicName(m.Topic), Metadata: m, Partition: -7, Offset: -9, Value: sarama.StringEncoder(strconv.FormatInt(m.ID, 10))}
	l.mu.Lock()
	l.live[m.ID] = pm
	l.mu.Unlock()
	return pm
}

type expAPI struct {
	msgChk func(c mocks.MessageChecker, succ bool, err error)
	valChk func(c mocks.ValueChecker, succ bool, err error)
	plain  func(succ bool, err error)
}

func addExps(es []exp, l *checkLog, api expAPI) {
	for _, e := range es {
		e := e
		var res error
		if e.Chk == 2 {
			res = fmt.Errorf("e%d", e.CErr)
		}
		var serr error
		if !e.Succ {
			serr = fmt.Errorf("e%d", e.Err)
		}
		switch {
		case e.Chk == 0 && e.Via == 2:
			api.plain(e.Succ, serr)
		case e.Chk == 0:
			api.msgChk(nil, e.Succ, serr)
		case e.Via == 1:
			api.valChk(func(val []byte) error {
				id, _ := strconv.ParseInt(string(val), 10, 64)
				l.mu.Lock()
				p := int64(-998)
				if pm := l.live[id]; pm != nil {
					p = int64(pm.Partition)
				}
				l.Calls = append(l.Calls, [2]int64{id, p})
				l.mu.Unlock()
				return res
			}, e.Succ, serr)
		default:
			api.msgChk(func(m *sarama.ProducerMessage) error {
				l.mu.Lock()
				l.Calls = append(l.Calls, [2]int64{m.Metadata.(msg).ID, int64(m.Partition)})
				l.mu.Unlock()
				return res
			}, e.Succ, serr)
		}
	}
}

// cfgOp is one thing the test does to a mock's TopicConfig before producing (coq/C20/Model.v, cfgop).
type cfgOp struct {
	Kind    string     `json:"kind"` // default | set | edit | othermock
	N       int32      `json:"n,omitempty"`
	Entries [][2]int32 `json:"entries,omitempty"` // (topic index, count), ascending topics
}

// cfgOps builds, from the configuration a script wants in effect (def, over) and a variant number, a sequence of
// operations that has exactly that effect if SetPartitions copies what it is given: the overrides go in through two
// SetPartitions calls (the first possibly carrying a stale value the second corrects), and the harness then misuses
// the maps it passed: it overwrites and extends the first one, and hands it to a second mock that overrides more topics.
func cfgOps(def int32, over map[string]int32, variant int) []cfgOp {
	var a, b, missing [][2]int32
	i := 0
	for t := 0; t < 4; t++ {
		n, ok := over[topicName(t)]
		switch {
		case !ok:
			missing = append(missing, [2]int32{int32(t), int32(50 + t)})
		case i%2 == 0:
			a = append(a, [2]int32{int32(t), n})
			i++
		default:
			b = append(b, [2]int32{int32(t), n})
			if variant&2 != 0 { // a stale value in the first call, corrected by the second
				a = append(a, [2]int32{int32(t), n + 20})
			}
			i++
		}
	}
	ops := []cfgOp{{Kind: "set", Entries: a}}
	if variant&1 != 0 {
		var edits [][2]int32
		for _, e := range a {
			edits = append(edits, [2]int32{e[0], e[1] + 100})
		}
		ops = append(ops, cfgOp{Kind: "edit", Entries: append(edits, missing...)})
	}
	if variant&8 != 0 {
		ops = append(ops, cfgOp{Kind: "default", N: def + 7})
	}
	if variant&4 != 0 {
		om := [][2]int32{}
		for _, e := range missing {
			om = append(om, [2]int32{e[0], e[1] + 10})
		}
		for _, e := range a {
			om = append(om, [2]int32{e[0], e[1] + 200})
		}
		ops = append(ops, cfgOp{Kind: "othermock", Entries: om})
	}
	ops = append(ops, cfgOp{Kind: "default", N: def}, cfgOp{Kind: "set", Entries: b})
	if variant&16 != 0 {
		var edits [][2]int32
		for _, e := range b {
			edits = append(edits, [2]int32{e[0], e[1] + 300})
		}
		ops = append(ops, cfgOp{Kind: "edit", Entries: append(edits, missing...)})
	}
	return ops
}

// applyCfg performs the operations on a mock's TopicConfig.
func applyCfg(tc *mocks.TopicConfig, ops []cfgOp) {
	var first, lastMap map[string]int32
	for _, op := range ops {
		switch op.Kind {
		case "default":
			tc.SetDefaultPartitions(op.N)
		case "set":
			m := map[string]int32{}
			for _, e := range op.Entries {
				m[topicName(int(e[0]))] = e[1]
			}
			tc.SetPartitions(m)
			lastMap = m
			if first == nil {
				first = m
			}
		case "edit": // the caller goes on using its own map
			for _, e := range op.Entries {
				lastMap[topicName(int(e[0]))] = e[1]
			}
		case "othermock": // the first map is also given to another mock, which then gets overrides of its own
			other := mocks.NewSyncProducer(&reporter{}, nil)
			other.SetPartitions(first)
			m := map[string]int32{}
			for _, e := range op.Entries {
				m[topicName(int(e[0]))] = e[1]
			}
			other.SetPartitions(m)
		}
	}
}

func coqCfgOps(ops []cfgOp) string {
	var it []string
	for _, op := range ops {
		var es []string
		for _, e := range op.Entries {
			es = append(es, fmt.Sprintf("(%d, %d)", e[0], e[1]))
		}
		switch op.Kind {
		case "default":
			it = append(it, cf.App("CfgDefault", cf.Z(int64(op.N))))
		case "set":
			it = append(it, cf.App("CfgSet", cf.List(es)))
		case "edit":
			it = append(it, cf.App("CfgCallerEdits", cf.List(es)))
		case "othermock":
			it = append(it, cf.App("CfgOtherMock", cf.List(es)))
		}
	}
	return cf.List(it)
}

// hangs counts the scripts that blocked; after two of them for one mock the remaining scripts of that mock are
// skipped (a mock that blocks on everything would otherwise cost 5 s per script).
var hangs int32

// watchdog runs f and gives up after a few seconds: nothing the harness does may block.
func watchdog(f func()) bool {
	done := make(chan struct{})
	go func() {
		defer close(done)
		f()
	}()
	select {
	case <-done:
		return true
	case <-time.After(5 * time.Second):
		atomic.AddInt32(&hangs, 1)
		return false
	}
}

func coqZ2s(xs [][2]int64) string {
	var it []string
	for _, x := range xs {
		it = append(it, fmt.Sprintf("(%s, %s)", cf.Z(x[0]), cf.Z(x[1])))
	}
	return cf.List(it)
}

// wantChecks: the checker of the i-th expectation, if it has one, sees the i-th message with the partitioner's choice.
func wantCheck(e exp, m msg) [][2]int64 {
	if m.POk && e.Chk != 0 {
		return [][2]int64{{m.ID, m.P}}
	}
	return nil
}

// scriptedOutcome is the property's reading of one (expectation, message) pair: error id (0 = success) and
// the deviation report it must cause ("" = none).
func scriptedOutcome(e exp, m msg) (int64, string) {
	if !m.POk {
		return m.PErr, "RepPartitioner"
	}
	if e.Chk == 2 {
		return e.CErr, "RepChecker"
	}
	if e.Succ {
		return 0, ""
	}
	return e.Err, ""
}

// ---------- printing ----------
func coqExps(es []exp) string {
	var it []string
	for _, e := range es {
		res := "RSucc"
		if !e.Succ {
			res = cf.App("RFail", cf.Z(e.Err))
		}
		chk := "CNone"
		switch e.Chk {
		case 1:
			chk = "CPass"
		case 2:
			chk = cf.App("CFail", cf.Z(e.CErr))
		}
		it = append(it, fmt.Sprintf("{| e_res := %s; e_chk := %s |}", res, chk))
	}
	return cf.List(it)
}
func coqMsg(m msg) string {
	pr := cf.App("PErr", cf.Z(m.PErr))
	if m.POk {
		pr = cf.App("POk", cf.Z(m.P))
	}
	return fmt.Sprintf("{| m_id := %s; m_pres := %s |}", cf.Z(m.ID), pr)
}
func coqMsgs(ms []msg) string {
	var it []string
	for _, m := range ms {
		it = append(it, fmt.Sprintf("(%d, %s)", m.Topic, coqMsg(m)))
	}
	return cf.List(it)
}
func coqOverrides(o map[string]int32) string {
	var it []string
	for i := 0; i < 4; i++ {
		if n, ok := o[topicName(i)]; ok {
			it = append(it, fmt.Sprintf("(%d, %s)", i, cf.Z(int64(n))))
		}
	}
	return cf.List(it)
}
func strsEq(a, b []string) bool {
	if len(a) != len(b) {
		return false
	}
	for i := range a {
		if a[i] != b[i] {
			return false
		}
	}
	return true
}
