package main

import (
	"fmt"
	"math/rand"
	"regexp"
	"sort"
	"strconv"
	"strings"
	"sync"

	"github.com/Shopify/sarama"
	"github.com/Shopify/sarama/mocks"

	cf "verifharness/internal/coqfmt"
)

// One action of the application / test on the mock consumer (see coq/C20/ConsumerModel.v, cact).
// Everything is executed from one goroutine in script order, receives are non-blocking, and a partition
// never gets more yields than the channel buffer holds, so nothing depends on scheduling.
type cact struct {
	Op   string    `json:"op"`
	T    int       `json:"t,omitempty"`
	P    int32     `json:"p,omitempty"`
	Off  int64     `json:"off,omitempty"`
	ID   int64     `json:"id,omitempty"`
	Err  int64     `json:"err,omitempty"`
	Meta [][]int32 `json:"meta,omitempty"` // setmeta: Meta[i] = [topic, partitions...], topics ascending; nil + Nil=true = nil map
	Nil  bool      `json:"nil,omitempty"`
}
type cscript struct {
	Mode string `json:"mode"`
	Acts []cact `json:"acts"`
}
type cobs struct {
	Obs     string   `json:"obs"` // Coq term of type cobs
	Reports []string `json:"reports"`
}

type ckey struct {
	T int
	P int32
}

var reKey = regexp.MustCompile(`t(\d+)/(-?\d+)`)

func coqKey(t int64, p int64) string { return fmt.Sprintf("(%s, %s)", cf.Z(t), cf.Z(p)) }

// classifyC returns the Coq term of a consumer report and the key it is about (ok=false for consumer-level ones)
func classifyC(s string) (string, ckey, bool) {
	var k ckey
	m := reKey.FindStringSubmatch(s)
	has := m != nil
	if has {
		t, _ := strconv.Atoi(m[1])
		p, _ := strconv.Atoi(m[2])
		k = ckey{t, int32(p)}
	}
	ks := coqKey(int64(k.T), int64(k.P))
	nums := func(re string) []string {
		x := regexp.MustCompile(re).FindStringSubmatch(s)
		if x == nil {
			return []string{"0", "0"}
		}
		for i := range x {
			if strings.HasPrefix(x[i], "-") {
				x[i] = "(" + x[i] + ")"
			}
		}
		return x[1:]
	}
	switch {
	case strings.HasPrefix(s, "No expectations set for ") && has:
		return cf.App("CRNoExp", ks), k, true
	case strings.HasPrefix(s, "Unexpected offset when calling ConsumePartition for ") && has:
		n := nums(`Expected (-?\d+), got (-?\d+)\.`)
		return cf.App("CROffset", ks, n[0], n[1]), k, true
	case strings.HasPrefix(s, "Expectations set on ") && strings.HasSuffix(s, "but no partition consumer was started.") && has:
		return cf.App("CRNotStarted", ks), k, true
	case strings.HasPrefix(s, "Expected the errors channel for ") && has:
		n := nums(`but found (-?\d+) errors\.`)
		return cf.App("CRErrsLeft", ks, n[0]), k, true
	case strings.HasPrefix(s, "Expected the messages channel for ") && has:
		n := nums(`but found (-?\d+) messages\.`)
		return cf.App("CRMsgsLeft", ks, n[0]), k, true
	case strings.HasPrefix(s, "Unexpected call to Topics."):
		return "CRTopicsNoMeta", k, false
	case strings.HasPrefix(s, "Unexpected call to Partitions."):
		return "CRPartsNoMeta", k, false
	}
	return "(CRUnknown)", k, false // does not type-check: an unknown report is a broken tie
}

const consumerBuf = 64
const maxYields = 40 // per partition and channel, below consumerBuf: a yield never blocks

func runConsumer(s cscript) (out []cobs, mon *cf.Monitor) {
	if !watchdog(func() { out, mon = runConsumer1(s) }) {
		out = make([]cobs, len(s.Acts))
		for i := range out {
			out[i].Obs = "OPanic"
		}
		return out, &cf.Monitor{Signature: "consumer:hang", What: "an action on the mock consumer blocked (yields stay below the channel buffer size, receives are non-blocking)"}
	}
	return
}

func runConsumer1(s cscript) ([]cobs, *cf.Monitor) {
	rep := &reporter{}
	cfg := sarama.NewConfig()
	cfg.ChannelBufferSize = consumerBuf
	c := mocks.NewConsumer(rep, cfg)
	handles := map[ckey]*mocks.PartitionConsumer{}
	regOrder := map[ckey]int{}
	var mon *cf.Monitor
	flag := func(sig, what string) {
		if mon == nil {
			mon = &cf.Monitor{Signature: sig, What: what}
		}
	}
	var out []cobs
	for ai, a := range s.Acts {
		k := ckey{a.T, a.P}
		h := handles[k]
		before := len(rep.logs)
		obs := "ONone"
		needH := map[string]bool{"yieldmsg": true, "yielderr": true, "drainm": true, "draine": true, "readmsg": true, "readerr": true, "hwm": true, "closepc": true, "asyncclose": true}
		if needH[a.Op] && h == nil {
			out = append(out, cobs{Obs: "ONoHandle"})
			continue
		}
		switch a.Op {
		case "expect":
			nh := c.ExpectConsumePartition(topicName(a.T), a.P, a.Off)
			if h != nil && nh != h {
				flag("consumer:expect-new-handle", fmt.Sprintf("action %d: ExpectConsumePartition returned a different partition consumer for a registered partition", ai))
			}
			if h == nil {
				handles[k] = nh
				regOrder[k] = len(regOrder)
			}
		case "yieldmsg":
			func() {
				defer func() {
					if recover() != nil {
						obs = "OPanic"
					}
				}()
				h.YieldMessage(&sarama.ConsumerMessage{Value: []byte(strconv.FormatInt(a.ID, 10)), Topic: "unset", Partition: -7, Offset: -9})
			}()
		case "yielderr":
			func() {
				defer func() {
					if recover() != nil {
						obs = "OPanic"
					}
				}()
				h.YieldError(fmt.Errorf("e%d", a.Err))
			}()
		case "drainm":
			h.ExpectMessagesDrainedOnClose()
		case "draine":
			h.ExpectErrorsDrainedOnClose()
		case "consume":
			pc, err := c.ConsumePartition(topicName(a.T), a.P, a.Off)
			switch {
			case err == nil:
				obs = "(OConsume 0)"
				if got, ok := pc.(*mocks.PartitionConsumer); !ok || got != h {
					obs = "(OConsume (-998))"
					flag("consumer:consume-wrong-handle", fmt.Sprintf("action %d: ConsumePartition returned something else than the registered partition consumer", ai))
				}
			case strings.HasPrefix(err.Error(), "No more expectations set on mock"):
				obs = "(OConsume (-1))"
			default:
				if _, ok := err.(sarama.ConfigurationError); ok {
					obs = "(OConsume (-3))"
				} else {
					obs = "(OConsume (-999))"
				}
			}
		case "readmsg":
			select {
			case m, ok := <-h.Messages():
				if !ok {
					obs = "OClosed"
				} else {
					id, _ := strconv.ParseInt(string(m.Value), 10, 64)
					obs = cf.App("OMsg", cf.Z(id), cf.Z(topicIdx(m.Topic)), cf.Z(int64(m.Partition)), cf.Z(m.Offset))
				}
			default:
				obs = "OEmpty"
			}
		case "readerr":
			select {
			case e, ok := <-h.Errors():
				if !ok {
					obs = "OClosed"
				} else {
					obs = cf.App("OErrv", cf.Z(errID(e.Err)), cf.Z(topicIdx(e.Topic)), cf.Z(int64(e.Partition)))
				}
			default:
				obs = "OEmpty"
			}
		case "hwm":
			obs = cf.App("OHwm", cf.Z(h.HighWaterMarkOffset()))
		case "closepc":
			err := h.Close()
			switch e := err.(type) {
			case nil:
				obs = "(OClose 0 [])"
			case sarama.ConsumerErrors:
				var ids []int64
				for _, x := range e {
					ids = append(ids, errID(x.Err))
					if topicIdx(x.Topic) != int64(a.T) || x.Partition != a.P {
						flag("consumer:error-wrong-partition", fmt.Sprintf("action %d: Close returned an error of %s/%d", ai, x.Topic, x.Partition))
					}
				}
				obs = cf.App("OClose", "1", cf.ZList(ids))
			default:
				if strings.HasPrefix(err.Error(), "The partition consumer was never started") {
					obs = "(OClose (-2) [])"
				} else {
					obs = "(OClose (-999) [])"
				}
			}
		case "asyncclose":
			h.AsyncClose()
		case "closeall":
			if err := c.Close(); err != nil {
				obs = "OPanic"
			}
		case "setmeta":
			if a.Nil {
				c.SetTopicMetadata(nil)
			} else {
				md := map[string][]int32{}
				for _, row := range a.Meta {
					md[topicName(int(row[0]))] = append([]int32{}, row[1:]...)
				}
				c.SetTopicMetadata(md)
			}
		case "topics":
			ts, err := c.Topics()
			if err != nil {
				r := int64(-999)
				if err == sarama.ErrOutOfBrokers {
					r = -4
				}
				obs = cf.App("OTopics", cf.Z(r), "[]")
			} else {
				var ids []int64
				for _, t := range ts {
					ids = append(ids, topicIdx(t))
				}
				sort.Slice(ids, func(i, j int) bool { return ids[i] < ids[j] })
				obs = cf.App("OTopics", "0", cf.ZList(ids))
			}
		case "partitions":
			ps, err := c.Partitions(topicName(a.T))
			if err != nil {
				r := int64(-999)
				if err == sarama.ErrOutOfBrokers {
					r = -4
				} else if err == sarama.ErrUnknownTopicOrPartition {
					r = -5
				}
				obs = cf.App("OParts", cf.Z(r), "[]")
			} else {
				var ids []int64
				for _, p := range ps {
					ids = append(ids, int64(p))
				}
				obs = cf.App("OParts", "0", cf.ZList(ids))
			}
		case "hwms":
			hw := c.HighWaterMarks()
			type row struct {
				k ckey
				v int64
			}
			var rows []row
			for t, m := range hw {
				for p, v := range m {
					rows = append(rows, row{ckey{int(topicIdx(t)), p}, v})
				}
			}
			sort.Slice(rows, func(i, j int) bool { return regOrder[rows[i].k] < regOrder[rows[j].k] })
			var it []string
			for _, r := range rows {
				it = append(it, fmt.Sprintf("(%s, %s)", coqKey(int64(r.k.T), int64(r.k.P)), cf.Z(r.v)))
			}
			obs = cf.App("OHwms", cf.List(it))
		default:
			panic("unknown op " + a.Op)
		}
		type rk struct {
			term string
			ord  int
		}
		var rs []rk
		for _, l := range rep.logs[before:] {
			term, key, has := classifyC(l)
			ord := -1
			if has {
				if o, ok := regOrder[key]; ok {
					ord = o
				}
			}
			rs = append(rs, rk{term, ord})
		}
		if a.Op == "closeall" { // Consumer.Close walks a Go map: order the calls by registration order of the partition
			sort.SliceStable(rs, func(i, j int) bool { return rs[i].ord < rs[j].ord })
		}
		o := cobs{Obs: obs}
		for _, r := range rs {
			o.Reports = append(o.Reports, r.term)
		}
		out = append(out, o)
	}
	return out, mon
}

// ---------- printing ----------
func coqAct(a cact) string {
	k := coqKey(int64(a.T), int64(a.P))
	switch a.Op {
	case "expect":
		return cf.App("AExpect", k, cf.Z(a.Off))
	case "yieldmsg":
		return cf.App("AYieldMsg", k, cf.Z(a.ID))
	case "yielderr":
		return cf.App("AYieldErr", k, cf.Z(a.Err))
	case "drainm":
		return cf.App("ADrainM", k)
	case "draine":
		return cf.App("ADrainE", k)
	case "consume":
		return cf.App("AConsume", k, cf.Z(a.Off))
	case "readmsg":
		return cf.App("AReadMsg", k)
	case "readerr":
		return cf.App("AReadErr", k)
	case "hwm":
		return cf.App("AHwm", k)
	case "closepc":
		return cf.App("AClosePC", k)
	case "asyncclose":
		return cf.App("AAsyncClosePC", k)
	case "closeall":
		return "ACloseAll"
	case "setmeta":
		if a.Nil {
			return "(ASetMeta None)"
		}
		var rows []string
		for _, row := range a.Meta {
			var ps []int64
			for _, p := range row[1:] {
				ps = append(ps, int64(p))
			}
			rows = append(rows, fmt.Sprintf("(%s, %s)", cf.Z(int64(row[0])), cf.ZList(ps)))
		}
		return cf.App("ASetMeta", cf.Some(cf.List(rows)))
	case "topics":
		return "ATopics"
	case "partitions":
		return cf.App("APartitions", cf.Z(int64(a.T)))
	case "hwms":
		return "AHwms"
	}
	panic("unknown op " + a.Op)
}

// ---------- generator ----------
var offsetsPool = []int64{0, 5, 17, mocks.AnyOffset, sarama.OffsetNewest, sarama.OffsetOldest}

func genConsumer(r *rand.Rand) cscript {
	var acts []cact
	nk := 1 + r.Intn(4)
	var keys []ckey
	for len(keys) < nk {
		k := ckey{r.Intn(3), int32(r.Intn(3))}
		dup := false
		for _, x := range keys {
			dup = dup || x == k
		}
		if !dup {
			keys = append(keys, k)
		}
	}
	stray := ckey{3, int32(r.Intn(2))} // never registered
	yields := map[ckey]int{}
	nextID := int64(0)
	expOff := map[ckey]int64{}
	add := func(a cact) { acts = append(acts, a) }
	on := func(op string, k ckey) cact { return cact{Op: op, T: k.T, P: k.P} }
	yieldM := func(k ckey) {
		if yields[k] < maxYields {
			yields[k]++
			nextID++
			a := on("yieldmsg", k)
			a.ID = nextID
			add(a)
		}
	}
	yieldE := func(k ckey) {
		if yields[k] < maxYields {
			yields[k]++
			a := on("yielderr", k)
			a.Err = int64(400 + r.Intn(6))
			add(a)
		}
	}
	pick := func() ckey {
		if r.Intn(12) == 0 {
			return stray
		}
		return keys[r.Intn(len(keys))]
	}
	meta := func() {
		switch r.Intn(4) {
		case 0:
			add(cact{Op: "setmeta", Nil: true})
		default:
			var rows [][]int32
			for t := 0; t < 4; t++ {
				if r.Intn(2) == 0 {
					row := []int32{int32(t)}
					for p := 0; p < r.Intn(4); p++ {
						row = append(row, int32(p))
					}
					rows = append(rows, row)
				}
			}
			a := cact{Op: "setmeta", Meta: rows}
			if rows == nil {
				a.Meta = [][]int32{}
			}
			add(a)
		}
	}
	randomAct := func() {
		k := pick()
		switch r.Intn(20) {
		case 0:
			a := on("expect", k)
			a.Off = offsetsPool[r.Intn(len(offsetsPool))]
			if k != stray {
				add(a)
			}
		case 1, 2, 3:
			yieldM(k)
		case 4, 5:
			yieldE(k)
		case 6:
			add(on([]string{"drainm", "draine"}[r.Intn(2)], k))
		case 7, 8:
			a := on("consume", k)
			a.Off = expOff[k]
			if r.Intn(3) == 0 {
				a.Off = offsetsPool[r.Intn(len(offsetsPool))]
			}
			add(a)
		case 9, 10, 11:
			add(on("readmsg", k))
		case 12, 13:
			add(on("readerr", k))
		case 14:
			add(on("hwm", k))
		case 15:
			add(on([]string{"closepc", "closepc", "asyncclose"}[r.Intn(3)], k))
		case 16:
			if r.Intn(3) == 0 {
				add(cact{Op: "closeall"})
			} else {
				add(cact{Op: "hwms"})
			}
		case 17:
			meta()
		case 18:
			add(cact{Op: "topics"})
		case 19:
			add(cact{Op: "partitions", T: r.Intn(5)})
		}
	}
	if r.Intn(4) == 0 { // fully random order of actions
		for i, n := 0, 5+r.Intn(30); i < n; i++ {
			if i < 3 && r.Intn(2) == 0 {
				k := keys[r.Intn(len(keys))]
				a := on("expect", k)
				a.Off = offsetsPool[r.Intn(len(offsetsPool))]
				if _, ok := expOff[k]; !ok {
					expOff[k] = a.Off
				}
				add(a)
				continue
			}
			randomAct()
		}
		return cscript{Mode: "consumer", Acts: acts}
	}
	// the usual life of a test: register, script, consume, read, close - with deviations sprinkled in
	for _, k := range keys {
		a := on("expect", k)
		a.Off = offsetsPool[r.Intn(len(offsetsPool))]
		expOff[k] = a.Off
		add(a)
		if r.Intn(5) == 0 { // registering twice keeps the first offset
			b := on("expect", k)
			b.Off = offsetsPool[r.Intn(len(offsetsPool))]
			add(b)
		}
		if r.Intn(3) == 0 {
			add(on("drainm", k))
		}
		if r.Intn(3) == 0 {
			add(on("draine", k))
		}
	}
	if r.Intn(3) == 0 {
		meta()
	}
	for i, n := 0, r.Intn(14); i < n; i++ {
		k := keys[r.Intn(len(keys))]
		if r.Intn(4) == 0 {
			yieldE(k)
		} else {
			yieldM(k)
		}
	}
	for _, k := range keys {
		if r.Intn(6) == 0 {
			continue // expected but never consumed
		}
		a := on("consume", k)
		a.Off = expOff[k]
		if r.Intn(4) == 0 {
			a.Off = offsetsPool[r.Intn(len(offsetsPool))]
		}
		add(a)
		if r.Intn(8) == 0 {
			add(a) // a second ConsumePartition
		}
	}
	if r.Intn(5) == 0 {
		a := on("consume", stray)
		add(a)
	}
	for i, n := 0, r.Intn(20); i < n; i++ {
		k := keys[r.Intn(len(keys))]
		switch r.Intn(8) {
		case 0:
			yieldM(k)
		case 1:
			yieldE(k)
		case 2:
			add(on("readerr", k))
		case 3:
			add(on("hwm", k))
		case 4:
			randomAct()
		default:
			add(on("readmsg", k))
		}
	}
	if r.Intn(2) == 0 { // read everything that is left
		for _, k := range keys {
			for i := 0; i <= yields[k]; i++ {
				add(on("readmsg", k))
			}
			if r.Intn(2) == 0 {
				for i := 0; i <= yields[k]; i++ {
					add(on("readerr", k))
				}
			}
		}
	}
	if r.Intn(3) == 0 {
		add(cact{Op: "hwms"})
	}
	order := r.Perm(len(keys))
	for _, i := range order {
		switch r.Intn(5) {
		case 0:
			add(on("asyncclose", keys[i]))
		case 1, 2:
			add(on("closepc", keys[i]))
			if r.Intn(4) == 0 {
				add(on("readmsg", keys[i]))
			}
			if r.Intn(6) == 0 {
				yieldM(keys[i]) // a yield after Close panics
			}
		}
	}
	add(cact{Op: "closeall"})
	if r.Intn(4) == 0 {
		k := keys[r.Intn(len(keys))]
		add(on("readmsg", k))
		add(on("hwm", k))
		add(on("closepc", k))
	}
	return cscript{Mode: "consumer", Acts: acts}
}

// ---------- monitor: the property read off the observations, per partition ----------
type monPC struct {
	expOff             int64
	consumed, closed   bool
	mdrain, edrain     bool
	yieldCalls         int64   // YieldMessage calls made on the handle
	accepted           []int64 // ids whose YieldMessage returned
	errsAccepted       []int64
	taken              int // messages received by the application
	errsTaken          int // errors received by the application or returned by Close
	pendingM, pendingE int // buffered
}

func monitorConsumer(s cscript, obs []cobs) *cf.Monitor {
	pcs := map[ckey]*monPC{}
	var order []ckey
	metaSet := false
	fail := func(sig, f string, a ...interface{}) *cf.Monitor {
		return &cf.Monitor{Signature: sig, What: fmt.Sprintf(f, a...)}
	}
	closeReports := func(k ckey, pc *monPC) []string {
		ks := coqKey(int64(k.T), int64(k.P))
		if !pc.consumed {
			return []string{cf.App("CRNotStarted", ks)}
		}
		var out []string
		if pc.edrain && pc.pendingE > 0 {
			out = append(out, cf.App("CRErrsLeft", ks, fmt.Sprint(pc.pendingE)))
		}
		if pc.mdrain && pc.pendingM > 0 {
			out = append(out, cf.App("CRMsgsLeft", ks, fmt.Sprint(pc.pendingM)))
		}
		return out
	}
	for i, a := range s.Acts {
		k := ckey{a.T, a.P}
		pc := pcs[k]
		o := obs[i]
		var want []string // reporter calls this action must cause
		ks := coqKey(int64(a.T), int64(a.P))
		switch a.Op {
		case "expect":
			if pc == nil {
				pcs[k] = &monPC{expOff: a.Off}
				order = append(order, k)
			}
		case "setmeta":
			metaSet = !a.Nil
		case "topics":
			if !metaSet {
				want = []string{"CRTopicsNoMeta"}
			}
		case "partitions":
			if !metaSet {
				want = []string{"CRPartsNoMeta"}
			}
		case "consume":
			if pc == nil {
				want = []string{cf.App("CRNoExp", ks)}
				if o.Obs != "(OConsume (-1))" {
					return fail("consumer:unexpected-partition-accepted", "action %d: ConsumePartition of an unregistered partition returned %s", i, o.Obs)
				}
			} else if !pc.consumed {
				if pc.expOff != mocks.AnyOffset && pc.expOff != a.Off {
					want = []string{cf.App("CROffset", ks, cf.Z(pc.expOff), cf.Z(a.Off))}
				}
				pc.consumed = true
				if o.Obs != "(OConsume 0)" {
					return fail("consumer:consume-failed", "action %d: ConsumePartition of a registered partition returned %s", i, o.Obs)
				}
			} else if o.Obs != "(OConsume (-3))" {
				return fail("consumer:double-consume", "action %d: second ConsumePartition returned %s", i, o.Obs)
			}
		}
		if pc != nil {
			switch a.Op {
			case "yieldmsg":
				pc.yieldCalls++
				if o.Obs == "ONone" {
					pc.accepted = append(pc.accepted, a.ID)
					pc.pendingM++
				}
			case "yielderr":
				if o.Obs == "ONone" {
					pc.errsAccepted = append(pc.errsAccepted, a.Err)
					pc.pendingE++
				}
			case "drainm":
				pc.mdrain = true
			case "draine":
				pc.edrain = true
			case "readmsg":
				if strings.HasPrefix(o.Obs, "(OMsg ") {
					if pc.taken >= len(pc.accepted) {
						return fail("consumer:message-sequence", "action %d: received %s but every yielded message was already delivered", i, o.Obs)
					}
					wantObs := cf.App("OMsg", cf.Z(pc.accepted[pc.taken]), cf.Z(int64(a.T)), cf.Z(int64(a.P)), cf.Z(int64(pc.taken+1)))
					if o.Obs != wantObs {
						return fail("consumer:message-sequence", "action %d: received %s, scripted %s (id topic partition offset)", i, o.Obs, wantObs)
					}
					pc.taken++
					pc.pendingM--
				} else if pc.pendingM > 0 {
					return fail("consumer:message-lost", "action %d: receive gave %s with %d yielded messages outstanding", i, o.Obs, pc.pendingM)
				}
			case "readerr":
				if strings.HasPrefix(o.Obs, "(OErrv ") {
					if pc.errsTaken >= len(pc.errsAccepted) {
						return fail("consumer:error-sequence", "action %d: received %s but every yielded error was already delivered", i, o.Obs)
					}
					wantObs := cf.App("OErrv", cf.Z(pc.errsAccepted[pc.errsTaken]), cf.Z(int64(a.T)), cf.Z(int64(a.P)))
					if o.Obs != wantObs {
						return fail("consumer:error-sequence", "action %d: received %s, scripted %s", i, o.Obs, wantObs)
					}
					pc.errsTaken++
					pc.pendingE--
				} else if pc.pendingE > 0 {
					return fail("consumer:error-lost", "action %d: receive gave %s with %d yielded errors outstanding", i, o.Obs, pc.pendingE)
				}
			case "hwm":
				if w := cf.App("OHwm", cf.Z(pc.yieldCalls+1)); o.Obs != w {
					return fail("consumer:high-water-mark", "action %d: HighWaterMarkOffset %s after %d yields, want %s", i, o.Obs, pc.yieldCalls, w)
				}
			case "closepc":
				want = closeReports(k, pc)
				if pc.consumed {
					rest := pc.errsAccepted[pc.errsTaken:]
					w := "(OClose 0 [])"
					if len(rest) > 0 {
						w = cf.App("OClose", "1", cf.ZList(rest))
					}
					if o.Obs != w {
						return fail("consumer:close-return", "action %d: Close returned %s, want %s", i, o.Obs, w)
					}
					pc.errsTaken = len(pc.errsAccepted)
					pc.taken = len(pc.accepted) // drained
					pc.pendingM, pc.pendingE = 0, 0
					pc.closed = true
				} else if o.Obs != "(OClose (-2) [])" {
					return fail("consumer:close-return", "action %d: Close of a never-consumed partition returned %s", i, o.Obs)
				}
			case "asyncclose":
				pc.closed = true
			}
		}
		switch a.Op {
		case "closeall":
			for _, kk := range order {
				p := pcs[kk]
				want = append(want, closeReports(kk, p)...)
				if p.consumed {
					p.errsTaken, p.taken = len(p.errsAccepted), len(p.accepted)
					p.pendingM, p.pendingE = 0, 0
					p.closed = true
				}
			}
		case "hwms":
			var it []string
			for _, kk := range order {
				it = append(it, fmt.Sprintf("(%s, %s)", coqKey(int64(kk.T), int64(kk.P)), cf.Z(pcs[kk].yieldCalls+1)))
			}
			if w := cf.App("OHwms", cf.List(it)); o.Obs != w {
				return fail("consumer:high-water-mark", "action %d: HighWaterMarks %s, want %s", i, o.Obs, w)
			}
		}
		if !strsEq(o.Reports, want) {
			sig := "consumer:reports"
			if len(o.Reports) < len(want) {
				sig = "consumer:report-missing"
			} else if len(o.Reports) > len(want) {
				sig = "consumer:report-spurious"
			}
			return fail(sig, "action %d (%s): reporter calls %v, want %v", i, a.Op, o.Reports, want)
		}
	}
	return nil
}

func consumerCorpus() []cscript {
	k := func(op string, t int, p int32) cact { return cact{Op: op, T: t, P: p} }
	return []cscript{
		// two partitions, messages and errors in order, wrong offset on one, one never consumed, undrained channel
		{Mode: "consumer", Acts: []cact{
			{Op: "expect", T: 0, P: 0, Off: 5}, {Op: "expect", T: 0, P: 1, Off: mocks.AnyOffset}, {Op: "expect", T: 1, P: 0, Off: 0},
			k("drainm", 0, 0), k("draine", 0, 1),
			{Op: "yieldmsg", T: 0, P: 0, ID: 1}, {Op: "yieldmsg", T: 0, P: 0, ID: 2}, {Op: "yielderr", T: 0, P: 1, Err: 401}, {Op: "yieldmsg", T: 0, P: 1, ID: 3},
			{Op: "consume", T: 0, P: 0, Off: 6}, {Op: "consume", T: 0, P: 1, Off: 123}, {Op: "consume", T: 3, P: 0, Off: 0}, {Op: "consume", T: 0, P: 0, Off: 5},
			k("readmsg", 0, 0), k("hwm", 0, 0), k("readmsg", 0, 1), k("readmsg", 0, 1), {Op: "yieldmsg", T: 0, P: 0, ID: 4}, k("hwm", 0, 0),
			k("closepc", 0, 1), k("readerr", 0, 1), {Op: "yieldmsg", T: 0, P: 1, ID: 5}, k("hwm", 0, 1),
			{Op: "closeall"}, k("readmsg", 0, 0), {Op: "hwms"}}},
		// metadata
		{Mode: "consumer", Acts: []cact{{Op: "topics"}, {Op: "partitions", T: 1}, {Op: "setmeta", Meta: [][]int32{{0, 0, 1}, {2}}}, {Op: "topics"},
			{Op: "partitions", T: 0}, {Op: "partitions", T: 2}, {Op: "partitions", T: 1}, {Op: "setmeta", Nil: true}, {Op: "topics"}}},
	}
}

func consumerCase(s cscript) (string, cf.Sidecar) {
	obs, mon := runConsumer(s)
	if mon == nil {
		mon = monitorConsumer(s, obs)
	}
	var acts, os []string
	nontrivial := false
	for i, a := range s.Acts {
		acts = append(acts, coqAct(a))
		os = append(os, fmt.Sprintf("(%s, %s)", obs[i].Obs, cf.List(obs[i].Reports)))
		if strings.HasPrefix(obs[i].Obs, "(OMsg ") || strings.HasPrefix(obs[i].Obs, "(OErrv ") || len(obs[i].Reports) > 0 {
			nontrivial = true
		}
	}
	term := fmt.Sprintf("{| cc_acts := %s; cc_obs := %s |}", cf.List(acts), cf.List(os))
	return term, cf.Sidecar{Case: map[string]interface{}{"script": s, "observed": obs}, Kind: "consumer", Nontrivial: nontrivial, Monitor: mon}
}

// ---------- concurrent yielders (adversary change C20-11) ----------
// G goroutines call YieldMessage on ONE partition consumer at the same time (legal: the mock serialises them with its
// mutex); afterwards the test goroutine reads everything. Whatever the interleaving, the run must be equivalent to the
// sequential script in which the messages are yielded in the order in which they were delivered (its linearisation):
// delivered offsets are consecutive from the expected offset and the high-water mark is the last offset + 1. The case
// handed to Coq is that sequential script with the observations of the concurrent run.
func concurrentYieldCase(r *rand.Rand) (string, cf.Sidecar) {
	g := 2 + r.Intn(15)
	per := 1 + r.Intn(maxYields/g)
	start := int64(r.Intn(1000))
	if r.Intn(4) == 0 {
		start = mocks.AnyOffset
	}
	k := ckey{r.Intn(3), int32(r.Intn(3))}
	rep := &reporter{}
	cfg := sarama.NewConfig()
	cfg.ChannelBufferSize = consumerBuf
	c := mocks.NewConsumer(rep, cfg)
	h := c.ExpectConsumePartition(topicName(k.T), k.P, start)
	consumeOff := start
	if start == mocks.AnyOffset {
		consumeOff = int64(r.Intn(1000))
	}
	acts := []cact{{Op: "expect", T: k.T, P: k.P, Off: start}, {Op: "consume", T: k.T, P: k.P, Off: consumeOff}}
	obs := []cobs{{Obs: "ONone"}, {Obs: "(OConsume 0)"}}
	var mon *cf.Monitor
	if _, err := c.ConsumePartition(topicName(k.T), k.P, consumeOff); err != nil {
		obs[1].Obs = "(OConsume (-999))"
	}
	ok := watchdog(func() {
		var wg sync.WaitGroup
		gate := make(chan struct{})
		for gi := 0; gi < g; gi++ {
			wg.Add(1)
			go func(gi int) {
				defer wg.Done()
				<-gate
				for j := 0; j < per; j++ {
					id := int64(gi*per + j + 1)
					h.YieldMessage(&sarama.ConsumerMessage{Value: []byte(strconv.FormatInt(id, 10)), Topic: "unset", Partition: -7, Offset: -9})
				}
			}(gi)
		}
		close(gate)
		wg.Wait()
	})
	if !ok {
		mon = &cf.Monitor{Signature: "consumer:hang", What: "concurrent YieldMessage callers blocked although the yields stay below the channel buffer size"}
	}
	n := g * per
	prev := int64(-1 << 62)
	seen := map[int64]bool{}
	for i := 0; i < n && ok; i++ {
		select {
		case m := <-h.Messages():
			id, _ := strconv.ParseInt(string(m.Value), 10, 64)
			acts = append(acts, cact{Op: "yieldmsg", T: k.T, P: k.P, ID: id})
			obs = append(obs, cobs{Obs: "ONone"})
			acts = append(acts, cact{Op: "readmsg", T: k.T, P: k.P})
			obs = append(obs, cobs{Obs: cf.App("OMsg", cf.Z(id), cf.Z(topicIdx(m.Topic)), cf.Z(int64(m.Partition)), cf.Z(m.Offset))})
			if i > 0 && m.Offset != prev+1 && mon == nil {
				mon = &cf.Monitor{Signature: "consumer:offsets-not-consecutive", What: fmt.Sprintf("%d concurrent yielders x %d messages on %s/%d: delivery %d has offset %d after offset %d", g, per, topicName(k.T), k.P, i, m.Offset, prev)}
			}
			if seen[id] && mon == nil {
				mon = &cf.Monitor{Signature: "consumer:yield-delivered-twice", What: fmt.Sprintf("message %d was delivered twice", id)}
			}
			seen[id] = true
			prev = m.Offset
		default:
			if mon == nil {
				mon = &cf.Monitor{Signature: "consumer:yield-lost", What: fmt.Sprintf("%d concurrent yielders x %d messages: only %d of %d yielded messages were delivered", g, per, i, n)}
			}
			i = n
		}
	}
	acts = append(acts, cact{Op: "hwm", T: k.T, P: k.P})
	obs = append(obs, cobs{Obs: cf.App("OHwm", cf.Z(h.HighWaterMarkOffset()))})
	if len(rep.snapshot()) > 0 && mon == nil {
		mon = &cf.Monitor{Signature: "consumer:spurious-report", What: fmt.Sprintf("concurrent yielders: the reporter was called: %v", rep.snapshot())}
	}
	s := cscript{Mode: "consumer-concurrent-yield", Acts: acts}
	var as, os []string
	for i, a := range acts {
		as = append(as, coqAct(a))
		os = append(os, fmt.Sprintf("(%s, %s)", obs[i].Obs, cf.List(obs[i].Reports)))
	}
	term := fmt.Sprintf("{| cc_acts := %s; cc_obs := %s |}", cf.List(as), cf.List(os))
	return term, cf.Sidecar{Case: map[string]interface{}{"script": s, "observed": obs, "yielders": g, "per_yielder": per}, Kind: "consumer-concurrent-yield", Nontrivial: n >= 2, Monitor: mon}
}

// stressYieldCase: 16 yielders x 1500 messages against a concurrent reader (the channel buffer fills, yielders block in
// the send). The monitor looks at every delivery; the Coq case is the linearisation of the first 20 deliveries.
func stressYieldCase(r *rand.Rand) (string, cf.Sidecar) {
	const g, per, shown = 16, 1500, 20
	start := int64(r.Intn(1000))
	k := ckey{r.Intn(3), int32(r.Intn(3))}
	rep := &reporter{}
	cfg := sarama.NewConfig()
	cfg.ChannelBufferSize = 1 + r.Intn(consumerBuf)
	c := mocks.NewConsumer(rep, cfg)
	h := c.ExpectConsumePartition(topicName(k.T), k.P, start)
	acts := []cact{{Op: "expect", T: k.T, P: k.P, Off: start}, {Op: "consume", T: k.T, P: k.P, Off: start}}
	obs := []cobs{{Obs: "ONone"}, {Obs: "(OConsume 0)"}}
	if _, err := c.ConsumePartition(topicName(k.T), k.P, start); err != nil {
		obs[1].Obs = "(OConsume (-999))"
	}
	var mon *cf.Monitor
	type del struct {
		id, off int64
		t       string
		p       int32
	}
	var got []del
	ok := watchdog(func() {
		var wg sync.WaitGroup
		for gi := 0; gi < g; gi++ {
			wg.Add(1)
			go func(gi int) {
				defer wg.Done()
				for j := 0; j < per; j++ {
					id := int64(gi*per + j + 1)
					h.YieldMessage(&sarama.ConsumerMessage{Value: []byte(strconv.FormatInt(id, 10)), Topic: "unset", Partition: -7, Offset: -9})
				}
			}(gi)
		}
		for i := 0; i < g*per; i++ {
			m := <-h.Messages()
			id, _ := strconv.ParseInt(string(m.Value), 10, 64)
			got = append(got, del{id, m.Offset, m.Topic, m.Partition})
		}
		wg.Wait()
	})
	if !ok {
		mon = &cf.Monitor{Signature: "consumer:hang", What: "16 concurrent YieldMessage callers against a reader: not every yielded message was delivered within 5 s"}
	}
	for i, d := range got {
		if i > 0 && d.off != got[i-1].off+1 && mon == nil {
			mon = &cf.Monitor{Signature: "consumer:offsets-not-consecutive", What: fmt.Sprintf("%d concurrent yielders x %d messages against a reader (buffer %d): delivery %d has offset %d after offset %d", g, per, cfg.ChannelBufferSize, i, d.off, got[i-1].off)}
		}
		if i < shown {
			acts = append(acts, cact{Op: "yieldmsg", T: k.T, P: k.P, ID: d.id}, cact{Op: "readmsg", T: k.T, P: k.P})
			obs = append(obs, cobs{Obs: "ONone"}, cobs{Obs: cf.App("OMsg", cf.Z(d.id), cf.Z(topicIdx(d.t)), cf.Z(int64(d.p)), cf.Z(d.off))})
		}
	}
	if ok && mon == nil && len(got) > 0 && h.HighWaterMarkOffset() != got[len(got)-1].off+1 {
		mon = &cf.Monitor{Signature: "consumer:hwm", What: fmt.Sprintf("after %d yields the last delivered offset is %d but the high-water mark is %d", g*per, got[len(got)-1].off, h.HighWaterMarkOffset())}
	}
	s := cscript{Mode: "consumer-concurrent-yield-stress", Acts: acts}
	var as, os []string
	for i, a := range acts {
		as = append(as, coqAct(a))
		os = append(os, fmt.Sprintf("(%s, %s)", obs[i].Obs, cf.List(obs[i].Reports)))
	}
	term := fmt.Sprintf("{| cc_acts := %s; cc_obs := %s |}", cf.List(as), cf.List(os))
	return term, cf.Sidecar{Case: map[string]interface{}{"script": s, "observed": obs, "yielders": g, "per_yielder": per, "buffer": cfg.ChannelBufferSize}, Kind: "consumer-concurrent-yield", Nontrivial: true, Monitor: mon}
}
