package main

import (
	"fmt"
	"math/rand"
	"sync"

	"github.com/Shopify/sarama"
	"github.com/Shopify/sarama/mocks"

	cf "verifharness/internal/coqfmt"
)

// ascript: one run of the async mock. Senders = 1: the main goroutine writes Msgs in order.
// Senders = 2: two goroutines write their own messages (msg.Sender) in their own order;
//
//	Steer = true : the interleaving Order (sender index per step) is enforced by token passing,
//	Steer = false: both run freely; the arrival order is recovered from the partitioner's call log
//	               (the mock consults it in consumption order; messages beyond the expectations
//	               are never shown to it and form the tail, in which order does not matter).
type ascript struct {
	Mode      string           `json:"mode"`
	RetSucc   bool             `json:"ret_succ"`
	RetErr    bool             `json:"ret_err"`
	DefParts  int32            `json:"def_parts"`
	Overrides map[string]int32 `json:"overrides"`
	// DefParts/Overrides is the configuration meant to be in effect; CfgVariant picks how it is put in place and which
	// of the maps handed to SetPartitions the harness afterwards edits or shares with another mock (cfgOps)
	CfgVariant int   `json:"cfg_variant"`
	Exps       []exp `json:"exps"`
	Msgs       []msg `json:"msgs"`
	Senders    int   `json:"senders"`
	Steer      bool  `json:"steer"`
	Order      []int `json:"order,omitempty"`
	// Shutdown: "" / "close" = Close(); "asyncclose" = AsyncClose(), then wait until Successes() and Errors() are closed
	Shutdown string `json:"shutdown,omitempty"`
}

type obsAsync struct {
	Succ    [][3]int64 `json:"succ"`
	Errs    [][2]int64 `json:"errs"`
	Reports []string   `json:"reports"`
	NP      [][3]int64 `json:"np"`
	Ctors   []int64    `json:"ctors"`
	Checks  [][2]int64 `json:"checks"`
	Final   [][2]int64 `json:"final"` // (Partition, Offset) of each message after Close, in arrival order
	Hang    bool       `json:"hang,omitempty"`
	Arrival []int64    `json:"arrival"` // message ids in arrival order
}

func runAsync(s ascript) (o obsAsync, arrival []msg) {
	if !watchdog(func() { o, arrival = runAsync1(s) }) {
		return obsAsync{Hang: true}, s.Msgs
	}
	return
}

func runAsync1(s ascript) (obsAsync, []msg) {
	rep := &reporter{}
	clog := newCheckLog()
	plog := &partLog{}
	cfg := sarama.NewConfig()
	cfg.Producer.Return.Successes = s.RetSucc
	cfg.Producer.Return.Errors = s.RetErr
	cfg.ChannelBufferSize = 64
	cfg.Producer.Partitioner = plog.constructor()
	mp := mocks.NewAsyncProducer(rep, cfg)
	applyCfg(mp.TopicConfig, cfgOps(s.DefParts, s.Overrides, s.CfgVariant))
	addExps(s.Exps, clog, expAPI{
		msgChk: func(c mocks.MessageChecker, succ bool, err error) {
			if succ {
				mp.ExpectInputWithMessageCheckerFunctionAndSucceed(c)
			} else {
				mp.ExpectInputWithMessageCheckerFunctionAndFail(c, err)
			}
		},
		valChk: func(c mocks.ValueChecker, succ bool, err error) {
			if succ {
				mp.ExpectInputWithCheckerFunctionAndSucceed(c)
			} else {
				mp.ExpectInputWithCheckerFunctionAndFail(c, err)
			}
		},
		plain: func(succ bool, err error) {
			if succ {
				mp.ExpectInputAndSucceed()
			} else {
				mp.ExpectInputAndFail(err)
			}
		}})
	pms := map[int64]*sarama.ProducerMessage{}
	for _, m := range s.Msgs {
		pms[m.ID] = clog.message(m)
	}
	var o obsAsync
	var wg sync.WaitGroup
	wg.Add(2)
	go func() {
		defer wg.Done()
		for m := range mp.Successes() {
			o.Succ = append(o.Succ, [3]int64{m.Metadata.(msg).ID, int64(m.Partition), m.Offset})
		}
	}()
	go func() {
		defer wg.Done()
		for e := range mp.Errors() {
			o.Errs = append(o.Errs, [2]int64{e.Msg.Metadata.(msg).ID, errID(e.Err)})
		}
	}()
	send := func(m msg) { mp.Input() <- pms[m.ID] }
	var submitted []msg // the order the harness knows about (exact when steered / single sender)
	if s.Senders <= 1 {
		for _, m := range s.Msgs {
			send(m)
		}
		submitted = s.Msgs
	} else {
		per := [2][]msg{}
		for _, m := range s.Msgs {
			per[m.Sender] = append(per[m.Sender], m)
		}
		var sw sync.WaitGroup
		if s.Steer {
			turn := [2]chan struct{}{make(chan struct{}), make(chan struct{})}
			ack := make(chan struct{})
			for i := 0; i < 2; i++ {
				sw.Add(1)
				go func(i int) {
					defer sw.Done()
					for _, m := range per[i] {
						<-turn[i]
						send(m)
						ack <- struct{}{}
					}
				}(i)
			}
			idx := [2]int{}
			for _, who := range s.Order {
				turn[who] <- struct{}{}
				<-ack
				submitted = append(submitted, per[who][idx[who]])
				idx[who]++
			}
			sw.Wait()
		} else {
			start := make(chan struct{})
			for i := 0; i < 2; i++ {
				sw.Add(1)
				go func(i int) {
					defer sw.Done()
					<-start
					for _, m := range per[i] {
						send(m)
					}
				}(i)
			}
			close(start)
			sw.Wait()
			submitted = nil
		}
	}
	if s.Shutdown == "asyncclose" {
		mp.AsyncClose()
	} else {
		_ = mp.Close()
	}
	wg.Wait() // both result channels are closed: the dispatcher has finished its loop
	for _, l := range rep.logs {
		o.Reports = append(o.Reports, classify(l))
	}
	o.NP, o.Ctors = plog.Calls, plog.Ctors
	seen := plog.Calls
	// arrival order
	var arrival []msg
	if submitted != nil {
		arrival = submitted
	} else {
		byID := map[int64]msg{}
		for _, m := range s.Msgs {
			byID[m.ID] = m
		}
		got := map[int64]bool{}
		for _, x := range seen {
			arrival = append(arrival, byID[x[0]])
			got[x[0]] = true
		}
		for _, m := range s.Msgs {
			if !got[m.ID] {
				arrival = append(arrival, m)
			}
		}
	}
	for _, m := range arrival {
		o.Arrival = append(o.Arrival, m.ID)
		o.Final = append(o.Final, [2]int64{int64(pms[m.ID].Partition), pms[m.ID].Offset})
	}
	o.Checks = clog.Calls
	return o, arrival
}

func genAsync(r *rand.Rand) ascript {
	s := ascript{Mode: "async", CfgVariant: r.Intn(32), RetSucc: r.Intn(4) != 0, RetErr: r.Intn(4) != 0, DefParts: int32(1 + r.Intn(40)), Overrides: map[string]int32{}, Senders: 1}
	for i := 0; i < 3; i++ {
		if r.Intn(3) == 0 {
			s.Overrides[topicName(i)] = int32(1 + r.Intn(9))
		}
	}
	ne, nm := r.Intn(7), r.Intn(8)
	if r.Intn(3) == 0 {
		ne = nm
	}
	if r.Intn(2) == 0 {
		s.Shutdown = "asyncclose"
	}
	s.Exps = genExps(r, ne)
	for i := 0; i < nm; i++ {
		s.Msgs = append(s.Msgs, genMsg(r, int64(i+1)))
	}
	if r.Intn(3) == 0 && nm >= 2 { // two concurrent senders
		s.Senders = 2
		s.Steer = r.Intn(5) != 0
		for i := range s.Msgs {
			s.Msgs[i].Sender = r.Intn(2)
			s.Order = append(s.Order, s.Msgs[i].Sender)
		}
		r.Shuffle(len(s.Order), func(i, j int) { s.Order[i], s.Order[j] = s.Order[j], s.Order[i] })
		if !s.Steer {
			s.Order = nil
			// the arrival order is read off the partitioner log: every message must find an expectation
			for len(s.Exps) < len(s.Msgs) {
				s.Exps = append(s.Exps, genExps(r, 1)...)
			}
		}
	}
	return s
}

func genExps(r *rand.Rand, n int) []exp {
	var es []exp
	for i := 0; i < n; i++ {
		e := exp{Succ: r.Intn(3) != 0, Err: int64(100 + r.Intn(5)), Chk: r.Intn(3), CErr: int64(200 + r.Intn(5))}
		if e.Chk == 0 {
			e.Via = 2 * r.Intn(2)
		} else {
			e.Via = r.Intn(2)
		}
		es = append(es, e)
	}
	return es
}
func genMsg(r *rand.Rand, id int64) msg {
	return msg{ID: id, Topic: r.Intn(3), POk: r.Intn(5) != 0, P: int64(r.Intn(9)), PErr: int64(300 + r.Intn(5))}
}

// monitor: the property stated directly on the observation (independent of the Coq model)
func monitorAsync(s ascript, o obsAsync, arrival []msg) *cf.Monitor {
	if o.Hang {
		return &cf.Monitor{Signature: "async:hang", What: "the mock did not finish the script within 5 s"}
	}
	topicOf := map[int64]int{}
	for _, m := range s.Msgs {
		topicOf[m.ID] = m.Topic
	}
	if m := monitorPartitioner("async", &partLog{Ctors: o.Ctors, Calls: o.NP}, topicOf, s.DefParts, s.Overrides); m != nil {
		return m
	}
	count := map[int64]int{}
	for _, x := range o.Succ {
		count[x[0]]++
	}
	for _, x := range o.Errs {
		count[x[0]]++
	}
	for i, m := range arrival {
		if count[m.ID] > 1 {
			return &cf.Monitor{Signature: "async:two-outcomes", What: fmt.Sprintf("message %d got %d terminal events", m.ID, count[m.ID])}
		}
		if i < len(s.Exps) && s.RetSucc && s.RetErr && count[m.ID] != 1 {
			return &cf.Monitor{Signature: "async:no-outcome", What: fmt.Sprintf("message %d with an expectation got %d terminal events", m.ID, count[m.ID])}
		}
	}
	last := int64(0)
	for _, x := range o.Succ {
		if x[2] <= last {
			return &cf.Monitor{Signature: "async:offsets-not-increasing", What: fmt.Sprintf("offset %d after %d", x[2], last)}
		}
		last = x[2]
	}
	// with two senders each sender's messages must arrive in that sender's order
	if s.Senders == 2 {
		pos := map[int64]int{}
		for i, m := range arrival {
			pos[m.ID] = i
		}
		lastPos := [2]int{-1, -1}
		for _, m := range s.Msgs {
			if pos[m.ID] < lastPos[m.Sender] && pos[m.ID] < len(s.Exps) {
				return &cf.Monitor{Signature: "async:sender-order", What: fmt.Sprintf("message %d of sender %d overtook an earlier one", m.ID, m.Sender)}
			}
			lastPos[m.Sender] = pos[m.ID]
		}
	}
	// i-th arrival gets the outcome of the i-th expectation; reports exactly the deviations
	var wantSucc [][3]int64
	var wantErr [][2]int64
	var wantRep []string
	var wantChk, wantFinal [][2]int64
	off := int64(0)
	for i, m := range arrival {
		if i >= len(s.Exps) {
			wantRep = append(wantRep, "RepNoExpectation")
			wantFinal = append(wantFinal, [2]int64{-7, -9})
			continue
		}
		e, rp := scriptedOutcome(s.Exps[i], m)
		wantChk = append(wantChk, wantCheck(s.Exps[i], m)...)
		fin := [2]int64{-7, -9}
		if m.POk {
			fin[0] = m.P
		}
		if e == 0 && s.RetSucc {
			fin[1] = off + 1
		}
		wantFinal = append(wantFinal, fin)
		if rp != "" {
			wantRep = append(wantRep, rp)
		}
		switch {
		case e == 0:
			off++
			if s.RetSucc {
				wantSucc = append(wantSucc, [3]int64{m.ID, m.P, off})
			}
		case rp != "" || s.RetErr:
			wantErr = append(wantErr, [2]int64{m.ID, e})
		}
	}
	if len(s.Exps) > len(arrival) { // in both shutdown styles
		wantRep = append(wantRep, fmt.Sprintf("(RepLeftOver %d)", len(s.Exps)-len(arrival)))
		if s.Shutdown == "asyncclose" && !strsEq(wantRep, o.Reports) && len(o.Reports) == len(wantRep)-1 && strsEq(wantRep[:len(wantRep)-1], o.Reports) {
			return &cf.Monitor{Signature: "async:leftover-not-reported-after-asyncclose", What: fmt.Sprintf("%d expectations left over, AsyncClose() + both channels closed, reporter calls %v", len(s.Exps)-len(arrival), o.Reports)}
		}
	}
	if fmt.Sprint(wantSucc) != fmt.Sprint(o.Succ) || fmt.Sprint(wantErr) != fmt.Sprint(o.Errs) {
		return &cf.Monitor{Signature: "async:wrong-outcome", What: fmt.Sprintf("want successes %v errors %v, got %v %v", wantSucc, wantErr, o.Succ, o.Errs)}
	}
	if fmt.Sprint(wantChk) != fmt.Sprint(o.Checks) {
		return &cf.Monitor{Signature: "async:checker-calls", What: fmt.Sprintf("checkers were called with (id, Partition) %v, want %v", o.Checks, wantChk)}
	}
	if fmt.Sprint(wantFinal) != fmt.Sprint(o.Final) {
		return &cf.Monitor{Signature: "async:message-fields", What: fmt.Sprintf("(Partition, Offset) of the messages after Close %v, want %v", o.Final, wantFinal)}
	}
	if !strsEq(wantRep, o.Reports) {
		return &cf.Monitor{Signature: "async:reports", What: fmt.Sprintf("want reporter calls %v, got %v", wantRep, o.Reports)}
	}
	return nil
}

func asyncCorpus() []ascript {
	return []ascript{
		// the checker-on-success witness (defect fixed by ad12ef9), leftovers, no expectation
		{Mode: "async", RetSucc: true, RetErr: true, DefParts: 32, Overrides: map[string]int32{}, Senders: 1, Exps: []exp{{Succ: true, Chk: 2, CErr: 201}}, Msgs: []msg{{ID: 1, POk: true, P: 3}}},
		{Mode: "async", RetSucc: true, RetErr: true, DefParts: 32, Overrides: map[string]int32{"t1": 4}, Senders: 1, Exps: []exp{{Succ: true}, {Succ: false, Err: 101}, {Succ: true}}, Msgs: []msg{{ID: 1, Topic: 1, POk: true, P: 2}}},
		{Mode: "async", RetSucc: true, RetErr: true, DefParts: 32, Overrides: map[string]int32{}, Senders: 1, Exps: nil, Msgs: []msg{{ID: 1, POk: true, P: 2}, {ID: 2, POk: false, PErr: 301}}},
		// left-over expectations with the AsyncClose + wait-for-channels shutdown (seeded change C20-5 moved the report into Close())
		{Mode: "async", RetSucc: true, RetErr: true, DefParts: 32, Overrides: map[string]int32{}, Senders: 1, Shutdown: "asyncclose", Exps: []exp{{Succ: true}, {Succ: false, Err: 101}}, Msgs: []msg{{ID: 1, POk: true, P: 2}}},
		// the map given to the first SetPartitions is edited by the caller and shared with a second mock afterwards (seeded change C20-9)
		{Mode: "async", RetSucc: true, RetErr: true, DefParts: 6, Overrides: map[string]int32{"t0": 3}, CfgVariant: 5, Senders: 1, Exps: []exp{{Succ: true}, {Succ: true}}, Msgs: []msg{{ID: 1, Topic: 0, POk: true, P: 2}, {ID: 2, Topic: 1, POk: true, P: 1}}},
		// two senders, steered interleaving B A B A, a checker failure and a partitioner failure in the middle
		{Mode: "async", RetSucc: true, RetErr: true, DefParts: 8, Overrides: map[string]int32{}, Senders: 2, Steer: true, Order: []int{1, 0, 1, 0},
			Exps: []exp{{Succ: true}, {Succ: true, Chk: 2, CErr: 202}, {Succ: false, Err: 103}, {Succ: true, Chk: 1}},
			Msgs: []msg{{ID: 1, POk: true, P: 1}, {ID: 2, POk: false, PErr: 302}, {ID: 3, POk: true, P: 3, Sender: 1}, {ID: 4, POk: true, P: 4, Sender: 1}}},
	}
}

func asyncCase(s ascript) (string, cf.Sidecar) {
	o, arrival := runAsync(s)
	var su, er []string
	for _, x := range o.Succ {
		su = append(su, fmt.Sprintf("(%s, %s, %s)", cf.Z(x[0]), cf.Z(x[1]), cf.Z(x[2])))
	}
	for _, x := range o.Errs {
		er = append(er, fmt.Sprintf("(%s, %s)", cf.Z(x[0]), cf.Z(x[1])))
	}
	sd := "ShClose"
	if s.Shutdown == "asyncclose" {
		sd = "ShAsyncClose"
	}
	term := fmt.Sprintf("{| ac_cfg := {| ret_succ := %s; ret_err := %s |}; ac_sd := "+sd+"; ac_tc := %s; ac_exps := %s; ac_msgs := %s; ac_succ := %s; ac_errs := %s; ac_reports := %s; ac_np := %s; ac_ctor := %s; ac_checks := %s; ac_final := %s |}",
		cf.Bool(s.RetSucc), cf.Bool(s.RetErr), coqCfgOps(cfgOps(s.DefParts, s.Overrides, s.CfgVariant)), coqExps(s.Exps), coqMsgs(arrival), cf.List(su), cf.List(er), cf.List(o.Reports), coqZ3s(o.NP), cf.ZList(o.Ctors), coqZ2s(o.Checks), coqZ2s(o.Final))
	kind := "async"
	if s.Senders == 2 {
		kind = "async-2senders"
	}
	return term, cf.Sidecar{Case: map[string]interface{}{"script": s, "observed": o}, Kind: kind, Nontrivial: len(s.Msgs) > 0 && len(s.Exps) > 0, Monitor: monitorAsync(s, o, arrival)}
}
