package main

import (
	"flag"
	"math/rand"
	"sync"

	cf "verifharness/internal/coqfmt"
)

func main() {
	out := flag.String("out", ".", "output directory")
	seed := flag.Int64("seed", 1, "seed")
	n := flag.Int("n", 600, "number of random scripts per mock")
	flag.Parse()
	r := rand.New(rand.NewSource(*seed))
	imp := "From SV Require Import C20.Model C20.Corr."
	wa := &cf.Writer{Dir: *out, Prefix: "cases_async", Imports: imp, CaseType: "acase", MismatchFn: "mismatches_async", ShardSize: 400}
	ws := &cf.Writer{Dir: *out, Prefix: "cases_sync", Imports: imp, CaseType: "scase", MismatchFn: "mismatches_sync", ShardSize: 400}
	wc := &cf.Writer{Dir: *out, Prefix: "cases_consumer", Imports: "From SV Require Import C20.ConsumerModel C20.ConsumerCorr.", CaseType: "ccase", MismatchFn: "mismatches_consumer", ShardSize: 300}
	// corpus first (past / minimised witnesses), then the random scripts
	for _, s := range asyncCorpus() {
		wa.Add(asyncCase(s))
	}
	for i := 0; i < *n && hangs < 2; i++ {
		wa.Add(asyncCase(genAsync(r)))
	}
	hangs = 0
	for _, s := range syncCorpus() {
		ws.Add(syncCase(s))
	}
	for i := 0; i < *n && hangs < 2; i++ {
		ws.Add(syncCase(genSync(r)))
	}
	// two concurrent SendMessage callers: each case waits 100 ms on the unmodified mock, so they run side by side
	nc := *n / 12
	if nc > 400 {
		nc = 400
	}
	scripts := make([]sscript, nc)
	for i := range scripts {
		scripts[i] = genSyncConcurrent(r)
	}
	type tc struct {
		term string
		side cf.Sidecar
	}
	res := make([]tc, nc)
	var wg sync.WaitGroup
	sem := make(chan struct{}, 48)
	for i := range scripts {
		wg.Add(1)
		go func(i int) {
			defer wg.Done()
			sem <- struct{}{}
			res[i].term, res[i].side = syncCase(scripts[i])
			<-sem
		}(i)
	}
	wg.Wait()
	for _, x := range res {
		ws.Add(x.term, x.side)
	}
	hangs = 0
	for _, s := range consumerCorpus() {
		wc.Add(consumerCase(s))
	}
	for i := 0; i < *n && hangs < 2; i++ {
		wc.Add(consumerCase(genConsumer(r)))
	}
	// concurrent YieldMessage callers on one partition consumer, as the sequential script of their linearisation
	for i := 0; i < *n && hangs < 2; i++ {
		wc.Add(concurrentYieldCase(r))
	}
	for i := 0; i < 4 && hangs < 2; i++ {
		wc.Add(stressYieldCase(r))
	}
	wa.Close()
	ws.Close()
	wc.Close()
}
