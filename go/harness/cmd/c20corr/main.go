// c20corr: runs sarama/mocks producers on generated scripts and writes the observations as Coq
// cases for SV.C20.Corr, plus the direct property oracle (monitor) verdict per case.
package main

import (
	"errors"
	"flag"
	"fmt"
	"math/rand"
	"strconv"
	"strings"
	"sync"

	"github.com/Shopify/sarama"
	"github.com/Shopify/sarama/mocks"

	cf "verifharness/internal/coqfmt"
)

type exp struct {
	Succ bool  `json:"succ"`
	Err  int64 `json:"err"`
	Chk  int   `json:"chk"` // 0 none 1 pass 2 fail
	CErr int64 `json:"cerr"`
}
type msg struct {
	ID    int64 `json:"id"`
	Topic int   `json:"topic"`
	POk   bool  `json:"pok"`
	P     int64 `json:"p"`
	PErr  int64 `json:"perr"`
}
type script struct {
	Mode      string          `json:"mode"` // async | sync
	RetSucc   bool            `json:"ret_succ"`
	RetErr    bool            `json:"ret_err"`
	DefParts  int32           `json:"def_parts"`
	Overrides map[string]int32 `json:"overrides"`
	Exps      []exp           `json:"exps"`
	Msgs      []msg           `json:"msgs"`
}

type reporter struct {
	mu   sync.Mutex
	logs []string
}

func (r *reporter) Errorf(f string, a ...interface{}) {
	r.mu.Lock()
	r.logs = append(r.logs, fmt.Sprintf(f, a...))
	r.mu.Unlock()
}

func classify(s string) string {
	switch {
	case strings.HasPrefix(s, "No more expectation"):
		return "RepNoExpectation"
	case strings.HasPrefix(s, "Partitioner returned"):
		return "RepPartitioner"
	case strings.HasPrefix(s, "Check function returned"):
		return "RepChecker"
	case strings.HasPrefix(s, "Expected to exhaust all expectations, but "):
		n := strings.Fields(strings.TrimPrefix(s, "Expected to exhaust all expectations, but "))[0]
		return "(RepLeftOver " + n + ")"
	case strings.HasPrefix(s, "Insufficient expectations"):
		return "RepInsufficient"
	}
	return "(RepUnknown)" // does not type-check in Coq on purpose: an unknown report is a broken tie
}

func errID(e error) int64 {
	if e == nil {
		return 0
	}
	s := e.Error()
	if strings.HasPrefix(s, "e") {
		if v, err := strconv.ParseInt(s[1:], 10, 64); err == nil {
			return v
		}
	}
	if strings.HasPrefix(s, "No more expectations set on mock") {
		return -1
	}
	return -999
}

// scripted partitioner: outcome is carried by the message's Metadata; records the partition count offered
type scriptedPartitioner struct {
	seen *[]int64
	mu   *sync.Mutex
}

func (p scriptedPartitioner) Partition(m *sarama.ProducerMessage, n int32) (int32, error) {
	p.mu.Lock()
	*p.seen = append(*p.seen, int64(n))
	p.mu.Unlock()
	sm := m.Metadata.(msg)
	if sm.POk {
		return int32(sm.P), nil
	}
	return -1, fmt.Errorf("e%d", sm.PErr)
}
func (p scriptedPartitioner) RequiresConsistency() bool { return false }

func topicName(i int) string { return fmt.Sprintf("t%d", i) }

type obsAsync struct {
	Succ    [][3]int64 `json:"succ"`
	Errs    [][2]int64 `json:"errs"`
	Reports []string   `json:"reports"`
	NP      []int64    `json:"np"`
}

func runAsync(s script) obsAsync {
	rep := &reporter{}
	var seen []int64
	var mu sync.Mutex
	cfg := sarama.NewConfig()
	cfg.Producer.Return.Successes = s.RetSucc
	cfg.Producer.Return.Errors = s.RetErr
	cfg.ChannelBufferSize = 64
	cfg.Producer.Partitioner = func(string) sarama.Partitioner { return scriptedPartitioner{&seen, &mu} }
	mp := mocks.NewAsyncProducer(rep, cfg)
	mp.SetDefaultPartitions(s.DefParts)
	mp.SetPartitions(s.Overrides)
	addExps(s, func(c mocks.MessageChecker, succ bool, err error) {
		if succ {
			mp.ExpectInputWithMessageCheckerFunctionAndSucceed(c)
		} else {
			mp.ExpectInputWithMessageCheckerFunctionAndFail(c, err)
		}
	})
	var o obsAsync
	var wg sync.WaitGroup
	wg.Add(2)
	go func() {
		defer wg.Done()
		for m := range mp.Successes() {
			o.Succ = append(o.Succ, [3]int64{m.Metadata.(msg).ID, int64(m.Partition), m.Offset})
		}
	}()
	go func() {
		defer wg.Done()
		for e := range mp.Errors() {
			o.Errs = append(o.Errs, [2]int64{e.Msg.Metadata.(msg).ID, errID(e.Err)})
		}
	}()
	for _, m := range s.Msgs {
		mp.Input() <- &sarama.ProducerMessage{Topic: topicName(m.Topic), Metadata: m, Partition: -7}
	}
	_ = mp.Close()
	wg.Wait()
	for _, l := range rep.logs {
		o.Reports = append(o.Reports, classify(l))
	}
	o.NP = seen
	return o
}

func addExps(s script, add func(c mocks.MessageChecker, succ bool, err error)) {
	for _, e := range s.Exps {
		e := e
		var c mocks.MessageChecker
		switch e.Chk {
		case 1:
			c = func(*sarama.ProducerMessage) error { return nil }
		case 2:
			c = func(*sarama.ProducerMessage) error { return fmt.Errorf("e%d", e.CErr) }
		}
		if e.Succ {
			add(c, true, nil)
		} else {
			add(c, false, fmt.Errorf("e%d", e.Err))
		}
	}
}

type syncRet struct {
	RetP, Off, MsgP, Err int64
	Reports              []string
}
type obsSync struct {
	Rets  []syncRet `json:"rets"`
	Close []string  `json:"close"`
	NP    []int64   `json:"np"`
}

func runSync(s script) obsSync {
	rep := &reporter{}
	var seen []int64
	var mu sync.Mutex
	cfg := sarama.NewConfig()
	cfg.Producer.Return.Successes = true
	cfg.Producer.Partitioner = func(string) sarama.Partitioner { return scriptedPartitioner{&seen, &mu} }
	sp := mocks.NewSyncProducer(rep, cfg)
	sp.SetDefaultPartitions(s.DefParts)
	sp.SetPartitions(s.Overrides)
	addExps(s, func(c mocks.MessageChecker, succ bool, err error) {
		if succ {
			sp.ExpectSendMessageWithMessageCheckerFunctionAndSucceed(c)
		} else {
			sp.ExpectSendMessageWithMessageCheckerFunctionAndFail(c, err)
		}
	})
	var o obsSync
	for _, m := range s.Msgs {
		pm := &sarama.ProducerMessage{Topic: topicName(m.Topic), Metadata: m, Partition: -7}
		before := len(rep.logs)
		p, off, err := sp.SendMessage(pm)
		r := syncRet{RetP: int64(p), Off: off, MsgP: int64(pm.Partition), Err: errID(err)}
		for _, l := range rep.logs[before:] {
			r.Reports = append(r.Reports, classify(l))
		}
		o.Rets = append(o.Rets, r)
	}
	before := len(rep.logs)
	_ = sp.Close()
	for _, l := range rep.logs[before:] {
		o.Close = append(o.Close, classify(l))
	}
	o.NP = seen
	return o
}

// ---------- printing ----------
func coqExps(es []exp) string {
	var it []string
	for _, e := range es {
		res := "RSucc"
		if !e.Succ {
			res = cf.App("RFail", cf.Z(e.Err))
		}
		chk := [...]string{"CNone", "CPass", ""}[min(e.Chk, 2)]
		if e.Chk == 2 {
			chk = cf.App("CFail", cf.Z(e.CErr))
		}
		it = append(it, fmt.Sprintf("{| e_res := %s; e_chk := %s |}", res, chk))
	}
	return cf.List(it)
}
func min(a, b int) int {
	if a < b {
		return a
	}
	return b
}
func coqMsgs(ms []msg) string {
	var it []string
	for _, m := range ms {
		pr := cf.App("PErr", cf.Z(m.PErr))
		if m.POk {
			pr = cf.App("POk", cf.Z(m.P))
		}
		it = append(it, fmt.Sprintf("(%d, {| m_id := %s; m_pres := %s |})", m.Topic, cf.Z(m.ID), pr))
	}
	return cf.List(it)
}
func coqOverrides(o map[string]int32) string {
	var it []string
	for i := 0; i < 4; i++ {
		if n, ok := o[topicName(i)]; ok {
			it = append(it, fmt.Sprintf("(%d, %s)", i, cf.Z(int64(n))))
		}
	}
	return cf.List(it)
}

func gen(r *rand.Rand, mode string) script {
	s := script{Mode: mode, RetSucc: r.Intn(4) != 0, RetErr: r.Intn(4) != 0, DefParts: int32(1 + r.Intn(40)), Overrides: map[string]int32{}}
	for i := 0; i < 3; i++ {
		if r.Intn(3) == 0 {
			s.Overrides[topicName(i)] = int32(1 + r.Intn(9))
		}
	}
	ne, nm := r.Intn(6), r.Intn(7)
	if r.Intn(3) == 0 {
		ne = nm
	}
	for i := 0; i < ne; i++ {
		s.Exps = append(s.Exps, exp{Succ: r.Intn(3) != 0, Err: int64(100 + r.Intn(5)), Chk: r.Intn(3), CErr: int64(200 + r.Intn(5))})
	}
	for i := 0; i < nm; i++ {
		s.Msgs = append(s.Msgs, msg{ID: int64(i + 1), Topic: r.Intn(3), POk: r.Intn(5) != 0, P: int64(r.Intn(9)), PErr: int64(300 + r.Intn(5))})
	}
	return s
}

// monitor: the property stated directly on the observation (independent of the Coq model)
func monitorAsync(s script, o obsAsync) *cf.Monitor {
	count := map[int64]int{}
	for _, x := range o.Succ {
		count[x[0]]++
	}
	for _, x := range o.Errs {
		count[x[0]]++
	}
	for i, m := range s.Msgs {
		if count[m.ID] > 1 {
			return &cf.Monitor{Signature: "async:two-outcomes", What: fmt.Sprintf("message %d got %d terminal events", m.ID, count[m.ID])}
		}
		if i < len(s.Exps) && s.RetSucc && s.RetErr && count[m.ID] != 1 {
			return &cf.Monitor{Signature: "async:no-outcome", What: fmt.Sprintf("message %d with an expectation got %d terminal events", m.ID, count[m.ID])}
		}
	}
	last := int64(0)
	for _, x := range o.Succ {
		if x[2] <= last {
			return &cf.Monitor{Signature: "async:offsets-not-increasing", What: fmt.Sprintf("offset %d after %d", x[2], last)}
		}
		last = x[2]
	}
	return nil
}

func main() {
	out := flag.String("out", ".", "output directory")
	seed := flag.Int64("seed", 1, "seed")
	n := flag.Int("n", 600, "number of random scripts per mode")
	flag.Parse()
	r := rand.New(rand.NewSource(*seed))
	wa := &cf.Writer{Dir: *out, Prefix: "cases_async", Imports: "From SV Require Import C20.Model C20.Corr.", CaseType: "acase", MismatchFn: "mismatches_async", ShardSize: 400}
	ws := &cf.Writer{Dir: *out, Prefix: "cases_sync", Imports: "From SV Require Import C20.Model C20.Corr.", CaseType: "scase", MismatchFn: "mismatches_sync", ShardSize: 400}
	// corpus first: the checker-on-success witness (fixed defect), leftovers, no expectation
	corpus := []script{
		{Mode: "async", RetSucc: true, RetErr: true, DefParts: 32, Overrides: map[string]int32{}, Exps: []exp{{Succ: true, Chk: 2, CErr: 201}}, Msgs: []msg{{ID: 1, POk: true, P: 3}}},
		{Mode: "async", RetSucc: true, RetErr: true, DefParts: 32, Overrides: map[string]int32{"t1": 4}, Exps: []exp{{Succ: true}, {Succ: false, Err: 101}, {Succ: true}}, Msgs: []msg{{ID: 1, Topic: 1, POk: true, P: 2}}},
		{Mode: "async", RetSucc: true, RetErr: true, DefParts: 32, Overrides: map[string]int32{}, Exps: nil, Msgs: []msg{{ID: 1, POk: true, P: 2}, {ID: 2, POk: false, PErr: 301}}},
	}
	for i := 0; i < *n+len(corpus); i++ {
		var s script
		if i < len(corpus) {
			s = corpus[i]
		} else {
			s = gen(r, "async")
		}
		o := runAsync(s)
		var su, er []string
		for _, x := range o.Succ {
			su = append(su, fmt.Sprintf("(%s, %s, %s)", cf.Z(x[0]), cf.Z(x[1]), cf.Z(x[2])))
		}
		for _, x := range o.Errs {
			er = append(er, fmt.Sprintf("(%s, %s)", cf.Z(x[0]), cf.Z(x[1])))
		}
		term := fmt.Sprintf("{| ac_cfg := {| ret_succ := %s; ret_err := %s |}; ac_def := %d; ac_over := %s; ac_exps := %s; ac_msgs := %s; ac_succ := %s; ac_errs := %s; ac_reports := %s; ac_np := %s |}",
			cf.Bool(s.RetSucc), cf.Bool(s.RetErr), s.DefParts, coqOverrides(s.Overrides), coqExps(s.Exps), coqMsgs(s.Msgs), cf.List(su), cf.List(er), cf.List(o.Reports), cf.ZList(o.NP))
		wa.Add(term, cf.Sidecar{Case: map[string]interface{}{"script": s, "observed": o}, Kind: "async", Nontrivial: len(s.Msgs) > 0 && len(s.Exps) > 0, Monitor: monitorAsync(s, o)})
	}
	for i := 0; i < *n; i++ {
		s := gen(r, "sync")
		o := runSync(s)
		var rets []string
		for _, x := range o.Rets {
			rets = append(rets, fmt.Sprintf("(%s, %s, %s, %s, %s)", cf.Z(x.RetP), cf.Z(x.Off), cf.Z(x.MsgP), cf.Z(x.Err), cf.List(x.Reports)))
		}
		term := fmt.Sprintf("{| sc_def := %d; sc_over := %s; sc_exps := %s; sc_msgs := %s; sc_rets := %s; sc_close := %s; sc_np := %s |}",
			s.DefParts, coqOverrides(s.Overrides), coqExps(s.Exps), coqMsgs(s.Msgs), cf.List(rets), cf.List(o.Close), cf.ZList(o.NP))
		var mon *cf.Monitor
		lastOff := int64(0)
		for _, x := range o.Rets {
			if x.Err == 0 {
				if x.Off <= lastOff {
					mon = &cf.Monitor{Signature: "sync:offsets-not-increasing", What: fmt.Sprintf("offset %d after %d", x.Off, lastOff)}
				}
				lastOff = x.Off
			}
		}
		ws.Add(term, cf.Sidecar{Case: map[string]interface{}{"script": s, "observed": o}, Kind: "sync", Nontrivial: len(s.Msgs) > 0 && len(s.Exps) > 0, Monitor: mon})
	}
	wa.Close()
	ws.Close()
	_ = errors.New
}
