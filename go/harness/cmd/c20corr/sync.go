package main

import (
	"fmt"
	"math/rand"
	"strings"
	"time"

	"github.com/Shopify/sarama"
	"github.com/Shopify/sarama/mocks"

	cf "verifharness/internal/coqfmt"
)

// one call on the sync mock: SendMessage(Msgs[0]) or SendMessages(Msgs)
type scall struct {
	Batch bool  `json:"batch"`
	Msgs  []msg `json:"msgs"`
}
type sscript struct {
	Mode      string           `json:"mode"`
	DefParts  int32            `json:"def_parts"`
	Overrides map[string]int32 `json:"overrides"`
	// DefParts/Overrides is the configuration meant to be in effect; CfgVariant picks how it is put in place and which
	// of the maps handed to SetPartitions the harness afterwards edits or shares with another mock (cfgOps)
	CfgVariant int     `json:"cfg_variant"`
	Exps       []exp   `json:"exps"`
	Calls      []scall `json:"calls"`
	// Concurrent: the first two calls (both SendMessage) are made by two goroutines A and B. The checker of the first
	// expectation, once entered by A, holds A until B's call has returned or 100 ms have passed (on the unmodified
	// mock B waits for the lock A holds, so it is always the time-out, and the calls are serialised A, B).
	Concurrent bool `json:"concurrent,omitempty"`
}

type syncRet struct {
	RetP, Off, Err int64
	After          [][2]int64 // (Partition, Offset) of each message after the call
	Reports        []string
	Checks         [][2]int64
}
type obsSync struct {
	Rets  []syncRet  `json:"rets"`
	Close []string   `json:"close"`
	NP    [][3]int64 `json:"np"`
	Ctors []int64    `json:"ctors"`
	Hang  bool       `json:"hang,omitempty"`
	// concurrent cases: did B's call return while A was still inside its checker?
	Overlapped bool `json:"overlapped,omitempty"`
}

func runSync(s sscript) (o obsSync) {
	if !watchdog(func() { o = runSync1(s) }) {
		return obsSync{Hang: true}
	}
	return
}

func runSync1(s sscript) obsSync {
	rep := &reporter{}
	clog := newCheckLog()
	plog := &partLog{}
	cfg := sarama.NewConfig()
	cfg.Producer.Return.Successes = true
	cfg.Producer.Partitioner = plog.constructor()
	sp := mocks.NewSyncProducer(rep, cfg)
	applyCfg(sp.TopicConfig, cfgOps(s.DefParts, s.Overrides, s.CfgVariant))
	entered, gate := make(chan struct{}), make(chan struct{})
	first := s.Exps
	if s.Concurrent { // the first expectation gets the gated checker
		e0 := s.Exps[0]
		first = s.Exps[1:]
		var res, serr error
		if e0.Chk == 2 {
			res = fmt.Errorf("e%d", e0.CErr)
		}
		if !e0.Succ {
			serr = fmt.Errorf("e%d", e0.Err)
		}
		chk := func(m *sarama.ProducerMessage) error {
			clog.mu.Lock()
			clog.Calls = append(clog.Calls, [2]int64{m.Metadata.(msg).ID, int64(m.Partition)})
			clog.mu.Unlock()
			close(entered)
			<-gate
			return res
		}
		if e0.Succ {
			sp.ExpectSendMessageWithMessageCheckerFunctionAndSucceed(chk)
		} else {
			sp.ExpectSendMessageWithMessageCheckerFunctionAndFail(chk, serr)
		}
	}
	addExps(first, clog, expAPI{
		msgChk: func(c mocks.MessageChecker, succ bool, err error) {
			if succ {
				sp.ExpectSendMessageWithMessageCheckerFunctionAndSucceed(c)
			} else {
				sp.ExpectSendMessageWithMessageCheckerFunctionAndFail(c, err)
			}
		},
		valChk: func(c mocks.ValueChecker, succ bool, err error) {
			if succ {
				sp.ExpectSendMessageWithCheckerFunctionAndSucceed(c)
			} else {
				sp.ExpectSendMessageWithCheckerFunctionAndFail(c, err)
			}
		},
		plain: func(succ bool, err error) {
			if succ {
				sp.ExpectSendMessageAndSucceed()
			} else {
				sp.ExpectSendMessageAndFail(err)
			}
		}})
	var o obsSync
	calls := s.Calls
	if s.Concurrent {
		calls = s.Calls[2:]
		pa, pb := clog.message(s.Calls[0].Msgs[0]), clog.message(s.Calls[1].Msgs[0])
		one := func(pm *sarama.ProducerMessage, r *syncRet, done chan struct{}) {
			p, off, err := sp.SendMessage(pm)
			*r = syncRet{RetP: int64(p), Off: off, Err: errID(err), After: [][2]int64{{int64(pm.Partition), pm.Offset}}}
			close(done)
		}
		var ra, rb syncRet
		doneA, doneB := make(chan struct{}), make(chan struct{})
		go one(pa, &ra, doneA)
		select {
		case <-entered: // A is inside the first expectation's checker
		case <-doneA: // the checker was not reached (partitioner error)
		}
		go one(pb, &rb, doneB)
		select {
		case <-doneB:
			o.Overlapped = true
		case <-time.After(100 * time.Millisecond):
		}
		close(gate)
		<-doneA
		<-doneB
		// B may start logging the instant A releases the lock, so the two calls' reporter and checker calls are told
		// apart by content: the generator gives the first expectation's checker the error id 209 and nobody else
		idA := s.Calls[0].Msgs[0].ID
		for _, l := range rep.snapshot() {
			if strings.HasSuffix(l, ": e209") {
				ra.Reports = append(ra.Reports, classify(l))
			} else {
				rb.Reports = append(rb.Reports, classify(l))
			}
		}
		for _, c := range clog.snapshot() {
			if c[0] == idA {
				ra.Checks = append(ra.Checks, c)
			} else {
				rb.Checks = append(rb.Checks, c)
			}
		}
		o.Rets = append(o.Rets, ra, rb)
	}
	for _, c := range calls {
		var pms []*sarama.ProducerMessage
		for _, m := range c.Msgs {
			pms = append(pms, clog.message(m))
		}
		before, cbefore := len(rep.logs), len(clog.Calls)
		var r syncRet
		if c.Batch {
			err := sp.SendMessages(pms)
			if err == nil {
				r = syncRet{RetP: 0, Off: 0, Err: 0}
			} else {
				r = syncRet{RetP: -1, Off: -1, Err: errID(err)}
			}
		} else {
			p, off, err := sp.SendMessage(pms[0])
			r = syncRet{RetP: int64(p), Off: off, Err: errID(err)}
		}
		for _, pm := range pms {
			r.After = append(r.After, [2]int64{int64(pm.Partition), pm.Offset})
		}
		for _, l := range rep.logs[before:] {
			r.Reports = append(r.Reports, classify(l))
		}
		r.Checks = append(r.Checks, clog.Calls[cbefore:]...)
		o.Rets = append(o.Rets, r)
	}
	before := len(rep.logs)
	_ = sp.Close()
	for _, l := range rep.logs[before:] {
		o.Close = append(o.Close, classify(l))
	}
	o.NP, o.Ctors = plog.Calls, plog.Ctors
	return o
}

func genSync(r *rand.Rand) sscript {
	s := sscript{Mode: "sync", CfgVariant: r.Intn(32), DefParts: int32(1 + r.Intn(40)), Overrides: map[string]int32{}}
	for i := 0; i < 3; i++ {
		if r.Intn(3) == 0 {
			s.Overrides[topicName(i)] = int32(1 + r.Intn(9))
		}
	}
	nc := r.Intn(6)
	id := int64(0)
	total := 0
	for i := 0; i < nc; i++ {
		c := scall{Batch: r.Intn(2) == 0}
		n := 1
		if c.Batch {
			n = r.Intn(5) // an empty batch is legal
		}
		for j := 0; j < n; j++ {
			id++
			m := genMsg(r, id)
			if c.Batch && r.Intn(3) != 0 {
				m.POk = true // long successful prefixes inside batches
			}
			c.Msgs = append(c.Msgs, m)
		}
		total += n
		s.Calls = append(s.Calls, c)
	}
	ne := r.Intn(10)
	switch r.Intn(3) {
	case 0:
		ne = total
	case 1:
		ne = total + r.Intn(3)
	}
	s.Exps = genExps(r, ne)
	if r.Intn(2) == 0 { // mostly-successful scripts so that offsets run across several calls
		for i := range s.Exps {
			if r.Intn(4) != 0 {
				s.Exps[i].Succ, s.Exps[i].Chk = true, r.Intn(2)
			}
		}
	}
	return s
}

// genSyncConcurrent: two goroutines call SendMessage; the first expectation has the gated checker.
func genSyncConcurrent(r *rand.Rand) sscript {
	s := sscript{Mode: "sync", Concurrent: true, CfgVariant: r.Intn(32), DefParts: int32(1 + r.Intn(40)), Overrides: map[string]int32{}}
	n := 2 + r.Intn(3)
	for i := 0; i < n; i++ {
		m := genMsg(r, int64(i+1))
		if i == 0 || r.Intn(3) != 0 {
			m.POk = true
		}
		s.Calls = append(s.Calls, scall{Msgs: []msg{m}})
	}
	s.Exps = genExps(r, n+r.Intn(2))
	for i := range s.Exps {
		if r.Intn(3) != 0 {
			s.Exps[i].Succ = true
			if s.Exps[i].Chk == 2 {
				s.Exps[i].Chk = 1
			}
		}
	}
	s.Exps[0].Chk, s.Exps[0].Via, s.Exps[0].CErr = 1+r.Intn(4)/3, 0, 209 // a checker (mostly passing) on the first expectation
	return s
}

// monitor: the property read directly off the observation.
func monitorSync(s sscript, o obsSync) *cf.Monitor {
	topicOf := map[int64]int{}
	for _, c := range s.Calls {
		for _, m := range c.Msgs {
			topicOf[m.ID] = m.Topic
		}
	}
	if m := monitorPartitioner("sync", &partLog{Ctors: o.Ctors, Calls: o.NP}, topicOf, s.DefParts, s.Overrides); m != nil {
		return m
	}
	if o.Hang {
		return &cf.Monitor{Signature: "sync:hang", What: "the mock did not finish the script within 5 s"}
	}
	if s.Concurrent {
		// submission order = expectation order (A's call took the first expectation before B was started):
		// the i-th call's offset is 1 + the number of earlier successful calls
		succ := int64(0)
		for ci, x := range o.Rets {
			if x.Err == 0 {
				succ++
				if x.Off != succ {
					return &cf.Monitor{Signature: "sync:offset-order-under-concurrency", What: fmt.Sprintf("two concurrent SendMessage callers (B returned inside A's checker: %v): the call that took expectation %d got offset %d, want %d", o.Overlapped, ci, x.Off, succ)}
				}
			}
		}
	}
	idx := 0         // expectations consumed so far
	next := int64(1) // next offset to be handed out
	for ci, c := range s.Calls {
		got := o.Rets[ci]
		wantErr, wantRep := int64(0), []string(nil)
		var wantChk [][2]int64
		wantAfter := make([][2]int64, len(c.Msgs))
		for i := range wantAfter {
			wantAfter[i] = [2]int64{-7, -9}
		}
		if !c.Batch {
			m := c.Msgs[0]
			if idx >= len(s.Exps) {
				wantErr, wantRep = -1, []string{"RepNoExpectation"}
			} else {
				e, rp := scriptedOutcome(s.Exps[idx], m)
				wantChk = wantCheck(s.Exps[idx], m)
				idx++
				wantErr = e
				if rp != "" {
					wantRep = []string{rp}
				}
				if m.POk {
					wantAfter[0][0] = m.P
				}
				if e == 0 {
					wantAfter[0][1] = next
					if got.Off != next {
						return &cf.Monitor{Signature: "sync:offsets-not-consecutive", What: fmt.Sprintf("call %d: SendMessage returned offset %d, want %d", ci, got.Off, next)}
					}
					next++
				}
			}
		} else if len(s.Exps)-idx < len(c.Msgs) {
			wantErr, wantRep = -1, []string{"RepInsufficient"}
		} else {
			es := s.Exps[idx : idx+len(c.Msgs)]
			idx += len(c.Msgs) // all-or-nothing: the whole slice is consumed even when the loop stops early
			for i, m := range c.Msgs {
				e, rp := scriptedOutcome(es[i], m)
				wantChk = append(wantChk, wantCheck(es[i], m)...)
				if m.POk {
					wantAfter[i][0] = m.P
				}
				if e != 0 {
					wantErr = e
					if rp != "" {
						wantRep = []string{rp}
					}
					break
				}
				wantAfter[i][1] = next
				next++
			}
		}
		if got.Err != wantErr {
			return &cf.Monitor{Signature: "sync:wrong-return", What: fmt.Sprintf("call %d returned error id %d, scripted %d", ci, got.Err, wantErr)}
		}
		if fmt.Sprint(got.Checks) != fmt.Sprint(wantChk) {
			return &cf.Monitor{Signature: "sync:checker-calls", What: fmt.Sprintf("call %d: checkers were called with (id, Partition) %v, want %v", ci, got.Checks, wantChk)}
		}
		if !strsEq(got.Reports, wantRep) {
			return &cf.Monitor{Signature: "sync:reports", What: fmt.Sprintf("call %d reported %v, want %v", ci, got.Reports, wantRep)}
		}
		for i := range wantAfter {
			if got.After[i][1] != wantAfter[i][1] {
				return &cf.Monitor{Signature: "sync:offsets-not-consecutive", What: fmt.Sprintf("call %d message %d: Offset %d, want %d", ci, i, got.After[i][1], wantAfter[i][1])}
			}
			if got.After[i][0] != wantAfter[i][0] {
				return &cf.Monitor{Signature: "sync:message-partition", What: fmt.Sprintf("call %d message %d: Partition %d, want %d", ci, i, got.After[i][0], wantAfter[i][0])}
			}
		}
	}
	var wantClose []string
	if idx < len(s.Exps) {
		wantClose = []string{fmt.Sprintf("(RepLeftOver %d)", len(s.Exps)-idx)}
	}
	if !strsEq(o.Close, wantClose) {
		return &cf.Monitor{Signature: "sync:close-report", What: fmt.Sprintf("Close reported %v, want %v (expectations consumed %d of %d)", o.Close, wantClose, idx, len(s.Exps))}
	}
	return nil
}

func syncCorpus() []sscript {
	m := func(id int64, p int64) msg { return msg{ID: id, POk: true, P: p} }
	return []sscript{
		// batch stops at the scripted failure of its 2nd message: all 3 expectations are gone, offset 2 only
		{Mode: "sync", DefParts: 32, Overrides: map[string]int32{}, Exps: []exp{{Succ: true}, {Succ: true}, {Succ: false, Err: 101}, {Succ: true}, {Succ: true}},
			Calls: []scall{{Msgs: []msg{m(1, 1)}}, {Batch: true, Msgs: []msg{m(2, 2), m(3, 3), m(4, 4)}}, {Msgs: []msg{m(5, 5)}}, {Batch: true, Msgs: []msg{m(6, 6), m(7, 7)}}}},
		// partitioner failure inside a batch; left-over at Close
		{Mode: "sync", DefParts: 8, Overrides: map[string]int32{"t0": 3}, Exps: []exp{{Succ: true, Chk: 1}, {Succ: true}, {Succ: true}, {Succ: true}},
			Calls: []scall{{Batch: true, Msgs: []msg{m(1, 0), {ID: 2, POk: false, PErr: 301}}}, {Batch: true, Msgs: nil}, {Msgs: []msg{m(3, 2)}}}},
	}
}

func syncCase(s sscript) (string, cf.Sidecar) {
	o := runSync(s)
	var rets, calls []string
	for _, x := range o.Rets {
		var after []string
		for _, a := range x.After {
			after = append(after, fmt.Sprintf("(%s, %s)", cf.Z(a[0]), cf.Z(a[1])))
		}
		rets = append(rets, fmt.Sprintf("(%s, %s, %s, %s, %s, %s)", cf.Z(x.RetP), cf.Z(x.Off), cf.Z(x.Err), cf.List(after), cf.List(x.Reports), coqZ2s(x.Checks)))
	}
	nmsgs := 0
	for _, c := range s.Calls {
		nmsgs += len(c.Msgs)
		if c.Batch {
			calls = append(calls, cf.App("KBatch", coqMsgs(c.Msgs)))
		} else {
			calls = append(calls, cf.App("KSend", fmt.Sprint(c.Msgs[0].Topic), coqMsg(c.Msgs[0])))
		}
	}
	term := fmt.Sprintf("{| sc_tc := %s; sc_exps := %s; sc_calls := %s; sc_rets := %s; sc_close := %s; sc_np := %s; sc_ctor := %s |}",
		coqCfgOps(cfgOps(s.DefParts, s.Overrides, s.CfgVariant)), coqExps(s.Exps), cf.List(calls), cf.List(rets), cf.List(o.Close), coqZ3s(o.NP), cf.ZList(o.Ctors))
	mon := monitorSync(s, o)
	kind := "sync"
	if s.Concurrent {
		kind = "sync-2callers"
		o.Overlapped = false // timing detail, kept out of the recorded case
	}
	return term, cf.Sidecar{Case: map[string]interface{}{"script": s, "observed": o}, Kind: kind, Nontrivial: nmsgs > 0 && len(s.Exps) > 0, Monitor: mon}
}
