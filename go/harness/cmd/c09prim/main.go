// c09prim: correspondence + monitor harness for the primitive layer of C09 (wire encoding round-trips).
//   stream a  scripts of put-calls (boundary corpus + random, with nested length / varint-length / CRC frames) run
//             through sarama's encode() (prepEncoder + realEncoder) and decoded back with the mirror get-calls;
//   stream b  CRC-32 (IEEE, Castagnoli) of random buffers.
// Writes cases for SV.Wire.CorrPrim and the direct round-trip / sizing oracle verdict per case.
package main

import (
	"flag"
	"fmt"
	"math/rand"

	"github.com/Shopify/sarama"

	cf "verifharness/internal/coqfmt"
	w1 "verifharness/internal/wire1"
)

func kinds(ops []w1.EOp) string {
	seen := map[string]bool{}
	s := ""
	var walk func(o []w1.EOp)
	walk = func(o []w1.EOp) {
		for _, x := range o {
			k := x.Op
			if k == "frame" {
				k = "frame-" + x.Kind
			}
			if !seen[k] {
				seen[k] = true
				if s != "" {
					s += "+"
				}
				s += k
			}
			walk(x.Body)
		}
	}
	walk(ops)
	return s
}

func main() {
	out := flag.String("out", ".", "output directory")
	seed := flag.Int64("seed", 1, "seed")
	n := flag.Int("n", 300, "number of random scripts")
	flag.Parse()
	g := &w1.Gen{R: rand.New(rand.NewSource(*seed))}
	we := w1.NewSizedWriter(*out, "cases_enc", "ecase", "mismatches_enc", 150, 200000)
	wd := w1.NewSizedWriter(*out, "cases_dec", "dcase", "mismatches_dec", 150, 200000)
	wc := w1.NewSizedWriter(*out, "cases_crc", "ccase", "mismatches_crc", 150, 200000)

	scripts := w1.BoundaryScripts()
	nb := len(scripts)
	for i := 0; i < *n; i++ {
		scripts = append(scripts, g.Script(3, 5))
	}
	for i, ops := range scripts {
		kind := "random"
		if i < nb {
			kind = "boundary"
		}
		res := sarama.VerifEncodeScript(ops)
		var mon *cf.Monitor
		want := w1.ExpectEncStatus(ops)
		switch {
		case res.Status != want:
			mon = &cf.Monitor{Signature: fmt.Sprintf("prim:encode-status:%s", kinds(ops)), What: fmt.Sprintf("encode() status %d (panic %q), expected %d", res.Status, res.Panic, want)}
		case res.Status == 0 && (res.PrepLen != len(res.Bytes) || res.RealOff != res.PrepLen || !res.RealSame):
			mon = &cf.Monitor{Signature: fmt.Sprintf("prim:sizing:%s", kinds(ops)), What: fmt.Sprintf("prepEncoder.length=%d, realEncoder.off=%d, len(bytes)=%d, same=%v", res.PrepLen, res.RealOff, len(res.Bytes), res.RealSame)}
		}
		desc := map[string]interface{}{"script": w1.Describe(ops), "status": res.Status, "prep": res.PrepLen, "bytes": w1.Hex(res.Bytes)}
		we.Add(w1.ECaseTerm(ops, res), cf.Sidecar{Case: desc, Kind: "encode-" + kind, Nontrivial: len(res.Bytes) > 1 || res.Status != 0, Monitor: mon})
		if res.Status != 0 {
			continue
		}
		// decode it back, at offset 0 or embedded between junk
		buf, start := res.Bytes, 0
		if i >= nb && g.R.Intn(3) == 0 {
			pre, suf := g.Bytes(g.R.Intn(9)), g.Bytes(g.R.Intn(9))
			start = len(pre)
			buf = append(append(append([]byte{}, pre...), res.Bytes...), suf...)
		}
		dops := w1.DOps(ops)
		dres := sarama.VerifDecodeScript(buf, start, dops)
		var dmon *cf.Monitor
		exp := w1.Expected(ops)
		if dres.Status != 0 || dres.Off != start+len(res.Bytes) || len(dres.Vals) != len(exp) {
			dmon = &cf.Monitor{Signature: "prim:roundtrip:" + dres.Where, What: fmt.Sprintf("decoding the encoding stopped with status %d (%s) at offset %d of %d", dres.Status, dres.Panic, dres.Off, start+len(res.Bytes))}
		} else {
			for j := range exp {
				if !w1.DValEq(exp[j], dres.Vals[j]) {
					dmon = &cf.Monitor{Signature: "prim:roundtrip:" + dops[j].Op, What: fmt.Sprintf("value %d (%s) decoded as %+v, encoded from %+v", j, dops[j].Op, dres.Vals[j], exp[j])}
					break
				}
			}
		}
		ddesc := map[string]interface{}{"script": w1.Describe(ops), "start": start, "buf": w1.Hex(buf), "status": dres.Status, "off": dres.Off}
		wd.Add(w1.DCaseTerm(buf, start, dops, dres.Vals, dres.Status, dres.Off), cf.Sidecar{Case: ddesc, Kind: "decode-" + kind, Nontrivial: len(res.Bytes) > 1, Monitor: dmon})
	}

	// stream b: CRC
	nc := *n / 2
	for i := 0; i < nc; i++ {
		sz := g.R.Intn(64)
		switch {
		case i == 0:
			sz = 0
		case i%10 == 1:
			sz = 200 + g.R.Intn(300)
		case i%50 == 2:
			sz = 4096
		}
		data := g.Bytes(sz)
		if i == 1 {
			data = []byte("123456789")
		}
		a, b := sarama.VerifCRC(data)
		var mon *cf.Monitor
		if i == 1 && (a != 0xCBF43926 || b != 0xE3069283) {
			mon = &cf.Monitor{Signature: "crc:check-value", What: fmt.Sprintf("CRC of \"123456789\": %#x / %#x", a, b)}
		}
		wc.Add(fmt.Sprintf("{| cc_data := %s; cc_ieee := %d; cc_cast := %d |}", w1.CoqBytes(data), a, b),
			cf.Sidecar{Case: map[string]interface{}{"data": w1.Hex(data), "ieee": a, "castagnoli": b}, Kind: "crc", Nontrivial: sz > 0, Monitor: mon})
	}
	we.Close()
	wd.Close()
	wc.Close()
	runRecords(*out, *seed, *n/3)
}
