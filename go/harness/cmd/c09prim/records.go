package main

import (
	"fmt"
	"math/rand"
	"time"

	"github.com/Shopify/sarama"

	cf "verifharness/internal/coqfmt"
	w1 "verifharness/internal/wire1"
)

// stream c: generated records / record batches / message sets / Records unions / control records / headers,
// encoded by sarama, decoded back; bytes, sizes and decoded structure compared with the model; round-trip and
// sizing monitor on the Go side alone.

type recStream struct {
	g  *w1.Gen
	we *w1.SizedWriter
	wd *w1.SizedWriter
}

func sizingMonitor(what string, res sarama.VerifEncodeResult) *cf.Monitor {
	if res.Status == 100 {
		return &cf.Monitor{Signature: "records:encode-panic:" + what, What: res.Panic}
	}
	if res.Status == 0 && (res.PrepLen != len(res.Bytes) || res.RealOff != res.PrepLen || !res.RealSame) {
		return &cf.Monitor{Signature: "records:sizing:" + what, What: fmt.Sprintf("prepEncoder.length=%d, realEncoder.off=%d, len(bytes)=%d, same=%v", res.PrepLen, res.RealOff, len(res.Bytes), res.RealSame)}
	}
	return nil
}

func (s *recStream) addEnc(kind, lval string, tab *w1.Table, res sarama.VerifEncodeResult, expectStatus int, nontrivial bool) {
	mon := sizingMonitor(kind, res)
	if mon == nil && expectStatus >= 0 && res.Status != expectStatus {
		mon = &cf.Monitor{Signature: "records:encode-status:" + kind, What: fmt.Sprintf("encode status %d, expected %d (%s)", res.Status, expectStatus, res.Panic)}
	}
	term := fmt.Sprintf("{| e2_val := %s; e2_tab := %s; e2_status := %d; e2_prep := %s; e2_bytes := %s |}", lval, tab.Coq(), res.Status, cf.Z(int64(res.PrepLen)), w1.CoqBytes(res.Bytes))
	s.we.Add(term, cf.Sidecar{Case: map[string]interface{}{"value": w1.ShortTerm(lval), "status": res.Status, "bytes": w1.Hex(res.Bytes), "compress": w1.DescribeTable(tab)},
		Kind: "encode-" + kind, Nontrivial: nontrivial, Monitor: mon})
}

// decode bytes with sarama, write the case; want = Coq term the decoded value must print as ("" = no round-trip claim)
func (s *recStream) addDec(kind, dkind, ctor string, buf []byte, start, n int, aux []byte, want string, wantOff int) {
	tab := w1.NewTable()
	tab.ScanDecompress(buf, start, 0)
	s.addDecTab(kind, dkind, ctor, buf, start, n, aux, want, wantOff, tab)
}

func (s *recStream) addDecTab(kind, dkind, ctor string, buf []byte, start, n int, aux []byte, want string, wantOff int, tab *w1.Table) sarama.VerifDecoded {
	dres := sarama.VerifDecodeValue(kind, buf, start, n, aux)
	val, got := "None", ""
	if dres.Status == 0 {
		got = decodedTerm(kind, dres)
		val = cf.Some("(" + ctor + " " + got + ")")
	}
	var mon *cf.Monitor
	if want != "" {
		switch {
		case dres.Status != 0:
			mon = &cf.Monitor{Signature: rtSig(kind), What: fmt.Sprintf("decoding the encoding failed with status %d %s", dres.Status, dres.Panic)}
		case dres.Off != wantOff:
			mon = &cf.Monitor{Signature: rtSig(kind), What: fmt.Sprintf("decoding the encoding stopped at %d, expected %d", dres.Off, wantOff)}
		case got != want:
			mon = &cf.Monitor{Signature: rtSig(kind), What: "decoded value differs: got " + w1.ShortTerm(got) + " want " + w1.ShortTerm(want)}
		}
	}
	term := fmt.Sprintf("{| d2_kind := %s; d2_buf := %s; d2_start := %d; d2_tab := %s; d2_status := %d; d2_off := %d; d2_val := %s |}",
		dkind, w1.CoqBytes(buf), start, tab.Coq(), dres.Status, dres.Off, val)
	s.wd.Add(term, cf.Sidecar{Case: map[string]interface{}{"kind": kind, "buf": w1.Hex(buf), "start": start, "status": dres.Status, "off": dres.Off, "value": w1.ShortTerm(got), "decompress": w1.DescribeTable(tab)},
		Kind: "decode-" + kind, Nontrivial: len(buf) > 8, Monitor: mon})
	return dres
}

func rtSig(kind string) string {
	if kind == "fblock" {
		return "c09:roundtrip:FetchResponseBlock"
	}
	return "records:roundtrip:" + kind
}

func decodedTerm(kind string, d sarama.VerifDecoded) string {
	switch kind {
	case "record":
		return w1.CoqRecord(d.Record)
	case "records":
		return w1.CoqRecordList(d.Recs)
	case "batch":
		return w1.CoqBatch(d.Batch)
	case "mset":
		return w1.CoqSet(d.Set)
	case "top":
		return w1.CoqRecordsTop(d.Records)
	case "control":
		return w1.CoqControl(d.Control)
	case "fblock":
		return w1.CoqFBlock(d.FBlock)
	case "resphdr":
		return fmt.Sprintf("%s %s", cf.Z(int64(d.Length)), cf.Z(int64(d.Corr)))
	case "reqhdr":
		return fmt.Sprintf("%s %s %s %s", cf.Z(int64(d.Key)), cf.Z(int64(d.Version)), cf.Z(int64(d.Corr)), w1.CoqBytes([]byte(d.Client)))
	}
	panic(kind)
}

func innerSet(value []byte) *sarama.MessageSet {
	d := sarama.VerifDecodeValue("mset", value, 0, 0, nil)
	if d.Status != 0 {
		return &sarama.MessageSet{}
	}
	return d.Set
}

func embed(g *w1.Gen, b []byte) ([]byte, int) {
	if g.R.Intn(4) != 0 {
		return b, 0
	}
	pre := g.Bytes(1 + g.R.Intn(5))
	return append(append([]byte{}, pre...), b...), len(pre)
}

func runRecords(out string, seed int64, n int) {
	g := &w1.Gen{R: rand.New(rand.NewSource(seed + 7919))}
	s := &recStream{g: g,
		we: w1.NewSizedWriter(out, "cases_renc", "ecase2", "mismatches_enc2", 120, 200000),
		wd: w1.NewSizedWriter(out, "cases_rdec", "dcase2", "mismatches_dec2", 120, 200000)}
	s.we.W.Imports, s.wd.W.Imports = w1.RecImports, w1.RecImports
	r := g.R
	empty := w1.NewTable()

	// corpus: a batch whose compressed payload is shorter than its number of records (the record count used to be
	// checked against the bytes following it on the wire)
	{
		b := &sarama.RecordBatch{Version: 2, Codec: sarama.CompressionGZIP, CompressionLevel: sarama.CompressionLevelDefault,
			FirstTimestamp: time.Unix(1, 0), MaxTimestamp: time.Unix(1, 0)}
		for i := 0; i < 300; i++ {
			b.Records = append(b.Records, &sarama.Record{})
		}
		res := sarama.VerifEncodeValue(b)
		tab := w1.NewTable()
		w1.EncodeTableBatch(tab, b, res.Bytes)
		s.addEnc("batch", "LBatch "+w1.CoqBatch(b), tab, res, 0, true)
		if res.Status == 0 {
			s.addDec("batch", "KBatch", "DBatch", res.Bytes, 0, 0, nil, w1.CoqBatch(w1.NormBatch(b)), len(res.Bytes))
		}
	}
	for i := 0; i < n; i++ {
		// single record and records array
		rec := g.Record()
		res := sarama.VerifEncodeValue(rec)
		s.addEnc("record", "LRecord "+w1.CoqRecord(rec), empty, res, 0, true)
		if res.Status == 0 {
			buf, st := embed(g, res.Bytes)
			s.addDec("record", "KRecord", "DRecord", buf, st, 0, nil, w1.CoqRecord(w1.NormRecord(rec)), st+len(res.Bytes))
		}
		if i%3 == 0 {
			var recs []*sarama.Record
			var norm []*sarama.Record
			for j, k := 0, r.Intn(4); j < k; j++ {
				x := g.Record()
				recs = append(recs, x)
				norm = append(norm, w1.NormRecord(x))
			}
			res := sarama.VerifEncodeValue(recs)
			s.addEnc("records", "LRecords "+w1.CoqRecordList(recs), empty, res, 0, len(recs) > 0)
			if res.Status == 0 {
				s.addDec("records", fmt.Sprintf("(KRecords %d)", len(recs)), "DRecordsL", res.Bytes, 0, len(recs), nil, w1.CoqRecordList(norm), len(res.Bytes))
			}
		}
		// record batch (valid: must round-trip; invalid: must be refused by the encoder)
		valid := i%6 != 5
		b := g.Batch(valid)
		res = sarama.VerifEncodeValue(b)
		tab := w1.NewTable()
		w1.EncodeTableBatch(tab, b, res.Bytes)
		exp := 0
		if !valid {
			exp = -1 // some error; which one is compared with the model
			if res.Status == 0 {
				exp = 4
			}
		}
		s.addEnc("batch", "LBatch "+w1.CoqBatch(b), tab, res, exp, true)
		if res.Status == 0 {
			buf, st := embed(g, res.Bytes)
			s.addDec("batch", "KBatch", "DBatch", buf, st, 0, nil, w1.CoqBatch(w1.NormBatch(b)), st+len(res.Bytes))
			if i%2 == 0 {
				top := &sarama.Records{RecordBatch: b}
				res2 := sarama.VerifEncodeValue(top)
				tab2 := w1.NewTable()
				w1.EncodeTableBatch(tab2, b, res2.Bytes)
				s.addEnc("top", "LTop (RDefault "+w1.CoqBatch(b)+")", tab2, res2, 0, true)
				s.addDec("top", "KTop", "DTop", res.Bytes, 0, 0, nil, "(RDefault "+w1.CoqBatch(w1.NormBatch(b))+")", len(res.Bytes))
			}
		}
		// legacy message set
		set := g.Set(4, 2)
		res = sarama.VerifEncodeValue(set)
		tab = w1.NewTable()
		w1.EncodeTableSet(tab, set, res.Bytes)
		s.addEnc("mset", "LMset "+w1.CoqSet(set), tab, res, -1, len(set.Messages) > 0)
		if res.Status == 0 {
			want := w1.CoqSet(w1.NormSet(set, innerSet))
			s.addDec("mset", "KMset", "DMset", res.Bytes, 0, 0, nil, want, len(res.Bytes))
			if len(set.Messages) > 0 && i%2 == 1 {
				s.addDec("top", "KTop", "DTop", res.Bytes, 0, 0, nil, "(RLegacy "+want+")", len(res.Bytes))
			}
		}
		// control record, headers
		if i%4 == 0 {
			cr := &sarama.ControlRecord{Version: int16(r.Intn(3)), CoordinatorEpoch: int32(r.Int31()), Type: sarama.ControlRecordType(r.Intn(3))}
			kres := sarama.VerifEncodeValue(sarama.VerifControlHalf{CR: cr})
			vres := sarama.VerifEncodeValue(sarama.VerifControlHalf{CR: cr, Value: true})
			s.addEnc("control-key", "LControlKey "+w1.CoqControl(cr), empty, kres, 0, true)
			s.addEnc("control-value", "LControlValue "+w1.CoqControl(cr), empty, vres, 0, true)
			want := ""
			if cr.Type != sarama.ControlRecordUnknown {
				want = w1.CoqControl(cr)
			}
			s.addDec("control", "(KControl "+w1.CoqBytes(vres.Bytes)+")", "DControl", kres.Bytes, 0, 0, vres.Bytes, want, len(kres.Bytes))

			hv := int16(r.Intn(3))
			req := sarama.VerifRequest{HeaderVersion: hv, Key: int16(r.Intn(60)), Version: int16(r.Intn(12)), CorrelationID: r.Int31(), ClientID: string(g.Bytes(r.Intn(12))), Body: g.Bytes(r.Intn(20))}
			rres := sarama.VerifEncodeValue(req)
			s.addEnc("request", fmt.Sprintf("LRequest %d %d %d %d %s %s", hv, req.Key, req.Version, req.CorrelationID, w1.CoqBytes([]byte(req.ClientID)), w1.CoqBytes(req.Body)), empty, rres, 0, true)
		}
	}
	// stream: FetchResponseBlock, all versions, encode -> decode -> re-encode (-> decode)
	nf := 48
	if n > 200 {
		nf = 300
	}
	for i := 0; i < nf; i++ {
		v := int16(i % 12)
		blk := g.FetchBlock(v, i%7 == 6)
		hasEmpty := false
		for _, rs := range blk.RecordsSet {
			if rs.RecordBatch != nil && len(rs.RecordBatch.Records) == 0 {
				hasEmpty = true
			}
		}
		res := sarama.VerifEncodeValue(sarama.VerifFetchBlock{Block: blk, Version: v})
		tab := w1.NewTable()
		w1.EncodeTableFetchBlock(tab, blk, v, res.Bytes)
		s.addEnc("fblock", fmt.Sprintf("LFBlock %d %s", v, w1.CoqFBlock(blk)), tab, res, 0, len(blk.RecordsSet) > 0)
		if res.Status != 0 {
			continue
		}
		want := w1.CoqFBlock(w1.NormFetchBlock(blk, v))
		dtab := w1.NewTable()
		dtab.ScanFetchBlock(res.Bytes, v)
		dres := s.addDecTab("fblock", fmt.Sprintf("(KFBlock %d)", v), "DFBlock", res.Bytes, 0, int(v), nil, want, len(res.Bytes), dtab)
		if dres.Status != 0 || dres.FBlock == nil {
			continue
		}
		// re-encode what was decoded (the Go objects as decode left them, aliases included); the compression level is
		// not on the wire: give the decoded batches / messages the level the originals were compressed with
		for _, rs := range dres.FBlock.RecordsSet {
			if rs.RecordBatch != nil {
				rs.RecordBatch.CompressionLevel = sarama.CompressionLevelDefault
			}
			if rs.MsgSet != nil {
				for _, mb := range rs.MsgSet.Messages {
					mb.Msg.CompressionLevel = sarama.CompressionLevelDefault
				}
			}
		}
		res2 := sarama.VerifEncodeValue(sarama.VerifFetchBlock{Block: dres.FBlock, Version: v})
		tab2 := w1.NewTable()
		w1.EncodeTableFetchBlock(tab2, dres.FBlock, v, res2.Bytes)
		var mon *cf.Monitor
		if res2.Status != 0 {
			mon = &cf.Monitor{Signature: "c09:reencode-error:FetchResponseBlock", What: fmt.Sprintf("v%d: re-encoding the decoded block failed with status %d %s", v, res2.Status, res2.Panic)}
		} else if !hasEmpty && string(res2.Bytes) != string(res.Bytes) {
			mon = &cf.Monitor{Signature: "c09:reencode-differs:FetchResponseBlock", What: fmt.Sprintf("v%d, %d elements: re-encoding the decoded block gives %d bytes, the original encoding has %d", v, len(blk.RecordsSet), len(res2.Bytes), len(res.Bytes))}
		} else if res2.Status == 0 {
			d2 := sarama.VerifDecodeValue("fblock", res2.Bytes, 0, int(v), nil)
			if d2.Status != 0 || w1.CoqFBlock(d2.FBlock) != w1.CoqFBlock(dres.FBlock) {
				mon = &cf.Monitor{Signature: "c09:reencode-differs:FetchResponseBlock", What: fmt.Sprintf("v%d: the re-encoding decodes to a different block (status %d)", v, d2.Status)}
			}
		}
		lval := fmt.Sprintf("LFBlock %d %s", v, w1.CoqFBlock(dres.FBlock))
		term := fmt.Sprintf("{| e2_val := %s; e2_tab := %s; e2_status := %d; e2_prep := %s; e2_bytes := %s |}", lval, tab2.Coq(), res2.Status, cf.Z(int64(res2.PrepLen)), w1.CoqBytes(res2.Bytes))
		if mon == nil {
			mon = sizingMonitor("fblock-reencode", res2)
		}
		s.we.Add(term, cf.Sidecar{Case: map[string]interface{}{"value": w1.ShortTerm(lval), "version": v, "bytes": w1.Hex(res2.Bytes), "original": w1.Hex(res.Bytes)},
			Kind: "reencode-fblock", Nontrivial: len(dres.FBlock.RecordsSet) > 0, Monitor: mon})
	}
	// every request type has header version >= 1 (request.decode reads a client id unconditionally, request.encode
	// writes it only for header version >= 1: the asymmetry is unobservable as long as this holds)
	{
		var mon *cf.Monitor
		for key := int16(0); key < 80 && mon == nil; key++ {
			for v := int16(0); v < 16; v++ {
				if sarama.VerifHeaderVersion(key, v) == 0 {
					mon = &cf.Monitor{Signature: fmt.Sprintf("request:header-version-0:key%d", key), What: fmt.Sprintf("request key %d version %d has header version 0: request.decode would read a client id that request.encode does not write", key, v)}
					break
				}
			}
		}
		hdr := []byte{0, 0, 0, 9, 0, 0, 0, 7, 0}
		for _, ver := range []int{0, 1} {
			dres := sarama.VerifDecodeValue("resphdr", hdr, 0, ver, nil)
			val := "None"
			if dres.Status == 0 {
				val = cf.Some(fmt.Sprintf("(DResp %d %d)", dres.Length, dres.Corr))
			}
			term := fmt.Sprintf("{| d2_kind := KRespHeader %d; d2_buf := %s; d2_start := 0; d2_tab := []; d2_status := %d; d2_off := %d; d2_val := %s |}", ver, w1.CoqBytes(hdr), dres.Status, dres.Off, val)
			s.wd.Add(term, cf.Sidecar{Case: map[string]interface{}{"kind": "resphdr", "version": ver, "status": dres.Status}, Kind: "decode-resphdr", Nontrivial: true, Monitor: mon})
		}
	}
	s.we.Close()
	s.wd.Close()
}
