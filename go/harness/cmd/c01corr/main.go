// c01corr: C01 (every produced message gets exactly one terminal outcome) — runs fault-script scenarios on the
// real async/sync producer against the cluster simulator, evaluates the C01 monitor and writes the per-actor
// hook logs as Coq cases for local trace validation (coq/Producer/Corr.v).
package main

import "verifharness/internal/cluster"

func main() { cluster.Main("C01") }
