// c11corr: C11 correspondence and monitor.  Transactional logs (1-3 producer ids, 1-5 transactions, overlapping,
// back to back, aborted then committed, markers without data) at both isolation levels; same two tiers as
// c03corr: real decoder + real parseResponse along a fetch script, and a real PartitionConsumer end to end.
package main

import (
	"flag"

	"verifharness/internal/conslog"
)

func main() {
	out := flag.String("out", ".", "output directory")
	seed := flag.Int64("seed", 1, "seed")
	n := flag.Int("n", 300, "number of parse-level cases")
	e := flag.Int("e2e", 80, "number of end-to-end cases")
	flag.Parse()
	conslog.RunAll(conslog.RunOpts{Out: *out, Seed: *seed, NParse: *n, NE2E: *e, Tag: "c11", RCProb: 70, NPipe: 24,
		Formats: []conslog.Format{conslog.FTxn, conslog.FTxn, conslog.FCtrl},
		// corpus: two aborted transactions in flight, abort then commit by one id, back-to-back aborts, three producers,
		// a lone aborted transaction between plain batches, an abort marker without data
		Corpus: []conslog.CorpusItem{
			{Spec: "T1 T2 A1 A2 T1 C1 N"}, {Spec: "T1 A1 T1 A1 T1 C1"}, {Spec: "T1 T2 T3 A2 C1 A3 N T2 C2"}, {Spec: "N T1 N A1 N"},
			{Spec: "A1 T1 N C1 T2 A2 T2 A2"},
			// three to five aborted transactions in flight at once, the broker's index in every permutation
			{Spec: "T1 T2 T3 N A1 A2 A3 N", Perms: true}, {Spec: "T1 T2 T3 T2 T1 A3 A1 T3 A2 C3", Perms: true},
			{Spec: "T1 T2 T3 T4 A2 A4 A1 A3", Perms: true}, {Spec: "T1 T2 T3 T4 T5 N A5 A4 A3 A2 A1", Perms: true},
			// the head of the log deleted in the middle of an aborted (and of a committed) transaction: non-zero
			// LogStartOffset, the index keeps the original first offsets
			{Spec: "T1 N T1 A1 N T1 C1", Cut: 1}, {Spec: "T1 T2 T1 T2 N A1 C2 N", Cut: 2}, {Spec: "T1 T2 T3 T1 T2 T3 A3 A1 A2 N", Cut: 3, Perms: true},
			{Spec: "N T1 T1 T1 A1 N", Cut: 3},
		},
		NRandomIndex: 60,
		CorpusPer:    30})
}
