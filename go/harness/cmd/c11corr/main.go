// c11corr: C11 correspondence and monitor.  Transactional logs (1-3 producer ids, 1-5 transactions, overlapping,
// back to back, aborted then committed, markers without data) at both isolation levels; same two tiers as
// c03corr: real decoder + real parseResponse along a fetch script, and a real PartitionConsumer end to end.
package main

import (
	"flag"

	"verifharness/internal/conslog"
)

func main() {
	out := flag.String("out", ".", "output directory")
	seed := flag.Int64("seed", 1, "seed")
	n := flag.Int("n", 300, "number of parse-level cases")
	e := flag.Int("e2e", 80, "number of end-to-end cases")
	flag.Parse()
	conslog.RunAll(conslog.RunOpts{Out: *out, Seed: *seed, NParse: *n, NE2E: *e, Tag: "c11", RCProb: 70,
		Formats: []conslog.Format{conslog.FTxn, conslog.FTxn, conslog.FCtrl},
		// corpus: two aborted transactions in flight, abort then commit by one id, back-to-back aborts, three producers,
		// a lone aborted transaction between plain batches, an abort marker without data
		Corpus:    []string{"T1 T2 A1 A2 T1 C1 N", "T1 A1 T1 A1 T1 C1", "T1 T2 T3 A2 C1 A3 N T2 C2", "N T1 N A1 N", "A1 T1 N C1 T2 A2 T2 A2"},
		CorpusPer: 30})
}
