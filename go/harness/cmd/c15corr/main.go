// c15corr: drives sarama's real Client against scripted MockBrokers and writes what it observed as Coq cases
// for SV.C15.Corr: (1) histories of cluster views and API calls with every call's result, (2) client creation
// and RefreshMetadata against candidates (seeds, known brokers) that answer, fail mid-request or are
// unreachable. A direct property oracle (monitor) judges every case. Everything random derives from -seed.
package main

import (
	"flag"
	"fmt"
	"math/rand"
	"net"
	"os"
	"sort"
	"strconv"
	"strings"
	"sync"
	"syscall"
	"time"

	"github.com/Shopify/sarama"

	cf "verifharness/internal/coqfmt"
)

type reporter struct {
	mu   sync.Mutex
	errs []string
}

func (r *reporter) add(s string)                      { r.mu.Lock(); r.errs = append(r.errs, s); r.mu.Unlock() }
func (r *reporter) Error(a ...interface{})            { r.add(fmt.Sprint(a...)) }
func (r *reporter) Errorf(f string, a ...interface{}) { r.add(fmt.Sprintf(f, a...)) }
func (r *reporter) Fatal(a ...interface{})            { r.add("FATAL " + fmt.Sprint(a...)) }
func (r *reporter) Fatalf(f string, a ...interface{}) { r.add("FATAL " + fmt.Sprintf(f, a...)) }

type nopLogger struct{}

func (nopLogger) Print(v ...interface{})                 {}
func (nopLogger) Printf(format string, v ...interface{}) {}
func (nopLogger) Println(v ...interface{})               {}

// ---------------------------------------------------------------- views
type pmeta struct {
	ID       int64   `json:"id"`
	Leader   int64   `json:"leader"`
	Replicas []int64 `json:"replicas"`
	Isr      []int64 `json:"isr"`
	Offline  []int64 `json:"offline"`
	Err      int64   `json:"err"`
}
type tmeta struct {
	Name  int64   `json:"name"`
	Err   int64   `json:"err"`
	Parts []pmeta `json:"parts"`
}
type view struct {
	Brokers [][2]int64 `json:"brokers"` // id, address index
	Ctrl    int64      `json:"ctrl"`
	Topics  []tmeta    `json:"topics"`
}

func cloneView(v view) view {
	o := view{Ctrl: v.Ctrl}
	o.Brokers = append(o.Brokers, v.Brokers...)
	for _, t := range v.Topics {
		nt := tmeta{Name: t.Name, Err: t.Err}
		for _, p := range t.Parts {
			np := p
			np.Replicas = append([]int64{}, p.Replicas...)
			np.Isr = append([]int64{}, p.Isr...)
			np.Offline = append([]int64{}, p.Offline...)
			nt.Parts = append(nt.Parts, np)
		}
		o.Topics = append(o.Topics, nt)
	}
	return o
}

func (p pmeta) coq() string {
	return fmt.Sprintf("{| p_id := %s; p_leader := %s; p_replicas := %s; p_isr := %s; p_offline := %s; p_err := %s |}",
		cf.Z(p.ID), cf.Z(p.Leader), cf.ZList(p.Replicas), cf.ZList(p.Isr), cf.ZList(p.Offline), cf.Z(p.Err))
}
func (v view) coq(v5 bool) string {
	var bs, ts []string
	for _, b := range v.Brokers {
		bs = append(bs, fmt.Sprintf("(%s, %s)", cf.Z(b[0]), cf.Z(b[1])))
	}
	for _, t := range v.Topics {
		var ps []string
		for _, p := range t.Parts {
			if !v5 {
				p.Offline = nil // metadata v1 carries no offline replicas: the client decodes none
			}
			ps = append(ps, p.coq())
		}
		ts = append(ts, fmt.Sprintf("{| t_name := %s; t_err := %s; t_parts := %s |}", cf.Z(t.Name), cf.Z(t.Err), cf.List(ps)))
	}
	return fmt.Sprintf("{| r_brokers := %s; r_ctrl := %s; r_topics := %s |}", cf.List(bs), cf.Z(v.Ctrl), cf.List(ts))
}

func tname(t int64) string { return fmt.Sprintf("t%d", t) }
func tnum(s string) int64 {
	v, err := strconv.ParseInt(strings.TrimPrefix(s, "t"), 10, 64)
	if err != nil {
		return -77
	}
	return v
}
func i32s(l []int64) []int32 {
	o := make([]int32, len(l))
	for i, x := range l {
		o[i] = int32(x)
	}
	return o
}
func i64s(l []int32) []int64 {
	o := make([]int64, len(l))
	for i, x := range l {
		o[i] = int64(x)
	}
	return o
}

// what the cluster answers to a metadata request for the named topics (none = all)
func respond(v view, topics []int64) []tmeta {
	if len(topics) == 0 {
		return v.Topics
	}
	var out []tmeta
	for _, t := range topics {
		found := false
		for _, x := range v.Topics {
			if x.Name == t {
				out = append(out, x)
				found = true
				break
			}
		}
		if !found {
			out = append(out, tmeta{Name: t, Err: 3})
		}
	}
	return out
}

func buildResponse(version int16, v view, topics []tmeta, addr func(int64) string) *sarama.MetadataResponse {
	resp := &sarama.MetadataResponse{Version: version, ControllerID: int32(v.Ctrl)}
	for _, b := range v.Brokers {
		resp.AddBroker(addr(b[1]), int32(b[0]))
	}
	for _, t := range topics {
		tm := &sarama.TopicMetadata{Name: tname(t.Name), Err: sarama.KError(t.Err)}
		for _, p := range t.Parts {
			tm.Partitions = append(tm.Partitions, &sarama.PartitionMetadata{Err: sarama.KError(p.Err), ID: int32(p.ID), Leader: int32(p.Leader),
				Replicas: i32s(p.Replicas), Isr: i32s(p.Isr), OfflineReplicas: i32s(p.Offline)})
		}
		resp.Topics = append(resp.Topics, tm)
	}
	return resp
}

// ---------------------------------------------------------------- sequences
type call struct {
	K  string  `json:"k"` // refresh partitions writable leader replicas isr offline brokers topics controller
	T  int64   `json:"t"`
	P  int64   `json:"p"`
	Ts []int64 `json:"ts,omitempty"`
}
type obs struct {
	K  string     `json:"k"` // err nil list listerr broker brokers
	E  int64      `json:"e,omitempty"`
	L  []int64    `json:"l,omitempty"`
	ID int64      `json:"id,omitempty"`
	A  int64      `json:"a,omitempty"`
	BL [][2]int64 `json:"bl,omitempty"`
}
type served struct {
	Full   bool    `json:"full"`
	View   int     `json:"view"`
	Topics []tmeta `json:"topics"`
}
type seqStep struct {
	View   int      `json:"view"`
	Call   call     `json:"call"`
	Obs    obs      `json:"obs"`
	Served []served `json:"served,omitempty"` // metadata responses served during this call
}
type seqCase struct {
	V5    bool      `json:"v5"`
	Views []view    `json:"views"`
	Steps []seqStep `json:"steps"`
}

func (c call) coq() string {
	switch c.K {
	case "refresh":
		return cf.App("CRefresh", cf.ZList(c.Ts))
	case "partitions":
		return cf.App("CPartitions", cf.Z(c.T))
	case "writable":
		return cf.App("CWritable", cf.Z(c.T))
	case "leader":
		return cf.App("CLeader", cf.Z(c.T), cf.Z(c.P))
	case "replicas":
		return cf.App("CReplicas", cf.Z(c.T), cf.Z(c.P))
	case "isr":
		return cf.App("CIsr", cf.Z(c.T), cf.Z(c.P))
	case "offline":
		return cf.App("COffline", cf.Z(c.T), cf.Z(c.P))
	case "brokers":
		return "CBrokers"
	case "topics":
		return "CTopics"
	case "controller":
		return "CController"
	}
	return "CBad"
}
func (o obs) coq() string {
	switch o.K {
	case "err":
		return cf.App("OErr", cf.Z(o.E))
	case "nil":
		return "ONil"
	case "list":
		return cf.App("OList", cf.ZList(o.L))
	case "listerr":
		return cf.App("OListErr", cf.ZList(o.L), cf.Z(o.E))
	case "broker":
		return cf.App("OBroker", cf.Z(o.ID), cf.Z(o.A))
	case "brokers":
		var it []string
		for _, b := range o.BL {
			it = append(it, fmt.Sprintf("(%s, %s)", cf.Z(b[0]), cf.Z(b[1])))
		}
		return cf.App("OBrokers", cf.List(it))
	}
	return "OBad"
}

func errCode(err error) int64 {
	if k, ok := err.(sarama.KError); ok {
		return int64(k)
	}
	switch err {
	case sarama.ErrControllerNotAvailable:
		return -1001
	case sarama.ErrOutOfBrokers:
		return -1002
	}
	return -1999
}

const naddr = 6

type seqRig struct {
	mu     sync.Mutex
	rep    *reporter
	seed   *sarama.MockBroker
	pool   []*sarama.MockBroker
	views  []view
	cur    int
	served []served
	v5     bool
}

func (r *seqRig) addr(i int64) string { return r.pool[i].Addr() }
func (r *seqRig) addrIndex(a string) int64 {
	for i, b := range r.pool {
		if b.Addr() == a {
			return int64(i)
		}
	}
	return -9
}

func newSeqRig() *seqRig {
	r := &seqRig{rep: &reporter{}}
	r.seed = newMock(r.rep, 100)
	// every listener answers metadata requests from the current view (the client asks its seed; a changed
	// candidate order must not leave it waiting for a time-out)
	handler := func(q sarama.VerifC19Request) interface{} {
		if q.Kind != "MetadataRequest" {
			r.rep.add("unexpected request " + q.Kind)
			return nil
		}
		r.mu.Lock()
		defer r.mu.Unlock()
		req := q.Body.(*sarama.MetadataRequest)
		var ts []int64
		for _, t := range req.Topics {
			ts = append(ts, tnum(t))
		}
		v := r.views[r.cur]
		topics := respond(v, ts)
		r.served = append(r.served, served{Full: len(ts) == 0, View: r.cur, Topics: topics})
		return buildResponse(q.Version, v, topics, r.addr)
	}
	for i := 0; i < naddr; i++ {
		b := newMock(r.rep, int32(200+i))
		b.VerifC19SetHandler(handler)
		r.pool = append(r.pool, b)
	}
	r.seed.VerifC19SetHandler(handler)
	return r
}
func (r *seqRig) close() {
	r.seed.Close()
	for _, b := range r.pool {
		b.Close()
	}
}

func (r *seqRig) brokerObs(b *sarama.Broker) obs {
	return obs{K: "broker", ID: int64(b.ID()), A: r.addrIndex(b.Addr())}
}

func (r *seqRig) do(cl sarama.Client, c call) obs {
	listRes := func(l []int32, err error) obs {
		if err == sarama.ErrReplicaNotAvailable && l != nil {
			return obs{K: "listerr", L: i64s(l), E: 9}
		}
		if err != nil {
			return obs{K: "err", E: errCode(err)}
		}
		return obs{K: "list", L: i64s(l)}
	}
	switch c.K {
	case "refresh":
		var names []string
		for _, t := range c.Ts {
			names = append(names, tname(t))
		}
		if err := cl.RefreshMetadata(names...); err != nil {
			return obs{K: "err", E: errCode(err)}
		}
		return obs{K: "nil"}
	case "partitions":
		return listRes(cl.Partitions(tname(c.T)))
	case "writable":
		return listRes(cl.WritablePartitions(tname(c.T)))
	case "leader":
		b, err := cl.Leader(tname(c.T), int32(c.P))
		if err != nil {
			return obs{K: "err", E: errCode(err)}
		}
		return r.brokerObs(b)
	case "replicas":
		return listRes(cl.Replicas(tname(c.T), int32(c.P)))
	case "isr":
		return listRes(cl.InSyncReplicas(tname(c.T), int32(c.P)))
	case "offline":
		return listRes(cl.OfflineReplicas(tname(c.T), int32(c.P)))
	case "brokers":
		o := obs{K: "brokers"}
		for _, b := range cl.Brokers() {
			o.BL = append(o.BL, [2]int64{int64(b.ID()), r.addrIndex(b.Addr())})
		}
		sort.Slice(o.BL, func(i, j int) bool { return o.BL[i][0] < o.BL[j][0] })
		return o
	case "topics":
		ts, err := cl.Topics()
		if err != nil {
			return obs{K: "err", E: errCode(err)}
		}
		o := obs{K: "list"}
		for _, t := range ts {
			o.L = append(o.L, tnum(t))
		}
		sort.Slice(o.L, func(i, j int) bool { return o.L[i] < o.L[j] })
		return o
	case "controller":
		b, err := cl.Controller()
		if err != nil {
			return obs{K: "err", E: errCode(err)}
		}
		return r.brokerObs(b)
	}
	return obs{K: "bad"}
}

const ntopics = 3
const nparts = 4

var topicErrs = []int64{3, 5, 17, 29, 41}

func genPart(r *rand.Rand, id int64, brokers [][2]int64) pmeta {
	p := pmeta{ID: id}
	pick := func() int64 {
		if len(brokers) == 0 || r.Intn(8) == 0 {
			return int64(1 + r.Intn(5)) // possibly an id that is not among the brokers
		}
		return brokers[r.Intn(len(brokers))][0]
	}
	p.Leader = pick()
	for i, n := 0, 1+r.Intn(3); i < n; i++ {
		p.Replicas = append(p.Replicas, pick())
	}
	for _, x := range p.Replicas {
		if r.Intn(3) != 0 {
			p.Isr = append(p.Isr, x)
		} else if r.Intn(2) == 0 {
			p.Offline = append(p.Offline, x)
		}
	}
	switch x := r.Intn(12); {
	case x == 0:
		p.Leader, p.Err = -1, 5
	case x == 1:
		p.Err = 9
	case x == 2:
		p.Err = 5 // leader named but flagged unavailable
	}
	return p
}

func genTopic(r *rand.Rand, name int64, brokers [][2]int64) tmeta {
	t := tmeta{Name: name}
	for p := int64(0); p < nparts; p++ {
		if r.Intn(3) != 0 {
			t.Parts = append(t.Parts, genPart(r, p, brokers))
		}
	}
	if r.Intn(10) == 0 && len(t.Parts) > 0 { // a duplicated partition entry: the later one wins
		t.Parts = append(t.Parts, genPart(r, t.Parts[0].ID, brokers))
	}
	r.Shuffle(len(t.Parts), func(i, j int) { t.Parts[i], t.Parts[j] = t.Parts[j], t.Parts[i] })
	return t
}

func genView(r *rand.Rand) view {
	var v view
	for id := int64(1); id <= 4; id++ {
		if r.Intn(4) != 0 {
			v.Brokers = append(v.Brokers, [2]int64{id, int64(r.Intn(naddr))})
		}
	}
	if len(v.Brokers) == 0 {
		v.Brokers = append(v.Brokers, [2]int64{1, 0})
	}
	v.Ctrl = v.Brokers[r.Intn(len(v.Brokers))][0]
	for t := int64(0); t < ntopics; t++ {
		if r.Intn(4) != 0 {
			v.Topics = append(v.Topics, genTopic(r, t, v.Brokers))
		}
	}
	return v
}

// one random change of the cluster
func mutateView(r *rand.Rand, v view) view {
	v = cloneView(v)
	for i, n := 0, 1+r.Intn(3); i < n; i++ {
		switch r.Intn(11) {
		case 0: // topic appears / is replaced
			t := int64(r.Intn(ntopics))
			nt := genTopic(r, t, v.Brokers)
			replaced := false
			for i := range v.Topics {
				if v.Topics[i].Name == t {
					v.Topics[i] = nt
					replaced = true
				}
			}
			if !replaced {
				v.Topics = append(v.Topics, nt)
			}
		case 1: // topic vanishes
			if len(v.Topics) > 0 {
				i := r.Intn(len(v.Topics))
				v.Topics = append(v.Topics[:i], v.Topics[i+1:]...)
			}
		case 2: // topic errors, per class
			if len(v.Topics) > 0 {
				i := r.Intn(len(v.Topics))
				v.Topics[i].Err = topicErrs[r.Intn(len(topicErrs))]
				if v.Topics[i].Err != 5 && r.Intn(2) == 0 {
					v.Topics[i].Parts = nil
				}
			}
		case 3: // topic error clears
			if len(v.Topics) > 0 {
				v.Topics[r.Intn(len(v.Topics))].Err = 0
			}
		case 4: // partition added
			if len(v.Topics) > 0 {
				i := r.Intn(len(v.Topics))
				v.Topics[i].Parts = append(v.Topics[i].Parts, genPart(r, int64(r.Intn(nparts)), v.Brokers))
			}
		case 5: // partition removed
			if len(v.Topics) > 0 {
				i := r.Intn(len(v.Topics))
				if n := len(v.Topics[i].Parts); n > 0 {
					j := r.Intn(n)
					v.Topics[i].Parts = append(v.Topics[i].Parts[:j], v.Topics[i].Parts[j+1:]...)
				}
			}
		case 6: // leader moves / becomes unavailable
			if len(v.Topics) > 0 {
				i := r.Intn(len(v.Topics))
				if n := len(v.Topics[i].Parts); n > 0 {
					j := r.Intn(n)
					v.Topics[i].Parts[j] = genPart(r, v.Topics[i].Parts[j].ID, v.Brokers)
				}
			}
		case 7: // broker added
			id := int64(1 + r.Intn(5))
			v.Brokers = append(v.Brokers, [2]int64{id, int64(r.Intn(naddr))}) // may duplicate an id: the later entry wins
		case 8: // broker removed
			if len(v.Brokers) > 1 {
				i := r.Intn(len(v.Brokers))
				v.Brokers = append(v.Brokers[:i], v.Brokers[i+1:]...)
			}
		case 9: // broker re-addressed
			i := r.Intn(len(v.Brokers))
			v.Brokers[i][1] = int64(r.Intn(naddr))
		case 10: // controller moves (possibly to an unknown id)
			v.Ctrl = int64(r.Intn(6))
		}
	}
	return v
}

func randomReads(r *rand.Rand, n int) []call {
	var cs []call
	for i := 0; i < n; i++ {
		t, p := int64(r.Intn(ntopics)), int64(r.Intn(nparts))
		switch r.Intn(12) {
		case 0:
			cs = append(cs, call{K: "brokers"})
		case 1:
			cs = append(cs, call{K: "topics"})
		case 2:
			cs = append(cs, call{K: "controller"})
		case 3, 4:
			cs = append(cs, call{K: "partitions", T: t})
		case 5, 6:
			cs = append(cs, call{K: "writable", T: t})
		case 7, 8:
			cs = append(cs, call{K: "leader", T: t, P: p})
		case 9:
			cs = append(cs, call{K: "replicas", T: t, P: p})
		case 10:
			cs = append(cs, call{K: "isr", T: t, P: p})
		case 11:
			cs = append(cs, call{K: "offline", T: t, P: p})
		}
	}
	return cs
}

// allReads: every read for every topic/partition, in random order
func allReads(r *rand.Rand) []call {
	cs := []call{{K: "brokers"}, {K: "topics"}, {K: "controller"}}
	for t := int64(0); t < ntopics; t++ {
		cs = append(cs, call{K: "partitions", T: t}, call{K: "writable", T: t})
		for p := int64(0); p < nparts; p++ {
			cs = append(cs, call{K: "leader", T: t, P: p}, call{K: "replicas", T: t, P: p}, call{K: "isr", T: t, P: p}, call{K: "offline", T: t, P: p})
		}
	}
	r.Shuffle(len(cs), func(i, j int) { cs[i], cs[j] = cs[j], cs[i] })
	return cs
}

func runSeq(r *rand.Rand) (seqCase, []string) {
	rig := newSeqRig()
	defer rig.close()
	c := seqCase{V5: r.Intn(4) != 0}
	rig.v5 = c.V5
	// the initial view must let NewClient succeed: no topic-level errors other than leader-not-available
	v0 := genView(r)
	for i := range v0.Topics {
		if r.Intn(5) == 0 {
			v0.Topics[i].Err = 5
		}
	}
	rig.views = []view{v0}
	cfg := sarama.NewConfig()
	if c.V5 {
		cfg.Version = sarama.V1_0_0_0
	} else {
		cfg.Version = sarama.V0_10_0_0
	}
	cfg.Metadata.Retry.Max = r.Intn(2)
	cfg.Metadata.Retry.Backoff = 0
	cfg.Metadata.RefreshFrequency = 0
	cfg.Net.DialTimeout = 2 * time.Second
	cfg.Net.ReadTimeout = 3 * time.Second
	c.Views = rig.views
	client, err := sarama.NewClient([]string{rig.seed.Addr()}, cfg)
	st0 := seqStep{View: 0, Call: call{K: "refresh"}, Obs: obs{K: "nil"}}
	if err != nil {
		st0.Obs = obs{K: "err", E: errCode(err)}
	}
	rig.mu.Lock()
	st0.Served, rig.served = rig.served, nil
	rig.mu.Unlock()
	c.Steps = append(c.Steps, st0)
	if err != nil {
		return c, append(rig.rep.errs, "NewClient failed: "+err.Error())
	}
	run := func(cl call) {
		o := rig.do(client, cl)
		rig.mu.Lock()
		st := seqStep{View: rig.cur, Call: cl, Obs: o, Served: rig.served}
		rig.served = nil
		rig.mu.Unlock()
		c.Steps = append(c.Steps, st)
	}
	for _, cl := range randomReads(r, 6+r.Intn(10)) {
		run(cl)
	}
	for ph, nph := 0, 1+r.Intn(4); ph < nph; ph++ {
		rig.mu.Lock()
		rig.views = append(rig.views, mutateView(r, rig.views[rig.cur]))
		rig.cur = len(rig.views) - 1
		rig.mu.Unlock()
		switch r.Intn(5) {
		case 0: // no explicit refresh: the reads refresh on a miss
		case 1, 2:
			run(call{K: "refresh"})
		default:
			var ts []int64
			for t := int64(0); t < ntopics; t++ {
				if r.Intn(2) == 0 {
					ts = append(ts, t)
				}
			}
			if len(ts) == 0 {
				ts = []int64{int64(r.Intn(ntopics))}
			}
			r.Shuffle(len(ts), func(i, j int) { ts[i], ts[j] = ts[j], ts[i] })
			run(call{K: "refresh", Ts: ts})
		}
		var reads []call
		if r.Intn(3) == 0 {
			reads = allReads(r)
		} else {
			reads = randomReads(r, 10+r.Intn(20))
		}
		for _, cl := range reads {
			run(cl)
		}
	}
	c.Views = rig.views
	_ = client.Close()
	return c, rig.rep.errs
}

func seqTerm(c seqCase) string {
	var vs, cs, os []string
	for _, v := range c.Views {
		vs = append(vs, v.coq(c.V5))
	}
	for _, s := range c.Steps {
		cs = append(cs, fmt.Sprintf("(%s, %s)", cf.Nat(s.View), s.Call.coq()))
		os = append(os, s.Obs.coq())
	}
	return fmt.Sprintf("{| sc_views := %s; sc_calls := %s; sc_obs := %s |}", cf.List(vs), cf.List(cs), cf.List(os))
}

// ---- monitor: the reference view folded from the responses actually served, compared with every read
type refTopic struct {
	known bool // some response said something about the topic
	entry *tmeta
}

func storesErr(e int64) bool { return e == 0 || e == 5 }

func lastPart(t *tmeta, p int64) *pmeta {
	var out *pmeta
	for i := range t.Parts {
		if t.Parts[i].ID == p {
			out = &t.Parts[i]
		}
	}
	return out
}
func sortedIDs(t *tmeta, writable bool) []int64 {
	seen := map[int64]bool{}
	var ids []int64
	for _, p := range t.Parts {
		lp := lastPart(t, p.ID)
		if seen[p.ID] || (writable && lp.Err == 5) {
			continue
		}
		seen[p.ID] = true
		ids = append(ids, p.ID)
	}
	sort.Slice(ids, func(i, j int) bool { return ids[i] < ids[j] })
	return ids
}
func eqList(a, b []int64) bool {
	if len(a) != len(b) {
		return false
	}
	for i := range a {
		if a[i] != b[i] {
			return false
		}
	}
	return true
}

func monitorSeq(c seqCase, harness []string) *cf.Monitor {
	if len(harness) > 0 {
		return &cf.Monitor{Signature: "seq:harness-error", What: strings.Join(harness, "; ")}
	}
	ref := map[int64]*tmeta{} // topic -> newest stored entry (nil: forgotten / never seen)
	var lastBrokers map[int64]int64
	lastCtrl := int64(-1)
	for i, s := range c.Steps {
		for _, sv := range s.Served {
			v := c.Views[sv.View]
			lastBrokers = map[int64]int64{}
			for _, b := range v.Brokers {
				lastBrokers[b[0]] = b[1]
			}
			lastCtrl = v.Ctrl
			if sv.Full {
				ref = map[int64]*tmeta{}
			}
			for k := range sv.Topics {
				t := sv.Topics[k]
				if !c.V5 {
					for j := range t.Parts {
						t.Parts[j].Offline = nil
					}
				}
				if storesErr(t.Err) {
					ref[t.Name] = &t
				} else {
					delete(ref, t.Name)
				}
			}
		}
		bad := func(sig, what string) *cf.Monitor {
			return &cf.Monitor{Signature: "seq:" + sig, What: fmt.Sprintf("step %d %s: %s", i, s.Call.coq(), what)}
		}
		o := s.Obs
		// a refresh (explicit, or made by a read that missed) reports the error of the last topic it had to forget
		refreshErr := int64(0)
		for _, sv := range s.Served {
			refreshErr = 0
			for _, t := range sv.Topics {
				if !storesErr(t.Err) {
					refreshErr = t.Err
				}
			}
		}
		if refreshErr != 0 {
			if o.K != "err" || o.E != refreshErr {
				return bad("refresh-error-not-reported", fmt.Sprintf("got %s, the refresh met topic error %d", o.coq(), refreshErr))
			}
			continue
		}
		if s.Call.K == "refresh" && o.K != "nil" {
			return bad("refresh-spurious-error", "got "+o.coq())
		}
		t := ref[s.Call.T]
		switch s.Call.K {
		case "partitions", "writable":
			if t == nil {
				if o.K != "err" {
					return bad(s.Call.K+"-of-forgotten-topic", "got "+o.coq())
				}
				continue
			}
			want := sortedIDs(t, s.Call.K == "writable")
			if s.Call.K == "partitions" && len(want) == 0 {
				if o.K != "err" {
					return bad("partitions-of-empty-topic", "got "+o.coq())
				}
				continue
			}
			if o.K != "list" || !eqList(o.L, want) {
				return bad(s.Call.K+"-differ-from-newest-response", fmt.Sprintf("got %s, newest response says %v", o.coq(), want))
			}
		case "leader":
			var pm *pmeta
			if t != nil {
				pm = lastPart(t, s.Call.P)
			}
			if pm == nil {
				if o.K != "err" || o.E != 3 {
					return bad("leader-of-unknown-partition", "got "+o.coq())
				}
				continue
			}
			a, known := lastBrokers[pm.Leader]
			if pm.Err == 5 || !known {
				if o.K != "err" || o.E != 5 {
					return bad("leader-unavailable-but-reported", fmt.Sprintf("got %s, leader %d err %d known=%v", o.coq(), pm.Leader, pm.Err, known))
				}
				continue
			}
			if o.K != "broker" || o.ID != pm.Leader || o.A != a {
				return bad("leader-differs-from-newest-response", fmt.Sprintf("got %s, want broker %d at %d", o.coq(), pm.Leader, a))
			}
		case "replicas", "isr", "offline":
			var pm *pmeta
			if t != nil {
				pm = lastPart(t, s.Call.P)
			}
			if pm == nil {
				if o.K != "err" || o.E != 3 {
					return bad(s.Call.K+"-of-unknown-partition", "got "+o.coq())
				}
				continue
			}
			want := map[string][]int64{"replicas": pm.Replicas, "isr": pm.Isr, "offline": pm.Offline}[s.Call.K]
			if (o.K != "list" && o.K != "listerr") || !eqList(o.L, want) || (o.K == "listerr") != (pm.Err == 9) {
				return bad(s.Call.K+"-differ-from-newest-response", fmt.Sprintf("got %s, want %v (partition err %d)", o.coq(), want, pm.Err))
			}
		case "brokers":
			if len(o.BL) != len(lastBrokers) {
				return bad("brokers-differ-from-newest-response", fmt.Sprintf("got %s, want %v", o.coq(), lastBrokers))
			}
			for _, b := range o.BL {
				if a, ok := lastBrokers[b[0]]; !ok || a != b[1] {
					return bad("brokers-differ-from-newest-response", fmt.Sprintf("got %s, want %v", o.coq(), lastBrokers))
				}
			}
		case "topics":
			var want []int64
			for k := range ref {
				want = append(want, k)
			}
			sort.Slice(want, func(i, j int) bool { return want[i] < want[j] })
			if o.K != "list" || !eqList(o.L, want) {
				return bad("topics-differ-from-newest-responses", fmt.Sprintf("got %s, want %v", o.coq(), want))
			}
		case "controller":
			a, known := lastBrokers[lastCtrl]
			if !known {
				if o.K != "err" {
					return bad("controller-unknown-but-reported", "got "+o.coq())
				}
				continue
			}
			if o.K != "broker" || o.ID != lastCtrl || o.A != a {
				return bad("controller-differs-from-newest-response", fmt.Sprintf("got %s, want %d at %d", o.coq(), lastCtrl, a))
			}
		}
	}
	return nil
}

// ---------------------------------------------------------------- candidate iteration
type refRound struct {
	Fail  []int64 `json:"fail"` // listeners failing this round (closed or dropping)
	LL    []int64 `json:"leaderless,omitempty"` // listeners answering with a leaderless partition
	OK    bool    `json:"ok"`
	Tried []int64 `json:"tried"`
	Live  []int64 `json:"live_seeds"` // listeners of client.seedBrokers before the call (monitor)
	Dead  []int64 `json:"dead_seeds"`
	Known []int64 `json:"known"` // client.Brokers() before the call (monitor)
	Err   string  `json:"err,omitempty"`
}
type refCase struct {
	Seeds       []int64    `json:"seeds"` // candidates 100+listener, client order
	SeedAddrs   []int64    `json:"seed_listeners"`
	Attempts    int        `json:"attempts"`
	Brokers     []int64    `json:"brokers"`
	Unreachable []int64    `json:"unreachable"`
	Rounds      []refRound `json:"rounds"`
	After       *refRound  `json:"after,omitempty"` // candidate lists after the last call (deadline cases)
	Deadline    bool       `json:"deadline,omitempty"`
}

// refusedAddr reserves a loopback port that refuses connections for as long as it is held: the socket is bound
// but never listens, so nobody else (this process, the kernel's ephemeral allocation, other harnesses on the
// machine) can get the port, and a connect is answered with ECONNREFUSED.
func refusedAddr() (string, func(), error) {
	for try := 0; ; try++ {
		a, rel, err := refusedAddr1()
		if err == nil || try >= 45 {
			return a, rel, err
		}
		time.Sleep(2 * time.Second) // no free port right now (ports in TIME_WAIT after many runs): wait
	}
}
func refusedAddr1() (string, func(), error) {
	fd, err := syscall.Socket(syscall.AF_INET, syscall.SOCK_STREAM, 0)
	if err != nil {
		return "", nil, err
	}
	if err := syscall.Bind(fd, &syscall.SockaddrInet4{Port: 0, Addr: [4]byte{127, 0, 0, 1}}); err != nil {
		_ = syscall.Close(fd)
		return "", nil, err
	}
	sa, err := syscall.Getsockname(fd)
	if err != nil {
		_ = syscall.Close(fd)
		return "", nil, err
	}
	port := sa.(*syscall.SockaddrInet4).Port
	return net.JoinHostPort("127.0.0.1", strconv.Itoa(port)), func() { _ = syscall.Close(fd) }, nil
}

// newMock opens a MockBroker; when no listener can be had right now (the machine's ephemeral ports are used up,
// e.g. in TIME_WAIT after many harness runs) it waits and tries again instead of failing the run.
func newMock(rep *reporter, id int32) *sarama.MockBroker {
	for try := 0; ; try++ {
		b, err := tryMock(rep, id)
		if err == nil {
			return b
		}
		if try >= 45 {
			panic("harness: cannot open a listener for a mock broker: " + err.Error())
		}
		fmt.Fprintln(os.Stderr, "harness: no listener yet:", err)
		time.Sleep(2 * time.Second)
	}
}
func tryMock(rep *reporter, id int32) (b *sarama.MockBroker, err error) {
	rep.mu.Lock()
	n := len(rep.errs)
	rep.mu.Unlock()
	defer func() {
		if x := recover(); x != nil {
			rep.mu.Lock()
			b, err = nil, fmt.Errorf("%v %v", x, rep.errs[n:])
			rep.errs = rep.errs[:n]
			rep.mu.Unlock()
		}
	}()
	return sarama.NewMockBroker(rep, id), nil
}

func memI(x int64, l []int64) bool {
	for _, y := range l {
		if x == y {
			return true
		}
	}
	return false
}

func runRef(r *rand.Rand) (refCase, []string) {
	rep := &reporter{}
	var c refCase
	nk := 1 + r.Intn(3)
	for k := 1; k <= nk; k++ {
		c.Brokers = append(c.Brokers, int64(k))
	}
	// seed listeners: some of the known brokers' own addresses, some seed-only listeners 4..6
	cand := []int64{1, 2, 3, 4, 5, 6}[:]
	r.Shuffle(len(cand), func(i, j int) { cand[i], cand[j] = cand[j], cand[i] })
	for _, l := range cand {
		if (l > int64(nk) && l <= 3) || len(c.SeedAddrs) == 3 {
			continue
		}
		if len(c.SeedAddrs) == 0 || r.Intn(2) == 0 {
			c.SeedAddrs = append(c.SeedAddrs, l)
		}
	}
	used := append([]int64{}, c.Brokers...)
	for _, l := range c.SeedAddrs {
		if !memI(l, used) {
			used = append(used, l)
		}
	}
	for _, l := range used {
		if r.Intn(5) == 0 {
			c.Unreachable = append(c.Unreachable, l)
		}
	}
	c.Attempts = r.Intn(3)
	var mu sync.Mutex
	var tried []int64
	fail := map[int64]bool{}
	addrs := map[int64]string{}
	var open []*sarama.MockBroker
	for _, l := range used {
		l := l
		if memI(l, c.Unreachable) {
			a, release, err := refusedAddr()
			if err != nil {
				return c, []string{err.Error()}
			}
			addrs[l] = a
			defer release()
			continue
		}
		b := newMock(rep, int32(l))
		addrs[l] = b.Addr()
		open = append(open, b)
	}
	defer func() {
		for _, b := range open {
			b.Close()
		}
	}()
	for _, b := range open {
		l := int64(b.BrokerID())
		b.VerifC19SetHandler(func(q sarama.VerifC19Request) interface{} {
			if q.Kind != "MetadataRequest" {
				rep.add("unexpected request " + q.Kind)
				return nil
			}
			mu.Lock()
			defer mu.Unlock()
			tried = append(tried, l)
			if fail[l] {
				return sarama.VerifC19Drop
			}
			resp := &sarama.MetadataResponse{Version: q.Version, ControllerID: 1}
			for _, k := range c.Brokers {
				resp.AddBroker(addrs[k], int32(k))
			}
			return resp
		})
	}
	listenerOf := func(a string) int64 {
		for l, x := range addrs {
			if x == a {
				return l
			}
		}
		return -9
	}
	cfg := sarama.NewConfig()
	cfg.Version = sarama.V1_0_0_0
	cfg.Metadata.Retry.Max = c.Attempts
	cfg.Metadata.Retry.Backoff = 0
	cfg.Metadata.RefreshFrequency = 0
	cfg.Net.DialTimeout = 2 * time.Second
	cfg.Net.ReadTimeout = 3 * time.Second
	var seedAddrs []string
	for _, l := range c.SeedAddrs {
		seedAddrs = append(seedAddrs, addrs[l])
	}
	setFail := func() []int64 {
		mu.Lock()
		defer mu.Unlock()
		var f []int64
		for _, l := range used {
			fail[l] = false
			if memI(l, c.Unreachable) {
				f = append(f, l)
			} else if r.Intn(5) < 2 {
				fail[l] = true
				f = append(f, l)
			}
		}
		tried = nil
		return f
	}
	// round 0: the constructor
	rd := refRound{Fail: setFail()}
	for _, l := range c.SeedAddrs {
		rd.Live = append(rd.Live, l)
	}
	client, err := sarama.NewClient(seedAddrs, cfg)
	mu.Lock()
	rd.Tried = append([]int64{}, tried...)
	mu.Unlock()
	rd.OK = err == nil
	c.Rounds = append(c.Rounds, rd)
	if err != nil {
		c.Rounds[0].Err = err.Error()
		// the constructor shuffles the seeds; without a client the order is read off the requests seen
		// (only used when every seed failed: any order of the failing seeds gives the same observation up to order)
		seen := map[int64]bool{}
		for _, l := range rd.Tried {
			if !seen[l] {
				seen[l] = true
				c.Seeds = append(c.Seeds, 100+l)
			}
		}
		for _, l := range c.SeedAddrs {
			if !seen[l] {
				c.Seeds = append(c.Seeds, 100+l)
			}
		}
		return c, rep.errs
	}
	defer client.Close()
	live, dead := sarama.VerifC15SeedAddrs(client)
	// the seed order of the constructor: seeds that failed in round 0 were moved to the dead list in order
	for _, a := range dead {
		c.Seeds = append(c.Seeds, 100+listenerOf(a))
	}
	for _, a := range live {
		c.Seeds = append(c.Seeds, 100+listenerOf(a))
	}
	for i, n := 0, 1+r.Intn(3); i < n; i++ {
		rd := refRound{}
		live, dead := sarama.VerifC15SeedAddrs(client)
		for _, a := range live {
			rd.Live = append(rd.Live, listenerOf(a))
		}
		for _, a := range dead {
			rd.Dead = append(rd.Dead, listenerOf(a))
		}
		for _, b := range client.Brokers() {
			rd.Known = append(rd.Known, int64(b.ID()))
		}
		sort.Slice(rd.Known, func(i, j int) bool { return rd.Known[i] < rd.Known[j] })
		rd.Fail = setFail()
		err := client.RefreshMetadata()
		mu.Lock()
		rd.Tried = append([]int64{}, tried...)
		mu.Unlock()
		rd.OK = err == nil
		if err != nil {
			rd.Err = err.Error()
		}
		c.Rounds = append(c.Rounds, rd)
	}
	return c, rep.errs
}

func refTerm(c refCase) string {
	var rs []string
	for _, rd := range c.Rounds {
		rs = append(rs, fmt.Sprintf("{| rd_fail := %s; rd_ll := %s; rd_ok := %s; rd_tried := %s |}", cf.ZList(rd.Fail), cf.ZList(rd.LL), cf.Bool(rd.OK), cf.ZList(rd.Tried)))
	}
	return fmt.Sprintf("{| rc_seeds := %s; rc_attempts := %s; rc_brokers := %s; rc_unreachable := %s; rc_deadline := %s; rc_rounds := %s |}",
		cf.ZList(c.Seeds), cf.Nat(c.Attempts), cf.ZList(c.Brokers), cf.ZList(c.Unreachable), cf.Bool(c.Deadline), cf.List(rs))
}

// monitor: a call succeeds whenever a live seed or a known broker answers (or a set-aside seed, given a retry);
// it fails only if nobody it may ask answers; nobody is asked twice within one pass
func monitorRef(c refCase, harness []string) *cf.Monitor {
	if len(harness) > 0 {
		return &cf.Monitor{Signature: "ref:harness-error", What: strings.Join(harness, "; ")}
	}
	for i, rd := range c.Rounds {
		healthy := func(l int64) bool { return !memI(l, rd.Fail) }
		anyLive, anyDead := false, false
		for _, l := range rd.Live {
			anyLive = anyLive || healthy(l)
		}
		for _, l := range rd.Known {
			anyLive = anyLive || healthy(l)
		}
		for _, l := range rd.Dead {
			anyDead = anyDead || healthy(l)
		}
		// no seed is ever lost: each one is in the seed list or set aside
		if rd.Live != nil || rd.Dead != nil {
			have := append(append([]int64{}, rd.Live...), rd.Dead...)
			want := append([]int64{}, c.SeedAddrs...)
			sort.Slice(have, func(i, j int) bool { return have[i] < have[j] })
			sort.Slice(want, func(i, j int) bool { return want[i] < want[j] })
			if !eqList(have, want) {
				return &cf.Monitor{Signature: "ref:seed-lost", What: fmt.Sprintf("round %d: seeds %v + set aside %v, given %v", i, rd.Live, rd.Dead, c.SeedAddrs)}
			}
		}
		if !rd.OK && !anyLive && rd.Err != sarama.ErrOutOfBrokers.Error() {
			return &cf.Monitor{Signature: "ref:unexpected-error-class", What: fmt.Sprintf("round %d: nobody answers, error %q", i, rd.Err)}
		}
		if anyLive && !rd.OK {
			return &cf.Monitor{Signature: "ref:failed-although-a-candidate-answers", What: fmt.Sprintf("round %d: seeds %v known %v failing %v: call failed", i, rd.Live, rd.Known, rd.Fail)}
		}
		if !anyLive && anyDead && c.Attempts >= 1 && !rd.OK {
			return &cf.Monitor{Signature: "ref:failed-although-a-set-aside-seed-answers", What: fmt.Sprintf("round %d: dead seeds %v failing %v attempts %d: call failed", i, rd.Dead, rd.Fail, c.Attempts)}
		}
		if rd.OK && !anyLive && !anyDead {
			return &cf.Monitor{Signature: "ref:succeeded-although-nobody-answers", What: fmt.Sprintf("round %d", i)}
		}
		if rd.OK && len(rd.Tried) > 0 && !healthy(rd.Tried[len(rd.Tried)-1]) {
			return &cf.Monitor{Signature: "ref:succeeded-on-a-failing-candidate", What: fmt.Sprintf("round %d tried %v", i, rd.Tried)}
		}
	}
	return nil
}

// ---------------------------------------------------------------- readers concurrent with refreshes
type concRead struct {
	Call call `json:"call"`
	Obs  obs  `json:"obs"`
}
type concCase struct {
	A     view       `json:"a"`
	B     view       `json:"b"`
	Flips int        `json:"flips"`
	Reads []concRead `json:"reads"`
	OnlyA int        `json:"only_a"` // reads that can only have seen view A / view B (filled by the monitor)
	OnlyB int        `json:"only_b"`
}

// a view in which no read misses: every topic, every partition, every leader and the controller present
func genFullView(r *rand.Rand) view {
	var v view
	for id := int64(1); id <= 4; id++ {
		if id == 1 || r.Intn(3) != 0 {
			v.Brokers = append(v.Brokers, [2]int64{id, int64(r.Intn(naddr))})
		}
	}
	v.Ctrl = v.Brokers[r.Intn(len(v.Brokers))][0]
	for t := int64(0); t < ntopics; t++ {
		tm := tmeta{Name: t}
		for p := int64(0); p < nparts; p++ {
			pm := pmeta{ID: p, Leader: v.Brokers[r.Intn(len(v.Brokers))][0]}
			for i, n := 0, 1+r.Intn(3); i < n; i++ {
				pm.Replicas = append(pm.Replicas, v.Brokers[r.Intn(len(v.Brokers))][0])
			}
			pm.Isr = append(pm.Isr, pm.Replicas[0])
			tm.Parts = append(tm.Parts, pm)
		}
		r.Shuffle(len(tm.Parts), func(i, j int) { tm.Parts[i], tm.Parts[j] = tm.Parts[j], tm.Parts[i] })
		v.Topics = append(v.Topics, tm)
	}
	return v
}

func runConc(r *rand.Rand, flips int) (concCase, []string) {
	rig := newSeqRig()
	defer rig.close()
	rig.v5 = true
	c := concCase{A: genFullView(r), B: genFullView(r), Flips: flips}
	rig.views = []view{c.A, c.B}
	cfg := sarama.NewConfig()
	cfg.Version = sarama.V1_0_0_0
	cfg.Metadata.Retry.Max = 0
	cfg.Metadata.Retry.Backoff = 0
	cfg.Metadata.RefreshFrequency = 0
	client, err := sarama.NewClient([]string{rig.seed.Addr()}, cfg)
	if err != nil {
		return c, []string{"NewClient failed: " + err.Error()}
	}
	defer client.Close()
	const readers = 3
	const perReader = 120
	var wg sync.WaitGroup
	stop := make(chan struct{})
	results := make([][]concRead, readers)
	for i := 0; i < readers; i++ {
		rr := rand.New(rand.NewSource(r.Int63()))
		wg.Add(1)
		go func(i int, rr *rand.Rand) {
			defer wg.Done()
			for n := 0; ; n++ {
				select {
				case <-stop:
					return
				default:
				}
				cl := randomReads(rr, 1)[0]
				if cl.K == "topics" {
					cl = call{K: "brokers"}
				}
				o := rig.do(client, cl)
				if len(results[i]) < perReader {
					results[i] = append(results[i], concRead{cl, o})
				} else {
					results[i][n%perReader] = concRead{cl, o}
				}
			}
		}(i, rr)
	}
	var herr []string
	for f := 0; f < flips; f++ {
		rig.mu.Lock()
		rig.cur = (f + 1) % 2
		rig.mu.Unlock()
		if err := client.RefreshMetadata(); err != nil {
			herr = append(herr, "refresh: "+err.Error())
		}
	}
	close(stop)
	wg.Wait()
	for _, rs := range results {
		c.Reads = append(c.Reads, rs...)
	}
	return c, append(herr, rig.rep.errs...)
}

func concTerm(c concCase) string {
	var rs []string
	for _, x := range c.Reads {
		rs = append(rs, fmt.Sprintf("(%s, %s)", x.Call.coq(), x.Obs.coq()))
	}
	return fmt.Sprintf("{| nc_a := %s; nc_b := %s; nc_reads := %s |}", c.A.coq(true), c.B.coq(true), cf.List(rs))
}

// monitor: every read equals what view A or view B says (computed directly from the views)
func monitorConc(c *concCase, harness []string) *cf.Monitor {
	if len(harness) > 0 {
		return &cf.Monitor{Signature: "conc:harness-error", What: strings.Join(harness, "; ")}
	}
	expect := func(v view, cl call) obs {
		addr := map[int64]int64{}
		for _, b := range v.Brokers {
			addr[b[0]] = b[1]
		}
		var t *tmeta
		for i := range v.Topics {
			if v.Topics[i].Name == cl.T {
				t = &v.Topics[i]
			}
		}
		switch cl.K {
		case "partitions", "writable":
			return obs{K: "list", L: sortedIDs(t, cl.K == "writable")}
		case "leader":
			pm := lastPart(t, cl.P)
			return obs{K: "broker", ID: pm.Leader, A: addr[pm.Leader]}
		case "replicas":
			return obs{K: "list", L: lastPart(t, cl.P).Replicas}
		case "isr":
			return obs{K: "list", L: lastPart(t, cl.P).Isr}
		case "offline":
			return obs{K: "list", L: lastPart(t, cl.P).Offline}
		case "controller":
			return obs{K: "broker", ID: v.Ctrl, A: addr[v.Ctrl]}
		case "brokers":
			o := obs{K: "brokers"}
			for id, a := range addr {
				o.BL = append(o.BL, [2]int64{id, a})
			}
			sort.Slice(o.BL, func(i, j int) bool { return o.BL[i][0] < o.BL[j][0] })
			return o
		}
		return obs{K: "bad"}
	}
	c.OnlyA, c.OnlyB = 0, 0
	for _, x := range c.Reads {
		got := x.Obs.coq()
		ea, eb := expect(c.A, x.Call).coq(), expect(c.B, x.Call).coq()
		if got == ea && got != eb {
			c.OnlyA++
		}
		if got == eb && got != ea {
			c.OnlyB++
		}
		if got != ea && got != eb {
			return &cf.Monitor{Signature: "conc:read-is-neither-pre-nor-post-state", What: fmt.Sprintf("%s returned %s; view A says %s, view B says %s",
				x.Call.coq(), got, expect(c.A, x.Call).coq(), expect(c.B, x.Call).coq())}
		}
	}
	return nil
}

// ---------------------------------------------------------------- candidate iteration under a metadata deadline
// Metadata.Timeout is set (dlTimeout); a "slow" candidate accepts the connection, stays silent for dlSlow (> the
// time-out) and then closes it, so the deadline passes during the attempt on it. What is asserted does not depend
// on when exactly the deadline passes: the model accepts any moment, the monitor states only timing-free rules,
// and a monitor failure counts only if the same script fails twice.
const dlTimeout = 150 * time.Millisecond
const dlSlow = 220 * time.Millisecond

type dlScript struct {
	SeedAddrs   []int64             `json:"seed_listeners"`
	Brokers     []int64             `json:"brokers"`
	Unreachable []int64             `json:"unreachable"`
	Attempts    int                 `json:"attempts"`
	TimeoutMs   int                 `json:"timeout_ms"` // Metadata.Timeout (0: unset)
	Rounds      []map[string]string `json:"rounds"`     // per refresh: listener -> drop | slow | leaderless (absent: healthy); the constructor runs with every reachable listener healthy
}
type dlCase struct {
	Script dlScript `json:"script"`
	refCase
}

func genDl(r *rand.Rand) dlScript {
	var s dlScript
	if r.Intn(3) == 0 {
		s.Brokers = []int64{1}
	}
	cand := []int64{1, 4, 5, 6}
	if len(s.Brokers) == 0 {
		cand = []int64{4, 5, 6}
	}
	r.Shuffle(len(cand), func(i, j int) { cand[i], cand[j] = cand[j], cand[i] })
	for _, l := range cand[:1+r.Intn(2)] {
		s.SeedAddrs = append(s.SeedAddrs, l)
	}
	s.Attempts = r.Intn(2)
	s.TimeoutMs = int(dlTimeout / time.Millisecond)
	used := append([]int64{}, s.Brokers...)
	for _, l := range s.SeedAddrs {
		if !memI(l, used) {
			used = append(used, l)
		}
	}
	nr := 2 + r.Intn(2)
	template := r.Intn(2) == 0 // everybody fails (somebody slowly), then everybody has recovered
	for i := 0; i < nr; i++ {
		m := map[string]string{}
		for _, l := range used {
			k := strconv.Itoa(int(l))
			switch {
			case template && i == 0:
				m[k] = []string{"slow", "slow", "drop"}[r.Intn(3)]
			case template:
			default:
				switch r.Intn(5) {
				case 0:
					m[k] = "drop"
				case 1, 2:
					m[k] = "slow"
				}
			}
		}
		if template && i == 0 {
			m[strconv.Itoa(int(used[len(used)-1]))] = "slow"
		}
		s.Rounds = append(s.Rounds, m)
	}
	return s
}

// leaderless answers: a seed answers with a partition that has no leader, so the refresh retries (Retry.Max 1-2,
// no back-off, no deadline) while other seeds are unreachable and already set aside; the advertised brokers are
// reachable or not; further refreshes follow
func genLl(r *rand.Rand) dlScript {
	var s dlScript
	for k := int64(1); k <= int64(r.Intn(3)); k++ {
		s.Brokers = append(s.Brokers, k)
	}
	cand := []int64{4, 5, 6}
	if len(s.Brokers) > 0 && r.Intn(3) == 0 {
		cand = append(cand, 1) // a seed that is also an advertised broker
	}
	r.Shuffle(len(cand), func(i, j int) { cand[i], cand[j] = cand[j], cand[i] })
	s.SeedAddrs = append(s.SeedAddrs, cand[:2+r.Intn(2)]...)
	s.Attempts = 1 + r.Intn(2)
	used := append([]int64{}, s.Brokers...)
	for _, l := range s.SeedAddrs {
		if !memI(l, used) {
			used = append(used, l)
		}
	}
	// at least one seed answers, the others are often unreachable
	keep := s.SeedAddrs[r.Intn(len(s.SeedAddrs))]
	for _, l := range used {
		if l != keep && r.Intn(2) == 0 {
			s.Unreachable = append(s.Unreachable, l)
		}
	}
	for i, nr := 0, 2+r.Intn(2); i < nr; i++ {
		m := map[string]string{}
		for _, l := range used {
			if memI(l, s.Unreachable) {
				continue
			}
			switch r.Intn(6) {
			case 0:
				m[strconv.Itoa(int(l))] = "drop"
			case 1, 2, 3:
				m[strconv.Itoa(int(l))] = "leaderless"
			}
		}
		s.Rounds = append(s.Rounds, m)
	}
	return s
}

func runDl(s dlScript) (dlCase, []string) {
	rep := &reporter{}
	c := dlCase{Script: s}
	c.SeedAddrs, c.Brokers, c.Unreachable, c.Attempts, c.Deadline = s.SeedAddrs, s.Brokers, s.Unreachable, s.Attempts, s.TimeoutMs > 0
	used := append([]int64{}, s.Brokers...)
	for _, l := range s.SeedAddrs {
		if !memI(l, used) {
			used = append(used, l)
		}
	}
	var mu sync.Mutex
	var tried []int64
	mode := map[int64]string{}
	addrs := map[int64]string{}
	var open []*sarama.MockBroker
	for _, l := range used {
		if memI(l, s.Unreachable) {
			a, release, err := refusedAddr()
			if err != nil {
				return c, []string{err.Error()}
			}
			addrs[l] = a
			defer release()
			continue
		}
		b := newMock(rep, int32(l))
		addrs[l] = b.Addr()
		open = append(open, b)
	}
	defer func() {
		for _, b := range open {
			b.Close()
		}
	}()
	for _, b := range open {
		l := int64(b.BrokerID())
		b.VerifC19SetHandler(func(q sarama.VerifC19Request) interface{} {
			if q.Kind != "MetadataRequest" {
				rep.add("unexpected request " + q.Kind)
				return nil
			}
			mu.Lock()
			tried = append(tried, l)
			m := mode[l]
			mu.Unlock()
			switch m {
			case "slow":
				time.Sleep(dlSlow)
				return sarama.VerifC19Drop
			case "drop":
				return sarama.VerifC19Drop
			}
			resp := &sarama.MetadataResponse{Version: q.Version, ControllerID: 1}
			for _, k := range s.Brokers {
				resp.AddBroker(addrs[k], int32(k))
			}
			if m == "leaderless" {
				resp.AddTopicPartition("t0", 0, -1, []int32{1}, []int32{}, nil, sarama.ErrLeaderNotAvailable)
			}
			return resp
		})
	}
	listenerOf := func(a string) int64 {
		for l, x := range addrs {
			if x == a {
				return l
			}
		}
		return -9
	}
	cfg := sarama.NewConfig()
	cfg.Version = sarama.V1_0_0_0
	cfg.Metadata.Retry.Max = s.Attempts
	cfg.Metadata.Retry.Backoff = 0
	cfg.Metadata.RefreshFrequency = 0
	cfg.Metadata.Timeout = time.Duration(s.TimeoutMs) * time.Millisecond
	cfg.Net.DialTimeout = 3 * time.Second
	cfg.Net.ReadTimeout = 3 * time.Second
	var seedAddrs []string
	for _, l := range s.SeedAddrs {
		seedAddrs = append(seedAddrs, addrs[l])
	}
	rd := refRound{Live: append([]int64{}, s.SeedAddrs...), Fail: append([]int64{}, s.Unreachable...)}
	client, err := sarama.NewClient(seedAddrs, cfg)
	mu.Lock()
	rd.Tried = append([]int64{}, tried...)
	mu.Unlock()
	rd.OK = err == nil
	if err != nil {
		rd.Err = err.Error()
		c.Rounds = append(c.Rounds, rd)
		for _, l := range s.SeedAddrs {
			c.Seeds = append(c.Seeds, 100+l)
		}
		return c, append(rep.errs, "NewClient with healthy seeds failed: "+err.Error())
	}
	c.Rounds = append(c.Rounds, rd)
	defer client.Close()
	live, dead := sarama.VerifC15SeedAddrs(client)
	for _, a := range dead {
		c.Seeds = append(c.Seeds, 100+listenerOf(a))
	}
	for _, a := range live {
		c.Seeds = append(c.Seeds, 100+listenerOf(a))
	}
	for _, m := range s.Rounds {
		rd := refRound{}
		live, dead := sarama.VerifC15SeedAddrs(client)
		for _, a := range live {
			rd.Live = append(rd.Live, listenerOf(a))
		}
		for _, a := range dead {
			rd.Dead = append(rd.Dead, listenerOf(a))
		}
		for _, b := range client.Brokers() {
			rd.Known = append(rd.Known, int64(b.ID()))
		}
		sort.Slice(rd.Known, func(i, j int) bool { return rd.Known[i] < rd.Known[j] })
		mu.Lock()
		tried = nil
		for _, l := range used {
			mode[l] = m[strconv.Itoa(int(l))]
			switch {
			case memI(l, s.Unreachable):
				rd.Fail = append(rd.Fail, l)
			case mode[l] == "leaderless":
				rd.LL = append(rd.LL, l)
			case mode[l] != "":
				rd.Fail = append(rd.Fail, l)
			}
		}
		mu.Unlock()
		err := client.RefreshMetadata()
		mu.Lock()
		rd.Tried = append([]int64{}, tried...)
		mu.Unlock()
		rd.OK = err == nil
		if err != nil {
			rd.Err = err.Error()
		}
		c.Rounds = append(c.Rounds, rd)
	}
	// the state the last call left behind
	last := refRound{}
	live, dead = sarama.VerifC15SeedAddrs(client)
	for _, a := range live {
		last.Live = append(last.Live, listenerOf(a))
	}
	for _, a := range dead {
		last.Dead = append(last.Dead, listenerOf(a))
	}
	for _, b := range client.Brokers() {
		last.Known = append(last.Known, int64(b.ID()))
	}
	c.After = &last
	return c, rep.errs
}

// monitorDl: only rules that hold whenever the deadline happens to pass
func monitorDl(c dlCase, harness []string) *cf.Monitor {
	if len(harness) > 0 {
		return &cf.Monitor{Signature: "refresh:harness-error", What: strings.Join(harness, "; ")}
	}
	states := append([]refRound{}, c.Rounds[1:]...)
	if c.After != nil {
		states = append(states, *c.After)
	}
	for i, rd := range states {
		have := append(append([]int64{}, rd.Live...), rd.Dead...)
		want := append([]int64{}, c.SeedAddrs...)
		sort.Slice(have, func(i, j int) bool { return have[i] < have[j] })
		sort.Slice(want, func(i, j int) bool { return want[i] < want[j] })
		if !eqList(have, want) {
			return &cf.Monitor{Signature: "refresh:seed-lost", What: fmt.Sprintf("before call %d: seeds %v + set aside %v, given %v", i+1, rd.Live, rd.Dead, c.SeedAddrs)}
		}
		stranded := len(rd.Live) == 0 && len(rd.Known) == 0 && len(rd.Dead) > 0
		if i < len(c.Rounds)-1 {
			healthy := func(l int64) bool { return !memI(l, rd.Fail) }
			anyDead := false
			for _, l := range rd.Dead {
				anyDead = anyDead || healthy(l)
			}
			if stranded && anyDead && !rd.OK {
				return &cf.Monitor{Signature: "refresh:seed-lost-after-deadline", What: fmt.Sprintf("call %d: every seed %v was left set aside by the call before (it gave up past the deadline), nobody was asked, the call failed although a seed answers (failing now: %v)", i+1, rd.Dead, rd.Fail)}
			}
			if !c.Deadline { // no deadline: whoever answers among the live candidates is reached
				anyLive := false
				for _, l := range rd.Live {
					anyLive = anyLive || healthy(l)
				}
				for _, l := range rd.Known {
					anyLive = anyLive || healthy(l)
				}
				if anyLive && !rd.OK {
					return &cf.Monitor{Signature: "refresh:failed-although-a-candidate-answers", What: fmt.Sprintf("call %d: seeds %v known %v failing %v leaderless %v: call failed", i+1, rd.Live, rd.Known, rd.Fail, rd.LL)}
				}
			}
			// the head of the seed list is asked first, right after the deadline was set
			if len(rd.Live) > 0 && healthy(rd.Live[0]) && !rd.OK {
				return &cf.Monitor{Signature: "refresh:failed-although-the-first-candidate-answers", What: fmt.Sprintf("call %d: seeds %v failing %v", i+1, rd.Live, rd.Fail)}
			}
			if rd.OK && len(rd.Tried) > 0 && !healthy(rd.Tried[len(rd.Tried)-1]) {
				return &cf.Monitor{Signature: "refresh:succeeded-on-a-failing-candidate", What: fmt.Sprintf("call %d tried %v", i+1, rd.Tried)}
			}
		}
		if stranded {
			return &cf.Monitor{Signature: "refresh:seeds-stranded-after-give-up", What: fmt.Sprintf("after call %d nobody is left to ask while the seeds %v are set aside", i, rd.Dead)}
		}
	}
	return nil
}

func main() {
	out := flag.String("out", ".", "output directory")
	seed := flag.Int64("seed", 1, "seed")
	n := flag.Int("n", 200, "number of sequence cases (candidate cases: 2n)")
	nconc := flag.Int("conc", 4, "number of concurrent-reader cases")
	ndl := flag.Int("dl", 48, "number of candidate cases under a metadata deadline")
	nll := flag.Int("ll", 150, "number of candidate cases with leaderless answers (in-refresh retries)")
	flips := flag.Int("flips", 150, "refreshes per concurrent-reader case")
	flag.Parse()
	sarama.Logger = nopLogger{}
	r := rand.New(rand.NewSource(*seed))
	imports := "From SV Require Import C15.Model C15.Corr."
	ws := &cf.Writer{Dir: *out, Prefix: "cases_seq", Imports: imports, CaseType: "scase", MismatchFn: "mismatches_seq", ShardSize: 40}
	wr := &cf.Writer{Dir: *out, Prefix: "cases_ref", Imports: imports, CaseType: "rcase", MismatchFn: "mismatches_ref", ShardSize: 400}
	for i := 0; i < *n; i++ {
		c, herr := runSeq(r)
		refreshes := 0
		for _, s := range c.Steps {
			refreshes += len(s.Served)
		}
		ws.Add(seqTerm(c), cf.Sidecar{Case: c, Kind: "sequence", Nontrivial: refreshes >= 2 && len(c.Steps) >= 10, Monitor: monitorSeq(c, herr)})
	}
	for i := 0; i < 2**n; i++ {
		c, herr := runRef(r)
		failing := 0
		for _, rd := range c.Rounds {
			failing += len(rd.Fail)
		}
		wr.Add(refTerm(c), cf.Sidecar{Case: c, Kind: "candidates", Nontrivial: failing >= 1 && len(c.Rounds) >= 2, Monitor: monitorRef(c, herr)})
	}
	wn := &cf.Writer{Dir: *out, Prefix: "cases_conc", Imports: imports, CaseType: "ncase", MismatchFn: "mismatches_conc", ShardSize: 10}
	for i := 0; i < *nconc; i++ {
		c, herr := runConc(r, *flips)
		mon := monitorConc(&c, herr)
		wn.Add(concTerm(c), cf.Sidecar{Case: map[string]interface{}{"a": c.A, "b": c.B, "flips": c.Flips, "reads": len(c.Reads), "only_a": c.OnlyA, "only_b": c.OnlyB}, Kind: "concurrent-readers",
			Nontrivial: c.OnlyA > 0 && c.OnlyB > 0, Monitor: mon})
	}
	// deadline cases wait for real time: scripts are generated first, then run 16 at a time
	wd := &cf.Writer{Dir: *out, Prefix: "cases_dl", Imports: imports, CaseType: "rcase", MismatchFn: "mismatches_dl", ShardSize: 100}
	scripts := make([]dlScript, *ndl+*nll)
	for i := range scripts {
		if i < *ndl {
			scripts[i] = genDl(r)
		} else {
			scripts[i] = genLl(r)
		}
	}
	type dlRes struct {
		c   dlCase
		mon *cf.Monitor
	}
	results := make([]dlRes, len(scripts))
	sem := make(chan struct{}, 16)
	var wg sync.WaitGroup
	for i := range scripts {
		wg.Add(1)
		sem <- struct{}{}
		go func(i int) {
			defer wg.Done()
			defer func() { <-sem }()
			c, herr := runDl(scripts[i])
			mon := monitorDl(c, herr)
			if mon != nil { // timing is involved: a failure counts only if the same script fails again
				c2, herr2 := runDl(scripts[i])
				if mon2 := monitorDl(c2, herr2); mon2 == nil {
					c, mon = c2, nil
				}
			}
			results[i] = dlRes{c, mon}
		}(i)
	}
	wg.Wait()
	for _, x := range results {
		slow := 0
		for _, m := range x.c.Script.Rounds {
			for _, v := range m {
				if v == "slow" {
					slow++
				}
			}
		}
		kind, nontrivial := "candidates-deadline", slow >= 1 && len(x.c.Rounds) >= 3
		if !x.c.Deadline {
			ll := 0
			for _, rd := range x.c.Rounds {
				ll += len(rd.LL)
			}
			kind, nontrivial = "candidates-leaderless", ll >= 1 && len(x.c.Rounds) >= 3
		}
		wd.Add(refTerm(x.c.refCase), cf.Sidecar{Case: x.c, Kind: kind, Nontrivial: nontrivial, Monitor: x.mon})
	}
	ws.Close()
	wr.Close()
	wn.Close()
	wd.Close()
}
