// c06corr: drives a real sarama OffsetManager against a scripted group coordinator (MockBroker with
// the handler of go/shims/c06_shim.go), performs application calls inside commit windows from the
// coordinator's handler, and writes what it observed after every operation as Coq cases for
// SV.C06.Corr, plus the direct property oracle (monitor) verdict per case.
package main

import (
	"encoding/json"
	"flag"
	"fmt"
	"math/rand"
	"net"
	"os"
	"path/filepath"
	"sort"
	"strings"
	"sync"
	"sync/atomic"
	"time"

	"github.com/Shopify/sarama"

	cf "verifharness/internal/coqfmt"
)

// ---------- scripts ----------
type aop struct {
	K string `json:"k"` // mark | reset | pclose
	P int    `json:"p"`
	O int64  `json:"o,omitempty"`
	M int    `json:"m,omitempty"`
}
type pcode struct {
	P    int   `json:"p"`
	Code int16 `json:"code"`
}
type reply struct {
	Kind       string  `json:"kind"`              // conn | resp | accept
	Applied    []int   `json:"applied,omitempty"` // conn: blocks written before the failure
	Codes      []pcode `json:"codes,omitempty"`   // resp: entries present in the response
	EmptyTopic bool    `json:"empty_topic,omitempty"`
}
type script struct {
	NoCoord bool  `json:"nocoord,omitempty"`
	Window  []aop `json:"window,omitempty"`
	Reply   reply `json:"reply"`
}
type hop struct {
	K       string   `json:"k"` // manage | app | commit | close
	P       int      `json:"p,omitempty"`
	A       *aop     `json:"a,omitempty"`
	Sc      *script  `json:"sc,omitempty"`
	Between []aop    `json:"between,omitempty"`
	Scs     []script `json:"scs,omitempty"`
}
type pairT struct {
	Off  int64 `json:"off"`
	Meta int   `json:"meta"`
}
type caseT struct {
	RetryMax  int           `json:"retry_max"`
	Auto      bool          `json:"autocommit"`
	Retention int64         `json:"retention_ms"`
	Initial   int64         `json:"initial"`
	Store0    map[int]pairT `json:"store0"`
	Hops      []hop         `json:"hops"`
}

// ---------- observations ----------
type handleObs struct {
	P        int     `json:"p"`
	Off      int64   `json:"off"`
	Meta     int     `json:"meta"`
	Errs     []int64 `json:"errs"`
	Released bool    `json:"released"`
}
type blockObs struct {
	P    int   `json:"p"`
	Off  int64 `json:"off"`
	TS   int64 `json:"ts"`
	Meta int   `json:"meta"`
}
type reqObs struct {
	Version   int64      `json:"version"`
	Retention int64      `json:"retention"`
	Blocks    []blockObs `json:"blocks"`
}
type storeObs struct {
	P    int   `json:"p"`
	Has  bool  `json:"has"`
	Off  int64 `json:"off"`
	Meta int   `json:"meta"`
}
type hopObs struct {
	Handles []handleObs `json:"handles"`
	Reqs    []reqObs    `json:"reqs"`
	Store   []storeObs  `json:"store"`
	Lookups int64       `json:"lookups"`
}

const nPids = 3

var pidTopic = [nPids]string{"t0", "t0", "t1"}
var pidPart = [nPids]int32{0, 1, 0}

func pidOf(topic string, part int32) int {
	for i := 0; i < nPids; i++ {
		if pidTopic[i] == topic && pidPart[i] == part {
			return i
		}
	}
	return -1
}
func metaStr(m int) string {
	if m == 0 {
		return ""
	}
	return fmt.Sprintf("m%d", m)
}
func metaID(s string) int {
	if s == "" {
		return 0
	}
	var v int
	if _, err := fmt.Sscanf(s, "m%d", &v); err != nil {
		return -777
	}
	return v
}

type quietReporter struct{}

func (quietReporter) Error(...interface{})          {}
func (quietReporter) Errorf(string, ...interface{}) {}
func (quietReporter) Fatal(a ...interface{})        { panic(fmt.Sprint(a...)) }
func (quietReporter) Fatalf(f string, a ...interface{}) {
	panic(fmt.Sprintf(f, a...))
}

// ---------- the run ----------
type callRec struct {
	Kind string
	P    int
	O    int64
	M    int
}
type runner struct {
	mu       sync.Mutex
	c        caseT
	store    map[int]pairT
	queue    []script
	lookups  int64
	reqs     []reqObs
	handles  map[int]sarama.PartitionOffsetManager
	released map[int]bool
	order    []int
	// monitor state (independent of the Coq model)
	calls     []callRec      // every Mark/Reset call made so far
	pend      map[int]pairT  // position the API contract says is pending
	touched   map[int]bool   // an effective call since the handle was created
	dead      map[int]bool   // handle observed released (marks on it are void by contract)
	mon       *cf.Monitor
	lastStore map[int]pairT
}

func (r *runner) fail(sig, what string) {
	if r.mon == nil {
		r.mon = &cf.Monitor{Signature: sig, What: what}
	}
}

func (r *runner) rawNext(p int) (int64, bool) {
	h := r.handles[p]
	if h == nil {
		return 0, false
	}
	o, _ := h.NextOffset()
	return o, true
}

// application call, from the main goroutine or from the coordinator's handler
func (r *runner) app(a aop) {
	h := r.handles[a.P]
	if h == nil {
		return
	}
	switch a.K {
	case "mark", "reset":
		before, m0 := h.NextOffset()
		if a.K == "mark" {
			h.MarkOffset(a.O, metaStr(a.M))
		} else {
			h.ResetOffset(a.O, metaStr(a.M))
		}
		after, m1 := h.NextOffset()
		r.calls = append(r.calls, callRec{a.K, a.P, a.O, a.M})
		pe := r.pend[a.P]
		eff := (a.K == "mark" && a.O > pe.Off) || (a.K == "reset" && a.O <= pe.Off)
		if eff {
			r.pend[a.P] = pairT{a.O, a.M}
			r.touched[a.P] = true
		}
		// monitor: Mark never lowers, Reset never raises, and the call has exactly the contract's effect
		if pe.Off >= 0 && r.pend[a.P].Off >= 0 {
			if a.K == "mark" && after < before {
				r.fail("mark:lowered-position", fmt.Sprintf("MarkOffset(%d) on p%d took NextOffset from %d to %d", a.O, a.P, before, after))
			}
			if a.K == "reset" && after > before {
				r.fail("reset:raised-position", fmt.Sprintf("ResetOffset(%d) on p%d took NextOffset from %d to %d", a.O, a.P, before, after))
			}
			want := r.pend[a.P]
			if after != want.Off || metaID(m1) != want.Meta {
				r.fail("next:not-pending-position", fmt.Sprintf("after %s(%d,m%d) on p%d NextOffset = (%d,%q), pending position is (%d,m%d) (was (%d,%q))", a.K, a.O, a.M, a.P, after, m1, want.Off, want.Meta, before, m0))
			}
		}
	case "pclose":
		h.AsyncClose()
	}
}

func (r *runner) onCommit(vc sarama.VerifC06Commit) sarama.VerifC06Reply {
	r.mu.Lock()
	defer r.mu.Unlock()
	ro := reqObs{Version: int64(vc.Version), Retention: vc.Retention}
	inReq := map[int]pairT{}
	for _, b := range vc.Blocks {
		p := pidOf(b.Topic, b.Partition)
		ro.Blocks = append(ro.Blocks, blockObs{P: p, Off: b.Offset, TS: b.Timestamp, Meta: metaID(b.Metadata)})
		inReq[p] = pairT{b.Offset, metaID(b.Metadata)}
		// monitor: a committed pair is the argument of an earlier Mark/Reset call on that partition
		found := false
		for _, c := range r.calls {
			if c.P == p && c.O == b.Offset && c.M == metaID(b.Metadata) {
				found = true
			}
		}
		if !found {
			r.fail("commit:unmarked-pair", fmt.Sprintf("request carries (%d,%q) for p%d which no MarkOffset/ResetOffset call passed", b.Offset, b.Metadata, p))
		}
	}
	idx := map[int]int{}
	for i, p := range r.order {
		idx[p] = i
	}
	sort.SliceStable(ro.Blocks, func(i, j int) bool { return idx[ro.Blocks[i].P] < idx[ro.Blocks[j].P] })
	r.reqs = append(r.reqs, ro)
	sc := script{Reply: reply{Kind: "accept"}}
	if len(r.queue) > 0 {
		sc = r.queue[0]
		r.queue = r.queue[1:]
	}
	for _, a := range sc.Window {
		r.app(a)
	}
	write := func(p int) {
		if v, ok := inReq[p]; ok {
			r.store[p] = v
		}
	}
	switch sc.Reply.Kind {
	case "conn":
		for _, p := range sc.Reply.Applied {
			write(p)
		}
		return sarama.VerifC06Reply{Drop: true}
	case "resp":
		errs := map[string]map[int32]int16{}
		seen := map[int]bool{}
		for _, pc := range sc.Reply.Codes {
			if seen[pc.P] {
				continue
			}
			seen[pc.P] = true
			if errs[pidTopic[pc.P]] == nil {
				errs[pidTopic[pc.P]] = map[int32]int16{}
			}
			errs[pidTopic[pc.P]][pidPart[pc.P]] = pc.Code
			if pc.Code == 0 {
				write(pc.P)
			}
		}
		if sc.Reply.EmptyTopic {
			for p := range inReq {
				if errs[pidTopic[p]] == nil {
					errs[pidTopic[p]] = map[int32]int16{}
				}
			}
		}
		return sarama.VerifC06Reply{Errors: errs}
	default:
		errs := map[string]map[int32]int16{}
		for p := range inReq {
			if errs[pidTopic[p]] == nil {
				errs[pidTopic[p]] = map[int32]int16{}
			}
			errs[pidTopic[p]][pidPart[p]] = 0
			write(p)
		}
		return sarama.VerifC06Reply{Errors: errs}
	}
}

func errID(e error) int64 {
	if k, ok := e.(sarama.KError); ok {
		return int64(k)
	}
	if e == sarama.ErrIncompleteResponse {
		return -1
	}
	return -2
}

func (r *runner) observe() hopObs {
	r.mu.Lock()
	defer r.mu.Unlock()
	var o hopObs
	for _, p := range r.order {
		h := r.handles[p]
		off, meta := h.NextOffset()
		ho := handleObs{P: p, Off: off, Meta: metaID(meta), Errs: []int64{}, Released: r.released[p]}
	drain:
		for !ho.Released {
			select {
			case e, ok := <-h.Errors():
				if !ok {
					ho.Released = true
					r.released[p] = true
					break drain
				}
				ho.Errs = append(ho.Errs, errID(e.Err))
			default:
				break drain
			}
		}
		o.Handles = append(o.Handles, ho)
	}
	o.Reqs = r.reqs
	r.reqs = nil
	for p := 0; p < nPids; p++ {
		v, ok := r.store[p]
		o.Store = append(o.Store, storeObs{P: p, Has: ok, Off: v.Off, Meta: v.Meta})
	}
	o.Lookups = r.lookups
	return o
}

func isAccept(rp reply, req []blockObs) bool {
	if rp.Kind == "accept" {
		return true
	}
	if rp.Kind != "resp" {
		return false
	}
	for _, b := range req {
		ok := false
		for _, pc := range rp.Codes {
			if pc.P == b.P {
				ok = pc.Code == 0
				break
			}
		}
		if !ok {
			return false
		}
	}
	return true
}

// monitor checks after one hop (property statements evaluated on what the implementation did)
func (r *runner) monitorHop(h hop, o hopObs, liveBefore map[int]bool) {
	// the stored offset goes backwards only if a ResetOffset to at or below the new value was called
	for p := 0; p < nPids; p++ {
		nv, ok := r.store[p]
		ov, had := r.lastStore[p]
		if ok && had && nv.Off < ov.Off {
			found := false
			for _, c := range r.calls {
				if c.Kind == "reset" && c.P == p && c.O <= nv.Off {
					found = true
				}
			}
			if !found {
				r.fail("store:regress-without-reset", fmt.Sprintf("stored offset of p%d went from %d to %d and no ResetOffset at or below %d was called", p, ov.Off, nv.Off, nv.Off))
			}
		}
		if ok {
			r.lastStore[p] = nv
		}
	}
	quiet := func(sc script) bool { return !sc.NoCoord && len(sc.Window) == 0 }
	check := func(sig, when string) {
		for p := range liveBefore {
			if !r.touched[p] {
				continue
			}
			if r.store[p] != r.pend[p] {
				r.fail(sig, fmt.Sprintf("%s the coordinator stores %+v for p%d, the latest mark is %+v", when, r.store[p], p, r.pend[p]))
			}
		}
	}
	switch h.K {
	case "commit":
		// a partition released by a commit (not by Close's forced release) is clean: the store has its latest mark
		for p := range liveBefore {
			if r.released[p] && r.touched[p] && r.store[p] != r.pend[p] {
				r.fail("release:dirty-partition-released", fmt.Sprintf("p%d was released by a commit while the coordinator stores %+v and its latest mark is %+v", p, r.store[p], r.pend[p]))
			}
		}
		// an accepted commit with nothing happening meanwhile leaves every live partition stored at its latest mark
		if quiet(*h.Sc) && len(h.Between) == 0 && len(o.Reqs) <= 1 {
			var blocks []blockObs
			if len(o.Reqs) == 1 {
				blocks = o.Reqs[0].Blocks
			}
			if isAccept(h.Sc.Reply, blocks) {
				check("commit:mark-lost", "after an accepted commit")
			}
		}
	case "close":
		if r.c.Auto {
			all := true
			for i, rq := range o.Reqs {
				sc := script{Reply: reply{Kind: "accept"}}
				if i < len(h.Scs) {
					sc = h.Scs[i]
				}
				if !quiet(sc) || !isAccept(sc.Reply, rq.Blocks) {
					all = false
				}
			}
			// scripts that were consumed by failed lookups never reach o.Reqs: require none scripted
			for _, sc := range h.Scs {
				if sc.NoCoord {
					all = false
				}
			}
			if all {
				check("close:mark-not-flushed", "after Close with auto-commit and an accepting coordinator")
			}
		}
	}
}


// ---------- shared infrastructure: one listener, one client per configuration ----------
// Opening a listener and a client (2-3 TCP connections) per case leaves tens of thousands of sockets in TIME_WAIT in the
// thorough tier and fails on a machine that is short of ephemeral ports.  All cases share one MockBroker (its handler is
// replaced per case) and one client per offset-manager configuration; listener creation and dialling are retried with
// back-off.  A case only ever talks through its own handler closure and its own OffsetManager, which is closed before
// the next case starts, so nothing leaks between cases (checked: the output is byte-identical to one broker+client per case).
type cfgKey struct {
	RetryMax  int
	Auto      bool
	Retention int64
	Initial   int64
}

type env struct {
	mb      *sarama.MockBroker
	clients map[cfgKey]sarama.Client
}

var theEnv = &env{clients: map[cfgKey]sarama.Client{}}

const (
	retryTimes = 50
	retryPause = 100 * time.Millisecond
)

var dialGiveUps int64 // dial attempts that failed even after all retries: the case that saw one is not trustworthy

// retryDialer is sarama's default dialer with retries: the listener exists for as long as the harness runs, so a refused or
// failed dial is an accident of the environment (no free ephemeral port), not behaviour of the code under test.
type retryDialer struct{ d net.Dialer }

func (rd *retryDialer) Dial(network, addr string) (net.Conn, error) {
	var err error
	for i := 0; i < retryTimes; i++ {
		var c net.Conn
		if c, err = rd.d.Dial(network, addr); err == nil {
			return c, nil
		}
		time.Sleep(retryPause)
	}
	atomic.AddInt64(&dialGiveUps, 1)
	return nil, err
}
func (rd *retryDialer) String() string { return "retryDialer" }
func newRetryDialer(cfg *sarama.Config) *retryDialer {
	return &retryDialer{d: net.Dialer{Timeout: cfg.Net.DialTimeout, KeepAlive: cfg.Net.KeepAlive}}
}

func tryBroker() (mb *sarama.MockBroker, err error) {
	defer func() {
		if x := recover(); x != nil {
			mb, err = nil, fmt.Errorf("%v", x)
		}
	}()
	return sarama.NewMockBroker(quietReporter{}, 1), nil
}

func (e *env) broker() *sarama.MockBroker {
	if e.mb != nil {
		return e.mb
	}
	var err error
	for i := 0; i < retryTimes; i++ {
		var mb *sarama.MockBroker
		if mb, err = tryBroker(); err == nil {
			e.mb = mb
			return mb
		}
		time.Sleep(retryPause)
	}
	panic(fmt.Sprintf("mock broker listener could not be created in %d attempts: %v", retryTimes, err))
}

func (e *env) client(c caseT) sarama.Client {
	k := cfgKey{c.RetryMax, c.Auto, c.Retention, c.Initial}
	if cl, ok := e.clients[k]; ok && !cl.Closed() {
		return cl
	}
	cfg := sarama.NewConfig()
	cfg.Version = sarama.V0_9_0_0
	cfg.Net.Proxy.Enable = true
	cfg.Net.Proxy.Dialer = newRetryDialer(cfg)
	cfg.Metadata.Retry.Max = 0
	cfg.Metadata.Retry.Backoff = 0
	cfg.Metadata.RefreshFrequency = 0
	cfg.Consumer.Return.Errors = true
	cfg.Consumer.Offsets.AutoCommit.Enable = c.Auto
	cfg.Consumer.Offsets.AutoCommit.Interval = time.Hour
	cfg.Consumer.Offsets.Retry.Max = c.RetryMax
	cfg.Consumer.Offsets.Retention = time.Duration(c.Retention) * time.Millisecond
	cfg.Consumer.Offsets.Initial = c.Initial
	var err error
	for i := 0; i < retryTimes; i++ {
		var cl sarama.Client
		if cl, err = sarama.NewClient([]string{e.broker().Addr()}, cfg); err == nil {
			e.clients[k] = cl
			return cl
		}
		time.Sleep(retryPause)
	}
	panic(fmt.Sprintf("NewClient failed %d times: %v", retryTimes, err))
}

// reset drops everything (after a case that could not be run): the next case starts on a new listener and new clients
func (e *env) reset() {
	for k, cl := range e.clients {
		func() {
			defer func() { _ = recover() }()
			_ = cl.Close()
		}()
		delete(e.clients, k)
	}
	if e.mb != nil {
		func() {
			defer func() { _ = recover() }()
			e.mb.Close()
		}()
		e.mb = nil
	}
}

// safeRun runs one case; a panic (listener/client could not be created, anything unexpected inside the harness) or a dial
// that failed for good is an error of the run, not an observation
func safeRun(c caseT) (obs []hopObs, mon *cf.Monitor, err error) {
	g0 := atomic.LoadInt64(&dialGiveUps)
	defer func() {
		if x := recover(); x != nil {
			obs, mon, err = nil, nil, fmt.Errorf("panic: %v", x)
		} else if atomic.LoadInt64(&dialGiveUps) != g0 {
			obs, mon, err = nil, nil, fmt.Errorf("a connection to the mock coordinator could not be opened in %d attempts", retryTimes)
		}
	}()
	obs, mon = runCase(c)
	return
}

func runCase(c caseT) (obs []hopObs, mon *cf.Monitor) {
	r := &runner{c: c, store: map[int]pairT{}, handles: map[int]sarama.PartitionOffsetManager{}, released: map[int]bool{},
		pend: map[int]pairT{}, touched: map[int]bool{}, dead: map[int]bool{}, lastStore: map[int]pairT{}}
	for p, v := range c.Store0 {
		r.store[p] = v
		r.lastStore[p] = v
	}
	mb := theEnv.broker()
	mb.VerifC06Install(&sarama.VerifC06Coordinator{
		Topics: map[string][]int32{"t0": {0, 1}, "t1": {0}},
		OnFindCoordinator: func() int16 {
			r.mu.Lock()
			defer r.mu.Unlock()
			r.lookups++
			if len(r.queue) > 0 && r.queue[0].NoCoord {
				r.queue = r.queue[1:]
				return 16
			}
			return 0
		},
		OnFetch: func(topic string, part int32) (int64, string, int16) {
			r.mu.Lock()
			defer r.mu.Unlock()
			if v, ok := r.store[pidOf(topic, part)]; ok {
				return v.Off, metaStr(v.Meta), 0
			}
			return -1, "", 0
		},
		OnCommit: r.onCommit,
	})
	client := theEnv.client(c)
	om, err := sarama.NewOffsetManagerFromClient("g", client)
	if err != nil {
		panic(fmt.Sprint("NewOffsetManagerFromClient: ", err))
	}
	closedOM := false
	defer func() {
		// the case is over (also when it is abandoned by a panic): nothing of it may run into the next one
		if !closedOM {
			_ = om.Close()
		}
	}()
	for _, h := range c.Hops {
		live := map[int]bool{}
		for _, p := range r.order {
			if !r.released[p] {
				live[p] = true
			}
		}
		switch h.K {
		case "manage":
			if closedOM {
				break
			}
			pom, err := om.ManagePartition(pidTopic[h.P], pidPart[h.P])
			if err == nil {
				// monitor: a partition can be managed again only after its previous handle was released, and a handle is
				// released only when the store has its latest mark - a new handle must never replace one whose mark is pending
				if _, seen := r.handles[h.P]; seen && !r.released[h.P] && r.touched[h.P] && r.store[h.P] != r.pend[h.P] {
					r.fail("manage:pending-mark-discarded", fmt.Sprintf("ManagePartition handed out a new handle for p%d while the previous one (not released) holds the uncommitted mark %+v; the coordinator stores %+v", h.P, r.pend[h.P], r.store[h.P]))
				}
				if _, seen := r.handles[h.P]; !seen {
					r.order = append(r.order, h.P)
				}
				r.handles[h.P] = pom
				r.released[h.P] = false
				// monitor: NextOffset of a fresh handle is the stored position, or the configured initial one
				st, has := r.store[h.P]
				want := pairT{c.Initial, 0}
				if has && st.Off >= 0 {
					want = st
				}
				o, m := pom.NextOffset()
				if o != want.Off || metaID(m) != want.Meta {
					r.fail("next:not-stored-position", fmt.Sprintf("fresh handle of p%d: NextOffset = (%d,%q), store has %+v (present=%v), initial %d", h.P, o, m, st, has, c.Initial))
				}
				if has {
					r.pend[h.P] = st
				} else {
					r.pend[h.P] = pairT{-1, 0}
				}
				r.touched[h.P] = false
			}
		case "app":
			r.app(*h.A)
		case "commit":
			r.mu.Lock()
			r.queue = []script{*h.Sc}
			r.mu.Unlock()
			if len(h.Between) == 0 {
				om.Commit()
			} else {
				sarama.VerifC06Flush(om)
				for _, a := range h.Between {
					r.app(a)
				}
				sarama.VerifC06Release(om)
			}
			r.mu.Lock()
			r.queue = nil
			r.mu.Unlock()
		case "close":
			r.mu.Lock()
			r.queue = append([]script{}, h.Scs...)
			r.mu.Unlock()
			_ = om.Close()
			closedOM = true
			r.mu.Lock()
			r.queue = nil
			r.mu.Unlock()
		}
		o := r.observe()
		r.monitorHop(h, o, live)
		obs = append(obs, o)
	}
	if !closedOM {
		_ = om.Close()
		closedOM = true
	}
	return obs, r.mon
}

// ---------- printing ----------
func coqAop(a aop) string {
	switch a.K {
	case "mark":
		return cf.App("AMark", cf.Z(int64(a.P)), cf.Z(a.O), cf.Z(int64(a.M)))
	case "reset":
		return cf.App("AReset", cf.Z(int64(a.P)), cf.Z(a.O), cf.Z(int64(a.M)))
	}
	return cf.App("APClose", cf.Z(int64(a.P)))
}
func coqAops(as []aop) string {
	var it []string
	for _, a := range as {
		it = append(it, coqAop(a))
	}
	return cf.List(it)
}
func coqReply(rp reply) string {
	switch rp.Kind {
	case "conn":
		var z []int64
		for _, p := range rp.Applied {
			z = append(z, int64(p))
		}
		return cf.App("RConn", cf.ZList(z))
	case "resp":
		var it []string
		for _, pc := range rp.Codes {
			it = append(it, fmt.Sprintf("(%d, %s)", pc.P, cf.Z(int64(pc.Code))))
		}
		return cf.App("RResp", cf.List(it))
	}
	// accept: codes 0 for every partition (the model ignores partitions that are not in the request)
	return "(RResp [(0, 0); (1, 0); (2, 0)])"
}
func coqScript(s script) string {
	return fmt.Sprintf("{| sc_nocoord := %s; sc_window := %s; sc_reply := %s |}", cf.Bool(s.NoCoord), coqAops(s.Window), coqReply(s.Reply))
}
func coqHop(h hop) string {
	switch h.K {
	case "manage":
		return cf.App("HManage", cf.Z(int64(h.P)))
	case "app":
		return cf.App("HApp", coqAop(*h.A))
	case "commit":
		return cf.App("HCommit", coqScript(*h.Sc), coqAops(h.Between))
	}
	var it []string
	for _, s := range h.Scs {
		it = append(it, coqScript(s))
	}
	return cf.App("HClose", cf.List(it))
}
func coqObs(o hopObs) string {
	var hs, rs, ss []string
	for _, h := range o.Handles {
		hs = append(hs, fmt.Sprintf("(%d, (%s, %s, %s, %s))", h.P, cf.Z(h.Off), cf.Z(int64(h.Meta)), cf.ZList(h.Errs), cf.Bool(h.Released)))
	}
	for _, r := range o.Reqs {
		var bs []string
		for _, b := range r.Blocks {
			bs = append(bs, fmt.Sprintf("(%d, (%s, %s, %s))", b.P, cf.Z(b.Off), cf.Z(b.TS), cf.Z(int64(b.Meta))))
		}
		rs = append(rs, fmt.Sprintf("(%s, %s, %s)", cf.Z(r.Version), cf.Z(r.Retention), cf.List(bs)))
	}
	for _, s := range o.Store {
		v := "None"
		if s.Has {
			v = fmt.Sprintf("(Some (%s, %s))", cf.Z(s.Off), cf.Z(int64(s.Meta)))
		}
		ss = append(ss, fmt.Sprintf("(%d, %s)", s.P, v))
	}
	return fmt.Sprintf("{| o_handles := %s; o_reqs := %s; o_store := %s; o_lookups := %s |}", cf.List(hs), cf.List(rs), cf.List(ss), cf.Z(o.Lookups))
}
func coqCase(c caseT, obs []hopObs) string {
	var st, steps []string
	for p := 0; p < nPids; p++ {
		if v, ok := c.Store0[p]; ok {
			st = append(st, fmt.Sprintf("(%d, (%s, %s))", p, cf.Z(v.Off), cf.Z(int64(v.Meta))))
		}
	}
	for i, h := range c.Hops {
		steps = append(steps, fmt.Sprintf("(%s, %s)", coqHop(h), coqObs(obs[i])))
	}
	return fmt.Sprintf("{| k_cfg := {| c_retry_max := %s; c_autocommit := %s; c_retention := %s; c_initial := %s |}; k_store0 := %s; k_universe := [0; 1; 2]; k_steps := %s |}",
		cf.Nat(c.RetryMax), cf.Bool(c.Auto), cf.Z(c.Retention), cf.Z(c.Initial), cf.List(st), cf.List(steps))
}

// ---------- generators ----------
func mk(k string, p int, o int64, m int) aop { return aop{K: k, P: p, O: o, M: m} }
func appHop(a aop) hop                       { return hop{K: "app", A: &a} }
func commitHop(sc script, between ...aop) hop {
	return hop{K: "commit", Sc: &sc, Between: between}
}
func respAll(code int16) reply {
	return reply{Kind: "resp", Codes: []pcode{{0, code}, {1, code}, {2, code}}}
}

// the alphabet of the small-scope enumeration on partition 0 (offsets lo/mid/hi = 2/5/8; metadata 1
// everywhere so that an offset marked again after a reset restores an equal pair)
func alphabet() []hop {
	acc := script{Reply: reply{Kind: "accept"}}
	return []hop{
		appHop(mk("mark", 0, 2, 1)), appHop(mk("mark", 0, 5, 1)), appHop(mk("mark", 0, 8, 2)),
		appHop(mk("reset", 0, 2, 1)), appHop(mk("reset", 0, 5, 1)), appHop(mk("reset", 0, 8, 3)),
		appHop(mk("pclose", 0, 0, 0)),
		commitHop(acc),
		commitHop(script{Reply: respAll(14)}),
		commitHop(script{Reply: respAll(16)}),
		commitHop(script{Reply: respAll(12)}),
		commitHop(script{Reply: respAll(3)}),
		commitHop(script{Reply: reply{Kind: "resp"}}),
		commitHop(script{Reply: reply{Kind: "conn", Applied: []int{0}}}),
		commitHop(script{Reply: reply{Kind: "conn"}}),
		commitHop(script{NoCoord: true, Reply: reply{Kind: "accept"}}),
		commitHop(script{Window: []aop{mk("mark", 0, 8, 2)}, Reply: reply{Kind: "accept"}}),
		commitHop(script{Window: []aop{mk("reset", 0, 2, 1)}, Reply: reply{Kind: "accept"}}),
		commitHop(script{Window: []aop{mk("reset", 0, 2, 1), mk("mark", 0, 5, 1)}, Reply: reply{Kind: "accept"}}),
		commitHop(script{Window: []aop{mk("mark", 0, 5, 1), mk("pclose", 0, 0, 0)}, Reply: reply{Kind: "accept"}}),
		commitHop(acc, mk("reset", 0, 5, 1)),
		commitHop(acc, mk("mark", 0, 8, 2)),
		{K: "close"},
		{K: "close", Scs: []script{{Reply: respAll(14)}, {Reply: reply{Kind: "conn"}}}},
		{K: "close", Scs: []script{{Window: []aop{mk("mark", 0, 8, 2)}, Reply: reply{Kind: "accept"}}}},
	}
}

func baseCase(i int) caseT {
	c := caseT{RetryMax: i % 3, Auto: i%4 != 3, Initial: -1 - int64(i%2), Store0: map[int]pairT{}}
	if i%5 == 1 {
		c.Retention = 60000
	}
	if i%3 == 1 {
		c.Store0[0] = pairT{4, 7}
	}
	return c
}

func randAop(r *rand.Rand, np int) aop {
	p := r.Intn(np)
	offs := []int64{2, 5, 8, 11, 5, 8}
	switch r.Intn(9) {
	case 0, 1, 2, 3:
		return mk("mark", p, offs[r.Intn(len(offs))], 1+r.Intn(2))
	case 4, 5, 6:
		return mk("reset", p, offs[r.Intn(len(offs))], 1+r.Intn(2))
	case 7:
		return mk("reset", p, -3+int64(r.Intn(4)), r.Intn(2))
	}
	if r.Intn(3) == 0 {
		return mk("pclose", p, 0, 0)
	}
	return mk("mark", p, int64(r.Intn(14)), r.Intn(3))
}
func randAops(r *rand.Rand, np, max int) []aop {
	var as []aop
	if r.Intn(2) == 0 {
		return nil
	}
	for n := 1 + r.Intn(max); n > 0; n-- {
		as = append(as, randAop(r, np))
	}
	return as
}

var codePool = []int16{0, 0, 0, 0, 14, 16, 6, 5, 15, 12, 28, 3, 22, 25, 27, 1}

func randReply(r *rand.Rand, np int) reply {
	switch r.Intn(8) {
	case 0:
		var ap []int
		for p := 0; p < nPids; p++ {
			if r.Intn(2) == 0 {
				ap = append(ap, p)
			}
		}
		return reply{Kind: "conn", Applied: ap}
	case 1, 2, 3:
		return reply{Kind: "accept"}
	}
	rp := reply{Kind: "resp", EmptyTopic: r.Intn(2) == 0}
	for p := 0; p < nPids; p++ {
		if r.Intn(6) == 0 {
			continue // missing block
		}
		rp.Codes = append(rp.Codes, pcode{p, codePool[r.Intn(len(codePool))]})
	}
	return rp
}
func randScript(r *rand.Rand, np int) script {
	return script{NoCoord: r.Intn(10) == 0, Window: randAops(r, np, 3), Reply: randReply(r, np)}
}

func randCase(r *rand.Rand, maxLen int) caseT {
	np := 1 + r.Intn(nPids)
	c := caseT{RetryMax: r.Intn(3), Auto: r.Intn(4) != 0, Initial: -1 - int64(r.Intn(2)), Store0: map[int]pairT{}}
	if r.Intn(3) == 0 {
		c.Retention = int64(1+r.Intn(5)) * 1000
	}
	for p := 0; p < nPids; p++ {
		if r.Intn(3) == 0 {
			c.Store0[p] = pairT{int64(r.Intn(9)) - 1, r.Intn(3)}
		}
	}
	for p := 0; p < np; p++ {
		if p == 0 || r.Intn(8) != 0 {
			c.Hops = append(c.Hops, hop{K: "manage", P: p})
		}
	}
	n := 3 + r.Intn(maxLen-2)
	closed := false
	for i := 0; i < n; i++ {
		switch x := r.Intn(20); {
		case x < 9:
			c.Hops = append(c.Hops, appHop(randAop(r, np)))
		case x < 16:
			var bt []aop
			if r.Intn(4) == 0 {
				bt = randAops(r, np, 2)
			}
			sc := randScript(r, np)
			c.Hops = append(c.Hops, hop{K: "commit", Sc: &sc, Between: bt})
		case x < 18:
			if !closed {
				c.Hops = append(c.Hops, hop{K: "manage", P: r.Intn(np)})
			}
		default:
			if i > n/2 || r.Intn(4) == 0 {
				var scs []script
				for k := r.Intn(4); k > 0; k-- {
					scs = append(scs, randScript(r, np))
				}
				c.Hops = append(c.Hops, hop{K: "close", Scs: scs})
				closed = true
			}
		}
	}
	return c
}

func nontrivial(c caseT, obs []hopObs) bool {
	nreq, napp := 0, 0
	for i, h := range c.Hops {
		nreq += len(obs[i].Reqs)
		if h.K == "app" && h.A.K != "pclose" {
			napp++
		}
		if h.K == "commit" {
			napp += len(h.Sc.Window)
		}
	}
	return nreq > 0 && napp > 0
}

func kindOf(c caseT) string {
	win, cl := false, false
	for _, h := range c.Hops {
		if h.K == "commit" && (len(h.Sc.Window) > 0 || len(h.Between) > 0) {
			win = true
		}
		if h.K == "close" {
			cl = true
			for _, s := range h.Scs {
				if len(s.Window) > 0 {
					win = true
				}
			}
		}
	}
	k := []string{"seq"}
	if win {
		k = append(k, "window")
	}
	if cl {
		k = append(k, "close")
	}
	return strings.Join(k, "+")
}

func main() {
	out := flag.String("out", ".", "output directory")
	seed := flag.Int64("seed", 1, "seed")
	n := flag.Int("n", 300, "number of random long sequences")
	nshort := flag.Int("nshort", 500, "number of sampled short sequences (length 3-5 over the small alphabet)")
	depth := flag.Int("depth", 2, "exhaustive enumeration depth over the small alphabet")
	shard := flag.Int("shard", 120, "cases per Coq file")
	nsess := flag.Int("nsess", 40, "number of consumer-group session cases (monitor only)")
	failCase := flag.Int("failcase", -1, "self-test of the harness: pretend this case cannot be run (reported as HARNESSFAIL)")
	crashCase := flag.Int("crashcase", -1, "self-test of the harness: die while running this case")
	flag.Parse()
	sarama.Logger = nopLogger{}
	r := rand.New(rand.NewSource(*seed))
	w := &cf.Writer{Dir: *out, Prefix: "cases_c06", Imports: "From SV Require Import C06.Model C06.Corr.", CaseType: "case", MismatchFn: "mismatches_c06", ShardSize: *shard}
	emitted, skipped := 0, 0
	cur := filepath.Join(*out, "c06corr_current.json") // the case being run: names the culprit if the process dies
	emit := func(c caseT, gen string) {
		idx := emitted
		emitted++
		js, _ := json.Marshal(map[string]interface{}{"index": idx, "gen": gen, "script": c})
		_ = os.WriteFile(cur, js, 0o644)
		var obs []hopObs
		var mon *cf.Monitor
		var err error
		if idx == *crashCase {
			go func() { panic("c06corr -crashcase: simulated crash outside the case's goroutine") }()
			time.Sleep(time.Second)
		}
		for attempt := 0; attempt < 3; attempt++ {
			if idx == *failCase {
				err = fmt.Errorf("-failcase: simulated failure")
			} else if obs, mon, err = safeRun(c); err == nil {
				break
			}
			theEnv.reset()
			time.Sleep(time.Duration(attempt+1) * time.Second)
		}
		if err != nil {
			// not an observation of the code: the case is left out and reported (the check counts it as a broken tie)
			skipped++
			fmt.Printf("HARNESSFAIL case=%d gen=%s reason=%q script=%s\n", idx, gen, err.Error(), js)
			return
		}
		w.Add(coqCase(c, obs), cf.Sidecar{Case: map[string]interface{}{"gen": gen, "script": c, "observed": obs}, Kind: kindOf(c), Nontrivial: nontrivial(c, obs), Monitor: mon})
	}
	al := alphabet()
	manage0 := hop{K: "manage", P: 0}
	// corpus: the witnesses the property is about
	acc := script{Reply: reply{Kind: "accept"}}
	corpus := [][]hop{
		// mark inside the commit window, then a quiet accepted commit: the second commit must carry it
		{manage0, appHop(mk("mark", 0, 5, 1)), commitHop(script{Window: []aop{mk("mark", 0, 8, 2)}, Reply: reply{Kind: "accept"}}), commitHop(acc)},
		// same offset, other metadata inside the window
		{manage0, appHop(mk("mark", 0, 5, 1)), commitHop(script{Window: []aop{mk("reset", 0, 5, 2)}, Reply: reply{Kind: "accept"}}), commitHop(acc)},
		// reset inside the window, then accepted commit: the store goes back because Reset asked for it
		{manage0, appHop(mk("mark", 0, 8, 1)), commitHop(acc), commitHop(script{Window: []aop{mk("reset", 0, 2, 1)}, Reply: reply{Kind: "accept"}}), appHop(mk("reset", 0, 2, 2)), commitHop(acc)},
		// close flushes the latest mark after two refused attempts
		{manage0, appHop(mk("mark", 0, 5, 1)), {K: "close", Scs: []script{{Reply: respAll(14)}, {Reply: reply{Kind: "conn"}}}}},
		// released handle, managed again: starts from the store
		{manage0, appHop(mk("mark", 0, 5, 1)), appHop(mk("pclose", 0, 0, 0)), commitHop(acc), manage0, appHop(mk("mark", 0, 8, 1)), commitHop(acc)},
	}
	for i, hs := range corpus {
		c := baseCase(0)
		c.RetryMax = 2
		c.Hops = hs
		emit(c, fmt.Sprintf("corpus-%d", i))
	}
	// exhaustive small scope
	var rec func(prefix []hop, d int)
	cnt := 0
	rec = func(prefix []hop, d int) {
		if len(prefix) > 0 {
			c := baseCase(cnt)
			cnt++
			c.Hops = append([]hop{manage0}, prefix...)
			emit(c, "exhaustive")
		}
		if d == 0 {
			return
		}
		for _, a := range al {
			rec(append(append([]hop{}, prefix...), a), d-1)
		}
	}
	rec(nil, *depth)
	// sampled short sequences over the same alphabet, one or two partitions
	for i := 0; i < *nshort; i++ {
		c := baseCase(r.Intn(60))
		c.Hops = []hop{manage0}
		two := r.Intn(3) == 0
		if two {
			c.Hops = append(c.Hops, hop{K: "manage", P: 1}, appHop(mk("mark", 1, 5, 1)))
		}
		for k := 3 + r.Intn(3); k > 0; k-- {
			c.Hops = append(c.Hops, al[r.Intn(len(al))])
		}
		emit(c, "short")
	}
	for i := 0; i < *n; i++ {
		emit(randCase(r, 40), "random")
	}
	w.Close()
	ns, nskip := runSessions(*out, *seed, *nsess)
	theEnv.reset()
	_ = os.Remove(cur)
	fmt.Printf("C06CORR cases=%d skipped=%d sessions=%d skipped_sessions=%d\n", emitted, skipped, ns, nskip)
}

type nopLogger struct{}

func (nopLogger) Print(v ...interface{})                 {}
func (nopLogger) Printf(format string, v ...interface{}) {}
func (nopLogger) Println(v ...interface{})               {}
