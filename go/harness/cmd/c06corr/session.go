// Session cases: the property checked directly (monitor only, no model behind it) on the consumer-group API that sits on
// top of the offset manager (consumer_group.go): marks and resets made through the ConsumerGroupSession from Setup, from
// ConsumeClaim and from Cleanup - the hook documented as running "before the offsets are committed for the very last time" -
// must be what the coordinator stores once Consume has returned (auto-commit on, interval 1 h: only the final flush of
// offsetManager.Close commits; the coordinator refuses at most Retry.Max attempts).
package main

import (
	"context"
	"encoding/json"
	"fmt"
	"math/rand"
	"os"
	"path/filepath"
	"sync"
	"sync/atomic"
	"time"

	"github.com/Shopify/sarama"

	cf "verifharness/internal/coqfmt"
)

type sessAct struct {
	Phase string `json:"phase"` // setup | claim | cleanup
	K     string `json:"k"`     // mark | reset | markmsg
	P     int32  `json:"p"`
	O     int64  `json:"o"`
	M     int    `json:"m"`
}
type sessCase struct {
	Parts    []int32         `json:"partitions"`
	Stored   map[int32]pairT `json:"stored"`
	Acts     []sessAct       `json:"acts"`
	Rejects  int             `json:"rejects"` // the first commits are answered with ErrOffsetsLoadInProgress
	RetryMax int             `json:"retry_max"`
}
type sessObs struct {
	Commits [][]blockObs    `json:"commits"`
	Store   map[int32]pairT `json:"store"`
}

const sessTopic = "t0"

type sessHandler struct {
	c     sessCase
	ready *sync.WaitGroup
}

func (h *sessHandler) run(s sarama.ConsumerGroupSession, phase string, part int32, all bool) {
	for _, a := range h.c.Acts {
		if a.Phase != phase || (!all && a.P != part) {
			continue
		}
		switch a.K {
		case "mark":
			s.MarkOffset(sessTopic, a.P, a.O, metaStr(a.M))
		case "markmsg":
			s.MarkMessage(&sarama.ConsumerMessage{Topic: sessTopic, Partition: a.P, Offset: a.O - 1}, metaStr(a.M))
		case "reset":
			s.ResetOffset(sessTopic, a.P, a.O, metaStr(a.M))
		}
	}
}
func (h *sessHandler) Setup(s sarama.ConsumerGroupSession) error { h.run(s, "setup", 0, true); return nil }
func (h *sessHandler) Cleanup(s sarama.ConsumerGroupSession) error {
	h.run(s, "cleanup", 0, true)
	return nil
}
func (h *sessHandler) ConsumeClaim(s sarama.ConsumerGroupSession, cl sarama.ConsumerGroupClaim) error {
	h.run(s, "claim", cl.Partition(), false)
	h.ready.Done()
	for range cl.Messages() {
	}
	return nil
}

func runSession(c sessCase) (sessObs, *cf.Monitor) {
	var mu sync.Mutex
	o := sessObs{Store: map[int32]pairT{}}
	stored := map[int32]sarama.VerifC06Block{}
	for p, v := range c.Stored {
		o.Store[p] = v
		stored[p] = sarama.VerifC06Block{Offset: v.Off, Metadata: metaStr(v.Meta)}
	}
	var mon *cf.Monitor
	fail := func(sig, what string) {
		if mon == nil {
			mon = &cf.Monitor{Signature: sig, What: what}
		}
	}
	nreq := 0
	mb := theEnv.broker()
	mb.VerifC06InstallSession(quietReporter{}, &sarama.VerifC06Session{
		Group: "g", Topic: sessTopic, Partitions: c.Parts, Stored: stored,
		OnCommit: func(vc sarama.VerifC06Commit) sarama.VerifC06Reply {
			mu.Lock()
			defer mu.Unlock()
			nreq++
			var bl []blockObs
			errs := map[string]map[int32]int16{}
			for _, b := range vc.Blocks {
				bl = append(bl, blockObs{P: int(b.Partition), Off: b.Offset, TS: b.Timestamp, Meta: metaID(b.Metadata)})
				if errs[b.Topic] == nil {
					errs[b.Topic] = map[int32]int16{}
				}
				if nreq <= c.Rejects {
					errs[b.Topic][b.Partition] = 14
				} else {
					errs[b.Topic][b.Partition] = 0
					o.Store[b.Partition] = pairT{b.Offset, metaID(b.Metadata)}
				}
				// a committed pair is the argument of a Mark/Reset call of the session on that partition
				found := false
				for _, a := range c.Acts {
					if a.P == b.Partition && a.O == b.Offset && a.M == metaID(b.Metadata) {
						found = true
					}
				}
				if !found {
					fail("commit:unmarked-pair", fmt.Sprintf("session commit carries (%d,%q) for partition %d which no Mark/Reset call passed", b.Offset, b.Metadata, b.Partition))
				}
			}
			o.Commits = append(o.Commits, bl)
			return sarama.VerifC06Reply{Errors: errs}
		},
	})
	cfg := sarama.NewConfig()
	cfg.Version = sarama.V0_10_2_0
	cfg.Net.Proxy.Enable = true
	cfg.Net.Proxy.Dialer = newRetryDialer(cfg)
	cfg.Metadata.Retry.Max = 0
	cfg.Consumer.Return.Errors = false
	cfg.Consumer.MaxWaitTime = 50 * time.Millisecond
	cfg.Consumer.Group.Heartbeat.Interval = 100 * time.Millisecond
	cfg.Consumer.Offsets.AutoCommit.Enable = true
	cfg.Consumer.Offsets.AutoCommit.Interval = time.Hour
	cfg.Consumer.Offsets.Retry.Max = c.RetryMax
	var group sarama.ConsumerGroup
	var err error
	for i := 0; i < retryTimes; i++ {
		if group, err = sarama.NewConsumerGroup([]string{mb.Addr()}, "g", cfg); err == nil {
			break
		}
		time.Sleep(retryPause)
	}
	if err != nil {
		panic(fmt.Sprint("NewConsumerGroup: ", err))
	}
	closed := int32(0)
	defer func() {
		if atomic.CompareAndSwapInt32(&closed, 0, 1) {
			_ = group.Close()
		}
	}()
	h := &sessHandler{c: c, ready: &sync.WaitGroup{}}
	h.ready.Add(len(c.Parts))
	ctx, cancel := context.WithCancel(context.Background())
	defer cancel()
	done := make(chan error, 1)
	go func() { done <- group.Consume(ctx, []string{sessTopic}, h) }()
	up := make(chan struct{})
	go func() { h.ready.Wait(); close(up) }()
	select {
	case <-up:
	case e := <-done:
		panic(fmt.Sprint("session: Consume returned before the claims were running: ", e))
	case <-time.After(120 * time.Second):
		panic("session: the claims did not start within 120 s")
	}
	cancel() // the session ends: claims drain, Cleanup runs, the offset manager is closed (final flush)
	select {
	case e := <-done:
		if e != nil {
			panic(fmt.Sprint("session: Consume: ", e))
		}
	case <-time.After(120 * time.Second):
		panic("session: Consume did not return within 120 s")
	}
	if atomic.CompareAndSwapInt32(&closed, 0, 1) {
		_ = group.Close()
	}
	// the property, from the calls alone: the pending position of a partition starts at the stored one, MarkOffset moves it
	// up only, ResetOffset down (or sideways) only; program order = Setup, ConsumeClaim, Cleanup (claims touch their own partition)
	mu.Lock()
	defer mu.Unlock()
	for _, p := range c.Parts {
		pos, has := c.Stored[p]
		if !has {
			pos = pairT{-1, 0}
		}
		touched := false
		for _, ph := range []string{"setup", "claim", "cleanup"} {
			for _, a := range c.Acts {
				if a.Phase != ph || a.P != p {
					continue
				}
				if (a.K == "reset" && a.O <= pos.Off) || (a.K != "reset" && a.O > pos.Off) {
					pos, touched = pairT{a.O, a.M}, true
				}
			}
		}
		if touched && c.Rejects <= c.RetryMax && o.Store[p] != pos {
			fail("session:mark-not-flushed", fmt.Sprintf("after the session ended (auto-commit, coordinator accepting from attempt %d of %d) the coordinator stores %+v for partition %d, the latest mark made through the session is %+v",
				c.Rejects+1, c.RetryMax+1, o.Store[p], p, pos))
		}
	}
	return o, mon
}

func randSession(r *rand.Rand, i int) sessCase {
	c := sessCase{Parts: []int32{0}, Stored: map[int32]pairT{}, RetryMax: r.Intn(3)}
	if r.Intn(2) == 0 {
		c.Parts = []int32{0, 1}
	}
	c.Rejects = r.Intn(c.RetryMax + 1)
	if r.Intn(2) == 0 {
		c.Rejects = 0
	}
	for _, p := range c.Parts {
		if r.Intn(2) == 0 {
			c.Stored[p] = pairT{int64(1 + r.Intn(6)), 1 + r.Intn(2)}
		}
	}
	phases := []string{"setup", "claim", "cleanup", "cleanup", "claim"}
	kinds := []string{"mark", "mark", "markmsg", "reset", "mark"}
	for n := 1 + r.Intn(5); n > 0; n-- {
		c.Acts = append(c.Acts, sessAct{Phase: phases[r.Intn(len(phases))], K: kinds[r.Intn(len(kinds))],
			P: c.Parts[r.Intn(len(c.Parts))], O: int64(1 + r.Intn(12)), M: 1 + r.Intn(3)})
	}
	// every third case ends with a mark in Cleanup above everything else (the documented use of the hook)
	if i%3 == 0 {
		c.Acts = append(c.Acts, sessAct{Phase: "cleanup", K: "mark", P: c.Parts[0], O: int64(20 + r.Intn(5)), M: 3})
	}
	return c
}

// runSessions runs n seeded session cases and writes their sidecar (monitor verdicts); returns (run, skipped)
func runSessions(out string, seed int64, n int) (int, int) {
	if n <= 0 {
		return 0, 0
	}
	r := rand.New(rand.NewSource(seed*7919 + 17))
	path := filepath.Join(out, "sess_c06.jsonl")
	f, err := os.Create(path)
	if err != nil {
		panic(err)
	}
	defer f.Close()
	skipped := 0
	corpus := []sessCase{
		{Parts: []int32{0}, Stored: map[int32]pairT{0: {5, 1}}, Acts: []sessAct{{Phase: "cleanup", K: "mark", P: 0, O: 42, M: 2}}},
		{Parts: []int32{0}, Stored: map[int32]pairT{0: {5, 1}}, Acts: []sessAct{{Phase: "claim", K: "mark", P: 0, O: 9, M: 2}, {Phase: "cleanup", K: "reset", P: 0, O: 3, M: 1}}, Rejects: 1, RetryMax: 1},
		{Parts: []int32{0, 1}, Stored: map[int32]pairT{}, Acts: []sessAct{{Phase: "setup", K: "mark", P: 1, O: 4, M: 1}, {Phase: "claim", K: "markmsg", P: 0, O: 7, M: 2}}},
	}
	for i := 0; i < n; i++ {
		var c sessCase
		if i < len(corpus) {
			c = corpus[i]
		} else {
			c = randSession(r, i)
		}
		js, _ := json.Marshal(map[string]interface{}{"index": i, "gen": "session", "script": c})
		_ = os.WriteFile(filepath.Join(out, "c06corr_current.json"), js, 0o644)
		var o sessObs
		var mon *cf.Monitor
		var rerr error
		for attempt := 0; attempt < 3; attempt++ {
			o, mon, rerr = safeSession(c)
			if rerr == nil {
				break
			}
			theEnv.reset()
			time.Sleep(time.Duration(attempt+1) * time.Second)
		}
		if rerr != nil {
			skipped++
			fmt.Printf("HARNESSFAIL case=%d gen=session reason=%q script=%s\n", i, rerr.Error(), js)
			continue
		}
		row, _ := json.Marshal(cf.Sidecar{Case: map[string]interface{}{"gen": "session", "script": c, "observed": o}, Kind: "session",
			Nontrivial: len(o.Commits) > 0 && len(c.Acts) > 0, Monitor: mon})
		f.Write(append(row, '\n'))
	}
	fmt.Println("SESSFILE " + path)
	return n, skipped
}

func safeSession(c sessCase) (o sessObs, mon *cf.Monitor, err error) {
	g0 := atomic.LoadInt64(&dialGiveUps)
	defer func() {
		if x := recover(); x != nil {
			mon, err = nil, fmt.Errorf("panic: %v", x)
		} else if atomic.LoadInt64(&dialGiveUps) != g0 {
			mon, err = nil, fmt.Errorf("a connection to the mock coordinator could not be opened in %d attempts", retryTimes)
		}
	}()
	o, mon = runSession(c)
	return
}
