// c10prim: correspondence + monitor harness for the primitive layer of C10 (malformed input yields an error,
// never a crash, a hang or an allocation out of proportion).  From valid encodings of put-call scripts it derives
//   every truncation, a bit flip at every position of the first 64 bytes, every length / count field set to
//   -1, 0, 2^31-1 (or the field's maximum) and remainder+1, plus random byte strings against random getter scripts,
// and runs the mirror get-calls on a realDecoder inside a child process (ulimit -v, per-input timeout, recover).
// The outcome class (values / error / panic / allocation / hang) is written for SV.Wire.CorrPrim and the property
// itself ("never panics, never allocates more than 64 MiB for an input below 1 KiB, never hangs") is the monitor.
package main

import (
	"encoding/binary"
	"encoding/json"
	"flag"
	"fmt"
	"math"
	"math/rand"
	"os"
	"time"

	"github.com/Shopify/sarama"

	cf "verifharness/internal/coqfmt"
	w1 "verifharness/internal/wire1"
)

type req struct {
	Buf   []byte   `json:"buf"`
	Start int      `json:"start"`
	Ops   []w1.DOp `json:"ops"`
}

type resp struct {
	Vals   []w1.DVal `json:"vals"`
	Status int       `json:"status"`
	Off    int       `json:"off"`
	Panic  string    `json:"panic"`
	Where  string    `json:"where"`
	Alloc  uint64    `json:"alloc"`
}

func child() {
	w1.Serve(func(l []byte) map[string]interface{} {
		var wrap struct {
			Rec json.RawMessage `json:"rec"`
		}
		if json.Unmarshal(l, &wrap) == nil && wrap.Rec != nil {
			return childRecords(wrap.Rec)
		}
		var r req
		if err := json.Unmarshal(l, &r); err != nil {
			return map[string]interface{}{"status": -1, "panic": err.Error()}
		}
		res := sarama.VerifDecodeScript(r.Buf, r.Start, r.Ops)
		return map[string]interface{}{"vals": res.Vals, "status": res.Status, "off": res.Off, "panic": res.Panic, "where": res.Where}
	})
}

const allocCap = 64 << 20

type input struct {
	buf   []byte
	start int
	ops   []w1.DOp
	kind  string
	note  string
	frame bool // a length / CRC frame field was set to a value that disagrees with the data: must be an error
}

// the length / count prefix of one top-level put-call: its wire form and the values to try
func prefixMutations(o w1.EOp, enc []byte, rest int, r *rand.Rand) [][]byte {
	var out [][]byte
	i32 := func(v int64) []byte { b := make([]byte, 4); binary.BigEndian.PutUint32(b, uint32(v)); return b }
	i16 := func(v int64) []byte { b := make([]byte, 2); binary.BigEndian.PutUint16(b, uint16(v)); return b }
	vi := func(v int64) []byte { b := make([]byte, 10); return b[:binary.PutVarint(b, v)] }
	uv := func(v uint64) []byte { b := make([]byte, 10); return b[:binary.PutUvarint(b, v)] }
	switch o.Op {
	case "bytes", "arraylength", "int32array", "int64array", "stringarray":
		tail := enc[4:]
		rem := int64(len(tail) + rest)
		for _, v := range []int64{-1, -2, 0, math.MaxInt32, rem + 1, rem, math.MinInt32, 131071, 1 << 30} {
			out = append(out, append(i32(v), tail...))
		}
	case "string", "nullablestring":
		tail := enc[2:]
		rem := int64(len(tail) + rest)
		for _, v := range []int64{-1, -2, 0, math.MaxInt16, rem + 1, rem, math.MinInt16} {
			if v <= math.MaxInt16 {
				out = append(out, append(i16(v), tail...))
			}
		}
	case "varintbytes", "varint":
		_, n := binary.Varint(enc)
		tail := enc[n:]
		rem := int64(len(tail) + rest)
		for _, v := range []int64{-1, -2, 0, math.MaxInt32, rem + 1, rem, math.MaxInt64, math.MinInt64} {
			out = append(out, append(vi(v), tail...))
		}
		out = append(out, append([]byte{0x80, 0x80, 0x80, 0x80, 0x80, 0x80, 0x80, 0x80, 0x80, 0x02}, tail...)) // overflow
		out = append(out, append([]byte{0x80, 0x00}, tail...))                                                  // non-canonical zero
	case "compactbytes", "compactstring", "nullablecompactstring", "compactint32array", "nullablecompactint32array", "compactarraylength", "uvarint", "emptytagged":
		_, n := binary.Uvarint(enc)
		tail := enc[n:]
		rem := uint64(len(tail) + rest)
		for _, v := range []uint64{0, 1, 2, 1 << 31, rem + 2, rem + 1, rem/4 + 2, math.MaxUint64, 1 << 63, 1<<63 + 1, 1 << 62} {
			out = append(out, append(uv(v), tail...))
		}
		out = append(out, append([]byte{0xff, 0xff, 0xff, 0xff, 0xff, 0xff, 0xff, 0xff, 0xff, 0x7f}, tail...)) // overflow
	case "frame":
		switch o.Kind {
		case "len":
			tail := enc[4:]
			rem := int64(len(tail) + rest)
			for _, v := range []int64{-1, 0, math.MaxInt32, rem + 1, rem, int64(len(tail)) + 1, int64(len(tail)) - 1, math.MinInt32} {
				out = append(out, append(i32(v), tail...))
			}
		case "varlen":
			_, n := binary.Varint(enc)
			tail := enc[n:]
			rem := int64(len(tail) + rest)
			for _, v := range []int64{-1, 0, math.MaxInt32, rem + 1, int64(len(tail)) + 1, int64(len(tail)) - 1, math.MaxInt64} {
				out = append(out, append(vi(v), tail...))
			}
			// same value, non-minimal encoding: the field is then one byte longer than reserveLength() assumes
			if len(tail) < 64 {
				out = append(out, append([]byte{byte(2*len(tail)) | 0x80, 0x00}, tail...))
			}
		default: // crc: a wrong checksum
			c := append([]byte{}, enc...)
			c[r.Intn(4)] ^= 1 << uint(r.Intn(8))
			out = append(out, c)
		}
	}
	return out
}

func main() {
	out := flag.String("out", ".", "output directory")
	seed := flag.Int64("seed", 1, "seed")
	n := flag.Int("n", 40, "number of random base scripts")
	nrec := flag.Int("nrec", 10, "number of generated bases of each kind for the records layer")
	nb := flag.Int("nb", 24, "number of boundary-corpus scripts used as bases (0 = all)")
	allBits := flag.Bool("allbits", false, "flip all 8 bits of every position (default: one random bit per position)")
	isChild := flag.Bool("child", false, "internal: serve decode requests on stdin")
	memKB := flag.Int("memkb", 1<<20, "virtual memory cap of the child in KiB")
	flag.Parse()
	if *isChild {
		child()
		return
	}
	g := &w1.Gen{R: rand.New(rand.NewSource(*seed))}
	r := g.R
	var inputs []input
	seen := map[string]bool{}
	add := func(in input) {
		k, _ := json.Marshal(req{in.buf, in.start, in.ops})
		if seen[string(k)] || len(in.buf) > 1500 {
			return
		}
		seen[string(k)] = true
		inputs = append(inputs, in)
	}

	// corpus: the witnesses of the pre-fix defects
	add(input{[]byte{0x00}, 0, []w1.DOp{{Op: "compactstring"}}, "corpus", "compact string with null length", false})
	add(input{[]byte{0x7f, 0x41}, 0, []w1.DOp{{Op: "compactstring"}}, "corpus", "compact string longer than the buffer", false})
	add(input{[]byte{0x7f, 0x41}, 0, []w1.DOp{{Op: "compactnullablestring"}}, "corpus", "compact nullable string longer than the buffer", false})
	add(input{[]byte{0x00, 0x00, 0x7f, 0xff, 0xff, 0xff}, 0, []w1.DOp{{Op: "int16"}, {Op: "stringarray"}}, "corpus", "JoinGroup member metadata: string array count 2^31-1", false})
	add(input{[]byte{0xff, 0xff, 0xff, 0xfe}, 0, []w1.DOp{{Op: "arraylength"}}, "corpus", "metadata response: array length -2", false})
	add(input{[]byte{0xff, 0xff, 0xff, 0xff, 0x0f, 1, 2, 3}, 0, []w1.DOp{{Op: "compactint32array"}}, "corpus", "compact int32 array count 2^32-2", false})
	add(input{[]byte{0xff, 0xff, 0xff, 0xff, 0xff, 0xff, 0xff, 0xff, 0xff, 0x01}, 0, []w1.DOp{{Op: "compactint32array"}}, "corpus", "compact int32 array count 2^64-2", false})
	add(input{[]byte{0x03, 0, 0, 0, 1}, 0, []w1.DOp{{Op: "compactint32array"}}, "corpus", "compact int32 array: 2 announced, 1 present", false})
	add(input{[]byte{0x80, 0x80, 0x80, 0x80, 0x10}, 0, []w1.DOp{{Op: "compactarraylength"}}, "corpus", "compact array length 2^32", false})

	base := [][]w1.EOp{}
	for _, s := range w1.BoundaryScripts() {
		res := sarama.VerifEncodeScript(s)
		if res.Status == 0 && len(res.Bytes) <= 300 {
			base = append(base, s)
		}
	}
	if *nb > 0 && *nb < len(base) {
		r.Shuffle(len(base), func(i, j int) { base[i], base[j] = base[j], base[i] })
		base = base[:*nb]
	}
	// one script per primitive kind, small, so that each getter meets each mutation class
	for i := 0; i < *n; i++ {
		base = append(base, g.Script(2, 4))
	}
	for _, ops := range base {
		res := sarama.VerifEncodeScript(ops)
		if res.Status != 0 || len(res.Bytes) > 700 {
			continue
		}
		dops := w1.DOps(ops)
		enc := res.Bytes
		add(input{enc, 0, dops, "valid", "", false})
		// truncations
		for k := 0; k < len(enc); k++ {
			if len(enc) > 96 && k > 64 && k != len(enc)-1 && r.Intn(len(enc)/24) != 0 {
				continue
			}
			add(input{enc[:k], 0, dops, "truncate", fmt.Sprintf("first %d of %d bytes", k, len(enc)), false})
		}
		// bit flips
		for p := 0; p < len(enc) && p < 64; p++ {
			for bit := 0; bit < 8; bit++ {
				if !*allBits && bit != r.Intn(8) && !(bit == 7 && r.Intn(4) == 0) {
					continue
				}
				b := append([]byte{}, enc...)
				b[p] ^= 1 << uint(bit)
				add(input{b, 0, dops, "bitflip", fmt.Sprintf("bit %d of byte %d", bit, p), false})
			}
		}
		// length / count fields of the top-level calls
		var parts [][]byte
		ok := true
		for i := range ops {
			pr := sarama.VerifEncodeScript(ops[i : i+1])
			if pr.Status != 0 {
				ok = false
				break
			}
			parts = append(parts, pr.Bytes)
		}
		if !ok {
			continue
		}
		for i := range ops {
			rest := 0
			for j := i + 1; j < len(parts); j++ {
				rest += len(parts[j])
			}
			for _, m := range prefixMutations(ops[i], parts[i], rest, r) {
				var b []byte
				for j := range parts {
					if j == i {
						b = append(b, m...)
					} else {
						b = append(b, parts[j]...)
					}
				}
				k := ops[i].Op
				if k == "frame" {
					k += "-" + ops[i].Kind
				}
				add(input{b, 0, dops, "field", fmt.Sprintf("length/count field of call %d (%s)", i, k), ops[i].Op == "frame" && string(b) != string(enc)})
			}
		}
	}
	// random bytes against random getters, at a random offset
	getters := []string{"int8", "int16", "int32", "int64", "varint", "uvarint", "arraylength", "compactarraylength", "bool", "emptytagged", "bytes",
		"varintbytes", "compactbytes", "string", "nullablestring", "compactstring", "compactnullablestring", "compactint32array", "int32array",
		"int64array", "stringarray", "rawbytes", "subset", "peek", "peekint8", "remaining", "push", "pop"}
	for i := 0; i < *n*6; i++ {
		buf := g.Bytes(r.Intn(40))
		if r.Intn(3) == 0 && len(buf) > 0 {
			buf[0] = byte(r.Intn(8)) // small leading count
		}
		start := 0
		if r.Intn(3) == 0 {
			start = r.Intn(len(buf) + 1)
		}
		var ops []w1.DOp
		depth := 0
		for j, k := 0, 1+r.Intn(4); j < k; j++ {
			o := w1.DOp{Op: getters[r.Intn(len(getters))]}
			switch o.Op {
			case "rawbytes", "subset":
				o.N = []int{-1, 0, 1, 3, len(buf), len(buf) + 1, 1 << 40}[r.Intn(7)]
			case "peek":
				o.O, o.N = r.Intn(6), r.Intn(6)
			case "peekint8":
				o.O = r.Intn(20)
			case "push":
				o.Kind = []string{"len", "varlen", "crc-ieee", "crc-cast"}[r.Intn(4)]
				depth++
			case "pop":
				if depth == 0 {
					o = w1.DOp{Op: "remaining"}
				} else {
					depth--
				}
			}
			ops = append(ops, o)
		}
		add(input{buf, start, ops, "random", "", false})
	}

	self, err := os.Executable()
	if err != nil {
		panic(err)
	}
	ch := w1.NewChild(self, *memKB)
	defer ch.Close()
	call := func(in input, ops []w1.DOp) (resp, bool, bool) {
		l, died, to := ch.Call(req{in.buf, in.start, ops}, 10*time.Second)
		var rs resp
		if !died && !to {
			if err := json.Unmarshal(l, &rs); err != nil {
				panic(fmt.Sprintf("bad child response %q: %v", l, err))
			}
		}
		return rs, died, to
	}
	wd := w1.NewSizedWriter(*out, "cases_mal", "dcase", "mismatches_dec", 400, 250000)
	for _, in := range inputs {
		rs, died, to := call(in, in.ops)
		var mon *cf.Monitor
		class := ""
		switch {
		case died || to:
			// localise: the shortest prefix of the script that still kills the child
			where := "?"
			for k := 1; k <= len(in.ops); k++ {
				_, d2, t2 := call(in, in.ops[:k])
				if d2 || t2 {
					where = in.ops[k-1].Op
					break
				}
			}
			rs = resp{Status: 101, Where: where}
			class = "alloc"
			if to {
				rs.Status = 102
				class = "hang"
			}
		case rs.Status == 100:
			class = "panic"
		case rs.Alloc > allocCap && len(in.buf) < 1024:
			class = "alloc"
			rs.Vals, rs.Status, rs.Off = nil, 101, 0
		}
		if class != "" {
			mon = &cf.Monitor{Signature: fmt.Sprintf("prim:%s:%s", class, rs.Where), What: fmt.Sprintf("%s on %d input bytes (%s %s) %s", class, len(in.buf), in.kind, in.note, rs.Panic)}
		} else if in.frame && rs.Status == 0 {
			mon = &cf.Monitor{Signature: "prim:frame-field-not-verified", What: fmt.Sprintf("a length / CRC field that disagrees with the data was accepted (%s)", in.note)}
		}
		desc := map[string]interface{}{"buf": w1.Hex(in.buf), "start": in.start, "ops": in.ops, "mutation": in.kind, "note": in.note, "status": rs.Status, "off": rs.Off, "alloc": rs.Alloc}
		wd.Add(w1.DCaseTerm(in.buf, in.start, in.ops, rs.Vals, rs.Status, rs.Off), cf.Sidecar{Case: desc, Kind: "malformed-" + in.kind, Nontrivial: len(in.buf) > 1, Monitor: mon})
	}
	wd.Close()
	runRecordsMalformed(*out, *seed, *nrec, *allBits, ch)
}
