package main

import (
	"encoding/binary"
	"encoding/json"
	"fmt"
	"hash/crc32"
	"math"
	"math/rand"
	"strings"
	"time"

	"github.com/Shopify/sarama"

	cf "verifharness/internal/coqfmt"
	w1 "verifharness/internal/wire1"
)

// stream d for the records layer: valid record batches (all codecs) / message sets (with compressed wrappers) /
// records arrays, then every truncation, bit flips over the first 64 bytes (as they are, and with the CRC
// recomputed so that the corruption reaches the decoders behind it), every length / count field set to
// -1, 0, 2^31-1, remainder+1 (CRC recomputed), corrupted compressed payloads, random bytes.

type rreq struct {
	Phase string `json:"phase,omitempty"` // "scan": only run the codec library on the payloads the decode can hand to it
	Kind  string `json:"kind"`
	Buf   []byte `json:"buf"`
	Start int    `json:"start"`
	N     int    `json:"n"`
	Aux   []byte `json:"aux"`
}

type rresp struct {
	Entries []w1.TabEntry `json:"entries"`
	Header []byte `json:"header"`
	Corr   int32  `json:"corr"`
	Status int    `json:"status"`
	Off    int    `json:"off"`
	Panic  string `json:"panic"`
	Term   string `json:"term"`
	NilRec bool   `json:"nilrec"`
	Alloc  uint64 `json:"alloc"`
}

func ctorOf(kind string) (string, string) {
	switch kind {
	case "record":
		return "KRecord", "DRecord"
	case "batch":
		return "KBatch", "DBatch"
	case "mset":
		return "KMset", "DMset"
	case "top":
		return "KTop", "DTop"
	case "fblock":
		return "", "DFBlock"
	case "control":
		return "", "DControl"
	case "resphdr":
		return "", "DResp"
	case "reqhdr":
		return "", "DReq"
	}
	return "", "DRecordsL"
}

func childRecords(l []byte) map[string]interface{} {
	var r rreq
	if err := json.Unmarshal(l, &r); err != nil {
		return map[string]interface{}{"status": -1, "panic": err.Error()}
	}
	if r.Phase == "scan" {
		tab := w1.NewTable()
		if r.Kind == "fblock" {
			tab.ScanFetchBlock(r.Buf, int16(r.N))
		} else {
			tab.ScanDecompress(r.Buf, 0, 0)
		}
		return map[string]interface{}{"status": 0, "entries": tab.E}
	}
	if r.Kind == "recv" {
		rr := sarama.VerifBrokerReceive(int16(r.N), r.Buf)
		return map[string]interface{}{"status": rr.Status, "panic": rr.Panic, "header": rr.Header, "corr": rr.Corr, "off": 0, "term": "DAccepted"}
	}
	d := sarama.VerifDecodeValue(r.Kind, r.Buf, r.Start, r.N, r.Aux)
	out := map[string]interface{}{"status": d.Status, "off": d.Off, "panic": d.Panic}
	if d.Status == 0 {
		var term string
		switch r.Kind {
		case "record":
			term = w1.CoqRecord(d.Record)
		case "records":
			term = w1.CoqRecordList(d.Recs)
		case "batch":
			term = w1.CoqBatch(d.Batch)
		case "mset":
			term = w1.CoqSet(d.Set)
		case "top":
			term = w1.CoqRecordsTop(d.Records)
		case "control":
			term = w1.CoqControl(d.Control)
		case "fblock":
			term = w1.CoqFBlock(d.FBlock)
		case "resphdr":
			term = fmt.Sprintf("%s %s", cf.Z(int64(d.Length)), cf.Z(int64(d.Corr)))
		case "reqhdr":
			term = fmt.Sprintf("%s %s %s %s", cf.Z(int64(d.Key)), cf.Z(int64(d.Version)), cf.Z(int64(d.Corr)), w1.CoqBytes([]byte(d.Client)))
		}
		out["term"] = term
		out["nilrec"] = strings.Contains(term, "NILRECORD")
	}
	return out
}

var castagnoli = crc32.MakeTable(crc32.Castagnoli)

// recompute the CRC-32C of a record batch laid out at buf[0:] (covered region: byte 21 to the end of the batch as
// its length field states, or to the end of the buffer)
func fixBatchCRC(buf []byte) []byte {
	b := append([]byte{}, buf...)
	if len(b) < 21 {
		return b
	}
	end := 12 + int(int32(binary.BigEndian.Uint32(b[8:])))
	if end > len(b) || end < 21 {
		end = len(b)
	}
	binary.BigEndian.PutUint32(b[17:], crc32.Checksum(b[21:end], castagnoli))
	return b
}

// recompute the CRC-32 of the first legacy message laid out at buf[0:]
func fixMsgCRC(buf []byte) []byte {
	b := append([]byte{}, buf...)
	if len(b) < 16 {
		return b
	}
	end := 12 + int(int32(binary.BigEndian.Uint32(b[8:])))
	if end > len(b) || end < 16 {
		end = len(b)
	}
	binary.BigEndian.PutUint32(b[12:], crc32.ChecksumIEEE(b[16:end]))
	return b
}

type rinput struct {
	kind string
	buf  []byte
	n    int
	aux  []byte
	mut  string
	note string
}

func putI32(b []byte, at int, v int64) []byte {
	c := append([]byte{}, b...)
	if at+4 <= len(c) {
		binary.BigEndian.PutUint32(c[at:], uint32(v))
	}
	return c
}

func vint(v int64) []byte { b := make([]byte, 10); return b[:binary.PutVarint(b, v)] }

func runRecordsMalformed(out string, seed int64, n int, allBits bool, ch *w1.Child) {
	g := &w1.Gen{R: rand.New(rand.NewSource(seed + 104729))}
	r := g.R
	var inputs []rinput
	seen := map[string]bool{}
	add := func(in rinput) {
		k := fmt.Sprintf("%s|%x|%d|%x", in.kind, in.buf, in.n, in.aux)
		if seen[k] || len(in.buf) > 1400 {
			return
		}
		seen[k] = true
		inputs = append(inputs, in)
	}
	mutate := func(kind string, enc []byte, fix func([]byte) []byte) {
		add(rinput{kind, enc, 0, nil, "valid", ""})
		for k := 0; k < len(enc); k++ {
			if len(enc) > 90 && k > 64 && k != len(enc)-1 && r.Intn(len(enc)/20) != 0 {
				continue
			}
			add(rinput{kind, enc[:k], 0, nil, "truncate", fmt.Sprintf("first %d of %d bytes", k, len(enc))})
		}
		for p := 0; p < len(enc) && p < 64; p++ {
			for bit := 0; bit < 8; bit++ {
				if !allBits && bit != r.Intn(8) {
					continue
				}
				b := append([]byte{}, enc...)
				b[p] ^= 1 << uint(bit)
				add(rinput{kind, b, 0, nil, "bitflip", fmt.Sprintf("bit %d of byte %d", bit, p)})
				if fix != nil {
					add(rinput{kind, fix(b), 0, nil, "bitflip+crc", fmt.Sprintf("bit %d of byte %d, CRC recomputed", bit, p)})
				}
			}
		}
		// corruption further inside (compressed payloads, later records), CRC recomputed
		if fix != nil {
			for j := 0; j < 12 && len(enc) > 64; j++ {
				b := append([]byte{}, enc...)
				p := 64 + r.Intn(len(enc)-64)
				b[p] ^= 1 << uint(r.Intn(8))
				add(rinput{kind, fix(b), 0, nil, "deepflip+crc", fmt.Sprintf("byte %d, CRC recomputed", p)})
			}
		}
	}

	// ---- corpus: counts that the pre-fix Record.decode allocated from; decompress returning an empty payload
	probe := &sarama.RecordBatch{Version: 2, FirstTimestamp: time.Unix(1, 0), MaxTimestamp: time.Unix(1, 0),
		Records: []*sarama.Record{{Value: []byte("v")}, {Key: []byte("k"), Headers: []*sarama.RecordHeader{{Key: []byte("h"), Value: nil}}}}}
	pe := sarama.VerifEncodeValue(probe).Bytes
	// payload starts at 61: [len][attrs][ts][od][key -1][vallen 1]['v'][hcount]
	hc := 61 + 7
	for _, v := range []int64{-1, -2, 1, 2, math.MaxInt32, int64(len(pe) - hc), int64(len(pe)-hc) + 1, math.MaxInt64, 1 << 40} {
		b := append(append(append([]byte{}, pe[:hc]...), vint(v)...), pe[hc+1:]...)
		b = putI32(b, 8, int64(len(b)-12))
		add(rinput{"batch", fixBatchCRC(b), 0, nil, "field", fmt.Sprintf("header count of record 0 := %d", v)})
	}
	for _, v := range []int64{-1, -2, 0, 1, 3, math.MaxInt32, int64(len(pe) - 61), int64(len(pe)-61) + 1, 131070, 131071} {
		add(rinput{"batch", fixBatchCRC(putI32(pe, 57, v)), 0, nil, "field", fmt.Sprintf("record count := %d", v)})
	}
	for _, v := range []int64{-1, 0, 48, 49, 50, math.MaxInt32, math.MinInt32, int64(len(pe) - 12 + 1), int64(len(pe) - 12 - 1)} {
		add(rinput{"batch", putI32(pe, 8, v), 0, nil, "field", fmt.Sprintf("batch length := %d", v)})
		add(rinput{"batch", fixBatchCRC(putI32(pe, 8, v)), 0, nil, "field", fmt.Sprintf("batch length := %d, CRC recomputed", v)})
	}
	for codec := int8(1); codec <= 4; codec++ {
		comp, err := sarama.VerifCompress(codec, sarama.CompressionLevelDefault, []byte{})
		if err != nil {
			continue
		}
		for _, cnt := range []int64{0, 3, -1} {
			b := append(append([]byte{}, pe[:61]...), comp...)
			binary.BigEndian.PutUint16(b[21:], uint16(codec))
			b = putI32(putI32(b, 57, cnt), 8, int64(len(b)-12))
			add(rinput{"batch", fixBatchCRC(b), 0, nil, "field", fmt.Sprintf("codec %d, %d records announced, payload decompresses to nothing", codec, cnt)})
		}
	}

	// ---- generated bases
	for i := 0; i < n; i++ {
		b := g.Batch(true)
		if i%5 < 4 {
			b.Codec = sarama.CompressionCodec(i % 5)
		}
		if len(b.Records) == 0 && b.Codec == sarama.CompressionSnappy {
			b.Codec = sarama.CompressionNone
		}
		if res := sarama.VerifEncodeValue(b); res.Status == 0 && len(res.Bytes) < 700 {
			mutate("batch", res.Bytes, fixBatchCRC)
			if i%3 == 0 {
				mutate("top", res.Bytes, fixBatchCRC)
			}
		}
		set := g.Set(3, 2)
		if res := sarama.VerifEncodeValue(set); res.Status == 0 && len(res.Bytes) > 0 && len(res.Bytes) < 700 {
			mutate("mset", res.Bytes, fixMsgCRC)
			if i%3 == 1 {
				mutate("top", res.Bytes, fixMsgCRC)
			}
			// length / key length / value length of the first message
			enc := res.Bytes
			m := set.Messages[0].Msg
			kl := 12 + 6
			if m.Version >= 1 {
				kl += 8
			}
			vlAt := kl + 4
			if m.Key != nil {
				vlAt += len(m.Key)
			}
			for _, at := range []int{8, kl, vlAt} {
				for _, v := range []int64{-1, -2, 0, math.MaxInt32, int64(len(enc) - at - 4), int64(len(enc)-at-4) + 1} {
					add(rinput{"mset", fixMsgCRC(putI32(enc, at, v)), 0, nil, "field", fmt.Sprintf("int32 at %d := %d, CRC recomputed", at, v)})
				}
			}
			// the overflow-message convention: offset -1 (and only -1) on a truncated trailing block
			for _, ob := range []byte{0xff, 0x00} {
				ov := append([]byte{}, enc...)
				for k := 0; k < 8; k++ {
					ov[k] = ob
				}
				for _, cut := range []int{len(ov) - 1, len(ov) / 2, 20, 17} {
					if cut > 0 && cut < len(ov) {
						add(rinput{"mset", ov[:cut], 0, nil, "field", fmt.Sprintf("first offset bytes %#x, first %d bytes", ob, cut)})
						add(rinput{"top", ov[:cut], 0, nil, "field", fmt.Sprintf("first offset bytes %#x, first %d bytes", ob, cut)})
					}
				}
			}
		}
		rec := g.Record()
		if res := sarama.VerifEncodeValue(rec); res.Status == 0 && len(res.Bytes) < 400 {
			mutate("record", res.Bytes, nil)
		}
	}
	// control records, headers
	for i := 0; i < n; i++ {
		key, val := g.Bytes(r.Intn(6)), g.Bytes(r.Intn(8))
		if r.Intn(2) == 0 && len(key) >= 4 {
			key[0], key[1], key[2], key[3] = 0, 0, 0, byte(r.Intn(3))
		}
		add(rinput{"control", key, 0, val, "random", ""})
		hb := g.Bytes(r.Intn(12))
		if r.Intn(2) == 0 && len(hb) >= 4 {
			binary.BigEndian.PutUint32(hb, uint32([]int64{4, 5, 100 << 20, 100<<20 + 1, 77}[r.Intn(5)]))
		}
		add(rinput{"resphdr", hb, r.Intn(2), nil, "random", ""})
		rb := g.Bytes(r.Intn(20))
		if len(rb) >= 4 {
			binary.BigEndian.PutUint16(rb, uint16(r.Intn(70)))
			binary.BigEndian.PutUint16(rb[2:], uint16(r.Intn(13)))
		}
		add(rinput{"reqhdr", rb, 0, nil, "random", ""})
	}
	// pooled decompressor readers (gzip, lz4): a payload with a damaged codec header decoded when the pools are empty
	// (aux = fe: the child runs two collections first), then valid payloads of the same codec
	fresh := []byte{0xfe}
	for _, codec := range []sarama.CompressionCodec{sarama.CompressionGZIP, sarama.CompressionLZ4} {
		inner := g.Set(2, 0)
		for len(inner.Messages) == 0 {
			inner = g.Set(2, 0)
		}
		ires := sarama.VerifEncodeValue(inner)
		w := &sarama.Message{Codec: codec, CompressionLevel: sarama.CompressionLevelDefault, Value: ires.Bytes}
		wres := sarama.VerifEncodeValue(&sarama.MessageSet{Messages: []*sarama.MessageBlock{{Offset: 1, Msg: w}}})
		bt := g.Batch(true)
		bt.Codec = codec
		for len(bt.Records) == 0 {
			bt = g.Batch(true)
			bt.Codec = codec
		}
		bres := sarama.VerifEncodeValue(bt)
		if ires.Status != 0 || wres.Status != 0 || bres.Status != 0 {
			continue
		}
		for rep := 0; rep < 2; rep++ {
			// legacy wrapper: value starts at 12 + 4 + 2 + 4 + 4 = 26 (magic 0, nil key)
			bad := append([]byte{}, wres.Bytes...)
			bad[26+rep] ^= 0x55
			add(rinput{"mset", fixMsgCRC(bad), 0, fresh, "pool", fmt.Sprintf("codec %d header damaged, decompressor pools empty", codec)})
			add(rinput{"mset", append([]byte{}, wres.Bytes...), rep, nil, "pool", fmt.Sprintf("valid codec %d payload after a damaged one", codec)})
			badb := append([]byte{}, bres.Bytes...)
			badb[61+rep] ^= 0x55
			add(rinput{"batch", fixBatchCRC(badb), 0, fresh, "pool", fmt.Sprintf("codec %d header damaged, decompressor pools empty", codec)})
			add(rinput{"batch", append([]byte{}, bres.Bytes...), rep, nil, "pool", fmt.Sprintf("valid codec %d payload after a damaged one", codec)})
		}
	}
	// fetch response partition blocks: an empty (control) batch first / in the middle / last, then truncations and flips
	for i := 0; i < n; i++ {
		v := int16(4 + i%8)
		blk := g.FetchBlock(v, true)
		if i%2 == 0 {
			empty := &sarama.RecordBatch{Version: 2, Control: i%4 == 0, FirstTimestamp: time.Unix(1, 0), MaxTimestamp: time.Unix(1, 0), Records: []*sarama.Record{}}
			full := g.Batch(true)
			for len(full.Records) == 0 {
				full = g.Batch(true)
			}
			ctl := g.Batch(true)
			ctl.Control = true
			ctl.Records = []*sarama.Record{{Key: []byte{0, 0, 0, byte(i % 3)}, Value: []byte{0, 0, 0, 0, 0, 7}}}
			blk.RecordsSet = []*sarama.Records{{RecordBatch: empty}, {RecordBatch: full}, {RecordBatch: ctl}}
			if i%3 == 0 {
				blk.RecordsSet = []*sarama.Records{{RecordBatch: full}, {RecordBatch: empty}, {RecordBatch: ctl}}
			}
			blk.Records = nil
		}
		res := sarama.VerifEncodeValue(sarama.VerifFetchBlock{Block: blk, Version: v})
		if res.Status != 0 || len(res.Bytes) > 1300 {
			continue
		}
		enc := res.Bytes
		add(rinput{"fblock", enc, int(v), nil, "valid", ""})
		for k := 0; k < len(enc); k += 1 + r.Intn(9) {
			add(rinput{"fblock", enc[:k], int(v), nil, "truncate", fmt.Sprintf("first %d of %d bytes", k, len(enc))})
		}
		for j := 0; j < 24; j++ {
			b := append([]byte{}, enc...)
			p := r.Intn(len(b))
			if j < 12 && len(b) > 40 {
				p = r.Intn(40)
			}
			b[p] ^= 1 << uint(r.Intn(8))
			add(rinput{"fblock", b, int(v), nil, "bitflip", fmt.Sprintf("byte %d", p)})
		}
	}
	// response frames: boundary lengths for both header versions, decoded by responseHeader.decode and received end to
	// end by a real Broker (responseReceiver sizes the body buffer as length - headerLength + 4)
	for _, ver := range []int{0, 1} {
		for _, l := range []int64{-1, 0, 3, 4, 5, 6, 8, 9, 10, 100, 100 << 20, 100<<20 + 1, math.MaxInt32, math.MinInt32} {
			for _, tag := range []byte{0, 1} {
				frame := make([]byte, 9)
				binary.BigEndian.PutUint32(frame, uint32(l))
				binary.BigEndian.PutUint32(frame[4:], 7)
				frame[8] = tag
				if tag == 0 || ver == 1 {
					add(rinput{"resphdr", frame, ver, nil, "field", fmt.Sprintf("header v%d, frame length %d, tag byte %d", ver, l, tag)})
					add(rinput{"resphdr", frame[:8], ver, nil, "field", fmt.Sprintf("header v%d, frame length %d, 8 bytes", ver, l)})
				}
				if tag == 1 && ver == 0 {
					continue
				}
				body := l - 5
				if body < 0 || body > 12 {
					body = 3
				}
				add(rinput{"recv", append(frame, make([]byte, body)...), ver, nil, "field", fmt.Sprintf("Broker receives a frame of declared length %d (header v%d, tag byte %d)", l, ver, tag)})
			}
		}
	}
	// random bytes
	for i := 0; i < n*4; i++ {
		buf := g.Bytes(r.Intn(90))
		if len(buf) > 16 && r.Intn(2) == 0 {
			buf[16] = byte(r.Intn(3))
		}
		add(rinput{[]string{"batch", "mset", "top", "record"}[r.Intn(4)], buf, 0, nil, "random", ""})
	}

	wd := w1.NewSizedWriter(out, "cases_rmal", "dcase2", "mismatches_dec2", 300, 250000)
	wd.W.Imports = w1.RecImports
	codecObs := 0
	for _, in := range inputs {
		// phase 1: what the codec library does with the payloads this decode can hand to it (in the child: a damaged
		// frame header can make a decompressor allocate gigabytes by itself, which the property exempts)
		tab := w1.NewTable()
		var codecAlloc uint64
		usesCodec := in.kind == "batch" || in.kind == "mset" || in.kind == "top" || in.kind == "fblock"
		if usesCodec {
			sl, sdied, sto := ch.Call(map[string]interface{}{"rec": rreq{"scan", in.kind, in.buf, 0, in.n, in.aux}}, 10*time.Second)
			if sdied || sto {
				codecObs++
				continue
			}
			var sr rresp
			if err := json.Unmarshal(sl, &sr); err != nil {
				panic(fmt.Sprintf("bad child response %q: %v", sl, err))
			}
			for _, e := range sr.Entries {
				tab.Add(e.Codec, e.In, e.Out, e.Err)
			}
			codecAlloc = sr.Alloc
		}
		l, died, to := ch.Call(map[string]interface{}{"rec": rreq{"", in.kind, in.buf, 0, in.n, in.aux}}, 10*time.Second)
		var rs rresp
		class := ""
		switch {
		case (died || to) && codecAlloc > allocCap:
			// the codec library alone is a heavy allocator on this payload: not attributable to sarama's decoders
			codecObs++
			continue
		case died:
			rs.Status, class = 101, "alloc"
		case to:
			rs.Status, class = 102, "hang"
		default:
			if err := json.Unmarshal(l, &rs); err != nil {
				panic(fmt.Sprintf("bad child response %q: %v", l, err))
			}
			var decompressed uint64
			for _, e := range tab.E {
				decompressed += uint64(len(e.Out))
			}
			net := rs.Alloc
			if net > codecAlloc {
				net -= codecAlloc
			} else {
				net = 0
			}
			switch {
			case rs.Status == 100:
				class = "panic"
			case in.kind != "recv" && net > allocCap+64*decompressed && len(in.buf) < 1024:
				class = "alloc"
				rs.Status = 101
			case rs.NilRec:
				class = "nil-record"
			}
		}
		var mon *cf.Monitor
		if in.kind == "recv" {
			if rs.Header == nil {
				continue // the loopback server did not get to answer
			}
			// (a body buffer up to MaxResponseSize is the response size cap at work, not an allocation out of proportion)
			if class != "" || rs.Status == 102 {
				if class == "" {
					class = "hang"
				}
				mon = &cf.Monitor{Signature: fmt.Sprintf("c10:%s:responseReceiver:v%d-header-length", class, in.n), What: fmt.Sprintf("Broker.responseReceiver: %s on %s %s", class, in.note, rs.Panic)}
			}
		} else if class != "" {
			mon = &cf.Monitor{Signature: fmt.Sprintf("records:%s:%s", class, in.kind), What: fmt.Sprintf("%s decoding %s from %d bytes (%s %s) %s", class, in.kind, len(in.buf), in.mut, in.note, rs.Panic)}
		}
		dk, ctor := ctorOf(in.kind)
		switch in.kind {
		case "control":
			dk = "(KControl " + w1.CoqBytes(in.aux) + ")"
		case "fblock":
			dk = fmt.Sprintf("(KFBlock %d)", in.n)
		case "recv":
			dk, ctor = fmt.Sprintf("(KReceive %d %s)", in.n, cf.Z(int64(rs.Corr))), ""
		case "resphdr":
			dk = fmt.Sprintf("(KRespHeader %d)", in.n)
		case "reqhdr":
			dk = "(KReqHeader None)"
			if len(in.buf) >= 4 {
				if hv := sarama.VerifHeaderVersion(int16(binary.BigEndian.Uint16(in.buf)), int16(binary.BigEndian.Uint16(in.buf[2:]))); hv >= 0 {
					dk = fmt.Sprintf("(KReqHeader (Some %d))", hv)
				}
			}
		}
		val := "None"
		if rs.Status == 0 {
			val = cf.Some("(" + ctor + " " + rs.Term + ")")
		}
		cbuf := in.buf
		if in.kind == "recv" {
			cbuf = rs.Header
		}
		term := fmt.Sprintf("{| d2_kind := %s; d2_buf := %s; d2_start := 0; d2_tab := %s; d2_status := %d; d2_off := %d; d2_val := %s |}",
			dk, w1.CoqBytes(cbuf), tab.Coq(), rs.Status, rs.Off, val)
		wd.Add(term, cf.Sidecar{Case: map[string]interface{}{"kind": in.kind, "buf": w1.Hex(in.buf), "mutation": in.mut, "note": in.note, "status": rs.Status, "off": rs.Off, "alloc": rs.Alloc, "value": w1.ShortTerm(rs.Term)},
			Kind: "malformed-" + in.kind + "-" + in.mut, Nontrivial: len(in.buf) > 17, Monitor: mon})
	}
	wd.Close()
	fmt.Printf("OBSERVATION codec-alloc %d\n", codecObs)
}
