// c18prod: producer half of C18 (interceptors run exactly once per submitted message) — the C01 scenarios with
// counting / mutating / panicking interceptors configured, the C18a monitor, and the same trace validation.
package main

import "verifharness/internal/cluster"

func main() { cluster.Main("C18a") }
