// c05corr: C05 (idempotent producer never writes a message twice) — runs fault-script scenarios on the real
// async producer against the idempotent cluster simulator (internal/idembroker), evaluates the C05 monitor
// and writes the observations as Coq cases for coq/C05/Corr.v.
package main

import (
	"encoding/json"
	"flag"
	"fmt"
	"io/ioutil"
	"log"
	"math/rand"
	"os"
	"strings"
	"sync"
	"time"

	"github.com/Shopify/sarama"

	"verifharness/internal/coqfmt"
	ib "verifharness/internal/idembroker"
)

func main() {
	out := flag.String("out", ".", "output directory")
	seed := flag.Int64("seed", 1, "seed")
	n := flag.Int("n", 200, "number of generated scenarios (besides the corpus)")
	tier := flag.String("tier", "quick", "quick|thorough")
	replay := flag.String("replay", "", "run only the scenario of this replay/sidecar JSON file")
	dump := flag.Bool("dump", false, "print every scenario result")
	flag.Parse()
	sarama.Logger = log.New(ioutil.Discard, "", 0)
	var pmu sync.Mutex
	var panics []string
	sarama.PanicHandler = func(v interface{}) {
		pmu.Lock()
		panics = append(panics, fmt.Sprint(v))
		pmu.Unlock()
	}
	takePanics := func() []string {
		pmu.Lock()
		defer pmu.Unlock()
		p := panics
		panics = nil
		return p
	}

	var scs []*ib.Scenario
	if *replay != "" {
		raw, err := ioutil.ReadFile(*replay)
		if err != nil {
			fmt.Println("cannot read replay:", err)
			os.Exit(2)
		}
		var wrap struct {
			Case *struct {
				Scenario *ib.Scenario `json:"scenario"`
			} `json:"case"`
		}
		if err := json.Unmarshal(raw, &wrap); err != nil || wrap.Case == nil || wrap.Case.Scenario == nil {
			fmt.Println("replay file has no case.scenario")
			os.Exit(2)
		}
		scs = []*ib.Scenario{wrap.Case.Scenario}
	} else {
		scs = append(scs, ib.Corpus()...)
		r := rand.New(rand.NewSource(*seed*104729 + 5))
		for i := 0; i < *n; i++ {
			class := []int{0, 0, 0, 1, 1, 2}[i%6]
			big := *tier == "thorough" && i%3 == 0
			scs = append(scs, ib.Gen(r, ib.GenName(*seed, i, class), class, big))
		}
	}

	w := &coqfmt.Writer{Dir: *out, Prefix: "cases_C05", Imports: "From SV Require Import Producer.Msg Producer.Actors C05.Model C05.Corr.",
		CaseType: "case", MismatchFn: "mismatches_c05", ShardSize: 60}
	t0 := time.Now()
	shapes := map[string]int{}
	reqs := 0
	recycled, recycledRuns := 0, 0
	run := func(sc *ib.Scenario) (*ib.Result, []ib.Finding) {
		res := ib.Run(sc)
		fs := ib.Monitor(res)
		for _, p := range takePanics() {
			fs = append(fs, ib.Finding{Signature: "c05:" + ib.Classify(res).Name() + ":panic:" + ib.Classify(res).Sizes(), What: "a producer goroutine panicked: " + p})
		}
		return res, fs
	}
	for _, sc := range scs {
		res, fs := run(sc)
		if len(fs) > 0 {
			// only a failure seen twice counts
			res2, fs2 := run(sc)
			var both []ib.Finding
			for _, f := range fs {
				for _, g := range fs2 {
					if f.Signature == g.Signature {
						both = append(both, f)
						break
					}
				}
			}
			fs = both
			if len(fs) == 0 {
				res = res2
			}
		}
		shape := ib.Classify(res)
		shapes[shape.Name()]++
		reqs += len(res.Requests)
		recycled += len(res.Reused)
		if len(res.Reused) > 0 {
			recycledRuns++
		}
		faulted := false
		for _, r := range res.Requests {
			if r.Fault != "answer" {
				faulted = true
			}
			for _, b := range r.Batches {
				if b.Fault != "none" && b.Fault != "" {
					faulted = true
				}
			}
		}
		shared := false
		seen := map[int32]bool{}
		for _, m := range sc.Msgs {
			if seen[m.Partition] {
				shared = true
			}
			seen[m.Partition] = true
		}
		side := coqfmt.Sidecar{Kind: shape.Name(), Nontrivial: res.SetupErr == "" && (faulted || shared)}
		summary := map[string]interface{}{"scenario": sc, "outcomes": res.Outcomes, "close_ok": res.CloseOK, "requests": res.Requests,
			"final_epoch": res.FinalEpoch, "shape": shape, "wall_ms": res.Wall.Milliseconds()}
		if res.SetupErr != "" {
			summary["setup_error"] = res.SetupErr
		}
		side.Case = summary
		if len(fs) > 0 {
			// one monitor line per case: a class-independent finding (whole-batch resend) goes before the class-labelled ones
			pick := fs[0]
			for _, f := range fs {
				if strings.HasPrefix(f.Signature, "c05:retry-batch:") {
					pick = f
					break
				}
			}
			side.Monitor = &coqfmt.Monitor{Signature: pick.Signature, What: pick.What + " [" + sc.Name + "]"}
		}
		if *dump {
			for _, e := range res.Events {
				if *replay == "" {
					break
				}
				line := fmt.Sprintf("EV %4d g%-4d %-18s", e.Seq, e.Goid, e.Kind)
				if e.Msg != nil {
					line += fmt.Sprintf(" msg{id=%d r=%d f=%d p=%d seq=%d/%d/%v}", e.Msg.ID, e.Msg.Retries, e.Msg.Flags, e.Msg.Partition, e.Msg.Seq, e.Msg.Epoch, e.Msg.HasSeq)
				}
				line += fmt.Sprintf(" err=%d tp=%d hwm=%d leader=%d buf=%d/%d closing=%v retrying=%v txn=%d label=%d/%v", e.Err, e.Partition, e.HWM, e.Leader, e.BufCount, e.BufEpoch, e.Closing, e.Retrying, e.TxnEpoch, e.Label, e.HasLabel)
				for _, p := range e.Set {
					line += fmt.Sprintf(" [%d v=%d:", p.Partition, p.Verdict)
					for _, m := range p.Msgs {
						line += fmt.Sprintf(" %d(r%d,s%d,e%d)", m.ID, m.Retries, m.Seq, m.Epoch)
					}
					line += "]"
				}
				fmt.Println(line)
			}
			js, _ := json.Marshal(summary)
			fmt.Printf("SCENARIO %s findings=%v wall=%v %s\n", sc.Name, fs, res.Wall, js)
		}
		w.Add("("+ib.CoqCase(res)+")", side)
	}
	w.Close()
	fmt.Printf("RAN %d scenarios, %d produce requests, %d messages sent in recycled objects (%d scenarios), shapes %v, %.1fs\n", len(scs), reqs, recycled, recycledRuns, shapes, time.Since(t0).Seconds())
}
