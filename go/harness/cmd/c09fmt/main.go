// c09fmt: for every protocol body x every version: generated values are dumped as generic trees, encoded and
// decoded by the implementation; the observations go to Coq cases for SV.WireFmt.Corr.ok09 (the format
// interpreter over the regenerated table must produce the same bytes / the same tree), together with the
// verdict of the direct property monitor (sizing pass = writing pass, decode(encode x) succeeds, re-encoding
// gives the same bytes - the same length and the same decoded value for map-bearing bodies).
package main

import (
	"bytes"
	"encoding/hex"
	"flag"
	"fmt"
	"math/rand"
	"os"
	"reflect"

	cf "verifharness/internal/coqfmt"
	w2 "verifharness/internal/wire2"

	"github.com/Shopify/sarama"
)

type caseInfo struct {
	Body    string `json:"body"`
	V       int64  `json:"v"`
	Profile string `json:"profile"`
	Seed    int64  `json:"seed"`
	N       int    `json:"n"`
	Bytes   string `json:"bytes"`
	X       string `json:"x,omitempty"`
}

func masksCoq(ms [][]int) string {
	out := make([]string, len(ms))
	for i, m := range ms {
		z := make([]int64, len(m))
		for j, x := range m {
			z[j] = int64(x)
		}
		out[i] = cf.ZList(z)
	}
	return cf.List(out)
}

func main() {
	out := flag.String("out", ".", "output directory")
	seed := flag.Int64("seed", 1, "seed")
	n := flag.Int("n", 6, "values per body and version")
	table := flag.String("table", "", "wiregen.json")
	only := flag.String("only", "", "one body (debugging)")
	flag.Parse()
	tbl, err := w2.LoadTable(*table)
	if err != nil {
		fmt.Fprintln(os.Stderr, "c09fmt:", err)
		os.Exit(2)
	}
	w := &cf.Writer{Dir: *out, Prefix: "cases_c09fmt", ShardSize: 400,
		Imports:    "From SV Require Import WireFmt.Format WireFmt.Corr.\nFrom SVB Require Import GenFormats.",
		CaseType:   "c09case",
		MismatchFn: "mismatches_09 gen_cfg gen_table"}
	stats := map[string]int{}
	for _, row := range tbl.Rows {
		if *only != "" && row.Name != *only {
			continue
		}
		if w2.RecordsBodies[row.Name] {
			stats["skipped-records-body"]++
			continue
		}
		if w2.NewBody(row.Name) == nil {
			fmt.Printf("MISSING-CONSTRUCTOR %s\n", row.Name)
			continue
		}
		for v := row.VMin; v <= row.VMax; v++ {
			for i := 0; i < *n; i++ {
				prof := w2.PRandom
				if i < 4 {
					prof = w2.Profile(i)
				}
				r := rand.New(rand.NewSource(*seed*1000003 + int64(row.Index)*7919 + v*104729 + int64(i)))
				one(w, row, v, r, prof, *seed, i, stats)
			}
		}
	}
	w.Close()
	fmt.Printf("STATS %v total=%d\n", stats, w.Total)
}

func one(w *cf.Writer, row *w2.Row, v int64, r *rand.Rand, prof w2.Profile, seed int64, i int, stats map[string]int) {
	body := w2.NewValue(row, v, r, prof)
	x := w2.DumpBody(body)
	info := caseInfo{Body: row.Name, V: v, Profile: w2.ProfileNames[prof], Seed: seed, N: i}
	sig := func(kind string) string { return fmt.Sprintf("c09:%s:%s:v%d", kind, row.Name, v) }
	var mon *cf.Monitor
	fail := func(kind, what string) {
		if mon == nil {
			mon = &cf.Monitor{Signature: sig(kind), What: fmt.Sprintf("%s v%d (%s value %d): %s", row.Name, v, info.Profile, i, what)}
		}
	}
	raw, prep, off, err, pan := sarama.VerifWire2Encode(body)
	if pan != nil {
		fail("encode-panic", fmt.Sprintf("encode panicked: %v", pan))
	} else if err != nil {
		// the encoder refuses this value (unsupported version / value): not a round-trip case
		stats["encoder-refused"]++
		return
	}
	exact := !w2.TypeHasMap(reflect.TypeOf(body), 0) || row.AllSorted
	var ydec *w2.Tree
	if pan == nil {
		info.Bytes = hex.EncodeToString(raw)
		if prep != off {
			fail("size-mismatch", fmt.Sprintf("sizing pass computed %d bytes, writing pass wrote %d", prep, off))
		}
		y := w2.NewBody(row.Name)
		derr, dpan := sarama.VerifWire2Decode(y, raw, int16(v))
		switch {
		case dpan != nil:
			fail("decode-panic", fmt.Sprintf("decoding its own encoding panicked: %v", dpan))
		case derr != nil:
			fail("decode-error", fmt.Sprintf("decoding its own encoding failed: %v", derr))
		default:
			ydec = w2.DumpBody(y)
			raw2, _, _, err2, pan2 := sarama.VerifWire2Encode(y)
			switch {
			case pan2 != nil || err2 != nil:
				fail("reencode-error", fmt.Sprintf("re-encoding the decoded value failed: %v %v", err2, pan2))
			case len(raw2) != len(raw):
				fail("reencode-length", fmt.Sprintf("re-encoding gives %d bytes instead of %d", len(raw2), len(raw)))
			case exact && !bytes.Equal(raw, raw2):
				fail("reencode-differs", "re-encoding the decoded value gives different bytes")
			default:
				z := w2.NewBody(row.Name)
				if e3, p3 := sarama.VerifWire2Decode(z, raw2, int16(v)); e3 != nil || p3 != nil {
					fail("redecode-error", fmt.Sprintf("decoding the re-encoding failed: %v %v", e3, p3))
				} else if !reflect.DeepEqual(y, z) && maskedCoq(row, v, w2.DumpBody(y)) != maskedCoq(row, v, w2.DumpBody(z)) {
					fail("redecode-differs", "the re-encoding decodes to a different value")
				}
			}
		}
	}
	if mon != nil {
		info.X = x.Coq()
		if len(info.X) > 3000 {
			info.X = info.X[:3000] + "..."
		}
		stats["monitor-failures"]++
	}
	side := cf.Sidecar{Case: info, Kind: row.Name, Nontrivial: !x.Trivial(), Monitor: mon}
	if pan != nil || ydec == nil {
		// nothing to compare for the model beyond what the monitor says; keep the case with what exists
		if pan != nil {
			w.Add(caseTerm(row, v, x, nil, int64(prep), x, true), side)
			return
		}
		// decode failed in the implementation: the model is asked to agree on the encoding only (decoded := model's)
		stats["impl-decode-failed"]++
		w.Add(caseTermEncOnly(row, v, x, raw, int64(prep), exact), side)
		return
	}
	stats["cases"]++
	w.Add(caseTerm(row, v, x, raw, int64(prep), ydec, exact), side)
}

func caseTerm(row *w2.Row, v int64, x *w2.Tree, raw []byte, prep int64, ydec *w2.Tree, exact bool) string {
	return fmt.Sprintf("{| c_row := %s; c_v := %s; c_x := %s; c_bytes := %s; c_prep := %s; c_dec := %s; c_mask := %s; c_exact := %s |}",
		cf.Nat(row.Index), cf.Z(v), x.Coq(), cf.Bytes(raw), cf.Z(prep), ydec.Coq(), masksCoq(row.Masks[fmt.Sprint(v)]), cf.Bool(exact))
}

// the implementation could not decode its own bytes: the case keeps c_dec := VInt 0 so that the model, if it decodes,
// is reported as differing too (the monitor failure is what decides)
func caseTermEncOnly(row *w2.Row, v int64, x *w2.Tree, raw []byte, prep int64, exact bool) string {
	return caseTerm(row, v, x, raw, prep, &w2.Tree{K: 'i'}, exact)
}

// fields the decoder derives from others (e.g. a slice built by iterating a map) are not compared
func maskedCoq(row *w2.Row, v int64, t *w2.Tree) string {
	for _, m := range row.Masks[fmt.Sprint(v)] {
		mask(t, m)
	}
	return t.Coq()
}

func mask(t *w2.Tree, p []int) {
	if len(p) == 0 {
		*t = w2.Tree{K: 'i'}
		return
	}
	if p[0] < 0 {
		if t.K == 'l' {
			for _, e := range t.L {
				mask(e, p[1:])
			}
		}
		return
	}
	if t.K == 's' && p[0] < len(t.L) {
		mask(t.L[p[0]], p[1:])
	}
}
