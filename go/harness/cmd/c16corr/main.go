// c16corr: (a) drives a real produceSet through the in-package shim on generated message sequences whose sizes
// straddle every limit, (b) runs real AsyncProducers against a mock broker and measures every produce request,
// (c) observes whether buffered messages are flushed without further input. Writes the observations as Coq cases
// for SV.C16.Corr plus the direct property oracle (monitor) verdict per case.
package main

import (
	"log"
	"encoding/binary"
	"errors"
	"flag"
	"fmt"
	"math/rand"
	"os"
	"sort"
	"strings"
	"sync"
	"time"

	"github.com/Shopify/sarama"

	cf "verifharness/internal/coqfmt"
)

// ---------------------------------------------------------------- specs
type cfgSpec struct {
	Version         [4]int64 `json:"version"`
	MaxMessageBytes int      `json:"max_message_bytes"`
	FlushMessages   int      `json:"flush_messages"`
	FlushBytes      int      `json:"flush_bytes"`
	FlushFreqMs     int      `json:"flush_frequency_ms"`
	MaxMessages     int      `json:"max_messages"`
	MaxRequestSize  int32    `json:"max_request_size"`
}
type msgSpec struct {
	ID         int64    `json:"id"`
	Topic      int      `json:"topic"`
	Part       int32    `json:"part"`
	Key        *int     `json:"key"` // nil = nil encoder
	Val        *int     `json:"val"`
	Headers    [][2]int `json:"headers,omitempty"`
	HasHeaders bool     `json:"has_headers"`
	EncFail    bool     `json:"encfail,omitempty"`
}

var versions = [][4]int64{{0, 8, 2, 0}, {0, 10, 0, 0}, {0, 11, 0, 0}, {2, 1, 0, 0}}

func kafkaVersion(v [4]int64) sarama.KafkaVersion {
	kv, err := sarama.ParseKafkaVersion(fmt.Sprintf("%d.%d.%d.%d", v[0], v[1], v[2], v[3]))
	if err != nil {
		kv, err = sarama.ParseKafkaVersion(fmt.Sprintf("%d.%d.%d", v[0], v[1], v[2]))
		if err != nil {
			panic(err)
		}
	}
	return kv
}
func isBatch(v [4]int64) bool { return v[0] > 0 || v[1] >= 11 }

func (c cfgSpec) config() *sarama.Config {
	conf := sarama.NewConfig()
	conf.Version = kafkaVersion(c.Version)
	conf.Producer.MaxMessageBytes = c.MaxMessageBytes
	conf.Producer.Flush.Messages = c.FlushMessages
	conf.Producer.Flush.Bytes = c.FlushBytes
	conf.Producer.Flush.Frequency = time.Duration(c.FlushFreqMs) * time.Millisecond
	conf.Producer.Flush.MaxMessages = c.MaxMessages
	conf.Producer.Return.Successes = true
	conf.Producer.Return.Errors = true
	conf.Producer.Retry.Max = 0
	conf.Producer.Partitioner = sarama.NewManualPartitioner
	conf.Metadata.Retry.Max = 0
	conf.ClientID = "c16"
	return conf
}
func (c cfgSpec) coq() string {
	return fmt.Sprintf("{| c_version := (%d, %d, %d, %d); c_max_message_bytes := %d; c_flush_messages := %d; c_flush_bytes := %d; c_flush_frequency := %d; c_max_messages := %d; c_max_request_size := %d |}",
		c.Version[0], c.Version[1], c.Version[2], c.Version[3], c.MaxMessageBytes, c.FlushMessages, c.FlushBytes, int64(c.FlushFreqMs)*1000000, c.MaxMessages, c.MaxRequestSize)
}

func optZ(p *int) string {
	if p == nil {
		return "None"
	}
	return cf.Some(cf.Z(int64(*p)))
}
func (m msgSpec) coq() string {
	var hs []string
	for _, h := range m.Headers {
		hs = append(hs, fmt.Sprintf("(%d, %d)", h[0], h[1]))
	}
	return fmt.Sprintf("{| m_id := %d; m_topic := %d; m_part := %d; m_key := %s; m_val := %s; m_headers := %s; m_has_headers := %s; m_encfail := %s |}",
		m.ID, m.Topic, m.Part, optZ(m.Key), optZ(m.Val), cf.List(hs), cf.Bool(m.HasHeaders), cf.Bool(m.EncFail))
}

type failEnc struct{ n int }

func (f failEnc) Encode() ([]byte, error) { return nil, errors.New("encode failed") }
func (f failEnc) Length() int             { return f.n }

var topicNames []string

func topicName(i int) string { return topicNames[i] }

// build the real message; the value starts with the 4-byte id when it is long enough
func (m msgSpec) build() *sarama.ProducerMessage {
	pm := &sarama.ProducerMessage{Topic: topicName(m.Topic), Partition: m.Part, Metadata: m.ID}
	if m.Key != nil {
		pm.Key = sarama.ByteEncoder(make([]byte, *m.Key))
		if m.EncFail {
			pm.Key = failEnc{*m.Key}
		}
	}
	if m.Val != nil {
		b := make([]byte, *m.Val)
		if len(b) >= 4 {
			binary.BigEndian.PutUint32(b, uint32(m.ID))
		}
		pm.Value = sarama.ByteEncoder(b)
	}
	if m.HasHeaders {
		pm.Headers = []sarama.RecordHeader{}
		for _, h := range m.Headers {
			pm.Headers = append(pm.Headers, sarama.RecordHeader{Key: make([]byte, h[0]), Value: make([]byte, h[1])})
		}
	}
	return pm
}
func (m msgSpec) kv() int {
	n := 0
	if m.Key != nil {
		n += *m.Key
	}
	if m.Val != nil {
		n += *m.Val
	}
	return n
}
func (m msgSpec) hdr() int {
	n := 0
	for _, h := range m.Headers {
		n += h[0] + h[1] + 10
	}
	return n
}

func ip(i int) *int { return &i }

// ---------------------------------------------------------------- interceptors that change the size
type icptSpec struct {
	Kind string `json:"kind"` // grow | setval | header | panic
	D    int    `json:"d,omitempty"`
	K    int    `json:"k,omitempty"`
	V    int    `json:"v,omitempty"`
}

func (i icptSpec) coq() string {
	switch i.Kind {
	case "grow":
		return fmt.Sprintf("IGrowVal %d", i.D)
	case "setval":
		return fmt.Sprintf("ISetVal %d", i.V)
	case "header":
		return fmt.Sprintf("IAddHeader %d %d", i.K, i.V)
	}
	return "IPanic"
}

type sizeIcpt struct{ s icptSpec }

func (x sizeIcpt) OnSend(m *sarama.ProducerMessage) {
	var old []byte
	if m.Value != nil {
		old, _ = m.Value.Encode()
	}
	switch x.s.Kind {
	case "grow":
		nv := make([]byte, len(old)+x.s.D)
		copy(nv, old)
		m.Value = sarama.ByteEncoder(nv)
	case "setval":
		nv := make([]byte, x.s.V)
		copy(nv, old) // keeps the id prefix
		m.Value = sarama.ByteEncoder(nv)
	case "header":
		m.Headers = append(m.Headers, sarama.RecordHeader{Key: make([]byte, x.s.K), Value: make([]byte, x.s.V)})
	case "panic":
		panic("interceptor panics")
	}
}

// what the chain makes of a message (the harness's own reading of its interceptors)
func applyIcpts(is []icptSpec, m msgSpec) msgSpec {
	for _, i := range is {
		switch i.Kind {
		case "grow":
			v := i.D
			if m.Val != nil {
				v += *m.Val
			}
			m.Val = ip(v)
		case "setval":
			m.Val = ip(i.V)
		case "header":
			m.Headers = append(append([][2]int{}, m.Headers...), [2]int{i.K, i.V})
			m.HasHeaders = true
		}
	}
	return m
}

func genIcpts(r *rand.Rand, c cfgSpec) []icptSpec {
	switch r.Intn(6) {
	case 0:
		return []icptSpec{{Kind: "grow", D: []int{1, 2, 40, 80}[r.Intn(4)]}}
	case 1:
		if r.Intn(2) == 0 {
			return []icptSpec{{Kind: "setval", V: c.MaxMessageBytes / 4}} // shrinks everything to a clearly legal size
		}
		return []icptSpec{{Kind: "setval", V: c.MaxMessageBytes - overhead(c) - 20}}
	case 2:
		if isBatch(c.Version) {
			return []icptSpec{{Kind: "header", K: 3 + r.Intn(5), V: 30 + r.Intn(40)}}
		}
		return []icptSpec{{Kind: "panic"}, {Kind: "grow", D: 45}}
	case 3:
		return []icptSpec{{Kind: "grow", D: 50}, {Kind: "panic"}, {Kind: "grow", D: 3}}
	}
	return nil
}

// change of byteSize the chain causes on a message without headers (setval: not a delta)
func icptDelta(is []icptSpec) (delta int, absolute bool) {
	for _, i := range is {
		switch i.Kind {
		case "grow":
			delta += i.D
		case "header":
			delta += i.K + i.V + 10
		case "setval":
			absolute = true
		}
	}
	return
}

func genCfg(r *rand.Rand, tightReq bool) cfgSpec {
	c := cfgSpec{Version: versions[r.Intn(len(versions))], MaxRequestSize: 100 * 1024 * 1024}
	c.MaxMessageBytes = []int{120, 200, 333, 500, 1000, 2000}[r.Intn(6)]
	if r.Intn(2) == 0 {
		c.FlushMessages = 1 + r.Intn(5)
	}
	if r.Intn(2) == 0 {
		c.FlushBytes = 100 + r.Intn(2500)
	}
	if r.Intn(2) == 0 {
		c.FlushFreqMs = []int{2, 5, 20}[r.Intn(3)]
	}
	switch r.Intn(3) {
	case 0:
	case 1:
		c.MaxMessages = c.FlushMessages + r.Intn(4)
		if c.MaxMessages == 0 {
			c.MaxMessages = 1 + r.Intn(5)
		}
	case 2:
		c.MaxMessages = 1 + r.Intn(6)
		if c.MaxMessages < c.FlushMessages {
			c.MaxMessages = c.FlushMessages
		}
	}
	if tightReq || r.Intn(3) == 0 {
		c.MaxRequestSize = int32(10240 + c.MaxMessageBytes + 200 + r.Intn(4000))
	}
	return c
}

// overhead of byteSize for this version generation
func overhead(c cfgSpec) int {
	if isBatch(c.Version) {
		return 36
	}
	return 26
}

// a message whose byteSize is `target` (as far as possible)
func msgOfSize(r *rand.Rand, c cfgSpec, id int64, topic int, part int32, target int) msgSpec {
	m := msgSpec{ID: id, Topic: topic, Part: part}
	if isBatch(c.Version) && r.Intn(3) == 0 {
		m.HasHeaders = true
		for i, k := 0, r.Intn(3); i < k; i++ {
			m.Headers = append(m.Headers, [2]int{r.Intn(8), r.Intn(12)})
		}
	}
	kv := target - overhead(c) - m.hdr()
	if kv < 4 {
		kv = 4
	}
	switch r.Intn(4) {
	case 0: // nil key
		m.Val = ip(kv)
	case 1: // empty key
		m.Key, m.Val = ip(0), ip(kv)
	default:
		k := r.Intn(kv - 3)
		if k > 40 {
			k = r.Intn(40)
		}
		m.Key, m.Val = ip(k), ip(kv-k)
	}
	return m
}

// ---------------------------------------------------------------- (a) produceSet through the shim
type opRec struct {
	Op   string      `json:"op"`
	Msg  *msgSpec    `json:"msg,omitempty"`
	Obs  interface{} `json:"obs,omitempty"`
	Key  *[2]int64   `json:"key,omitempty"`
	term string
}

type setDriver struct {
	c    cfgSpec
	set  *sarama.VerifC16Set
	ops  []opRec
	mon  *cf.Monitor
	keys map[[2]int64]bool
}

func (d *setDriver) setMon(sig, what string) {
	if d.mon == nil {
		d.mon = &cf.Monitor{Signature: sig, What: what}
	}
}
func (d *setDriver) would(m msgSpec) bool {
	o := d.set.WouldOverflow(m.build())
	d.ops = append(d.ops, opRec{Op: "would", Msg: &m, Obs: o, term: fmt.Sprintf("OWould %s %s", m.coq(), cf.Bool(o))})
	return o
}
func (d *setDriver) add(m msgSpec) {
	err := d.set.Add(m.build())
	b, n := d.set.Counters()
	pb, pn, _ := d.set.PartitionBytes(topicName(m.Topic), m.Part)
	if err == nil {
		d.keys[[2]int64{int64(m.Topic), int64(m.Part)}] = true
	}
	d.ops = append(d.ops, opRec{Op: "add", Msg: &m, Obs: []int{b, n, pb, pn}, term: fmt.Sprintf("OAdd %s %s %d %d %d %d", m.coq(), cf.Bool(err == nil), b, n, pb, pn)})
}
func (d *setDriver) roll() {
	d.set.RollOver()
	d.keys = map[[2]int64]bool{}
	d.ops = append(d.ops, opRec{Op: "roll", term: "ORoll"})
}
func (d *setDriver) drop(k [2]int64) {
	n := d.set.DropPartition(topicName(int(k[0])), int32(k[1]))
	delete(d.keys, k)
	b, cnt := d.set.Counters()
	d.ops = append(d.ops, opRec{Op: "drop", Key: &k, Obs: []int{n, b, cnt}, term: fmt.Sprintf("ODrop (%d, %d) %d %d %d", k[0], k[1], n, b, cnt)})
}
func (d *setDriver) ready() bool {
	rd, e := d.set.ReadyToFlush(), d.set.Empty()
	d.ops = append(d.ops, opRec{Op: "ready", Obs: []bool{rd, e}, term: fmt.Sprintf("OReady %s %s", cf.Bool(rd), cf.Bool(e))})
	// monitor: a non-empty buffer with a configured trigger reached (or none configured) must be ready
	_, n := d.set.Counters()
	if n > 0 && !rd {
		if d.c.FlushMessages == 0 && d.c.FlushBytes == 0 && d.c.FlushFreqMs == 0 {
			d.setMon("flush:not-ready-without-triggers", fmt.Sprintf("%d buffered messages, no trigger configured, readyToFlush=false", n))
		}
		if d.c.FlushMessages > 0 && n >= d.c.FlushMessages {
			d.setMon("flush:not-ready-at-message-trigger", fmt.Sprintf("%d buffered messages >= Flush.Messages=%d, readyToFlush=false", n, d.c.FlushMessages))
		}
	}
	return rd
}
func (d *setDriver) size(m msgSpec, ver int) {
	s := sarama.VerifC16ByteSize(m.build(), ver)
	d.ops = append(d.ops, opRec{Op: "size", Msg: &m, Obs: []int{ver, s}, term: fmt.Sprintf("OSize %s %d %d", m.coq(), ver, s)})
}
func (d *setDriver) dispatch(m msgSpec) int {
	// the dispatcher's two tests, evaluated with the real byteSize (the black-box cases observe the dispatcher itself)
	ver, code := 1, 0
	if isBatch(d.c.Version) {
		ver = 2
	}
	if ver == 1 && m.HasHeaders {
		code = 1
	} else if sarama.VerifC16ByteSize(m.build(), ver) > d.c.MaxMessageBytes {
		code = 2
	}
	return code
}
func (d *setDriver) build() {
	req := d.set.BuildRequest()
	var bs [][4]int64
	total := 0
	for _, b := range sarama.VerifC16Batches(req) {
		ti := int64(-1)
		for i, n := range topicNames {
			if n == b.Topic {
				ti = int64(i)
			}
		}
		bs = append(bs, [4]int64{ti, int64(b.Partition), int64(b.Messages), int64(b.KVBytes)})
		total += b.Messages
		// monitor: the batch limit on what would be sent
		if b.Messages >= 2 && b.KVBytes >= d.c.MaxMessageBytes {
			d.setMon("limit:batch-bytes", fmt.Sprintf("batch %s/%d carries %d messages with %d key+value bytes >= MaxMessageBytes=%d", b.Topic, b.Partition, b.Messages, b.KVBytes, d.c.MaxMessageBytes))
		}
	}
	if d.c.MaxMessages > 0 && total > d.c.MaxMessages {
		d.setMon("limit:count", fmt.Sprintf("request carries %d messages > Flush.MaxMessages=%d", total, d.c.MaxMessages))
	}
	sort.Slice(bs, func(i, j int) bool {
		if bs[i][0] != bs[j][0] {
			return bs[i][0] < bs[j][0]
		}
		return bs[i][1] < bs[j][1]
	})
	length, lenErr, encoded, encErr := sarama.VerifC16WireLength(req, "c16")
	if lenErr != nil {
		panic(lenErr)
	}
	if encErr == nil && encoded > int(d.c.MaxRequestSize) {
		d.setMon("limit:wire", fmt.Sprintf("encode produced %d bytes > MaxRequestSize=%d", encoded, d.c.MaxRequestSize))
	}
	if encErr == nil && encoded != length {
		d.setMon("limit:wire-length-mismatch", fmt.Sprintf("encode produced %d bytes, announced %d", encoded, length))
	}
	var it []string
	for _, b := range bs {
		it = append(it, fmt.Sprintf("(%d, %d, %d, %d)", b[0], b[1], b[2], b[3]))
	}
	d.ops = append(d.ops, opRec{Op: "build", Obs: map[string]interface{}{"batches": bs, "wire": length, "encoded": encErr == nil},
		term: fmt.Sprintf("OBuild %s %d %s", cf.List(it), length, cf.Bool(encErr == nil))})
}

func runSetCase(r *rand.Rand, c cfgSpec, nmsgs, ntopics, nparts int, wide bool) ([]opRec, *cf.Monitor) {
	sarama.MaxRequestSize = c.MaxRequestSize
	defer func() { sarama.MaxRequestSize = 100 * 1024 * 1024 }()
	d := &setDriver{c: c, set: sarama.VerifC16NewSet(c.config()), keys: map[[2]int64]bool{}}
	for i := 0; i < nmsgs; i++ {
		topic, part := r.Intn(ntopics), int32(r.Intn(nparts))
		if wide {
			topic = i % ntopics
		}
		bb, _ := d.set.Counters()
		pb, _, have := d.set.PartitionBytes(topicName(topic), part)
		var target int
		switch x := r.Intn(10); {
		case wide:
			target = overhead(c) + 4 + r.Intn(6)
		case x < 3 && have: // straddle the partition batch limit
			target = c.MaxMessageBytes - pb + r.Intn(3) - 1
		case x < 5: // straddle the request size limit
			target = int(c.MaxRequestSize) - 10240 - bb + r.Intn(3) - 1
			if target > c.MaxMessageBytes+2 {
				target = c.MaxMessageBytes + r.Intn(3) - 1 // straddle the dispatcher's limit
			}
		case x < 6:
			target = c.MaxMessageBytes + r.Intn(3) - 1
		default:
			target = overhead(c) + 4 + r.Intn(c.MaxMessageBytes/3+1)
		}
		m := msgOfSize(r, c, int64(i+1), topic, part, target)
		if !isBatch(c.Version) && r.Intn(12) == 0 && !wide {
			m.HasHeaders = true
			m.Headers = [][2]int{{3, 4}}
		}
		if wide {
			m.Headers, m.HasHeaders = nil, false
		}
		if r.Intn(25) == 0 && m.Key != nil {
			m.EncFail = true
		}
		if r.Intn(4) == 0 {
			d.size(m, 1+r.Intn(2))
		}
		code := d.dispatch(m)
		d.ops = append(d.ops, opRec{Op: "dispatch", Msg: &m, Obs: code, term: fmt.Sprintf("ODispatch %s %d", m.coq(), code)})
		if code != 0 && r.Intn(4) != 0 {
			continue // rejected by the dispatcher: never reaches the broker worker
		}
		// the broker worker's protocol: wait for space (hand-off = roll over, or a response dropping partitions), then add
		for tries := 0; d.would(m); tries++ {
			if tries < 2 && len(d.keys) > 0 && r.Intn(3) == 0 {
				for k := range d.keys {
					d.drop(k)
					break
				}
				continue
			}
			d.build()
			d.roll()
			break
		}
		d.add(m)
		rd := d.ready()
		if wide && i == 15 {
			d.build() // a request that still fits
		}
		if !wide && ((rd && r.Intn(3) == 0) || r.Intn(15) == 0) {
			d.build()
			d.roll()
			d.ready()
		}
	}
	d.build()
	return d.ops, d.mon
}

// ---------------------------------------------------------------- cluster pieces
type reporter struct {
	mu   sync.Mutex
	msgs []string
}

func (r *reporter) Error(a ...interface{}) {
	r.mu.Lock()
	r.msgs = append(r.msgs, fmt.Sprint(a...))
	r.mu.Unlock()
}
func (r *reporter) Errorf(f string, a ...interface{}) {
	r.mu.Lock()
	r.msgs = append(r.msgs, fmt.Sprintf(f, a...))
	r.mu.Unlock()
}
func (r *reporter) Fatal(a ...interface{})            { panic(fmt.Sprint(a...)) }
func (r *reporter) Fatalf(f string, a ...interface{}) { panic(fmt.Sprintf(f, a...)) }

func produceVersion(v [4]int64) int16 {
	switch {
	case isBatch(v):
		return 3
	case v[1] >= 10:
		return 2
	}
	return 0
}

func newBroker(rep *reporter, c cfgSpec, ntopics, nparts int, latency time.Duration) *sarama.MockBroker {
	b := sarama.NewMockBroker(rep, 1)
	md := sarama.NewMockMetadataResponse(rep).SetBroker(b.Addr(), b.BrokerID())
	for t := 0; t < ntopics; t++ {
		for p := 0; p < nparts; p++ {
			md.SetLeader(topicName(t), int32(p), b.BrokerID())
		}
	}
	b.SetHandlerByMap(map[string]sarama.MockResponse{
		"MetadataRequest": md,
		"ProduceRequest":  sarama.NewMockProduceResponse(rep).SetVersion(produceVersion(c.Version)),
	})
	b.SetLatency(latency)
	return b
}

// newProducer opens the broker connection before the producer starts: Broker.Open marks the broker as opened before it
// takes the lock, so a second goroutine can find `conn == nil` (ErrNotConnected) if it sends in that window.
func newProducer(b *sarama.MockBroker, conf *sarama.Config, ntopics, nparts int) (sarama.AsyncProducer, sarama.Client, error) {
	client, err := sarama.NewClient([]string{b.Addr()}, conf)
	if err != nil {
		return nil, nil, err
	}
	for t := 0; t < ntopics; t++ {
		for p := 0; p < nparts; p++ {
			if br, err := client.Leader(topicName(t), int32(p)); err == nil {
				_, _ = br.Connected()
			}
		}
	}
	prod, err := sarama.NewAsyncProducerFromClient(client)
	if err != nil {
		client.Close()
		return nil, nil, err
	}
	return prod, client, nil
}

var stuckSeen bool
var tracerG *tracer

type reqObs struct {
	Batches [][]int64 `json:"batches"` // topic, partition, ids...
	Wire    int       `json:"wire"`
}

func topicIndex(name string) int64 {
	for i, n := range topicNames {
		if n == name {
			return int64(i)
		}
	}
	return -1
}

// ---------------------------------------------------------------- (b) requests measured at the broker
func runBroker(r *rand.Rand, c cfgSpec, icpts []icptSpec, msgs []msgSpec, ntopics, nparts int, latency time.Duration, pauseEvery int) (fate [][2]int64, reqs []reqObs, mon *cf.Monitor, err error) {
	sarama.MaxRequestSize = c.MaxRequestSize
	defer func() { sarama.MaxRequestSize = 100 * 1024 * 1024 }()
	setMon := func(sig, what string) {
		if mon == nil {
			mon = &cf.Monitor{Signature: sig, What: what}
		}
	}
	rep := &reporter{}
	b := newBroker(rep, c, ntopics, nparts, latency)
	defer b.Close()
	conf := c.config()
	for _, i := range icpts {
		conf.Producer.Interceptors = append(conf.Producer.Interceptors, sizeIcpt{i})
	}
	prod, client, err := newProducer(b, conf, ntopics, nparts)
	if err != nil {
		return nil, nil, nil, err
	}
	defer client.Close()
	final := make([]msgSpec, len(msgs))
	for i, m := range msgs {
		final[i] = applyIcpts(icpts, m)
	}
	tracerG.register(prod, c, final, "broker")
	wireKV := map[int64]int{} // key+value bytes of the message object the producer returned (what was / would be encoded)
	sizeOf := func(m *sarama.ProducerMessage) int {
		n := 0
		if m.Key != nil {
			n += m.Key.Length()
		}
		if m.Value != nil {
			n += m.Value.Length()
		}
		return n
	}
	codes := map[int64]int64{}
	var wg sync.WaitGroup
	wg.Add(2)
	var mu sync.Mutex
	go func() {
		defer wg.Done()
		for m := range prod.Successes() {
			mu.Lock()
			codes[m.Metadata.(int64)] = 0
			wireKV[m.Metadata.(int64)] = sizeOf(m)
			mu.Unlock()
		}
	}()
	go func() {
		defer wg.Done()
		for e := range prod.Errors() {
			code := int64(9) // failed downstream of the dispatcher (transport etc.): not this property's business
			var ce sarama.ConfigurationError
			switch {
			case errors.Is(e.Err, sarama.ErrMessageSizeTooLarge):
				code = 2
			case errors.As(e.Err, &ce) && strings.Contains(e.Err.Error(), "headers"):
				code = 1
			}
			mu.Lock()
			codes[e.Msg.Metadata.(int64)] = code
			mu.Unlock()
		}
	}()
	for i, m := range msgs {
		prod.Input() <- m.build()
		if pauseEvery > 0 && (i+1)%pauseEvery == 0 {
			time.Sleep(time.Duration(1+r.Intn(4)) * time.Millisecond)
		}
	}
	// every configuration here has a timer or no trigger at all: each message must get its outcome without further input
	patience := 25 * time.Second
	if stuckSeen {
		patience = 2 * time.Second // already reported once in this run: do not spend 25 s on every further case
	}
	waitUntil := time.Now().Add(patience)
	for {
		mu.Lock()
		n := len(codes)
		mu.Unlock()
		if n >= len(msgs) || time.Now().After(waitUntil) {
			break
		}
		time.Sleep(2 * time.Millisecond)
	}
	mu.Lock()
	missing := len(msgs) - len(codes)
	mu.Unlock()
	if missing > 0 {
		stuckSeen = true
		// AsyncClose would wait for the stuck messages for ever: the producer is abandoned
		setMon("flush:stuck-in-buffer", fmt.Sprintf("%d message(s) got no outcome within 25s after the last input although a flush timer is configured or no trigger is set", missing))
	} else {
		done := make(chan struct{})
		go func() { prod.AsyncClose(); wg.Wait(); close(done) }()
		select {
		case <-done:
		case <-time.After(60 * time.Second):
			return nil, nil, nil, errors.New("producer did not shut down within 60s")
		}
	}
	mu.Lock()
	defer mu.Unlock()
	byID := map[int64]msgSpec{}
	for _, m := range msgs {
		byID[m.ID] = m
		code, ok := codes[m.ID]
		if !ok {
			code = 4
		}
		fate = append(fate, [2]int64{m.ID, code})
		// monitor, judged on the message as it goes to the wire (after the interceptors): oversize messages are
		// rejected and never sent; messages that are clearly within the limit are not rejected as too large
		if code == 0 && wireKV[m.ID] > c.MaxMessageBytes {
			setMon("limit:oversize-sent", fmt.Sprintf("message %d was delivered with %d key+value bytes > MaxMessageBytes=%d", m.ID, wireKV[m.ID], c.MaxMessageBytes))
		}
		fm := applyIcpts(icpts, m)
		if code == 0 && fm.kv() > c.MaxMessageBytes {
			setMon("limit:oversize-sent", fmt.Sprintf("message %d has %d key+value bytes after the interceptors > MaxMessageBytes=%d but was delivered", m.ID, fm.kv(), c.MaxMessageBytes))
		}
		if code == 2 && fm.kv()+fm.hdr()+100 <= c.MaxMessageBytes {
			setMon("limit:oversize-rejected-wrongly", fmt.Sprintf("message %d has %d key+value bytes after the interceptors (MaxMessageBytes=%d) but was rejected as too large", m.ID, fm.kv(), c.MaxMessageBytes))
		}
	}
	for _, rr := range b.History() {
		pr, ok := rr.Request.(*sarama.ProduceRequest)
		if !ok {
			continue
		}
		var ro reqObs
		total := 0
		bs := sarama.VerifC16Batches(pr)
		sort.Slice(bs, func(i, j int) bool {
			if bs[i].Topic != bs[j].Topic {
				return bs[i].Topic < bs[j].Topic
			}
			return bs[i].Partition < bs[j].Partition
		})
		for _, bt := range bs {
			row := []int64{topicIndex(bt.Topic), int64(bt.Partition)}
			for _, v := range bt.Values {
				id := int64(-1)
				if len(v) >= 4 {
					id = int64(binary.BigEndian.Uint32(v))
				}
				row = append(row, id)
				if m, ok := byID[id]; ok && codes[id] != 0 {
					setMon("limit:rejected-message-sent", fmt.Sprintf("message %d (outcome code %d) reached the broker", m.ID, codes[id]))
				}
			}
			ro.Batches = append(ro.Batches, row)
			total += bt.Messages
			if bt.Messages >= 2 && bt.KVBytes >= c.MaxMessageBytes {
				setMon("limit:batch-bytes", fmt.Sprintf("batch %s/%d carries %d messages with %d key+value bytes >= MaxMessageBytes=%d", bt.Topic, bt.Partition, bt.Messages, bt.KVBytes, c.MaxMessageBytes))
			}
			if bt.Messages == 1 && bt.KVBytes > c.MaxMessageBytes {
				setMon("limit:oversize-sent", fmt.Sprintf("a message with %d key+value bytes > MaxMessageBytes=%d reached the broker (%s/%d)", bt.KVBytes, c.MaxMessageBytes, bt.Topic, bt.Partition))
			}
		}
		if c.MaxMessages > 0 && total > c.MaxMessages {
			setMon("limit:count", fmt.Sprintf("request carries %d messages > Flush.MaxMessages=%d", total, c.MaxMessages))
		}
		length, lenErr, _, _ := sarama.VerifC16WireLength(pr, conf.ClientID)
		if lenErr != nil {
			return nil, nil, nil, lenErr
		}
		ro.Wire = length
		if length > int(c.MaxRequestSize) {
			setMon("limit:wire", fmt.Sprintf("request of %d bytes > MaxRequestSize=%d on the wire", length, c.MaxRequestSize))
		}
		reqs = append(reqs, ro)
	}
	return fate, reqs, mon, nil
}

func coqReqs(reqs []reqObs) string {
	var it []string
	for _, q := range reqs {
		var bs []string
		for _, row := range q.Batches {
			bs = append(bs, fmt.Sprintf("(%d, %d, %s)", row[0], row[1], cf.ZList(row[2:])))
		}
		it = append(it, fmt.Sprintf("{| br_batches := %s; br_wire := %d |}", cf.List(bs), q.Wire))
	}
	return cf.List(it)
}
func coqMsgs(ms []msgSpec) string {
	var it []string
	for _, m := range ms {
		it = append(it, m.coq())
	}
	return cf.List(it)
}

// ---------------------------------------------------------------- (c) flushed without further input?
type flushCase struct {
	C      cfgSpec     `json:"cfg"`
	Rounds [][]msgSpec `json:"rounds"`
	Expect bool        `json:"expect_flush"` // from the property statement: decides how long the harness waits per round
	Class  string      `json:"class"`
	// slow broker: response latency, and pauses (PauseMs after the messages with these 0-based indices of round 0)
	LatencyMs  int   `json:"latency_ms,omitempty"`
	PauseMs    int   `json:"pause_ms,omitempty"`
	PauseAfter []int `json:"pause_after,omitempty"`
}

func genFlush(r *rand.Rand, id int) flushCase {
	c := cfgSpec{Version: versions[r.Intn(len(versions))], MaxMessageBytes: 100000, MaxRequestSize: 100 * 1024 * 1024}
	fc := flushCase{}
	next := 0
	small := func(sz int) msgSpec {
		next++
		return msgSpec{ID: int64(next), Topic: 0, Part: int32(0), Key: ip(r.Intn(5)), Val: ip(sz)}
	}
	round := func(k int) []msgSpec {
		var ms []msgSpec
		for i := 0; i < k; i++ {
			ms = append(ms, small(10+r.Intn(50)))
		}
		return ms
	}
	switch id % 8 {
	case 7: // timer only + count limit + a broker slower than the timer: a buffer whose timer has already fired is rolled
		// over inside waitForSpace (the bridge was busy); the message that waited must still get its own timer
		fc.Class, fc.Expect = "frequency-slow-broker", true
		c.FlushFreqMs = 20
		c.MaxMessages = 1 + r.Intn(3)
		fc.LatencyMs, fc.PauseMs = 110, 36
		fc.Rounds = append(fc.Rounds, round(1+c.MaxMessages+1))
		fc.PauseAfter = []int{0, c.MaxMessages}
		if r.Intn(2) == 0 {
			fc.Rounds = append(fc.Rounds, round(1))
		}
	case 0: // nothing configured: immediately
		fc.Class, fc.Expect = "no-trigger", true
		for i, k := 0, 1+r.Intn(3); i < k; i++ {
			fc.Rounds = append(fc.Rounds, round(1+r.Intn(3)))
		}
	case 1: // frequency only, or frequency with triggers that are not reached: by timer, round after round
		fc.Class, fc.Expect = "frequency", true
		c.FlushFreqMs = []int{10, 40, 120}[r.Intn(3)]
		if r.Intn(2) == 0 {
			c.FlushMessages = 50
		}
		if r.Intn(2) == 0 {
			c.FlushBytes = 50000
		}
		for i, k := 0, 2+r.Intn(2); i < k; i++ {
			fc.Rounds = append(fc.Rounds, round(1+r.Intn(3)))
		}
	case 2: // message trigger reached exactly by the last message of each round
		fc.Class, fc.Expect = "messages-reached", true
		c.FlushMessages = 1 + r.Intn(4)
		if r.Intn(2) == 0 {
			c.MaxMessages = c.FlushMessages + r.Intn(3)
		}
		for i, k := 0, 1+r.Intn(2); i < k; i++ {
			fc.Rounds = append(fc.Rounds, round(c.FlushMessages))
		}
	case 3: // message trigger not reached, no timer: stays buffered
		fc.Class, fc.Expect = "messages-not-reached", false
		c.FlushMessages = 2 + r.Intn(4)
		fc.Rounds = append(fc.Rounds, round(1+r.Intn(c.FlushMessages-1)))
	case 4: // byte trigger crossed by the last message only
		fc.Class, fc.Expect = "bytes-reached", true
		c.FlushBytes = 600 + r.Intn(600)
		ms := round(r.Intn(3))
		for i := range ms {
			ms[i].Val = ip(20 + r.Intn(40))
		}
		fc.Rounds = append(fc.Rounds, append(ms, small(c.FlushBytes+10)))
	case 5: // byte trigger clearly not reached
		fc.Class, fc.Expect = "bytes-not-reached", false
		c.FlushBytes = 2000 + r.Intn(1000)
		fc.Rounds = append(fc.Rounds, round(1+r.Intn(3)))
	default: // timer only, with a count limit that forces roll-overs while waiting for space; then a lone message
		fc.Class, fc.Expect = "frequency-after-forced-rollover", true
		c.FlushFreqMs = []int{30, 60}[r.Intn(2)]
		c.MaxMessages = 1 + r.Intn(3)
		fc.Rounds = append(fc.Rounds, round(c.MaxMessages+1+r.Intn(2*c.MaxMessages+1)))
		fc.Rounds = append(fc.Rounds, round(1))
		if r.Intn(2) == 0 {
			fc.Rounds = append(fc.Rounds, round(1+r.Intn(c.MaxMessages+2)))
		}
	}
	fc.C = c
	return fc
}

// per attempted round: were all messages sent so far acknowledged without any further input?
func runFlush(fc flushCase) ([]bool, error) {
	rep := &reporter{}
	b := newBroker(rep, fc.C, 1, 1, time.Duration(fc.LatencyMs)*time.Millisecond)
	defer b.Close()
	prod, client, err := newProducer(b, fc.C.config(), 1, 1)
	if err != nil {
		return nil, err
	}
	_ = client // closed with the process: an abandoned producer still uses it
	var all []msgSpec
	for _, ms := range fc.Rounds {
		all = append(all, ms...)
	}
	tracerG.register(prod, fc.C, all, "flush:"+fc.Class)
	wait := 400 * time.Millisecond
	if fc.Expect {
		wait = 15 * time.Second
	}
	var res []bool
	for ri, ms := range fc.Rounds {
		for mi, m := range ms {
			prod.Input() <- m.build()
			if ri == 0 {
				for _, pa := range fc.PauseAfter {
					if pa == mi {
						time.Sleep(time.Duration(fc.PauseMs) * time.Millisecond)
					}
				}
			}
		}
		deadline := time.After(wait)
		got := 0
	loop:
		for got < len(ms) {
			select {
			case <-prod.Successes():
				got++
			case e := <-prod.Errors():
				return nil, fmt.Errorf("unexpected producer error %v", e.Err)
			case <-deadline:
				break loop
			}
		}
		res = append(res, got == len(ms))
		if got != len(ms) {
			// still buffered: AsyncClose would wait for these messages for ever (no trigger will fire); the producer is abandoned
			return res, nil
		}
	}
	done := make(chan struct{})
	go func() {
		prod.AsyncClose()
		for range prod.Successes() {
		}
		for range prod.Errors() {
		}
		close(done)
	}()
	select {
	case <-done:
	case <-time.After(60 * time.Second):
		return nil, errors.New("producer did not shut down within 60s")
	}
	return res, nil
}

// ---------------------------------------------------------------- (d) a partition is dropped from a waiting buffer
// Two brokers; broker 1 leads every partition and answers its first produce request only when the gate opens (slow
// broker), with NOT_LEADER_FOR_PARTITION for partition 0, whose leader has meanwhile moved to broker 2. While the
// first request is unanswered the next buffer fills: the bulk for partition 0 (reaching the byte / count trigger),
// a few small messages for other partitions. The response takes partition 0 out of the waiting buffer; what is left
// is below the triggers and must still go out by the flush timer, with no further input.
type dropCase struct {
	C      cfgSpec   `json:"cfg"`
	Mode   string    `json:"mode"` // bytes | messages
	First  []msgSpec `json:"first"`  // request A (partition 0)
	Bulk   []msgSpec `json:"bulk"`   // partition 0, waiting behind A
	Rest   []msgSpec `json:"rest"`   // other partitions, waiting behind A
	Extra  []msgSpec `json:"extra"`  // partition 0, arrives when the buffer is full (MaxMessages): the worker waits for space
	NParts int       `json:"nparts"`
}

func genDrop(r *rand.Rand, id int) dropCase {
	c := cfgSpec{Version: versions[r.Intn(len(versions))], MaxMessageBytes: 100000, MaxRequestSize: 100 * 1024 * 1024}
	c.FlushFreqMs = []int{40, 60, 90}[r.Intn(3)]
	dc := dropCase{NParts: 2 + r.Intn(2)}
	next := 0
	mk := func(part int32, sz int) msgSpec {
		next++
		return msgSpec{ID: int64(next), Topic: 0, Part: part, Key: ip(r.Intn(4)), Val: ip(sz)}
	}
	if id%3 != 2 {
		dc.Mode = "bytes"
		c.FlushBytes = 800 + r.Intn(600)
		dc.First = []msgSpec{mk(0, c.FlushBytes+200+r.Intn(500))}
		dc.Bulk = []msgSpec{mk(0, c.FlushBytes+200+r.Intn(500))}
	} else {
		dc.Mode = "messages"
		c.FlushMessages = 2 + r.Intn(2)
		for i := 0; i < c.FlushMessages; i++ {
			dc.First = append(dc.First, mk(0, 10+r.Intn(40)))
		}
		for i := 0; i < c.FlushMessages; i++ {
			dc.Bulk = append(dc.Bulk, mk(0, 10+r.Intn(40)))
		}
	}
	nrest := 1 + r.Intn(2)
	if id%4 == 3 {
		nrest = 0 // the response empties the waiting buffer altogether (handleResponse rolls it over)
	}
	if dc.Mode == "messages" && nrest >= c.FlushMessages {
		nrest = c.FlushMessages - 1
	}
	for i := 0; i < nrest; i++ {
		dc.Rest = append(dc.Rest, mk(int32(1+r.Intn(dc.NParts-1)), 5+r.Intn(30)))
	}
	if id%2 == 1 {
		// one more message for partition 0 finds the buffer full and waits for space; the response then both makes room
		// (partition 0 dropped) and makes partition 0 need a retry: the message must go back, not into the buffer
		c.MaxMessages = len(dc.Bulk) + len(dc.Rest)
		if c.MaxMessages < c.FlushMessages {
			c.MaxMessages = c.FlushMessages
		}
		if c.MaxMessages == len(dc.Bulk)+len(dc.Rest) && len(dc.First) <= c.MaxMessages {
			dc.Extra = []msgSpec{mk(0, 10+r.Intn(30))}
		}
	}
	dc.C = c
	return dc
}

func runDrop(dc dropCase) (bool, error) {
	rep := &reporter{}
	b1 := sarama.NewMockBroker(rep, 1)
	b2 := sarama.NewMockBroker(rep, 2)
	defer b1.Close()
	defer b2.Close()
	md := func(p0leader int32) *sarama.MockMetadataResponse {
		m := sarama.NewMockMetadataResponse(rep).SetBroker(b1.Addr(), 1).SetBroker(b2.Addr(), 2).SetLeader(topicName(0), 0, p0leader)
		for p := 1; p < dc.NParts; p++ {
			m.SetLeader(topicName(0), int32(p), 1)
		}
		return m
	}
	gated := sarama.VerifC16NewGatedProduce(rep, produceVersion(dc.C.Version), topicName(0), 0, sarama.ErrNotLeaderForPartition)
	defer gated.Open()
	md1 := sarama.VerifC16NewSwapMetadata(md(1))
	b1.SetHandlerByMap(map[string]sarama.MockResponse{"MetadataRequest": md1, "ProduceRequest": gated})
	b2.SetHandlerByMap(map[string]sarama.MockResponse{"MetadataRequest": md(2), "ProduceRequest": sarama.NewMockProduceResponse(rep).SetVersion(produceVersion(dc.C.Version))})
	conf := dc.C.config()
	conf.Producer.Retry.Max = 3
	conf.Producer.Retry.Backoff = 20 * time.Millisecond
	conf.Metadata.Retry.Max = 1
	conf.Metadata.Retry.Backoff = 10 * time.Millisecond
	prod, client, err := newProducer(b1, conf, 1, dc.NParts)
	if err != nil {
		return false, err
	}
	_ = client
	tracerG.register(prod, dc.C, append(append(append(append([]msgSpec{}, dc.First...), dc.Bulk...), dc.Rest...), dc.Extra...), "drop:"+dc.Mode)
	for _, m := range dc.First {
		prod.Input() <- m.build()
	}
	for t0 := time.Now(); gated.Seen() < 1; { // request A is out and unanswered
		if time.Since(t0) > 10*time.Second {
			return false, errors.New("the first produce request did not reach the gated broker within 10s")
		}
		time.Sleep(time.Millisecond)
	}
	for _, m := range dc.Bulk {
		prod.Input() <- m.build()
	}
	time.Sleep(20 * time.Millisecond) // partitions travel through different goroutines: the bulk must be buffered first
	for _, m := range dc.Rest {
		prod.Input() <- m.build()
	}
	time.Sleep(40 * time.Millisecond) // let them reach the broker worker's buffer
	for _, m := range dc.Extra {
		prod.Input() <- m.build()
	}
	if len(dc.Extra) > 0 {
		time.Sleep(20 * time.Millisecond)
	}
	md1.Set(md(2))
	gated.Open()
	total := len(dc.First) + len(dc.Bulk) + len(dc.Rest) + len(dc.Extra)
	got := 0
	deadline := time.After(15 * time.Second)
loop:
	for got < total {
		select {
		case <-prod.Successes():
			got++
		case <-prod.Errors(): // an error is an outcome too: the message is not stuck
			got++
		case <-deadline:
			break loop
		}
	}
	if got < total {
		return false, nil // abandoned: AsyncClose would wait for the stuck messages for ever
	}
	done := make(chan struct{})
	go func() {
		prod.AsyncClose()
		for range prod.Successes() {
		}
		for range prod.Errors() {
		}
		close(done)
	}()
	select {
	case <-done:
	case <-time.After(60 * time.Second):
		return false, errors.New("producer did not shut down within 60s")
	}
	return true, nil
}

func coqEvMsgs(ms []msgSpec) []string {
	var it []string
	for _, m := range ms {
		it = append(it, fmt.Sprintf("EvMsg %s false", m.coq()))
	}
	return it
}

// ---------------------------------------------------------------- main
func main() {
	out := flag.String("out", ".", "output directory")
	seed := flag.Int64("seed", 1, "seed")
	n := flag.Int("n", 200, "number of produceSet cases (broker cases: n/5, flush cases: n/4)")
	flag.Parse()
	sarama.Logger = nopLogger{}
	if os.Getenv("C16_DEBUG") != "" {
		sarama.Logger = log.New(os.Stderr, "[sarama] ", log.Lmicroseconds)
	}
	r := rand.New(rand.NewSource(*seed))
	tracerG = newTracer()
	sarama.VerifSetObserver(tracerG.observe)
	topicNames = []string{"t0", "t1", "t2"}
	for i := 3; i < 70; i++ {
		topicNames = append(topicNames, fmt.Sprintf("wide-topic-%03d-%s", i, strings.Repeat("x", 225)))
	}
	imports := "From SV Require Import C16.Model C16.Corr."
	ws := &cf.Writer{Dir: *out, Prefix: "cases_set", Imports: imports, CaseType: "scase", MismatchFn: "mismatches_s", ShardSize: 60}
	wb := &cf.Writer{Dir: *out, Prefix: "cases_broker", Imports: imports, CaseType: "bcase", MismatchFn: "mismatches_b", ShardSize: 60}
	wf := &cf.Writer{Dir: *out, Prefix: "cases_flush", Imports: imports, CaseType: "fcase", MismatchFn: "mismatches_f", ShardSize: 200}

	// ---- (a)
	for i := 0; i < *n; i++ {
		c := genCfg(r, i%2 == 0)
		nm, nt, np, wide := 8+r.Intn(25), 1+r.Intn(2), 1+r.Intn(3), false
		if i%10 == 9 { // many partitions with long topic names: the wire size passes MaxRequestSize while the estimate does not
			c.MaxRequestSize = int32(10240 + 2600 + r.Intn(100))
			if isBatch(c.Version) {
				c.MaxRequestSize = int32(10240 + 6500 + r.Intn(100))
			}
			c.MaxMessages, c.FlushMessages, c.FlushBytes = 0, 0, 0
			nm, nt, np, wide = 70+r.Intn(30), 70, 1, true
		}
		ops, mon := runSetCase(r, c, nm, nt, np, wide)
		var it []string
		for _, o := range ops {
			it = append(it, o.term)
		}
		term := fmt.Sprintf("{| sc_cfg := %s; sc_ops := %s |}", c.coq(), cf.List(it))
		ws.Add(term, cf.Sidecar{Case: map[string]interface{}{"cfg": c, "ops": ops}, Kind: "set", Nontrivial: len(ops) > 10, Monitor: mon})
	}

	// ---- (b)
	for i := 0; i < *n/5; i++ {
		c := genCfg(r, i%3 == 0)
		if (c.FlushMessages > 0 || c.FlushBytes > 0) && c.FlushFreqMs == 0 {
			// without a timer the tail of the run would stay buffered for ever (and AsyncClose would wait for it)
			c.FlushFreqMs = 5
		}
		nt, np := 1+r.Intn(2), 1+r.Intn(3)
		icpts := genIcpts(r, c)
		delta, absolute := icptDelta(icpts)
		var msgs []msgSpec
		for j, k := 0, 15+r.Intn(40); j < k; j++ {
			var target int
			switch x := r.Intn(10); {
			case x < 3 && absolute: // any size, also far too large: the interceptor replaces the value
				target = c.MaxMessageBytes + 50 + r.Intn(300)
			case x < 2 && delta > 0: // straddles the limit after the interceptors
				target = c.MaxMessageBytes - delta + r.Intn(3) - 1
			case x < 4 && delta > 0: // just legal before the interceptors, too large after them
				target = c.MaxMessageBytes - r.Intn(3)
			case x < 1:
				target = c.MaxMessageBytes + r.Intn(3) - 1
			case x < 3:
				target = c.MaxMessageBytes/2 + r.Intn(5) - 2
			case x < 4:
				target = c.MaxMessageBytes/3 + r.Intn(5) - 2
			default:
				target = overhead(c) + 4 + r.Intn(c.MaxMessageBytes/4+1)
			}
			m := msgOfSize(r, c, int64(j+1), r.Intn(nt), int32(r.Intn(np)), target)
			if !isBatch(c.Version) && r.Intn(15) == 0 {
				m.HasHeaders = true
				m.Headers = [][2]int{{3, 4}}
			}
			msgs = append(msgs, m)
		}
		latency := time.Duration([]int{0, 1, 3, 8}[r.Intn(4)]) * time.Millisecond
		if os.Getenv("C16_DEBUG") != "" {
			fmt.Fprintf(os.Stderr, "=== broker case %d cfg %+v nmsgs %d\n", i, c, len(msgs))
		}
		fate, reqs, mon, err := runBroker(r, c, icpts, msgs, nt, np, latency, []int{0, 0, 3, 7}[r.Intn(4)])
		if err != nil {
			fmt.Fprintln(os.Stderr, "broker run failed:", err)
			os.Exit(3)
		}
		var fs []string
		for _, f := range fate {
			fs = append(fs, fmt.Sprintf("(%d, %d)", f[0], f[1]))
		}
		var is []string
		for _, x := range icpts {
			is = append(is, x.coq())
		}
		term := fmt.Sprintf("{| bc_cfg := %s; bc_icpts := %s; bc_msgs := %s; bc_fate := %s; bc_reqs := %s |}", c.coq(), cf.List(is), coqMsgs(msgs), cf.List(fs), coqReqs(reqs))
		multi := false
		for _, q := range reqs {
			for _, row := range q.Batches {
				if len(row) > 3 {
					multi = true
				}
			}
		}
		wb.Add(term, cf.Sidecar{Case: map[string]interface{}{"cfg": c, "interceptors": icpts, "msgs": msgs, "latency_ms": latency / time.Millisecond, "fate": fate, "requests": reqs}, Kind: "broker", Nontrivial: multi, Monitor: mon})
	}

	// ---- (c) in parallel (no global is touched)
	nf := *n / 4
	fcs := make([]flushCase, nf)
	for i := range fcs {
		fcs[i] = genFlush(r, i)
	}
	res := make([][]bool, nf)
	errs := make([]error, nf)
	sem := make(chan struct{}, 12)
	var wg sync.WaitGroup
	for i := range fcs {
		wg.Add(1)
		sem <- struct{}{}
		go func(i int) {
			defer wg.Done()
			res[i], errs[i] = runFlush(fcs[i])
			if errs[i] != nil { // a transport hiccup is not an observation: once more
				res[i], errs[i] = runFlush(fcs[i])
			}
			<-sem
		}(i)
	}
	wg.Wait()
	for i, fc := range fcs {
		if errs[i] != nil {
			fmt.Fprintln(os.Stderr, "flush run failed:", errs[i])
			os.Exit(3)
		}
		var mon *cf.Monitor
		last := res[i][len(res[i])-1]
		if fc.Expect && !last {
			mon = &cf.Monitor{Signature: "flush:not-sent:" + fc.Class, What: fmt.Sprintf("round %d: %d buffered message(s) were not sent within 15s although the trigger holds (%s), with no further input", len(res[i]), len(fc.Rounds[len(res[i])-1]), fc.Class)}
		}
		var rs, fl []string
		for _, ms := range fc.Rounds {
			rs = append(rs, coqMsgs(ms))
		}
		for _, x := range res[i] {
			fl = append(fl, cf.Bool(x))
		}
		term := fmt.Sprintf("{| fc_cfg := %s; fc_rounds := %s; fc_flushed := %s |}", fc.C.coq(), cf.List(rs), cf.List(fl))
		wf.Add(term, cf.Sidecar{Case: map[string]interface{}{"case": fc, "flushed": res[i]}, Kind: "flush:" + fc.Class, Nontrivial: true, Monitor: mon})
	}
	// ---- (d) in parallel
	nd := *n / 25
	dcs := make([]dropCase, nd)
	for i := range dcs {
		dcs[i] = genDrop(r, i)
	}
	dres := make([]bool, nd)
	derrs := make([]error, nd)
	for i := range dcs {
		wg.Add(1)
		sem <- struct{}{}
		go func(i int) {
			defer wg.Done()
			dres[i], derrs[i] = runDrop(dcs[i])
			if derrs[i] != nil || !dres[i] { // it counts only when it happens twice
				dres[i], derrs[i] = runDrop(dcs[i])
			}
			<-sem
		}(i)
	}
	wg.Wait()
	we := &cf.Writer{Dir: *out, Prefix: "cases_drop", Imports: imports, CaseType: "ecase", MismatchFn: "mismatches_e", ShardSize: 200}
	for i, dc := range dcs {
		if derrs[i] != nil {
			fmt.Fprintln(os.Stderr, "drop run failed:", derrs[i])
			os.Exit(3)
		}
		var mon *cf.Monitor
		if !dres[i] {
			mon = &cf.Monitor{Signature: "flush:stuck-in-buffer", What: fmt.Sprintf("after a response dropped partition 0 from the waiting buffer (%s trigger, Flush.Frequency %dms) the remaining message(s) got no outcome within 15s with no further input (twice)", dc.Mode, dc.C.FlushFreqMs)}
		}
		w1 := coqEvMsgs(dc.First)
		w1 = append(w1, "EvHandOff")
		w1 = append(w1, coqEvMsgs(dc.Bulk)...)
		w1 = append(w1, coqEvMsgs(dc.Rest)...)
		w1 = append(w1, coqEvMsgs(dc.Extra)...)
		w1 = append(w1, fmt.Sprintf("EvResponse [(0, 0)] %s", cf.Bool(len(dc.Extra) > 0)))
		w2 := append(append(coqEvMsgs(dc.First), coqEvMsgs(dc.Bulk)...), coqEvMsgs(dc.Extra)...)
		term := fmt.Sprintf("{| ec_cfg := %s; ec_workers := [%s; %s]; ec_flushed := %s |}", dc.C.coq(), cf.List(w1), cf.List(w2), cf.Bool(dres[i]))
		we.Add(term, cf.Sidecar{Case: map[string]interface{}{"case": dc, "flushed": dres[i]}, Kind: "drop:" + dc.Mode, Nontrivial: true, Monitor: mon})
	}
	sarama.VerifSetObserver(nil)
	wt := &cf.Writer{Dir: *out, Prefix: "cases_trace", Imports: imports, CaseType: "tcase", MismatchFn: "mismatches_t", ShardSize: 60}
	tracerG.write(wt)
	ws.Close()
	wb.Close()
	wf.Close()
	we.Close()
	wt.Close()
}

type nopLogger struct{}

func (nopLogger) Print(...interface{})          {}
func (nopLogger) Printf(string, ...interface{}) {}
func (nopLogger) Println(...interface{})        {}
