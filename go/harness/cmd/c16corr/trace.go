package main

// Local trace validation of the broker worker: an observer on the producer hook points logs, per worker goroutine,
// every loop event with the worker's state; the log is turned into a list of [titem]s that SV.C16.Corr.replay runs
// through the model's step function.

import (
	"bytes"
	"fmt"
	"runtime"
	"strconv"
	"strings"
	"sync"

	"github.com/Shopify/sarama"

	cf "verifharness/internal/coqfmt"
)

type trec struct {
	kind   string
	st     sarama.VerifC16BPState
	msgPtr uintptr
	meta   interface{}
	flags  int
	out    bool
	needsRetry bool // bp.needsRetry(msg) != nil at this point (records carrying both the worker and a message)
}

type traced struct {
	cfg  cfgSpec
	msgs map[int64]msgSpec
	what string
}

type tracer struct {
	mu    sync.Mutex
	byBP  map[uintptr][]trec
	order []uintptr
	gidBP map[int64]uintptr
	prods map[uintptr]*traced
	porder []uintptr
	keep   []interface{} // keeps producers and workers alive: their addresses are used as identities
}

func newTracer() *tracer {
	return &tracer{byBP: map[uintptr][]trec{}, gidBP: map[int64]uintptr{}, prods: map[uintptr]*traced{}}
}

func goid() int64 {
	var buf [64]byte
	n := runtime.Stack(buf[:], false)
	f := bytes.Fields(buf[:n]) // "goroutine 123 [running]:"
	if len(f) < 2 {
		return -1
	}
	id, _ := strconv.ParseInt(string(f[1]), 10, 64)
	return id
}

func (t *tracer) register(p sarama.AsyncProducer, c cfgSpec, msgs []msgSpec, what string) {
	m := map[int64]msgSpec{}
	for _, x := range msgs {
		m[x.ID] = x
	}
	ptr := sarama.VerifC16ProducerPtr(p)
	t.mu.Lock()
	t.prods[ptr] = &traced{cfg: c, msgs: m, what: what}
	t.keep = append(t.keep, p)
	t.porder = append(t.porder, ptr)
	t.mu.Unlock()
}

func (t *tracer) observe(kind string, args ...interface{}) {
	switch kind {
	case "bp.recv", "bp.add", "bp.timer", "bp.flush", "bp.waitForSpace", "bp.rollover", "bp.response", "bp.closed", "bp.shutdown", "bp.iter":
		var r trec
		r.kind = kind
		found := false
		var bpArg, msgArg interface{}
		for _, a := range args {
			if st, ok := sarama.VerifC16BPSnapshot(a); ok {
				r.st, found, bpArg = st, true, a
			} else if ptr, meta, flags, ok := sarama.VerifC16MsgInfo(a); ok {
				r.msgPtr, r.meta, r.flags = ptr, meta, flags
				msgArg = a
			} else if b, ok := a.(bool); ok && kind == "bp.iter" {
				r.out = b
			}
		}
		if !found {
			return
		}
		if msgArg != nil {
			r.needsRetry = sarama.VerifC16NeedsRetry(bpArg, msgArg)
		}
		g := goid()
		t.mu.Lock()
		if _, ok := t.byBP[r.st.BP]; !ok {
			t.order = append(t.order, r.st.BP)
			t.keep = append(t.keep, bpArg)
		}
		t.byBP[r.st.BP] = append(t.byBP[r.st.BP], r)
		t.gidBP[g] = r.st.BP
		t.mu.Unlock()
	case "retry.enqueue", "return.error":
		if len(args) == 0 {
			return
		}
		ptr, meta, flags, ok := sarama.VerifC16MsgInfo(args[0])
		if !ok {
			return
		}
		g := goid()
		t.mu.Lock()
		if bp, ok := t.gidBP[g]; ok { // reached on a broker worker's goroutine
			t.byBP[bp] = append(t.byBP[bp], trec{kind: kind, msgPtr: ptr, meta: meta, flags: flags})
		}
		t.mu.Unlock()
	}
}

func coqKeyOf(k string) (string, bool) {
	i := strings.LastIndex(k, "/")
	if i < 0 {
		return "", false
	}
	ti := topicIndex(k[:i])
	p, err := strconv.Atoi(k[i+1:])
	if ti < 0 || err != nil {
		return "", false
	}
	return fmt.Sprintf("(%d, %d)", ti, p), true
}

func isEventStart(k string) bool {
	switch k {
	case "bp.recv", "bp.timer", "bp.flush", "bp.response", "bp.iter", "bp.closed", "bp.shutdown":
		return true
	}
	return false
}

// buildTrace turns one worker's log into Coq [titem]s; a log that ends in the middle of an iteration is cut there.
func buildTrace(recs []trec, tr *traced) (items []string, events int) {
	obs := func(r trec) {
		items = append(items, fmt.Sprintf("TObs %d %d %s %s", r.st.Count, r.st.Bytes, cf.Bool(r.st.Armed), cf.Bool(r.st.Fired)))
	}
	model := func(r trec) string {
		if id, ok := r.meta.(int64); ok {
			if m, ok := tr.msgs[id]; ok {
				return m.coq()
			}
		}
		return (msgSpec{ID: 0, Val: ip(0)}).coq() // internal marker (fin): never buffered
	}
	keyOfMsg := func(r trec) string {
		if id, ok := r.meta.(int64); ok {
			if m, ok := tr.msgs[id]; ok {
				return topicName(m.Topic) + "/" + strconv.Itoa(int(m.Part))
			}
		}
		return ""
	}
	// the response handled at recs[i] (kind bp.response): returns the dropped keys, whether the pending message was
	// sent to retry afterwards, the index of the record that ends the handling, and ok=false when the log ends first
	response := func(i int, pending *trec) (drops string, rp bool, end int, ok bool) {
		before := recs[i].st
		j := i + 1
		for ; j < len(recs); j++ {
			q := recs[j]
			if pending != nil && (q.kind == "retry.enqueue" || q.kind == "return.error") && q.msgPtr == pending.msgPtr {
				rp = true
				continue
			}
			if isEventStart(q.kind) || (q.kind == "bp.add" && pending != nil && q.msgPtr == pending.msgPtr) {
				break
			}
		}
		if j >= len(recs) {
			return "", false, j, false
		}
		after := map[string]int{}
		for x, k := range recs[j].st.Keys {
			after[k] = recs[j].st.Ns[x]
		}
		if recs[j].kind == "bp.add" && pending != nil { // the snapshot already contains the pending message
			if k := keyOfMsg(*pending); k != "" {
				after[k]--
			}
			if recs[j].needsRetry { // the worker had to send it back (needsRetry is checked first), whatever it did
				rp = true
			}
		}
		var ds []string
		for _, k := range before.Keys {
			if after[k] <= 0 {
				if ck, ok := coqKeyOf(k); ok {
					ds = append(ds, ck)
				}
			}
		}
		return cf.List(ds), rp, j, true
	}
	i := 0
	for i < len(recs) {
		r := recs[i]
		switch r.kind {
		case "bp.recv":
			if i+1 >= len(recs) {
				return
			}
			obs(r)
			items = append(items, "TPending false")
			if r.flags&1 != 0 { // syn: bookkeeping only
				i++
				continue
			}
			n := recs[i+1]
			// the oracle input of the model step comes from the worker's state, not from what it then did:
			// needsRetry(msg) != nil, or an internal chaser (never buffered)
			retry := r.needsRetry || r.flags&2 != 0
			switch {
			case (n.kind == "retry.enqueue" || n.kind == "return.error") && n.msgPtr == r.msgPtr:
				items = append(items, fmt.Sprintf("TEv (EvMsg %s %s)", model(r), cf.Bool(retry)))
				events++
				i += 2
			case n.kind == "bp.add" && n.msgPtr == r.msgPtr:
				items = append(items, fmt.Sprintf("TEv (EvMsg %s %s)", model(r), cf.Bool(retry)))
				events++
				i += 2
			case n.kind == "bp.waitForSpace" && n.msgPtr == r.msgPtr:
				mark := len(items)
				evmark := events
				items = append(items, fmt.Sprintf("TEv (EvMsg %s %s)", model(r), cf.Bool(retry)), "TPending true")
				events++
				i += 2
				done := false
				for !done {
					if i >= len(recs) {
						return items[:mark], evmark // cut: the wait did not end within the log
					}
					q := recs[i]
					switch q.kind {
					case "bp.response":
						drops, rp, end, ok := response(i, &r)
						if !ok {
							return items[:mark], evmark
						}
						obs(q)
						items = append(items, fmt.Sprintf("TEv (EvResponse %s %s)", drops, cf.Bool(rp)))
						events++
						if recs[end].kind == "bp.add" {
							done = true
							i = end + 1
						} else if rp {
							done = true
							i = end
						} else if recs[end].kind == "bp.add" {
							done = true
							i = end + 1
						} else {
							items = append(items, "TPending true")
							i = end
						}
					case "bp.flush":
						obs(q)
						items = append(items, "TEv EvHandOff")
						events++
						i++
						for i < len(recs) && !isEventStart(recs[i].kind) { // bp.rollover, bp.add / return.error of the message
							i++
						}
						done = true
					default:
						return items[:mark], evmark // not a shape this reader knows: cut rather than guess
					}
				}
			default:
				return
			}
		case "bp.timer":
			obs(r)
			items = append(items, "TEv EvTimer")
			events++
			i++
		case "bp.flush":
			obs(r)
			items = append(items, "TEv EvHandOff")
			events++
			i++
		case "bp.response":
			drops, _, end, ok := response(i, nil)
			if !ok {
				return
			}
			obs(r)
			items = append(items, fmt.Sprintf("TEv (EvResponse %s false)", drops))
			events++
			i = end
		case "bp.iter":
			obs(r)
			items = append(items, fmt.Sprintf("TOut %s", cf.Bool(r.out)))
			i++
		case "bp.closed", "bp.shutdown":
			obs(r)
			return
		default: // bp.rollover, bp.add, retry.enqueue, return.error inside an iteration
			i++
		}
	}
	return
}

func (t *tracer) write(w *cf.Writer) {
	t.mu.Lock()
	defer t.mu.Unlock()
	for _, bp := range t.order {
		recs := t.byBP[bp]
		if len(recs) == 0 {
			continue
		}
		tr := t.prods[recs[0].st.Producer]
		if tr == nil {
			continue
		}
		items, events := buildTrace(recs, tr)
		hasIter := false
		for _, r := range recs {
			if r.kind == "bp.iter" {
				hasIter = true
			}
		}
		term := fmt.Sprintf("{| tc_cfg := %s; tc_items := %s |}", tr.cfg.coq(), cf.List(items))
		w.Add(term, cf.Sidecar{Case: map[string]interface{}{"cfg": tr.cfg, "run": tr.what, "items": items, "output_point": hasIter},
			Kind: "trace", Nontrivial: events >= 3, Monitor: nil})
	}
}
