// c08corr: runs the real balance strategies (range, round-robin, sticky, and coreFn alone) on generated groups and
// writes what they returned as Coq cases for SV.C08.Corr, plus the direct validity oracle (monitor) per case.
package main

import (
	"encoding/json"
	"flag"
	"fmt"
	"math/rand"
	"os"
	"time"

	"github.com/Shopify/sarama"

	bg "verifharness/internal/balgen"
	cf "verifharness/internal/coqfmt"
)

const imports = "From SV Require Import C08.Common C08.Range C08.RoundRobin C08.Sticky C08.Valid C08.Corr.\nOpen Scope string_scope."

type caseJSON struct {
	Strategy string         `json:"strategy"`
	In       *bg.Input      `json:"in,omitempty"`
	Oracle   *bg.Oracle     `json:"oracle,omitempty"`
	Plan     []bg.PlanEntry `json:"plan,omitempty"`
	Err      bool           `json:"err,omitempty"`
	Panic    string         `json:"panic,omitempty"`
	Hang     bool           `json:"hang,omitempty"`
	Chain    string         `json:"chain,omitempty"`
	Step     int            `json:"step,omitempty"`
	Log      []string       `json:"log,omitempty"`
	M        int            `json:"m,omitempty"`
}

func monitor(strategy string, in *bg.Input, plan []bg.PlanEntry, extra string) *cf.Monitor {
	kind, what := bg.Validity(in, plan)
	if kind == "" {
		return nil
	}
	sig := strategy + ":invalid-plan:" + kind
	if extra != "" {
		sig += ":" + extra
	}
	return &cf.Monitor{Signature: sig, What: strategy + " plan is not a valid assignment: " + what}
}

// stalePrevOwner: some existing partition is claimed in user data under two or more generations and the claimant of the
// second-highest generation (the "previous owner" of prepopulateCurrentAssignments) does not subscribe to its topic.
func stalePrevOwner(in *bg.Input) bool {
	type claim struct {
		gen int
		id  string
	}
	claims := map[bg.TP][]claim{}
	for _, m := range in.Members {
		if m.UD == nil || m.UD.Err {
			continue
		}
		g := -1
		if m.UD.HasGen {
			g = m.UD.Gen
		}
		for _, p := range m.UD.Parts {
			claims[p] = append(claims[p], claim{g, m.ID})
		}
	}
	exists := map[bg.TP]bool{}
	for _, t := range in.Topics {
		for _, p := range t.Parts {
			exists[bg.TP{T: t.Name, P: p}] = true
		}
	}
	for p, cs := range claims {
		if !exists[p] {
			continue
		}
		gens := map[int]bool{}
		for _, c := range cs {
			gens[c.gen] = true
		}
		if len(gens) < 2 {
			continue
		}
		best, second := -1<<31, -1<<31
		for g := range gens {
			if g > best {
				best, second = g, best
			} else if g > second {
				second = g
			}
		}
		for _, c := range cs {
			if c.gen == second && !in.Subscribes(c.id, p.T) {
				return true
			}
		}
	}
	return false
}

// witness of the prev-owner defect (minimised from a forged chain); used to probe whether the tree is repaired
func witnessInput() bg.Input {
	enc := func(t map[string][]int32, g int32) []byte {
		b, err := sarama.BalanceStrategySticky.AssignmentData("", t, g)
		if err != nil {
			panic(err)
		}
		return b
	}
	in := bg.Input{
		Members: []bg.Member{
			{ID: "a", Topics: []string{"t"}, Data: enc(map[string][]int32{"t": {0, 1, 2}}, 2)},
			{ID: "b", Topics: []string{"t"}, Data: nil},
			{ID: "c", Topics: []string{"u"}, Data: enc(map[string][]int32{"t": {0}}, 1)},
		},
		Topics: []bg.Topic{{Name: "t", Parts: []int32{0, 1, 2}}, {Name: "u", Parts: []int32{0}}},
	}
	in.Normalize()
	return in
}

// witness of the performReassignments livelock (minimised from an honest chain): four single-topic members hold a
// balanced assignment, a member subscribed to both topics joins
func livelockInput() bg.Input {
	enc := func(t map[string][]int32, g int32) []byte {
		b, err := sarama.BalanceStrategySticky.AssignmentData("", t, g)
		if err != nil {
			panic(err)
		}
		return b
	}
	in := bg.Input{
		Members: []bg.Member{
			{ID: "a", Topics: []string{"t"}, Data: enc(map[string][]int32{"t": {5, 6, 1, 2, 0, 10}}, 3)},
			{ID: "b", Topics: []string{"s"}, Data: enc(map[string][]int32{"s": {3, 1, 2}}, 3)},
			{ID: "c", Topics: []string{"s"}, Data: enc(map[string][]int32{"s": {4, 0}}, 3)},
			{ID: "d", Topics: []string{"t", "s"}, Data: nil},
			{ID: "e", Topics: []string{"t"}, Data: enc(map[string][]int32{"t": {9, 3, 4, 7, 8}}, 3)},
		},
		Topics: []bg.Topic{{Name: "s", Parts: []int32{0, 1, 2, 3, 4}}, {Name: "t", Parts: []int32{0, 1, 2, 3, 4, 5, 6, 7, 8, 9, 10}}},
	}
	in.Normalize()
	return in
}

func probeFixed() bool {
	for i := 0; i < 20; i++ {
		run := bg.RunSticky(witnessInput())
		if k, _ := bg.Validity(&run.In, run.Plan); k != "" || run.Panic != "" {
			return false
		}
	}
	return true
}

func main() {
	out := flag.String("out", ".", "output directory")
	seed := flag.Int64("seed", 1, "seed")
	n := flag.Int("n", 300, "approximate number of cases per strategy")
	thorough := flag.Bool("thorough", false, "larger scopes")
	replay := flag.String("replay", "", "evidence/replay/C08-*.json: re-run exactly that case")
	search := flag.Int("search", 0, "search mode: run this many forged chains and print failing inputs")
	norev := flag.Bool("norevhook", false, "the sticky.revert call site is not available in the tree under test")
	flag.Parse()
	bg.RevHook = !*norev
	sarama.Logger = nopLogger{}

	if *search > 0 {
		doSearch(*seed, *search)
		return
	}
	if *replayIn != "" {
		doReplay(*replayIn)
		return
	}
	if *hunt > 0 {
		doHunt(*seed, *hunt)
		return
	}
	if *climb > 0 {
		doClimb(*seed, *climb)
		return
	}
	if *enumM > 0 {
		doEnum(*enumM, *enumN1, *enumN2, *enumShard, *enumShards)
		return
	}
	var only *caseJSON
	if *replay != "" {
		b, err := os.ReadFile(*replay)
		if err != nil {
			panic(err)
		}
		var rp struct {
			Case *caseJSON `json:"case"`
		}
		if err := json.Unmarshal(b, &rp); err != nil || rp.Case == nil {
			fmt.Println("replay file has no failing case (no-failing-input-found): running the whole check instead")
		} else {
			only = rp.Case
		}
	}
	fx := probeFixed()
	fmt.Printf("INFO tree-has-prev-owner-repair=%v\n", fx)

	r := rand.New(rand.NewSource(*seed))
	small := bg.SmallScope(3, 2, 4)
	if *thorough {
		small = bg.SmallScope(4, 2, 4)
	}

	// ---------------- coreFn boundaries: all n <= 300, m <= 64
	wb := &cf.Writer{Dir: *out, Prefix: "cases_bounds", Imports: imports, CaseType: "bcase", MismatchFn: "mismatches_bounds", ShardSize: 8}
	mLo, mHi := 1, 64
	if only != nil {
		mLo, mHi = 1, 0
		if only.Strategy == "coreFn" {
			mLo, mHi = only.M, only.M
		}
	}
	for m := mLo; m <= mHi; m++ {
		ids := make([]string, m)
		for i := range ids {
			ids[i] = fmt.Sprintf("m%02d", i)
		}
		rows := make([]string, 301)
		var mon *cf.Monitor
		for nparts := 0; nparts <= 300; nparts++ {
			plan := sarama.VerifRangeCore(ids, "t", bg.Seq(nparts))
			row, ok := boundaries(plan, ids, nparts)
			if !ok && mon == nil {
				mon = &cf.Monitor{Signature: "range:coreFn-slices-not-contiguous", What: fmt.Sprintf("coreFn n=%d m=%d: slices are not consecutive ranges covering 0..n-1", nparts, m)}
			}
			rows[nparts] = cf.ZList(row)
		}
		wb.Add(cf.App("Build_bcase", cf.Z(int64(m)), cf.List(rows)), cf.Sidecar{Case: caseJSON{Strategy: "coreFn", M: m}, Kind: "coreFn-table", Nontrivial: m > 1, Monitor: mon})
	}
	wb.Close()

	// ---------------- range and round robin
	wr := &cf.Writer{Dir: *out, Prefix: "cases_range", Imports: imports, CaseType: "rcase", MismatchFn: "mismatches_range", ShardSize: 60}
	wq := &cf.Writer{Dir: *out, Prefix: "cases_rr", Imports: imports, CaseType: "rrcase", MismatchFn: "mismatches_rr", ShardSize: 40}
	addRange := func(in bg.Input, kind string) {
		plan, err := sarama.BalanceStrategyRange.Plan(in.MemberMap(), in.TopicMap())
		if err != nil {
			panic(err)
		}
		cp := bg.Canon(plan)
		wr.Add(cf.App("Build_rcase", bg.MembersStr(in.Members), bg.TopicsStr(in.Topics), bg.PlanStr(cp)),
			cf.Sidecar{Case: caseJSON{Strategy: "range", In: &in, Plan: cp}, Kind: "range-" + kind, Nontrivial: in.Nontrivial(), Monitor: monitor("range", &in, cp, "")})
	}
	addRR := func(in bg.Input, kind string) {
		// the real loop does not terminate when a topic of the map has no subscriber: only such maps are run
		for _, t := range in.Topics {
			if !in.AnySubscriber(t.Name) {
				return
			}
		}
		plan, err := sarama.BalanceStrategyRoundRobin.Plan(in.MemberMap(), in.TopicMap())
		obs := "None"
		var cp []bg.PlanEntry
		var mon *cf.Monitor
		if err == nil {
			cp = bg.Canon(plan)
			obs = cf.Some(bg.PlanStr(cp))
			mon = monitor("roundrobin", &in, cp, "")
		}
		wq.Add(cf.App("Build_rrcase", bg.MembersStr(in.Members), bg.TopicsStr(in.Topics), obs),
			cf.Sidecar{Case: caseJSON{Strategy: "roundrobin", In: &in, Plan: cp, Err: err != nil}, Kind: "roundrobin-" + kind, Nontrivial: in.Nontrivial() && err == nil, Monitor: mon})
	}
	if only != nil && only.In != nil {
		switch only.Strategy {
		case "range":
			addRange(*only.In, "replay")
		case "roundrobin":
			addRR(*only.In, "replay")
		}
	}
	if only == nil {
		nsmall := *n * 2 / 3
		if *thorough {
			nsmall = len(small)
		}
		for _, i := range r.Perm(len(small)) {
			if nsmall == 0 {
				break
			}
			nsmall--
			addRange(small[i], "small")
			addRR(small[i], "small")
		}
		nlarge := *n / 3
		for i := 0; i < nlarge; i++ {
			nm, nt, np := 1+r.Intn(8), 1+r.Intn(4), r.Intn(30)
			if i%8 == 0 {
				nm, nt, np = 1+r.Intn(50), 1+r.Intn(20), r.Intn(200)
			}
			addRange(bg.Random(r, nm, nt, np, false), "random")
			addRR(bg.Random(r, nm, nt, np, true), "random")
		}
		// irregular subscriptions: a topic named twice, a topic the map lacks, lists as long as the topic map
		irr := bg.IrregularSmall()
		nirr := *n / 5
		if *thorough {
			nirr = len(irr)
		}
		for _, i := range r.Perm(len(irr)) {
			if nirr == 0 {
				break
			}
			nirr--
			addRange(irr[i], "irregular")
			addRR(irr[i], "irregular")
		}
		// degenerate round-robin inputs: the error answer
		addRR(bg.Input{}, "empty")
		addRR(bg.Input{Members: []bg.Member{{ID: "m0"}}}, "empty")
	}
	wr.Close()
	wq.Close()

	// ---------------- sticky
	hangs := 0
	ws := &cf.Writer{Dir: *out, Prefix: "cases_sticky", Imports: imports, CaseType: "scase", MismatchFn: "mismatches_sticky", ShardSize: 40}
	// one strategy value is reused for all Plan calls (as the BalanceStrategySticky singleton is by real groups): Plan must not
	// carry anything over from one call to the next (the model starts every Plan with empty movement records); every third case
	// runs on a fresh value instead. A value whose Plan call was abandoned (hang) is never used again.
	shared := sarama.VerifNewSticky()
	ncase := 0
	addSticky := func(in bg.Input, kind, chain string, step int, log []string) sarama.BalanceStrategyPlan {
		ncase++
		inst := shared
		if ncase%3 == 0 {
			inst = nil
		}
		run := bg.RunStickyOn(inst, in)
		if run.Hang {
			shared = sarama.VerifNewSticky()
		}
		var mon *cf.Monitor
		switch {
		case run.Hang:
			// c08_sticky_terminates_partial: a run that never reaches the reverse-pair redirection of
			// getTheActualPartitionToBeMoved (sticky.pick) returns; the known finding is the class with redirections,
			// a non-returning run outside it gets its own signature
			sig := "sticky:does-not-terminate"
			if run.NPicks == 0 {
				sig = "sticky:does-not-terminate:without-reverse-pair-redirection"
			}
			mon = &cf.Monitor{Signature: sig, What: fmt.Sprintf("stickyBalanceStrategy.Plan did not return within %v (%d reverse-pair redirections so far; performReassignments keeps repeating a pass that changes nothing)", bg.HangTimeout, run.NPicks)}
		case run.Panic != "":
			mon = &cf.Monitor{Signature: "sticky:panic", What: "stickyBalanceStrategy.Plan panicked: " + run.Panic}
		case !run.Err:
			extra := ""
			if stalePrevOwner(&run.In) {
				extra = "prev-owner-not-subscribed"
			}
			mon = monitor("sticky", &run.In, run.Plan, extra)
		}
		ws.Add(run.CoqCase(fx), cf.Sidecar{Case: caseJSON{Strategy: "sticky", In: &run.In, Oracle: &run.Oracle, Plan: run.Plan, Err: run.Err, Panic: run.Panic, Hang: run.Hang, Chain: chain, Step: step, Log: log},
			Kind: "sticky-" + kind, Nontrivial: in.Nontrivial() && !run.Err, Monitor: mon})
		if run.Hang {
			hangs++
		}
		return run.RawPlan
	}
	if only != nil && only.In != nil && only.Strategy == "sticky" {
		in := *only.In
		bg.EncodeUD(&in)
		addSticky(in, "replay", only.Chain, only.Step, only.Log)
	}
	if only == nil {
		// the witness first (corpus)
		addSticky(witnessInput(), "witness", "witness", 0, nil)
		nss := *n / 4
		if *thorough {
			nss = len(small)
		}
		for _, i := range r.Perm(len(small)) {
			if nss == 0 {
				break
			}
			nss--
			addSticky(small[i], "small", "", 0, nil)
		}
		for i := 0; i < *n/40+1; i++ {
			addSticky(bg.Random(r, 1+r.Intn(8), 1+r.Intn(4), r.Intn(30), r.Intn(2) == 0), "random", "", 0, nil)
		}
		// forged, skewed current assignments with arbitrary previous owners: performReassignments has real work to do; the ones
		// that go through the reverse-pair redirection of getTheActualPartitionToBeMoved are rare and are mined for
		nadv, npick := *n/8, *n/30+2
		for i := 0; i < nadv; i++ {
			addSticky(bg.Adversarial(r, 6, 3, 10), "adversarial", "", 0, nil)
		}
		for tries := 0; tries < 4000 && npick > 0 && hangs == 0; tries++ {
			in := bg.Adversarial(r, 5, 3, 14)
			probe := bg.RunSticky(in)
			if probe.Hang {
				hangs++
				break
			}
			if probe.NPicks > 0 {
				addSticky(in, "adversarial-redirect", "", 0, nil)
				npick--
			}
		}
		// irregular subscriptions (topic twice, topic the map lacks)
		irrS := bg.IrregularSmall()
		nis := *n / 10
		for _, i := range r.Perm(len(irrS)) {
			if nis == 0 {
				break
			}
			nis--
			addSticky(irrS[i], "irregular", "", 0, nil)
		}
		// a partition moved a->b in one rebalance is dropped from its topic, the next rebalance moves partitions of that topic b->a:
		// movement records surviving from the previous call would redirect to the dropped partition
		for c := 0; c < *n/40+2 && hangs == 0; c++ {
			np := 4 + r.Intn(6)
			mk := func(parts []int32, aAll bool) bg.Input {
				all := map[string][]int32{"t": parts}
				none := map[string][]int32{}
				da, _ := sarama.BalanceStrategySticky.AssignmentData("", all, 7)
				db, _ := sarama.BalanceStrategySticky.AssignmentData("", none, 7)
				if !aAll {
					da, db = db, da
				}
				in := bg.Input{Members: []bg.Member{{ID: "a", Topics: []string{"t"}, Data: da}, {ID: "b", Topics: []string{"t"}, Data: db}},
					Topics: []bg.Topic{{Name: "t", Parts: parts}}}
				in.Normalize()
				return in
			}
			save := shared
			ncase = 0 // both steps on the shared value
			p1 := addSticky(mk(bg.Seq(np), true), "reuse-reverse", fmt.Sprintf("reuse-%d", c), 0, nil)
			if p1 == nil {
				continue
			}
			// drop the partitions b received
			var rest []int32
			dropped := map[int32]bool{}
			for _, q := range p1["b"]["t"] {
				dropped[q] = true
			}
			for _, q := range bg.Seq(np) {
				if !dropped[q] {
					rest = append(rest, q)
				}
			}
			if len(rest) >= 2 && shared == save {
				ncase = 0
				addSticky(mk(rest, false), "reuse-reverse", fmt.Sprintf("reuse-%d", c), 1, nil)
			}
		}
		// a member widens its subscription to a topic nobody else consumes, in a state where everybody owns something (the
		// neighbourhood of the revert branch of balance(): reassignments with little to gain)
		for c := 0; c < *n/6 && hangs == 0; c++ {
			w := bg.WidenWorld(rand.New(rand.NewSource(r.Int63())))
			for s := 0; s < 3; s++ {
				if s > 0 {
					w.Widen()
				}
				plan := addSticky(w.Input(false), "chain-widen", fmt.Sprintf("widen-%d", c), s, append([]string(nil), w.Log...))
				if plan == nil {
					break
				}
				w.Feedback(plan)
			}
		}
		nchains := *n / 6
		for c := 0; c < nchains; c++ {
			kind := []string{"honest", "honest", "stale", "forged"}[c%4]
			nm, nt, mp := 1+r.Intn(5), 1+r.Intn(3), 6
			if c%16 == 15 {
				nm, nt, mp = 5+r.Intn(20), 2+r.Intn(8), 12
			}
			w := bg.NewWorld(rand.New(rand.NewSource(r.Int63())), kind, nm, nt, mp)
			steps := 2 + r.Intn(5)
			for s := 0; s < steps; s++ {
				if s > 0 {
					w.Mutate()
				}
				in := w.Input(r.Intn(4) == 0)
				plan := addSticky(in, "chain-"+kind, fmt.Sprintf("%s-%d", kind, c), s, append([]string(nil), w.Log...))
				if plan == nil {
					break
				}
				w.Feedback(plan)
			}
		}
		// the livelock witness last: its Plan call never returns and keeps one core busy until the process exits
		if hangs == 0 {
			save := bg.HangTimeout
			bg.HangTimeout = 2 * time.Second
			addSticky(livelockInput(), "witness-livelock", "witness-livelock", 0, nil)
			bg.HangTimeout = save
		}
	}
	ws.Close()
	fmt.Printf("INFO cases bounds=%d range=%d roundrobin=%d sticky=%d\n", wb.Total, wr.Total, wq.Total, ws.Total)
}

type nopLogger struct{}

func (nopLogger) Print(v ...interface{})                 {}
func (nopLogger) Printf(format string, v ...interface{}) {}
func (nopLogger) Println(v ...interface{})               {}

// boundaries reconstructs b_0..b_m from the slices coreFn handed out (slice i is partitions[b_i:b_i+1]).
func boundaries(plan sarama.BalanceStrategyPlan, ids []string, n int) ([]int64, bool) {
	m := len(ids)
	row := make([]int64, m+1)
	known := make([]bool, m+1)
	ok := true
	for i, id := range ids {
		s := plan[id]["t"]
		if len(s) == 0 {
			continue
		}
		for k := 1; k < len(s); k++ {
			if s[k] != s[k-1]+1 {
				ok = false
			}
		}
		lo, hi := int64(s[0]), int64(s[len(s)-1])+1
		if known[i] && row[i] != lo {
			ok = false
		}
		row[i], known[i] = lo, true
		row[i+1], known[i+1] = hi, true
	}
	// an empty slice i means b_i = b_i+1
	last := int64(-1)
	for i := 0; i <= m; i++ {
		if known[i] {
			last = row[i]
		} else if last >= 0 {
			row[i], known[i] = last, true
		}
	}
	next := int64(-1)
	for i := m; i >= 0; i-- {
		if known[i] {
			next = row[i]
		} else if next >= 0 {
			row[i], known[i] = next, true
		}
	}
	for i := 0; i < m; i++ {
		if row[i] > row[i+1] {
			ok = false
		}
	}
	if n > 0 && (row[0] != 0 || row[m] != int64(n)) {
		ok = false
	}
	return row, ok
}

var searchM = flag.Int("sm", 4, "search: max members")
var searchT = flag.Int("st", 3, "search: max topics")
var searchP = flag.Int("sp", 4, "search: max partitions per topic")

var huntK = flag.Int("huntk", 0, "hunt: use near-balanced states perturbed by up to this many claim moves")
var hunt = flag.Int("hunt", 0, "hunt mode: run this many forged small states looking for the revert branch of balance() (needs a tree with a sticky.revert report)")

// doHunt looks for inputs that take the revert branch of balance(); prints them (with the number of fixed members).
func doHunt(seed int64, n int) {
	r := rand.New(rand.NewSource(seed))
	bg.HangTimeout = 2 * time.Second
	rev, hangs := 0, 0
	nonInitN, nonInitPicks := 0, 0
	bestD, bestDP, perf := -1<<30, -1<<30, 0
	for i := 0; i < n; i++ {
		in := bg.Adversarial(r, *searchM, *searchT, *searchP)
		if *huntK > 0 {
			var ok bool
			in, ok = bg.NearBalanced(r, *searchM, *searchT, *searchP, 1+r.Intn(*huntK))
			if !ok {
				continue
			}
		}
		run := bg.RunSticky(in)
		if run.Hang {
			hangs++
			if hangs > 3 {
				break
			}
			continue
		}
		if run.Reverted {
			rev++
			k, what := bg.Validity(&run.In, run.Plan)
			b, _ := json.Marshal(run)
			fmt.Println("REVERT", k, what, string(b))
			if rev >= 5 {
				break
			}
		}
		// nobody starts empty: every member claims (highest generation) a partition that exists and that it subscribes to
		nonInit := true
		for _, m := range run.In.Members {
			okm := false
			if m.UD != nil && m.UD.HasGen && m.UD.Gen == 5 {
				for _, c := range m.UD.Parts {
					if run.In.Subscribes(m.ID, c.T) {
						for _, t := range run.In.Topics {
							if t.Name == c.T && int(c.P) < len(t.Parts) {
								okm = true
							}
						}
					}
				}
			}
			if !okm {
				nonInit = false
			}
		}
		if len(run.Score) == 5 && run.Score[2] == 0 && run.Score[3] == 1 {
			d := run.Score[0] - run.Score[1]
			perf++
			if d > bestD {
				bestD = d
				b, _ := json.Marshal(run.In)
				fmt.Println("BEST", d, "fixed", run.Score[4], "picks", run.NPicks, string(b))
			}
			if run.NPicks > 0 && d > bestDP {
				bestDP = d
			}
		}
		if nonInit {
			nonInitN++
			if run.NPicks > 0 {
				nonInitPicks++
				if nonInitPicks <= 2 {
					b, _ := json.Marshal(run.In)
					fmt.Println("NONINIT-REDIRECT", string(b))
				}
			}
		}
	}
	fmt.Println("hunt done", n, "reverts", rev, "hangs", hangs, "non-initializing", nonInitN, "of which with redirect", nonInitPicks, "not-initializing-and-performed", perf, "best score diff", bestD, "best with redirect", bestDP)
}

var climb = flag.Int("climb", 0, "hill-climbing search for the revert branch: this many restarts (needs a tree with sticky.score / sticky.revert reports)")

// fitness of an input for the revert hunt: (ok, current score - pre-balance score, redirections); ok = nobody starts empty
// (balance() not initializing) and something was reassigned
func fitness(in bg.Input) (bool, int, int, bool, bg.StickyRun) {
	run := bg.RunSticky(in)
	if run.Hang || len(run.Score) != 5 {
		return false, 0, 0, run.Hang, run
	}
	return run.Score[2] == 0 && run.Score[3] == 1, run.Score[0] - run.Score[1], run.NPicks, false, run
}

func mutate(r *rand.Rand, in bg.Input) bg.Input {
	out := bg.Input{Topics: in.Topics}
	for _, m := range in.Members {
		mm := bg.Member{ID: m.ID, Topics: append([]string(nil), m.Topics...)}
		if m.UD != nil {
			u := *m.UD
			u.Parts = append([]bg.TP(nil), m.UD.Parts...)
			mm.UD = &u
		}
		out.Members = append(out.Members, mm)
	}
	n := len(out.Members)
	switch r.Intn(4) {
	case 0, 1: // move one claim to another member
		a, b := r.Intn(n), r.Intn(n)
		if ua := out.Members[a].UD; ua != nil && len(ua.Parts) > 1 && a != b && out.Members[b].UD != nil {
			i := r.Intn(len(ua.Parts))
			out.Members[b].UD.Parts = append(out.Members[b].UD.Parts, ua.Parts[i])
			ua.Parts = append(ua.Parts[:i], ua.Parts[i+1:]...)
		}
	case 2: // drop a subscription
		a := r.Intn(n)
		if t := out.Members[a].Topics; len(t) > 1 {
			i := r.Intn(len(t))
			out.Members[a].Topics = append(t[:i], t[i+1:]...)
		}
	default: // add a subscription
		a := r.Intn(n)
		t := in.Topics[r.Intn(len(in.Topics))].Name
		if !in.Subscribes(out.Members[a].ID, t) {
			out.Members[a].Topics = append(out.Members[a].Topics, t)
		}
	}
	bg.EncodeUD(&out)
	return out
}

func doClimb(seed int64, restarts int) {
	r := rand.New(rand.NewSource(seed))
	bg.HangTimeout = 2 * time.Second
	best := -1 << 30
	hangs := 0
	for rs := 0; rs < restarts && hangs < 5; rs++ {
		// find a start: not initializing, performed, with a redirection
		var cur bg.Input
		curD := 0
		found := false
		for tries := 0; tries < 60000 && !found; tries++ {
			in, ok := bg.NearBalanced(r, *searchM, *searchT, *searchP, 1+r.Intn(4))
			if !ok {
				continue
			}
			good, d, picks, hang, run := fitness(in)
			if hang {
				hangs++
				continue
			}
			if good && picks > 0 {
				cur, curD, found = run.In, d, true
			}
		}
		if !found {
			continue
		}
		for step := 0; step < 3000; step++ {
			cand := mutate(r, cur)
			good, d, picks, hang, run := fitness(cand)
			if hang {
				hangs++
				continue
			}
			if run.Reverted {
				k, what := bg.Validity(&run.In, run.Plan)
				b, _ := json.Marshal(run)
				fmt.Println("REVERT", k, what, "fixed", run.Score[4], string(b))
				return
			}
			if good && picks > 0 && d >= curD {
				cur, curD = run.In, d
			}
		}
		if curD > best {
			best = curD
			b, _ := json.Marshal(cur)
			fmt.Println("BEST", best, string(b))
		}
	}
	fmt.Println("climb done restarts", restarts, "best score diff", best, "hangs", hangs)
}

var enumM = flag.Int("enum", 0, "enumeration mode: number of members (2 topics s,t; all subscriptions x all forged owners)")
var enumN1 = flag.Int("n1", 3, "enum: partitions of topic s")
var enumN2 = flag.Int("n2", 3, "enum: partitions of topic t")
var enumShard = flag.Int("shard", 0, "enum: shard index")
var enumShards = flag.Int("shards", 1, "enum: number of shards")

// doEnum runs the sticky strategy on every (subscription pattern, forged single-generation ownership) of a tiny universe in
// which nobody starts empty, looking for the revert branch of balance() (needs a tree with a sticky.revert report).
func doEnum(M, n1, n2, shard, shards int) {
	bg.HangTimeout = 2 * time.Second
	n := n1 + n2
	topicOf := func(i int) (string, int32) {
		if i < n1 {
			return "s", int32(i)
		}
		return "t", int32(i - n1)
	}
	pow := func(b, e int) int {
		r := 1
		for i := 0; i < e; i++ {
			r *= b
		}
		return r
	}
	nsub, nown := pow(3, M), pow(M, n)
	plans, rev, hangs, moved := 0, 0, 0, 0
	for sc := 0; sc < nsub; sc++ {
		subs := make([][]string, M)
		c := sc
		for i := 0; i < M; i++ {
			subs[i] = [][]string{{"s"}, {"t"}, {"s", "t"}}[c%3]
			c /= 3
		}
		for oc := shard; oc < nown; oc += shards {
			own := make([]int, n)
			c := oc
			cnt := make([]int, M)
			ok := true
			for i := 0; i < n; i++ {
				own[i] = c % M
				c /= M
				t, _ := topicOf(i)
				has := false
				for _, x := range subs[own[i]] {
					if x == t {
						has = true
					}
				}
				if has {
					cnt[own[i]]++
				}
			}
			for i := 0; i < M; i++ {
				if cnt[i] == 0 {
					ok = false
				}
			}
			if !ok {
				continue
			}
			in := bg.Input{Topics: []bg.Topic{{Name: "s", Parts: bg.Seq(n1)}, {Name: "t", Parts: bg.Seq(n2)}}}
			for i := 0; i < M; i++ {
				claim := map[string][]int32{}
				for k := 0; k < n; k++ {
					if own[k] == i {
						t, p := topicOf(k)
						claim[t] = append(claim[t], p)
					}
				}
				b, _ := sarama.BalanceStrategySticky.AssignmentData("", claim, 5)
				in.Members = append(in.Members, bg.Member{ID: fmt.Sprintf("m%d", i), Topics: subs[i], Data: b})
			}
			run := bg.RunSticky(in)
			plans++
			if run.Hang {
				hangs++
				if hangs <= 2 {
					b, _ := json.Marshal(run.In)
					fmt.Println("HANG", string(b))
				}
				if hangs > 20 {
					fmt.Println("too many hangs")
					return
				}
				continue
			}
			if run.NPicks > 0 {
				moved++
			}
			if run.Reverted {
				rev++
				k, what := bg.Validity(&run.In, run.Plan)
				b, _ := json.Marshal(run)
				fmt.Println("REVERT", k, what, string(b))
				if rev >= 3 {
					return
				}
			}
		}
	}
	fmt.Println("enum done members", M, "partitions", n1, n2, "plans", plans, "with-redirect", moved, "reverts", rev, "hangs", hangs)
}

var replayIn = flag.String("replayin", "", "run the sticky strategy on the input of this JSON file ({\"in\":{...}} or {...}) and print what happens")
var replayTimes = flag.Int("times", 1, "replay: repetitions")

// doReplay: user data is re-encoded from the decoded form in the file.
func doReplay(file string) {
	b, err := os.ReadFile(file)
	if err != nil {
		panic(err)
	}
	var wrap struct {
		In *bg.Input `json:"in"`
	}
	var in bg.Input
	if json.Unmarshal(b, &wrap) == nil && wrap.In != nil {
		in = *wrap.In
	} else if err := json.Unmarshal(b, &in); err != nil {
		panic(err)
	}
	bg.EncodeUD(&in)
	bg.HangTimeout = 3 * time.Second
	for i := 0; i < *replayTimes; i++ {
		run := bg.RunSticky(in)
		k, what := bg.Validity(&run.In, run.Plan)
		fmt.Printf("REPLAY hang=%v panic=%q err=%v invalid=%q %s picks=%d\n", run.Hang, run.Panic, run.Err, k, what, len(run.Oracle.Picks))
		if run.Hang {
			return
		}
	}
}

func doSearch(seed int64, chains int) {
	r := rand.New(rand.NewSource(seed))
	found := 0
	reverts, plans, withPicks := 0, 0, 0
	for c := 0; c < chains && found < 5; c++ {
		kind := []string{"honest", "stale", "forged"}[c%3]
		w := bg.NewWorld(rand.New(rand.NewSource(r.Int63())), kind, 1+r.Intn(*searchM), 1+r.Intn(*searchT), *searchP)
		for s := 0; s < 6; s++ {
			if s > 0 {
				w.Mutate()
			}
			in := w.Input(false)
			run := bg.RunSticky(in)
			if run.Panic != "" {
				fmt.Println("PANIC", run.Panic)
			}
			if run.Hang {
				b, _ := json.Marshal(run)
				fmt.Println("HANG chain", kind, string(b))
				return
			}
			if run.RawPlan == nil {
				break
			}
			plans++
			if len(run.Oracle.Picks) > 0 {
				withPicks++
				np := 0
				for _, t := range run.In.Topics {
					np += len(t.Parts)
				}
				fmt.Println("PICK", kind, "step", s, "members", len(run.In.Members), "topics", len(run.In.Topics), "parts", np, "npicks", len(run.Oracle.Picks))
			}
			if run.Reverted {
				reverts++
				if reverts <= 3 {
					b, _ := json.Marshal(run)
					fmt.Println("REVERT", kind, string(b))
				}
			}
			if k, what := bg.Validity(&run.In, run.Plan); k != "" {
				found++
				b, _ := json.Marshal(run)
				fmt.Fprintln(os.Stdout, "FAIL", kind, k, what, stalePrevOwner(&run.In), string(b))
				break
			}
			w.Feedback(run.RawPlan)
		}
	}
	adv, advPicks, advRev := 0, 0, 0
	for c := 0; c < chains*3; c++ {
		in := bg.Adversarial(r, *searchM, *searchT, *searchP)
		run := bg.RunSticky(in)
		adv++
		if run.Hang {
			b, _ := json.Marshal(run)
			fmt.Println("HANG adversarial", string(b))
			return
		}
		if len(run.Oracle.Picks) > 0 {
			advPicks++
		}
		if run.Reverted {
			advRev++
			if advRev <= 3 {
				b, _ := json.Marshal(run)
				fmt.Println("REVERT adversarial", string(b))
			}
		}
		if run.Panic != "" {
			fmt.Println("PANIC", run.Panic)
		}
		if k, what := bg.Validity(&run.In, run.Plan); k != "" && found < 8 {
			found++
			b, _ := json.Marshal(run)
			fmt.Println("FAIL adversarial", k, what, stalePrevOwner(&run.In), string(b))
		}
	}
	fmt.Println("adversarial", adv, "with-picks", advPicks, "reverts", advRev)
	fmt.Println("search done, found", found, "reverts", reverts, "plans", plans, "with-picks", withPicks)
}
