// c07corr: runs the real sarama ConsumerGroup against a scripted coordinator (MockBroker + shim) and
// writes script, schedule choices and observation as Coq cases for SV.C07.Corr, plus the verdict of the
// direct property monitor per case.
package main

import (
	"encoding/json"
	"flag"
	"fmt"
	"math/rand"
	"os"
	"sort"
	"strings"
	"sync"

	cf "verifharness/internal/coqfmt"
)

func coqJV(v jv) string {
	switch v.K {
	case "ok":
		return cf.App("JOk", cf.Z(v.M), cf.Z(v.G), cf.Bool(v.Leader))
	case "unknown":
		return "JUnknownMember"
	case "illegal":
		return "JIllegalGen"
	case "notcoord":
		return "JNotCoord"
	case "rebalance":
		return "JRebalance"
	case "fatal":
		return "JFatal"
	}
	return "JDrop"
}
func coqSV(v sv, order []int64) string {
	switch v.K {
	case "ok":
		return cf.App("SOk", cf.ZList(orderPlan(v.Plan, order)))
	case "unknown":
		return "SUnknownMember"
	case "illegal":
		return "SIllegalGen"
	case "notcoord":
		return "SNotCoord"
	case "rebalance":
		return "SRebalance"
	case "fatal":
		return "SFatal"
	}
	return "SDrop"
}
func coqHV(s string) string {
	return map[string]string{"ok": "HOk", "rebalance": "HRebalance", "unknown": "HUnknownMember", "illegal": "HIllegalGen", "fatal": "HFatal", "drop": "HDrop"}[s]
}
func coqLV(s string) string {
	return map[string]string{"": "LOk", "ok": "LOk", "err": "LErr", "drop": "LDrop"}[s]
}
func coqTrig(s string) string {
	return map[string]string{"none": "TNone", "ctx-before": "TCtxBefore", "ctx-setup": "TCtxSetup", "ctx-steady": "TCtxSteady",
		"close-before": "TCloseBefore", "close-join": "TCloseJoin", "close-setup": "TCloseSetup", "close-steady": "TCloseSteady",
		"hb-first": "THbFirst", "hb-steady": "THbSteady", "part-steady": "TPartSteady"}[s]
}
func coqBools(b []bool) string {
	var it []string
	for _, x := range b {
		it = append(it, cf.Bool(x))
	}
	return cf.List(it)
}

// the map iteration order of the claims is not fixed by the property: the plan is given to the model in the
// order in which the implementation fetched the offsets (then the rest, ascending)
func orderPlan(plan, order []int64) []int64 {
	left := map[int64]int{}
	for _, p := range plan {
		left[p]++
	}
	var out []int64
	for _, p := range order {
		if left[p] > 0 {
			out = append(out, p)
			left[p]--
		}
	}
	rest := append([]int64(nil), plan...)
	sort.Slice(rest, func(i, j int) bool { return rest[i] < rest[j] })
	for _, p := range rest {
		if left[p] > 0 {
			out = append(out, p)
			left[p]--
		}
	}
	return out
}

func coqAttempts(c *callSpec) string {
	seen := map[int64]bool{}
	var it []string
	add := func(p int64) {
		if seen[p] {
			return
		}
		seen[p] = true
		a1, a2 := c.attempts(p)
		if !a1 || !a2 {
			it = append(it, fmt.Sprintf("(%s, (%s, %s))", cf.Z(p), cf.Bool(a1), cf.Bool(a2)))
		}
	}
	for _, p := range c.NoCreate {
		add(p)
	}
	for _, f := range c.Faults {
		add(f.P)
	}
	return cf.List(it)
}

func coqBeh(b behSpec) string {
	q := "None"
	if b.Quota >= 0 {
		q = cf.Some(cf.Nat(b.Quota))
	}
	return fmt.Sprintf("{| h_quota := %s; h_mark := %s |}", q, cf.Nat(b.Mark))
}

func coqMainEv(x ev, order []int64) (string, bool) {
	switch x.K {
	case "find":
		return "(EvReq RFindCoord 0 0)", true
	case "join":
		return fmt.Sprintf("(EvReq RJoin %s 0)", cf.Z(x.M)), true
	case "sync":
		return fmt.Sprintf("(EvReq (RSync %s) %s %s)", cf.Bool(x.Flag), cf.Z(x.M), cf.Z(x.G)), true
	case "fetchoff":
		return fmt.Sprintf("(EvReq (RFetch %s) 0 0)", cf.Z(x.P)), true
	case "commit":
		bs := append([][2]int64(nil), x.B...)
		pos := func(p int64) int {
			for i, q := range order {
				if q == p {
					return i
				}
			}
			return 1000 + int(p)
		}
		sort.SliceStable(bs, func(i, j int) bool { return pos(bs[i][0]) < pos(bs[j][0]) })
		var it []string
		for _, b := range bs {
			it = append(it, fmt.Sprintf("(%s, %s)", cf.Z(b[0]), cf.Z(b[1])))
		}
		return fmt.Sprintf("(EvReq (RCommit %s) %s %s)", cf.List(it), cf.Z(x.M), cf.Z(x.G)), true
	case "leave":
		return fmt.Sprintf("(EvReq RLeave %s 0)", cf.Z(x.M)), true
	case "setup":
		return "EvSetup", true
	case "cleanup":
		return "EvCleanup", true
	case "return":
		return "(EvReturn " + x.V + ")", true
	}
	return "", false
}

func coqCase(cs caseSpec, o obs) string {
	initial := int64(-1)
	if cs.InitialOldest {
		initial = -2
	}
	var store, lg, calls []string
	for _, p := range cs.Parts {
		if p.Stored >= 0 {
			store = append(store, fmt.Sprintf("(%s, %s)", cf.Z(p.id()), cf.Z(p.Stored)))
		}
		lg = append(lg, fmt.Sprintf("(%s, (%s, %s))", cf.Z(p.id()), cf.Z(p.Oldest), cf.Z(p.Newest)))
	}
	for ci, call := range cs.Calls {
		if ci >= len(o.Calls) {
			break
		}
		co := o.Calls[ci]
		var order, started []int64
		consumed := map[int64]int{}
		claims := map[int64][]string{}
		var main, hbids, joins, syncs, hbs, beh, cons, clm []string
		seenHb := map[[2]int64]bool{}
		for _, x := range o.Log {
			if x.Call != ci {
				continue
			}
			if x.K == "fetchoff" {
				order = append(order, x.P) // with repetitions: a plan may name a partition twice
			}
		}
		for _, x := range o.Log {
			if x.Call != ci {
				continue
			}
			if s, ok := coqMainEv(x, order); ok {
				// Close's LeaveGroup can only start once Consume has released the group's lock, i.e. has returned;
				// the harness logs "return" a little later: put the two in their causal order
				if x.K == "return" && call.Trigger != "close-before" && len(main) > 0 && strings.HasPrefix(main[len(main)-1], "(EvReq RLeave") {
					main = append(main[:len(main)-1], s, main[len(main)-1])
				} else {
					main = append(main, s)
				}
				continue
			}
			switch x.K {
			case "hb":
				k := [2]int64{x.M, x.G}
				if !seenHb[k] {
					seenHb[k] = true
					hbids = append(hbids, fmt.Sprintf("(%s, %s)", cf.Z(x.M), cf.Z(x.G)))
				}
			case "start":
				started = append(started, x.P)
				claims[x.P] = append(claims[x.P], fmt.Sprintf("(EvClaimStart %s %s)", cf.Z(x.P), cf.Z(x.Off)))
			case "deliver":
				consumed[x.P]++
				claims[x.P] = append(claims[x.P], fmt.Sprintf("(EvDeliver %s %s)", cf.Z(x.P), cf.Z(x.Off)))
			case "ret":
				claims[x.P] = append(claims[x.P], fmt.Sprintf("(EvClaimReturn %s)", cf.Z(x.P)))
			}
		}
		for _, v := range co.Joins {
			joins = append(joins, coqJV(v))
		}
		for _, v := range co.Syncs {
			syncs = append(syncs, coqSV(v, order))
		}
		for _, v := range co.Hbs {
			hbs = append(hbs, coqHV(v))
		}
		for _, b := range call.Beh {
			beh = append(beh, fmt.Sprintf("(%s, %s)", cf.Z(b.P), coqBeh(b)))
		}
		served, read := map[int64]int{}, map[int64]int{}
		var errParts []int64
		for _, x := range o.Log {
			if x.Call != ci {
				continue
			}
			switch x.K {
			case "fetcherr":
				if served[x.P] == 0 {
					errParts = append(errParts, x.P)
				}
				served[x.P]++
			case "err":
				read[x.P]++
			}
		}
		var mid []int64
		npom := 0
		for _, x := range o.Log {
			if x.Call == ci && x.K == "pomerr" {
				npom++
				if x.Flag {
					mid = append(mid, x.P)
				}
			}
		}
		var errs []string
		for _, p := range errParts {
			r := read[p]
			if r > served[p] {
				r = served[p]
			}
			errs = append(errs, fmt.Sprintf("(%s, (%s, %s))", cf.Z(p), cf.Nat(r), cf.Nat(served[p]-r)))
		}
		for _, p := range started {
			cons = append(cons, fmt.Sprintf("(%s, %s)", cf.Z(p), cf.Nat(consumed[p])))
			clm = append(clm, fmt.Sprintf("(%s, %s)", cf.Z(p), cf.List(claims[p])))
		}
		calls = append(calls, fmt.Sprintf("{| cc_trig := %s; cc_arg := %s; cc_handler := {| hd_setup_ok := %s; hd_cleanup_ok := %s; hd_beh := %s; hd_default := {| h_quota := None; h_mark := 0%%nat |} |}; "+
			"cc_coords := %s; cc_joins := %s; cc_syncs := %s; cc_fetches := %s; cc_attempts := %s; cc_hbs := %s; cc_commits := %s; cc_started := %s; cc_consumed := %s; cc_produce := %s; cc_errs := %s; cc_reported := %s; cc_mid := %s; cc_pomerrs := %s; "+
			"cc_fired := %s; cc_main := %s; cc_claims := %s; cc_hbids := %s |}",
			coqTrig(call.Trigger), cf.Nat(call.TrigArg), cf.Bool(call.SetupOK), cf.Bool(call.CleanupOK), cf.List(beh),
			coqBools(co.Coords), cf.List(joins), cf.List(syncs), coqBools(co.Fetches), coqAttempts(&call), cf.List(hbs), coqBools(co.Commits),
			cf.ZList(started), cf.List(cons), cf.ZList(call.Produce), cf.List(errs), cf.Bool(call.Reported), cf.ZList(mid), cf.Nat(npom), cf.Bool(co.Fired), cf.List(main), cf.List(clm), cf.List(hbids)))
	}
	var tail []string
	for _, x := range o.Log {
		if x.Call == len(cs.Calls) {
			if s, ok := coqMainEv(x, nil); ok {
				tail = append(tail, s)
			}
		}
	}
	return fmt.Sprintf("{| k_cfg := {| c_retries := %d; c_initial := %s; c_hb_retries := %d; c_commit_attempts := %s |}; k_store := %s; k_log := %s; k_calls := %s; k_close := %s; k_leave := %s; k_tail := %s |}",
		cs.Retries, cf.Z(initial), cs.HbRetries, cf.Nat(cs.Attempts), cf.List(store), cf.List(lg), cf.List(calls), cf.Bool(cs.Close), coqLV(cs.Leave), cf.List(tail))
}

func nontrivial(cs caseSpec, o obs) bool {
	// at least one session was opened (Setup ran) and at least one request was answered
	for _, x := range o.Log {
		if x.K == "setup" {
			return true
		}
	}
	n := 0
	for _, c := range o.Calls {
		n += len(c.Joins) + len(c.Syncs)
	}
	return n >= 2
}

func main() {
	out := flag.String("out", ".", "output directory")
	seed := flag.Int64("seed", 1, "seed")
	n := flag.Int("n", 300, "number of random cases")
	nEnum := flag.Int("enum", 120, "number of enumerated coordinator scripts sampled (0 = all)")
	workers := flag.Int("workers", 12, "cases run in parallel")
	debug := flag.String("debug", "", "run one case given as JSON and dump the observation")
	flag.Parse()
	if *debug != "" {
		var cs caseSpec
		if err := json.Unmarshal([]byte(*debug), &cs); err != nil {
			fmt.Fprintln(os.Stderr, err)
			os.Exit(2)
		}
		o := runCase(cs)
		for _, x := range o.Log {
			b, _ := json.Marshal(x)
			fmt.Println(string(b))
		}
		b, _ := json.Marshal(o.Calls)
		fmt.Println(string(b), o.CloseHung)
		fmt.Println(coqCase(cs, o))
		if m := monitor(cs, o); m != nil {
			fmt.Println("MONITOR", m.Signature, m.What)
		}
		return
	}
	r := rand.New(rand.NewSource(*seed))
	var cases []caseSpec
	var kinds []string
	cases = append(cases, corpus()...)
	for range cases {
		kinds = append(kinds, "corpus")
	}
	scripts := enumScripts(4)
	if *nEnum > 0 && *nEnum < len(scripts) {
		r.Shuffle(len(scripts), func(i, j int) { scripts[i], scripts[j] = scripts[j], scripts[i] })
		scripts = scripts[:*nEnum]
	}
	for _, sc := range scripts {
		cases = append(cases, scriptCase(r, sc))
		kinds = append(kinds, "script")
	}
	for i := 0; i < *n; i++ {
		if i%4 == 3 {
			cases = append(cases, genNoSkip(r))
			kinds = append(kinds, "noskip")
		} else if i%12 == 9 || i%12 == 1 {
			cases = append(cases, genErrPath(r))
			kinds = append(kinds, "errpath")
		} else if i%12 == 2 || i%12 == 10 {
			cases = append(cases, genPomErr(r))
			kinds = append(kinds, "pomerr")
		} else if i%12 == 5 {
			cases = append(cases, genTransient(r))
			kinds = append(kinds, "transient")
		} else {
			cases = append(cases, genCase(r))
			kinds = append(kinds, "random")
		}
	}
	// every third case runs with an offset retention configured (v2 commit requests); the corpus keeps its own setting
	for i := range cases {
		if kinds[i] != "corpus" && i%3 == 1 {
			cases[i].RetentionMs = int64(1000 * (1 + i%50))
		}
	}
	results := make([]obs, len(cases))
	var wg sync.WaitGroup
	sem := make(chan struct{}, *workers)
	for i := range cases {
		wg.Add(1)
		sem <- struct{}{}
		go func(i int) {
			defer wg.Done()
			defer func() { <-sem }()
			results[i] = runCase(cases[i])
		}(i)
	}
	wg.Wait()
	w := &cf.Writer{Dir: *out, Prefix: "cases_c07", Imports: "From SV Require Import C07.Model C07.Corr.", CaseType: "ccase", MismatchFn: "mismatches_c07", ShardSize: 100}
	confirmed := map[string]bool{}
	reruns := 0
	for i, cs := range cases {
		o := results[i]
		m := monitor(cs, o)
		if m != nil && !confirmed[m.Signature] {
			// timing-dependent behaviour counts only when it shows twice; once a signature has been reproduced on some case,
			// further cases showing it are not run again (a broken tree can make hundreds of cases hang)
			if reruns >= 24 {
				m = nil
			} else {
				reruns++
				o2 := runCase(cs)
				if m2 := monitor(cs, o2); m2 == nil || m2.Signature != m.Signature {
					m = nil
					o = o2
				} else {
					confirmed[m.Signature] = true
				}
			}
		}
		w.Add(coqCase(cs, o), cf.Sidecar{Case: map[string]interface{}{"script": cs, "observed": slim(o)}, Kind: kinds[i] + ":" + trigKinds(cs), Nontrivial: nontrivial(cs, o), Monitor: m})
	}
	w.Close()
}

func trigKinds(cs caseSpec) string {
	var t []string
	for _, c := range cs.Calls {
		t = append(t, c.Trigger)
	}
	return strings.Join(t, ",")
}

// slim: the observation without the per-record deliveries (kept readable in the sidecar)
func slim(o obs) obs {
	var l []ev
	for _, x := range o.Log {
		if x.K != "deliver" && !(x.K == "hb" && x.V == "ok") {
			l = append(l, x)
		}
	}
	return obs{Log: l, Calls: o.Calls, CloseHung: o.CloseHung}
}

// corpus: witnesses kept from development (run first)
func corpus() []caseSpec {
	p2 := []partSpec{{Topic: 0, P: 0, Oldest: 0, Newest: 6, Stored: 2}, {Topic: 0, P: 1, Oldest: 0, Newest: 3, Stored: -1}}
	return []caseSpec{
		// two sessions, prefix marked, rejoin after a fencing verdict with a fresh identity
		{Retries: 1, HbRetries: 1, Attempts: 2, InitialOldest: true, Parts: p2, Close: true, Leave: "ok", Calls: []callSpec{
			{Plan: []int64{0, 1}, SetupOK: true, CleanupOK: true, Beh: []behSpec{{P: 0, Quota: -1, Mark: 2}, {P: 1, Quota: 2, Mark: 1}}, Trigger: "hb-steady", Hbs: []string{"unknown"}},
			{Plan: []int64{0, 1}, SetupOK: true, CleanupOK: true, Beh: []behSpec{{P: 0, Quota: -1, Mark: 1}}, Trigger: "hb-steady", Hbs: []string{"rebalance"}, Joins: []jv{{K: "unknown"}, {K: "ok", Leader: true}}}}},
		// Setup fails: Cleanup still runs, Consume returns the Setup error
		{Retries: 0, HbRetries: 0, Attempts: 1, Parts: p2, Close: true, Leave: "ok", Calls: []callSpec{
			{Plan: []int64{0, 1}, SetupOK: false, CleanupOK: true, Trigger: "none"}}},
		// a plan naming a partition twice: the second ManagePartition fails, no hooks run
		{Retries: 0, HbRetries: 0, Attempts: 1, InitialOldest: true, Parts: p2, Close: true, Leave: "ok", Calls: []callSpec{
			{Plan: []int64{1, 0, 0}, SetupOK: true, CleanupOK: true, Trigger: "ctx-steady"}}},
		// seeded C07-2 (missed at first): a valid committed offset, the leader refuses ListOffsets twice while the claim is
		// opened, Initial = newest: the claim must not be started at the initial position; the next session resumes at 2
		{Retries: 1, HbRetries: 1, Attempts: 2, Parts: []partSpec{{Topic: 0, P: 0, Oldest: 0, Newest: 6, Stored: 2}}, Close: true, Leave: "ok", Calls: []callSpec{
			{Plan: []int64{0}, SetupOK: true, CleanupOK: true, Beh: []behSpec{{P: 0, Quota: -1, Mark: 1}}, Trigger: "none", Faults: []faultSpec{{P: 0, From: 0, To: 2, Kind: "notleader"}}},
			{Plan: []int64{0}, SetupOK: true, CleanupOK: true, Beh: []behSpec{{P: 0, Quota: -1, Mark: 2}}, Trigger: "ctx-steady"}}},
		// committed offset out of range: the claim starts at the initial position
		{Retries: 0, HbRetries: 0, Attempts: 1, InitialOldest: true, Parts: []partSpec{{Topic: 0, P: 0, Oldest: 3, Newest: 7, Stored: 1}, {Topic: 0, P: 1, Oldest: 0, Newest: 4, Stored: 9}}, Calls: []callSpec{
			{Plan: []int64{0, 1}, SetupOK: true, CleanupOK: true, Beh: []behSpec{{P: 0, Quota: -1, Mark: 2}, {P: 1, Quota: -1, Mark: 2}}, Trigger: "ctx-steady"}}},
	}
}
