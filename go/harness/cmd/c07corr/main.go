package main

import (
	"encoding/json"
	"flag"
	"fmt"
	"os"
)

func main() {
	out := flag.String("out", ".", "output directory")
	seed := flag.Int64("seed", 1, "seed")
	n := flag.Int("n", 300, "number of random cases")
	debug := flag.String("debug", "", "run one case given as JSON and dump the observation")
	flag.Parse()
	if *debug != "" {
		var cs caseSpec
		if err := json.Unmarshal([]byte(*debug), &cs); err != nil {
			fmt.Fprintln(os.Stderr, err)
			os.Exit(2)
		}
		o := runCase(cs)
		for _, x := range o.Log {
			b, _ := json.Marshal(x)
			fmt.Println(string(b))
		}
		b, _ := json.Marshal(o.Calls)
		fmt.Println(string(b), o.CloseHung)
		return
	}
	_, _, _ = out, seed, n
}
