package main

import (
	"context"
	"errors"
	"fmt"
	"net"
	"sort"
	"sync"
	"time"

	"github.com/Shopify/sarama"
)

// ---------- case description (plain data, printed to the sidecar) ----------

type partSpec struct {
	Topic  int   `json:"topic"`
	P      int   `json:"p"`
	Oldest int64 `json:"oldest"`
	Newest int64 `json:"newest"`
	Stored int64 `json:"stored"` // -1 = nothing committed
}

func (p partSpec) id() int64 { return int64(p.Topic*100 + p.P) }

type jv struct {
	K      string `json:"k"` // ok unknown illegal notcoord rebalance fatal drop
	M      int64  `json:"m,omitempty"`
	G      int64  `json:"g,omitempty"`
	Leader bool   `json:"leader,omitempty"`
}
type sv struct {
	K    string  `json:"k"`
	Plan []int64 `json:"plan,omitempty"`
}
type behSpec struct {
	P     int64 `json:"p"`
	Quota int   `json:"quota"` // -1 = loops until Messages() closes
	Mark  int   `json:"mark"`
}
type callSpec struct {
	Coords    []bool    `json:"coords,omitempty"`
	Joins     []jv      `json:"joins,omitempty"`
	Syncs     []sv      `json:"syncs,omitempty"`
	Fetches   []bool    `json:"fetches,omitempty"`
	NoCreate  []int64   `json:"nocreate,omitempty"` // ListOffsets always refused for these partitions
	// ListOffsets requests number From..To-1 (per partition, per call) are refused: "notleader" (NotLeaderForPartition) or "drop".
	// client.GetOffset retries once, so [0,2) makes the first ConsumePartition fail, [2,4) the fallback attempt.
	Faults []faultSpec `json:"faults,omitempty"`
	// Fetch requests number From..To-1 (per partition, per call) are answered with ErrBrokerNotAvailable for that partition:
	// a partition-level error the consumer reports to the user (child.sendError) before it re-dispatches
	FetchErrs []faultSpec `json:"fetch_errs,omitempty"`
	// refused commits are answered with RebalanceInProgress, which the offset manager reports (pom.handleError), instead of
	// OffsetsLoadInProgress, which it does not
	Reported bool `json:"reported,omitempty"`
	// a handler that has marked something calls sess.Commit() once it has received all its records; that commit is refused
	MidCommit bool `json:"mid_commit,omitempty"`
	Plan      []int64   `json:"plan"` // default plan handed out by a sync that is not scripted
	SetupOK   bool      `json:"setup_ok"`
	CleanupOK bool      `json:"cleanup_ok"`
	Beh       []behSpec `json:"beh,omitempty"`
	// none ctx-before ctx-setup ctx-steady close-before close-join close-setup close-steady hb-first hb-steady part-steady
	Trigger string   `json:"trigger"`
	TrigArg int      `json:"trig_arg,omitempty"`
	Hbs     []string `json:"hbs,omitempty"` // ok rebalance unknown illegal fatal drop
	Commits []bool   `json:"commits,omitempty"`
	Produce []int64  `json:"produce,omitempty"` // records appended after the call
}
type faultSpec struct {
	P    int64  `json:"p"`
	From int    `json:"from"`
	To   int    `json:"to"`
	Kind string `json:"kind"`
}

// faultAt: is ListOffsets request number idx for partition p refused in this call, and how
func (c *callSpec) faultAt(p int64, idx int) string {
	if has(c.NoCreate, p) {
		return "unknown"
	}
	for _, f := range c.Faults {
		if f.P == p && idx >= f.From && idx < f.To {
			return f.Kind
		}
	}
	return ""
}

// attempts: outcome of the two ConsumePartition attempts of newConsumerGroupClaim under the fault windows
// (each attempt = GetOffset(newest), GetOffset(oldest), each with one internal retry)
func (c *callSpec) attempts(p int64) (bool, bool) {
	idx := 0
	getOffset := func() bool {
		if c.faultAt(p, idx) != "" {
			idx++
			if c.faultAt(p, idx) != "" {
				idx++
				return false
			}
		}
		idx++
		return true
	}
	attempt := func() bool { return getOffset() && getOffset() }
	a1 := attempt()
	if !a1 {
		return false, true
	}
	return true, attempt()
}

type caseSpec struct {
	Retries       int        `json:"retries"`
	HbRetries     int        `json:"hb_retries"`
	Attempts      int        `json:"attempts"`
	InitialOldest bool       `json:"initial_oldest"`
	Parts         []partSpec `json:"parts"`
	Calls         []callSpec `json:"calls"`
	ReturnErrors  bool       `json:"return_errors,omitempty"` // Consumer.Return.Errors
	ChanBuf       int        `json:"chan_buf,omitempty"`      // ChannelBufferSize when ReturnErrors (0 or 1); otherwise the default
	ReadErrors    bool       `json:"read_errors,omitempty"`   // the application reads group.Errors()
	Close         bool       `json:"close"`
	Leave         string     `json:"leave,omitempty"` // ok err drop
	// RetentionMs > 0: Consumer.Offsets.Retention is configured, so commits use the v2 OffsetCommitRequest; every
	// request of the session must still carry the issued member id and generation (adversary change C07-11)
	RetentionMs int64 `json:"retention_ms,omitempty"`
}

// ---------- observation ----------

type ev struct {
	K    string     `json:"k"` // call find join sync fetchoff hb commit leave setup start deliver ret cleanup return
	M    int64      `json:"m,omitempty"`
	G    int64      `json:"g,omitempty"`
	P    int64      `json:"p,omitempty"`
	Off  int64      `json:"off,omitempty"`
	Flag bool       `json:"flag,omitempty"`
	V    string     `json:"v,omitempty"`
	B    [][2]int64 `json:"b,omitempty"`
	Call int        `json:"call"`
	// coordinator's view when the event happened (for the monitor): committed offset and log bounds
	Stored, Oldest, Newest int64 `json:"-"`
}

type callObs struct {
	Coords  []bool   `json:"coords,omitempty"`
	Joins   []jv     `json:"joins,omitempty"`
	Syncs   []sv     `json:"syncs,omitempty"`
	Fetches []bool   `json:"fetches,omitempty"`
	Hbs     []string `json:"hbs,omitempty"`
	Commits []bool   `json:"commits,omitempty"`
	Fired   bool     `json:"fired,omitempty"` // the steady-state trigger was pulled before Consume returned
	Result  string   `json:"result"`
	Hung    bool     `json:"hung,omitempty"`
}
type obs struct {
	Log       []ev      `json:"log"`
	Calls     []callObs `json:"calls"`
	CloseHung bool      `json:"close_hung,omitempty"`
}

type quiet struct{}

func (quiet) Error(...interface{})          {}
func (quiet) Errorf(string, ...interface{}) {}
func (quiet) Fatal(...interface{})          {}
func (quiet) Fatalf(string, ...interface{}) {}

var errSetup = errors.New("verif: setup failed")
var errCleanup = errors.New("verif: cleanup failed")

const (
	codeNoCoord  = 31
	codeFatal    = 26
	codeFetchErr = 29
	codeCommit   = 14
	codeCommitReported = 27 // RebalanceInProgress on a commit block: pom.handleError + releaseCoordinator
	codeFetchReq = 8 // ErrBrokerNotAvailable on a fetch: reported through child.sendError, then re-dispatched
)

func memberName(m int64) string {
	if m == 0 {
		return ""
	}
	return fmt.Sprintf("m%d", m)
}
func memberNum(s string) int64 {
	if s == "" {
		return 0
	}
	var v int64
	if _, err := fmt.Sscanf(s, "m%d", &v); err != nil {
		return -999
	}
	return v
}
func topicName(i int) string { return fmt.Sprintf("t%d", i) }
func partID(topic string, p int32) int64 {
	var t int
	fmt.Sscanf(topic, "t%d", &t)
	return int64(t*100) + int64(p)
}

type engine struct {
	cs    caseSpec
	mu    sync.Mutex
	log   []ev
	store map[int64]int64
	lg    map[int64]*[2]int64
	extra map[string]int32 // extra partitions per topic reported by metadata (partition-count change)

	group sarama.ConsumerGroup

	// per call
	ci        int
	call      *callSpec
	co        *callObs
	joinPhase bool
	nJoin     int
	coords    []bool
	joins     []jv
	syncs     []sv
	fetches   []bool
	commits   []bool
	hbs       []string
	hbArmed   bool
	nextM     int64
	nextG     int64
	cancel    context.CancelFunc

	setupDone  bool
	listN      map[int64]int
	fetchN     map[int64]int
	midN       int // handlers currently inside sess.Commit()
	started    map[int64]bool
	steady     map[int64]bool
	expect     map[int64]bool
	allStarted chan struct{}
	steadyCh   chan struct{}
	closeOnce  sync.Once
	closeDone  chan struct{}
}

func (e *engine) add(x ev) {
	x.Call = e.ci
	e.log = append(e.log, x)
}

func (e *engine) closeGroupAsync() {
	e.closeOnce.Do(func() {
		go func() {
			_ = e.group.Close()
			close(e.closeDone)
		}()
	})
	for !sarama.VerifC07GroupClosed(e.group) {
		time.Sleep(50 * time.Microsecond)
	}
}

func has(l []int64, x int64) bool {
	for _, y := range l {
		if y == x {
			return true
		}
	}
	return false
}

func kerrOf(k string) int16 {
	switch k {
	case "unknown":
		return 25
	case "illegal":
		return 22
	case "notcoord":
		return 16
	case "rebalance":
		return 27
	case "fatal":
		return codeFatal
	}
	return 0
}

func (e *engine) topics() map[string][]int32 {
	e.mu.Lock()
	defer e.mu.Unlock()
	out := map[string][]int32{}
	for _, p := range e.cs.Parts {
		out[topicName(p.Topic)] = append(out[topicName(p.Topic)], int32(p.P))
	}
	for t, n := range e.extra {
		for i := int32(0); i < n; i++ {
			out[t] = append(out[t], 50+i)
		}
	}
	return out
}

func (e *engine) claimsOf(plan []int64) map[string][]int32 {
	if len(plan) == 0 {
		return nil
	}
	out := map[string][]int32{}
	for _, id := range plan {
		t := topicName(int(id / 100))
		out[t] = append(out[t], int32(id%100))
	}
	return out
}

func (e *engine) install(brokers []*sarama.MockBroker) {
	c := &sarama.VerifC07Coordinator{Topics: e.topics, Brokers: brokers}
	c.OnFindCoordinator = func() int16 {
		e.mu.Lock()
		defer e.mu.Unlock()
		if !e.joinPhase {
			return 0
		}
		ok := true
		if len(e.coords) > 0 {
			ok, e.coords = e.coords[0], e.coords[1:]
		}
		e.co.Coords = append(e.co.Coords, ok)
		e.add(ev{K: "find"})
		if ok {
			return 0
		}
		return codeNoCoord
	}
	c.OnJoin = func(member string, topics []string, _ int32) sarama.VerifC07Join {
		e.mu.Lock()
		e.nJoin++
		n := e.nJoin
		var v jv
		if len(e.joins) > 0 {
			v, e.joins = e.joins[0], e.joins[1:]
		} else {
			v = jv{K: "ok"}
		}
		if v.K == "ok" && v.M == 0 {
			e.nextM++
			e.nextG++
			v.M, v.G = e.nextM, e.nextG
		}
		e.co.Joins = append(e.co.Joins, v)
		e.add(ev{K: "join", M: memberNum(member)})
		closeNow := e.call.Trigger == "close-join" && n == e.call.TrigArg
		e.mu.Unlock()
		if closeNow {
			e.closeGroupAsync()
		}
		if v.K == "drop" {
			return sarama.VerifC07Join{Drop: true}
		}
		return sarama.VerifC07Join{Err: kerrOf(v.K), Generation: int32(v.G), MemberID: memberName(v.M), Leader: v.Leader}
	}
	c.OnSync = func(member string, gen int32, as map[string]map[string][]int32) sarama.VerifC07Sync {
		e.mu.Lock()
		defer e.mu.Unlock()
		var v sv
		if len(e.syncs) > 0 {
			v, e.syncs = e.syncs[0], e.syncs[1:]
		} else {
			v = sv{K: "ok", Plan: e.call.Plan}
		}
		e.co.Syncs = append(e.co.Syncs, v)
		e.add(ev{K: "sync", M: memberNum(member), G: int64(gen), Flag: len(as) > 0})
		if v.K == "drop" {
			return sarama.VerifC07Sync{Drop: true}
		}
		if v.K == "ok" {
			e.joinPhase = false
			e.expect = map[int64]bool{}
			for _, p := range v.Plan {
				if a1, a2 := e.call.attempts(p); a1 && a2 {
					e.expect[p] = true
				}
			}
			e.checkBarriers()
		}
		return sarama.VerifC07Sync{Err: kerrOf(v.K), Claims: e.claimsOf(v.Plan)}
	}
	c.OnHeartbeat = func(member string, gen int32) int16 {
		e.mu.Lock()
		defer e.mu.Unlock()
		v := "ok"
		if e.hbArmed && len(e.hbs) > 0 {
			v, e.hbs = e.hbs[0], e.hbs[1:]
		}
		if v != "ok" {
			e.co.Hbs = append(e.co.Hbs, v)
		}
		e.add(ev{K: "hb", M: memberNum(member), G: int64(gen), V: v})
		if v == "drop" {
			return sarama.VerifC07DropCode
		}
		return kerrOf(v)
	}
	c.OnOffsetFetch = func(topic string, p int32) (int64, int16) {
		e.mu.Lock()
		defer e.mu.Unlock()
		ok := true
		if len(e.fetches) > 0 {
			ok, e.fetches = e.fetches[0], e.fetches[1:]
		}
		e.co.Fetches = append(e.co.Fetches, ok)
		id := partID(topic, p)
		fx := ev{K: "fetchoff", P: id, Stored: -1}
		if o, okk := e.store[id]; okk {
			fx.Stored = o
		}
		e.add(fx)
		if !ok {
			return 0, codeFetchErr
		}
		if o, okk := e.store[id]; okk {
			return o, 0
		}
		return -1, 0
	}
	c.OnCommit = func(member string, gen int32, bs []sarama.VerifC07Block) int16 {
		e.mu.Lock()
		defer e.mu.Unlock()
		if e.midN > 0 { // Commit() called by a handler during the session: always refused, reported
			x := ev{K: "midcommit", M: memberNum(member), G: int64(gen)}
			for _, b := range bs {
				x.B = append(x.B, [2]int64{partID(b.Topic, b.Partition), b.Offset})
				e.add(ev{K: "pomerr", P: partID(b.Topic, b.Partition), Flag: true})
			}
			e.add(x)
			return codeCommitReported
		}
		ok := true
		if len(e.commits) > 0 {
			ok, e.commits = e.commits[0], e.commits[1:]
		}
		e.co.Commits = append(e.co.Commits, ok)
		x := ev{K: "commit", M: memberNum(member), G: int64(gen)}
		for _, b := range bs {
			x.B = append(x.B, [2]int64{partID(b.Topic, b.Partition), b.Offset})
		}
		e.add(x)
		if !ok {
			if e.call != nil && e.call.Reported {
				for _, b := range bs {
					e.add(ev{K: "pomerr", P: partID(b.Topic, b.Partition)})
				}
				return codeCommitReported
			}
			return codeCommit
		}
		for _, b := range bs {
			e.store[partID(b.Topic, b.Partition)] = b.Offset
		}
		return 0
	}
	c.OnLeave = func(member string) int16 {
		e.mu.Lock()
		defer e.mu.Unlock()
		e.add(ev{K: "leave", M: memberNum(member)})
		switch e.cs.Leave {
		case "err":
			return codeFatal
		case "drop":
			return sarama.VerifC07DropCode
		}
		return 0
	}
	c.OnListOffsets = func(topic string, p int32, t int64) (int64, int16) {
		e.mu.Lock()
		defer e.mu.Unlock()
		id := partID(topic, p)
		if e.call != nil {
			k := e.call.faultAt(id, e.listN[id])
			e.listN[id]++
			switch k {
			case "unknown":
				return 0, 3
			case "notleader":
				return 0, 6
			case "drop":
				return 0, sarama.VerifC07DropCode
			}
		}
		b := e.lg[id]
		if b == nil {
			return 0, 3
		}
		if t == sarama.OffsetOldest {
			return b[0], 0
		}
		return b[1], 0
	}
	c.OnFetch = func(topic string, p int32, off int64) (int, int64, int16) {
		e.mu.Lock()
		if e.call != nil {
			id := partID(topic, p)
			idx := e.fetchN[id]
			e.fetchN[id]++
			for _, f := range e.call.FetchErrs {
				if f.P == id && idx >= f.From && idx < f.To {
					e.add(ev{K: "fetcherr", P: id})
					e.mu.Unlock()
					return 0, 0, codeFetchReq
				}
			}
		}
		b := e.lg[partID(topic, p)]
		if b == nil {
			e.mu.Unlock()
			return 0, 0, 3
		}
		hi := b[1]
		e.mu.Unlock()
		n := int(hi - off)
		if n <= 0 {
			time.Sleep(2 * time.Millisecond)
			return 0, hi, 0
		}
		if n > 4 {
			n = 4
		}
		return n, hi, 0
	}
	sarama.VerifC07Install(c)
}

// called with e.mu held
func (e *engine) checkBarriers() {
	allS, allT := true, true
	for p := range e.expect {
		if !e.started[p] {
			allS = false
		}
		if !e.steady[p] {
			allT = false
		}
	}
	if allS {
		select {
		case <-e.allStarted:
		default:
			close(e.allStarted)
		}
	}
	if allT && e.setupDone {
		select {
		case <-e.steadyCh:
		default:
			close(e.steadyCh)
		}
	}
}

// ---------- handler ----------

type hnd struct {
	e    *engine
	call *callSpec
}

func (h hnd) Setup(s sarama.ConsumerGroupSession) error {
	e := h.e
	e.mu.Lock()
	e.add(ev{K: "setup"})
	e.setupDone = true
	e.checkBarriers()
	trig := h.call.Trigger
	ok := h.call.SetupOK
	e.mu.Unlock()
	switch trig {
	case "ctx-setup":
		e.cancel()
	case "close-setup":
		e.closeGroupAsync()
	}
	if !ok {
		return errSetup
	}
	return nil
}

func (h hnd) Cleanup(s sarama.ConsumerGroupSession) error {
	e := h.e
	e.mu.Lock()
	defer e.mu.Unlock()
	e.add(ev{K: "cleanup"})
	if !h.call.CleanupOK {
		return errCleanup
	}
	return nil
}

func (h hnd) ConsumeClaim(s sarama.ConsumerGroupSession, c sarama.ConsumerGroupClaim) error {
	e := h.e
	id := partID(c.Topic(), c.Partition())
	init := c.InitialOffset()
	e.mu.Lock()
	x := ev{K: "start", P: id, Off: init, Stored: -1}
	if o, ok := e.store[id]; ok {
		x.Stored = o
	}
	var lo, hi int64
	if b := e.lg[id]; b != nil {
		lo, hi = b[0], b[1]
	}
	x.Oldest, x.Newest = lo, hi
	e.add(x)
	b := h.call.behOf(id)
	start := init
	if init == sarama.OffsetNewest {
		start = hi
	} else if init == sarama.OffsetOldest {
		start = lo
	}
	target := int(hi - start)
	if b.Quota >= 0 && b.Quota < target {
		target = b.Quota
	}
	e.started[id] = true
	if target <= 0 {
		e.steady[id] = true
	}
	e.checkBarriers()
	allStarted := e.allStarted
	e.mu.Unlock()

	consumed := 0
	quotaHit := false
	for {
		if b.Quota >= 0 && consumed >= b.Quota {
			quotaHit = true
			break
		}
		msg, ok := <-c.Messages()
		if !ok {
			break
		}
		e.mu.Lock()
		e.add(ev{K: "deliver", P: id, Off: msg.Offset})
		e.mu.Unlock()
		if consumed < b.Mark {
			s.MarkMessage(msg, "")
		}
		consumed++
		if consumed == target {
			if h.call.MidCommit && b.Mark > 0 {
				e.mu.Lock()
				e.midN++
				e.mu.Unlock()
				s.Commit()
				e.mu.Lock()
				e.midN--
				e.mu.Unlock()
			}
			e.mu.Lock()
			e.steady[id] = true
			e.checkBarriers()
			e.mu.Unlock()
		}
	}
	if quotaHit {
		// a handler that returns early: hold the return until every claim that can start has started,
		// so that "which claims start" does not depend on goroutine timing
		select {
		case <-allStarted:
		case <-s.Context().Done():
		}
	}
	e.mu.Lock()
	e.add(ev{K: "ret", P: id})
	e.mu.Unlock()
	return nil
}

func classify(err error) string {
	switch {
	case err == nil:
		return "RNil"
	case err == sarama.ErrClosedConsumerGroup:
		return "RClosed"
	case err == errSetup:
		return "RSetupErr"
	case err == errCleanup:
		return "RCleanupErr"
	}
	if _, ok := err.(sarama.ConfigurationError); ok {
		return "RFetchErr" // ManagePartition: "That topic/partition is already being managed"
	}
	if k, ok := err.(sarama.KError); ok {
		switch int(k) {
		case codeNoCoord:
			return "RNoCoord"
		case codeFatal:
			return "RFatal"
		case codeFetchErr:
			return "RFetchErr"
		case 16, 27:
			return fmt.Sprintf("(RKErr %d)", int(k))
		}
		return fmt.Sprintf("(RKErr %d)", int(k))
	}
	return "RDrop"
}

const consumeBound = 4 * time.Second

// listen: a listener on an ephemeral port; waits when the machine is short of ports / descriptors (long thorough runs)
func listen() net.Listener {
	for i := 0; ; i++ {
		l, err := net.Listen("tcp", "localhost:0")
		if err == nil {
			return l
		}
		if i > 600 {
			panic("c07corr: net.Listen: " + err.Error())
		}
		time.Sleep(100 * time.Millisecond)
	}
}

func runCase(cs caseSpec) obs {
	e := &engine{cs: cs, store: map[int64]int64{}, lg: map[int64]*[2]int64{}, extra: map[string]int32{}, closeDone: make(chan struct{})}
	topicSet := map[string]bool{}
	for _, p := range cs.Parts {
		if p.Stored >= 0 {
			e.store[p.id()] = p.Stored
		}
		e.lg[p.id()] = &[2]int64{p.Oldest, p.Newest}
		topicSet[topicName(p.Topic)] = true
	}
	var topics []string
	for t := range topicSet {
		topics = append(topics, t)
	}
	sort.Strings(topics)

	b1 := sarama.NewMockBrokerListener(quiet{}, 1, listen())
	b2 := sarama.NewMockBrokerListener(quiet{}, 2, listen())
	defer b1.Close()
	defer b2.Close()
	e.ci = -1
	e.co = &callObs{}
	e.install([]*sarama.MockBroker{b1, b2})

	cfg := sarama.NewConfig()
	cfg.Version = sarama.V0_10_2_0
	cfg.Consumer.Group.Heartbeat.Interval = 25 * time.Millisecond
	cfg.Consumer.Group.Session.Timeout = 200 * time.Millisecond
	cfg.Consumer.Group.Rebalance.Retry.Max = cs.Retries
	cfg.Consumer.Group.Rebalance.Retry.Backoff = time.Millisecond
	cfg.Metadata.Retry.Max = cs.HbRetries
	cfg.Metadata.Retry.Backoff = time.Millisecond
	cfg.Metadata.RefreshFrequency = 10 * time.Minute
	for _, c := range cs.Calls {
		if c.Trigger == "part-steady" {
			cfg.Metadata.RefreshFrequency = 15 * time.Millisecond
		}
	}
	cfg.Consumer.Offsets.AutoCommit.Interval = time.Minute
	if cs.RetentionMs > 0 {
		cfg.Consumer.Offsets.Retention = time.Duration(cs.RetentionMs) * time.Millisecond
	}
	cfg.Consumer.Offsets.Retry.Max = cs.Attempts - 1
	cfg.Consumer.Offsets.Initial = sarama.OffsetNewest
	if cs.InitialOldest {
		cfg.Consumer.Offsets.Initial = sarama.OffsetOldest
	}
	if cs.ReturnErrors {
		cfg.Consumer.Return.Errors = true
		cfg.ChannelBufferSize = cs.ChanBuf
	}
	cfg.Consumer.MaxWaitTime = 10 * time.Millisecond
	cfg.Consumer.Retry.Backoff = 5 * time.Millisecond

	var o obs
	client, err := sarama.NewClient([]string{b1.Addr()}, cfg)
	if err != nil {
		panic("c07corr: NewClient: " + err.Error())
	}
	defer client.Close()
	g, err := sarama.NewConsumerGroupFromClient("g", client)
	if err != nil {
		panic("c07corr: NewConsumerGroupFromClient: " + err.Error())
	}
	e.group = g
	readerDone := make(chan struct{})
	if cs.ReadErrors {
		go func() {
			defer close(readerDone)
			for err := range g.Errors() {
				if ce, ok := err.(*sarama.ConsumerError); ok {
					if k, ok := ce.Err.(sarama.KError); ok && int(k) == codeFetchReq {
						e.mu.Lock()
						e.add(ev{K: "err", P: partID(ce.Topic, ce.Partition)})
						e.mu.Unlock()
					} else if ok && int(k) == codeCommitReported {
						e.mu.Lock()
						e.add(ev{K: "perr", P: partID(ce.Topic, ce.Partition)})
						e.mu.Unlock()
					}
				}
			}
		}()
	} else {
		close(readerDone)
	}

	for i := range cs.Calls {
		call := &cs.Calls[i]
		ctx, cancel := context.WithCancel(context.Background())
		e.mu.Lock()
		e.ci, e.call, e.co = i, call, &callObs{}
		e.joinPhase, e.nJoin, e.setupDone = true, 0, false
		e.coords, e.joins, e.syncs = call.Coords, call.Joins, call.Syncs
		e.fetches, e.commits, e.hbs = call.Fetches, call.Commits, call.Hbs
		e.hbArmed = call.Trigger == "hb-first"
		e.cancel = cancel
		e.started, e.steady, e.expect = map[int64]bool{}, map[int64]bool{}, map[int64]bool{-1: true}
		e.listN = map[int64]int{}
		e.fetchN = map[int64]int{}
		e.allStarted, e.steadyCh = make(chan struct{}), make(chan struct{})
		steadyCh := e.steadyCh
		co := e.co
		e.add(ev{K: "call"})
		e.mu.Unlock()

		switch call.Trigger {
		case "ctx-before":
			cancel()
		case "close-before":
			e.closeGroupAsync()
			select {
			case <-e.closeDone:
			case <-time.After(consumeBound):
			}
		}
		done := make(chan error, 1)
		go func() { done <- g.Consume(ctx, topics, hnd{e, call}) }()

		stopTrig := make(chan struct{})
		trigDone := make(chan struct{})
		go func() {
			defer close(trigDone)
			switch call.Trigger {
			case "ctx-steady", "close-steady", "hb-steady", "part-steady":
			default:
				return
			}
			select {
			case <-steadyCh:
			case <-stopTrig:
				return
			case <-time.After(1500 * time.Millisecond):
			}
			e.mu.Lock()
			co.Fired = true
			e.mu.Unlock()
			switch call.Trigger {
			case "ctx-steady":
				cancel()
			case "close-steady":
				e.closeGroupAsync()
			case "hb-steady":
				e.mu.Lock()
				e.hbArmed = true
				e.mu.Unlock()
			case "part-steady":
				e.mu.Lock()
				e.extra[topics[0]]++
				e.mu.Unlock()
			}
		}()

		var res error
		select {
		case res = <-done:
		case <-time.After(consumeBound):
			co.Hung = true
		}
		close(stopTrig)
		<-trigDone
		cancel()
		e.mu.Lock()
		if co.Hung {
			co.Result = "HUNG"
		} else {
			co.Result = classify(res)
			e.add(ev{K: "return", V: co.Result})
		}
		for _, p := range call.Produce {
			if b := e.lg[p]; b != nil {
				b[1]++
			}
		}
		o.Calls = append(o.Calls, *co)
		e.mu.Unlock()
		if co.Hung {
			break
		}
		// a Close issued during this call finishes (LeaveGroup) before the next call starts
		if sarama.VerifC07GroupClosed(g) {
			select {
			case <-e.closeDone:
			case <-time.After(consumeBound):
				o.CloseHung = true
			}
		}
	}
	e.mu.Lock()
	e.ci = len(cs.Calls)
	e.call = nil
	e.co = &callObs{}
	e.mu.Unlock()
	if cs.ReadErrors && !sarama.VerifC07GroupClosed(g) {
		// errors travel forwarder -> handleError -> Errors() asynchronously, and handleError drops them once Close has been
		// called: give the last ones a moment to arrive before closing the group
		for i := 0; i < 200; i++ {
			e.mu.Lock()
			var fs, fr, ps, pr int
			for _, x := range e.log {
				switch x.K {
				case "fetcherr":
					fs++
				case "err":
					fr++
				case "pomerr":
					ps++
				case "perr":
					pr++
				}
			}
			e.mu.Unlock()
			if (fs == 0 || fr > 0) && (ps == 0 || pr > 0) {
				break
			}
			time.Sleep(time.Millisecond)
		}
	}
	if cs.Close {
		e.closeGroupAsync()
	}
	if sarama.VerifC07GroupClosed(g) {
		select {
		case <-e.closeDone:
		case <-time.After(consumeBound):
			o.CloseHung = true
		}
	}
	if cs.ReadErrors && sarama.VerifC07GroupClosed(g) && !o.CloseHung {
		select { // Close closes Errors(): the reader has seen everything
		case <-readerDone:
		case <-time.After(consumeBound):
		}
	}
	e.mu.Lock()
	o.Log = append([]ev(nil), e.log...)
	e.mu.Unlock()
	if !o.CloseHung {
		e.closeGroupAsync() // release the group's resources; not part of the observation
		select {
		case <-e.closeDone:
		case <-time.After(consumeBound):
		}
	}
	return o
}
