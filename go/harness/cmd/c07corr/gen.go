package main

import "math/rand"

var joinBad = []string{"unknown", "illegal", "notcoord", "rebalance", "fatal", "drop"}
var hbTerminal = []string{"rebalance", "unknown", "illegal", "fatal"}

func pick(r *rand.Rand, l []string) string { return l[r.Intn(len(l))] }

func genParts(r *rand.Rand) []partSpec {
	var ps []partSpec
	nt := 1 + r.Intn(2)
	for t := 0; t < nt; t++ {
		np := 1 + r.Intn(3)
		if nt == 2 && np == 3 {
			np = 2
		}
		for p := 0; p < np; p++ {
			lo := int64([]int{0, 0, 3}[r.Intn(3)])
			hi := lo + int64(r.Intn(9))
			st := int64(-1)
			switch r.Intn(8) {
			case 0, 1, 2:
				st = lo + int64(r.Intn(int(hi-lo)+1)) // in range
			case 3:
				st = hi + 1 + int64(r.Intn(3)) // beyond the end
			case 4:
				if lo > 0 {
					st = lo - 1 - int64(r.Intn(2)) // truncated away
				}
			}
			ps = append(ps, partSpec{Topic: t, P: p, Oldest: lo, Newest: hi, Stored: st})
		}
	}
	return ps
}

// genCall: one Consume call. closed tells whether a Close trigger was already used in this case.
func genCall(r *rand.Rand, parts []partSpec, closed *bool, noSkip bool) callSpec {
	c := callSpec{SetupOK: true, CleanupOK: true, Trigger: "none"}
	// plan
	for _, p := range parts {
		if noSkip || r.Intn(4) != 0 {
			c.Plan = append(c.Plan, p.id())
		}
	}
	if !noSkip {
		// join / sync script
		switch r.Intn(6) {
		case 0, 1:
			for i, n := 0, 1+r.Intn(3); i < n; i++ {
				c.Joins = append(c.Joins, jv{K: pick(r, joinBad)})
			}
		case 2:
			c.Joins = append(c.Joins, jv{K: "ok", Leader: true})
		}
		switch r.Intn(6) {
		case 0:
			for i, n := 0, 1+r.Intn(2); i < n; i++ {
				c.Syncs = append(c.Syncs, sv{K: pick(r, joinBad)})
			}
		}
		if r.Intn(8) == 0 {
			// extra ok-as-leader answers for the joins that follow a retry
			c.Joins = append(c.Joins, jv{K: "ok", Leader: true}, jv{K: "ok", Leader: r.Intn(2) == 0})
		}
		switch r.Intn(10) {
		case 0:
			c.Coords = []bool{false}
		case 1:
			c.Coords = []bool{false, false, true}
		case 2:
			c.Coords = []bool{true, false, true}
		}
		if r.Intn(7) == 0 && len(c.Plan) > 0 {
			k := r.Intn(len(c.Plan))
			for i := 0; i < k; i++ {
				c.Fetches = append(c.Fetches, true)
			}
			c.Fetches = append(c.Fetches, false)
		}
		if r.Intn(9) == 0 && len(c.Plan) > 0 {
			c.NoCreate = []int64{c.Plan[r.Intn(len(c.Plan))]}
		}
		if r.Intn(8) == 0 && len(c.Plan) > 0 && len(c.NoCreate) == 0 {
			// transient refusals of ListOffsets while the claim is opened
			w := [][2]int{{0, 2}, {0, 2}, {2, 4}, {0, 4}}[r.Intn(4)]
			k := "notleader"
			if len(c.Plan) == 1 && r.Intn(3) == 0 {
				k = "drop"
			}
			c.Faults = []faultSpec{{P: c.Plan[r.Intn(len(c.Plan))], From: w[0], To: w[1], Kind: k}}
		}
		if r.Intn(10) == 0 {
			c.SetupOK = false
		}
		if r.Intn(10) == 0 {
			c.CleanupOK = false
		}
	}
	selfEnding := !c.SetupOK || len(c.NoCreate) > 0
	for _, f := range c.Faults {
		if f.From == 0 && f.To >= 2 {
			selfEnding = true // the first ConsumePartition fails: the claim goroutine ends the session
		}
	}
	for _, p := range c.Plan {
		b := behSpec{P: p, Quota: -1, Mark: r.Intn(4)}
		if r.Intn(2) == 0 {
			b.Quota = r.Intn(4)
			if b.Mark > b.Quota {
				b.Mark = b.Quota
			}
		}
		if noSkip {
			b.Mark = r.Intn(5)
			if b.Quota == 0 {
				b.Quota = 1 + r.Intn(3)
			}
		}
		if b.Quota == 0 {
			selfEnding = true
		}
		c.Beh = append(c.Beh, b)
	}
	// how the session ends
	trigs := []string{"ctx-steady", "ctx-steady", "hb-steady", "hb-steady", "hb-steady", "close-steady", "ctx-setup", "ctx-before",
		"hb-first", "close-setup", "close-join", "close-before", "part-steady", "none", "none"}
	if noSkip {
		trigs = []string{"ctx-steady", "hb-steady", "hb-steady"}
	}
	for {
		c.Trigger = trigs[r.Intn(len(trigs))]
		isClose := len(c.Trigger) > 5 && c.Trigger[:5] == "close"
		if isClose && *closed {
			continue
		}
		if c.Trigger == "none" && !selfEnding {
			continue
		}
		if isClose {
			*closed = true
		}
		break
	}
	switch c.Trigger {
	case "close-join":
		// not later than the first join that is answered ok (so that the Close always happens)
		k := len(c.Joins) + 1
		for i, v := range c.Joins {
			if v.K == "ok" {
				k = i + 1
				break
			}
		}
		c.TrigArg = 1 + r.Intn(k)
	case "hb-first":
		c.Hbs = []string{pick(r, hbTerminal)}
	case "hb-steady":
		switch r.Intn(4) {
		case 0:
			c.Hbs = []string{"drop", pick(r, hbTerminal)}
		case 1:
			c.Hbs = []string{"drop", "drop", pick(r, hbTerminal)}
		default:
			c.Hbs = []string{pick(r, hbTerminal)}
		}
		if noSkip {
			c.Hbs = []string{pick(r, hbTerminal)}
		}
		if c.Hbs[0] == "drop" {
			for i := range c.Beh {
				c.Beh[i].Mark = 0
			}
		}
	}
	switch r.Intn(8) {
	case 0:
		c.Commits = []bool{false}
	case 1:
		c.Commits = []bool{false, false, false}
	}
	for _, p := range parts {
		if r.Intn(3) == 0 {
			c.Produce = append(c.Produce, p.id())
			if r.Intn(2) == 0 {
				c.Produce = append(c.Produce, p.id())
			}
		}
	}
	return c
}

func genCase(r *rand.Rand) caseSpec {
	cs := caseSpec{Retries: r.Intn(3), HbRetries: r.Intn(2), Attempts: 1 + r.Intn(3), InitialOldest: r.Intn(2) == 0,
		Parts: genParts(r), Close: r.Intn(5) < 3, Leave: []string{"ok", "ok", "err", "drop"}[r.Intn(4)]}
	closed := false
	for i, n := 0, 1+r.Intn(3); i < n; i++ {
		cs.Calls = append(cs.Calls, genCall(r, cs.Parts, &closed, false))
	}
	return cs
}

// genNoSkip: two to four successive sessions on the same partitions; the handler marks a prefix of what it
// gets, commits sometimes fail, records are appended in between. Stored offsets start in range (or absent with
// Initial = oldest), which is the hypothesis of c07_no_skip.
func genNoSkip(r *rand.Rand) caseSpec {
	cs := caseSpec{Retries: 1, HbRetries: 1, Attempts: 1 + r.Intn(2), InitialOldest: true, Close: true, Leave: "ok"}
	np := 1 + r.Intn(3)
	for p := 0; p < np; p++ {
		lo := int64(r.Intn(2) * 2)
		hi := lo + 2 + int64(r.Intn(7))
		st := int64(-1)
		if r.Intn(2) == 0 {
			st = lo + int64(r.Intn(int(hi-lo)+1))
		}
		cs.Parts = append(cs.Parts, partSpec{Topic: 0, P: p, Oldest: lo, Newest: hi, Stored: st})
	}
	if r.Intn(3) == 0 {
		// Initial = newest is allowed when every partition already has a committed offset
		all := true
		for _, p := range cs.Parts {
			if p.Stored < 0 {
				all = false
			}
		}
		cs.InitialOldest = !all
	}
	closed := false
	for i, n := 0, 2+r.Intn(3); i < n; i++ {
		cs.Calls = append(cs.Calls, genCall(r, cs.Parts, &closed, true))
	}
	return cs
}

// genTransient: a valid committed offset strictly inside the log (so that it differs from the initial position) and a
// transient fault while the claim is opened: the claim must not be started at the initial position. A second session
// without fault resumes from the committed offset.
func genTransient(r *rand.Rand) caseSpec {
	cs := caseSpec{Retries: 1, HbRetries: 1, Attempts: 2, InitialOldest: r.Intn(3) == 0, Close: true, Leave: "ok"}
	np := 1 + r.Intn(2)
	for p := 0; p < np; p++ {
		lo := int64(r.Intn(2) * 2)
		hi := lo + 4 + int64(r.Intn(6))
		cs.Parts = append(cs.Parts, partSpec{Topic: 0, P: p, Oldest: lo, Newest: hi, Stored: lo + 1 + int64(r.Intn(int(hi-lo)-1))})
	}
	closed := true
	c := genCall(r, cs.Parts, &closed, true)
	k := "notleader"
	if np == 1 && r.Intn(3) == 0 {
		k = "drop"
	}
	w := [][2]int{{0, 2}, {0, 2}, {0, 2}, {0, 4}}[r.Intn(4)]
	c.Faults = []faultSpec{{P: c.Plan[r.Intn(len(c.Plan))], From: w[0], To: w[1], Kind: k}}
	c.Trigger, c.Hbs = []string{"ctx-steady", "none", "none"}[r.Intn(3)], nil
	cs.Calls = []callSpec{c, genCall(r, cs.Parts, &closed, true)}
	return cs
}

// genErrPath: Consumer.Return.Errors with a tiny channel buffer, the leader answers some fetches with a partition-level
// error that the consumer reports to the user, the application reads Errors() or not, then one of the five session-end
// causes. The life-cycle must complete either way.
func genErrPath(r *rand.Rand) caseSpec {
	cs := caseSpec{Retries: 1, HbRetries: 1, Attempts: 2, InitialOldest: true, Close: true, Leave: "ok",
		ReturnErrors: true, ChanBuf: r.Intn(2), ReadErrors: r.Intn(2) == 0}
	np := 1 + r.Intn(2)
	for p := 0; p < np; p++ {
		lo := int64(0)
		hi := lo + 2 + int64(r.Intn(8))
		st := int64(-1)
		if r.Intn(2) == 0 {
			st = lo + int64(r.Intn(int(hi-lo)))
		}
		cs.Parts = append(cs.Parts, partSpec{Topic: 0, P: p, Oldest: lo, Newest: hi, Stored: st})
	}
	c := callSpec{SetupOK: true, CleanupOK: true}
	for _, p := range cs.Parts {
		c.Plan = append(c.Plan, p.id())
		c.Beh = append(c.Beh, behSpec{P: p.id(), Quota: -1, Mark: r.Intn(3)})
	}
	w := [][2]int{{0, 1}, {1, 2}, {0, 2}, {1, 3}, {0, 3}}[r.Intn(5)]
	c.FetchErrs = []faultSpec{{P: c.Plan[r.Intn(len(c.Plan))], From: w[0], To: w[1]}}
	switch r.Intn(6) {
	case 0:
		c.Trigger = "ctx-steady"
	case 1:
		c.Trigger, c.Hbs = "hb-steady", []string{"rebalance"}
	case 2:
		c.Trigger, c.Hbs = "hb-steady", []string{pick(r, []string{"unknown", "illegal"})}
	case 3:
		c.Trigger = "close-steady"
	case 4:
		c.Trigger = "part-steady"
	default: // a claim ends: one handler returns after two records
		c.Trigger = "none"
		start := cs.Parts[0].Stored
		if start < 0 {
			start = cs.Parts[0].Oldest
		}
		q := int(cs.Parts[0].Newest - start) // what the log holds from the start offset (>= 1)
		if q > 2 {
			q = 2
		}
		c.Beh[0].Quota = q
		if c.Beh[0].Mark > q {
			c.Beh[0].Mark = q
		}
	}
	cs.Calls = []callSpec{c}
	return cs
}

// genPomErr: the offset managers' error path: Return.Errors with a tiny buffer, commits of the final flush (and a Commit()
// made by a handler) refused 1..Retry.Max+1 times with an error the offset manager reports, Errors() read or not, then one
// of the session-end causes. The final flush must not wait for the application.
func genPomErr(r *rand.Rand) caseSpec {
	cs := caseSpec{Retries: 1, HbRetries: 1, Attempts: 1 + r.Intn(3), InitialOldest: true, Close: true, Leave: "ok",
		ReturnErrors: true, ChanBuf: r.Intn(2), ReadErrors: r.Intn(2) == 0}
	np := 1 + r.Intn(2)
	for p := 0; p < np; p++ {
		hi := int64(2 + r.Intn(6))
		st := int64(-1)
		if r.Intn(2) == 0 {
			st = int64(r.Intn(int(hi)))
		}
		cs.Parts = append(cs.Parts, partSpec{Topic: 0, P: p, Oldest: 0, Newest: hi, Stored: st})
	}
	c := callSpec{SetupOK: true, CleanupOK: true, Reported: true, MidCommit: r.Intn(3) == 0}
	for _, p := range cs.Parts {
		c.Plan = append(c.Plan, p.id())
		c.Beh = append(c.Beh, behSpec{P: p.id(), Quota: -1, Mark: 1 + r.Intn(2)})
	}
	for i, n := 0, 1+r.Intn(cs.Attempts); i < n; i++ {
		c.Commits = append(c.Commits, false)
	}
	switch r.Intn(6) {
	case 0:
		c.Trigger = "ctx-steady"
	case 1:
		c.Trigger, c.Hbs = "hb-steady", []string{"rebalance"}
	case 2:
		c.Trigger, c.Hbs = "hb-steady", []string{pick(r, []string{"unknown", "illegal"})}
	case 3:
		c.Trigger = "close-steady"
	case 4:
		c.Trigger = "part-steady"
	default:
		c.Trigger = "none"
		c.Beh[0].Quota, c.Beh[0].Mark = 1, 1
	}
	cs.Calls = []callSpec{c}
	return cs
}

// enumerated coordinator scripts: every sequence of length <= maxLen over the join verdict classes, each
// followed by the default (ok) answers, combined with a sync script of the remaining length.
func enumScripts(maxLen int) [][2][]string {
	classes := append([]string{"ok-leader", "ok"}, joinBad...)
	var out [][2][]string
	var rec func(j []string, n int)
	rec = func(j []string, n int) {
		for sl := 0; sl+len(j) <= n && sl <= 2; sl++ {
			var recS func(s []string)
			recS = func(s []string) {
				if len(s) == sl {
					out = append(out, [2][]string{append([]string(nil), j...), append([]string(nil), s...)})
					return
				}
				for _, k := range joinBad {
					recS(append(s, k))
				}
			}
			recS(nil)
		}
		if len(j) == n {
			return
		}
		for _, k := range classes {
			rec(append(j, k), n)
		}
	}
	rec(nil, maxLen)
	return out
}

func scriptCase(r *rand.Rand, sc [2][]string) caseSpec {
	cs := caseSpec{Retries: r.Intn(3), HbRetries: 1, Attempts: 2, InitialOldest: r.Intn(2) == 0, Parts: genParts(r), Close: true, Leave: "ok"}
	closed := true // no Close triggers here
	c := genCall(r, cs.Parts, &closed, false)
	c.Joins, c.Syncs, c.Coords = nil, nil, nil
	for _, k := range sc[0] {
		switch k {
		case "ok-leader":
			c.Joins = append(c.Joins, jv{K: "ok", Leader: true})
		default:
			c.Joins = append(c.Joins, jv{K: k})
		}
	}
	for _, k := range sc[1] {
		c.Syncs = append(c.Syncs, sv{K: k})
	}
	cs.Calls = []callSpec{c}
	if r.Intn(2) == 0 {
		cs.Calls = append(cs.Calls, genCall(r, cs.Parts, &closed, false))
	}
	return cs
}
