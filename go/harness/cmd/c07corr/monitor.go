package main

import (
	"fmt"

	cf "verifharness/internal/coqfmt"
)

// monitor: the property evaluated directly on what the implementation did (handler call log +
// coordinator request log). Independent of the Coq model.
func monitor(cs caseSpec, o obs) *cf.Monitor {
	fail := func(sig, f string, a ...interface{}) *cf.Monitor {
		return &cf.Monitor{Signature: sig, What: fmt.Sprintf(f, a...)}
	}
	if o.CloseHung {
		return fail("close:did-not-return", "Close did not return within %v", consumeBound)
	}
	initial := int64(-1)
	if cs.InitialOldest {
		initial = -2
	}
	expectMember := int64(0) // member id the next JoinGroup has to carry
	// no-skip bookkeeping
	delivered := map[int64]map[int64]bool{}
	firstStart := map[int64]int64{}
	maxDel := map[int64]int64{}
	hyp := map[int64]bool{}
	for _, p := range cs.Parts {
		hyp[p.id()] = (p.Stored < 0 && cs.InitialOldest) || (p.Stored >= p.Oldest && p.Stored <= p.Newest)
		delivered[p.id()] = map[int64]bool{}
	}
	finalStore := map[int64]int64{}
	for _, p := range cs.Parts {
		if p.Stored >= 0 {
			finalStore[p.id()] = p.Stored
		}
	}

	for ci := range cs.Calls {
		if ci >= len(o.Calls) {
			break
		}
		call, co := cs.Calls[ci], o.Calls[ci]
		if co.Hung {
			return fail("consume:did-not-return", "call %d: Consume did not return within %v (trigger %s)", ci, consumeBound, call.Trigger)
		}
		var seg []ev
		for _, x := range o.Log {
			if x.Call == ci {
				seg = append(seg, x)
			}
		}
		nSetup, nCleanup, returned := 0, 0, false
		started, rets := map[int64]int{}, map[int64]int{}
		startOff, nDel, fetched := map[int64]int64{}, map[int64]int{}, map[int64]int64{}
		var assigned []int64
		haveSession, fetchFailed := false, false
		var sess, issued [2]int64
		ji, si, fi, nCommit := 0, 0, 0, 0
		commitOK := false
		for _, x := range seg {
			// "err"/"perr" are logged by the APPLICATION's reader of group.Errors() when it takes the error out of the
			// channel; the error was handed over during the session, when the reader gets to log it is its own scheduling
			if returned && x.K != "leave" && x.K != "err" && x.K != "perr" {
				return fail("hooks:event-after-consume-returned", "call %d: %s after Consume returned", ci, x.K)
			}
			switch x.K {
			case "join":
				if x.M != expectMember {
					return fail("identity:join-member", "call %d: JoinGroup carries member %d, expected %d", ci, x.M, expectMember)
				}
				if ji < len(co.Joins) {
					v := co.Joins[ji]
					switch v.K {
					case "ok":
						issued = [2]int64{v.M, v.G}
						expectMember = v.M
					case "unknown", "illegal":
						expectMember = 0
					}
				}
				ji++
			case "sync":
				if [2]int64{x.M, x.G} != issued {
					return fail("identity:sync", "call %d: SyncGroup carries (%d,%d), the join issued (%d,%d)", ci, x.M, x.G, issued[0], issued[1])
				}
				if si < len(co.Syncs) {
					v := co.Syncs[si]
					switch v.K {
					case "ok":
						sess, haveSession, assigned = issued, true, v.Plan
					case "unknown", "illegal":
						expectMember = 0
					}
				}
				si++
			case "hb":
				if !haveSession || [2]int64{x.M, x.G} != sess {
					return fail("identity:heartbeat", "call %d: Heartbeat carries (%d,%d), session is (%d,%d)", ci, x.M, x.G, sess[0], sess[1])
				}
			case "fetchoff":
				if _, dup := fetched[x.P]; dup {
					fetchFailed = true // the plan names the partition twice: ManagePartition refuses the second one
				}
				fetched[x.P] = x.Stored
				if fi < len(co.Fetches) && !co.Fetches[fi] {
					fetchFailed = true
				}
				fi++
			case "commit":
				if !haveSession || [2]int64{x.M, x.G} != sess {
					return fail("identity:commit", "call %d: OffsetCommit carries (%d,%d), session is (%d,%d)", ci, x.M, x.G, sess[0], sess[1])
				}
				if nSetup > 0 && nCleanup == 0 {
					return fail("hooks:commit-before-cleanup", "call %d: final commit before Cleanup", ci)
				}
				// contents: the marked offsets
				want := map[int64]int64{}
				for p, n := range nDel {
					m := call.behOf(p).Mark
					if n < m {
						m = n
					}
					if m > 0 && startOff[p]+int64(m) > fetched[p] {
						want[p] = startOff[p] + int64(m)
					}
				}
				if !commitOK {
					got := map[int64]int64{}
					for _, b := range x.B {
						got[b[0]] = b[1]
					}
					if fmt.Sprint(got) != fmt.Sprint(want) {
						return fail("commit:contents", "call %d: final commit carries %v, marked %v", ci, got, want)
					}
				}
				if nCommit < len(co.Commits) && co.Commits[nCommit] {
					commitOK = true
					for _, b := range x.B {
						finalStore[b[0]] = b[1]
					}
				}
				nCommit++
				if nCommit > cs.Attempts {
					return fail("commit:retries", "call %d: %d commit requests, Retry.Max+1 = %d", ci, nCommit, cs.Attempts)
				}
			case "midcommit":
				if !haveSession || [2]int64{x.M, x.G} != sess {
					return fail("identity:commit", "call %d: OffsetCommit (handler's Commit) carries (%d,%d), session is (%d,%d)", ci, x.M, x.G, sess[0], sess[1])
				}
			case "leave":
				if x.M != expectMember || x.M == 0 {
					return fail("identity:leave", "LeaveGroup carries member %d, expected %d", x.M, expectMember)
				}
				if cs.Leave != "drop" {
					expectMember = 0
				}
			case "setup":
				nSetup++
				if nSetup > 1 {
					return fail("hooks:setup-twice", "call %d: Setup called twice", ci)
				}
				if len(started) > 0 {
					return fail("hooks:claim-before-setup", "call %d: ConsumeClaim before Setup", ci)
				}
			case "start":
				if nSetup == 0 {
					return fail("hooks:claim-before-setup", "call %d: ConsumeClaim(%d) before Setup", ci, x.P)
				}
				if nCleanup > 0 {
					return fail("hooks:claim-after-cleanup", "call %d: ConsumeClaim(%d) after Cleanup", ci, x.P)
				}
				started[x.P]++
				if started[x.P] > 1 {
					return fail("hooks:claim-twice", "call %d: two ConsumeClaim calls for partition %d", ci, x.P)
				}
				if !has(assigned, x.P) {
					return fail("hooks:claim-unassigned", "call %d: ConsumeClaim for unassigned partition %d", ci, x.P)
				}
				want := initial
				if x.Stored >= 0 && x.Stored >= x.Oldest && x.Stored <= x.Newest {
					want = x.Stored
				}
				if x.Off != want {
					return fail("start:offset", "call %d partition %d: InitialOffset %d, committed %d, log [%d,%d], initial %d", ci, x.P, x.Off, x.Stored, x.Oldest, x.Newest, initial)
				}
				s := x.Off
				if s == -1 {
					s = x.Newest
				} else if s == -2 {
					s = x.Oldest
				}
				startOff[x.P] = s
				if _, ok := firstStart[x.P]; !ok {
					firstStart[x.P] = s
				} else if hyp[x.P] && s > maxDel[x.P]+1 && len(delivered[x.P]) > 0 {
					return fail("noskip:gap", "call %d partition %d: session starts at %d, previous sessions delivered up to %d", ci, x.P, s, maxDel[x.P])
				}
			case "deliver":
				if started[x.P] == 0 || rets[x.P] > 0 {
					return fail("hooks:delivery-outside-claim", "call %d: record %d of partition %d outside ConsumeClaim", ci, x.Off, x.P)
				}
				if x.Off != startOff[x.P]+int64(nDel[x.P]) {
					return fail("start:first-delivery", "call %d partition %d: delivered offset %d, expected %d", ci, x.P, x.Off, startOff[x.P]+int64(nDel[x.P]))
				}
				nDel[x.P]++
				delivered[x.P][x.Off] = true
				if x.Off > maxDel[x.P] || len(delivered[x.P]) == 1 {
					maxDel[x.P] = x.Off
				}
			case "ret":
				rets[x.P]++
			case "cleanup":
				nCleanup++
				if nCleanup > 1 {
					return fail("hooks:cleanup-twice", "call %d: Cleanup called twice", ci)
				}
				if nSetup == 0 {
					return fail("hooks:cleanup-without-setup", "call %d: Cleanup without Setup", ci)
				}
				for p := range started {
					if rets[p] == 0 {
						return fail("hooks:cleanup-before-claims-returned", "call %d: Cleanup while ConsumeClaim(%d) is running", ci, p)
					}
				}
			case "return":
				returned = true
			}
		}
		if haveSession && !fetchFailed && nSetup != 1 {
			return fail("hooks:no-setup", "call %d: session opened but Setup ran %d times", ci, nSetup)
		}
		if nSetup == 1 && nCleanup != 1 {
			return fail("hooks:no-cleanup", "call %d: Setup ran but Cleanup ran %d times", ci, nCleanup)
		}
		if nSetup == 1 && call.SetupOK && len(call.NoCreate) == 0 && len(call.Faults) == 0 {
			switch call.Trigger {
			case "none", "ctx-steady", "hb-steady", "close-steady", "part-steady":
				for _, p := range assigned {
					if started[p] != 1 {
						return fail("hooks:claim-missing", "call %d: no ConsumeClaim for assigned partition %d although the session was not ending", ci, p)
					}
				}
			case "ctx-before", "ctx-setup", "close-setup", "close-join":
				for p := range started {
					return fail("hooks:claim-started-after-end", "call %d: ConsumeClaim(%d) started although the session had ended before the claims were spawned", ci, p)
				}
			}
		}
		// the marked offsets are committed at the end of the session (when there is something to commit and an attempt is allowed)
		if nSetup == 1 && nCleanup == 1 && nCommit == 0 {
			for p, n := range nDel {
				m := call.behOf(p).Mark
				if n < m {
					m = n
				}
				if m > 0 && startOff[p]+int64(m) > fetched[p] {
					return fail("commit:missing", "call %d: partition %d marked up to %d but no final commit was sent", ci, p, startOff[p]+int64(m))
				}
			}
		}
	}
	// errors of a partition consumer reach Errors() when the application reads it (with room for one error the first is never dropped)
	closeRace := false // handleError drops errors once Close has been called: an error served around a Close trigger may be dropped
	for _, c := range cs.Calls {
		if len(c.Trigger) > 5 && c.Trigger[:5] == "close" {
			closeRace = true
		}
	}
	if cs.ReturnErrors && cs.ReadErrors && cs.ChanBuf >= 1 && !closeRace {
		served, read := map[int64]int{}, map[int64]int{}
		for _, x := range o.Log {
			switch x.K {
			case "fetcherr":
				served[x.P]++
			case "err":
				read[x.P]++
			}
		}
		pserved, pread := 0, 0
		for _, x := range o.Log {
			switch x.K {
			case "pomerr":
				pserved++
			case "perr":
				pread++
			}
		}
		if pserved > 0 && pread == 0 {
			return fail("errors:commit-error-not-delivered", "%d commit blocks were refused with a reported error, none arrived on Errors() although it was read", pserved)
		}
		for p, n := range served {
			if n > 0 && read[p] == 0 {
				return fail("errors:not-delivered", "partition %d: %d fetch errors were reported by the consumer, none arrived on Errors() although it was read", p, n)
			}
		}
	}
	for _, p := range cs.Parts {
		id := p.id()
		fs, ok := firstStart[id]
		if !ok || !hyp[id] {
			continue
		}
		if c, ok := finalStore[id]; ok {
			for o2 := fs; o2 < c; o2++ {
				if !delivered[id][o2] {
					return fail("noskip:committed-but-never-delivered", "partition %d: offset %d is below the committed offset %d, the first session started at %d, and it was never delivered", id, o2, c, fs)
				}
			}
		}
	}
	return nil
}

func (c callSpec) behOf(p int64) behSpec {
	for _, b := range c.Beh {
		if b.P == p {
			return b
		}
	}
	return behSpec{P: p, Quota: -1}
}
