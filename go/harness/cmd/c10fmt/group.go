package main

// Group-protocol entry points that decode data written by OTHER members of the consumer group:
// JoinGroupResponse.GetMembers, SyncGroupResponse.GetMemberAssignment, deserializeTopicPartitionAssignment.
// Multi-member responses are generated in which each member's blob is valid / null / empty / truncated / garbage;
// every response goes through the wire (encode, versionedDecode) and the entry point is called repeatedly, because
// the order in which GetMembers visits the members is the map's.  Monitor, per member and independent of the model:
// the result for a member equals the decode of that member's own bytes into a fresh value, or the whole call fails.

import (
	"encoding/hex"
	"fmt"
	"math/rand"
	"reflect"
	"sort"

	cf "verifharness/internal/coqfmt"
	w2 "verifharness/internal/wire2"

	"github.com/Shopify/sarama"
)

type blobKind int

const (
	bValid blobKind = iota
	bNull
	bEmpty
	bTrunc
	bGarbage
	bTrailing
)

var blobNames = []string{"valid", "null", "empty", "truncated", "garbage", "trailing"}

type gmember struct {
	ID   string `json:"id"`
	Kind string `json:"kind"`
	Blob string `json:"blob"` // hex, "nil" for a null blob
	blob []byte
}

type gcase struct {
	Entry   string    `json:"entry"`
	Members []gmember `json:"members"`
	Rounds  int       `json:"rounds"`
	Class   int       `json:"class"`
}

func rowByName(tbl *w2.Table, name string) *w2.Row {
	for _, r := range tbl.Rows {
		if r.Name == name {
			return r
		}
	}
	return nil
}

// a blob of the given kind for the named data type
func makeBlob(r *rand.Rand, row *w2.Row, kind blobKind) []byte {
	prof := w2.PRandom
	if r.Intn(4) == 0 {
		prof = w2.PMax
	}
	body := w2.NewValue(row, 0, r, prof)
	raw, _, _, err, pan := sarama.VerifWire2Encode(body)
	if err != nil || pan != nil {
		raw = []byte{0, 0, 0, 0, 0, 0}
	}
	switch kind {
	case bNull:
		return nil
	case bEmpty:
		return []byte{}
	case bTrunc:
		if len(raw) > 1 {
			return append([]byte{}, raw[:1+r.Intn(len(raw)-1)]...)
		}
		return []byte{}
	case bGarbage:
		g := make([]byte, 1+r.Intn(24))
		r.Read(g)
		return g
	case bTrailing:
		return append(append([]byte{}, raw...), byte(r.Intn(256)))
	}
	return append([]byte{}, raw...)
}

// what decoding this member's own bytes into a fresh value gives (nil tree = error)
func ownDecode(typeName string, blob []byte) (*w2.Tree, bool) {
	fresh := w2.NewBody(typeName)
	var err error
	var pan interface{}
	if blob == nil {
		// decode(nil, in) returns without touching in: the zero value
		return w2.DumpBody(fresh), true
	}
	err, pan = sarama.VerifWire2Decode(fresh, blob, 0)
	if err != nil || pan != nil {
		return nil, false
	}
	return w2.DumpBody(fresh), true
}

func blobCoq(b []byte) string {
	if b == nil {
		return "None"
	}
	return "(Some " + cf.Bytes(b) + ")"
}

func keyTree(id string) *w2.Tree { return &w2.Tree{K: 'b', B: []byte(id)} }

func masksList(rows ...*w2.Row) string {
	out := make([]string, len(rows))
	for i, r := range rows {
		out[i] = masksCoq(r.Masks["0"])
	}
	return cf.List(out)
}

func masksCoq(ms [][]int) string {
	out := make([]string, len(ms))
	for i, m := range ms {
		z := make([]int64, len(m))
		for j, x := range m {
			z[j] = int64(x)
		}
		out[i] = cf.ZList(z)
	}
	return cf.List(out)
}

func groupTerm(kind int, rows []*w2.Row, members []gmember, class int, result []string) string {
	idx := make([]string, len(rows))
	for i, r := range rows {
		idx[i] = cf.Nat(r.Index)
	}
	ms := make([]string, len(members))
	for i, m := range members {
		ms[i] = "(" + keyTree(m.ID).Coq() + ", " + blobCoq(m.blob) + ")"
	}
	return fmt.Sprintf("{| g_kind := %d; g_rows := %s; g_members := %s; g_class := %d; g_result := %s; g_masks := %s |}",
		kind, cf.List(idx), cf.List(ms), class, cf.List(result), masksList(rows...))
}

func runGroup(out string, tbl *w2.Table, seed int64, n, rounds int, stats map[string]int) *cf.Writer {
	w := &cf.Writer{Dir: out, Prefix: "cases_c10grp", ShardSize: 300,
		Imports:    "From SV Require Import WireFmt.Format WireFmt.Corr.\nFrom SVB Require Import GenFormats.",
		CaseType:   "c10gcase",
		MismatchFn: "mismatches_10g gen_cfg gen_table"}
	meta := rowByName(tbl, "ConsumerGroupMemberMetadata")
	asg := rowByName(tbl, "ConsumerGroupMemberAssignment")
	s1, s0 := rowByName(tbl, "StickyAssignorUserDataV1"), rowByName(tbl, "StickyAssignorUserDataV0")
	if meta == nil || asg == nil || s1 == nil || s0 == nil {
		fmt.Println("MISSING-CONSTRUCTOR group-protocol rows")
		return w
	}
	for i := 0; i < n; i++ {
		r := rand.New(rand.NewSource(seed*7368787 + int64(i)))
		joinCase(w, meta, r, i, rounds, stats)
	}
	for i := 0; i < n; i++ {
		r := rand.New(rand.NewSource(seed*15485863 + int64(i)))
		syncCases(w, asg, r, i, stats)
		stickyCases(w, s1, s0, r, i, stats)
	}
	return w
}

// one JoinGroup response with 2..8 members
func joinCase(w *cf.Writer, meta *w2.Row, r *rand.Rand, i, rounds int, stats map[string]int) {
	k := 2 + r.Intn(7)
	var members []gmember
	// the first cases are the shapes that matter most: exactly one null / empty among valid blobs, all valid, all null
	for m := 0; m < k; m++ {
		kind := bValid
		switch {
		case i%6 == 0: // one null member among valid ones
			if m == 0 {
				kind = bNull
			}
		case i%6 == 1: // several null members, one valid
			if m != 0 {
				kind = bNull
			}
		case i%6 == 2: // valid and null mixed
			if r.Intn(2) == 0 {
				kind = bNull
			}
		case i%6 == 3: // anything except failures
			kind = []blobKind{bValid, bValid, bNull}[r.Intn(3)]
		default: // anything, failures included
			kind = blobKind(r.Intn(6))
		}
		id := fmt.Sprintf("member-%d-%d", r.Intn(1000), m)
		b := makeBlob(r, meta, kind)
		members = append(members, gmember{ID: id, Kind: blobNames[kind], blob: b})
	}
	r.Shuffle(len(members), func(a, b int) { members[a], members[b] = members[b], members[a] })
	sort.Slice(members, func(a, b int) bool { return members[a].ID < members[b].ID })
	for m := range members {
		members[m].Blob = "nil"
		if members[m].blob != nil {
			members[m].Blob = hex.EncodeToString(members[m].blob)
		}
	}
	// expected, member by member, from that member's own bytes
	want := map[string]*w2.Tree{}
	allOK := true
	for _, m := range members {
		t, ok := ownDecode("ConsumerGroupMemberMetadata", m.blob)
		if !ok {
			allOK = false
		}
		want[m.ID] = t
	}
	info := gcase{Entry: "GetMembers", Members: members, Rounds: rounds}
	var mon *cf.Monitor
	fail := func(kind, what string) {
		if mon == nil {
			mon = &cf.Monitor{Signature: "c10:" + kind + ":GetMembers", What: what}
		}
	}
	class := -1
	var result []string
	for round := 0; round < rounds && mon == nil; round++ {
		// through the wire, with the members inserted in a different order each round
		resp := &sarama.JoinGroupResponse{Version: int16(round % 3), GenerationId: 7, GroupProtocol: "range", LeaderId: members[0].ID, MemberId: members[0].ID}
		resp.Members = map[string][]byte{}
		perm := r.Perm(len(members))
		for _, p := range perm {
			resp.Members[members[p].ID] = members[p].blob
		}
		raw, _, _, err, pan := sarama.VerifWire2Encode(resp)
		if err != nil || pan != nil {
			fail("group-encode", fmt.Sprintf("cannot encode the join-group response: %v %v", err, pan))
			break
		}
		got := &sarama.JoinGroupResponse{}
		if err, pan := sarama.VerifWire2Decode(got, raw, resp.Version); err != nil || pan != nil {
			fail("group-decode", fmt.Sprintf("cannot decode the join-group response: %v %v", err, pan))
			break
		}
		res, gerr, gpan := getMembers(got)
		switch {
		case gpan != nil:
			class = 2
			fail("panic", fmt.Sprintf("GetMembers panicked: %v", gpan))
		case gerr != nil:
			class = 1
			if allOK {
				fail("group-spurious-error", fmt.Sprintf("GetMembers failed (%v) although every member's metadata decodes on its own", gerr))
			}
		default:
			class = 0
			if !allOK {
				fail("group-error-swallowed", "GetMembers returned a value although a member's metadata does not decode on its own")
				break
			}
			if len(res) != len(members) {
				fail("cross-member-leak", fmt.Sprintf("GetMembers returned %d members for %d", len(res), len(members)))
				break
			}
			result = result[:0]
			for _, m := range members {
				gm, ok := res[m.ID]
				if !ok {
					fail("cross-member-leak", "member "+m.ID+" missing from the result")
					break
				}
				t := w2.Dump(reflect.ValueOf(&gm).Elem())
				if t.Coq() != want[m.ID].Coq() {
					fail("cross-member-leak", fmt.Sprintf("round %d: member %s (%s metadata) was given %s, its own bytes decode to %s",
						round, m.ID, m.Kind, clip(t.Coq()), clip(want[m.ID].Coq())))
					break
				}
				result = append(result, "("+keyTree(m.ID).Coq()+", "+t.Coq()+")")
			}
		}
	}
	info.Class = class
	stats[fmt.Sprintf("group-GetMembers-class%d", class)]++
	if mon != nil {
		stats["group-monitor-failures"]++
	}
	if class < 0 {
		class = 1
	}
	w.Add(groupTerm(0, []*w2.Row{meta}, members, class, result),
		cf.Sidecar{Case: info, Kind: "GetMembers", Nontrivial: len(members) >= 2, Monitor: mon})
}

func clip(s string) string {
	if len(s) > 300 {
		return s[:300] + "..."
	}
	return s
}

func getMembers(r *sarama.JoinGroupResponse) (res map[string]sarama.ConsumerGroupMemberMetadata, err error, pan interface{}) {
	defer func() {
		if x := recover(); x != nil {
			pan = x
		}
	}()
	res, err = r.GetMembers()
	return
}

func getAssignment(r *sarama.SyncGroupResponse) (res *sarama.ConsumerGroupMemberAssignment, err error, pan interface{}) {
	defer func() {
		if x := recover(); x != nil {
			pan = x
		}
	}()
	res, err = r.GetMemberAssignment()
	return
}

// a sequence of sync-group responses: each call must depend on its own blob only (also across calls)
func syncCases(w *cf.Writer, asg *w2.Row, r *rand.Rand, i int, stats map[string]int) {
	for j := 0; j < 4; j++ {
		kind := blobKind(r.Intn(6))
		if j%2 == 1 {
			kind = bNull
		}
		blob := makeBlob(r, asg, kind)
		m := gmember{ID: "self", Kind: blobNames[kind], blob: blob, Blob: "nil"}
		if blob != nil {
			m.Blob = hex.EncodeToString(blob)
		}
		want, ok := ownDecode("ConsumerGroupMemberAssignment", blob)
		resp := &sarama.SyncGroupResponse{MemberAssignment: blob}
		raw, _, _, _, _ := sarama.VerifWire2Encode(resp)
		got := &sarama.SyncGroupResponse{}
		var mon *cf.Monitor
		class := 1
		var result []string
		if err, pan := sarama.VerifWire2Decode(got, raw, 0); err != nil || pan != nil {
			mon = &cf.Monitor{Signature: "c10:group-decode:GetMemberAssignment", What: fmt.Sprintf("cannot decode the sync-group response: %v %v", err, pan)}
		} else {
			res, gerr, gpan := getAssignment(got)
			switch {
			case gpan != nil:
				class = 2
				mon = &cf.Monitor{Signature: "c10:panic:GetMemberAssignment", What: fmt.Sprintf("GetMemberAssignment panicked: %v", gpan)}
			case gerr != nil:
				class = 1
				if ok {
					mon = &cf.Monitor{Signature: "c10:group-spurious-error:GetMemberAssignment", What: fmt.Sprintf("failed (%v) although the assignment decodes on its own", gerr)}
				}
			default:
				class = 0
				t := w2.DumpBody(res)
				if !ok {
					mon = &cf.Monitor{Signature: "c10:group-error-swallowed:GetMemberAssignment", What: "returned a value although the assignment does not decode on its own"}
				} else if t.Coq() != want.Coq() {
					mon = &cf.Monitor{Signature: "c10:cross-member-leak:GetMemberAssignment",
						What: fmt.Sprintf("%s assignment decoded as %s, its own bytes decode to %s", m.Kind, clip(t.Coq()), clip(want.Coq()))}
				}
				result = []string{"(" + keyTree("self").Coq() + ", " + t.Coq() + ")"}
			}
		}
		stats[fmt.Sprintf("group-GetMemberAssignment-class%d", class)]++
		w.Add(groupTerm(1, []*w2.Row{asg}, []gmember{m}, class, result),
			cf.Sidecar{Case: gcase{Entry: "GetMemberAssignment", Members: []gmember{m}, Rounds: 1, Class: class}, Kind: "GetMemberAssignment", Nontrivial: len(blob) > 0, Monitor: mon})
	}
}

// sticky user data written by another member: V1, else V0
func stickyCases(w *cf.Writer, s1, s0 *w2.Row, r *rand.Rand, i int, stats map[string]int) {
	for j := 0; j < 4; j++ {
		kind := blobKind(r.Intn(6))
		row := s1
		if r.Intn(2) == 0 {
			row = s0
		}
		blob := makeBlob(r, row, kind)
		m := gmember{ID: "peer", Kind: blobNames[kind] + "/" + row.Name, blob: blob, Blob: "nil"}
		if blob != nil {
			m.Blob = hex.EncodeToString(blob)
		}
		// own decode: V1 into a fresh value, else V0 into a fresh value
		tag := 1
		want, ok := ownDecode("StickyAssignorUserDataV1", blob)
		if !ok {
			tag = 0
			want, ok = ownDecode("StickyAssignorUserDataV0", blob)
		}
		data, err, pan := sarama.VerifWire2StickyUserData(blob)
		var mon *cf.Monitor
		class := 1
		var result []string
		switch {
		case pan != nil:
			class = 2
			mon = &cf.Monitor{Signature: "c10:panic:StickyUserData", What: fmt.Sprintf("deserializeTopicPartitionAssignment panicked: %v", pan)}
		case err != nil:
			if ok {
				mon = &cf.Monitor{Signature: "c10:group-spurious-error:StickyUserData", What: fmt.Sprintf("failed (%v) although the user data decodes on its own", err)}
			}
		default:
			class = 0
			gotTag := 0
			if _, isV1 := data.(*sarama.StickyAssignorUserDataV1); isV1 {
				gotTag = 1
			}
			t := w2.DumpBody(data)
			mrow := s0
			if gotTag == 1 {
				mrow = s1
			}
			if !ok {
				mon = &cf.Monitor{Signature: "c10:group-error-swallowed:StickyUserData", What: "returned a value although the user data does not decode on its own"}
			} else if gotTag != tag || maskedTree(mrow, t) != maskedTree(mrow, want) {
				mon = &cf.Monitor{Signature: "c10:cross-member-leak:StickyUserData",
					What: fmt.Sprintf("%s user data decoded as V%d %s, its own bytes decode to V%d %s", m.Kind, gotTag, clip(t.Coq()), tag, clip(want.Coq()))}
			}
			result = []string{fmt.Sprintf("(%s, (VStruct [(VInt %d); %s]))", keyTree("peer").Coq(), gotTag, t.Coq())}
		}
		stats[fmt.Sprintf("group-StickyUserData-class%d", class)]++
		w.Add(groupTerm(2, []*w2.Row{s1, s0}, []gmember{m}, class, result),
			cf.Sidecar{Case: gcase{Entry: "StickyUserData", Members: []gmember{m}, Rounds: 1, Class: class}, Kind: "StickyUserData", Nontrivial: len(blob) > 0, Monitor: mon})
	}
}

func maskedTree(row *w2.Row, t *w2.Tree) string {
	c := cloneTree(t)
	for _, m := range row.Masks["0"] {
		maskTree(c, m)
	}
	return c.Coq()
}

func cloneTree(t *w2.Tree) *w2.Tree {
	c := *t
	c.L = nil
	for _, x := range t.L {
		c.L = append(c.L, cloneTree(x))
	}
	return &c
}

func maskTree(t *w2.Tree, p []int) {
	if len(p) == 0 {
		*t = w2.Tree{K: 'i'}
		return
	}
	if p[0] < 0 {
		if t.K == 'l' {
			for _, e := range t.L {
				maskTree(e, p[1:])
			}
		}
		return
	}
	if t.K == 's' && p[0] < len(t.L) {
		maskTree(t.L[p[0]], p[1:])
	}
}
