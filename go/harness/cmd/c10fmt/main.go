// c10fmt: malformed input for the decoders of data the client does not control (every *Response body and the
// group-member data types).  Valid encodings of generated values are mutated (truncations, bit flips in the first
// 64 bytes, every count/length field set to -1, 0, 2^31-1 and remainder+1), the witnesses the format model computes
// for its unguarded collections are added, and every input is decoded by the implementation in a memory-capped
// subprocess that recovers panics per input.  The outcome class (0 value, 1 error, 2 panic, 3 out of memory, 4 hang)
// goes to Coq cases for SV.WireFmt.Corr.ok10; a class above 1 is a failure of the property itself (monitor).
package main

import (
	"bufio"
	"encoding/binary"
	"encoding/hex"
	"flag"
	"fmt"
	"io"
	"math/rand"
	"os"
	"os/exec"
	"regexp"
	"strconv"
	"strings"
	"syscall"
	"time"

	cf "verifharness/internal/coqfmt"
	w2 "verifharness/internal/wire2"

	"github.com/Shopify/sarama"
)

type input struct {
	row    *w2.Row
	v      int64
	bytes  []byte
	origin string
	label  string // witness: the collection it attacks
	class  int
	frame  string
}

type caseInfo struct {
	Body   string `json:"body"`
	V      int64  `json:"v"`
	Origin string `json:"origin"`
	Bytes  string `json:"bytes"`
	Class  int    `json:"class"`
	Frame  string `json:"frame,omitempty"`
}

func main() {
	out := flag.String("out", ".", "output directory")
	seed := flag.Int64("seed", 1, "seed")
	n := flag.Int("n", 2, "valid values per body and version")
	flips := flag.Int("flips", 12, "bit flips per value")
	truncs := flag.Int("truncs", 40, "prefixes per value")
	nmarks := flag.Int("marks", 14, "count/length fields attacked per value")
	table := flag.String("table", "", "wiregen.json")
	witness := flag.String("witness", "", "file with model-computed witnesses: label rowindex version hex")
	worker := flag.Bool("worker", false, "internal: decode the inputs given on stdin")
	capBytes := flag.Int64("cap", 1<<30, "address-space cap of the decoding subprocess (bytes)")
	only := flag.String("only", "", "one body (debugging)")
	gn := flag.Int("group", 60, "generated multi-member join-group responses (and sync-group / sticky sequences)")
	grounds := flag.Int("rounds", 24, "calls of GetMembers per response (the map iteration order varies)")
	flag.Parse()
	if *worker {
		runWorker(*capBytes)
		return
	}
	tbl, err := w2.LoadTable(*table)
	if err != nil {
		fmt.Fprintln(os.Stderr, "c10fmt:", err)
		os.Exit(2)
	}
	var inputs []*input
	seen := map[string]bool{}
	add := func(in *input) {
		k := fmt.Sprintf("%d/%d/%x", in.row.Index, in.v, in.bytes)
		if seen[k] {
			return
		}
		seen[k] = true
		inputs = append(inputs, in)
	}
	// model-computed witnesses first
	if *witness != "" {
		if b, err := os.ReadFile(*witness); err == nil {
			for _, line := range strings.Split(string(b), "\n") {
				f := strings.Fields(line)
				if len(f) != 4 {
					continue
				}
				idx, _ := strconv.Atoi(f[1])
				v, _ := strconv.ParseInt(f[2], 10, 64)
				raw, _ := hex.DecodeString(f[3])
				if idx < len(tbl.Rows) {
					add(&input{row: tbl.Rows[idx], v: v, bytes: raw, origin: "witness", label: f[0]})
				}
			}
		}
	}
	for _, row := range tbl.Rows {
		if !row.Untrusted || w2.RecordsBodies[row.Name] || (*only != "" && row.Name != *only) {
			continue
		}
		if w2.NewBody(row.Name) == nil {
			fmt.Printf("MISSING-CONSTRUCTOR %s\n", row.Name)
			continue
		}
		for v := row.VMin; v <= row.VMax; v++ {
			for i := 0; i < *n; i++ {
				r := rand.New(rand.NewSource(*seed*999983 + int64(row.Index)*7919 + v*104729 + int64(i)))
				prof := w2.PRandom
				if i == 1 {
					prof = w2.PMax
				}
				body := w2.NewValue(row, v, r, prof)
				raw, _, _, err, pan := sarama.VerifWire2Encode(body)
				if err != nil || pan != nil {
					continue
				}
				marks, _ := sarama.VerifWire2Marks(body, len(raw))
				for _, m := range mutate(raw, marks, r, *flips, *truncs, *nmarks) {
					add(&input{row: row, v: v, bytes: m.b, origin: m.origin})
				}
			}
		}
	}
	// decode everything in memory-capped subprocesses
	runAll(inputs, *capBytes)
	w := &cf.Writer{Dir: *out, Prefix: "cases_c10fmt", ShardSize: 450,
		Imports:    "From SV Require Import WireFmt.Format WireFmt.Corr.\nFrom SVB Require Import GenFormats.",
		CaseType:   "c10case",
		MismatchFn: "mismatches_10 gen_cfg gen_table"}
	stats := map[string]int{}
	for _, in := range inputs {
		stats[fmt.Sprintf("class%d", in.class)]++
		stats["origin-"+strings.SplitN(in.origin, ":", 2)[0]]++
		var mon *cf.Monitor
		if in.class >= 2 {
			kind := map[int]string{2: "panic", 3: "alloc", 4: "hang"}[in.class]
			site := in.label
			if site == "" {
				site = siteOf(in)
			}
			mon = &cf.Monitor{Signature: fmt.Sprintf("c10:%s:%s", kind, site),
				What: fmt.Sprintf("%s v%d: decoding %d bytes (%s) -> %s at %s", in.row.Name, in.v, len(in.bytes), in.origin, kind, in.frame)}
		}
		info := caseInfo{Body: in.row.Name, V: in.v, Origin: in.origin, Bytes: hex.EncodeToString(in.bytes), Class: in.class, Frame: in.frame}
		cls := in.class
		if cls == 4 {
			cls = 3
		}
		term := fmt.Sprintf("{| d_row := %s; d_v := %s; d_bytes := %s; d_class := %d; d_cap := %d; d_lenient := %s |}",
			cf.Nat(in.row.Index), cf.Z(in.v), cf.Bytes(in.bytes), cls, *capBytes, cf.Bool(in.row.Dec.Lenient))
		w.Add(term, cf.Sidecar{Case: info, Kind: in.row.Name, Nontrivial: len(in.bytes) > 0, Monitor: mon})
	}
	w.Close()
	gw := runGroup(*out, tbl, *seed, *gn, *grounds, stats)
	gw.Close()
	fmt.Printf("STATS %v total=%d group=%d\n", stats, len(inputs), gw.Total)
}

// ---------------------------------------------------------------- mutations

type mut struct {
	b      []byte
	origin string
}

func clone(b []byte) []byte { return append([]byte{}, b...) }

func uvarintBytes(x uint64) []byte {
	var buf [binary.MaxVarintLen64]byte
	return append([]byte{}, buf[:binary.PutUvarint(buf[:], x)]...)
}

func mutate(raw []byte, marks []sarama.VerifWire2Mark, r *rand.Rand, flips, truncs, nmarks int) []mut {
	out := []mut{{clone(raw), "valid"}, {append(clone(raw), 0), "trailing"}}
	// truncations: every prefix of the first 40 bytes, a few beyond
	for l := 0; l < len(raw) && l < truncs; l++ {
		out = append(out, mut{clone(raw[:l]), "truncate"})
	}
	for k := 0; k < 4 && len(raw) > truncs; k++ {
		out = append(out, mut{clone(raw[:truncs+r.Intn(len(raw)-truncs)]), "truncate"})
	}
	// bit flips in the first 64 bytes
	lim := len(raw)
	if lim > 64 {
		lim = 64
	}
	for k := 0; k < flips && lim > 0; k++ {
		b := clone(raw)
		b[r.Intn(lim)] ^= 1 << uint(r.Intn(8))
		out = append(out, mut{b, "bitflip"})
	}
	// count / length fields
	if len(marks) > nmarks {
		r.Shuffle(len(marks), func(i, j int) { marks[i], marks[j] = marks[j], marks[i] })
		marks = marks[:nmarks]
	}
	for _, m := range marks {
		switch m.Kind {
		case "arr", "bytes", "i32arr":
			if m.Off+4 > len(raw) {
				continue
			}
			rem := len(raw) - m.Off - 4
			for _, val := range []int64{-1, 0, 1<<31 - 1, int64(rem) + 1, -2} {
				b := clone(raw)
				binary.BigEndian.PutUint32(b[m.Off:], uint32(int32(val)))
				out = append(out, mut{b, fmt.Sprintf("count:%s=%d", m.Kind, val)})
			}
		case "str":
			if m.Off+2 > len(raw) {
				continue
			}
			rem := len(raw) - m.Off - 2
			for _, val := range []int64{-1, 0, 1<<15 - 1, int64(rem) + 1, -2} {
				b := clone(raw)
				binary.BigEndian.PutUint16(b[m.Off:], uint16(int16(val)))
				out = append(out, mut{b, fmt.Sprintf("count:%s=%d", m.Kind, val)})
			}
		case "carr", "cstr", "cbytes":
			_, l := binary.Uvarint(raw[m.Off:])
			if l <= 0 {
				continue
			}
			rem := len(raw) - m.Off - l
			for _, val := range []uint64{0, 1, 1 << 31, uint64(rem) + 2, 1<<64 - 1, 1 << 63} {
				b := append(clone(raw[:m.Off]), uvarintBytes(val)...)
				b = append(b, raw[m.Off+l:]...)
				out = append(out, mut{b, fmt.Sprintf("count:%s=%d", m.Kind, val)})
			}
		}
	}
	return out
}

// ---------------------------------------------------------------- subprocess protocol

func runAll(inputs []*input, capBytes int64) {
	next := 0
	for next < len(inputs) {
		next = runBatch(inputs, next, capBytes)
	}
}

var frameRe = regexp.MustCompile(`([A-Za-z0-9_]+\.go):(\d+)`)

// runBatch starts a worker on inputs[from:], returns the index of the first input not yet classified
func runBatch(inputs []*input, from int, capBytes int64) int {
	cmd := exec.Command(os.Args[0], "-worker", "-cap", fmt.Sprint(capBytes))
	stdin, _ := cmd.StdinPipe()
	stdout, _ := cmd.StdoutPipe()
	var errBuf strings.Builder
	cmd.Stderr = &errBuf
	if err := cmd.Start(); err != nil {
		fmt.Fprintln(os.Stderr, "c10fmt: cannot start worker:", err)
		os.Exit(2)
	}
	go func() {
		bw := bufio.NewWriter(stdin)
		for i := from; i < len(inputs); i++ {
			in := inputs[i]
			fmt.Fprintf(bw, "%d %s %d %s\n", i, in.row.Name, in.v, hex.EncodeToString(in.bytes))
		}
		bw.Flush()
		stdin.Close()
	}()
	lines := make(chan string, 64)
	go func() {
		sc := bufio.NewScanner(stdout)
		sc.Buffer(make([]byte, 1<<20), 1<<24)
		for sc.Scan() {
			lines <- sc.Text()
		}
		close(lines)
	}()
	begun, done := -1, from
	hung := false
loop:
	for {
		select {
		case l, ok := <-lines:
			if !ok {
				break loop
			}
			f := strings.SplitN(l, " ", 4)
			if len(f) < 2 {
				continue
			}
			idx, _ := strconv.Atoi(f[1])
			switch f[0] {
			case "B":
				begun = idx
			case "R":
				cls, _ := strconv.Atoi(f[2])
				inputs[idx].class = cls
				if len(f) == 4 {
					inputs[idx].frame = f[3]
				}
				done = idx + 1
			}
		case <-time.After(20 * time.Second):
			hung = true
			cmd.Process.Kill()
			break loop
		}
	}
	io.Copy(io.Discard, stdout)
	cmd.Wait()
	if done >= len(inputs) {
		return done
	}
	// the worker died (or hung) while decoding inputs[begun]
	if begun < done {
		begun = done
	}
	in := inputs[begun]
	stderr := errBuf.String()
	switch {
	case hung:
		in.class = 4
	case strings.Contains(stderr, "out of memory") || strings.Contains(stderr, "cannot allocate memory"):
		in.class = 3
	default:
		in.class = 2
	}
	// the frames of package sarama in the crash report
	var frames []string
	for _, m := range frameRe.FindAllStringSubmatch(stderr, -1) {
		if !strings.HasPrefix(m[1], "main") && !strings.Contains(m[1], "wire2") {
			frames = append(frames, m[1]+":"+m[2])
		}
		if len(frames) > 12 {
			break
		}
	}
	in.frame = strings.Join(frames, ",")
	return begun + 1
}

func runWorker(capBytes int64) {
	// cap the address space: an allocation out of proportion kills this process (fatal error: out of memory)
	lim := syscall.Rlimit{Cur: uint64(capBytes), Max: uint64(capBytes)}
	if err := syscall.Setrlimit(syscall.RLIMIT_AS, &lim); err != nil {
		fmt.Fprintln(os.Stderr, "setrlimit:", err)
	}
	sc := bufio.NewScanner(os.Stdin)
	sc.Buffer(make([]byte, 1<<20), 1<<24)
	out := bufio.NewWriter(os.Stdout)
	for sc.Scan() {
		f := strings.Fields(sc.Text())
		if len(f) < 3 {
			continue
		}
		raw := []byte{}
		if len(f) == 4 {
			raw, _ = hex.DecodeString(f[3])
		}
		v, _ := strconv.ParseInt(f[2], 10, 16)
		fmt.Fprintf(out, "B %s\n", f[0])
		out.Flush()
		body := w2.NewBody(f[1])
		err, pan, stack := sarama.VerifWire2DecodeStack(body, raw, int16(v))
		switch {
		case pan != nil:
			var frames []string
			for _, m := range frameRe.FindAllStringSubmatch(stack, -1) {
				if m[1] != "panic.go" && m[1] != "stack.go" && !strings.Contains(m[1], "wire2") && m[1] != "main.go" && m[1] != "slice.go" {
					frames = append(frames, m[1]+":"+m[2])
				}
				if len(frames) > 12 {
					break
				}
			}
			fmt.Fprintf(out, "R %s 2 %s\n", f[0], strings.Join(frames, ","))
		case err != nil:
			fmt.Fprintf(out, "R %s 1\n", f[0])
		default:
			fmt.Fprintf(out, "R %s 0\n", f[0])
		}
		out.Flush()
	}
}

// the collection whose make the crash happened in, from the position wiregen recorded for it
func siteOf(in *input) string {
	frames := strings.Split(in.frame, ",")
	for _, fr := range frames {
		for _, r := range []*w2.Row{in.row} {
			for label, pos := range r.SiteMake {
				if pos == fr {
					return label
				}
			}
		}
	}
	if len(frames) > 0 && frames[0] != "" {
		return in.row.Name + "@" + frames[0]
	}
	return in.row.Name
}
