// c03corr: C03 correspondence and monitor.  Generated logs (all framings) are (a) decoded by sarama's real
// FetchResponse decoder and parsed by the real parseResponse through an in-package session, step by step along a
// fetch script, and (b) consumed end to end by a real PartitionConsumer from a sarama.MockBroker.  Writes Coq
// cases for SV.Consumer.Corr (mismatches_parse / mismatches_e2e) and the monitor verdict per case.
package main

import (
	"flag"

	"verifharness/internal/conslog"
)

func main() {
	out := flag.String("out", ".", "output directory")
	seed := flag.Int64("seed", 1, "seed")
	n := flag.Int("n", 320, "number of parse-level cases")
	e := flag.Int("e2e", 96, "number of end-to-end cases")
	flag.Parse()
	conslog.RunAll(conslog.RunOpts{Out: *out, Seed: *seed, NParse: *n, NE2E: *e, Tag: "c03", RCProb: 10, NPipe: 60,
		Formats: []conslog.Format{conslog.FV0, conslog.FV1, conslog.FV1C, conslog.FV0C, conslog.FV2, conslog.FV2H, conslog.FCtrl, conslog.FMix}})
}
