// decgencorr: runs the sarama functions that go/decgen translates on generated inputs and writes, per group,
// cases_decgen_<group>_NNN.v files whose cases are boolean Coq terms "generated definition on these inputs =
// what the Go function returned" (evaluated by vm_compute; see coq/Gen/DecCorr.v).  Validates the translator.
//
//	decgencorr -out DIR -seed N -n COUNT [-lib "From SV Require Import Gen.DecC06 …."] [-groups C06,C16,C17,C19,C01]
package main

import (
	"errors"
	"flag"
	"fmt"
	"hash"
	"math/rand"
	"strings"

	"github.com/Shopify/sarama"

	cf "verifharness/internal/coqfmt"
)

// ---------------------------------------------------------------- encodings

func str(s string) string { return `"` + s + `"%string` }

type idErr int64

func (e idErr) Error() string { return fmt.Sprintf("e%d", int64(e)) }

var sentinels = map[error]string{
	sarama.ErrIncompleteResponse: "ErrIncompleteResponse",
	sarama.ErrOutOfBrokers:       "ErrOutOfBrokers",
	sarama.ErrMessageTooLarge:    "ErrMessageTooLarge",
	sarama.ErrShuttingDown:       "ErrShuttingDown",
	sarama.ErrInvalidPartition:   "ErrInvalidPartition",
}

func gerr(e error) string {
	if e == nil {
		return "ENil"
	}
	if n, ok := sentinels[e]; ok {
		return "(EVar " + str(n) + ")"
	}
	switch v := e.(type) {
	case sarama.KError:
		return "(EK " + cf.Z(int64(v)) + ")"
	case idErr:
		return "(EOther " + cf.Z(int64(v)) + ")"
	case *sarama.TopicError:
		return "(ETopicError " + cf.Z(int64(v.Err)) + ")"
	case *sarama.TopicPartitionError:
		return "(ETopicPartitionError " + cf.Z(int64(v.Err)) + ")"
	case sarama.ConfigurationError:
		return "(EConfig " + str(string(v)) + ")"
	}
	return "(EUnknown)" // does not type-check on purpose
}

func optZ(present bool, v int) string {
	if !present {
		return "None"
	}
	return "(Some " + cf.Z(int64(v)) + ")"
}

type lenEnc int

func (l lenEnc) Encode() ([]byte, error) { return make([]byte, int(l)), nil }
func (l lenEnc) Length() int             { return int(l) }

type writer struct {
	w *cf.Writer
}

func newWriter(dir, group, lib string) *writer {
	return &writer{&cf.Writer{Dir: dir, Prefix: "cases_decgen_" + group,
		Imports:    "From SV Require Import Base.Corr Gen.GoInt Gen.DecTypes Gen.DecCorr.\n" + lib + "\nOpen Scope bool_scope.",
		CaseType:   "bool",
		MismatchFn: "mismatches_dec", ShardSize: 400}}
}

func (w *writer) add(kind, term string, c interface{}, nontrivial bool) {
	w.w.Add(term, cf.Sidecar{Case: map[string]interface{}{"fn": kind, "in": c}, Kind: kind, Nontrivial: nontrivial})
}

func pick(r *rand.Rand, xs ...int64) int64 { return xs[r.Intn(len(xs))] }

func meta(r *rand.Rand) string { return []string{"", "a", "b", "meta"}[r.Intn(4)] }

// ---------------------------------------------------------------- C06

func runC06(r *rand.Rand, n int, w *writer) {
	offs := []int64{-2, -1, 0, 1, 5, 6, 7, 100, 1 << 40, -(1 << 40), 9223372036854775807, -9223372036854775808}
	for i := 0; i < n; i++ {
		off0, off := offs[r.Intn(len(offs))], offs[r.Intn(len(offs))]
		if r.Intn(3) == 0 {
			off = off0
		}
		m0, m := meta(r), meta(r)
		d0 := r.Intn(2) == 0
		init := pick(r, -1, -2, 0, 42)
		op := r.Intn(4)
		o, mm, d, rv, rm := sarama.VerifDecgenPOM(op, off0, m0, d0, init, off, m)
		in := []interface{}{op, off0, m0, d0, init, off, m}
		st := fmt.Sprintf("%s %s %s", cf.Z(off0), str(m0), cf.Bool(d0))
		res := fmt.Sprintf("(%s, %s, %s)", cf.Z(o), str(mm), cf.Bool(d))
		switch op {
		case 0:
			w.add("mark_offset", fmt.Sprintf("(zsb_eqb (mark_offset %s %s %s) %s)", st, cf.Z(off), str(m), res), in, true)
		case 1:
			w.add("reset_offset", fmt.Sprintf("(zsb_eqb (reset_offset %s %s %s) %s)", st, cf.Z(off), str(m), res), in, true)
		case 2:
			w.add("update_committed", fmt.Sprintf("(zsb_eqb (update_committed %s %s %s) %s)", st, cf.Z(off), str(m), res), in, true)
		case 3:
			w.add("next_offset", fmt.Sprintf("(zs_eqb (next_offset %s %s %s) (%s, %s))", cf.Z(off0), str(m0), cf.Z(init), cf.Z(rv), str(rm)), in, true)
		}
	}
	codes := []int16{0, 6, 5, 15, 16, 12, 28, 14, 3, 1, 2, 7, 22, 25, 27, -1, 41, 87}
	for i := 0; i < n; i++ {
		tin, present := r.Intn(5) != 0, r.Intn(5) != 0
		k := codes[r.Intn(len(codes))]
		boff, bmeta := pick(r, 0, 7, 1<<33), meta(r)
		upd, rel, errs := sarama.VerifDecgenCommitVerdict(tin, present, k, boff, bmeta)
		var es []string
		for _, e := range errs {
			es = append(es, gerr(e))
		}
		term := fmt.Sprintf("(commit_verdict_ok (commit_verdict %s %s %s %s %s) %s %s %s %s %s)", cf.Bool(tin), cf.Z(int64(k)), cf.Bool(present),
			cf.Z(boff), str(bmeta), cf.Z(boff), str(bmeta), cf.Bool(upd), cf.Bool(rel), cf.List(es))
		w.add("commit_verdict", term, []interface{}{tin, present, k, boff, bmeta}, tin && present)
	}
}

// ---------------------------------------------------------------- C16 (+ C01)

func genMsg(r *rand.Rand) (*sarama.ProducerMessage, string) {
	m := &sarama.ProducerMessage{Topic: "t", Partition: 1}
	key, val := "None", "None"
	if r.Intn(3) != 0 {
		l := r.Intn(2000)
		m.Key = lenEnc(l)
		key = optZ(true, l)
	}
	if r.Intn(4) != 0 {
		l := r.Intn(1 << uint(r.Intn(21)))
		m.Value = lenEnc(l)
		val = optZ(true, l)
	}
	var hs []string
	for i, nh := 0, r.Intn(4); i < nh; i++ {
		a, b := r.Intn(40), r.Intn(300)
		m.Headers = append(m.Headers, sarama.RecordHeader{Key: make([]byte, a), Value: make([]byte, b)})
		hs = append(hs, fmt.Sprintf("(%d, %d)", a, b))
	}
	return m, fmt.Sprintf("%s %s %s", cf.List(hs), key, val)
}

func verTerm(v [4]uint) string { return fmt.Sprintf("[%d; %d; %d; %d]", v[0], v[1], v[2], v[3]) }

func runC16(r *rand.Rand, n int, w *writer) {
	vers := [][4]uint{{0, 8, 2, 0}, {0, 10, 2, 1}, {0, 11, 0, 0}, {0, 11, 0, 2}, {1, 0, 0, 0}, {2, 8, 0, 0}, {0, 10, 9, 9}, {1, 11, 0, 0}, {0, 11, 1, 0}}
	for i := 0; i < n/2; i++ {
		a, b := vers[r.Intn(len(vers))], vers[r.Intn(len(vers))]
		got := sarama.VerifDecgenVersion(a[0], a[1], a[2], a[3]).IsAtLeast(sarama.VerifDecgenVersion(b[0], b[1], b[2], b[3]))
		w.add("is_at_least", fmt.Sprintf("(Bool.eqb (is_at_least %s %s) %s)", verTerm(a), verTerm(b), cf.Bool(got)), []interface{}{a, b}, a != b)
	}
	for i := 0; i < n; i++ {
		m, mt := genMsg(r)
		v := r.Intn(4)
		w.add("byte_size", fmt.Sprintf("(byte_size %d %s =? %d)", v, mt, sarama.VerifDecgenByteSize(m, v)), []interface{}{v, mt}, true)
	}
	saved := sarama.MaxRequestSize
	defer func() { sarama.MaxRequestSize = saved }()
	for i := 0; i < n; i++ {
		m, mt := genMsg(r)
		conf := sarama.NewConfig()
		ver := vers[r.Intn(len(vers))]
		conf.Version = sarama.VerifDecgenVersion(ver[0], ver[1], ver[2], ver[3])
		sarama.MaxRequestSize = int32(pick(r, 100*1024*1024, 20000, 10240, 12000, 1<<20))
		conf.Producer.MaxMessageBytes = int(pick(r, 1000000, 100, 2000, 5000, 1<<20))
		conf.Producer.Flush.MaxMessages = int(pick(r, 0, 1, 5, 100))
		conf.Producer.Flush.Messages = int(pick(r, 0, 0, 1, 5, 100))
		conf.Producer.Flush.Bytes = int(pick(r, 0, 0, 1, 5000, 100000))
		if r.Intn(2) == 0 {
			conf.Producer.Flush.Frequency = 1000
		}
		bb, bc := int(pick(r, 0, 1, 4999, 5000, 9000, 99999, 1<<20)), int(pick(r, 0, 0, 1, 4, 5, 99, 100))
		tp := r.Intn(4) != 0
		pb := -1
		if tp && r.Intn(3) != 0 {
			pb = int(pick(r, 0, 50, 99, 1500, 1999, 4000, 999000))
		}
		e, rd, ov := sarama.VerifDecgenPS(conf, bb, bc, tp, pb, m)
		term := fmt.Sprintf("(Bool.eqb (empty %d) %s && Bool.eqb (ready_to_flush %d %d %d %d %d) %s && Bool.eqb (would_overflow %d %d %s %s %s %d %d %d %s) %s)",
			bc, cf.Bool(e), bb, bc, int64(conf.Producer.Flush.Frequency), conf.Producer.Flush.Bytes, conf.Producer.Flush.Messages, cf.Bool(rd),
			bb, bc, cf.Bool(tp), optZ(pb >= 0, pb), verTerm(ver), sarama.MaxRequestSize, conf.Producer.MaxMessageBytes, conf.Producer.Flush.MaxMessages, mt, cf.Bool(ov))
		w.add("produce_set", term, []interface{}{bb, bc, tp, pb, ver, mt, int64(sarama.MaxRequestSize), conf.Producer.MaxMessageBytes,
			conf.Producer.Flush.MaxMessages, conf.Producer.Flush.Messages, conf.Producer.Flush.Bytes}, bc > 0)
	}
}

func runC01(r *rand.Rand, n int, w *writer) {
	for i := 0; i < n/4; i++ {
		retries, max := r.Intn(6), r.Intn(6)
		var err error = idErr(r.Intn(50))
		if r.Intn(3) == 0 {
			err = sarama.KError(int16(r.Intn(60)))
		}
		after, retried, ret := sarama.VerifDecgenRetryMessage(retries, max, err)
		w.add("retry_message", fmt.Sprintf("(retry_message_ok (retry_message %d %s %d) %d %s %s)", retries, gerr(err), max, after, cf.Bool(retried), gerr(ret)),
			[]interface{}{retries, max, err.Error()}, true)
	}
}

// ---------------------------------------------------------------- C17

type errEnc struct{ e error }

func (x errEnc) Encode() ([]byte, error) { return nil, x.e }
func (x errEnc) Length() int             { return 0 }

type fixedHash struct {
	sum   uint32
	werr  error
	calls []string
}

func (h *fixedHash) Write(p []byte) (int, error) {
	h.calls = append(h.calls, "HA_write")
	return len(p), h.werr
}
func (h *fixedHash) Sum(b []byte) []byte { return b }
func (h *fixedHash) Reset()              { h.calls = append(h.calls, "HA_reset") }
func (h *fixedHash) Size() int           { return 4 }
func (h *fixedHash) BlockSize() int      { return 1 }
func (h *fixedHash) Sum32() uint32       { return h.sum }

var _ hash.Hash32 = (*fixedHash)(nil)

func runC17(r *rand.Rand, n int, w *writer) {
	sums := []uint32{0, 1, 2, 7, 0x7fffffff, 0x80000000, 0x80000001, 0xffffffff, 0xfffffff9, 12345678, 0xdeadbeef}
	parts := []int32{1, 2, 3, 7, 10, 12, 100, 1 << 30, 2147483647}
	for i := 0; i < n; i++ {
		h := &fixedHash{sum: sums[r.Intn(len(sums))]}
		if r.Intn(3) == 0 {
			h.sum = r.Uint32()
		}
		if r.Intn(8) == 0 {
			h.werr = idErr(r.Intn(9))
		}
		ref := r.Intn(2) == 0
		opts := []sarama.HashPartitionerOption{sarama.WithCustomHashFunction(func() hash.Hash32 { return h })}
		if ref {
			opts = append(opts, sarama.WithAbsFirst())
		}
		p := sarama.NewCustomPartitioner(opts...)("t")
		np := parts[r.Intn(len(parts))]
		msg := &sarama.ProducerMessage{Key: lenEnc(3)}
		var encErr error
		if r.Intn(8) == 0 {
			encErr = idErr(100 + r.Intn(9))
			msg.Key = errEnc{encErr}
		}
		got, gerrv := p.Partition(msg, np)
		in := []interface{}{h.sum, h.werr != nil, ref, np, encErr != nil}
		w.add("hash_partition_calls", fmt.Sprintf("(hash_calls_ok (hash_partition_calls %d false 0 ENil %s %s %s %d) %s %s %s)", np, gerr(encErr), gerr(h.werr), cf.Bool(ref), h.sum,
			cf.List(h.calls), cf.Z(int64(got)), gerr(gerrv)), in, true)
		w.add("hash_partition", fmt.Sprintf("(zerr_eqb (hash_partition %d false 0 ENil %s %s %s %d) (%s, %s))", np, gerr(encErr), gerr(h.werr), cf.Bool(ref), h.sum,
			cf.Z(int64(got)), gerr(gerrv)), in, true)
		if encErr == nil && h.werr == nil {
			w.add("hash_choice", fmt.Sprintf("(fst (hash_choice %d %s %d) =? %s)", np, cf.Bool(ref), h.sum, cf.Z(int64(got))), in, true)
		}
	}
	for i := 0; i < n/4; i++ {
		p := sarama.NewRoundRobinPartitioner("t")
		var ns, rets []int64
		for j, k := 0, 1+r.Intn(12); j < k; j++ {
			np := int32(1 + r.Intn(5))
			got, _ := p.Partition(&sarama.ProducerMessage{}, np)
			ns, rets = append(ns, int64(np)), append(rets, int64(got))
		}
		w.add("round_robin_partition", fmt.Sprintf("(rr_ok round_robin_partition %s %s)", cf.ZList(ns), cf.ZList(rets)), []interface{}{ns}, len(ns) > 1)
		mp := sarama.NewManualPartitioner("t")
		want := int32(r.Intn(100) - 3)
		got, e := mp.Partition(&sarama.ProducerMessage{Partition: want}, 7)
		w.add("manual_partition", fmt.Sprintf("(zerr_eqb (manual_partition 7 %s) (%s, %s))", cf.Z(int64(want)), cf.Z(int64(got)), gerr(e)), []interface{}{want}, true)
	}
}

// stubs for topicProducer.partitionMessage
type stubClient struct {
	sarama.Client
	all, writable       []int32
	allErr, writableErr error
}

func (c *stubClient) Partitions(string) ([]int32, error)         { return c.all, c.allErr }
func (c *stubClient) WritablePartitions(string) ([]int32, error) { return c.writable, c.writableErr }

type stubPartitioner struct {
	requires bool
	choice   int32
	err      error
}

func (p *stubPartitioner) Partition(*sarama.ProducerMessage, int32) (int32, error) {
	return p.choice, p.err
}
func (p *stubPartitioner) RequiresConsistency() bool { return p.requires }

type stubDynPartitioner struct {
	stubPartitioner
	msgRequires bool
}

func (p *stubDynPartitioner) MessageRequiresConsistency(*sarama.ProducerMessage) bool {
	return p.msgRequires
}

func z32s(v []int32) string {
	o := make([]int64, len(v))
	for i, x := range v {
		o[i] = int64(x)
	}
	return cf.ZList(o)
}

func runC17PartitionMessage(r *rand.Rand, n int, w *writer) {
	lists := [][]int32{nil, {0}, {0, 1, 2}, {5, 7}, {3, 1, 4, 1, 5}}
	for i := 0; i < n; i++ {
		c := &stubClient{all: lists[r.Intn(len(lists))], writable: lists[r.Intn(len(lists))]}
		if r.Intn(8) == 0 {
			c.allErr = idErr(1)
		}
		if r.Intn(8) == 0 {
			c.writableErr = idErr(2)
		}
		sp := stubPartitioner{requires: r.Intn(2) == 0, choice: int32(r.Intn(7) - 1)}
		if r.Intn(8) == 0 {
			sp.err = idErr(3)
		}
		dyn, msgReq := r.Intn(2) == 0, r.Intn(2) == 0
		var p sarama.Partitioner = &sp
		if dyn {
			p = &stubDynPartitioner{sp, msgReq}
		}
		msg := &sarama.ProducerMessage{Topic: "t", Partition: -7}
		err := func() (err error) {
			defer func() {
				if rec := recover(); rec != nil {
					err = fmt.Errorf("panic: %v", rec) // printed as (EUnknown): the case does not evaluate and is reported
				}
			}()
			return sarama.VerifDecgenPartitionMessage(p, c, msg)
		}()
		term := fmt.Sprintf("(gerr_z_eqb (partition_message_run partition_source partition_pick %s %s %s %s %s %s %s %s %s (-7)) (%s, %s))",
			cf.Bool(dyn), cf.Bool(msgReq), cf.Bool(sp.requires), z32s(c.all), gerr(c.allErr), z32s(c.writable), gerr(c.writableErr), cf.Z(int64(sp.choice)), gerr(sp.err),
			gerr(err), cf.Z(int64(msg.Partition)))
		w.add("partition_message", term, []interface{}{dyn, msgReq, sp.requires, c.all, c.allErr != nil, c.writable, c.writableErr != nil, sp.choice, sp.err != nil}, true)
	}
}

// ---------------------------------------------------------------- second wave: C01 / C16 / C06

func seqEntries(r *rand.Rand) ([]sarama.VerifDecgenSeqEntry, string) {
	var es []sarama.VerifDecgenSeqEntry
	var ts []string
	seen := map[string]bool{}
	for i, k := 0, r.Intn(4); i < k; i++ {
		e := sarama.VerifDecgenSeqEntry{Topic: []string{"a", "b", "a-1"}[r.Intn(3)], Partition: int32(r.Intn(3)), Value: int32(pick(r, 0, 1, 41, 2147483647))}
		key := fmt.Sprintf("%s|%d", e.Topic, e.Partition)
		if seen[key] {
			continue
		}
		seen[key] = true
		es = append(es, e)
		ts = append(ts, fmt.Sprintf("(seq_key %s %s %d, %s)", str("%s-%d"), str(e.Topic), e.Partition, cf.Z(int64(e.Value))))
	}
	return es, cf.List(ts)
}

func seqAfter(m map[string]int32, probes []sarama.VerifDecgenSeqEntry) string {
	var ts []string
	for _, e := range probes {
		ts = append(ts, fmt.Sprintf("(%s, %d, %s)", str(e.Topic), e.Partition, cf.Z(int64(m[fmt.Sprintf("%s-%d", e.Topic, e.Partition)]))))
	}
	return cf.List(ts)
}

func runWave2(r *rand.Rand, n int, w01, w16, w06 *writer) {
	for i := 0; i < n/4; i++ {
		var closing, cur error
		if r.Intn(3) == 0 {
			closing = idErr(9)
		}
		hasTopic, hasEntry := r.Intn(4) != 0, r.Intn(3) != 0
		if r.Intn(2) == 0 {
			cur = idErr(4)
		}
		got := sarama.VerifDecgenNeedsRetry(closing, hasTopic, hasEntry, cur)
		model := cur
		if !hasTopic || !hasEntry {
			model = nil
		}
		w01.add("needs_retry", fmt.Sprintf("(gerr_eqb (needs_retry %s %s) %s)", gerr(closing), gerr(model), gerr(got)), []interface{}{closing != nil, hasTopic, hasEntry, cur != nil}, true)

		es, mt := seqEntries(r)
		epoch := int16(pick(r, 0, 1, 32767, -1))
		topic, part := []string{"a", "b", "a-1", "c"}[r.Intn(4)], int32(r.Intn(3))
		probes := append(append([]sarama.VerifDecgenSeqEntry{}, es...), sarama.VerifDecgenSeqEntry{Topic: topic, Partition: part})
		sq, ep, after := sarama.VerifDecgenGetSeq(epoch, es, topic, part)
		w01.add("get_and_increment_sequence_number", fmt.Sprintf("(seq_get_ok (get_and_increment_sequence_number %s %s %d %s) %s %s %s %s)", mt, str(topic), part, cf.Z(int64(epoch)),
			str("%s-%d"), cf.Z(int64(sq)), cf.Z(int64(ep)), seqAfter(after, probes)), []interface{}{epoch, len(es), topic, part}, true)
		ep2, after2 := sarama.VerifDecgenBumpEpoch(epoch, es)
		w01.add("bump_epoch", fmt.Sprintf("(seq_bump_ok (bump_epoch %s %s) %s %s %s)", cf.Z(int64(epoch)), mt, str("%s-%d"), cf.Z(int64(ep2)), seqAfter(after2, es)), []interface{}{epoch, len(es)}, len(es) > 0)

		bn := r.Intn(3) == 0
		tn := bn || r.Intn(2) == 0
		off, ts, md := pick(r, 0, 5, 1<<40), pick(r, -1, 0, 99), meta(r)
		om, im, o2, t2, m2 := sarama.VerifDecgenAddBlock(bn, tn, "t", 2, off, ts, md)
		w06.add("add_block", fmt.Sprintf("(add_block_ok (add_block %s 2 %s %s %s %s %s) %s %s %s %s %s)", str("t"), cf.Z(off), cf.Z(ts), str(md), cf.Bool(bn), cf.Bool(tn),
			cf.Bool(om), cf.Bool(im), cf.Z(o2), cf.Z(t2), str(m2)), []interface{}{bn, tn, off, ts, md}, true)
	}
	tn, tf, nb := sarama.VerifDecgenRollOver()
	w16.add("roll_over", fmt.Sprintf("(roll_over_ok (roll_over (Some tt) true) %s %s %s)", cf.Bool(tn), cf.Bool(tf), cf.Bool(nb)), []interface{}{}, true)
}

// ---------------------------------------------------------------- C19

func runC19(r *rand.Rand, n int, w *writer) {
	for i := 0; i < n/2; i++ {
		max := r.Intn(6) - 1
		var script []error
		var st []string
		for j, k := 0, r.Intn(7); j < k; j++ {
			var e error
			switch r.Intn(4) {
			case 0:
				e = nil
			case 1:
				e = idErr(2*r.Intn(5) + 1) // odd: not retryable
			default:
				e = idErr(2 * r.Intn(5)) // even: retryable
			}
			script = append(script, e)
			st = append(st, gerr(e))
		}
		err, calls := sarama.VerifDecgenRetryOnError(max, script, func(e error) bool {
			var id idErr
			return errors.As(e, &id) && int64(id)%2 == 0
		})
		w.add("retry_on_error", fmt.Sprintf("(retry_on_error_ok (retry_on_error %s retryable_even %s) %s %s %d)", cf.List(st), cf.Z(int64(max)), cf.List(st), gerr(err), calls),
			[]interface{}{max, st}, len(script) > 0)
	}
	for i := 0; i < n/4; i++ {
		k := sarama.KError(int16(pick(r, 41, 41, 0, 6, 3, 7)))
		var e error
		switch r.Intn(5) {
		case 0:
			e = k
		case 1:
			e = &sarama.TopicError{Err: k}
		case 2:
			e = &sarama.TopicPartitionError{Err: k}
		case 3:
			e = idErr(41)
		}
		w.add("is_err_no_controller", fmt.Sprintf("(Bool.eqb (is_err_no_controller %s) %s)", gerr(e), cf.Bool(sarama.VerifDecgenIsErrNoController(e))), []interface{}{gerr(e)}, e != nil)
		ty := sarama.ConfigResourceType(pick(r, 0, 1, 2, 3, 4, 4, 8, 8))
		name := []string{"", "1", "broker"}[r.Intn(3)]
		w.add("depends_on_specific_node", fmt.Sprintf("(Bool.eqb (depends_on_specific_node %d %s) %s)", int(ty), str(name), cf.Bool(sarama.VerifDecgenDependsOnSpecificNode(ty, name))),
			[]interface{}{int(ty), name}, true)
	}
}

func main() {
	out := flag.String("out", ".", "output directory")
	seed := flag.Int64("seed", 1, "seed")
	n := flag.Int("n", 200, "cases per function (roughly)")
	lib := flag.String("lib", "", "Coq import line(s) for the generated definitions (default: the goldens SV.Gen.Dec<G>)")
	groups := flag.String("groups", "C06,C16,C01,C17,C19", "groups to run")
	flag.Parse()
	runs := map[string]func(*rand.Rand, int, *writer){"C06": runC06, "C16": runC16, "C01": runC01, "C17": runC17, "C19": runC19}
	writers := map[string]*writer{}
	var order []string
	for gi, g := range strings.Split(*groups, ",") {
		f := runs[g]
		if f == nil {
			fmt.Println("decgencorr: no runner for group", g)
			continue
		}
		l := *lib
		if l == "" {
			l = "From SV Require Import Gen.Dec" + g + "."
		} else {
			l = strings.ReplaceAll(l, "%G", g)
		}
		w := newWriter(*out, g, "From SV Require Import Gen.DecTypes2.\n"+l)
		writers[g] = w
		order = append(order, g)
		rr := rand.New(rand.NewSource(*seed*1000 + int64(gi)))
		f(rr, *n, w)
		if g == "C17" {
			runC17PartitionMessage(rr, *n, w)
		}
	}
	if writers["C01"] != nil && writers["C16"] != nil && writers["C06"] != nil {
		runWave2(rand.New(rand.NewSource(*seed*1000+77)), *n, writers["C01"], writers["C16"], writers["C06"])
	}
	for _, g := range order {
		writers[g].w.Close()
	}
}
