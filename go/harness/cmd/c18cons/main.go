// c18cons: consumer half of C18.  A real PartitionConsumer with counting / marking / panicking interceptors
// consumes generated logs from a sarama.MockBroker while the reader stalls at chosen messages until the
// feeder's slow-reader path has fired (hook feeder.expiry; a long pause on a tree without the hook).
// Writes Coq cases for SV.Consumer.FeederCorr (mismatches_feeder) and the monitor verdict per case:
// every interceptor exactly once per delivered message, marks in configuration order, panics contained,
// delivery itself exact.
package main

import (
	"flag"
	"fmt"
	"math/rand"
	"strings"
	"sync"
	"sync/atomic"

	"github.com/Shopify/sarama"

	"verifharness/internal/conslog"
	cf "verifharness/internal/coqfmt"
)

type caseJSON struct {
	conslog.E2ECaseJSON
	Panics  []bool           `json:"panics"`
	Kinds   []string         `json:"panic_values,omitempty"`
	Expired []int64          `json:"feeder_gave_up_at"`
	Steered bool             `json:"steered_by_hook"`
	Calls   map[string][]int `json:"calls_per_offset"`
	Marks   []string         `json:"marks"`
}

type work struct {
	term string
	side cf.Sidecar
}

func natList(v []int) string {
	s := make([]string, len(v))
	for i, x := range v {
		s[i] = cf.Nat(x)
	}
	return cf.List(s)
}

func marksOf(m *sarama.ConsumerMessage) []int {
	var out []int
	for _, h := range m.Headers {
		k := string(h.Key)
		if strings.HasPrefix(k, conslog.MarkPrefix) {
			var i int
			fmt.Sscanf(k[len(conslog.MarkPrefix):], "%d", &i)
			out = append(out, i)
		}
	}
	return out
}

func runOne(seed int64, sc conslog.E2EScenario, panics []bool, kinds []int, shapes []int) work {
	var kindNames []string
	for i, p := range panics {
		sc.Interceptors = append(sc.Interceptors, &conslog.CountingInterceptor{Index: i, Panics: p, Kind: kinds[i], Shape: shapes[i]})
		if p {
			kindNames = append(kindNames, conslog.PanicKinds[kinds[i]]+"/"+conslog.InterceptorShapes[shapes[i]])
		} else {
			kindNames = append(kindNames, "-")
		}
	}
	before := atomic.LoadInt32(&conslog.EscapedPanics)
	res := conslog.RunE2E(seed, sc)
	escaped := atomic.LoadInt32(&conslog.EscapedPanics) > before
	js := caseJSON{E2ECaseJSON: conslog.E2EJSON(sc, res), Panics: panics, Kinds: kindNames, Expired: res.Stalled, Steered: res.Steered, Calls: map[string][]int{}}
	var mon *cf.Monitor
	// delivery itself must be exact (C03 / C11 monitor on the stream with the marks removed)
	if m := conslog.E2EMonitor(sc, res); m != nil {
		mon = &cf.Monitor{Signature: "consumer-interceptor:" + m.Signature, What: m.What}
		anyPanics := false
		for _, p := range panics {
			anyPanics = anyPanics || p
		}
		if escaped && anyPanics {
			mon = &cf.Monitor{Signature: "c18:consumer:panic-escaped", What: fmt.Sprintf("a panicking interceptor (panic values %v) took a consumer goroutine down: %s", kindNames, m.What)}
		}
	}
	stalled := map[int64]bool{}
	for _, o := range res.Stalled {
		stalled[o] = true
	}
	var wantMarks []int
	for i, p := range panics {
		if !p {
			wantMarks = append(wantMarks, i)
		}
	}
	var calls, marks []string
	for _, m := range res.Delivered {
		counts := make([]int, len(panics))
		for i, ic := range sc.Interceptors {
			ic.Lock()
			counts[i] = ic.Calls[m.Offset]
			ic.Unlock()
		}
		js.Calls[fmt.Sprint(m.Offset)] = counts
		mk := marksOf(m)
		js.Marks = append(js.Marks, fmt.Sprintf("%d:%v", m.Offset, mk))
		calls = append(calls, fmt.Sprintf("(%s, %s)", cf.Z(m.Offset), natList(counts)))
		marks = append(marks, fmt.Sprintf("(%s, %s)", cf.Z(m.Offset), natList(mk)))
		if mon != nil {
			continue
		}
		for i, c := range counts {
			switch {
			case c == 1:
			case c == 2 && (stalled[m.Offset] || !res.Steered):
				mon = &cf.Monitor{Signature: "c18:consumer:expiry-reapplied",
					What: fmt.Sprintf("interceptor %d ran twice on offset %d, the message the feeder was blocked on when MaxProcessingTime expired", i, m.Offset)}
			default:
				mon = &cf.Monitor{Signature: fmt.Sprintf("consumer-interceptor:called-%d-times", c),
					What: fmt.Sprintf("interceptor %d ran %d times on offset %d", i, c, m.Offset)}
			}
		}
		if mon == nil && fmt.Sprint(mk) != fmt.Sprint(wantMarks) {
			mon = &cf.Monitor{Signature: "consumer-interceptor:marks", What: fmt.Sprintf("offset %d delivered with marks %v, want %v (chain order, panicking ones contained)", m.Offset, mk, wantMarks)}
		}
	}
	// no interceptor call for anything that was not delivered (complete runs)
	if mon == nil && res.Complete {
		seen := map[int64]bool{}
		for _, m := range res.Delivered {
			seen[m.Offset] = true
		}
		for i, ic := range sc.Interceptors {
			ic.Lock()
			for off := range ic.Calls {
				if !seen[off] && mon == nil {
					mon = &cf.Monitor{Signature: "consumer-interceptor:undelivered", What: fmt.Sprintf("interceptor %d ran on offset %d, which was never delivered", i, off)}
				}
			}
			ic.Unlock()
		}
	}
	var resps []string
	for _, r := range res.Resps {
		resps = append(resps, cf.ZList(r))
	}
	pan := make([]string, len(panics))
	for i, p := range panics {
		pan[i] = cf.Bool(p)
	}
	term := cf.App("Build_ccase", cf.List(pan), cf.List(resps), cf.ZList(res.Stalled), cf.List(calls), cf.List(marks))
	if res.StartErr != nil || !res.Complete {
		// incomplete runs cannot be replayed response by response; the monitor above still judged them
		term = cf.App("Build_ccase", cf.List(pan), "[]", "[]", "[]", "[]")
	}
	return work{term: term, side: cf.Sidecar{Case: js, Kind: "feeder/" + js.Format, Nontrivial: len(res.Delivered) > 0 && len(panics) > 0, Monitor: mon}}
}

func main() {
	out := flag.String("out", ".", "output directory")
	seed := flag.Int64("seed", 1, "seed")
	n := flag.Int("n", 60, "number of cases")
	flag.Parse()
	rng := rand.New(rand.NewSource(*seed))
	w := &cf.Writer{Dir: *out, Prefix: "cases_c18_feeder", Imports: "From SV Require Import Consumer.Feeder Consumer.FeederCorr.",
		CaseType: "ccase", MismatchFn: "mismatches_feeder", ShardSize: 100}
	type job struct {
		sc     conslog.E2EScenario
		panics []bool
		kinds  []int
		shapes []int
	}
	var jobs []job
	for i := 0; i < *n; i++ {
		f := []conslog.Format{conslog.FV2, conslog.FV2, conslog.FV2H, conslog.FV1C, conslog.FTxn, conslog.FCtrl}[rng.Intn(6)]
		if i == 0 {
			f = conslog.FV2
		}
		var g conslog.Generated
		for {
			g = conslog.Gen(rng, f, 16)
			if g.Log.NRecords() >= 3 {
				break
			}
		}
		gg := g
		kv := sarama.V2_1_0_0
		if f == conslog.FV1C && rng.Intn(2) == 0 {
			kv = sarama.V0_10_0_0
		}
		sc := conslog.E2EScenario{Gen: &gg, KafkaVersion: kv, FetchDefault: 1 << 20, Topic: fmt.Sprintf("c18-%d-%d", *seed, i), Req: sarama.OffsetOldest,
			Oldest: g.Log[0].Lo(), Stall: map[int]bool{}}
		sc.ReadCommitted = f == conslog.FTxn && rng.Intn(2) == 0
		sc.ChannelBuffer = []int{0, 0, 0, 1, 3}[rng.Intn(5)]
		nrec := len(g.Log.Visible(sc.ReadCommitted, sc.Oldest))
		panics := make([]bool, 1+rng.Intn(3))
		kinds := make([]int, len(panics))
		shapes := make([]int, len(panics))
		for k := range panics {
			panics[k] = rng.Intn(3) == 0
			kinds[k] = rng.Intn(len(conslog.PanicKinds))
			shapes[k] = rng.Intn(len(conslog.InterceptorShapes))
		}
		if i >= 1 && i <= 3*len(conslog.PanicKinds) {
			// corpus: every kind of panic value at every chain position of a 3-interceptor chain, half of them with the
			// reader stalling so that the panicking interceptor also runs on the slow-reader path
			panics, kinds, shapes = make([]bool, 3), make([]int, 3), make([]int, 3)
			panics[(i-1)%3] = true
			kinds[(i-1)%3] = (i - 1) / 3
			// the panicking interceptor (and, shifted, its neighbours) also come as values of unhashable dynamic types
			for k := range shapes {
				shapes[k] = (i + k) % len(conslog.InterceptorShapes)
			}
		}
		if i == 0 {
			// the replayed witness: unbuffered channel, one interceptor, the reader pauses before the third message
			sc.ChannelBuffer, panics, kinds, shapes = 0, []bool{false}, []int{0}, []int{0}
			sc.Stall[2] = true
		} else {
			for k := rng.Intn(3); k >= 0 && nrec > 0; k-- {
				sc.Stall[rng.Intn(nrec)] = true
			}
			if rng.Intn(3) == 0 {
				// cut the log into several responses so that the slow-reader path is entered in different positions of a response
				for k := 1 + rng.Intn(3); k > 0; k-- {
					sc.Script = append(sc.Script, conslog.Directive{Whole: 1 + rng.Intn(3)})
				}
			}
			if rng.Intn(5) == 0 {
				sc.Script = append(sc.Script, conslog.Directive{Fault: 1, Err: 6})
			}
		}
		jobs = append(jobs, job{sc, panics, kinds, shapes})
	}
	results := make([]work, len(jobs))
	var wg sync.WaitGroup
	sem := make(chan struct{}, 8)
	for i := range jobs {
		wg.Add(1)
		sem <- struct{}{}
		go func(i int) {
			defer wg.Done()
			defer func() { <-sem }()
			results[i] = runOne(*seed*104729+int64(i), jobs[i].sc, jobs[i].panics, jobs[i].kinds, jobs[i].shapes)
		}(i)
	}
	wg.Wait()
	for _, r := range results {
		w.Add(r.term, r.side)
	}
	w.Close()
}
