// c02corr: C02 (per-partition submission order survives retries) — runs fault-script scenarios with schedule
// steering aimed at the retry windows on the real async producer against the cluster simulator, evaluates the
// ordering monitor on the simulated partition logs and the success offsets, and writes the per-actor hook logs
// as Coq cases (coq/C02/Corr.v). All of it lives in internal/c02x.
package main

import "verifharness/internal/c02x"

func main() { c02x.Main() }
