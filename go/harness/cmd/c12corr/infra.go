package main

import (
	"fmt"
	"runtime"
	"strings"
	"sync"
	"sync/atomic"
	"time"

	"github.com/Shopify/sarama"
)

// ---------------------------------------------------------------------------------------------
// Bounds. A shutdown of these scenarios takes milliseconds (network timeouts are 250 ms); anything not
// finished after hangBound is a hang.
const (
	hangBound  = 20 * time.Second
	netTimeout = 250 * time.Millisecond
	settle     = 350 * time.Millisecond // Close is injected at the latest this long after the scenario started
)

// ---------------------------------------------------------------------------------------------
// One run = one scenario instance with Close injected at the k-th observable event.

// Spec identifies a run completely (everything random was drawn from the seed when the spec was made).
type Spec struct {
	ID     int            `json:"id"`
	Comp   string         `json:"comp"`   // producer | pcons | group | offsets | client | broker
	Scen   string         `json:"scen"`   // scenario name
	K      int            `json:"k"`      // Close at the k-th observable event (1-based); 0 = before anything
	Sync   bool           `json:"sync"`   // Close() instead of AsyncClose()
	P      map[string]int `json:"p"`      // scenario parameters
}

func (s Spec) p(name string, def int) int {
	if v, ok := s.P[name]; ok {
		return v
	}
	return def
}

// CompObs is what was seen of one component instance in a run.
type CompObs struct {
	Comp     string   `json:"comp"`     // model component: producer | pcons | group | offsets | client | broker
	Cfg      []int64  `json:"cfg"`      // model configuration vector (meaning per component, see coq/C12/Corr.v)
	Obs      []string `json:"obs"`      // linearised observable events: "Call f" | "Ret f r" | "Ev ch" | "Closed ch"
	Complete bool     `json:"complete"` // observed to the end (completeness conditions of the model apply)
}

// Result of a run.
type Result struct {
	Spec     Spec      `json:"spec"`
	Comps    []CompObs `json:"comps"`
	Events   int       `json:"events"`   // observable events counted
	ClosedAt int       `json:"closedAt"` // event count when Close was injected
	Failures []Failure `json:"failures"` // direct property failures (monitor)
	Notes    []string  `json:"notes,omitempty"`
	Millis   int64     `json:"ms"`
	Skipped  bool      `json:"skipped,omitempty"`
}

type Failure struct {
	Sig  string `json:"sig"`
	What string `json:"what"`
}

// run context shared by the goroutines of one run
type runCtx struct {
	spec     Spec
	mu       sync.Mutex
	fails    []Failure
	notes    []string
	events   int32
	closedAt int32
	armed    int32
	trig     chan struct{} // closed when the k-th event happened (or the settle timer fired)
	trigOnce sync.Once
	invoked  chan struct{} // closed when the harness has invoked Close/AsyncClose
	invOnce  sync.Once
	reqLog   []string
	t0       time.Time
}

func newRunCtx(s Spec) *runCtx {
	rc := &runCtx{spec: s, trig: make(chan struct{}), invoked: make(chan struct{}), t0: time.Now()}
	return rc
}

// arm: the component under test exists now; observable events are counted from here on.
func (rc *runCtx) arm() {
	atomic.StoreInt32(&rc.armed, 1)
	if rc.spec.K <= 0 {
		rc.fire()
	}
}

func (rc *runCtx) fire() {
	rc.trigOnce.Do(func() {
		atomic.StoreInt32(&rc.closedAt, atomic.LoadInt32(&rc.events))
		close(rc.trig)
	})
}

// markInvoked: the harness has called Close/AsyncClose (held responses are released a little later).
func (rc *runCtx) markInvoked() { rc.invOnce.Do(func() { close(rc.invoked) }) }

// afterInvoked returns a gate that opens d after Close was invoked (or after 2 s, whichever is first).
// Holding an answer means the scenario has reached its "mid-request" point: if the k-th event has not
// happened yet it cannot happen before the answer, so the close is injected now (after a short pause in
// which the client is certainly waiting for the answer).
func (rc *runCtx) afterInvoked(d time.Duration) <-chan struct{} {
	g := make(chan struct{})
	go func() {
		select {
		case <-rc.trig:
		case <-time.After(15 * time.Millisecond):
			rc.fire()
		}
	}()
	go func() {
		select {
		case <-rc.invoked:
			time.Sleep(d)
		case <-time.After(2 * time.Second):
		}
		close(g)
	}()
	return g
}

// event counts one observable event (request received by a mock broker, message or error delivered to
// the application) and fires the Close trigger at the k-th one.
func (rc *runCtx) event(kind string) {
	if atomic.LoadInt32(&rc.armed) == 0 {
		return
	}
	n := atomic.AddInt32(&rc.events, 1)
	if int(n) == rc.spec.K {
		rc.fire()
	}
	_ = kind
}

func (rc *runCtx) request(broker int32, kind string) {
	if atomic.LoadInt32(&rc.armed) == 0 {
		return
	}
	rc.mu.Lock()
	if len(rc.reqLog) < 200 {
		rc.reqLog = append(rc.reqLog, fmt.Sprintf("b%d:%s", broker, strings.TrimSuffix(kind, "Request")))
	}
	rc.mu.Unlock()
	rc.event("req")
}

// requestQuiet logs a request without counting it as an observable event.
func (rc *runCtx) requestQuiet(broker int32, kind string) {
	if atomic.LoadInt32(&rc.armed) == 0 {
		return
	}
	rc.mu.Lock()
	if len(rc.reqLog) < 200 {
		rc.reqLog = append(rc.reqLog, fmt.Sprintf("b%d:%s", broker, strings.ToLower(strings.TrimSuffix(kind, "Request"))))
	}
	rc.mu.Unlock()
}

func (rc *runCtx) fail(sig, what string) {
	rc.mu.Lock()
	rc.fails = append(rc.fails, Failure{sig, what})
	rc.mu.Unlock()
}

func (rc *runCtx) note(f string, a ...interface{}) {
	rc.mu.Lock()
	if len(rc.notes) < 40 {
		rc.notes = append(rc.notes, fmt.Sprintf(f, a...))
	}
	rc.mu.Unlock()
}

// startSettle fires the trigger after the settle period even if fewer than k events happened.
func (rc *runCtx) startSettle(d time.Duration) {
	go func() {
		select {
		case <-time.After(d):
			rc.fire()
		case <-rc.trig:
		}
	}()
}

// guard runs f on a new goroutine, converting a panic into a monitor failure.
func (rc *runCtx) guard(name string, f func()) {
	go func() {
		defer func() {
			if r := recover(); r != nil {
				rc.fail("panic:"+classifyPanic(fmt.Sprint(r)), fmt.Sprintf("harness goroutine %s recovered panic: %v", name, r))
			}
		}()
		f()
	}()
}

func classifyPanic(s string) string {
	switch {
	case strings.Contains(s, "send on closed channel"):
		return "send-on-closed-channel"
	case strings.Contains(s, "close of closed channel"):
		return "close-of-closed-channel"
	case strings.Contains(s, "close of nil channel"):
		return "close-of-nil-channel"
	case strings.Contains(s, "negative WaitGroup counter"):
		return "negative-waitgroup"
	case strings.Contains(s, "WaitGroup"):
		return "waitgroup-misuse"
	case strings.Contains(s, "nil pointer"):
		return "nil-dereference"
	}
	return "other"
}

// within waits for done up to hangBound; false = hang.
func within(done <-chan struct{}) bool {
	select {
	case <-done:
		return true
	case <-time.After(hangBound):
		return false
	}
}

// call runs f on its own goroutine and reports whether it returned within the bound.
func (rc *runCtx) call(name string, f func()) bool {
	done := make(chan struct{})
	rc.guard(name, func() {
		defer close(done)
		f()
	})
	return within(done)
}

// saramaGoroutines returns the stack headers of goroutines that are inside package sarama (mock broker
// goroutines excluded), used for the leak note.
func saramaGoroutines() []string {
	buf := make([]byte, 1<<20)
	n := runtime.Stack(buf, true)
	var out []string
	for _, g := range strings.Split(string(buf[:n]), "\n\n") {
		if !strings.Contains(g, "Shopify/sarama.") {
			continue
		}
		if strings.Contains(g, "sarama.(*MockBroker)") {
			continue
		}
		lines := strings.Split(g, "\n")
		fn := ""
		for _, l := range lines[1:] {
			if strings.Contains(l, "Shopify/sarama.") && !strings.HasPrefix(l, "\t") {
				fn = l
				if i := strings.LastIndex(fn, "("); i > 0 {
					fn = fn[:i]
				}
				fn = strings.TrimPrefix(fn, "github.com/Shopify/sarama.")
				break
			}
		}
		out = append(out, fn)
	}
	return out
}

// ---------------------------------------------------------------------------------------------
// panic handler: sarama goroutines started with withRecover report here instead of killing the process

var curRun atomic.Value // *runCtx

func installPanicHandler() {
	sarama.PanicHandler = func(v interface{}) {
		if rc, ok := curRun.Load().(*runCtx); ok && rc != nil {
			rc.fail("panic:"+classifyPanic(fmt.Sprint(v)), fmt.Sprintf("sarama goroutine panicked (PanicHandler): %v", v))
		}
	}
}

// ---------------------------------------------------------------------------------------------
// configuration with short timeouts so that a hang is distinguishable from slowness

func baseConfig(version sarama.KafkaVersion) *sarama.Config {
	c := sarama.NewConfig()
	c.Version = version
	c.Net.DialTimeout = netTimeout
	c.Net.ReadTimeout = netTimeout
	c.Net.WriteTimeout = netTimeout
	c.Metadata.Retry.Max = 1
	c.Metadata.Retry.Backoff = 15 * time.Millisecond
	c.Metadata.RefreshFrequency = 0
	c.Producer.Retry.Backoff = 25 * time.Millisecond
	c.Producer.Return.Successes = true
	c.Producer.Return.Errors = true
	c.Consumer.Retry.Backoff = 25 * time.Millisecond
	c.Consumer.MaxWaitTime = 10 * time.Millisecond
	c.Consumer.Return.Errors = true
	c.Consumer.Offsets.AutoCommit.Interval = 20 * time.Millisecond
	c.Consumer.Offsets.Retry.Max = 1
	c.Consumer.Group.Session.Timeout = 2 * time.Second
	c.Consumer.Group.Heartbeat.Interval = 20 * time.Millisecond
	c.Consumer.Group.Rebalance.Timeout = 1 * time.Second
	c.Consumer.Group.Rebalance.Retry.Max = 2
	c.Consumer.Group.Rebalance.Retry.Backoff = 25 * time.Millisecond
	return c
}

// quietT satisfies sarama.TestReporter for mock brokers; errors of the mock itself are notes.
type quietT struct{ rc *runCtx }

func (q quietT) Error(a ...interface{})            { q.rc.note("mock: %s", fmt.Sprint(a...)) }
func (q quietT) Errorf(f string, a ...interface{}) { q.rc.note("mock: "+f, a...) }
func (q quietT) Fatal(a ...interface{})            { q.rc.note("mock fatal: %s", fmt.Sprint(a...)) }
func (q quietT) Fatalf(f string, a ...interface{}) { q.rc.note("mock fatal: "+f, a...) }

func (res *Result) finish(rc *runCtx) {
	res.Events = int(atomic.LoadInt32(&rc.events))
	res.ClosedAt = int(atomic.LoadInt32(&rc.closedAt))
	rc.mu.Lock()
	res.Failures = append([]Failure(nil), rc.fails...)
	res.Notes = append(append([]string(nil), rc.notes...), fmt.Sprintf("requests=%v", rc.reqLog))
	rc.mu.Unlock()
	res.Millis = time.Since(rc.t0).Milliseconds()
}
