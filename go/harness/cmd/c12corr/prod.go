package main

import (
	"fmt"
	"sync/atomic"
	"time"

	"github.com/Shopify/sarama"
)

// ---------------------------------------------------------------------------------------------
// Async producer scenarios (non-idempotent; the idempotent retry-exhaustion hang is the C01 finding).
//
//   idle         every produce request is answered at once
//   midreq       the first produce request is held until Close was invoked, then answered
//   silent       the first produce request is never answered (read timeout -> broker worker closing,
//                messages retried or failed)
//   retry        the first nerr produce requests answer NotLeaderForPartition: retry levels, back-off
//                (25 ms), metadata refresh (leader moves to broker 1 when there are two)
//   unreachable  after the first answer the leader goes away: connection errors, retries, failures
//   twolevel     the first message is bounced TWICE by its leader (NotLeaderForPartition; the first retry level has
//                wound down in between, so the partition producer jumps from level 0 to level 2), and from the
//                second bounce on the metadata has no leader (Metadata.Retry.Max = 0): the message fails, the
//                level-2 chaser comes back and the flush of the levels below finds no leader. After the
//                message's outcome and a pause the leader is back (heal = 1) or stays away; only then the
//                observation is armed: nmsg more messages, Close at the k-th event. A partition producer left
//                in a retry level nobody will flush parks these messages for good (shutdown hangs).
//   slowerr      every produce request fails with a non-retriable error, the first answer is held until Close
//                was invoked, and from then on the application receives slowly (30 ms between receives,
//                ChannelBufferSize 0): the failing messages' errors are still being handed over while
//                shutdown() waits - Errors() must not be closed before the last of them was delivered
//
// parameters: nmsg (messages the application tries to send), rmax (Producer.Retry.Max), flush
// (Producer.Flush.Messages), buf (ChannelBufferSize), brokers (1|2), nerr.
// Observables counted for k: produce/metadata requests received, successes and errors delivered.

type prodScript struct {
	rc       *runCtx
	spec     Spec
	brokers  []*sarama.MockBroker
	produces int32
	moved    int32
	heldOnce int32
	gone     int32
}

func (s *prodScript) metadata(req *sarama.MetadataRequest) interface{} {
	leader := s.brokers[0].BrokerID()
	if atomic.LoadInt32(&s.moved) == 1 {
		leader = s.brokers[len(s.brokers)-1].BrokerID()
	}
	r := &sarama.MetadataResponse{Version: req.Version}
	for _, b := range s.brokers {
		r.AddBroker(b.Addr(), b.BrokerID())
	}
	if s.spec.Scen == "twolevel" && atomic.LoadInt32(&s.gone) == 1 {
		r.AddTopicPartition(topic, 0, -1, nil, nil, nil, sarama.ErrLeaderNotAvailable)
		return r
	}
	r.AddTopicPartition(topic, 0, leader, []int32{leader}, []int32{leader}, nil, sarama.ErrNoError)
	return r
}

func (s *prodScript) produceAnswer(req *sarama.ProduceRequest, kerr sarama.KError) *sarama.ProduceResponse {
	res := &sarama.ProduceResponse{Version: req.Version}
	for t, ps := range sarama.VerifC12ProducePartitions(req) {
		for _, p := range ps {
			res.AddTopicPartition(t, p, kerr)
		}
	}
	return res
}

func (s *prodScript) handler(b *sarama.MockBroker) func(string, interface{}) interface{} {
	return func(kind string, body interface{}) interface{} {
		s.rc.request(b.BrokerID(), kind)
		switch kind {
		case "MetadataRequest":
			return s.metadata(body.(*sarama.MetadataRequest))
		case "ProduceRequest":
			req := body.(*sarama.ProduceRequest)
			n := atomic.AddInt32(&s.produces, 1)
			switch s.spec.Scen {
			case "midreq":
				if atomic.CompareAndSwapInt32(&s.heldOnce, 0, 1) {
					return sarama.VerifC12Hold{Inner: s.produceAnswer(req, sarama.ErrNoError), Gate: s.rc.afterInvoked(10 * time.Millisecond)}
				}
			case "silent":
				if atomic.CompareAndSwapInt32(&s.heldOnce, 0, 1) {
					return nil
				}
			case "retry":
				if int(n) <= s.spec.p("nerr", 1) {
					atomic.StoreInt32(&s.moved, 1)
					return s.produceAnswer(req, sarama.ErrNotLeaderForPartition)
				}
			case "twolevel":
				if n == 1 {
					return s.produceAnswer(req, sarama.ErrNotLeaderForPartition)
				}
				if n == 2 {
					atomic.StoreInt32(&s.gone, 1)
					return s.produceAnswer(req, sarama.ErrNotLeaderForPartition)
				}
			case "slowerr":
				if atomic.CompareAndSwapInt32(&s.heldOnce, 0, 1) {
					return sarama.VerifC12Hold{Inner: s.produceAnswer(req, sarama.ErrMessageSizeTooLarge), Gate: s.rc.afterInvoked(10 * time.Millisecond)}
				}
				return s.produceAnswer(req, sarama.ErrMessageSizeTooLarge)
			case "unreachable":
				if n >= 2 {
					return sarama.VerifC12Drop{}
				}
			}
			return s.produceAnswer(req, sarama.ErrNoError)
		}
		return nil
	}
}

func runProducer(spec Spec) Result {
	rc := newRunCtx(spec)
	curRun.Store(rc)
	res := Result{Spec: spec}
	nb := spec.p("brokers", 1)
	s := &prodScript{rc: rc, spec: spec}
	for i := 0; i < nb; i++ {
		s.brokers = append(s.brokers, sarama.NewMockBroker(quietT{rc}, int32(i)))
	}
	for _, b := range s.brokers {
		b.VerifC12SetHandler(s.handler(b))
	}
	defer func() {
		for _, b := range s.brokers {
			b.Close()
		}
	}()
	cfg := baseConfig(sarama.MinVersion)
	cfg.ChannelBufferSize = spec.p("buf", 1)
	cfg.Producer.Retry.Max = spec.p("rmax", 1)
	cfg.Producer.Flush.Messages = spec.p("flush", 1)
	cfg.Producer.Flush.Frequency = 5 * time.Millisecond
	if spec.Scen == "twolevel" {
		cfg.Metadata.Retry.Max = 0
		cfg.Producer.Retry.Max = 3
	}
	p, err := sarama.NewAsyncProducer([]string{s.brokers[0].Addr()}, cfg)
	if err != nil {
		rc.note("NewAsyncProducer: %v", err)
		res.Notes = rc.notes
		return res
	}
	nmsg := spec.p("nmsg", 2)
	var obs []string
	log := func(x string) { obs = append(obs, x) }
	sent, succ, errs := 0, 0, 0
	if spec.Scen == "twolevel" {
		// before the observation is armed: one message through two retry levels into the leaderless cluster
		select {
		case p.Input() <- &sarama.ProducerMessage{Topic: topic, Partition: 0, Value: sarama.StringEncoder("first")}:
			sent++
		case <-time.After(5 * time.Second):
			rc.note("twolevel: the first message was not accepted")
		}
		select {
		case <-p.Errors():
			errs++
			log("Ev 1")
		case <-p.Successes():
			succ++
			log("Ev 0")
			rc.note("twolevel: the first message succeeded (script not reached)")
		case <-time.After(5 * time.Second):
			rc.note("twolevel: no outcome for the first message")
		}
		time.Sleep(80 * time.Millisecond) // the level-2 chaser returns, the levels below are flushed
		if spec.p("heal", 1) == 1 {
			atomic.StoreInt32(&s.gone, 0)
		}
		nmsg += sent
	}
	rc.arm()
	rc.startSettle(settle)
	complete := false
	done := make(chan struct{})
	rc.guard("producer-app", func() {
		defer close(done)
		input := p.Input()
		sc, ec := p.Successes(), p.Errors()
		trig := rc.trig
		var closeDeadline <-chan time.Time
		for sc != nil || ec != nil {
			var in chan<- *sarama.ProducerMessage
			if sent < nmsg && trig != nil {
				in = input
			}
			if trig == nil && spec.Scen == "slowerr" {
				time.Sleep(30 * time.Millisecond) // a slow (not a stopped) reader
			}
			select {
			case in <- &sarama.ProducerMessage{Topic: topic, Partition: 0, Value: sarama.StringEncoder("v")}:
				sent++
			case _, ok := <-sc:
				if ok {
					succ++
					log("Ev 0")
					rc.event("succ")
				} else {
					log("Closed 0")
					sc = nil
				}
			case _, ok := <-ec:
				if ok {
					errs++
					log("Ev 1")
					rc.event("err")
				} else {
					log("Closed 1")
					ec = nil
				}
			case <-trig:
				trig = nil
				closeDeadline = time.After(hangBound)
				if !spec.Sync {
					log("Call 0")
					p.AsyncClose()
					rc.markInvoked()
					break
				}
				log("Call 1")
				ret := make(chan int, 1)
				rc.guard("producer.Close", func() {
					n := 0
					if err := p.Close(); err != nil {
						if pe, ok := err.(sarama.ProducerErrors); ok {
							n = len(pe)
						} else {
							n = 1
						}
					}
					ret <- n
				})
				rc.markInvoked()
				select {
				case n := <-ret:
					log(fmt.Sprintf("Ret 1 %d", n))
					errs += n
				case <-time.After(hangBound):
					rc.fail("hang:producer-close", "AsyncProducer.Close did not return within the bound")
					log("Ret 9 9")
					return
				}
				// Close returned after Errors() was closed; Successes() is closed right after it by the same goroutine
				select {
				case _, ok := <-ec:
					if ok {
						rc.fail("event-after-close:producer-errors", "error delivered after Close returned")
					} else {
						log("Closed 1")
					}
				default:
					rc.fail("open-after-close:producer-errors", "Errors() not closed when Close returned")
					log("Ret 9 9")
				}
				ec = nil
				// Close() drains the successes itself in a goroutine: what it took is not seen here
				select {
				case _, ok := <-sc:
					if !ok {
						log("Closed 0")
					}
				case <-time.After(hangBound):
					rc.fail("hang:producer-successes", "Successes() not closed after Close returned")
					log("Ret 9 9")
				}
				sc = nil
			case <-closeDeadline:
				rc.fail("hang:producer-channels", fmt.Sprintf("channels not closed within the bound after AsyncClose (successes open=%v errors open=%v)", sc != nil, ec != nil))
				log("Ret 9 9")
				return
			}
		}
		complete = true
	})
	select {
	case <-done:
	case <-time.After(2*hangBound + 10*time.Second):
		rc.fail("hang:producer-run", "producer application did not finish")
	}
	// every message the application handed over got its outcome (AsyncClose variant: all of them are seen)
	if complete && !spec.Sync && succ+errs != sent {
		rc.fail("lost-outcome:producer", fmt.Sprintf("sent %d messages, saw %d successes + %d errors before the channels were closed", sent, succ, errs))
	}
	syncI := int64(0)
	if spec.Sync {
		syncI = 1
	}
	res.Comps = append(res.Comps, CompObs{Comp: "producer", Cfg: []int64{int64(spec.p("buf", 1)), int64(sent), syncI}, Obs: obs, Complete: complete && !spec.Sync})
	res.finish(rc)
	return res
}
