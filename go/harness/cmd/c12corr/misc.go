package main

import (
	"fmt"
	"sync/atomic"
	"time"

	"github.com/Shopify/sarama"
)

// ---------------------------------------------------------------------------------------------
// Offset manager scenarios.
//   idle       nothing is marked: the ticker commits nothing
//   marking    the application marks an offset every 7 ms: commits flow
//   inflight   the first OffsetCommit is held until Close was invoked, then answered
//   failing    every OffsetCommit answers NotCoordinatorForConsumer (errors to the POMs, coordinator dropped)
//   silent     OffsetCommit is never answered (read timeout, errors, connection closed)
// parameters: np (POMs), buf, reterr, auto (AutoCommit.Enable).
// Close: POMs AsyncClose (documented order: POMs before the manager), then OffsetManager.Close, the
// application drains every POM's Errors() until closed; second Close; then Client.Close.

type omScript struct {
	rc       *runCtx
	spec     Spec
	broker   *sarama.MockBroker
	heldOnce int32
}

func (s *omScript) handler() func(string, interface{}) interface{} {
	b := s.broker
	np := s.spec.p("np", 1)
	return func(kind string, body interface{}) interface{} {
		s.rc.request(b.BrokerID(), kind)
		switch kind {
		case "MetadataRequest":
			req := body.(*sarama.MetadataRequest)
			r := &sarama.MetadataResponse{Version: req.Version}
			r.AddBroker(b.Addr(), b.BrokerID())
			for p := 0; p < np; p++ {
				r.AddTopicPartition(topic, int32(p), b.BrokerID(), []int32{b.BrokerID()}, []int32{b.BrokerID()}, nil, sarama.ErrNoError)
			}
			return r
		case "FindCoordinatorRequest", "ConsumerMetadataRequest":
			return sarama.NewMockFindCoordinatorResponse(quietT{s.rc}).SetCoordinator(sarama.CoordinatorGroup, groupID, b)
		case "OffsetFetchRequest":
			req := body.(*sarama.OffsetFetchRequest)
			r := &sarama.OffsetFetchResponse{Version: req.Version}
			for p := 0; p < np; p++ {
				r.AddBlock(topic, int32(p), &sarama.OffsetFetchResponseBlock{Offset: 5})
			}
			return r
		case "OffsetCommitRequest":
			ok := sarama.NewMockOffsetCommitResponse(quietT{s.rc})
			switch s.spec.Scen {
			case "inflight":
				if atomic.CompareAndSwapInt32(&s.heldOnce, 0, 1) {
					return sarama.VerifC12Hold{Inner: ok, Gate: s.rc.afterInvoked(10 * time.Millisecond)}
				}
			case "failing":
				m := sarama.NewMockOffsetCommitResponse(quietT{s.rc})
				for p := 0; p < np; p++ {
					m.SetError(groupID, topic, int32(p), sarama.ErrNotCoordinatorForConsumer)
				}
				return m
			case "silent":
				return nil
			}
			return ok
		}
		return nil
	}
}

func runOffsets(spec Spec) Result {
	rc := newRunCtx(spec)
	curRun.Store(rc)
	res := Result{Spec: spec}
	s := &omScript{rc: rc, spec: spec}
	s.broker = sarama.NewMockBroker(quietT{rc}, 0)
	s.broker.VerifC12SetHandler(s.handler())
	defer s.broker.Close()
	cfg := baseConfig(sarama.V0_10_2_0)
	cfg.ChannelBufferSize = spec.p("buf", 1)
	cfg.Consumer.Return.Errors = spec.p("reterr", 1) == 1
	cfg.Consumer.Offsets.AutoCommit.Enable = spec.p("auto", 1) == 1
	client, err := sarama.NewClient([]string{s.broker.Addr()}, cfg)
	if err != nil {
		rc.note("NewClient: %v", err)
		res.Notes = rc.notes
		return res
	}
	om, err := sarama.NewOffsetManagerFromClient(groupID, client)
	if err != nil {
		rc.note("NewOffsetManager: %v", err)
		_ = client.Close()
		res.Notes = rc.notes
		return res
	}
	np := spec.p("np", 1)
	var poms []sarama.PartitionOffsetManager
	for p := 0; p < np; p++ {
		pom, err := om.ManagePartition(topic, int32(p))
		if err != nil {
			rc.note("ManagePartition: %v", err)
			_ = om.Close()
			_ = client.Close()
			res.Notes = rc.notes
			return res
		}
		poms = append(poms, pom)
	}
	rc.arm()
	rc.startSettle(settle)

	// marker goroutine (the application keeps working until it closes)
	stopMark := make(chan struct{})
	if spec.Scen != "idle" {
		go func() {
			off := int64(6)
			for {
				select {
				case <-stopMark:
					return
				case <-time.After(7 * time.Millisecond):
					for _, pom := range poms {
						pom.MarkOffset(off, "")
					}
					off++
				}
			}
		}()
	}

	var obs []string
	open := make([]<-chan *sarama.ConsumerError, np)
	nopen := 0
	for i, pom := range poms {
		open[i] = pom.Errors()
		nopen++
	}
	ret := make(chan struct{})
	var retc <-chan struct{}
	trig := rc.trig
	hung := false
	var closeDeadline <-chan time.Time
	for (nopen > 0 || trig != nil || retc != nil) && !hung {
		var e0, e1 <-chan *sarama.ConsumerError
		e0 = open[0]
		if np > 1 {
			e1 = open[1]
		}
		select {
		case _, ok := <-e0:
			if ok {
				obs = append(obs, "Ev 0")
				rc.event("err")
			} else {
				obs = append(obs, "Closed 0")
				open[0] = nil
				nopen--
			}
		case _, ok := <-e1:
			if ok {
				obs = append(obs, "Ev 1")
				rc.event("err")
			} else {
				obs = append(obs, "Closed 1")
				open[1] = nil
				nopen--
			}
		case <-trig:
			trig = nil
			close(stopMark)
			closeDeadline = time.After(hangBound)
			for _, pom := range poms {
				pom.AsyncClose()
			}
			obs = append(obs, "Call 0")
			retc = ret
			rc.guard("om.Close", func() {
				_ = om.Close()
				close(ret)
			})
			rc.markInvoked()
		case <-retc:
			retc = nil
			obs = append(obs, "Ret 0 0")
		case <-closeDeadline:
			hung = true
		}
	}
	if hung {
		if retc != nil {
			rc.fail("hang:offsets-close", "OffsetManager.Close did not return within the bound")
		}
		if nopen > 0 {
			rc.fail("hang:offsets-errors", fmt.Sprintf("%d POM Errors() channels not closed within the bound after Close", nopen))
		}
		obs = append(obs, "Ret 9 9")
	} else {
		if !rc.call("om.Close2", func() {
			obs = append(obs, "Call 0")
			_ = om.Close()
			obs = append(obs, "Ret 0 0")
		}) {
			rc.fail("hang:offsets-second-close", "second OffsetManager.Close did not return")
		}
	}
	var cerr error
	if !rc.call("Client.Close", func() { cerr = client.Close() }) {
		rc.fail("hang:client-close", "Client.Close (after the offset manager) did not return")
	} else if cerr != nil {
		rc.fail("close-error:client", fmt.Sprintf("Client.Close returned %v", cerr))
	}
	res.Comps = append(res.Comps, CompObs{Comp: "offsets",
		Cfg:      []int64{int64(spec.p("auto", 1)), int64(spec.p("reterr", 1)), int64(spec.p("buf", 1)), int64(cfg.Consumer.Offsets.Retry.Max), int64(np)},
		Obs:      obs,
		Complete: !hung})
	res.finish(rc)
	return res
}

// ---------------------------------------------------------------------------------------------
// Client scenarios: background metadata refresh every 12 ms (or switched off), Close at the k-th
// metadata request; "held": the refresh in flight is answered only after Close was invoked; "down":
// the only broker stops answering; "saslfail": SASL/PLAIN is enabled (handshake v1), the first connection
// authenticates, then the server drops the connection on the next metadata request and from then on fails the
// SASL step of every new connection (mode 0: handshake answers UnsupportedSASLMechanism, 1: connection closed
// during the handshake, 2: handshake never answered, 3: handshake fine, authentication answers
// IllegalSASLState): the background refresher keeps opening, failing and closing the broker while Close is
// called. Second Close must answer ErrClosedClient.

func runClient(spec Spec) Result {
	rc := newRunCtx(spec)
	curRun.Store(rc)
	res := Result{Spec: spec}
	b := sarama.NewMockBroker(quietT{rc}, 0)
	defer b.Close()
	var held int32
	b.VerifC12SetHandler(func(kind string, body interface{}) interface{} {
		rc.request(0, kind)
		switch kind {
		case "SaslHandshakeRequest":
			if spec.Scen == "saslfail" && atomic.LoadInt32(&rc.armed) == 1 {
				switch spec.p("mode", 0) {
				case 0:
					return &sarama.SaslHandshakeResponse{Err: sarama.ErrUnsupportedSASLMechanism, EnabledMechanisms: []string{"GSSAPI"}}
				case 1:
					return sarama.VerifC12Drop{}
				case 2:
					return nil
				}
			}
			return &sarama.SaslHandshakeResponse{Err: sarama.ErrNoError, EnabledMechanisms: []string{"PLAIN"}}
		case "SaslAuthenticateRequest":
			if spec.Scen == "saslfail" && atomic.LoadInt32(&rc.armed) == 1 {
				return &sarama.SaslAuthenticateResponse{Err: sarama.ErrIllegalSASLState}
			}
			return &sarama.SaslAuthenticateResponse{Err: sarama.ErrNoError}
		}
		if kind != "MetadataRequest" {
			return nil
		}
		req := body.(*sarama.MetadataRequest)
		r := &sarama.MetadataResponse{Version: req.Version}
		r.AddBroker(b.Addr(), b.BrokerID())
		r.AddTopicPartition(topic, 0, 0, []int32{0}, []int32{0}, nil, sarama.ErrNoError)
		if atomic.LoadInt32(&rc.armed) == 1 {
			switch spec.Scen {
			case "held":
				if atomic.CompareAndSwapInt32(&held, 0, 1) {
					return sarama.VerifC12Hold{Inner: r, Gate: rc.afterInvoked(10 * time.Millisecond)}
				}
			case "down":
				return nil
			case "saslfail":
				return sarama.VerifC12Drop{}
			}
		}
		return r
	})
	cfg := baseConfig(sarama.MinVersion)
	if spec.Scen == "saslfail" {
		cfg = baseConfig(sarama.V1_0_0_0)
		saslPlain(cfg)
	}
	if spec.p("refresh", 1) == 1 {
		cfg.Metadata.RefreshFrequency = 12 * time.Millisecond
	}
	client, err := sarama.NewClient([]string{b.Addr()}, cfg)
	if err != nil {
		rc.note("NewClient: %v", err)
		res.Notes = rc.notes
		return res
	}
	rc.arm()
	rc.startSettle(settle / 2)
	<-rc.trig
	var obs []string
	cls := func(e error) int {
		switch e {
		case nil:
			return 0
		case sarama.ErrClosedClient:
			return 1
		}
		return 9
	}
	ok := rc.call("Client.Close", func() {
		obs = append(obs, "Call 0")
		rc.markInvoked()
		e := client.Close()
		obs = append(obs, fmt.Sprintf("Ret 0 %d", cls(e)))
	})
	if !ok {
		rc.fail("hang:client-close", "Client.Close did not return within the bound")
		obs = append(obs, "Ret 9 9")
	} else {
		for i := 0; i < spec.p("again", 1); i++ {
			if !rc.call("Client.Close2", func() {
				obs = append(obs, "Call 0")
				e := client.Close()
				obs = append(obs, fmt.Sprintf("Ret 0 %d", cls(e)))
				if e != sarama.ErrClosedClient {
					rc.fail("second-close:client", fmt.Sprintf("second Client.Close returned %v, not ErrClosedClient", e))
				}
			}) {
				rc.fail("hang:client-second-close", "second Client.Close did not return")
				obs = append(obs, "Ret 9 9")
			}
		}
		if !client.Closed() {
			rc.fail("not-closed:client", "Closed() is false after Close returned")
		}
	}
	res.Comps = append(res.Comps, CompObs{Comp: "client", Cfg: []int64{}, Obs: obs, Complete: ok})
	res.finish(rc)
	return res
}

// ---------------------------------------------------------------------------------------------
// Broker connection scenarios: "open": Open, wait until connected, optionally a request in flight
// (answered after Close was invoked / never), Close, Close again; "never": Close on a broker that was
// never opened; "refused": Open towards a dead address, then Close; "saslfail": SASL/PLAIN enabled, the
// server accepts the TCP connection and then fails the SASL step (mode as in the client scenario): Open ends
// not connected, Close must answer ErrNotConnected (and must not wait for a receiver that was never started).

func saslPlain(cfg *sarama.Config) {
	cfg.Net.SASL.Enable = true
	cfg.Net.SASL.Mechanism = sarama.SASLTypePlaintext
	cfg.Net.SASL.Handshake = true
	cfg.Net.SASL.Version = sarama.SASLHandshakeV1
	cfg.Net.SASL.User = "u"
	cfg.Net.SASL.Password = "p"
}

func runBroker(spec Spec) Result {
	rc := newRunCtx(spec)
	curRun.Store(rc)
	res := Result{Spec: spec}
	mb := sarama.NewMockBroker(quietT{rc}, 0)
	defer mb.Close()
	mb.VerifC12SetHandler(func(kind string, body interface{}) interface{} {
		rc.request(0, kind)
		switch kind {
		case "SaslHandshakeRequest":
			switch spec.p("mode", 0) {
			case 0:
				return &sarama.SaslHandshakeResponse{Err: sarama.ErrUnsupportedSASLMechanism, EnabledMechanisms: []string{"GSSAPI"}}
			case 1:
				return sarama.VerifC12Drop{}
			case 2:
				return nil
			}
			return &sarama.SaslHandshakeResponse{Err: sarama.ErrNoError, EnabledMechanisms: []string{"PLAIN"}}
		case "SaslAuthenticateRequest":
			if spec.p("mode", 0) == 3 {
				return &sarama.SaslAuthenticateResponse{Err: sarama.ErrSASLAuthenticationFailed}
			}
			return &sarama.SaslAuthenticateResponse{Err: sarama.ErrNoError}
		}
		req, ok := body.(*sarama.MetadataRequest)
		if !ok {
			return nil
		}
		r := &sarama.MetadataResponse{Version: req.Version}
		r.AddBroker(mb.Addr(), 0)
		switch spec.p("inflight", 0) {
		case 1:
			return sarama.VerifC12Hold{Inner: r, Gate: rc.afterInvoked(10 * time.Millisecond)}
		case 2:
			return nil
		}
		return r
	})
	cfg := baseConfig(sarama.MinVersion)
	if spec.Scen == "saslfail" || spec.Scen == "saslok" {
		cfg = baseConfig(sarama.V1_0_0_0)
		saslPlain(cfg)
	}
	cfg.Net.MaxOpenRequests = spec.p("maxopen", 2)
	addr := mb.Addr()
	if spec.Scen == "refused" {
		addr = "127.0.0.1:1"
	}
	br := sarama.NewBroker(addr)
	wasOpen := int64(0)
	if spec.Scen != "never" {
		_ = br.Open(cfg)
		if c, _ := br.Connected(); c {
			wasOpen = 1
		}
	}
	rc.arm()
	reqDone := make(chan struct{})
	nreq := 0
	if wasOpen == 1 && spec.p("inflight", 0) > 0 {
		nreq = spec.p("nreq", 1)
		for i := 0; i < nreq; i++ {
			rc.guard("broker.request", func() {
				_, _ = br.GetMetadata(&sarama.MetadataRequest{})
				reqDone <- struct{}{}
			})
		}
		time.Sleep(15 * time.Millisecond)
	}
	var obs []string
	cls := func(e error) int {
		switch e {
		case nil:
			return 0
		case sarama.ErrNotConnected:
			return 2
		}
		return 9
	}
	ok := rc.call("Broker.Close", func() {
		for i := 0; i < 1+spec.p("again", 1); i++ {
			obs = append(obs, "Call 0")
			rc.markInvoked()
			e := br.Close()
			obs = append(obs, fmt.Sprintf("Ret 0 %d", cls(e)))
		}
	})
	if !ok {
		rc.fail("hang:broker-close", "Broker.Close did not return within the bound")
		obs = append(obs, "Ret 9 9")
	}
	for i := 0; i < nreq; i++ {
		select {
		case <-reqDone:
		case <-time.After(hangBound):
			rc.fail("hang:broker-request", "a request in flight when the connection was closed never returned")
			i = nreq
		}
	}
	res.Comps = append(res.Comps, CompObs{Comp: "broker", Cfg: []int64{wasOpen}, Obs: obs, Complete: ok})
	res.finish(rc)
	return res
}
