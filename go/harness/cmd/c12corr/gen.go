package main

import (
	"math/rand"
	"sort"
)

// scenario families: component, scenario name, largest useful k (observable events up to which a close
// position is distinguishable), parameter generator
type family struct {
	comp, scen string
	kmax       int // base; the parameters add to it (see kmaxOf)
	params     func(r *rand.Rand) map[string]int
}

// kmaxOf: the scenario's event count grows with the number of messages / partitions
func kmaxOf(f family, p map[string]int) int {
	k := f.kmax
	switch f.comp {
	case "producer":
		k = f.kmax/2 + 2*p["nmsg"] + p["nerr"]
	case "pcons":
		k = f.kmax/2 + p["nmsg"]*p["parts"] + 2*p["nerr"]
	case "group":
		if f.scen == "race" {
			return 40 // the close is injected by the hook; without the hook at the 40th event
		}
		k = f.kmax/2 + 6 + p["nmsg"]*p["np"] + 2*p["nerr"]
	}
	return k
}

func pick(r *rand.Rand, xs ...int) int { return xs[r.Intn(len(xs))] }

var families = []family{
	// producer: idle / mid-request / silent server / mid-retry and backing off / unreachable cluster
	{"producer", "idle", 10, func(r *rand.Rand) map[string]int {
		return map[string]int{"nmsg": pick(r, 1, 2, 3, 4), "rmax": pick(r, 0, 1, 2), "flush": pick(r, 1, 2), "buf": pick(r, 0, 1, 4), "brokers": 1}
	}},
	{"producer", "midreq", 8, func(r *rand.Rand) map[string]int {
		return map[string]int{"nmsg": pick(r, 1, 2, 3), "rmax": pick(r, 0, 1, 2), "flush": pick(r, 1, 2), "buf": pick(r, 0, 1, 4), "brokers": 1}
	}},
	{"producer", "silent", 10, func(r *rand.Rand) map[string]int {
		return map[string]int{"nmsg": pick(r, 1, 2, 3), "rmax": pick(r, 0, 1, 2), "flush": pick(r, 1, 2), "buf": pick(r, 0, 1), "brokers": 1}
	}},
	{"producer", "retry", 16, func(r *rand.Rand) map[string]int {
		return map[string]int{"nmsg": pick(r, 1, 2, 3, 4), "rmax": pick(r, 0, 1, 2, 3), "flush": pick(r, 1, 2), "buf": pick(r, 0, 1, 4), "brokers": pick(r, 1, 2), "nerr": pick(r, 1, 2, 3)}
	}},
	{"producer", "twolevel", 8, func(r *rand.Rand) map[string]int {
		return map[string]int{"nmsg": pick(r, 1, 2, 3), "rmax": 3, "flush": pick(r, 1, 2), "buf": pick(r, 0, 1, 4), "brokers": 1, "heal": pick(r, 1, 1, 0)}
	}},
	{"producer", "slowerr", 6, func(r *rand.Rand) map[string]int {
		return map[string]int{"nmsg": pick(r, 1, 2, 3), "rmax": pick(r, 0, 1), "flush": pick(r, 1, 2), "buf": 0, "brokers": 1}
	}},
	{"producer", "unreachable", 14, func(r *rand.Rand) map[string]int {
		return map[string]int{"nmsg": pick(r, 2, 3, 4), "rmax": pick(r, 0, 1, 2), "flush": 1, "buf": pick(r, 0, 1), "brokers": 1}
	}},
	// partition consumer: idle / mid-fetch / redispatching after leader loss / slow reader
	{"pcons", "idle", 12, func(r *rand.Rand) map[string]int {
		return map[string]int{"nmsg": pick(r, 0, 2, 4), "buf": pick(r, 0, 1, 4), "parts": pick(r, 1, 2), "reterr": pick(r, 0, 1), "brokers": 1}
	}},
	{"pcons", "midfetch", 10, func(r *rand.Rand) map[string]int {
		return map[string]int{"nmsg": pick(r, 0, 2, 3), "buf": pick(r, 0, 1), "parts": pick(r, 1, 2), "reterr": pick(r, 0, 1), "brokers": 1}
	}},
	{"pcons", "silent", 10, func(r *rand.Rand) map[string]int {
		return map[string]int{"nmsg": pick(r, 0, 2), "buf": pick(r, 0, 1), "parts": pick(r, 1, 2), "reterr": pick(r, 0, 1), "brokers": 1}
	}},
	{"pcons", "redispatch", 14, func(r *rand.Rand) map[string]int {
		return map[string]int{"nmsg": pick(r, 2, 4), "buf": pick(r, 0, 1, 4), "parts": pick(r, 1, 2), "reterr": pick(r, 0, 1), "brokers": pick(r, 1, 2), "nerr": pick(r, 1, 2)}
	}},
	{"pcons", "leaderloss", 16, func(r *rand.Rand) map[string]int {
		return map[string]int{"nmsg": pick(r, 0, 2), "buf": pick(r, 0, 1, 4), "parts": pick(r, 1, 2), "reterr": pick(r, 0, 1), "brokers": 1}
	}},
	{"pcons", "siblings", 20, func(r *rand.Rand) map[string]int {
		return map[string]int{"nmsg": pick(r, 1, 2), "buf": pick(r, 0, 1, 4), "parts": pick(r, 2, 3), "reterr": pick(r, 0, 1), "brokers": 1}
	}},
	{"pcons", "slow", 10, func(r *rand.Rand) map[string]int {
		return map[string]int{"nmsg": pick(r, 3, 4), "buf": pick(r, 0, 1), "parts": 1, "reterr": pick(r, 0, 1), "brokers": 1}
	}},
	{"pcons", "oor", 8, func(r *rand.Rand) map[string]int {
		return map[string]int{"nmsg": pick(r, 0, 2), "buf": pick(r, 0, 1), "parts": pick(r, 1, 2), "reterr": pick(r, 0, 1), "brokers": 1, "late": pick(r, 0, 1)}
	}},
	// consumer group: during join / sync retry / running with claims / during rebalance / coordinator unreachable
	{"group", "join", 8, func(r *rand.Rand) map[string]int {
		return map[string]int{"np": pick(r, 1, 2), "nmsg": 2, "buf": pick(r, 0, 1, 4), "reterr": pick(r, 0, 1), "shared": pick(r, 0, 1)}
	}},
	{"group", "joinretry", 12, func(r *rand.Rand) map[string]int {
		return map[string]int{"np": pick(r, 1, 2), "nmsg": 2, "buf": pick(r, 0, 1), "reterr": pick(r, 0, 1), "nerr": pick(r, 1, 2, 4), "shared": pick(r, 0, 1)}
	}},
	{"group", "syncretry", 14, func(r *rand.Rand) map[string]int {
		return map[string]int{"np": pick(r, 1, 2), "nmsg": 2, "buf": pick(r, 0, 1), "reterr": pick(r, 0, 1), "nerr": pick(r, 1, 2, 4), "shared": pick(r, 0, 1)}
	}},
	{"group", "running", 30, func(r *rand.Rand) map[string]int {
		return map[string]int{"np": pick(r, 0, 1, 2), "nmsg": pick(r, 0, 2, 4), "buf": pick(r, 0, 1, 4), "reterr": pick(r, 0, 1), "shared": pick(r, 0, 1)}
	}},
	{"group", "rebalance", 40, func(r *rand.Rand) map[string]int {
		return map[string]int{"np": pick(r, 1, 2), "nmsg": pick(r, 0, 2), "buf": pick(r, 0, 1), "reterr": pick(r, 0, 1), "hb": pick(r, 2, 3), "shared": pick(r, 0, 1)}
	}},
	{"group", "noclaims", 14, func(r *rand.Rand) map[string]int {
		return map[string]int{"np": pick(r, 1, 2), "nmsg": 0, "buf": pick(r, 0, 1), "reterr": pick(r, 0, 1), "shared": pick(r, 0, 1)}
	}},
	{"group", "ctxwait", 16, func(r *rand.Rand) map[string]int {
		return map[string]int{"np": pick(r, 1, 2), "nmsg": pick(r, 0, 2), "buf": pick(r, 0, 1), "reterr": pick(r, 0, 1), "shared": pick(r, 0, 1)}
	}},
	{"group", "offsetfail", 12, func(r *rand.Rand) map[string]int {
		return map[string]int{"np": pick(r, 1, 2), "nmsg": 2, "buf": pick(r, 0, 1), "reterr": pick(r, 0, 1), "shared": pick(r, 0, 1), "mode": pick(r, 0, 0, 1)}
	}},
	{"group", "commitfail", 24, func(r *rand.Rand) map[string]int {
		return map[string]int{"np": pick(r, 1, 2), "nmsg": pick(r, 2, 4), "buf": pick(r, 0, 1, 4), "reterr": pick(r, 1, 1, 0), "shared": pick(r, 0, 1), "mode": pick(r, 0, 1, 2)}
	}},
	{"group", "nocoord", 12, func(r *rand.Rand) map[string]int {
		return map[string]int{"np": 1, "nmsg": 0, "buf": pick(r, 0, 1), "reterr": pick(r, 0, 1), "shared": pick(r, 0, 1)}
	}},
	{"group", "coordlost", 20, func(r *rand.Rand) map[string]int {
		return map[string]int{"np": 1, "nmsg": 0, "buf": pick(r, 0, 1), "reterr": pick(r, 0, 1), "shared": pick(r, 0, 1), "mode": pick(r, 0, 1, 1, 2), "heal": pick(r, 0, 0, 1), "nerr": pick(r, 2, 4, 8)}
	}},
	{"group", "silentjoin", 8, func(r *rand.Rand) map[string]int {
		return map[string]int{"np": 1, "nmsg": 0, "buf": pick(r, 0, 1), "reterr": pick(r, 0, 1), "shared": pick(r, 0, 1)}
	}},
	{"group", "race", 0, func(r *rand.Rand) map[string]int {
		return map[string]int{"np": pick(r, 1, 2), "nmsg": pick(r, 2, 4), "buf": pick(r, 1, 4), "reterr": 1, "shared": pick(r, 0, 1)}
	}},
	// offset manager: idle / commit in flight / coordinator failing
	{"offsets", "idle", 4, func(r *rand.Rand) map[string]int {
		return map[string]int{"np": pick(r, 1, 2), "buf": pick(r, 0, 1, 4), "reterr": pick(r, 0, 1), "auto": pick(r, 0, 1)}
	}},
	{"offsets", "marking", 10, func(r *rand.Rand) map[string]int {
		return map[string]int{"np": pick(r, 1, 2), "buf": pick(r, 0, 1, 4), "reterr": pick(r, 0, 1), "auto": 1}
	}},
	{"offsets", "inflight", 6, func(r *rand.Rand) map[string]int {
		return map[string]int{"np": pick(r, 1, 2), "buf": pick(r, 0, 1), "reterr": pick(r, 0, 1), "auto": 1}
	}},
	{"offsets", "failing", 12, func(r *rand.Rand) map[string]int {
		return map[string]int{"np": pick(r, 1, 2), "buf": pick(r, 0, 1, 4), "reterr": pick(r, 0, 1), "auto": 1}
	}},
	{"offsets", "silent", 6, func(r *rand.Rand) map[string]int {
		return map[string]int{"np": pick(r, 1, 2), "buf": pick(r, 0, 1), "reterr": pick(r, 0, 1), "auto": 1}
	}},
	// client with background refresh; broker connection
	{"client", "refresh", 6, func(r *rand.Rand) map[string]int { return map[string]int{"refresh": pick(r, 0, 1, 1), "again": pick(r, 1, 2)} }},
	{"client", "held", 4, func(r *rand.Rand) map[string]int { return map[string]int{"refresh": 1, "again": 1} }},
	{"client", "down", 6, func(r *rand.Rand) map[string]int { return map[string]int{"refresh": 1, "again": 1} }},
	{"client", "saslfail", 8, func(r *rand.Rand) map[string]int {
		return map[string]int{"refresh": 1, "again": 1, "mode": pick(r, 0, 1, 2, 3)}
	}},
	{"broker", "saslfail", 0, func(r *rand.Rand) map[string]int {
		return map[string]int{"again": pick(r, 0, 1), "mode": pick(r, 0, 1, 2, 3), "maxopen": pick(r, 1, 2, 5)}
	}},
	{"broker", "saslok", 2, func(r *rand.Rand) map[string]int {
		return map[string]int{"inflight": pick(r, 0, 1), "nreq": pick(r, 1, 2), "maxopen": pick(r, 2, 5), "again": pick(r, 1, 2), "mode": 9}
	}},
	{"broker", "open", 2, func(r *rand.Rand) map[string]int {
		return map[string]int{"inflight": pick(r, 0, 1, 2), "nreq": pick(r, 1, 2, 3), "maxopen": pick(r, 1, 2, 5), "again": pick(r, 1, 2)}
	}},
	{"broker", "never", 0, func(r *rand.Rand) map[string]int { return map[string]int{"again": pick(r, 0, 1)} }},
	{"broker", "refused", 0, func(r *rand.Rand) map[string]int { return map[string]int{"again": pick(r, 0, 1)} }},
}

// ks: quick = first, last and every third position; thorough = every position.
func ks(kmax int, thorough bool, r *rand.Rand) []int {
	var out []int
	if thorough {
		for k := 0; k <= kmax; k++ {
			out = append(out, k)
		}
		return out
	}
	off := r.Intn(3)
	seen := map[int]bool{}
	for _, k := range append([]int{0, 1, kmax}, func() []int {
		var v []int
		for k := 1 + off; k < kmax; k += 3 {
			v = append(v, k)
		}
		return v
	}()...) {
		if k >= 0 && k <= kmax && !seen[k] {
			seen[k] = true
			out = append(out, k)
		}
	}
	sort.Ints(out)
	return out
}

// makeSpecs: deterministic for (seed, tier). Every family gets `rounds` parameter draws; each draw is run at
// every selected k, alternating Close / AsyncClose where the component has both.
func makeSpecs(seed int64, thorough bool, limit int) []Spec {
	r := rand.New(rand.NewSource(seed*7919 + 17))
	rounds := 3
	if thorough {
		rounds = 8
	}
	var specs []Spec
	id := 0
	for round := 0; round < rounds; round++ {
		for _, f := range families {
			p := f.params(r)
			kl := ks(kmaxOf(f, p), thorough, r)
			if f.scen == "race" {
				kl = []int{40}
			}
			for _, k := range kl {
				syn := false
				switch f.comp {
				case "producer", "pcons":
					syn = r.Intn(2) == 0
				}
				q := map[string]int{}
				for a, b := range p {
					q[a] = b
				}
				specs = append(specs, Spec{ID: id, Comp: f.comp, Scen: f.scen, K: k, Sync: syn, P: q})
				id++
			}
		}
	}
	if limit > 0 && len(specs) > limit {
		// keep a deterministic spread
		step := float64(len(specs)) / float64(limit)
		var out []Spec
		for i := 0; i < limit; i++ {
			out = append(out, specs[int(float64(i)*step)])
		}
		specs = out
	}
	return specs
}
