package main

import (
	"context"
	"fmt"
	"sync/atomic"
	"time"

	"github.com/Shopify/sarama"
)

// ---------------------------------------------------------------------------------------------
// Consumer group scenarios (one member, broker 0 is seed, leader and coordinator).
//
//   join        JoinGroup is held until Close was invoked, then answered
//   joinretry   the first nerr JoinGroup answers are RebalanceInProgress: retryNewSession back-off
//   syncretry   the first nerr SyncGroup answers are RebalanceInProgress
//   running     session with np claims, nmsg messages each, then empty fetches
//   rebalance   the hb-th heartbeat answers RebalanceInProgress: session ends, the application calls
//               Consume again (join, sync, claims ...)
//   noclaims    the member joins and is given an EMPTY assignment (the topic has partitions, another member
//               owns them): a live session without claims; only the partition-number watcher turns Close
//               into the end of the session
//   ctxwait     session with claims whose handler does not range over Messages() but blocks on
//               session.Context().Done() (legal: "return when the context is done")
//   offsetfail  join and sync succeed with claims, then the initial OffsetFetch of the claims fails (mode 0: block
//               error GroupAuthorizationFailed, 1: connection dropped): newConsumerGroupSession fails after the
//               session object exists and must release it; Consume returns the error, is called again
//   commitfail  running session whose handler marks messages, every OffsetCommit fails (mode 0: OffsetMetadataTooLarge,
//               1: UnknownMemberId, 2: connection dropped): errors reach Errors() while the group is open, the offsets
//               are still dirty when Close is called and the final commit of the release fails too
//   nocoord     FindCoordinator answers ConsumerCoordinatorNotAvailable: Consume fails, is called again
//   coordlost   the coordinator becomes unreachable while Consume is in its retry path, and every lookup fails FAST (the
//               metadata answers carry __consumer_offsets, so a failed RefreshCoordinator costs two round trips and one
//               Metadata.Retry.Backoff, not seconds): mode 0 the very first lookup fails, mode 1 the first lookup succeeds,
//               JoinGroup answers NotCoordinatorForConsumer and every later lookup fails, mode 2 as 1 with SyncGroup
//               answering NotCoordinatorForConsumer; heal = 1: lookups succeed again after `nerr` failures. Close arrives
//               while retryNewSession is refreshing the coordinator in a loop (adversary change C12-11)
//   silentjoin  JoinGroup is never answered (read timeout)
//   race        (needs the hook of hooks/c12_group_handleerror.patch; without it an ordinary run) the partition
//               consumer reports errors; the first error forwarder that has passed handleError's closed check is
//               held there, Close is called and runs to completion, then the forwarder continues: on the pinned
//               tree it sends on the closed c.errors (the process dies: plain goroutine); with errorsLock Close
//               waits for it
//
// parameters: np (claims), nmsg, buf (ChannelBufferSize), reterr, nerr, hb, shared (the group uses a client the
// application made and closes afterwards).
// The application: one goroutine calls Consume in a loop until the group is closed, the handler ranges over
// claim.Messages() and marks them, Errors() is serviced. Close at the k-th observable event (requests
// received, messages handled, errors delivered); then a second Close and a Consume on the closed group.

type grpScript struct {
	rc       *runCtx
	spec     Spec
	broker   *sarama.MockBroker
	joins    int32
	syncs    int32
	beats    int32
	heldOnce int32
	finds    int32
	lost     int32 // coordlost: 1 once the coordinator was declared lost
	gen      int32
	fetches  int32
	nmsg     int
}

const groupID = "g"

func (s *grpScript) handler() func(string, interface{}) interface{} {
	b := s.broker
	np := s.spec.p("np", 1)
	return func(kind string, body interface{}) interface{} {
		s.rc.request(b.BrokerID(), kind)
		switch kind {
		case "MetadataRequest":
			req := body.(*sarama.MetadataRequest)
			r := &sarama.MetadataResponse{Version: req.Version}
			r.AddBroker(b.Addr(), b.BrokerID())
			for p := 0; p < np; p++ {
				r.AddTopicPartition(topic, int32(p), b.BrokerID(), []int32{b.BrokerID()}, []int32{b.BrokerID()}, nil, sarama.ErrNoError)
			}
			if s.spec.Scen == "coordlost" {
				r.AddTopicPartition("__consumer_offsets", 0, b.BrokerID(), []int32{b.BrokerID()}, []int32{b.BrokerID()}, nil, sarama.ErrNoError)
			}
			return r
		case "FindCoordinatorRequest":
			m := sarama.NewMockFindCoordinatorResponse(quietT{s.rc})
			if s.spec.Scen == "nocoord" {
				return m.SetError(sarama.CoordinatorGroup, groupID, sarama.ErrConsumerCoordinatorNotAvailable)
			}
			if s.spec.Scen == "coordlost" {
				if s.spec.p("mode", 0) == 0 {
					atomic.StoreInt32(&s.lost, 1)
				}
				if atomic.LoadInt32(&s.lost) == 1 {
					n := atomic.AddInt32(&s.finds, 1)
					if s.spec.p("heal", 0) == 0 || int(n) <= s.spec.p("nerr", 3) {
						return m.SetError(sarama.CoordinatorGroup, groupID, sarama.ErrConsumerCoordinatorNotAvailable)
					}
				}
			}
			return m.SetCoordinator(sarama.CoordinatorGroup, groupID, b)
		case "JoinGroupRequest":
			req := body.(*sarama.JoinGroupRequest)
			n := atomic.AddInt32(&s.joins, 1)
			ok := &sarama.JoinGroupResponse{Version: req.Version, GenerationId: atomic.AddInt32(&s.gen, 1), GroupProtocol: "range",
				LeaderId: "leader-other", MemberId: "m1"}
			switch s.spec.Scen {
			case "join":
				if atomic.CompareAndSwapInt32(&s.heldOnce, 0, 1) {
					return sarama.VerifC12Hold{Inner: ok, Gate: s.rc.afterInvoked(10 * time.Millisecond)}
				}
			case "silentjoin":
				if atomic.CompareAndSwapInt32(&s.heldOnce, 0, 1) {
					return nil
				}
			case "joinretry":
				if int(n) <= s.spec.p("nerr", 1) {
					return &sarama.JoinGroupResponse{Version: req.Version, Err: sarama.ErrRebalanceInProgress}
				}
			case "coordlost":
				if s.spec.p("mode", 0) == 1 && atomic.CompareAndSwapInt32(&s.lost, 0, 1) {
					return &sarama.JoinGroupResponse{Version: req.Version, Err: sarama.ErrNotCoordinatorForConsumer}
				}
			}
			return ok
		case "SyncGroupRequest":
			n := atomic.AddInt32(&s.syncs, 1)
			if s.spec.Scen == "syncretry" && int(n) <= s.spec.p("nerr", 1) {
				return &sarama.SyncGroupResponse{Err: sarama.ErrRebalanceInProgress}
			}
			if s.spec.Scen == "coordlost" && s.spec.p("mode", 0) == 2 && atomic.CompareAndSwapInt32(&s.lost, 0, 1) {
				return &sarama.SyncGroupResponse{Err: sarama.ErrNotCoordinatorForConsumer}
			}
			parts := make([]int32, np)
			for i := range parts {
				parts[i] = int32(i)
			}
			m := sarama.NewMockSyncGroupResponse(quietT{s.rc})
			if np > 0 && s.spec.Scen != "noclaims" {
				m.SetMemberAssignment(&sarama.ConsumerGroupMemberAssignment{Version: 1, Topics: map[string][]int32{topic: parts}})
			}
			return m
		case "HeartbeatRequest":
			n := atomic.AddInt32(&s.beats, 1)
			if s.spec.Scen == "rebalance" && int(n)%s.spec.p("hb", 3) == 0 {
				return &sarama.HeartbeatResponse{Err: sarama.ErrRebalanceInProgress}
			}
			return &sarama.HeartbeatResponse{}
		case "LeaveGroupRequest":
			return &sarama.LeaveGroupResponse{}
		case "OffsetFetchRequest":
			req := body.(*sarama.OffsetFetchRequest)
			r := &sarama.OffsetFetchResponse{Version: req.Version}
			if s.spec.Scen == "offsetfail" {
				if s.spec.p("mode", 0) == 1 {
					return sarama.VerifC12Drop{}
				}
				for p := 0; p < np; p++ {
					r.AddBlock(topic, int32(p), &sarama.OffsetFetchResponseBlock{Offset: -1, Err: sarama.ErrGroupAuthorizationFailed})
				}
				return r
			}
			for p := 0; p < np; p++ {
				r.AddBlock(topic, int32(p), &sarama.OffsetFetchResponseBlock{Offset: -1})
			}
			return r
		case "OffsetCommitRequest":
			if s.spec.Scen == "commitfail" {
				kerr := sarama.ErrOffsetMetadataTooLarge
				switch s.spec.p("mode", 0) {
				case 1:
					kerr = sarama.ErrUnknownMemberId
				case 2:
					return sarama.VerifC12Drop{}
				}
				m := sarama.NewMockOffsetCommitResponse(quietT{s.rc})
				for p := 0; p < np; p++ {
					m.SetError(groupID, topic, int32(p), kerr)
				}
				return m
			}
			return sarama.NewMockOffsetCommitResponse(quietT{s.rc})
		case "OffsetRequest":
			m := sarama.NewMockOffsetResponse(quietT{s.rc}).SetVersion(1)
			for p := 0; p < np; p++ {
				m.SetOffset(topic, int32(p), sarama.OffsetOldest, 0).SetOffset(topic, int32(p), sarama.OffsetNewest, int64(s.nmsg))
			}
			return m
		case "FetchRequest":
			req := body.(*sarama.FetchRequest)
			res := &sarama.FetchResponse{Version: req.Version}
			if s.spec.Scen == "race" && atomic.AddInt32(&s.fetches, 1) >= 2 {
				// an error code the partition consumer passes on to its Errors() channel (and redispatches)
				for _, p := range sarama.VerifC12FetchPartitions(req, topic) {
					res.AddError(topic, p, sarama.ErrBrokerNotAvailable)
				}
				return sarama.VerifC12Hold{Inner: res, Gate: timerGate(3 * time.Millisecond)}
			}
			empty := true
			for _, p := range sarama.VerifC12FetchPartitions(req, topic) {
				off := sarama.VerifC12FetchOffset(req, topic, p)
				n := 0
				for o := off; o < int64(s.nmsg) && n < 2; o++ {
					res.AddMessage(topic, p, nil, sarama.StringEncoder(fmt.Sprintf("m%d", o)), o)
					n++
					empty = false
				}
				if n == 0 {
					res.AddError(topic, p, sarama.ErrNoError)
				}
				res.GetBlock(topic, p).HighWaterMarkOffset = int64(s.nmsg)
			}
			if empty {
				return sarama.VerifC12Hold{Inner: res, Gate: timerGate(5 * time.Millisecond)}
			}
			return res
		}
		return nil
	}
}

type grpHandler struct {
	rc      *runCtx
	ctxWait bool
}

func (grpHandler) Setup(sarama.ConsumerGroupSession) error   { return nil }
func (grpHandler) Cleanup(sarama.ConsumerGroupSession) error { return nil }
func (h grpHandler) ConsumeClaim(sess sarama.ConsumerGroupSession, claim sarama.ConsumerGroupClaim) error {
	if h.ctxWait {
		<-sess.Context().Done()
		return nil
	}
	for m := range claim.Messages() {
		sess.MarkMessage(m, "")
		h.rc.event("msg")
	}
	return nil
}

type note struct {
	label string
	ack   chan struct{}
}

func runGroup(spec Spec) Result {
	rc := newRunCtx(spec)
	curRun.Store(rc)
	res := Result{Spec: spec}
	s := &grpScript{rc: rc, spec: spec, nmsg: spec.p("nmsg", 2)}
	s.broker = sarama.NewMockBroker(quietT{rc}, 0)
	s.broker.VerifC12SetHandler(s.handler())
	defer s.broker.Close()

	cfg := baseConfig(sarama.V0_10_2_0)
	cfg.ChannelBufferSize = spec.p("buf", 1)
	cfg.Consumer.Return.Errors = spec.p("reterr", 1) == 1
	cfg.Consumer.Offsets.Initial = sarama.OffsetOldest
	cfg.Metadata.RefreshFrequency = 40 * time.Millisecond // 0 makes loopCheckPartitionNumbers panic (NewTicker)
	var g sarama.ConsumerGroup
	var shared sarama.Client
	var err error
	if spec.p("shared", 0) == 1 {
		shared, err = sarama.NewClient([]string{s.broker.Addr()}, cfg)
		if err == nil {
			g, err = sarama.NewConsumerGroupFromClient(groupID, shared)
		}
	} else {
		g, err = sarama.NewConsumerGroup([]string{s.broker.Addr()}, groupID, cfg)
	}
	if err != nil {
		rc.note("NewConsumerGroup: %v", err)
		res.Notes = rc.notes
		return res
	}
	rc.arm()
	rc.startSettle(settle)
	closeReturned := make(chan struct{})
	hookReleased := make(chan struct{})
	var held int32
	if spec.Scen == "race" {
		sarama.VerifSetObserver(func(kind string, args ...interface{}) {
			if kind != "cg.handleError.checked" || !atomic.CompareAndSwapInt32(&held, 0, 1) {
				return
			}
			rc.note("hook: a handleError caller is held between its closed check and its send")
			rc.fire()
			select {
			case <-closeReturned:
				time.Sleep(5 * time.Millisecond)
			case <-time.After(1500 * time.Millisecond):
				rc.note("hook: Close did not return while the caller was held (it waits for it)")
			}
			close(hookReleased)
		})
		defer sarama.VerifSetObserver(nil)
	}

	// single logger: everybody reports to the observer; a call is logged (and acknowledged) before it is made
	notes := make(chan note)
	report := func(label string) {
		n := note{label, make(chan struct{})}
		notes <- n
		<-n.ack
	}
	cls := func(e error) int {
		switch e {
		case nil:
			return 0
		case sarama.ErrClosedConsumerGroup:
			return 1
		}
		return 2
	}
	var closedFlag int32
	consumeDone := make(chan struct{})
	rc.guard("group.Consume-loop", func() {
		defer close(consumeDone)
		for i := 0; i < 200; i++ {
			report("Call 1")
			e := g.Consume(context.Background(), []string{topic}, grpHandler{rc, spec.Scen == "ctxwait"})
			report(fmt.Sprintf("Ret 1 %d", cls(e)))
			if e == sarama.ErrClosedConsumerGroup || atomic.LoadInt32(&closedFlag) == 1 {
				return
			}
			time.Sleep(5 * time.Millisecond)
		}
	})
	closeDone := make(chan struct{})
	rc.guard("group.Close", func() {
		defer close(closeDone)
		<-rc.trig
		report("Call 0")
		rc.markInvoked()
		e := g.Close()
		close(closeReturned)
		atomic.StoreInt32(&closedFlag, 1)
		r := 0
		if e != nil {
			r = 1
		}
		report(fmt.Sprintf("Ret 0 %d", r))
	})

	var obs []string
	errs := g.Errors()
	hung := false
	deadline := time.After(hangBound + 2*time.Second)
	cd, kd := consumeDone, closeDone
	for (errs != nil || cd != nil || kd != nil) && !hung {
		select {
		case n := <-notes:
			obs = append(obs, n.label)
			close(n.ack)
		case e, ok := <-errs:
			if ok {
				_ = e
				obs = append(obs, "Ev 0")
				rc.event("err")
			} else {
				obs = append(obs, "Closed 0")
				errs = nil
			}
		case <-cd:
			cd = nil
		case <-kd:
			kd = nil
		case <-deadline:
			hung = true
		}
	}
	if hung {
		if kd != nil {
			rc.fail("hang:group-close", "ConsumerGroup.Close did not return within the bound")
		}
		if cd != nil {
			rc.fail("hang:group-consume", "a blocked Consume call did not return within the bound after Close")
		}
		if errs != nil {
			rc.fail("hang:group-errors", "Errors() not closed within the bound after Close")
		}
		obs = append(obs, "Ret 9 9")
	} else {
		// second Close is harmless; Consume on a closed group answers ErrClosedConsumerGroup
		ok := rc.call("group.Close2", func() {
			obs = append(obs, "Call 0")
			r := 0
			if e := g.Close(); e != nil {
				r = 1
			}
			obs = append(obs, fmt.Sprintf("Ret 0 %d", r))
			obs = append(obs, "Call 1")
			e := g.Consume(context.Background(), []string{topic}, grpHandler{rc, spec.Scen == "ctxwait"})
			obs = append(obs, fmt.Sprintf("Ret 1 %d", cls(e)))
			if e != sarama.ErrClosedConsumerGroup {
				rc.fail("consume-after-close:group", fmt.Sprintf("Consume on a closed group returned %v", e))
			}
		})
		if !ok {
			rc.fail("hang:group-second-close", "second Close / Consume on the closed group did not return")
			obs = append(obs, "Ret 9 9")
		}
	}
	if shared != nil {
		var cerr error
		if !rc.call("Client.Close", func() { cerr = shared.Close() }) {
			rc.fail("hang:client-close", "Client.Close (shared client, after the group) did not return")
		} else if cerr != nil {
			rc.fail("close-error:client", fmt.Sprintf("shared Client.Close returned %v", cerr))
		}
	}
	if atomic.LoadInt32(&held) == 1 {
		// the held caller continues right after the release: if it panics, the process dies inside this run
		select {
		case <-hookReleased:
		case <-time.After(3 * time.Second):
		}
		time.Sleep(80 * time.Millisecond)
	}
	res.Comps = append(res.Comps, CompObs{Comp: "group", Cfg: []int64{}, Obs: obs, Complete: !hung})
	res.finish(rc)
	return res
}
