package main

import (
	"fmt"
	"sync"
	"sync/atomic"
	"time"

	"github.com/Shopify/sarama"
)

// ---------------------------------------------------------------------------------------------
// Partition consumer scenarios.
//
//   idle        broker has nmsg messages, afterwards answers empty fetches (5 ms apart)
//   midfetch    the fetch after the messages is held until Close was invoked, then answered
//   silent      ... is never answered (read timeout -> broker worker aborts -> redispatch)
//   redispatch  the first fetches answer NotLeaderForPartition: the child goes back to its dispatcher,
//               which backs off, refreshes metadata and subscribes again (to broker 1 when there are two)
//   leaderloss  after the first fetch the metadata has no leader: dispatch fails, error + retry loop
//   siblings    2-3 partition consumers on one broker worker; partition 0 loses its leader and every
//               re-dispatch fails (Metadata.Retry.Max = 0, 10 ms back-off) while the siblings keep being
//               served; the close is injected on a healthy sibling (#1), then the other siblings, the
//               leaderless one last. Events counted after the loss: the failed re-dispatches (metadata
//               request, error report) and what the siblings receive - not the 5 ms fetch polls - so k
//               counts failed re-dispatches. Exercises the worker's reference count: a worker that still
//               has subscribers must not be shut down by the leaving child's repeated unref.
//   slow        reader pauses, MaxProcessingTime 20 ms: the feeder's expiry path (abandoned subscription)
//   oor         the broker answers OffsetOutOfRange: the partition consumer shuts itself down
//
// parameters: nmsg, buf (ChannelBufferSize), parts (1|2, both on broker 0), reterr (Return.Errors),
// brokers (1|2). Close order: partition consumers (the one under test first), then Consumer.Close,
// which closes its own client.

const topic = "t"

type pcScript struct {
	rc       *runCtx
	spec     Spec
	brokers  []*sarama.MockBroker
	fetches  int32 // fetch requests seen
	nmsg     int
	lost     int32 // leaderloss: metadata has no leader any more
	moved    int32 // redispatch: leader moved to the last broker
	heldOnce int32
}

func (s *pcScript) metadata() interface{} {
	leader := s.brokers[0].BrokerID()
	if atomic.LoadInt32(&s.moved) == 1 {
		leader = s.brokers[len(s.brokers)-1].BrokerID()
	}
	r := &sarama.MetadataResponse{}
	for _, b := range s.brokers {
		r.AddBroker(b.Addr(), b.BrokerID())
	}
	for p := int32(0); p < int32(s.spec.p("parts", 1)); p++ {
		if atomic.LoadInt32(&s.lost) == 1 && p == 0 {
			r.AddTopicPartition(topic, p, -1, nil, nil, nil, sarama.ErrLeaderNotAvailable)
		} else {
			r.AddTopicPartition(topic, p, leader, []int32{leader}, []int32{leader}, nil, sarama.ErrNoError)
		}
	}
	return r
}

func (s *pcScript) fetchAnswer(req *sarama.FetchRequest, kerr sarama.KError) *sarama.FetchResponse {
	res := &sarama.FetchResponse{}
	for _, p := range sarama.VerifC12FetchPartitions(req, topic) {
		off := sarama.VerifC12FetchOffset(req, topic, p)
		if p == 0 && kerr != sarama.ErrNoError {
			res.AddError(topic, p, kerr)
			continue
		}
		n := 0
		for o := off; o < int64(s.nmsg) && n < 2; o++ {
			res.AddMessage(topic, p, nil, sarama.StringEncoder(fmt.Sprintf("m%d", o)), o)
			n++
		}
		if n == 0 {
			res.AddError(topic, p, sarama.ErrNoError)
		}
		res.GetBlock(topic, p).HighWaterMarkOffset = int64(s.nmsg)
	}
	return res
}

func timerGate(d time.Duration) <-chan struct{} {
	g := make(chan struct{})
	go func() { time.Sleep(d); close(g) }()
	return g
}

func (s *pcScript) handler(b *sarama.MockBroker) func(string, interface{}) interface{} {
	return func(kind string, body interface{}) interface{} {
		if kind == "FetchRequest" && atomic.LoadInt32(&s.lost) == 1 {
			s.rc.requestQuiet(b.BrokerID(), kind) // periodic polls of the siblings: logged, not counted
		} else {
			s.rc.request(b.BrokerID(), kind)
		}
		switch kind {
		case "MetadataRequest":
			return s.metadata()
		case "OffsetRequest":
			return sarama.NewMockOffsetResponse(quietT{s.rc}).
				SetOffset(topic, 0, sarama.OffsetOldest, 0).SetOffset(topic, 0, sarama.OffsetNewest, int64(s.nmsg)).
				SetOffset(topic, 1, sarama.OffsetOldest, 0).SetOffset(topic, 1, sarama.OffsetNewest, int64(s.nmsg)).
				SetOffset(topic, 2, sarama.OffsetOldest, 0).SetOffset(topic, 2, sarama.OffsetNewest, int64(s.nmsg))
		case "FetchRequest":
			req := body.(*sarama.FetchRequest)
			n := atomic.AddInt32(&s.fetches, 1)
			off0 := sarama.VerifC12FetchOffset(req, topic, 0)
			exhausted := off0 >= int64(s.nmsg) || off0 < 0
			has0 := off0 >= 0
			switch s.spec.Scen {
			case "midfetch":
				if exhausted && atomic.CompareAndSwapInt32(&s.heldOnce, 0, 1) {
					return sarama.VerifC12Hold{Inner: s.fetchAnswer(req, sarama.ErrNoError), Gate: s.rc.afterInvoked(10 * time.Millisecond)}
				}
			case "silent":
				if exhausted && atomic.CompareAndSwapInt32(&s.heldOnce, 0, 1) {
					return nil
				}
			case "redispatch":
				if int(n) <= s.spec.p("nerr", 1) {
					atomic.StoreInt32(&s.moved, 1)
					return s.fetchAnswer(req, sarama.ErrNotLeaderForPartition)
				}
			case "leaderloss", "siblings":
				if exhausted && has0 {
					atomic.StoreInt32(&s.lost, 1)
					return s.fetchAnswer(req, sarama.ErrNotLeaderForPartition)
				}
			case "oor":
				if exhausted {
					return s.fetchAnswer(req, sarama.ErrOffsetOutOfRange)
				}
			}
			if exhausted {
				return sarama.VerifC12Hold{Inner: s.fetchAnswer(req, sarama.ErrNoError), Gate: timerGate(5 * time.Millisecond)}
			}
			return s.fetchAnswer(req, sarama.ErrNoError)
		}
		return nil
	}
}

// observePC drives one partition consumer as the application: a single goroutine receives from both
// channels (so the log is the true order of the application's receive operations), injects the close
// when trig fires, and performs the second close at the end.
func observePC(rc *runCtx, pc sarama.PartitionConsumer, trig <-chan struct{}, syncClose bool, pause time.Duration, tag string) (obs []string) {
	msgs, errs := pc.Messages(), pc.Errors()
	log := func(s string) { obs = append(obs, s) }
	if rc.spec.p("late", 0) == 1 {
		// the application turns to its channels late: whatever the partition consumer did by itself (shut itself
		// down after OffsetOutOfRange) has happened, both closes can be observed before the close call
		time.Sleep(40 * time.Millisecond)
	}
	deadline := time.After(hangBound + 5*time.Second)
	var closeRet chan int
	closing := false
	var closeDeadline <-chan time.Time
	for msgs != nil || errs != nil {
		if pause > 0 && !closing {
			select {
			case <-time.After(pause):
			case <-trig:
			}
		}
		select {
		case _, ok := <-msgs:
			if ok {
				log("Ev 0")
				rc.event("msg")
			} else {
				log("Closed 0")
				msgs = nil
			}
		case _, ok := <-errs:
			if ok {
				log("Ev 1")
				rc.event("err")
			} else {
				log("Closed 1")
				errs = nil
			}
		case <-trig:
			trig = nil
			closing = true
			closeDeadline = time.After(hangBound)
			if !syncClose {
				log("Call 0")
				pc.AsyncClose()
				rc.markInvoked()
				break
			}
			// Close(): the application has ceased reading; Close drains the errors itself
			log("Call 1")
			closeRet = make(chan int, 1)
			cr := closeRet
			rc.guard(tag+".Close", func() {
				n := 0
				if err := pc.Close(); err != nil {
					if ce, ok := err.(sarama.ConsumerErrors); ok {
						n = len(ce)
					} else {
						n = 1
					}
				}
				cr <- n
			})
			rc.markInvoked()
			select {
			case n := <-closeRet:
				log(fmt.Sprintf("Ret 1 %d", n))
			case <-time.After(hangBound):
				rc.fail("hang:pcons-close", tag+": PartitionConsumer.Close did not return within the bound")
				log("Ret 9 9")
				return
			}
			// after Close returned both channels must be closed: messages (closed first by the feeder)
			// may still hold buffered items, then reports closed without blocking
			for msgs != nil {
				select {
				case _, ok := <-msgs:
					if ok {
						log("Ev 0")
					} else {
						log("Closed 0")
						msgs = nil
					}
				default:
					log("Ret 9 9")
					rc.fail("open-after-close:pcons-messages", tag+": Messages() not closed when Close returned")
					msgs = nil
				}
			}
			// (errs == nil: its close was already observed before Close was called - a partition consumer that
			// shut itself down after OffsetOutOfRange; a receive from the nil channel would fall into default)
			if errs != nil {
				select {
				case _, ok := <-errs:
					if !ok {
						log("Closed 1")
					} else {
						log("Ev 1")
						rc.fail("event-after-close:pcons-errors", tag+": error delivered after Close returned")
					}
				default:
					log("Ret 9 9")
					rc.fail("open-after-close:pcons-errors", tag+": Errors() not closed when Close returned")
				}
			}
			errs = nil
		case <-closeDeadline:
			rc.fail("hang:pcons-channels", fmt.Sprintf("%s: channels not closed within the bound after AsyncClose (messages open=%v errors open=%v)", tag, msgs != nil, errs != nil))
			log("Ret 9 9")
			return
		case <-deadline:
			rc.fail("hang:pcons-run", tag+": run did not finish")
			log("Ret 9 9")
			return
		}
	}
	// second close: harmless
	ok := rc.call(tag+".Close2", func() {
		pc.AsyncClose()
		log("Call 0"); log("Call 1")
		n := 0
		if err := pc.Close(); err != nil {
			n = 1
		}
		log(fmt.Sprintf("Ret 1 %d", n))
	})
	if !ok {
		rc.fail("hang:pcons-second-close", tag+": second Close did not return")
		log("Ret 9 9")
	}
	return
}

func runPCons(spec Spec) Result {
	rc := newRunCtx(spec)
	curRun.Store(rc)
	res := Result{Spec: spec}
	nb := spec.p("brokers", 1)
	s := &pcScript{rc: rc, spec: spec, nmsg: spec.p("nmsg", 2)}
	for i := 0; i < nb; i++ {
		s.brokers = append(s.brokers, sarama.NewMockBroker(quietT{rc}, int32(i)))
	}
	for _, b := range s.brokers {
		b.VerifC12SetHandler(s.handler(b))
	}
	defer func() {
		for _, b := range s.brokers {
			b.Close()
		}
	}()

	cfg := baseConfig(sarama.MinVersion)
	cfg.ChannelBufferSize = spec.p("buf", 1)
	cfg.Consumer.Return.Errors = spec.p("reterr", 1) == 1
	pause := time.Duration(0)
	first := 0
	if spec.Scen == "siblings" {
		cfg.Metadata.Retry.Max = 0
		cfg.Consumer.Retry.Backoff = 10 * time.Millisecond
		first = 1
	}
	if spec.Scen == "slow" {
		cfg.Consumer.MaxProcessingTime = 15 * time.Millisecond
		pause = 50 * time.Millisecond
	}
	master, err := sarama.NewConsumer([]string{s.brokers[0].Addr()}, cfg)
	if err != nil {
		rc.note("NewConsumer: %v", err)
		res.Notes = rc.notes
		return res
	}
	parts := spec.p("parts", 1)
	var pcs []sarama.PartitionConsumer
	for p := 0; p < parts; p++ {
		pc, err := master.ConsumePartition(topic, int32(p), 0)
		if err != nil {
			rc.note("ConsumePartition %d: %v", p, err)
			_ = master.Close()
			res.Notes = rc.notes
			return res
		}
		pcs = append(pcs, pc)
	}
	rc.arm()
	rc.startSettle(settle)

	var wg sync.WaitGroup
	obs := make([][]string, parts)
	// the partition consumer under test is #first (0; a healthy sibling in "siblings"); the others are
	// closed after it (documented order only requires all of them before the Consumer)
	firstDone := make(chan struct{})
	for i := range pcs {
		i := i
		wg.Add(1)
		rc.guard(fmt.Sprintf("pc%d", i), func() {
			defer wg.Done()
			if i == first {
				obs[i] = observePC(rc, pcs[i], rc.trig, spec.Sync, pause, fmt.Sprintf("pc%d", i))
				close(firstDone)
			} else {
				obs[i] = observePC(rc, pcs[i], firstDone, false, 0, fmt.Sprintf("pc%d", i))
			}
		})
	}
	done := make(chan struct{})
	go func() { wg.Wait(); close(done) }()
	select {
	case <-done:
	case <-time.After(hangBound + 10*time.Second):
		rc.fail("hang:pcons-run", "partition consumer observers did not finish")
	}
	// Consumer.Close after its partition consumers; it owns the client
	var cerr error
	if !rc.call("Consumer.Close", func() { cerr = master.Close() }) {
		rc.fail("hang:consumer-close", "Consumer.Close did not return within the bound")
	} else if cerr != nil {
		rc.fail("close-error:consumer", fmt.Sprintf("Consumer.Close returned %v", cerr))
	}
	for i := range pcs {
		res.Comps = append(res.Comps, CompObs{Comp: "pcons", Cfg: pcCfg(spec, i), Obs: obs[i], Complete: true})
	}
	res.finish(rc)
	return res
}

// pcCfg: model configuration of a partition consumer instance:
//   [ return_errors, buffer_capacity, may_shut_itself_down (offset-out-of-range scenario) ]
func pcCfg(spec Spec, idx int) []int64 {
	oor := int64(0)
	if spec.Scen == "oor" && idx == 0 {
		oor = 1
	}
	return []int64{int64(spec.p("reterr", 1)), int64(spec.p("buf", 1)), oor}
}
