// c12corr: shutdown scenarios against sarama.MockBrokers with Close/AsyncClose injected at the k-th
// observable event; writes the observed shutdown behaviour as Coq cases for SV.C12.Corr plus the direct
// property monitor verdict per run (hang, panic, channel left open, second close not harmless).
//
// Parent mode (default): makes the run list from -seed/-tier, executes it in child processes (a send on
// a closed channel inside a plain sarama goroutine kills the process: a crash is a monitor failure of
// the run that was executing), then writes cases_*.v + .jsonl.
// Child mode (-child FILE): executes the runs listed in FILE sequentially, printing START/RESULT lines.
package main

import (
	"bufio"
	"bytes"
	"encoding/json"
	"flag"
	"fmt"
	"io/ioutil"
	"log"
	"os"
	"os/exec"
	"path/filepath"
	"sort"
	"strings"
	"sync"
	"time"

	"github.com/Shopify/sarama"

	cf "verifharness/internal/coqfmt"
)

func runSpec(s Spec) Result {
	switch s.Comp {
	case "producer":
		return runProducer(s)
	case "pcons":
		return runPCons(s)
	case "group":
		return runGroup(s)
	case "offsets":
		return runOffsets(s)
	case "client":
		return runClient(s)
	case "broker":
		return runBroker(s)
	}
	return Result{Spec: s, Notes: []string{"unknown component"}}
}

// runChild executes specs in a child process; returns the results it produced and, if the child died,
// the spec it was running and the tail of its stderr.
func runChild(self string, dir string, idx int, specs []Spec, verbose bool) (results []Result, crashed *Spec, stderrTail string) {
	f := filepath.Join(dir, fmt.Sprintf("child_%03d.json", idx))
	data, _ := json.Marshal(specs)
	if err := ioutil.WriteFile(f, data, 0o644); err != nil {
		panic(err)
	}
	args := []string{"-child", f}
	if verbose {
		args = append(args, "-v")
	}
	cmd := exec.Command(self, args...)
	var errb bytes.Buffer
	cmd.Stderr = &errb
	outp, err := cmd.StdoutPipe()
	if err != nil {
		panic(err)
	}
	if err := cmd.Start(); err != nil {
		panic(err)
	}
	started := -1
	finished := map[int]bool{}
	sc := bufio.NewScanner(outp)
	sc.Buffer(make([]byte, 1<<20), 1<<26)
	for sc.Scan() {
		line := sc.Text()
		switch {
		case strings.HasPrefix(line, "START "):
			fmt.Sscanf(line, "START %d", &started)
		case strings.HasPrefix(line, "RESULT "):
			var r Result
			if err := json.Unmarshal([]byte(line[7:]), &r); err == nil {
				results = append(results, r)
				finished[r.Spec.ID] = true
			}
		}
	}
	werr := cmd.Wait()
	if werr != nil && started >= 0 && !finished[started] {
		for i := range specs {
			if specs[i].ID == started {
				crashed = &specs[i]
			}
		}
		t := errb.String()
		if len(t) > 6000 {
			// keep the head (the panic message and the first goroutine) and the tail
			t = t[:4000] + "\n...\n" + t[len(t)-1500:]
		}
		stderrTail = t
	}
	return
}

func obsTerm(o string) string {
	f := strings.Fields(o)
	switch {
	case len(f) == 2 && f[0] == "Call":
		return "OCall " + f[1]
	case len(f) == 3 && f[0] == "Ret":
		return "ORet " + f[1] + " " + f[2]
	case len(f) == 2 && f[0] == "Ev":
		return "OEv " + f[1]
	case len(f) == 2 && f[0] == "Closed":
		return "OClosed " + f[1]
	}
	return "(OBad)" // does not type-check on purpose
}

var compCtor = map[string]string{"producer": "CProducer", "pcons": "CPCons", "group": "CGroup", "offsets": "COffsets", "client": "CClient", "broker": "CBroker"}

func caseTerm(c CompObs) string {
	cfg := make([]string, len(c.Cfg))
	for i, v := range c.Cfg {
		cfg[i] = cf.Nat(int(v))
	}
	obs := make([]string, len(c.Obs))
	for i, o := range c.Obs {
		obs[i] = obsTerm(o)
	}
	return fmt.Sprintf("{| c_comp := %s; c_cfg := %s; c_obs := %s; c_complete := %s |}", compCtor[c.Comp], cf.List(cfg), cf.List(obs), cf.Bool(c.Complete))
}

func main() {
	out := flag.String("out", ".", "output directory")
	seed := flag.Int64("seed", 1, "seed")
	n := flag.Int("n", 0, "limit on the number of runs (0 = all of the tier)")
	tier := flag.String("tier", "quick", "quick | thorough")
	par := flag.Int("par", 8, "child processes in parallel")
	child := flag.String("child", "", "child mode: file with run specs (JSON array)")
	probe := flag.String("probe", "", "run one spec given as JSON and print the result")
	replay := flag.String("replay", "", "re-run the spec of a replay file (JSON with a 'case' holding 'spec')")
	only := flag.String("only", "", "restrict to one component")
	corpus := flag.String("corpus", "", "JSON array of run specs (past witnesses) executed in addition, first")
	verbose := flag.Bool("v", false, "sarama log to stderr")
	flag.Parse()
	if *verbose {
		sarama.Logger = log.New(os.Stderr, "[sarama] ", log.Lmicroseconds)
	}
	installPanicHandler()
	if *probe != "" {
		var s Spec
		if err := json.Unmarshal([]byte(*probe), &s); err != nil {
			panic(err)
		}
		r := runSpec(s)
		b, _ := json.MarshalIndent(r, "", " ")
		fmt.Println(string(b))
		return
	}
	if *child != "" {
		data, err := ioutil.ReadFile(*child)
		if err != nil {
			panic(err)
		}
		var specs []Spec
		if err := json.Unmarshal(data, &specs); err != nil {
			panic(err)
		}
		w := bufio.NewWriter(os.Stdout)
		hangs := map[string]int{}
		for _, s := range specs {
			fmt.Fprintf(w, "START %d\n", s.ID)
			w.Flush()
			if hangs[s.Comp] >= 1 {
				// this component has hung in this process already: every further run would cost the
				// full bound again; the failures found are reported, the rest is skipped
				b, _ := json.Marshal(Result{Spec: s, Notes: []string{"skipped: component hung before in this batch"}, Skipped: true})
				fmt.Fprintf(w, "RESULT %s\n", b)
				w.Flush()
				continue
			}
			r := runSpec(s)
			for _, f := range r.Failures {
				if strings.HasPrefix(f.Sig, "hang:") {
					hangs[s.Comp]++
					break
				}
			}
			b, _ := json.Marshal(r)
			fmt.Fprintf(w, "RESULT %s\n", b)
			w.Flush()
		}
		return
	}

	var specs []Spec
	if *replay != "" {
		data, err := ioutil.ReadFile(*replay)
		if err != nil {
			panic(err)
		}
		var rp struct {
			Case struct {
				Spec Spec `json:"spec"`
			} `json:"case"`
		}
		if err := json.Unmarshal(data, &rp); err != nil {
			panic(err)
		}
		// a replay is run three times: shutdown races depend on timing
		for i := 0; i < 3; i++ {
			s := rp.Case.Spec
			s.ID = i
			specs = append(specs, s)
		}
	} else {
		specs = makeSpecs(*seed, *tier == "thorough", *n)
		if *corpus != "" {
			if data, err := ioutil.ReadFile(*corpus); err == nil {
				var cs []Spec
				if err := json.Unmarshal(data, &cs); err == nil {
					for i := range cs {
						cs[i].ID = 100000 + i
					}
					specs = append(cs, specs...)
				} else {
					fmt.Printf("NOTE corpus %s unreadable: %v\n", *corpus, err)
				}
			}
		}
	}
	if *only != "" {
		var f []Spec
		for _, s := range specs {
			if s.Comp == *only {
				f = append(f, s)
			}
		}
		specs = f
	}
	self, err := os.Executable()
	if err != nil {
		panic(err)
	}
	work := filepath.Join(*out, "c12runs")
	_ = os.MkdirAll(work, 0o755)

	// batches: interleave so that every child gets a mix of components
	nb := *par * 3
	if nb > len(specs) {
		nb = len(specs)
	}
	if nb == 0 {
		nb = 1
	}
	batches := make([][]Spec, nb)
	for i, s := range specs {
		batches[i%nb] = append(batches[i%nb], s)
	}
	type crash struct {
		spec Spec
		tail string
	}
	var mu sync.Mutex
	var results []Result
	var crashes []crash
	sem := make(chan struct{}, *par)
	var wg sync.WaitGroup
	t0 := time.Now()
	for bi := range batches {
		wg.Add(1)
		go func(bi int) {
			defer wg.Done()
			sem <- struct{}{}
			defer func() { <-sem }()
			todo := batches[bi]
			sub := 0
			for len(todo) > 0 {
				rs, cr, tail := runChild(self, work, bi*100+sub, todo, *verbose)
				sub++
				mu.Lock()
				results = append(results, rs...)
				mu.Unlock()
				if cr == nil {
					break
				}
				mu.Lock()
				crashes = append(crashes, crash{*cr, tail})
				mu.Unlock()
				// continue after the crashed spec
				var rest []Spec
				seen := false
				for _, s := range todo {
					if seen {
						rest = append(rest, s)
					}
					if s.ID == cr.ID {
						seen = true
					}
				}
				todo = rest
			}
		}(bi)
	}
	wg.Wait()
	sort.Slice(results, func(i, j int) bool { return results[i].Spec.ID < results[j].Spec.ID })

	w := &cf.Writer{Dir: *out, Prefix: "cases_c12", Imports: "From SV Require Import C12.Lts C12.Corr.", CaseType: "case",
		MismatchFn: "mismatches_c12", ShardSize: 150}
	type sideCase struct {
		Spec     Spec     `json:"spec"`
		Comp     string   `json:"comp"`
		Cfg      []int64  `json:"cfg"`
		Obs      []string `json:"obs"`
		Events   int      `json:"events"`
		ClosedAt int      `json:"closedAt"`
		Notes    []string `json:"notes,omitempty"`
		Crash    string   `json:"crash,omitempty"`
	}
	nruns, nfail := 0, 0
	for _, r := range results {
		nruns++
		var mon *cf.Monitor
		if len(r.Failures) > 0 {
			nfail++
			whats := make([]string, len(r.Failures))
			for i, f := range r.Failures {
				whats[i] = f.What
			}
			mon = &cf.Monitor{Signature: r.Spec.Comp + ":" + r.Failures[0].Sig, What: fmt.Sprintf("%s/%s k=%d sync=%v %v: %s", r.Spec.Comp, r.Spec.Scen, r.Spec.K, r.Spec.Sync, r.Spec.P, strings.Join(whats, "; "))}
		}
		if r.Skipped {
			continue
		}
		if len(r.Comps) == 0 {
			// the scenario could not be set up: report as a broken run (no case), visible in the notes
			fmt.Printf("NOTE setup failed for %s/%s: %v\n", r.Spec.Comp, r.Spec.Scen, r.Notes)
			continue
		}
		for i, c := range r.Comps {
			side := cf.Sidecar{Case: sideCase{r.Spec, c.Comp, c.Cfg, c.Obs, r.Events, r.ClosedAt, r.Notes, ""}, Kind: r.Spec.Comp + "/" + r.Spec.Scen,
				Nontrivial: len(c.Obs) >= 2 && (r.ClosedAt == r.Spec.K || r.Events >= r.Spec.K)}
			if i == 0 {
				side.Monitor = mon
			}
			w.Add(caseTerm(c), side)
		}
	}
	for _, c := range crashes {
		nfail++
		sig := classifyPanic(c.tail)
		what := fmt.Sprintf("%s/%s k=%d sync=%v %v: the process died while this run was executing (a panic in a sarama goroutine that is not started with withRecover)", c.spec.Comp, c.spec.Scen, c.spec.K, c.spec.Sync, c.spec.P)
		first := c.tail
		if i := strings.Index(first, "\n\n"); i > 0 && i < 1500 {
			first = first[:i]
		}
		side := cf.Sidecar{Case: sideCase{Spec: c.spec, Comp: c.spec.Comp, Crash: first}, Kind: c.spec.Comp + "/" + c.spec.Scen, Nontrivial: true,
			Monitor: &cf.Monitor{Signature: c.spec.Comp + ":crash:" + sig, What: what + " — " + strings.SplitN(strings.TrimSpace(c.tail), "\n", 2)[0]}}
		// an observation the model cannot accept: the correspondence flags the run as well
		w.Add(fmt.Sprintf("{| c_comp := %s; c_cfg := []; c_obs := [ORet 9 9]; c_complete := false |}", compCtor[c.spec.Comp]), side)
	}
	w.Close()
	fmt.Printf("INFO group-errors-lock=%v (model flag elock: which of the group theorems applies to this tree)\n", sarama.VerifC12GroupHasErrorsLock())
	fmt.Printf("RUNS %d cases %d monitor-failures %d crashes %d wall %.1fs\n", nruns, w.Total, nfail, len(crashes), time.Since(t0).Seconds())
}
