// c12corr: shutdown scenarios against sarama.MockBrokers with Close/AsyncClose injected at the k-th
// observable event; writes the observed shutdown behaviour as Coq cases for SV.C12.Corr plus the direct
// property monitor verdict per run (hang, panic, channel left open, second close not harmless).
//
// Parent mode (default): makes the run list from -seed/-tier, executes it in child processes (a send on
// a closed channel inside a plain sarama goroutine kills the process: a crash is a monitor failure of
// the run that was executing), then writes cases_*.v + .jsonl.
// Child mode (-child FILE): executes the runs listed in FILE sequentially, printing START/RESULT lines.
package main

import (
	"encoding/json"
	"flag"
	"fmt"
	"io/ioutil"
	"log"
	"os"

	"github.com/Shopify/sarama"
)

func runSpec(s Spec) Result {
	switch s.Comp {
	case "pcons":
		return runPCons(s)
	}
	return Result{Spec: s, Notes: []string{"unknown component"}}
}

func main() {
	out := flag.String("out", ".", "output directory")
	seed := flag.Int64("seed", 1, "seed")
	n := flag.Int("n", 0, "number of runs (0 = tier default)")
	tier := flag.String("tier", "quick", "quick | thorough")
	child := flag.String("child", "", "child mode: file with run specs (JSON array)")
	probe := flag.String("probe", "", "run one spec given as JSON and print the result")
	verbose := flag.Bool("v", false, "sarama log to stderr")
	flag.Parse()
	if *verbose {
		sarama.Logger = log.New(os.Stderr, "[sarama] ", log.Lmicroseconds)
	}
	installPanicHandler()
	if *probe != "" {
		var s Spec
		if err := json.Unmarshal([]byte(*probe), &s); err != nil {
			panic(err)
		}
		r := runSpec(s)
		b, _ := json.MarshalIndent(r, "", " ")
		fmt.Println(string(b))
		return
	}
	if *child != "" {
		data, err := ioutil.ReadFile(*child)
		if err != nil {
			panic(err)
		}
		var specs []Spec
		if err := json.Unmarshal(data, &specs); err != nil {
			panic(err)
		}
		for _, s := range specs {
			fmt.Printf("START %d\n", s.ID)
			r := runSpec(s)
			b, _ := json.Marshal(r)
			fmt.Printf("RESULT %s\n", b)
		}
		return
	}
	_ = out
	_ = seed
	_ = n
	_ = tier
}
