"""Shared machinery for the per-property checks (see FRAMEWORK.md).

A check module (checks/cNN.py) defines `run(c: Check)`; bin/check creates the Check,
calls run, then c.finish() which decides, writes evidence/<id>.json, prints the
VIOLATION / KNOWN-FINDING lines and returns the exit code.
"""
import fcntl
import glob
import hashlib
import json
import os
import re
import shutil
import subprocess
import sys
import time
from concurrent.futures import ThreadPoolExecutor

VERIF = os.path.dirname(os.path.dirname(os.path.abspath(__file__)))
REPO = os.environ.get("VERIF_REPO", "/repo")
COQ = os.path.join(VERIF, "coq")
HARNESS = os.path.join(VERIF, "go", "harness")
SHIMS = os.path.join(VERIF, "go", "shims")
BUILD = os.path.join(VERIF, "build")

GOENV = {
    "GOFLAGS": "-mod=mod",
    "GOPROXY": "off",
    "GOSUMDB": "off",
    "GOTOOLCHAIN": "local",
    "CGO_ENABLED": "0",
}


def sh(cmd, cwd=None, timeout=600, env=None, stdin=None):
    """Run a command; returns (rc, combined output). rc=124 on timeout."""
    e = dict(os.environ)
    e.update(GOENV)
    if env:
        e.update(env)
    try:
        p = subprocess.run(cmd, cwd=cwd, env=e, timeout=timeout, input=stdin,
                           stdout=subprocess.PIPE, stderr=subprocess.STDOUT,
                           shell=isinstance(cmd, str), executable="/bin/bash" if isinstance(cmd, str) else None, text=True, errors="replace")
        return p.returncode, p.stdout
    except subprocess.TimeoutExpired as ex:
        out = ex.stdout or ""
        if isinstance(out, bytes):
            out = out.decode(errors="replace")
        return 124, out + "\n[timeout after %ss]" % timeout


def coq_make(targets=()):
    """Build the hand-written development, or only the given .vo targets with their dependencies
    (no-op when up to date)."""
    rc, out = sh([os.path.join(VERIF, "bin", "coqbuild")] + list(targets), cwd=VERIF, timeout=3100)
    return rc == 0, out


class Check:
    def __init__(self, pid, tier="quick", seed=1, replay=None):
        self.pid = pid
        self.tier = tier
        self.seed = seed
        self.replay = replay
        self.t0 = time.time()
        # one scratch directory per run: <property>[@<tree hash>].<process id>, so that overlapping runs of the
        # same check (another seed, a mutation experiment with VERIF_REPO) never wipe each other's files.
        # Directories of finished clean runs are removed in finish(); stale ones (crashed runs) after two hours.
        self.build_name = pid if REPO == "/repo" else pid + "@" + hashlib.sha1(REPO.encode()).hexdigest()[:8]
        self.build = os.path.join(BUILD, "%s.%d" % (self.build_name, os.getpid()))
        try:
            for d in glob.glob(os.path.join(BUILD, self.build_name + ".*")):
                if os.path.isdir(d) and time.time() - os.path.getmtime(d) > 1800:
                    shutil.rmtree(d, ignore_errors=True)
        except OSError:
            pass
        shutil.rmtree(self.build, ignore_errors=True)
        os.makedirs(self.build, exist_ok=True)
        self.obligations = []      # (name, ok:bool, detail)
        self.trusted = []          # strings (axioms, translators ...)
        self.assumptions = []      # strings
        self.broken = []           # dict(kind, name, detail)
        self.failures = []         # dict(signature, what, case)  -- property failures shown on the implementation
        self.cases = 0
        self.hashes_nontrivial = set()
        self.samples = []
        self.extra = {}
        self.rule = ""
        self.checker_cmds = []
        self.traces = 0
        self.log = open(os.path.join(self.build, "check.log"), "w")

    # ------------------------------------------------------------------ logging
    def note(self, *a):
        s = " ".join(str(x) for x in a)
        self.log.write(s + "\n")
        self.log.flush()
        if os.environ.get("VERIF_VERBOSE"):
            print(s, flush=True)

    def oblige(self, name, ok, detail=""):
        self.obligations.append((name, bool(ok), detail))
        if not ok:
            self.broken.append({"kind": "obligation", "name": name, "detail": detail[-4000:]})

    def break_(self, kind, name, detail=""):
        self.broken.append({"kind": kind, "name": name, "detail": detail[-4000:]})

    def fail(self, signature, what, case=None):
        self.failures.append({"signature": signature, "what": what, "case": case})

    # ------------------------------------------------------------------ Coq
    def coq_targets(self, dirs=None):
        """.vo targets of this property: coq/<dir>/*.v for each dir (default: the property id) + Properties/<pid>.v"""
        t = []
        for d in (dirs or [self.pid]):
            t += sorted(glob.glob(os.path.join(COQ, d, "*.v")))
        t += sorted(glob.glob(os.path.join(COQ, "Properties", self.pid + "*.v")))
        return [os.path.relpath(x, COQ) + "o" for x in t if os.path.exists(x)]

    def coq_make(self, dirs=None):
        """Build only what this property needs (other properties' files cannot break this check)."""
        ok, out = coq_make(self.coq_targets(dirs))
        self.note("coq make:", "ok" if ok else "FAILED", out[-3000:] if not ok else "")
        if not ok:
            self.break_("proof", "make -C coq (hand-written development does not build)", out)
        return ok

    def coqc(self, vfile, extra_q=(), timeout=900, cwd=None):
        """Compile one .v file with -Q coq SV (+ extra (dir,name) pairs). Returns (ok, output)."""
        cmd = ["coqc", "-noglob", "-Q", COQ, "SV"]   # no .glob files: several MB per case file
        for d, n in extra_q:
            cmd += ["-Q", d, n]
        cmd.append(vfile)
        self.checker_cmds.append(" ".join(cmd).replace(VERIF + "/", ""))
        rc, out = sh(cmd, cwd=cwd or self.build, timeout=timeout)
        self.note("coqc", vfile, "rc", rc)
        if rc != 0:
            self.note(out[-3000:])
        return rc == 0, out

    def coq_properties(self, relfile=None):
        """Re-check coq/Properties/<pid>.v: every Theorem there is an obligation; collect Print Assumptions."""
        if relfile is None:
            rels = [os.path.relpath(x, COQ) for x in sorted(glob.glob(os.path.join(COQ, "Properties", self.pid + "*.v")))]
            if len(rels) != 1:
                if not rels:
                    self.break_("proof", "coq/Properties/%s.v is missing" % self.pid)
                    return False, []
                allok, allnames = True, []
                for r in rels:
                    ok, names = self.coq_properties(r)
                    allok, allnames = allok and ok, allnames + names
                return allok, allnames
            relfile = rels[0]
        src = os.path.join(COQ, relfile)
        text = open(src).read()
        names = re.findall(r"^\s*(?:Theorem|Corollary)\s+([A-Za-z0-9_']+)", text, re.M)
        # compile a copy in the build dir so concurrent checks do not race on the .vo
        dst = os.path.join(self.build, "Props_%s" % os.path.basename(relfile))
        shutil.copy(src, dst)
        ok, out = self.coqc(dst, extra_q=[(self.build, "SVB")])
        for n in names:
            self.oblige("theorem " + n, ok, "" if ok else out)
        self._collect_assumptions(out)
        return ok, names

    def _collect_assumptions(self, out):
        """Collect the output of Print Assumptions: line scan (an axiom's type may span several lines)."""
        closed = out.count("Closed under the global context")
        axioms = set()
        in_ax = False
        for line in out.splitlines():
            if line.startswith("Axioms:"):
                in_ax = True
                continue
            if in_ax:
                m = re.match(r"^([A-Za-z_][\w.']*)\s*(:.*)?$", line)
                if m:
                    axioms.add(m.group(1))
                elif line and not line[0].isspace():
                    in_ax = False
        if closed:
            self.trust("Print Assumptions: %d theorem(s) 'Closed under the global context'" % closed)
        for a in sorted(axioms):
            self.trust("Print Assumptions axiom: " + a)
        return axioms

    def coqchk(self, timeout=2400):
        """Thorough tier: re-check the compiled property files and everything they depend on with the
        independent checker coqchk, and record the axioms it reports."""
        mods = ["SV.Properties." + os.path.basename(x)[:-2]
                for x in sorted(glob.glob(os.path.join(COQ, "Properties", self.pid + "*.v")))]
        if not mods:
            return
        cmd = ["coqchk", "-silent", "-o", "-Q", COQ, "SV"] + mods
        self.checker_cmds.append(" ".join(cmd).replace(VERIF + "/", ""))
        rc, out = sh(cmd, cwd=COQ, timeout=timeout)
        self.note("coqchk rc", rc, out[-1500:])
        if rc == 124:
            self.trust("coqchk: not completed within %d s (recorded, not counted as an obligation)" % timeout)
            return
        self.oblige("coqchk re-check of " + ", ".join(mods), rc == 0, out)
        m = re.search(r"\* Axioms:(.*?)\n\s*\n\* Constants", out, re.S)
        if m:
            ax = [a.strip() for a in m.group(1).strip().splitlines() if a.strip()]
            self.trust("coqchk axioms over the whole closure (libraries included): " + (", ".join(ax) if ax else "<none>"))

    def trust(self, s):
        if s not in self.trusted:
            self.trusted.append(s)

    def assume(self, s):
        if s not in self.assumptions:
            self.assumptions.append(s)

    def tie_file(self, relfile, name=None, gen_dir=None, timeout=900):
        """Compile a coq/Tie/*.v obligation file (depends on files regenerated into the build dir, logical root SVB).
        Every Lemma/Theorem in it is an obligation."""
        src = os.path.join(COQ, relfile)
        text = open(src).read()
        names = re.findall(r"^\s*(?:Theorem|Lemma|Corollary)\s+([A-Za-z0-9_']+)", text, re.M)
        dst = os.path.join(self.build, os.path.basename(relfile))
        shutil.copy(src, dst)
        ok, out = self.coqc(dst, extra_q=[(gen_dir or self.build, "SVB")], timeout=timeout)
        if ok:
            for n in names:
                self.oblige("tie " + n, True)
        else:
            # find which lemma failed (best effort: line number -> preceding lemma)
            failed = None
            m = re.search(r"line (\d+), characters", out)
            if m:
                ln = int(m.group(1))
                for mm in re.finditer(r"^\s*(?:Theorem|Lemma|Corollary)\s+([A-Za-z0-9_']+)", text, re.M):
                    if text.count("\n", 0, mm.start()) + 1 <= ln:
                        failed = mm.group(1)
            self.oblige("tie " + (failed or name or relfile), False, out)
        self._collect_assumptions(out)
        return ok, out

    def gen_coq(self, vfile, name):
        """Compile a regenerated .v file that lives in the build dir (logical root SVB)."""
        ok, out = self.coqc(vfile, extra_q=[(self.build, "SVB")])
        if not ok:
            self.break_("gen", name + " (regenerated model does not compile)", out)
        return ok, out

    # ------------------------------------------------------------------ Go
    def overlay(self):
        """-overlay file adding /verif/go/shims/** to the sarama packages of REPO (nothing is written to REPO)."""
        repl = {}
        for root, _, files in os.walk(SHIMS):
            for f in files:
                if f.endswith(".go"):
                    rel = os.path.relpath(root, SHIMS)
                    tgt = os.path.normpath(os.path.join(REPO, rel, "zz_verif_" + f))
                    repl[tgt] = os.path.join(root, f)
        p = os.path.join(self.build, "overlay.json")
        json.dump({"Replace": repl}, open(p, "w"), indent=1)
        return p

    def modfile(self):
        """go.mod for the harness pointing at REPO (default /repo)."""
        src = open(os.path.join(HARNESS, "go.mod")).read()
        src = re.sub(r"=> /repo\b", "=> " + REPO, src)
        p = os.path.join(self.build, "go.mod")
        open(p, "w").write(src)
        shutil.copy(os.path.join(REPO, "go.sum"), os.path.join(self.build, "go.sum"))
        return p

    def go_build(self, cmd_name, tags="verif", timeout=900, race=False):
        out_bin = os.path.join(self.build, "bin", cmd_name)
        os.makedirs(os.path.dirname(out_bin), exist_ok=True)
        cmd = ["go", "build", "-tags", tags, "-overlay", self.overlay(), "-modfile", self.modfile()]
        if race:
            cmd.append("-race")
        cmd += ["-o", out_bin, "./cmd/" + cmd_name]
        env = {"CGO_ENABLED": "1"} if race else None
        rc, out = sh(cmd, cwd=HARNESS, timeout=timeout, env=env)
        self.note("go build", cmd_name, "rc", rc, out[-3000:] if rc else "")
        if rc != 0:
            self.break_("build", "go build %s against %s (harness/shims no longer compile against the source)" % (cmd_name, REPO), out)
            return None
        return out_bin

    def go_tool(self, tool_dir, args, timeout=600):
        """Run a translator living in /verif/go/<tool_dir> (own module, stdlib only)."""
        rc, out = sh(["go", "run", "."] + list(args), cwd=os.path.join(VERIF, "go", tool_dir), timeout=timeout)
        self.note("go tool", tool_dir, args, "rc", rc, out[-2000:] if rc else "")
        return rc, out

    def run(self, argv, timeout=900, cwd=None, env=None):
        rc, out = sh(argv, cwd=cwd or self.build, timeout=timeout, env=env)
        self.note("run", " ".join(map(str, argv)), "rc", rc)
        if rc != 0:
            self.note(out[-3000:])
        return rc, out

    # ------------------------------------------------------------------ correspondence
    def load_cases(self, jsonl_path):
        """Sidecar of a cases file: one JSON object per case:
        {"case": <readable>, "nontrivial": bool, "monitor": null | {"signature","what"}, "kind": str}"""
        rows = []
        with open(jsonl_path) as f:
            for line in f:
                line = line.strip()
                if line:
                    rows.append(json.loads(line))
        for r in rows:
            self.cases += 1
            key = hashlib.sha1(json.dumps(r.get("case"), sort_keys=True).encode()).hexdigest()
            if r.get("nontrivial", True):
                self.hashes_nontrivial.add(key)
            k = r.get("kind", "case")
            self.extra.setdefault("distribution", {}).setdefault(k, 0)
            self.extra["distribution"][k] += 1
            if r.get("monitor"):
                m = r["monitor"]
                self.fail(m.get("signature", "unspecified"), m.get("what", ""), r.get("case"))
        if rows and len(self.samples) < 6:
            step = max(1, len(rows) // 3)
            for r in rows[::step][:3]:
                self.samples.append(r.get("case"))
        return rows

    def eval_cases(self, vfiles, name="correspondence", timeout=1200, sidecars=True):
        """Compile harness-written cases_*.v files (each must `Print M.` where M : list nat is the
        list of mismatching case indices computed by vm_compute). Returns list of (file, idx)."""
        mism = []

        def one(vf):
            ok, out = self.coqc(vf, extra_q=[(self.build, "SVB")], timeout=timeout)
            return vf, ok, out

        with ThreadPoolExecutor(max_workers=min(16, max(1, len(vfiles)))) as ex:
            res = list(ex.map(one, vfiles))
        for vf, ok, out in res:
            rows = None
            side = vf[:-2] + ".jsonl"
            if sidecars and os.path.exists(side):
                rows = self.load_cases(side)
            if not ok:
                self.break_("corr", "%s: %s does not evaluate" % (name, os.path.basename(vf)), out)
                continue
            flat = re.sub(r"\s+", " ", out)
            m = re.search(r"M\s*=\s*(\[[^\]]*\]|nil)", flat)
            if not m:
                self.break_("corr", "%s: cannot parse result of %s" % (name, os.path.basename(vf)), out)
                continue
            body = m.group(1)
            idxs = [int(x) for x in re.findall(r"\d+", body)] if body != "nil" else []
            self.traces += (len(rows) if rows is not None else 0)
            for i in idxs:
                case = rows[i].get("case") if rows is not None and i < len(rows) else None
                mism.append((vf, i))
                self.break_("corr", "%s: model and implementation differ on case %d of %s" % (name, i, os.path.basename(vf)),
                            json.dumps(case)[:3000] if case is not None else "")
        self.oblige("%s: model = implementation on all %d evaluated cases" % (name, self.traces), not mism and all(ok for _, ok, _ in res))
        # the oblige above already registers a broken entry when false; drop the duplicate generic one
        if mism:
            self.broken = [b for b in self.broken if not (b["kind"] == "obligation" and b["name"].startswith(name + ": model = impl"))]
        return mism

    # ------------------------------------------------------------------ decision
    def known(self):
        p = os.path.join(VERIF, "KNOWN_FINDINGS.json")
        if not os.path.exists(p):
            return []
        return [k for k in json.load(open(p)).get("findings", []) if k.get("property") == self.pid]

    def finish(self):
        wall = time.time() - self.t0
        known = [k for k in self.known() if k.get("status") == "known"]
        unlisted, listed = [], {}
        for f in self.failures:
            hit = None
            for k in known:
                if re.fullmatch(k["signature"], f["signature"]):
                    hit = k
                    break
            if hit:
                listed.setdefault(hit["signature"], (hit, f))
            else:
                unlisted.append(f)
        lines = []
        rdir = os.path.join(VERIF, "evidence", "replay")
        os.makedirs(rdir, exist_ok=True)
        nviol = 0
        for sig, (k, f) in listed.items():
            lines.append("KNOWN-FINDING: property=%s %s [%s]" % (self.pid, k.get("what", f["what"]), sig))
        seen = set()
        for f in unlisted:
            if f["signature"] in seen:
                continue
            seen.add(f["signature"])
            nviol += 1
            rp = os.path.join(rdir, "%s-%d-%d.json" % (self.pid, self.seed, nviol))
            json.dump({"property": self.pid, "seed": self.seed, "tier": self.tier, "repo": REPO,
                       "kind": "failing-input", "signature": f["signature"], "what": f["what"], "case": f["case"],
                       "broken": self.broken[:5]}, open(rp, "w"), indent=1)
            lines.append("VIOLATION property=%s replay=%s" % (self.pid, rp))
        if self.broken and not unlisted:
            nviol += 1
            rp = os.path.join(rdir, "%s-%d-broken.json" % (self.pid, self.seed))
            json.dump({"property": self.pid, "seed": self.seed, "tier": self.tier, "repo": REPO,
                       "kind": "no-failing-input-found",
                       "no_longer_checks": [b["name"] for b in self.broken],
                       "broken": self.broken[:20]}, open(rp, "w"), indent=1)
            lines.append("VIOLATION property=%s replay=%s no-failing-input-found" % (self.pid, rp))
        nob = len(self.obligations)
        ndis = sum(1 for _, ok, _ in self.obligations if ok)
        cov = {
            "obligations": nob,
            "discharged": ndis,
            "checker_cmd": "; ".join(dict.fromkeys(self.checker_cmds))[:4000] or "coqc (none run)",
            "trusted_base": self.trusted,
            "obligation_names": [("ok  " if ok else "FAIL") + " " + n for n, ok, _ in self.obligations],
            "evaluations": self.cases,
            "distinct_nontrivial": len(self.hashes_nontrivial),
            "traces_validated_against_impl": self.traces,
            "rule": self.rule,
            "samples": self.samples[:8] or ["(no correspondence cases in this run)"],
            "known_findings_reproduced": [s for s in listed],
        }
        cov.update(self.extra)
        ev = {"property_id": self.pid, "tier": self.tier, "seed": self.seed, "level": "proof",
              "coverage": cov, "assumptions": self.assumptions, "wall_s": round(wall, 2), "violations": nviol}
        # mutation experiments (bin/seedtest) write their evidence elsewhere: evidence/ holds runs against /repo only
        evdir = os.environ.get("VERIF_EVIDENCE_DIR") or os.path.join(VERIF, "evidence")
        os.makedirs(evdir, exist_ok=True)
        json.dump(ev, open(os.path.join(evdir, self.pid + ".json"), "w"), indent=1)
        for l in lines:
            print(l, flush=True)
        print("%s %s tier=%s seed=%d obligations=%d/%d cases=%d nontrivial=%d failures=%d broken=%d wall=%.1fs" % (
            "FAIL" if nviol else "OK", self.pid, self.tier, self.seed, ndis, nob, self.cases,
            len(self.hashes_nontrivial), len(unlisted), len(self.broken), wall), flush=True)
        self.log.close()
        try:
            shutil.copy(os.path.join(self.build, "check.log"), os.path.join(BUILD, self.build_name + ".last.log"))
            # the replay file holds the failing case; the scratch directory (binaries, case files: up to
            # hundreds of MB) is kept only on request, otherwise mutation sweeps fill the disk
            if not os.environ.get("VERIF_KEEP_BUILD"):
                shutil.rmtree(self.build, ignore_errors=True)
        except OSError:
            pass
        return 1 if nviol else 0
