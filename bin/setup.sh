#!/bin/bash
# MANIFEST.setup_cmd: build the Coq development and warm the Go build cache. Offline.
set -e
cd "$(dirname "$0")/.."
export GOFLAGS=-mod=mod GOPROXY=off GOSUMDB=off GOTOOLCHAIN=local
# -k: one broken file must not stop the others from building; every check re-makes its own targets and reports.
COQ_TIMEOUT=3400 bin/coqbuild -k || echo "setup: some Coq files failed to build (the checks that need them will report it)"
# warm go caches (harness + translators); failures here are reported by the checks themselves
python3 - <<'PY' || true
import sys, os
sys.path.insert(0, "lib")
import vlib, glob
c = vlib.Check("_setup")
for d in sorted(glob.glob(os.path.join(vlib.HARNESS, "cmd", "*"))):
    c.go_build(os.path.basename(d))
import shutil
c.log.close()
shutil.rmtree(c.build, ignore_errors=True)   # only the Go build cache is wanted
PY
for t in go/decgen go/wiregen go/lockaudit; do [ -d $t ] && ( cd $t && go build -o /dev/null . ) || true; done
echo "setup done"
