#!/bin/bash
# MANIFEST.setup_cmd: build the Coq development and warm the Go build cache. Offline.
set -e
cd "$(dirname "$0")/.."
export GOFLAGS=-mod=mod GOPROXY=off GOSUMDB=off GOTOOLCHAIN=local
bin/mkcoq
set -o pipefail
( cd coq && timeout 3400 make -j16 2>&1 | tail -n 40 ) || { echo "setup: coq build failed"; exit 1; }
# warm go caches (harness + translators); failures here are reported by the checks themselves
python3 - <<'PY' || true
import sys, os
sys.path.insert(0, "lib")
import vlib, glob
c = vlib.Check("_setup")
for d in sorted(glob.glob(os.path.join(vlib.HARNESS, "cmd", "*"))):
    c.go_build(os.path.basename(d))
PY
for t in go/decgen go/wiregen go/lockaudit; do [ -d $t ] && ( cd $t && go build -o /dev/null . ) || true; done
echo "setup done"
