(* C12 — consumer group termination, part 2: per action, the additional invariant Inv2 is preserved and the
   measure decreases in the phase. By the tactics [GrpT.jgo] / [GrpT.mgo]. *)
From Coq Require Import List Arith Bool Lia.
From SV Require Import C12.Lts C12.LtsProofs C12.Tac C12.Group C12.GroupProofs C12.GroupSafety C12.GroupTerm.
Import ListNotations. Import Grp. Import GrpP. Import GrpT.

Lemma j_ACRel2 c s s' e : Inv2 s -> Inv s -> step c s (ACRel2 e) = Some s' -> Inv2 s'.
Proof. intros J I H. jgo. Qed.
Lemma m_ACRel2 c s s' e : Inv s -> closed_ch s = true -> step c s (ACRel2 e) = Some s' -> lt3 (mu c s') (mu c s).
Proof. intros I P H. mgo. Qed.
Lemma j_ACRelHe c s s' h : Inv2 s -> Inv s -> step c s (ACRelHe h) = Some s' -> Inv2 s'.
Proof. intros J I H. jgo. Qed.
Lemma m_ACRelHe c s s' h : Inv s -> closed_ch s = true -> step c s (ACRelHe h) = Some s' -> lt3 (mu c s') (mu c s).
Proof. intros I P H. mgo. Qed.
Lemma j_ACRel3 c s s'  : Inv2 s -> Inv s -> step c s ACRel3 = Some s' -> Inv2 s'.
Proof. intros J I H. jgo. Qed.
Lemma m_ACRel3 c s s'  : Inv s -> closed_ch s = true -> step c s ACRel3 = Some s' -> lt3 (mu c s') (mu c s).
Proof. intros I P H. mgo. Qed.
Lemma j_ACRel4 c s s'  : Inv2 s -> Inv s -> step c s ACRel4 = Some s' -> Inv2 s'.
Proof. intros J I H. jgo. Qed.
Lemma m_ACRel4 c s s'  : Inv s -> closed_ch s = true -> step c s ACRel4 = Some s' -> lt3 (mu c s') (mu c s).
Proof. intros I P H. mgo. Qed.
Lemma j_AHNet c s s' x : Inv2 s -> Inv s -> step c s (AHNet x) = Some s' -> Inv2 s'.
Proof. intros J I H. jgo. Qed.
Lemma m_AHNet c s s' x : Inv s -> closed_ch s = true -> step c s (AHNet x) = Some s' -> lt3 (mu c s') (mu c s).
Proof. intros I P H. mgo. Qed.
Lemma j_AHBackDying c s s'  : Inv2 s -> Inv s -> step c s AHBackDying = Some s' -> Inv2 s'.
Proof. intros J I H. jgo. Qed.
Lemma m_AHBackDying c s s'  : Inv s -> closed_ch s = true -> step c s AHBackDying = Some s' -> lt3 (mu c s') (mu c s).
Proof. intros I P H. mgo. Qed.
Lemma j_AHBackTimer c s s'  : Inv2 s -> Inv s -> step c s AHBackTimer = Some s' -> Inv2 s'.
Proof. intros J I H. jgo. Qed.
Lemma m_AHBackTimer c s s'  : Inv s -> closed_ch s = true -> step c s AHBackTimer = Some s' -> lt3 (mu c s') (mu c s).
Proof. intros I P H. mgo. Qed.
Lemma j_AHTick c s s'  : Inv2 s -> Inv s -> step c s AHTick = Some s' -> Inv2 s'.
Proof. intros J I H. jgo. Qed.
Lemma m_AHTick c s s'  : Inv s -> closed_ch s = true -> step c s AHTick = Some s' -> lt3 (mu c s') (mu c s).
Proof. intros I P H. mgo. Qed.
Lemma j_AHDying c s s'  : Inv2 s -> Inv s -> step c s AHDying = Some s' -> Inv2 s'.
Proof. intros J I H. jgo. Qed.
Lemma m_AHDying c s s'  : Inv s -> closed_ch s = true -> step c s AHDying = Some s' -> lt3 (mu c s') (mu c s).
Proof. intros I P H. mgo. Qed.
Lemma j_AHHe c s s' h : Inv2 s -> Inv s -> step c s (AHHe h) = Some s' -> Inv2 s'.
Proof. intros J I H. jgo. Qed.
Lemma m_AHHe c s s' h : Inv s -> closed_ch s = true -> step c s (AHHe h) = Some s' -> lt3 (mu c s') (mu c s).
Proof. intros I P H. mgo. Qed.
Lemma j_AHExit c s s'  : Inv2 s -> Inv s -> step c s AHExit = Some s' -> Inv2 s'.
Proof. intros J I H. jgo. Qed.
Lemma m_AHExit c s s'  : Inv s -> closed_ch s = true -> step c s AHExit = Some s' -> lt3 (mu c s') (mu c s).
Proof. intros I P H. mgo. Qed.
Lemma j_ALNet c s s' same : Inv2 s -> Inv s -> step c s (ALNet same) = Some s' -> Inv2 s'.
Proof. intros J I H. jgo. Qed.
Lemma m_ALNet c s s' same : Inv s -> closed_ch s = true -> step c s (ALNet same) = Some s' -> lt3 (mu c s') (mu c s).
Proof. intros I P H. mgo. Qed.
Lemma j_ALTick c s s'  : Inv2 s -> Inv s -> step c s ALTick = Some s' -> Inv2 s'.
Proof. intros J I H. jgo. Qed.
Lemma m_ALTick c s s'  : Inv s -> closed_ch s = true -> step c s ALTick = Some s' -> lt3 (mu c s') (mu c s).
Proof. intros I P H. mgo. Qed.
Lemma j_ALStop c s s'  : Inv2 s -> Inv s -> step c s ALStop = Some s' -> Inv2 s'.
Proof. intros J I H. jgo. Qed.
Lemma m_ALStop c s s'  : Inv s -> closed_ch s = true -> step c s ALStop = Some s' -> lt3 (mu c s') (mu c s).
Proof. intros I P H. mgo. Qed.
Lemma j_ALExit c s s'  : Inv2 s -> Inv s -> step c s ALExit = Some s' -> Inv2 s'.
Proof. intros J I H. jgo. Qed.
Lemma m_ALExit c s s'  : Inv s -> closed_ch s = true -> step c s ALExit = Some s' -> lt3 (mu c s') (mu c s).
Proof. intros I P H. mgo. Qed.
Lemma j_AGStart c s s'  : Inv2 s -> Inv s -> step c s AGStart = Some s' -> Inv2 s'.
Proof. intros J I H. jgo. Qed.
Lemma m_AGStart c s s'  : Inv s -> closed_ch s = true -> step c s AGStart = Some s' -> lt3 (mu c s') (mu c s).
Proof. intros I P H. mgo. Qed.
Lemma j_AGNew c s s' ok : Inv2 s -> Inv s -> step c s (AGNew ok) = Some s' -> Inv2 s'.
Proof. intros J I H. jgo. Qed.
Lemma m_AGNew c s s' ok : Inv s -> closed_ch s = true -> step c s (AGNew ok) = Some s' -> lt3 (mu c s') (mu c s).
Proof. intros I P H. mgo. Qed.
Lemma j_AGRunEnd c s s' err : Inv2 s -> Inv s -> step c s (AGRunEnd err) = Some s' -> Inv2 s'.
Proof. intros J I H. jgo. Qed.
Lemma m_AGRunEnd c s s' err : Inv s -> closed_ch s = true -> step c s (AGRunEnd err) = Some s' -> lt3 (mu c s') (mu c s).
Proof. intros I P H. mgo. Qed.
Lemma j_AGWaitErr c s s'  : Inv2 s -> Inv s -> step c s AGWaitErr = Some s' -> Inv2 s'.
Proof. intros J I H. jgo. Qed.
Lemma m_AGWaitErr c s s'  : Inv s -> closed_ch s = true -> step c s AGWaitErr = Some s' -> lt3 (mu c s') (mu c s).
Proof. intros I P H. mgo. Qed.
Lemma j_AGWaitEnd c s s'  : Inv2 s -> Inv s -> step c s AGWaitEnd = Some s' -> Inv2 s'.
Proof. intros J I H. jgo. Qed.
Lemma m_AGWaitEnd c s s'  : Inv s -> closed_ch s = true -> step c s AGWaitEnd = Some s' -> lt3 (mu c s') (mu c s).
Proof. intros I P H. mgo. Qed.
Lemma j_AGHe c s s' h : Inv2 s -> Inv s -> step c s (AGHe h) = Some s' -> Inv2 s'.
Proof. intros J I H. jgo. Qed.
Lemma m_AGHe c s s' h : Inv s -> closed_ch s = true -> step c s (AGHe h) = Some s' -> lt3 (mu c s') (mu c s).
Proof. intros I P H. mgo. Qed.
Lemma j_AGDefer c s s'  : Inv2 s -> Inv s -> step c s AGDefer = Some s' -> Inv2 s'.
Proof. intros J I H. jgo. Qed.
Lemma m_AGDefer c s s'  : Inv s -> closed_ch s = true -> step c s AGDefer = Some s' -> lt3 (mu c s') (mu c s).
Proof. intros I P H. mgo. Qed.
Lemma j_AFwCheck c s s'  : Inv2 s -> Inv s -> step c s AFwCheck = Some s' -> Inv2 s'.
Proof. intros J I H. jgo. Qed.
Lemma m_AFwCheck c s s'  : Inv s -> closed_ch s = true -> step c s AFwCheck = Some s' -> lt3 (mu c s') (mu c s).
Proof. intros I P H. mgo. Qed.
Lemma j_AFwSend c s s' h : Inv2 s -> Inv s -> step c s (AFwSend h) = Some s' -> Inv2 s'.
Proof. intros J I H. jgo. Qed.
Lemma m_AFwSend c s s' h : Inv s -> closed_ch s = true -> step c s (AFwSend h) = Some s' -> lt3 (mu c s') (mu c s).
Proof. intros I P H. mgo. Qed.
