(* C12 — labelled transition systems for the shutdown protocols (definitions only, no proofs).

   Every component model in this directory is an LTS
       step : cfg -> st -> act -> option st
   whose actions are the blocking operations and shared-state accesses of the component's goroutines
   (one action = one channel operation / Once / lock / counter access, or one purely local run of code
   between two of them), plus the application's and the environment's moves (Close calls, receives
   from the public channels, network calls returning, timers firing).  A schedule is a list of
   actions; [run] plays it.  Closing a closed channel, sending on a closed channel or driving a
   WaitGroup negative does not block the transition: it sets the [panic] flag of the state, so that
   "no panic" is an invariant statement about all schedules.

   Unbuffered channels are rendezvous (one joint action of sender and receiver, enabled only when
   both are at the operation); bounded channels carry their length and capacity. *)
From Coq Require Import List Arith Bool.
Import ListNotations.

Section LTS.
  Context {st act : Type}.
  Variable step : st -> act -> option st.

  Fixpoint run (s : st) (l : list act) : option st :=
    match l with
    | [] => Some s
    | a :: r => match step s a with Some s' => run s' r | None => None end
    end.

  (* states reachable from i by some schedule *)
  Definition Reach (i s : st) : Prop := exists l, run i l = Some s.

  (* the one-step successor relation (s' follows s), restricted to states satisfying [ph] *)
  Definition succ_in (ph : st -> Prop) (s' s : st) : Prop := ph s /\ exists a, step s a = Some s'.

  (* no step at all is enabled *)
  Definition stuck (s : st) : Prop := forall a, step s a = None.

  (* Termination of a phase [ph] (closed under steps) towards [fin]:
     - no infinite run inside the phase (the successor relation is well founded there), and
     - a state of the phase in which nothing can move is final.
     Together: every maximal run from a phase state is finite and ends in a final state. *)
  Definition Terminates (ph fin : st -> Prop) : Prop :=
    (forall s, ph s -> Acc (succ_in ph) s) /\ (forall s, ph s -> stuck s -> fin s).
End LTS.

(* ---- observable labels and traces ---- *)
Section TRACE.
  Context {st act obs : Type}.
  Variable step : st -> act -> option st.
  Variable lbl : act -> option obs.

  Fixpoint trace (l : list act) : list obs :=
    match l with
    | [] => []
    | a :: r => match lbl a with Some o => o :: trace r | None => trace r end
    end.
End TRACE.

(* ---- observer automata (the acceptance functions the correspondence evaluates) ---- *)
Section OA.
  Context {os obs : Type}.
  Variable ostep : os -> obs -> option os.
  Fixpoint orun (q : os) (l : list obs) : option os :=
    match l with
    | [] => Some q
    | o :: r => match ostep q o with Some q' => orun q' r | None => None end
    end.
  Definition oaccepts (q : os) (l : list obs) : bool :=
    match orun q l with Some _ => true | None => false end.
End OA.

(* ---- what the application can observe of a component (labels shared by all component models) ----
   The numbering of API functions and channels is per component (named constants in each model). *)
Inductive obs :=
| OCall (f : nat)            (* the application invokes API function f *)
| ORet (f : nat) (r : nat)   (* ... observes that the call returned, with result class r *)
| OEv (ch : nat)             (* ... receives an event from public channel ch *)
| OClosed (ch : nat).        (* ... observes that public channel ch is closed (receive yields !ok) *)

Definition obs_eqb (a b : obs) : bool :=
  match a, b with
  | OCall f, OCall g => Nat.eqb f g
  | ORet f r, ORet g q => Nat.eqb f g && Nat.eqb r q
  | OEv c, OEv d => Nat.eqb c d
  | OClosed c, OClosed d => Nat.eqb c d
  | _, _ => false
  end.

(* ---- channels ---- *)
(* a channel as far as shutdown is concerned: closed flag and number of buffered items *)
Record chan := { closed : bool; len : nat }.
Definition ch0 : chan := {| closed := false; len := 0 |}.
Definition ch_close (c : chan) : chan := {| closed := true; len := len c |}.
Definition ch_push (c : chan) : chan := {| closed := closed c; len := S (len c) |}.
Definition ch_pop (c : chan) : chan := {| closed := closed c; len := pred (len c) |}.

(* lexicographic order on pairs / triples of naturals, used by the termination measures *)
Definition lt2 (a b : nat * nat) : Prop :=
  fst a < fst b \/ (fst a = fst b /\ snd a < snd b).
Definition lt3 (a b : nat * nat * nat) : Prop :=
  lt2 (fst a) (fst b) \/ (fst a = fst b /\ snd a < snd b).
