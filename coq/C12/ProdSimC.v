(* C12 — async producer, simulation by the observer automaton, part 3: one lemma per action, by [ProdSim.sim_go]. *)
From Coq Require Import List Arith Bool Lia.
From SV Require Import C12.Lts C12.LtsProofs C12.Tac C12.Prod C12.ProdProofs C12.ProdSafety C12.ProdSim.
Import ListNotations. Import Prod. Import ProdP. Import ProdSim.

Lemma sim_ASCloseSucc c s q s'  : R c s q -> step c s ASCloseSucc = Some s' ->
  match lbl c ASCloseSucc with None => R c s' q | Some o => exists q', ostep c q o = Some q' /\ R c s' q' end.
Proof. intros HR H. sim_go. Qed.
Lemma sim_ADErr c s q s' k : R c s q -> step c s (ADErr k) = Some s' ->
  match lbl c (ADErr k) with None => R c s' q | Some o => exists q', ostep c q o = Some q' /\ R c s' q' end.
Proof. intros HR H. sim_go. Qed.
Lemma sim_ADNewTp c s q s'  : R c s q -> step c s ADNewTp = Some s' ->
  match lbl c ADNewTp with None => R c s' q | Some o => exists q', ostep c q o = Some q' /\ R c s' q' end.
Proof. intros HR H. sim_go. Qed.
Lemma sim_ADFwd c s q s' hand : R c s q -> step c s (ADFwd hand) = Some s' ->
  match lbl c (ADFwd hand) with None => R c s' q | Some o => exists q', ostep c q o = Some q' /\ R c s' q' end.
Proof. intros HR H. sim_go. Qed.
Lemma sim_ADSeeClosed c s q s'  : R c s q -> step c s ADSeeClosed = Some s' ->
  match lbl c ADSeeClosed with None => R c s' q | Some o => exists q', ostep c q o = Some q' /\ R c s' q' end.
Proof. intros HR H. sim_go. Qed.
Lemma sim_ADCloseH c s q s'  : R c s q -> step c s ADCloseH = Some s' ->
  match lbl c ADCloseH with None => R c s' q | Some o => exists q', ostep c q o = Some q' /\ R c s' q' end.
Proof. intros HR H. sim_go. Qed.
