(* C12 — consumer group, simulation by the observer automaton : one lemma per action, by [GrpSim.sim_go]. *)
(* part 4 of 9; lemmas packed by proof time so that no file of the family takes much over a minute *)
From Coq Require Import List Arith Bool Lia.
From SV Require Import C12.Lts C12.LtsProofs C12.Tac C12.Group C12.GroupProofs C12.GroupSafety C12.GroupSim.
Import ListNotations. Import Grp. Import GrpP. Import GrpSim.

Lemma sim_AFwSend c s q s' h : (elock c = true \/ ~ GrpS.racy s (AFwSend h)) -> R s q -> step c s (AFwSend h) = Some s' ->
  match lbl (AFwSend h) with None => R s' q | Some o => exists q', ostep q o = Some q' /\ R s' q' end.
Proof. intros G HR H. sim_go. Qed.
Lemma sim_AGStart c s q s'  : (elock c = true \/ ~ GrpS.racy s AGStart) -> R s q -> step c s AGStart = Some s' ->
  match lbl AGStart with None => R s' q | Some o => exists q', ostep q o = Some q' /\ R s' q' end.
Proof. intros G HR H. sim_go. Qed.
