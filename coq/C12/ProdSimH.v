(* C12 — async producer, simulation by the observer automaton, part 8: one lemma per action, by [ProdSim.sim_go]. *)
From Coq Require Import List Arith Bool Lia.
From SV Require Import C12.Lts C12.LtsProofs C12.Tac C12.Prod C12.ProdProofs C12.ProdSafety C12.ProdSim.
Import ListNotations. Import Prod. Import ProdP. Import ProdSim.

Lemma sim_ABFate c s q s' f : R c s q -> step c s (ABFate f) = Some s' ->
  match lbl c (ABFate f) with None => R c s' q | Some o => exists q', ostep c q o = Some q' /\ R c s' q' end.
Proof. intros HR H. sim_go. Qed.
Lemma sim_ABFlush c s q s'  : R c s q -> step c s ABFlush = Some s' ->
  match lbl c ABFlush with None => R c s' q | Some o => exists q', ostep c q o = Some q' /\ R c s' q' end.
Proof. intros HR H. sim_go. Qed.
Lemma sim_ABRecvResp c s q s'  : R c s q -> step c s ABRecvResp = Some s' ->
  match lbl c ABRecvResp with None => R c s' q | Some o => exists q', ostep c q o = Some q' /\ R c s' q' end.
Proof. intros HR H. sim_go. Qed.
Lemma sim_ABResolve c s q s' f : R c s q -> step c s (ABResolve f) = Some s' ->
  match lbl c (ABResolve f) with None => R c s' q | Some o => exists q', ostep c q o = Some q' /\ R c s' q' end.
Proof. intros HR H. sim_go. Qed.
Lemma sim_ABDropBuf c s q s' f : R c s q -> step c s (ABDropBuf f) = Some s' ->
  match lbl c (ABDropBuf f) with None => R c s' q | Some o => exists q', ostep c q o = Some q' /\ R c s' q' end.
Proof. intros HR H. sim_go. Qed.
Lemma sim_ABRespDone c s q s'  : R c s q -> step c s ABRespDone = Some s' ->
  match lbl c ABRespDone with None => R c s' q | Some o => exists q', ostep c q o = Some q' /\ R c s' q' end.
Proof. intros HR H. sim_go. Qed.
