(* C12 — partition consumer: every observable behaviour of the LTS is accepted by the observer automaton
   PC.ostep (the acceptance function evaluated on the harness observations).  Simulation relation [R]
   between LTS states and automaton states; tactic [sim_go] handles one action. *)
From Coq Require Import List Arith Bool Lia.
From SV Require Import C12.Lts C12.LtsProofs C12.Tac C12.PCons C12.PConsProofs C12.PConsInv_01 C12.PConsInv_02 C12.PConsSafety.
Import ListNotations.

Module PCSim.
  Import PC. Import PCP.

  Definition apI (a : apc) : nat := match a with ApIdle => 0 | _ => 1 end.
  Definition apN (a : apc) : nat := match a with ApDrain n | ApRet n => n | ApIdle => 0 end.
  Definition apR (a : apc) : nat := match a with ApRet _ => 1 | _ => 0 end.
  Lemma ap_spec a : apR a <= apI a /\ apI a <= 1. Proof. destruct a; cbn; lia. Qed.

  Record R (c : cfg) (s : st) (q : os) : Prop := {
    r_inv : Inv s;
    r_called : b2n (q_called q) = b2n (once (ch s));
    r_m : b2n (q_m q) = b2n (seen_m (ch s));
    r_e : b2n (q_e q) = b2n (seen_e (ch s));
    r_in : b2n (q_in q) = apI (ap s) /\ apI (ap s) <= b2n (once (ch s));
    r_seenm : b2n (seen_m (ch s)) <= b2n (closed (msgs (ch s))) /\ (b2n (seen_m (ch s)) = 1 -> len (msgs (ch s)) = 0);
    r_seene : b2n (seen_e (ch s)) <= b2n (closed (errs (ch s))) /\ (b2n (seen_e (ch s)) = 1 -> len (errs (ch s)) = 0);
    (* once a Close() has returned: errors closed and empty, messages hold at most what is left of the buffer,
       a later Close() counts nothing *)
    r_ret : b2n (q_ret q) <= b2n (closed (errs (ch s))) /\
            (b2n (q_ret q) = 1 -> len (errs (ch s)) = 0 /\ len (msgs (ch s)) <= q_left q /\ apN (ap s) = 0);
    r_apret : apR (ap s) <= b2n (closed (errs (ch s))) /\ (apR (ap s) = 1 -> len (errs (ch s)) = 0);
    r_cap : len (msgs (ch s)) <= cap c /\ len (errs (ch s)) <= cap c
  }.

  Lemma R_init c : R c (init c) oinit.
  Proof. constructor; cbn; try lia. apply inv_init. Qed.

  Ltac destr_R HR := destruct HR as [RI Rcalled Rm Re Rin Rseenm Rseene Rret Rapret Rcap].

  Ltac q_cases :=
    repeat match goal with
    | |- context [if ?b then _ else _] => destruct b eqn:?; cbn
    | |- context [match ?n with 0 => _ | S _ => _ end] => destruct n eqn:?; cbn
    end.

  (* rewrite the goal with the boolean facts of the case analysis *)
  Ltac rw_consts :=
    repeat match goal with
    | H : ?l = true |- context [?l] => rewrite H
    | H : ?l = false |- context [?l] => rewrite H
    end.

  Ltac finish_R I' :=
    first
      [ exfalso; lia
      | constructor; [exact I' | ..]; unf; cbn in *; rw_consts; cbn in *; try lia; bool_goal; try lia ].

  (* one action: case analysis of the step, invariant of the successor, simplified context *)
  Ltac sim_prep :=
    match goal with HR : R ?c ?s ?q, H : step ?c ?s ?a = Some ?s' |- _ =>
      let I' := fresh "I'" in
      pose proof (PCS.inv_step c s a s' (r_inv c s q HR) H) as I';
      scbn H; unfold send_err, send_msg, put_token, w_unref, parse_ok, draining in H;
      step_cases H; pair_cases; bool_hyps; pair_cases; bool_hyps;
      destr_R HR; pose_specs s; pose proof (ap_spec (ap s));
      match goal with RI : Inv s |- _ => destr_inv RI end;
      unf; rew_eqs s; cbn in *;
      destruct q as [qc qm qe qi qr ql]; cbn [lbl lbl_err ostep q_called q_m q_e q_in q_ret q_left chM chE fAsync fClose] in *
    end.
  Ltac sim_fin :=
    match goal with I' : Inv _ |- _ =>
      lazymatch goal with
      | |- R _ _ _ => finish_R I'
      | _ =>
        repeat match goal with b : bool |- _ =>
          lazymatch goal with |- context [if b then _ else _] => destruct b | |- context [b || _] => destruct b
                            | |- context [_ || b] => destruct b | |- context [b && _] => destruct b end end;
        cbn in *; q_cases; bool_hyps; subst; cbn in *;
             first [ exfalso; cbn in *; lia
                   | eexists; split; [reflexivity|]; finish_R I' ]
      end
    end.
  Ltac sim_go := sim_prep; sim_fin.
End PCSim.
