(* C12 — partition consumer: the measure of PConsMeasure.v decreases with every action once dying is closed, part 2 ([PCM.pmgo]). *)
From Coq Require Import List Arith Bool Lia.
From SV Require Import C12.Lts C12.LtsProofs C12.Tac C12.PCons C12.PConsProofs C12.PConsSafety C12.PConsMeasure.
Import ListNotations. Import PC. Import PCP. Import PCM.

Lemma m_ADNet c s s' ok : Inv s -> dying (ch s) = true -> step c s (ADNet ok) = Some s' -> lt2 (mu c s') (mu c s).
Proof. intros I P H. pmgo. Qed.
Lemma m_ADSub c s s'  : Inv s -> dying (ch s) = true -> step c s ADSub = Some s' -> lt2 (mu c s') (mu c s).
Proof. intros I P H. pmgo. Qed.
Lemma m_ADErr c s s' hand : Inv s -> dying (ch s) = true -> step c s (ADErr hand) = Some s' -> lt2 (mu c s') (mu c s).
Proof. intros I P H. pmgo. Qed.
Lemma m_ADTok c s s'  : Inv s -> dying (ch s) = true -> step c s ADTok = Some s' -> lt2 (mu c s') (mu c s).
Proof. intros I P H. pmgo. Qed.
Lemma m_ADExit c s s'  : Inv s -> dying (ch s) = true -> step c s ADExit = Some s' -> lt2 (mu c s') (mu c s).
Proof. intros I P H. pmgo. Qed.
Lemma m_ADCloseF c s s'  : Inv s -> dying (ch s) = true -> step c s ADCloseF = Some s' -> lt2 (mu c s') (mu c s).
Proof. intros I P H. pmgo. Qed.
Lemma m_AFTake c s s' o n toolarge : Inv s -> dying (ch s) = true -> step c s (AFTake o n toolarge) = Some s' -> lt2 (mu c s') (mu c s).
Proof. intros I P H. pmgo. Qed.
Lemma m_AFSeeClosed c s s'  : Inv s -> dying (ch s) = true -> step c s AFSeeClosed = Some s' -> lt2 (mu c s') (mu c s).
Proof. intros I P H. pmgo. Qed.
Lemma m_AFPErr c s s' hand : Inv s -> dying (ch s) = true -> step c s (AFPErr hand) = Some s' -> lt2 (mu c s') (mu c s).
Proof. intros I P H. pmgo. Qed.
Lemma m_AFDying c s s'  : Inv s -> dying (ch s) = true -> step c s AFDying = Some s' -> lt2 (mu c s') (mu c s).
Proof. intros I P H. pmgo. Qed.
Lemma m_AFSend c s s' hand : Inv s -> dying (ch s) = true -> step c s (AFSend hand) = Some s' -> lt2 (mu c s') (mu c s).
Proof. intros I P H. pmgo. Qed.
Lemma m_AFTick c s s'  : Inv s -> dying (ch s) = true -> step c s AFTick = Some s' -> lt2 (mu c s') (mu c s).
Proof. intros I P H. pmgo. Qed.
Lemma m_AFLSend c s s' hand : Inv s -> dying (ch s) = true -> step c s (AFLSend hand) = Some s' -> lt2 (mu c s') (mu c s).
Proof. intros I P H. pmgo. Qed.
Lemma m_AFLDying c s s'  : Inv s -> dying (ch s) = true -> step c s AFLDying = Some s' -> lt2 (mu c s') (mu c s).
Proof. intros I P H. pmgo. Qed.
