(* C12 — async producer: every observable behaviour of the LTS is accepted by the observer automaton
   Prod.ostep. *)
From Coq Require Import List Arith Bool Lia.
From SV Require Import C12.Lts C12.LtsProofs C12.Tac C12.Prod C12.ProdProofs C12.ProdSafety.
Import ListNotations.

Module ProdSim.
  Import Prod. Import ProdP.

  Definition aI (a : apc) : nat := match a with ApIdle => 0 | _ => 1 end.
  Definition aRd (a : apc) : nat := match a with ApReturned => 1 | _ => 0 end.
  Definition aLate (a : apc) : nat := match a with ApRet _ | ApReturned => 1 | _ => 0 end.
  Definition aDn (a : apc) : nat := match a with ApDrain _ => 1 | _ => 0 end.
  Lemma a_spec a : aRd a <= aLate a /\ aLate a + aDn a = aI a /\ aI a <= 1. Proof. destruct a; cbn; lia. Qed.

  Record R (c : cfg) (s : st) (q : os) : Prop := {
    r_inv : Inv s;
    r_called : b2n (q_called q) + s0 (sp s) = 1;
    r_ret : b2n (q_ret q) = aRd (ap s);
    r_s : b2n (q_s q) = b2n (seen_succ s) /\ b2n (seen_succ s) <= b2n (succ_closed s);
    r_e : b2n (q_e q) = b2n (seen_err s) /\ b2n (seen_err s) <= b2n (err_closed s);
    r_sync : aI (ap s) <= b2n (sync_close c) /\ b2n (sync_close c) <= s0 (sp s) + aI (ap s) /\ aI (ap s) + s0 (sp s) <= 1;
    r_late : aLate (ap s) <= b2n (err_closed s)
  }.

  Lemma R_init c : R c (init c) oinit.
  Proof. constructor; cbn; try lia. apply inv_init. destruct (sync_close c); cbn; lia. Qed.

  Ltac destr_R HR := destruct HR as [RI Rcalled Rret Rs Re Rsync Rlate].

  Ltac q_cases :=
    repeat match goal with
    | |- context [if ?b then _ else _] => destruct b eqn:?; cbn
    end.
  Ltac rw_consts :=
    repeat match goal with
    | H : ?l = true |- context [?l] => rewrite H
    | H : ?l = false |- context [?l] => rewrite H
    end.
  Ltac bool_goal1 :=
    repeat match goal with
    | |- context [b2n (?a || ?b)] => destruct a eqn:?; destruct b eqn:?; cbn
    | |- context [b2n (?a && ?b)] => destruct a eqn:?; destruct b eqn:?; cbn
    end.

  (* projections of explicit records, without letting cbn fold the accessors back *)
  Ltac proj_red :=
    unfold inflight, sp, in_closed, ret_closed, err_closed, succ_closed, seen_err, seen_succ, sent, ap, dp, d_hold, shutting, rh, rh_buf, tp, tpq, tpq_closed, t_hold, pp, ppq, ppq_closed, p_hold, ppbuf, pp_ref, p_mark, bp, b_refs, b_in_closed, b_hold, b_buf, b_resp, b_after, br, br_set, out_closed, resp_closed, stop_closed;
    cbn [sh apl dsp tpr prt brk brg old budget fuel panic x_inflight x_sp x_in_closed x_ret_closed x_err_closed x_succ_closed x_seen_err x_seen_succ x_sent x_ap x_dp x_d_hold x_shutting x_rh x_rh_buf x_tp x_tpq x_tpq_closed x_t_hold x_pp x_ppq x_ppq_closed x_p_hold x_ppbuf x_pp_ref x_p_mark x_bp x_b_refs x_b_in_closed x_b_hold x_b_buf x_b_resp x_b_after x_br x_br_set x_out_closed x_resp_closed x_stop_closed].

  Ltac finish_R I' :=
    first
      [ exfalso; lia2
      | constructor; [exact I' | ..]; red_goal; proj_red;
        try (match goal with Hc : x_inflight (sh ?st) = _ |- _ => rew_goal st end);
        rw_consts;
        cbn [sM sLate sI sR sE sS s0 aI aRd aLate aDn b2n]; try lia2; bool_goal1; try lia2 ].

  Ltac sim_prep :=
    match goal with HR : R ?c ?s ?q, H : step ?c ?s ?a = Some ?s' |- _ =>
      let I' := fresh "I'" in
      pose proof (ProdS.inv_step c s a s' (r_inv c s q HR) H) as I';
      scbn H; unfold resolve in H; unacc;
      unfold set_d, set_t, set_p, set_b, set_misc, set_app, set_s, set_infl, set_mark, set_br, upd_panic in H; scbn H;
      step_cases H; pair_cases; bool_hyps; pair_cases; bool_hyps;
      match goal with HR : R ?cx ?sx ?qx |- _ =>
        destr_R HR; pose_specs sx; pose proof (a_spec (ap sx)); pose proof (b2n_le1 (sync_close cx));
        match goal with RI : Inv sx |- _ => destr_inv RI end;
        unfold tokens in *; unacc; rew_eqs sx;
        cbn [sM sLate sI sR sE sS s0 dH dDn tH tS tDn tNo pH pSt pNo pAct pLive aW aL aOK bHd bRs bNo bLate bDn bSel brB brDn b2n orb andb aI aRd aLate aDn] in *;
        destruct qx as [qc qr qs qe];
        cbn [lbl lbl_fate ostep q_called q_ret q_s q_e fAsync fClose chS chE] in *
      end
    end.

  Ltac sim_fin :=
    match goal with I' : Inv _ |- _ =>
      lazymatch goal with
      | |- R _ _ _ => finish_R I'
      | _ =>
        repeat match goal with b : bool |- _ =>
          lazymatch goal with |- context [if b then _ else _] => destruct b | |- context [b || _] => destruct b
                            | |- context [_ || b] => destruct b | |- context [b && _] => destruct b
                            | |- context [_ && b] => destruct b | |- context [negb b] => destruct b end end;
        repeat match goal with |- context [?a =? ?b] => destruct (a =? b) eqn:? end;
        repeat match goal with |- context [if sync_close ?c then _ else _] => destruct (sync_close c) eqn:? end;
        cbn in *; q_cases; bool_hyps;
        repeat (match goal with X : _ \/ _ |- _ => destruct X end; bool_hyps);
        try discriminate; subst;
        repeat match goal with
        | H : ?l = true |- _ => progress (rewrite H in * )
        | H : ?l = false |- _ => progress (rewrite H in * )
        end;
        cbn in *;
        first [ exfalso; cbn in *; lia2
              | eexists; split; [reflexivity|]; finish_R I' ]
      end
    end.
  Ltac sim_go := sim_prep; sim_fin.
End ProdSim.
