(* C12 — preservation of the producer invariant (ProdProofs.Inv), part 9: one lemma per action, by [ProdP.go]. *)
From Coq Require Import List Arith Bool Lia.
From SV Require Import C12.Lts C12.LtsProofs C12.Tac C12.Prod C12.ProdProofs.
Import ListNotations. Import Prod. Import ProdP.

Lemma step_ABSeeClosed c s s'  : Inv s -> step c s ABSeeClosed = Some s' -> Inv s'.
Proof. intros I H. go s H I. Qed.
Lemma step_ABShutFlushed c s s'  : Inv s -> step c s ABShutFlushed = Some s' -> Inv s'.
Proof. intros I H. go s H I. Qed.
Lemma step_ABCloseOut c s s'  : Inv s -> step c s ABCloseOut = Some s' -> Inv s'.
Proof. intros I H. go s H I. Qed.
Lemma step_ABDrained c s s'  : Inv s -> step c s ABDrained = Some s' -> Inv s'.
Proof. intros I H. go s H I. Qed.
Lemma step_ABCloseStop c s s'  : Inv s -> step c s ABCloseStop = Some s' -> Inv s'.
Proof. intros I H. go s H I. Qed.
Lemma step_ABrNet c s s'  : Inv s -> step c s ABrNet = Some s' -> Inv s'.
Proof. intros I H. go s H I. Qed.
