(* C12 — partition consumer: the measure of PConsMeasure.v decreases with every action once dying is closed  ([PCM.pmgo]). *)
(* part 7 of 7; lemmas packed by proof time so that no file of the family takes much over a minute *)
From Coq Require Import List Arith Bool Lia.
From SV Require Import C12.Lts C12.LtsProofs C12.Tac C12.PCons C12.PConsProofs C12.PConsSafety C12.PConsMeasure.
Import ListNotations. Import PC. Import PCP. Import PCM.

Lemma m_ASeeClosedE c s s'  : Inv s -> dying (ch s) = true -> step c s ASeeClosedE = Some s' -> lt2 (mu c s') (mu c s).
Proof. intros I P H. pmgo. Qed.
Lemma m_ADSeeClosed c s s'  : Inv s -> dying (ch s) = true -> step c s ADSeeClosed = Some s' -> lt2 (mu c s') (mu c s).
Proof. intros I P H. pmgo. Qed.
Lemma m_ASMWait c s s'  : Inv s -> dying (ch s) = true -> step c s ASMWait = Some s' -> lt2 (mu c s') (mu c s).
Proof. intros I P H. pmgo. Qed.
Lemma m_ASeeClosedM c s s'  : Inv s -> dying (ch s) = true -> step c s ASeeClosedM = Some s' -> lt2 (mu c s') (mu c s).
Proof. intros I P H. pmgo. Qed.
Lemma m_AFSeeClosed c s s'  : Inv s -> dying (ch s) = true -> step c s AFSeeClosed = Some s' -> lt2 (mu c s') (mu c s).
Proof. intros I P H. pmgo. Qed.
Lemma m_ADTake c s s'  : Inv s -> dying (ch s) = true -> step c s ADTake = Some s' -> lt2 (mu c s') (mu c s).
Proof. intros I P H. pmgo. Qed.
Lemma m_ASCAcks c s s'  : Inv s -> dying (ch s) = true -> step c s ASCAcks = Some s' -> lt2 (mu c s') (mu c s).
Proof. intros I P H. pmgo. Qed.
Lemma m_ASCHClose c s s'  : Inv s -> dying (ch s) = true -> step c s ASCHClose = Some s' -> lt2 (mu c s') (mu c s).
Proof. intros I P H. pmgo. Qed.
