(* C12 — partition consumer, simulation by the observer automaton: application, dispatcher and feeder actions. One lemma per action, by [PCSim.sim_go]. *)
From Coq Require Import List Arith Bool Lia.
From SV Require Import C12.Lts C12.LtsProofs C12.Tac C12.PCons C12.PConsProofs C12.PConsSafety C12.PConsSim.
Import ListNotations. Import PC. Import PCP. Import PCSim.

Lemma sim_AAsyncClose c s q s'  : R c s q -> step c s AAsyncClose = Some s' ->
  match lbl AAsyncClose with None => R c s' q | Some o => exists q', ostep c true q o = Some q' /\ R c s' q' end.
Proof. intros HR H. sim_go. Qed.
Lemma sim_ACloseCall c s q s'  : R c s q -> step c s ACloseCall = Some s' ->
  match lbl ACloseCall with None => R c s' q | Some o => exists q', ostep c true q o = Some q' /\ R c s' q' end.
Proof. intros HR H. sim_go. Qed.
Lemma sim_ACloseRecv c s q s'  : R c s q -> step c s ACloseRecv = Some s' ->
  match lbl ACloseRecv with None => R c s' q | Some o => exists q', ostep c true q o = Some q' /\ R c s' q' end.
Proof. intros HR H. sim_go. Qed.
Lemma sim_ACloseSeeClosed c s q s'  : R c s q -> step c s ACloseSeeClosed = Some s' ->
  match lbl ACloseSeeClosed with None => R c s' q | Some o => exists q', ostep c true q o = Some q' /\ R c s' q' end.
Proof. intros HR H. sim_go. Qed.
Lemma sim_ARet c s q s' n : R c s q -> step c s (ARet n) = Some s' ->
  match lbl (ARet n) with None => R c s' q | Some o => exists q', ostep c true q o = Some q' /\ R c s' q' end.
Proof. intros HR H. sim_go. Qed.
Lemma sim_ARecvMsg c s q s'  : R c s q -> step c s ARecvMsg = Some s' ->
  match lbl ARecvMsg with None => R c s' q | Some o => exists q', ostep c true q o = Some q' /\ R c s' q' end.
Proof. intros HR H. sim_go. Qed.
Lemma sim_ARecvErr c s q s'  : R c s q -> step c s ARecvErr = Some s' ->
  match lbl ARecvErr with None => R c s' q | Some o => exists q', ostep c true q o = Some q' /\ R c s' q' end.
Proof. intros HR H. sim_go. Qed.
Lemma sim_ASeeClosedM c s q s'  : R c s q -> step c s ASeeClosedM = Some s' ->
  match lbl ASeeClosedM with None => R c s' q | Some o => exists q', ostep c true q o = Some q' /\ R c s' q' end.
Proof. intros HR H. sim_go. Qed.
Lemma sim_ASeeClosedE c s q s'  : R c s q -> step c s ASeeClosedE = Some s' ->
  match lbl ASeeClosedE with None => R c s' q | Some o => exists q', ostep c true q o = Some q' /\ R c s' q' end.
Proof. intros HR H. sim_go. Qed.
Lemma sim_ADTake c s q s'  : R c s q -> step c s ADTake = Some s' ->
  match lbl ADTake with None => R c s' q | Some o => exists q', ostep c true q o = Some q' /\ R c s' q' end.
Proof. intros HR H. sim_go. Qed.
Lemma sim_ADSeeClosed c s q s'  : R c s q -> step c s ADSeeClosed = Some s' ->
  match lbl ADSeeClosed with None => R c s' q | Some o => exists q', ostep c true q o = Some q' /\ R c s' q' end.
Proof. intros HR H. sim_go. Qed.
Lemma sim_ADDying c s q s'  : R c s q -> step c s ADDying = Some s' ->
  match lbl ADDying with None => R c s' q | Some o => exists q', ostep c true q o = Some q' /\ R c s' q' end.
Proof. intros HR H. sim_go. Qed.
Lemma sim_ADTimer c s q s'  : R c s q -> step c s ADTimer = Some s' ->
  match lbl ADTimer with None => R c s' q | Some o => exists q', ostep c true q o = Some q' /\ R c s' q' end.
Proof. intros HR H. sim_go. Qed.
Lemma sim_ADUnref c s q s'  : R c s q -> step c s ADUnref = Some s' ->
  match lbl ADUnref with None => R c s' q | Some o => exists q', ostep c true q o = Some q' /\ R c s' q' end.
Proof. intros HR H. sim_go. Qed.
Lemma sim_ADNet c s q s' ok : R c s q -> step c s (ADNet ok) = Some s' ->
  match lbl (ADNet ok) with None => R c s' q | Some o => exists q', ostep c true q o = Some q' /\ R c s' q' end.
Proof. intros HR H. sim_go. Qed.
Lemma sim_ADSub c s q s'  : R c s q -> step c s ADSub = Some s' ->
  match lbl ADSub with None => R c s' q | Some o => exists q', ostep c true q o = Some q' /\ R c s' q' end.
Proof. intros HR H. sim_go. Qed.
Lemma sim_ADErr c s q s' hand : R c s q -> step c s (ADErr hand) = Some s' ->
  match lbl (ADErr hand) with None => R c s' q | Some o => exists q', ostep c true q o = Some q' /\ R c s' q' end.
Proof. intros HR H. sim_go. Qed.
Lemma sim_ADTok c s q s'  : R c s q -> step c s ADTok = Some s' ->
  match lbl ADTok with None => R c s' q | Some o => exists q', ostep c true q o = Some q' /\ R c s' q' end.
Proof. intros HR H. sim_go. Qed.
Lemma sim_ADExit c s q s'  : R c s q -> step c s ADExit = Some s' ->
  match lbl ADExit with None => R c s' q | Some o => exists q', ostep c true q o = Some q' /\ R c s' q' end.
Proof. intros HR H. sim_go. Qed.
Lemma sim_ADCloseF c s q s'  : R c s q -> step c s ADCloseF = Some s' ->
  match lbl ADCloseF with None => R c s' q | Some o => exists q', ostep c true q o = Some q' /\ R c s' q' end.
Proof. intros HR H. sim_go. Qed.
Lemma sim_AFTake c s q s' o n toolarge : R c s q -> step c s (AFTake o n toolarge) = Some s' ->
  match lbl (AFTake o n toolarge) with None => R c s' q | Some o => exists q', ostep c true q o = Some q' /\ R c s' q' end.
Proof. intros HR H. sim_go. Qed.
Lemma sim_AFSeeClosed c s q s'  : R c s q -> step c s AFSeeClosed = Some s' ->
  match lbl AFSeeClosed with None => R c s' q | Some o => exists q', ostep c true q o = Some q' /\ R c s' q' end.
Proof. intros HR H. sim_go. Qed.
Lemma sim_AFPErr c s q s' hand : R c s q -> step c s (AFPErr hand) = Some s' ->
  match lbl (AFPErr hand) with None => R c s' q | Some o => exists q', ostep c true q o = Some q' /\ R c s' q' end.
Proof. intros HR H. sim_go. Qed.
Lemma sim_AFDying c s q s'  : R c s q -> step c s AFDying = Some s' ->
  match lbl AFDying with None => R c s' q | Some o => exists q', ostep c true q o = Some q' /\ R c s' q' end.
Proof. intros HR H. sim_go. Qed.
Lemma sim_AFSend c s q s' hand : R c s q -> step c s (AFSend hand) = Some s' ->
  match lbl (AFSend hand) with None => R c s' q | Some o => exists q', ostep c true q o = Some q' /\ R c s' q' end.
Proof. intros HR H. sim_go. Qed.
Lemma sim_AFTick c s q s'  : R c s q -> step c s AFTick = Some s' ->
  match lbl AFTick with None => R c s' q | Some o => exists q', ostep c true q o = Some q' /\ R c s' q' end.
Proof. intros HR H. sim_go. Qed.
Lemma sim_AFLSend c s q s' hand : R c s q -> step c s (AFLSend hand) = Some s' ->
  match lbl (AFLSend hand) with None => R c s' q | Some o => exists q', ostep c true q o = Some q' /\ R c s' q' end.
Proof. intros HR H. sim_go. Qed.
Lemma sim_AFLDying c s q s'  : R c s q -> step c s AFLDying = Some s' ->
  match lbl AFLDying with None => R c s' q | Some o => exists q', ostep c true q o = Some q' /\ R c s' q' end.
Proof. intros HR H. sim_go. Qed.
