(* C12 — partition consumer: in runs where the broker never answers OffsetOutOfRange the partition
   consumer does not shut itself down: the trigger is closed only after AsyncClose/Close, hence the
   application sees messages / errors closed only after it called one of them (observer automaton with
   self = false, as used for all scenarios but "oor"). *)
From Coq Require Import List Arith Bool Lia.
From SV Require Import C12.Lts C12.LtsProofs C12.Tac C12.PCons C12.PConsProofs C12.PConsSafety C12.PConsSim C12.PConsAccept.
Import ListNotations.

Module PCN.
  Import PC. Import PCP.

  (* the environment's choice "this fetch answer is OffsetOutOfRange" *)
  Definition noor (a : act) : bool := match a with AFTake ROOR _ _ => false | _ => true end.

  Definition rO (r : rr) : nat := match r with ROOR => 1 | _ => 0 end.
  Definition cO (p : scpc) : nat := match p with SCHErr true | SCHClose => 1 | _ => 0 end.
  Definition cU (p : scpc) : nat := match p with SCUpdClose => 1 | _ => 0 end.

  Record NoOor (s : st) : Prop := {
    n_rres : rO (rres s) = 0;
    n_sc : cO (sc (w s)) = 0;
    n_upd : cU (sc (w s)) <= b2n (dying (ch s));
    n_trig : b2n (trig_closed (ch s)) <= b2n (dying (ch s))
  }.

  Lemma noor_init c : NoOor (init c).
  Proof. constructor; cbn; lia. Qed.

  Ltac ngo :=
    match goal with N : NoOor ?s, H : step _ ?s _ = Some _ |- _ =>
      scbn H; unfold send_err, send_msg, put_token, w_unref, parse_ok, draining in H;
      step_cases H; pair_cases; bool_hyps; pair_cases; bool_hyps;
      destruct N as [N1 N2 N4 N3]; pose proof (b2n_le1 (trig_closed (ch s))); pose proof (b2n_le1 (dying (ch s)));
      unf; rew_eqs s; cbn in *;
      try discriminate;
      (constructor; unf; cbn; repeat match goal with X : ?l = true |- context [?l] => rewrite X end; cbn; try lia)
    end.

  Lemma noor_step c s a s' : NoOor s -> noor a = true -> step c s a = Some s' -> NoOor s'.
  Proof.
    intros N Ha H. destruct a; try solve [ngo].
    (* AFTake: the excluded outcome *)
    all: match goal with o : rr |- _ => destruct o end; cbn in Ha; try discriminate; ngo.
  Qed.

  Lemma noor_run c : forall l s s', NoOor s -> forallb noor l = true -> run (step c) s l = Some s' -> NoOor s'.
  Proof.
    induction l as [|a l IH]; intros s s' N F H; cbn in *.
    - now injection H as <-.
    - apply andb_true_iff in F as [F1 F2]. destruct (step c s a) as [s1|] eqn:E; [|discriminate].
      eapply (IH s1 s'); [eapply noor_step; eauto | exact F2 | exact H].
  Qed.

  (* the two automata differ only in when a close may be observed *)
  Lemma ostep_self c q o : q_called q = true -> ostep c false q o = ostep c true q o.
  Proof. intros E. destruct o as [f|f r|ch|ch]; cbn; try reflexivity; destruct ch as [|[|ch]]; cbn; rewrite ?E; cbn; reflexivity. Qed.
  Lemma ostep_self_notclosed c q o : (forall ch, o <> OClosed ch) -> ostep c false q o = ostep c true q o.
  Proof. intros E. destruct o as [f|f r|ch|ch]; cbn; try reflexivity. exfalso. now apply (E ch). Qed.

  Import PCSim.

  (* messages / errors closed implies AsyncClose/Close was called *)
  Lemma closed_called c s q : R c s q -> NoOor s ->
    (closed (msgs (ch s)) = true \/ closed (errs (ch s)) = true) -> q_called q = true.
  Proof.
    intros HR N Hc. destr_R HR. destruct N as [N1 N2 N4 N3]. destr_inv RI. pose_specs s.
    assert (b2n (q_called q) = 1); [|destruct (q_called q); cbn in *; auto; lia].
    destruct Hc as [E|E]; rewrite E in *; cbn in *; lia.
  Qed.

  Lemma sim_noor c s q a s' : R c s q -> NoOor s -> step c s a = Some s' ->
    match lbl a with None => R c s' q | Some o => exists q', ostep c false q o = Some q' /\ R c s' q' end.
  Proof.
    intros HR N H. pose proof (PCA.sim c s q a s' HR H) as S.
    destruct (lbl a) as [o|] eqn:L; [|exact S].
    destruct S as [q' [Hq HR']]. exists q'. split; [|exact HR'].
    rewrite <- Hq.
    destruct a; cbn in L; try discriminate; try (destruct hand; try discriminate);
      try (injection L as <-; apply ostep_self_notclosed; intros ch0; discriminate).
    - (* ASeeClosedM *) injection L as <-. apply ostep_self. eapply closed_called; eauto.
      left. scbn H. destruct (closed (msgs (ch s))); auto. cbn in H. discriminate.
    - (* ASeeClosedE *) injection L as <-. apply ostep_self. eapply closed_called; eauto.
      right. scbn H. destruct (closed (errs (ch s))); auto. cbn in H. discriminate.
  Qed.

  Theorem pc_trace_accepted_noor : forall c l s, forallb noor l = true -> run (step c) (init c) l = Some s ->
    accepts c false (trace lbl l) = true.
  Proof.
    intros c l s F H. unfold accepts, oaccepts.
    assert (G : forall l s0 q s1, R c s0 q -> NoOor s0 -> forallb noor l = true -> run (step c) s0 l = Some s1 ->
                exists q', orun (ostep c false) q (trace lbl l) = Some q').
    { clear. induction l as [|a l IH]; intros s0 q s1 HR N F H; cbn in *.
      - eauto.
      - apply andb_true_iff in F as [F1 F2]. destruct (step c s0 a) as [s2|] eqn:E; [|discriminate].
        pose proof (sim_noor c s0 q a s2 HR N E) as S. pose proof (noor_step c s0 a s2 N F1 E) as N2.
        destruct (lbl a) as [o|].
        + destruct S as [q1 [Hq1 HR1]]. cbn. rewrite Hq1. eapply IH; eauto.
        + eapply IH; eauto. }
    destruct (G l (init c) oinit s (R_init c) (noor_init c) F H) as [q' Hq]. now rewrite Hq.
  Qed.
End PCN.
