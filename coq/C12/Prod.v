(* C12 — shutdown model of the async producer (async_producer.go: AsyncClose / Close / shutdown,
   dispatcher, retryHandler, topicProducer.dispatch, partitionProducer.dispatch, brokerProducer.run /
   shutdown, the bridge goroutine, getBrokerProducer / unrefBrokerProducer / abandonBrokerConnection).
   Definitions only.

   What is modelled exactly: every goroutine's blocking operations, the inFlight WaitGroup, the
   broker-worker reference count with close(bp.input) at zero, close(bp.output) -> bridge ->
   close(responses) -> close(bp.stopchan), the shutdown marker through the dispatcher, and the four
   closes of shutdown().  What is abstracted: messages are anonymous counted tokens (one inFlight unit
   each, like the syn / fin / shutdown markers); one topic, one partition, hence one partition producer and
   at most one broker worker holding references (non-idempotent producer: only the partition producer
   calls getBrokerProducer, after having dropped its previous reference).  A worker whose input was
   closed keeps running its shutdown in place; when the partition producer obtains a new worker, the
   tokens the old one still holds move to the pool [old] (they are resolved by the same three moves:
   success, error, retry).  The per-message retry counters and the partition producer's retry-level
   bookkeeping (properties C01/C02) are replaced by two budgets: [budget] retries and [fuel] marker
   creations / timer events may still happen (arbitrary, fixed at the start).

   The application never writes to Input() after AsyncClose/Close, and keeps receiving from Successes()
   and Errors() (both unbuffered: every delivery is a hand-over to the receiving application). *)
From Coq Require Import List Arith Bool.
From SV Require Import C12.Lts.
Import ListNotations.

Module Prod.
  Record cfg := {
    qcap : nat;            (* ChannelBufferSize: capacity of the topic / partition producers' inputs *)
    nmsg : nat;            (* messages the application sends before closing *)
    budget0 : nat;         (* retries that may still happen (sum over messages of Retry.Max - retries) *)
    fuel0 : nat;           (* syn / fin markers and timer events that may still happen *)
    sync_close : bool }.   (* Close() instead of AsyncClose() *)

  (* shutdown() goroutine *)
  Inductive spc := SIdle | SSend | SWait | SClient | SCloseIn | SCloseRet | SCloseErr | SCloseSucc | SDone.
  Inductive dpc := DRecv | DHold | DCloseH | DDone.
  Inductive rhpc := RhLoop | RhDone.
  Inductive tpc := TNone | TRecv | THold | TSend | TCloseH | TDone.   (* TSend: partitioned, handler made, about to forward *)
  Inductive ppc := PNone | PStart | PRecv | PHold | PExit | PDone.
  Inductive bpc := BNone | BSelect | BHold | BResp | BWaitSpace | BShutFlush | BShutCloseOut | BShutDrain | BShutStop | BDone.
  Inductive brpc := BrNone | BrRecv | BrNet | BrSend | BrClose | BrDone.
  (* the application's Close(): AsyncClose; drain successes in a goroutine; for range p.errors; return *)
  Inductive apc := ApIdle | ApDrain (n : nat) | ApRet (n : nat) | ApReturned.

  (* the state is a record of small records (one per goroutine / concern): projections of updated states
     reduce cheaply in the proofs; the flat field names below are accessor functions *)
  Record shut := { x_inflight : nat; x_sp : spc; x_in_closed : bool; x_ret_closed : bool; x_err_closed : bool; x_succ_closed : bool }.
  Record appl := { x_seen_err : bool; x_seen_succ : bool; x_sent : nat; x_ap : apc }.
  Record disp := { x_dp : dpc; x_d_hold : nat; x_shutting : bool; x_rh : rhpc; x_rh_buf : nat }.
  Record topi := { x_tp : tpc; x_tpq : nat; x_tpq_closed : bool; x_t_hold : nat }.
  Record part := { x_pp : ppc; x_ppq : nat; x_ppq_closed : bool; x_p_hold : nat; x_ppbuf : nat; x_pp_ref : bool; x_p_mark : nat }.
  Record brok := { x_bp : bpc; x_b_refs : nat; x_b_in_closed : bool; x_b_hold : nat; x_b_buf : nat; x_b_resp : nat; x_b_after : bpc }.
  Record brid := { x_br : brpc; x_br_set : nat; x_out_closed : bool; x_resp_closed : bool; x_stop_closed : bool }.
  Record st := { sh : shut; apl : appl; dsp : disp; tpr : topi; prt : part; brk : brok; brg : brid;
    old : nat;      (* tokens held by retired workers *)
    budget : nat; fuel : nat; panic : bool }.

  Definition inflight (s : st) : nat := x_inflight (sh s).
  Definition sp (s : st) : spc := x_sp (sh s).
  Definition in_closed (s : st) : bool := x_in_closed (sh s).
  Definition ret_closed (s : st) : bool := x_ret_closed (sh s).
  Definition err_closed (s : st) : bool := x_err_closed (sh s).
  Definition succ_closed (s : st) : bool := x_succ_closed (sh s).
  Definition seen_err (s : st) : bool := x_seen_err (apl s).
  Definition seen_succ (s : st) : bool := x_seen_succ (apl s).
  Definition sent (s : st) : nat := x_sent (apl s).
  Definition ap (s : st) : apc := x_ap (apl s).
  Definition dp (s : st) : dpc := x_dp (dsp s).
  Definition d_hold (s : st) : nat := x_d_hold (dsp s).
  Definition shutting (s : st) : bool := x_shutting (dsp s).
  Definition rh (s : st) : rhpc := x_rh (dsp s).
  Definition rh_buf (s : st) : nat := x_rh_buf (dsp s).
  Definition tp (s : st) : tpc := x_tp (tpr s).
  Definition tpq (s : st) : nat := x_tpq (tpr s).
  Definition tpq_closed (s : st) : bool := x_tpq_closed (tpr s).
  Definition t_hold (s : st) : nat := x_t_hold (tpr s).
  Definition pp (s : st) : ppc := x_pp (prt s).
  Definition ppq (s : st) : nat := x_ppq (prt s).
  Definition ppq_closed (s : st) : bool := x_ppq_closed (prt s).
  Definition p_hold (s : st) : nat := x_p_hold (prt s).
  Definition ppbuf (s : st) : nat := x_ppbuf (prt s).
  Definition pp_ref (s : st) : bool := x_pp_ref (prt s).
  Definition p_mark (s : st) : nat := x_p_mark (prt s).
  Definition bp (s : st) : bpc := x_bp (brk s).
  Definition b_refs (s : st) : nat := x_b_refs (brk s).
  Definition b_in_closed (s : st) : bool := x_b_in_closed (brk s).
  Definition b_hold (s : st) : nat := x_b_hold (brk s).
  Definition b_buf (s : st) : nat := x_b_buf (brk s).
  Definition b_resp (s : st) : nat := x_b_resp (brk s).
  Definition b_after (s : st) : bpc := x_b_after (brk s).
  Definition br (s : st) : brpc := x_br (brg s).
  Definition br_set (s : st) : nat := x_br_set (brg s).
  Definition out_closed (s : st) : bool := x_out_closed (brg s).
  Definition resp_closed (s : st) : bool := x_resp_closed (brg s).
  Definition stop_closed (s : st) : bool := x_stop_closed (brg s).

  Definition init (c : cfg) : st :=
    {| sh := {| x_inflight := 0; x_sp := SIdle; x_in_closed := false; x_ret_closed := false; x_err_closed := false; x_succ_closed := false |}; apl := {| x_seen_err := false; x_seen_succ := false; x_sent := 0; x_ap := ApIdle |}; dsp := {| x_dp := DRecv; x_d_hold := 0; x_shutting := false; x_rh := RhLoop; x_rh_buf := 0 |}; tpr := {| x_tp := TNone; x_tpq := 0; x_tpq_closed := false; x_t_hold := 0 |}; prt := {| x_pp := PNone; x_ppq := 0; x_ppq_closed := false; x_p_hold := 0; x_ppbuf := 0; x_pp_ref := false; x_p_mark := 0 |}; brk := {| x_bp := BNone; x_b_refs := 0; x_b_in_closed := false; x_b_hold := 0; x_b_buf := 0; x_b_resp := 0; x_b_after := BSelect |}; brg := {| x_br := BrNone; x_br_set := 0; x_out_closed := false; x_resp_closed := false; x_stop_closed := false |};
       old := 0; budget := budget0 c; fuel := fuel0 c; panic := false |}.

  (* how a token held by a goroutine is resolved *)
  (* FErr toclose: the error is handed to the application's draining Close() (true) or to the application
     itself (false) *)
  Inductive fate := FSucc | FErr (toclose : bool) | FRetry.

  Inductive act :=
  (* application *)
  | AInput                 (* writes a message to Input(): received by the dispatcher *)
  | AAsyncClose            (* AsyncClose() / Close(): go shutdown() *)
  | ASeeClosedErr | ASeeClosedSucc | ACloseSeeClosed | ARet (n : nat)
  (* shutdown() *)
  | ASMarker               (* p.input <- shutdown marker, received by the dispatcher: shuttingDown = true; Done *)
  | ASWait | ASClient | ASCloseIn | ASCloseRet | ASCloseErr | ASCloseSucc
  (* dispatcher *)
  | ADErr (k : bool)       (* returnError (size / header check): Errors() <- ; Done *)
  | ADNewTp                (* newTopicProducer on first use *)
  | ADFwd (hand : bool)    (* handler <- msg : into the buffer, or directly to the receiving topic producer *)
  | ADSeeClosed | ADCloseH
  (* retry handler *)
  | ARhFeed                (* p.input <- buffered retry, received by the dispatcher *)
  | ARhExit                (* p.retries closed: return *)
  (* topic producer *)
  | ATTake | ATErr (k : bool) | ATNewPp | ATFwd (hand : bool) | ATSeeClosed | ATCloseH
  (* partition producer *)
  | APStart | APTake | APConsume | APBuffer | APErr (k : bool) | APSend | APMark | APMarkSend | APUnref
  | APGetBp | APFlush | APSeeClosed | APExit
  (* broker producer *)
  | ABSyn                  (* a syn marker received: Done *)
  | ABKeep                 (* the received message goes into the buffer *)
  | ABNeedSpace            (* buffer would overflow: waitForSpace *)
  | ABFate (f : fate)      (* the received message is retried / failed (needsRetry, closing, buffer.add error) *)
  | ABFlush                (* output <- buffer : taken by the bridge *)
  | ABRecvResp             (* a response received from the bridge *)
  | ABResolve (f : fate)   (* one message of the response resolved *)
  | ABDropBuf (f : fate)   (* one buffered message dropped by the response (dropPartition / closing) *)
  | ABRespDone
  | ABSeeClosed            (* input closed: shutdown() *)
  | ABShutFlushed | ABCloseOut | ABDrained | ABCloseStop
  (* bridge *)
  | ABrNet                 (* broker.Produce returned *)
  | ABrSeeClosed | ABrCloseResp
  (* retired workers *)
  | AOld (f : fate).

  (* ---- helpers: setters per goroutine ---- *)
  Definition upd_panic (s : st) (pn : bool) : st :=
    {| sh := sh s; apl := apl s; dsp := dsp s; tpr := tpr s; prt := prt s; brk := brk s; brg := brg s;
       old := old s; budget := budget s; fuel := fuel s; panic := panic s || pn |}.
  (* shutdown-side fields *)
  Definition set_s (s : st) n p ic rc ec sc : st :=
    {| sh := {| x_inflight := n; x_sp := p; x_in_closed := ic; x_ret_closed := rc; x_err_closed := ec; x_succ_closed := sc |}; apl := apl s; dsp := dsp s; tpr := tpr s; prt := prt s; brk := brk s; brg := brg s;
       old := old s; budget := budget s; fuel := fuel s; panic := panic s |}.
  Definition set_infl (s : st) n := set_s s n (sp s) (in_closed s) (ret_closed s) (err_closed s) (succ_closed s).
  Definition set_app (s : st) se ss sn a : st :=
    {| sh := sh s; apl := {| x_seen_err := se; x_seen_succ := ss; x_sent := sn; x_ap := a |}; dsp := dsp s; tpr := tpr s; prt := prt s; brk := brk s; brg := brg s;
       old := old s; budget := budget s; fuel := fuel s; panic := panic s |}.
  Definition set_d (s : st) p h sh' r rb : st :=
    {| sh := sh s; apl := apl s; dsp := {| x_dp := p; x_d_hold := h; x_shutting := sh'; x_rh := r; x_rh_buf := rb |}; tpr := tpr s; prt := prt s; brk := brk s; brg := brg s;
       old := old s; budget := budget s; fuel := fuel s; panic := panic s |}.
  Definition set_t (s : st) p q qc h : st :=
    {| sh := sh s; apl := apl s; dsp := dsp s; tpr := {| x_tp := p; x_tpq := q; x_tpq_closed := qc; x_t_hold := h |}; prt := prt s; brk := brk s; brg := brg s;
       old := old s; budget := budget s; fuel := fuel s; panic := panic s |}.
  Definition set_p (s : st) p q qc h b r : st :=
    {| sh := sh s; apl := apl s; dsp := dsp s; tpr := tpr s; prt := {| x_pp := p; x_ppq := q; x_ppq_closed := qc; x_p_hold := h; x_ppbuf := b; x_pp_ref := r; x_p_mark := p_mark s |}; brk := brk s; brg := brg s;
       old := old s; budget := budget s; fuel := fuel s; panic := panic s |}.
  Definition set_mark (s : st) m : st :=
    {| sh := sh s; apl := apl s; dsp := dsp s; tpr := tpr s; prt := {| x_pp := pp s; x_ppq := ppq s; x_ppq_closed := ppq_closed s; x_p_hold := p_hold s; x_ppbuf := ppbuf s; x_pp_ref := pp_ref s; x_p_mark := m |}; brk := brk s; brg := brg s;
       old := old s; budget := budget s; fuel := fuel s; panic := panic s |}.
  Definition set_b (s : st) p rf ic h bf rs af : st :=
    {| sh := sh s; apl := apl s; dsp := dsp s; tpr := tpr s; prt := prt s; brk := {| x_bp := p; x_b_refs := rf; x_b_in_closed := ic; x_b_hold := h; x_b_buf := bf; x_b_resp := rs; x_b_after := af |}; brg := brg s;
       old := old s; budget := budget s; fuel := fuel s; panic := panic s |}.
  Definition set_br (s : st) p n oc rc sc : st :=
    {| sh := sh s; apl := apl s; dsp := dsp s; tpr := tpr s; prt := prt s; brk := brk s; brg := {| x_br := p; x_br_set := n; x_out_closed := oc; x_resp_closed := rc; x_stop_closed := sc |};
       old := old s; budget := budget s; fuel := fuel s; panic := panic s |}.
  Definition set_misc (s : st) o bg fl : st :=
    {| sh := sh s; apl := apl s; dsp := dsp s; tpr := tpr s; prt := prt s; brk := brk s; brg := brg s;
       old := o; budget := bg; fuel := fl; panic := panic s |}.

  (* inFlight.Done(): a negative counter panics *)
  Definition done1 (s : st) : st := upd_panic (set_infl s (pred (inflight s))) (inflight s =? 0).

  (* A goroutine resolves one token it holds:
       FSucc : Successes() <- msg (hand-over to the application); Done
       FErr  : Errors() <- err (hand-over to the application or to its draining Close()); Done
       FRetry: p.retries <- msg, received by the retry handler (needs retry budget) *)
  Definition resolve (s : st) (f : fate) : option st :=
    match f with
    | FSucc => Some (done1 (upd_panic s (succ_closed s)))
    | FErr toclose =>
      match ap s, toclose with
      | ApDrain n, true => Some (done1 (upd_panic (set_app s (seen_err s) (seen_succ s) (sent s) (ApDrain (S n))) (err_closed s)))
      | ApDrain _, false => None
      | _, true => None
      | _, false => Some (done1 (upd_panic s (err_closed s)))
      end
    | FRetry =>
      match budget s, rh s with
      | S b, RhLoop => Some (upd_panic (set_d (set_misc s (old s) b (fuel s)) (dp s) (d_hold s) (shutting s) RhLoop (S (rh_buf s))) (ret_closed s))
      | _, _ => None
      end
    end.

  (* the current worker is gone for good: a new one may take its place *)
  Definition fresh_b (s : st) : st :=
    set_br (set_b (set_misc s (old s + b_hold s + b_buf s + b_resp s + br_set s) (budget s) (fuel s))
                  BSelect 1 false 0 0 0 BSelect)
           BrRecv 0 false false false.

  (* p.input receive by the dispatcher of an already counted token (retry) *)
  Definition step (c : cfg) (s : st) (a : act) : option st :=
    match a with
    (* ---------------- application ---------------- *)
    | AInput =>
      (* only before closing; the dispatcher counts the message: inFlight.Add(1) *)
      match sp s, dp s with
      | SIdle, DRecv => if sent s <? nmsg c
                        then Some (set_d (set_app (set_infl s (S (inflight s))) (seen_err s) (seen_succ s) (S (sent s)) (ap s))
                                         DHold 1 (shutting s) (rh s) (rh_buf s))
                        else None
      | _, _ => None
      end
    | AAsyncClose =>
      match sp s with
      | SIdle => (* shutdown(): inFlight.Add(1) *)
        Some (set_app (set_s s (S (inflight s)) SSend (in_closed s) (ret_closed s) (err_closed s) (succ_closed s))
                      (seen_err s) (seen_succ s) (sent s) (if sync_close c then ApDrain 0 else ap s))
      | _ => None
      end
    | ASeeClosedErr => if err_closed s && negb (seen_err s)
                       then match ap s with
                            | ApDrain _ | ApRet _ => None      (* the application's Close() is reading Errors() *)
                            | _ => Some (set_app s true (seen_succ s) (sent s) (ap s))
                            end
                       else None
    | ASeeClosedSucc => if succ_closed s && negb (seen_succ s) then Some (set_app s (seen_err s) true (sent s) (ap s)) else None
    | ACloseSeeClosed => match ap s with
                         | ApDrain n => if err_closed s then Some (set_app s (seen_err s) (seen_succ s) (sent s) (ApRet n)) else None
                         | _ => None end
    | ARet n => match ap s with
                | ApRet m => if n =? m then Some (set_app s (seen_err s) (seen_succ s) (sent s) ApReturned) else None
                | _ => None end
    (* ---------------- shutdown() ---------------- *)
    | ASMarker =>
      match sp s, dp s with
      | SSend, DRecv => (* dispatcher: shuttingDown = true; inFlight.Done() *)
        Some (done1 (upd_panic (set_d (set_s s (inflight s) SWait (in_closed s) (ret_closed s) (err_closed s) (succ_closed s))
                                      DRecv 0 true (rh s) (rh_buf s)) (in_closed s)))
      | _, _ => None
      end
    | ASWait => match sp s with SWait => if inflight s =? 0 then Some (set_s s 0 SClient (in_closed s) (ret_closed s) (err_closed s) (succ_closed s)) else None | _ => None end
    | ASClient => match sp s with SClient => Some (set_s s (inflight s) SCloseIn (in_closed s) (ret_closed s) (err_closed s) (succ_closed s)) | _ => None end
    | ASCloseIn => match sp s with SCloseIn => Some (upd_panic (set_s s (inflight s) SCloseRet true (ret_closed s) (err_closed s) (succ_closed s)) (in_closed s)) | _ => None end
    | ASCloseRet => match sp s with SCloseRet => Some (upd_panic (set_s s (inflight s) SCloseErr (in_closed s) true (err_closed s) (succ_closed s)) (ret_closed s)) | _ => None end
    | ASCloseErr => match sp s with SCloseErr => Some (upd_panic (set_s s (inflight s) SCloseSucc (in_closed s) (ret_closed s) true (succ_closed s)) (err_closed s)) | _ => None end
    | ASCloseSucc => match sp s with SCloseSucc => Some (upd_panic (set_s s (inflight s) SDone (in_closed s) (ret_closed s) (err_closed s) true) (succ_closed s)) | _ => None end
    (* ---------------- dispatcher ---------------- *)
    | ADErr k => match dp s, d_hold s with
               | DHold, 1 => match resolve (set_d s DRecv 0 (shutting s) (rh s) (rh_buf s)) (FErr k) with Some s1 => Some s1 | None => None end
               | _, _ => None end
    | ADNewTp =>
      match dp s, tp s with
      | DHold, TNone => Some (set_t s TRecv 0 false 0)
      | _, _ => None end
    | ADFwd hand =>
      match dp s, d_hold s, tp s with
      | DHold, 1, TNone => None
      | DHold, 1, _ =>
        if hand then
          match tp s, tpq s with
          | TRecv, 0 => Some (upd_panic (set_t (set_d s DRecv 0 (shutting s) (rh s) (rh_buf s)) THold 0 (tpq_closed s) 1) (tpq_closed s))
          | _, _ => None
          end
        else if tpq s <? qcap c
             then Some (upd_panic (set_t (set_d s DRecv 0 (shutting s) (rh s) (rh_buf s)) (tp s) (S (tpq s)) (tpq_closed s) (t_hold s)) (tpq_closed s))
             else None
      | _, _, _ => None
      end
    | ADSeeClosed => match dp s with DRecv => if in_closed s then Some (set_d s DCloseH 0 (shutting s) (rh s) (rh_buf s)) else None | _ => None end
    | ADCloseH => match dp s with
                  | DCloseH => Some (upd_panic (set_t (set_d s DDone 0 (shutting s) (rh s) (rh_buf s))
                                                      (tp s) (tpq s) (match tp s with TNone => tpq_closed s | _ => true end) (t_hold s))
                                               (match tp s with TNone => false | _ => tpq_closed s end))
                  | _ => None end
    (* ---------------- retry handler ---------------- *)
    | ARhFeed =>
      match rh s, rh_buf s, dp s with
      | RhLoop, S k, DRecv => Some (upd_panic (set_d s DHold 1 (shutting s) RhLoop k) (in_closed s))
      | _, _, _ => None
      end
    | ARhExit => match rh s with RhLoop => if ret_closed s then Some (set_d s (dp s) (d_hold s) (shutting s) RhDone (rh_buf s)) else None | _ => None end
    (* ---------------- topic producer ---------------- *)
    | ATTake => match tp s, tpq s with
                | TRecv, S k => Some (set_t s THold k (tpq_closed s) 1)
                | _, _ => None end
    | ATErr k => match tp s, t_hold s with
               | THold, 1 => resolve (set_t s TRecv (tpq s) (tpq_closed s) 0) (FErr k)
               | _, _ => None end
    | ATNewPp =>
      (* partitionMessage succeeded and there is no handler yet: newPartitionProducer; the message will be forwarded *)
      match tp s, pp s with
      | THold, PNone => Some (set_t (set_p s PStart 0 false 0 0 false) TSend (tpq s) (tpq_closed s) 1)
      | _, _ => None end
    | ATFwd hand =>
      match t_hold s, pp s with
      | 1, PNone => None
      | 1, _ =>
        match tp s with
        | THold | TSend =>
          if hand then
            match pp s, ppq s with
            | PRecv, 0 => Some (upd_panic (set_p (set_t s TRecv (tpq s) (tpq_closed s) 0) PHold 0 (ppq_closed s) 1 (ppbuf s) (pp_ref s)) (ppq_closed s))
            | _, _ => None
            end
          else if ppq s <? qcap c
               then Some (upd_panic (set_p (set_t s TRecv (tpq s) (tpq_closed s) 0) (pp s) (S (ppq s)) (ppq_closed s) (p_hold s) (ppbuf s) (pp_ref s)) (ppq_closed s))
               else None
        | _ => None
        end
      | _, _ => None
      end
    | ATSeeClosed => match tp s, tpq s with
                     | TRecv, 0 => if tpq_closed s then Some (set_t s TCloseH 0 true 0) else None
                     | _, _ => None end
    | ATCloseH => match tp s with
                  | TCloseH => Some (upd_panic (set_p (set_t s TDone (tpq s) (tpq_closed s) 0)
                                                      (pp s) (ppq s) (match pp s with PNone => ppq_closed s | _ => true end) (p_hold s) (ppbuf s) (pp_ref s))
                                               (match pp s with PNone => false | _ => ppq_closed s end))
                  | _ => None end
    (* ---------------- partition producer ---------------- *)
    | APStart =>
      (* the leader prefetch (and, if it is known, getBrokerProducer + syn: APGetBp, APMark, APMarkSend) is over *)
      match pp s, p_mark s with
      | PStart, 0 => Some (set_p s PRecv (ppq s) (ppq_closed s) 0 (ppbuf s) (pp_ref s))
      | _, _ => None
      end
    | APTake => match pp s, ppq s with
                | PRecv, S k => Some (set_p s PHold k (ppq_closed s) 1 (ppbuf s) (pp_ref s))
                | _, _ => None end
    | APConsume => (* a fin marker of a finished retry level: inFlight.Done() *)
      match pp s, p_hold s, p_mark s with
      | PHold, 1, 0 => Some (done1 (set_p s PRecv (ppq s) (ppq_closed s) 0 (ppbuf s) (pp_ref s)))
      | _, _, _ => None end
    | APBuffer => match pp s, p_hold s, p_mark s with
                  | PHold, 1, 0 => Some (set_p s PRecv (ppq s) (ppq_closed s) 0 (S (ppbuf s)) (pp_ref s))
                  | _, _, _ => None end
    | APErr k => match pp s, p_hold s, p_mark s with
               | PHold, 1, 0 => resolve (set_p s PRecv (ppq s) (ppq_closed s) 0 (ppbuf s) (pp_ref s)) (FErr k)
               | _, _, _ => None end
    | APSend =>
      (* pp.brokerProducer.input <- msg : received by the worker's run loop *)
      match pp s, p_hold s, pp_ref s, bp s with
      | PHold, 1, true, BSelect =>
        if p_mark s =? 0 then
        Some (upd_panic (set_b (set_p s PRecv (ppq s) (ppq_closed s) 0 (ppbuf s) true)
                               BHold (b_refs s) (b_in_closed s) 1 (b_buf s) (b_resp s) (b_after s)) (b_in_closed s))
        else None
      | _, _, _, _ => None
      end
    | APMark =>
      (* a syn or fin marker is made: inFlight.Add(1) *)
      match pp s, pp_ref s, p_mark s, fuel s with
      | PHold, true, 0, S f | PStart, true, 0, S f =>
        Some (set_mark (set_misc (set_infl s (S (inflight s))) (old s) (budget s) f) 1)
      | _, _, _, _ => None
      end
    | APMarkSend =>
      (* brokerProducer.input <- marker : received by the worker's run loop *)
      match p_mark s, pp_ref s, bp s with
      | 1, true, BSelect =>
        Some (upd_panic (set_b (set_mark s 0) BHold (b_refs s) (b_in_closed s) 1 (b_buf s) (b_resp s) (b_after s)) (b_in_closed s))
      | _, _, _ => None
      end
    | APUnref =>
      (* unrefBrokerProducer: refs--; at zero close(bp.input) *)
      match pp s, pp_ref s, p_mark s with
      | PHold, true, 0 =>
        match b_refs s with
        | 1 => Some (upd_panic (set_b (set_p s PHold (ppq s) (ppq_closed s) (p_hold s) (ppbuf s) false)
                                      (bp s) 0 true (b_hold s) (b_buf s) (b_resp s) (b_after s)) (b_in_closed s))
        | n => Some (set_b (set_p s PHold (ppq s) (ppq_closed s) (p_hold s) (ppbuf s) false)
                           (bp s) (pred n) (b_in_closed s) (b_hold s) (b_buf s) (b_resp s) (b_after s))
        end
      | _, _, _ => None
      end
    | APGetBp =>
      (* Leader / updateLeader succeeded (network), getBrokerProducer; a failure is APErr *)
      match pp_ref s with
      | false =>
        match pp s with
        | PHold | PStart =>
          match bp s with
          | BNone => Some (set_p (fresh_b s) (pp s) (ppq s) (ppq_closed s) (p_hold s) (ppbuf s) true)
          | _ => if b_in_closed s
                 then Some (set_p (fresh_b s) (pp s) (ppq s) (ppq_closed s) (p_hold s) (ppbuf s) true)
                 else None    (* a live worker is always referenced by the partition producer: see invariant *)
          end
        | _ => None
        end
      | true => None
      end
    | APFlush =>
      match pp s, ppbuf s, pp_ref s, bp s with
      | PHold, S k, true, BSelect =>
        Some (upd_panic (set_b (set_p s PHold (ppq s) (ppq_closed s) (p_hold s) k true)
                               BHold (b_refs s) (b_in_closed s) 1 (b_buf s) (b_resp s) (b_after s)) (b_in_closed s))
      | _, _, _, _ => None
      end
    | APSeeClosed => match pp s, ppq s with
                     | PRecv, 0 => if ppq_closed s then Some (set_p s PExit 0 true 0 (ppbuf s) (pp_ref s)) else None
                     | _, _ => None end
    | APExit =>
      match pp s with
      | PExit =>
        if pp_ref s then
          match b_refs s with
          | 1 => Some (upd_panic (set_b (set_p s PDone (ppq s) (ppq_closed s) 0 (ppbuf s) false)
                                        (bp s) 0 true (b_hold s) (b_buf s) (b_resp s) (b_after s)) (b_in_closed s))
          | n => Some (set_b (set_p s PDone (ppq s) (ppq_closed s) 0 (ppbuf s) false)
                             (bp s) (pred n) (b_in_closed s) (b_hold s) (b_buf s) (b_resp s) (b_after s))
          end
        else Some (set_p s PDone (ppq s) (ppq_closed s) 0 (ppbuf s) false)
      | _ => None
      end
    (* ---------------- broker producer ---------------- *)
    | ABSyn => match bp s, b_hold s with
               | BHold, 1 => Some (done1 (set_b s BSelect (b_refs s) (b_in_closed s) 0 (b_buf s) (b_resp s) (b_after s)))
               | _, _ => None end
    | ABKeep => match bp s, b_hold s with
                | BHold, 1 => Some (set_b s BSelect (b_refs s) (b_in_closed s) 0 (S (b_buf s)) (b_resp s) (b_after s))
                | _, _ => None end
    | ABNeedSpace => match bp s, b_hold s with
                     | BHold, 1 => match b_buf s with
                                   | 0 => None
                                   | _ => Some (set_b s BWaitSpace (b_refs s) (b_in_closed s) 1 (b_buf s) (b_resp s) (b_after s))
                                   end
                     | _, _ => None end
    | ABFate f => match bp s, b_hold s with
                  | BHold, 1 => match f with
                                | FSucc => None
                                | _ => resolve (set_b s BSelect (b_refs s) (b_in_closed s) 0 (b_buf s) (b_resp s) (b_after s)) f
                                end
                  | _, _ => None end
    | ABFlush =>
      (* output <- bp.buffer, taken by the bridge; rollOver *)
      match br s, b_buf s with
      | BrRecv, S _ =>
        match bp s with
        | BSelect => Some (upd_panic (set_br (set_b s BSelect (b_refs s) (b_in_closed s) (b_hold s) 0 (b_resp s) (b_after s)) BrNet (b_buf s) (out_closed s) (resp_closed s) (stop_closed s)) (out_closed s))
        | BWaitSpace => Some (upd_panic (set_br (set_b s BHold (b_refs s) (b_in_closed s) (b_hold s) 0 (b_resp s) (b_after s)) BrNet (b_buf s) (out_closed s) (resp_closed s) (stop_closed s)) (out_closed s))
        | BShutFlush => Some (upd_panic (set_br (set_b s BShutFlush (b_refs s) (b_in_closed s) (b_hold s) 0 (b_resp s) (b_after s)) BrNet (b_buf s) (out_closed s) (resp_closed s) (stop_closed s)) (out_closed s))
        | _ => None
        end
      | _, _ => None
      end
    | ABRecvResp =>
      match br s with
      | BrSend =>
        match bp s with
        | BSelect | BWaitSpace | BShutFlush | BShutDrain =>
          Some (set_br (set_b s BResp (b_refs s) (b_in_closed s) (b_hold s) (b_buf s) (br_set s) (bp s)) BrRecv 0 (out_closed s) (resp_closed s) (stop_closed s))
        | _ => None
        end
      | _ => None
      end
    | ABResolve f =>
      match bp s, b_resp s with
      | BResp, S k => resolve (set_b s BResp (b_refs s) (b_in_closed s) (b_hold s) (b_buf s) k (b_after s)) f
      | _, _ => None end
    | ABDropBuf f =>
      match bp s, b_buf s with
      | BResp, S k => match f with
                      | FSucc => None
                      | _ => resolve (set_b s BResp (b_refs s) (b_in_closed s) (b_hold s) k (b_resp s) (b_after s)) f
                      end
      | _, _ => None end
    | ABRespDone =>
      match bp s, b_resp s with
      | BResp, 0 =>
        (* back to where the response was received; waitForSpace re-examines the held message *)
        Some (set_b s (match b_after s with BWaitSpace => BHold | x => x end) (b_refs s) (b_in_closed s) (b_hold s) (b_buf s) 0 BSelect)
      | _, _ => None end
    | ABSeeClosed => match bp s with
                     | BSelect => if b_in_closed s then Some (set_b s BShutFlush (b_refs s) true (b_hold s) (b_buf s) (b_resp s) (b_after s)) else None
                     | _ => None end
    | ABShutFlushed => match bp s, b_buf s with
                       | BShutFlush, 0 => Some (set_b s BShutCloseOut (b_refs s) (b_in_closed s) (b_hold s) 0 (b_resp s) (b_after s))
                       | _, _ => None end
    | ABCloseOut => match bp s with
                    | BShutCloseOut => Some (upd_panic (set_br (set_b s BShutDrain (b_refs s) (b_in_closed s) (b_hold s) (b_buf s) (b_resp s) (b_after s))
                                                               (br s) (br_set s) true (resp_closed s) (stop_closed s)) (out_closed s))
                    | _ => None end
    | ABDrained => match bp s with
                   | BShutDrain => if resp_closed s then Some (set_b s BShutStop (b_refs s) (b_in_closed s) (b_hold s) (b_buf s) (b_resp s) (b_after s)) else None
                   | _ => None end
    | ABCloseStop => match bp s with
                     | BShutStop => Some (upd_panic (set_br (set_b s BDone (b_refs s) (b_in_closed s) (b_hold s) (b_buf s) (b_resp s) (b_after s))
                                                            (br s) (br_set s) (out_closed s) (resp_closed s) true) (stop_closed s))
                     | _ => None end
    (* ---------------- bridge ---------------- *)
    | ABrNet => match br s with BrNet => Some (set_br s BrSend (br_set s) (out_closed s) (resp_closed s) (stop_closed s)) | _ => None end
    | ABrSeeClosed => match br s with
                      | BrRecv => if out_closed s then Some (set_br s BrClose 0 true (resp_closed s) (stop_closed s)) else None
                      | _ => None end
    | ABrCloseResp => match br s with
                      | BrClose => Some (upd_panic (set_br s BrDone 0 (out_closed s) true (stop_closed s)) (resp_closed s))
                      | _ => None end
    (* ---------------- retired workers ---------------- *)
    | AOld f => match old s with
                | S k => resolve (set_misc s k (budget s) (fuel s)) f
                | 0 => None end
    end.

  (* ---- observations ---- *)
  Definition fAsync : nat := 0.
  Definition fClose : nat := 1.
  Definition chS : nat := 0.
  Definition chE : nat := 1.

  Definition lbl_fate (f : fate) : option obs :=
    match f with FSucc => Some (OEv chS) | FErr false => Some (OEv chE) | _ => None end.
  Definition lbl (c : cfg) (a : act) : option obs :=
    match a with
    | AAsyncClose => Some (OCall (if sync_close c then fClose else fAsync))
    | ARet n => Some (ORet fClose n)
    | ASeeClosedErr => Some (OClosed chE)
    | ASeeClosedSucc => Some (OClosed chS)
    | ADErr k | ATErr k | APErr k => lbl_fate (FErr k)
    | ABFate f | ABResolve f | ABDropBuf f | AOld f => lbl_fate f
    | _ => None
    end.

  (* ---- observer automaton ----
     a channel is seen closed only after the close call; no event on a channel after its close was seen;
     with Close(): no error event reaches the application between call and return, the return comes after
     the call, and Errors() is seen closed only after it.  (That every message gets exactly one outcome is
     property C01; the harness checks the count directly.) *)
  Record os := { q_called : bool; q_ret : bool; q_s : bool; q_e : bool }.
  Definition oinit : os := {| q_called := false; q_ret := false; q_s := false; q_e := false |}.
  Definition ostep (c : cfg) (q : os) (o : obs) : option os :=
    match o with
    | OCall f => if q_called q || negb (f =? (if sync_close c then fClose else fAsync)) then None
                 else Some {| q_called := true; q_ret := false; q_s := q_s q; q_e := q_e q |}
    | ORet 1 n => if sync_close c && q_called q && negb (q_ret q)
                  then Some {| q_called := true; q_ret := true; q_s := q_s q; q_e := q_e q |}
                  else None
    | OEv 0 => if q_s q then None else Some q
    | OEv 1 => if q_e q || (sync_close c && q_called q) then None else Some q
    | OClosed 0 => if q_s q || negb (q_called q) then None
                   else Some {| q_called := q_called q; q_ret := q_ret q; q_s := true; q_e := q_e q |}
    | OClosed 1 => if q_e q || negb (q_called q) || (sync_close c && negb (q_ret q)) then None
                   else Some {| q_called := q_called q; q_ret := q_ret q; q_s := q_s q; q_e := true |}
    | _ => None
    end.
  Definition accepts (c : cfg) (l : list obs) : bool := oaccepts (ostep c) oinit l.

  Definition closing (s : st) : Prop := sp s <> SIdle.
  Definition final (s : st) : Prop :=
    sp s = SDone /\ in_closed s = true /\ ret_closed s = true /\ err_closed s = true /\ succ_closed s = true /\
    dp s = DDone /\ rh s = RhDone /\ (tp s = TNone \/ tp s = TDone) /\ (pp s = PNone \/ pp s = PDone) /\
    (bp s = BNone \/ bp s = BDone) /\ (br s = BrNone \/ br s = BrDone).
End Prod.
