(* C12 — the statements of coq/Properties/C12.v, each proved here from the lemmas of the development, and the output
   of [Print Assumptions] for each of them.

   Print Assumptions walks the whole proof term below a statement (some 45 MB of compiled proofs, most of it lia
   certificates): about 75 s for the statements of this file together.  That cost is paid here, once per build of the
   development: each [Redirect] below writes C12/Export_<name>.out (relative to coq/, where the build runs);
   checks/c12.py reads those files (they are as fresh as ExportPA*.vo, which make rebuilds whenever anything below it
   changes), and coq/Properties/C12.v, which only re-states each statement and closes it by [exact C12X.<name>],
   recompiles in a second. *)
From Coq Require Import List Arith Bool.
From SV Require Import C12.Lts C12.Conn C12.ConnProofs C12.Refs C12.RefsProofs
  C12.OffMgr C12.OffMgrProofs C12.OffMgrSim C12.MiscSites
  C12.PCons C12.PConsProofs C12.PConsSafety C12.PConsSim C12.PConsAccept C12.PConsNoOor C12.PConsRefs
  C12.Group C12.GroupProofs C12.GroupSafety C12.GroupSites C12.GroupSim C12.GroupAccept C12.GroupTerm C12.GroupTerminates
  C12.PConsTerm C12.PConsProgress C12.PConsMeasure C12.PConsTerminates
  C12.Prod C12.ProdProofs C12.ProdSafety C12.ProdSites C12.ProdSim C12.ProdAccept C12.ProdTerm C12.ProdProgress.
Import ListNotations.

Module C12X.

(* ================= a Panic state is unreachable ================= *)
Lemma c12_no_panic :
  (forall c l s, run (PC.step c) (PC.init c) l = Some s -> PC.panic s = false) /\
  (forall c l s, Grp.elock c = true -> run (Grp.step c) (Grp.init c) l = Some s -> Grp.panic s = false) /\
  (forall c l s, run (Prod.step c) (Prod.init c) l = Some s -> Prod.panic s = false) /\
  (forall c l s, run (OM.step c) (OM.init c) l = Some s -> OM.panic s = false) /\
  (forall c l s, run (Client.step c) (Client.init c) l = Some s -> Client.panic s = false) /\
  (forall c l s, run (Broker.step c) (Broker.init c) l = Some s -> Broker.panic s = false) /\
  (forall n l s, run Refs.step (Refs.init n) l = Some s -> Refs.panic s = false).
Proof.
  exact (conj PCS.pc_no_panic (conj GrpS.group_no_panic_fixed (conj ProdS.prod_no_panic (conj OMP.om_no_panic
        (conj ClientP.client_no_panic (conj BrokerP.broker_no_panic RefsP.refs_no_panic)))))).
Qed.

(* ================= no send on a closed channel, site by site ================= *)
Lemma c12_no_send_on_closed :
  (* partition consumer *)
  (forall c l s, run (PC.step c) (PC.init c) l = Some s ->
    ((PC.dp s = PC.DErr \/ PC.fp s = PC.FParseErr \/ (exists o, PC.sc (PC.w s) = PC.SCHErr o) \/
      PC.sc (PC.w s) = PC.SCAbErr \/ PC.sc (PC.w s) = PC.SCAbNErr) -> closed (PC.errs (PC.ch s)) = false) /\
    ((exists n f, PC.fp s = PC.FMsgs n f) \/ (exists n, PC.fp s = PC.FLimbo n) -> closed (PC.msgs (PC.ch s)) = false) /\
    (PC.sc (PC.w s) = PC.SCFeed -> PC.feed_closed (PC.ch s) = false) /\
    ((PC.dp s = PC.DTok \/ PC.sc (PC.w s) = PC.SCHTok \/ PC.sc (PC.w s) = PC.SCAbTok \/ PC.sc (PC.w s) = PC.SCAbNTok) ->
       PC.trig_closed (PC.ch s) = false /\ PC.trig_tok (PC.ch s) = false) /\
    ((PC.dp s = PC.DSub \/ PC.fp s = PC.FResub) -> PC.in_closed (PC.w s) = false)) /\
  (* consumer group (errorsLock) *)
  (forall c l s, Grp.elock c = true -> run (Grp.step c) (Grp.init c) l = Some s ->
    (1 <= Grp.n_he s \/ Grp.hb s = Grp.HHe \/ (exists r, Grp.cc s = Grp.CRelHe r) \/ 1 <= Grp.fw_checked s) ->
    closed (Grp.errs s) = false) /\
  (* async producer *)
  (forall c l s, run (Prod.step c) (Prod.init c) l = Some s ->
    (1 <= ProdP.tokens s -> Prod.in_closed s = false /\ Prod.ret_closed s = false /\ Prod.err_closed s = false /\ Prod.succ_closed s = false) /\
    (Prod.dp s <> Prod.DDone -> Prod.tpq_closed s = false) /\ (Prod.tp s <> Prod.TDone -> Prod.ppq_closed s = false) /\
    (Prod.pp_ref s = true -> Prod.b_in_closed s = false) /\
    (ProdP.bLate (Prod.bp s) (Prod.b_after s) = 0 -> Prod.out_closed s = false) /\
    (Prod.br s <> Prod.BrDone -> Prod.resp_closed s = false)) /\
  (* broker connection *)
  (forall c l s, run (Broker.step c) (Broker.init c) l = Some s ->
    Broker.lk s = Broker.LSend -> closed (Broker.resp s) = false /\ Broker.done s = false).
Proof.
  exact (conj PCS.pc_no_send_on_closed (conj GrpSites.group_no_send_on_closed (conj ProdSites.prod_no_send_on_closed
        (fun c l s H => proj1 (MiscSites.broker_sites c l s H))))).
Qed.

(* ================= no double close, site by site ================= *)
Lemma c12_no_double_close :
  (* partition consumer *)
  (forall c l s, run (PC.step c) (PC.init c) l = Some s ->
    ((PC.dp s = PC.DSel \/ PC.sc (PC.w s) = PC.SCUpdClose \/ PC.sc (PC.w s) = PC.SCHClose) -> PC.trig_closed (PC.ch s) = false) /\
    (PC.dp s = PC.DCloseF -> PC.feed_closed (PC.ch s) = false) /\
    (PC.fp s = PC.FCloseM -> closed (PC.msgs (PC.ch s)) = false) /\
    (PC.fp s = PC.FCloseE -> closed (PC.errs (PC.ch s)) = false) /\
    (PC.has_broker s = true -> PC.in_closed (PC.w s) = false) /\
    (PC.sm (PC.w s) = PC.SMCloseWait -> PC.wait_closed (PC.w s) = false) /\
    (PC.sm (PC.w s) = PC.SMCloseNS -> PC.ns_closed (PC.w s) = false) /\
    (PC.dp s = PC.DSel -> PC.sc (PC.w s) <> PC.SCUpdClose /\ PC.sc (PC.w s) <> PC.SCHClose)) /\
  (* consumer group (errorsLock) *)
  (forall c l s, Grp.elock c = true -> run (Grp.step c) (Grp.init c) l = Some s ->
    (Grp.kc s = Grp.KCloseCh -> Grp.closed_ch s = false) /\
    (Grp.ke s = Grp.EPending -> closed (Grp.errs s) = false) /\
    ((exists r, Grp.cc s = Grp.CRel3 r) -> Grp.hb_dying s = false) /\
    (Grp.hb s = Grp.HExit -> Grp.hb_dead s = false) /\
    Grp.wg s = Grp.n_start s + Grp.n_new s + Grp.n_run s + Grp.n_wait s + Grp.n_he s + Grp.n_defer s) /\
  (* async producer *)
  (forall c l s, run (Prod.step c) (Prod.init c) l = Some s ->
    (Prod.sp s = Prod.SCloseIn -> Prod.in_closed s = false) /\ (Prod.sp s = Prod.SCloseRet -> Prod.ret_closed s = false) /\
    (Prod.sp s = Prod.SCloseErr -> Prod.err_closed s = false) /\ (Prod.sp s = Prod.SCloseSucc -> Prod.succ_closed s = false) /\
    (Prod.dp s = Prod.DCloseH -> Prod.tpq_closed s = false) /\ (Prod.tp s = Prod.TCloseH -> Prod.ppq_closed s = false) /\
    (Prod.bp s = Prod.BShutCloseOut -> Prod.out_closed s = false) /\ (Prod.br s = Prod.BrClose -> Prod.resp_closed s = false) /\
    (Prod.bp s = Prod.BShutStop -> Prod.stop_closed s = false) /\
    (Prod.pp_ref s = true -> Prod.b_in_closed s = false)) /\
  (* broker connection, client, offset manager *)
  (forall c l s, run (Broker.step c) (Broker.init c) l = Some s ->
    (Broker.conn s = true -> Broker.lk s = Broker.LFree -> closed (Broker.resp s) = false /\ Broker.done s = false) /\
    (Broker.rc s = Broker.RIdle \/ Broker.rc s = Broker.RBusy -> Broker.done s = false)) /\
  (forall c l s, run (Client.step c) (Client.init c) l = Some s ->
    (Client.closer s = false -> Client.cl s = Client.CIdle /\ Client.brokers_nil s = false) /\
    (Client.closedch s = true <-> Client.up s = Client.UDone)) /\
  (forall c l s p, run (OM.step c) (OM.init c) l = Some s -> In p (OM.poms s) ->
    closed (OM.errs p) = OM.rel_once p /\ OM.managed p = negb (OM.rel_once p)).
Proof.
  exact (conj PCS.pc_no_double_close (conj GrpSites.group_no_double_close (conj ProdSites.prod_no_double_close
        (conj (fun c l s H => conj (proj1 (proj2 (MiscSites.broker_sites c l s H))) (proj1 (proj2 (proj2 (MiscSites.broker_sites c l s H)))))
        (conj MiscSites.client_sites MiscSites.om_sites))))).
Qed.

(* the broker worker's reference count *)
Lemma c12_worker_refcount :
  (forall c l s, run (PC.step c) (PC.init c) l = Some s ->
    PC.refs (PC.w s) = (if PC.has_broker s then 1 else 0) /\
    PC.in_closed (PC.w s) = negb (PC.has_broker s) /\
    (PC.buf (PC.w s) = true \/ PC.subs (PC.w s) = true -> PC.has_broker s = true)) /\
  (forall n l s, run Refs.step (Refs.init n) l = Some s ->
    Refs.panic s = false /\ (Refs.in_closed s = true -> Refs.count (Refs.holders s) = 0)).
Proof. exact (conj PCRefs.pc_worker_refcount PCRefs.shared_worker_never_orphaned). Qed.

Lemma c12_refs_leak_never_closed : forall n l1 s1 l2 s2,
  run Refs.step (Refs.init n) l1 = Some s1 -> Refs.leaky (Refs.holders s1) = true ->
  run Refs.step s1 l2 = Some s2 -> Refs.in_closed s2 = false.
Proof. exact RefsP.refs_leak_never_closed. Qed.

(* the partition-number watcher turns c.closed into the end of the session *)
Lemma c12_group_watcher : forall c s, Grp.elock c = true -> Reach (Grp.step c) (Grp.init c) s ->
  (Grp.cc s = Grp.CWaitCtx -> Grp.ctx_done s = true \/ Grp.lc s = Grp.LcNet \/ Grp.lc s = Grp.LcSel \/ Grp.lc s = Grp.LcExit) /\
  (Grp.lc s = Grp.LcDone -> Grp.ctx_done s = true) /\
  (1 <= Grp.n_start s + Grp.n_new s + Grp.n_run s + Grp.n_wait s + Grp.n_he s + Grp.n_defer s -> Grp.lc s <> Grp.LcNone) /\
  (Grp.lc s = Grp.LcSel -> Grp.closed_ch s = true -> exists s', Grp.step c s Grp.ALStop = Some s' /\ Grp.lc s' = Grp.LcExit).
Proof. exact GrpTT.group_watcher. Qed.

(* release() waits for hbDead only in a session whose heartbeat loop was started *)
Lemma c12_group_release_has_heartbeat : forall c s, Grp.elock c = true -> Reach (Grp.step c) (Grp.init c) s ->
  ((Grp.cc s = Grp.CWaitCtx \/ (exists r, Grp.cc s = Grp.CRel1 r) \/ (exists r, Grp.cc s = Grp.CRelWait r) \/ (exists r, Grp.cc s = Grp.CRel2 r) \/
    (exists r, Grp.cc s = Grp.CRelHe r) \/ (exists r, Grp.cc s = Grp.CRel3 r) \/ (exists r, Grp.cc s = Grp.CRel4 r)) -> Grp.hb s <> Grp.HNone) /\
  ((exists r, Grp.cc s = Grp.CRel4 r) -> Grp.hb_dying s = true) /\
  (Grp.hb s = Grp.HDone <-> Grp.hb_dead s = true).
Proof. exact GrpTT.group_release_has_heartbeat. Qed.

(* broker connection: Open's states (dialling / SASL step / open) and the channels Close waits on *)
Lemma c12_broker_done_has_receiver :
  (forall c l s, run (Broker.step c) (Broker.init c) l = Some s ->
    (Broker.made s = true <-> (Broker.conn s = true /\ Broker.lk s <> Broker.LAuth)) /\
    (Broker.made s = true -> Broker.rc s <> Broker.RNone) /\
    (Broker.lk s = Broker.LClose -> Broker.made s = true /\ Broker.rc s <> Broker.RNone) /\
    (Broker.lk s = Broker.LAuth -> Broker.conn s = true /\ Broker.made s = false /\ Broker.rc s = Broker.RNone) /\
    (Broker.conn s = false -> Broker.made s = false /\ Broker.rc s = Broker.RNone)) /\
  (forall c s s', Broker.lk s = Broker.LAuth -> Broker.step c s Broker.AAuthFail = Some s' ->
    Broker.conn s' = false /\ Broker.lk s' = Broker.LFree /\ Broker.made s' = Broker.made s /\ Broker.rc s' = Broker.rc s).
Proof. exact (conj BrokerP.broker_done_has_receiver BrokerP.broker_auth_fail_not_connected). Qed.

(* ================= the pre-fix consumer group (model flag elock = false) ================= *)
Lemma c12_no_send_on_closed_group_refuted :
  exists l s, run (Grp.step GrpS.racy_cfg) (Grp.init GrpS.racy_cfg) l = Some s /\ Grp.panic s = true.
Proof. exact GrpS.group_send_on_closed_refuted. Qed.

Lemma c12_no_send_on_closed_group_partial :
  (forall c l s, GrpS.avoids c (Grp.init c) l -> run (Grp.step c) (Grp.init c) l = Some s -> Grp.panic s = false) /\
  (forall c l s, GrpS.avoids c (Grp.init c) l -> run (Grp.step c) (Grp.init c) l = Some s -> Grp.accepts (trace Grp.lbl l) = true).
Proof. exact (conj GrpS.group_no_panic_partial GrpA.group_trace_accepted_partial). Qed.

(* ================= output channels are closed after their last event ================= *)
Lemma c12_closed_after_last_event :
  (forall c l s, run (PC.step c) (PC.init c) l = Some s ->
    (closed (PC.msgs (PC.ch s)) = true -> PC.fp s = PC.FCloseE \/ PC.fp s = PC.FDone) /\
    (closed (PC.errs (PC.ch s)) = true -> PC.fp s = PC.FDone) /\
    (PC.feed_closed (PC.ch s) = true -> PC.dp s = PC.DDone) /\
    (PC.fp s = PC.FCloseM \/ PC.fp s = PC.FCloseE \/ PC.fp s = PC.FDone -> PC.feed_closed (PC.ch s) = true /\ PC.feed_full (PC.ch s) = false)) /\
  (forall c l s, Grp.elock c = true -> run (Grp.step c) (Grp.init c) l = Some s -> closed (Grp.errs s) = true ->
    Grp.n_he s = 0 /\ Grp.hb s <> Grp.HHe /\ (forall r, Grp.cc s <> Grp.CRelHe r) /\ Grp.fw_checked s = 0 /\
    Grp.closed_ch s = true /\ Grp.ke s = Grp.EDone) /\
  (forall c l s, run (Prod.step c) (Prod.init c) l = Some s ->
    Prod.inflight s = ProdP.tokens s /\
    (Prod.err_closed s = true \/ Prod.succ_closed s = true \/ Prod.ret_closed s = true \/ Prod.in_closed s = true -> ProdP.tokens s = 0)) /\
  (forall c l s p, run (OM.step c) (OM.init c) l = Some s -> In p (OM.poms s) -> closed (OM.errs p) = negb (OM.managed p)) /\
  (forall c l s, run (Broker.step c) (Broker.init c) l = Some s ->
    Broker.rc s = Broker.RDone -> Broker.done s = true /\ closed (Broker.resp s) = true /\ len (Broker.resp s) = 0).
Proof.
  exact (conj PCS.pc_closed_after_last_event (conj GrpSites.group_closed_after_last_event (conj ProdS.prod_closed_after_last_event
        (conj OMP.om_released_closed (fun c l s H => proj2 (proj2 (proj2 (MiscSites.broker_sites c l s H)))))))).
Qed.

(* ================= what the application observes is accepted by the observer automata of Corr.v ================= *)
Lemma c12_observable :
  (forall c l s, run (PC.step c) (PC.init c) l = Some s -> PC.accepts c true (trace PC.lbl l) = true) /\
  (forall c l s, forallb PCN.noor l = true -> run (PC.step c) (PC.init c) l = Some s -> PC.accepts c false (trace PC.lbl l) = true) /\
  (forall c l s, Grp.elock c = true -> run (Grp.step c) (Grp.init c) l = Some s -> Grp.accepts (trace Grp.lbl l) = true) /\
  (forall c l s, run (Prod.step c) (Prod.init c) l = Some s -> Prod.accepts c (trace (Prod.lbl c) l) = true) /\
  (forall c l s, run (OM.step c) (OM.init c) l = Some s -> OM.accepts c (trace OM.lbl l) = true) /\
  (forall c l s, run (Client.step c) (Client.init c) l = Some s -> Client.accepts (trace Client.lbl l) = true).
Proof.
  exact (conj PCA.pc_trace_accepted (conj PCN.pc_trace_accepted_noor (conj GrpA.group_trace_accepted_fixed
        (conj ProdA.prod_trace_accepted (conj OMSim.om_trace_accepted ClientP.client_trace_accepted))))).
Qed.

(* ================= closing twice is harmless ================= *)
Lemma c12_double_close_harmless :
  (forall c s s', PC.once (PC.ch s) = true -> PC.step c s PC.AAsyncClose = Some s' ->
     PC.ch s' = PC.ch s /\ PC.dp s' = PC.dp s /\ PC.fp s' = PC.fp s /\ PC.w s' = PC.w s /\ PC.ap s' = PC.ap s /\ PC.panic s' = PC.panic s) /\
  (forall c l s, Grp.elock c = true -> run (Grp.step c) (Grp.init c) l = Some s -> Grp.accepts (trace Grp.lbl l) = true) /\
  (forall c l s, run (Client.step c) (Client.init c) l = Some s -> Client.accepts (trace Client.lbl l) = true) /\
  (forall c s s', Broker.conn s = false -> Broker.step c s Broker.ACloseCall = Some s' ->
     Broker.ret s' = Some rErrNotConnected /\ Broker.conn s' = false /\ Broker.resp s' = Broker.resp s /\
     Broker.done s' = Broker.done s /\ Broker.panic s' = Broker.panic s).
Proof.
  exact (conj PCS.pc_second_asyncclose_noop (conj GrpA.group_trace_accepted_fixed
        (conj ClientP.client_trace_accepted BrokerP.broker_close_not_open))).
Qed.

(* ================= termination ================= *)
Lemma c12_group_terminates : forall c, Grp.elock c = true ->
  Terminates (Grp.step c) (fun s => Reach (Grp.step c) (Grp.init c) s /\ Grp.closed_ch s = true) Grp.final.
Proof. exact GrpTT.group_terminates. Qed.

Lemma c12_consumer_terminates : forall c,
  Terminates (PC.step c) (fun s => Reach (PC.step c) (PC.init c) s /\ PC.dying (PC.ch s) = true) PC.final.
Proof. exact PCTerm.pc_terminates. Qed.

Lemma c12_producer_terminates_partial :
  (forall c l s, run (Prod.step c) (Prod.init c) l = Some s -> Prod.panic s = false) /\
  (forall c l s, run (Prod.step c) (Prod.init c) l = Some s ->
     Prod.inflight s = ProdP.tokens s /\
     (Prod.err_closed s = true \/ Prod.succ_closed s = true \/ Prod.ret_closed s = true \/ Prod.in_closed s = true -> ProdP.tokens s = 0)) /\
  (forall c l s, run (Prod.step c) (Prod.init c) l = Some s -> Prod.accepts c (trace (Prod.lbl c) l) = true) /\
  (forall c s, Reach (Prod.step c) (Prod.init c) s -> ProdP.sLate (Prod.sp s) = 1 -> stuck (Prod.step c) s -> Prod.final s).
Proof.
  exact (conj ProdS.prod_no_panic (conj ProdS.prod_closed_after_last_event (conj ProdA.prod_trace_accepted ProdTT.prod_cascade_progress))).
Qed.

Lemma c12_client_broker_terminate :
  (forall c, Terminates (Client.step c) (fun s => Reach (Client.step c) (Client.init c) s /\ Client.closer s = true) Client.final) /\
  (forall c, Terminates (Broker.step c) (fun s => Reach (Broker.step c) (Broker.init c) s /\ Broker.closing s) BrokerP.final).
Proof. exact (conj ClientP.client_terminates BrokerP.broker_close_terminates). Qed.

End C12X.
