(* C12 — consumer group, repaired tree (errorsLock): the safety statements site by site.
   Read off the inductive invariant GrpP.Inv of GroupProofs.v / GroupSafety.v. *)
From Coq Require Import List Arith Bool Lia.
From SV Require Import C12.Lts C12.LtsProofs C12.Tac C12.Group C12.GroupProofs C12.GroupSafety.
Import ListNotations.

Module GrpSites.
  Import Grp. Import GrpP.

  Lemma reach_inv_fixed c l s : elock c = true -> run (step c) (init c) l = Some s -> Inv s.
  Proof.
    intros E H. apply (reach_inv (step c) Inv (init c)); [apply inv_init | | now exists l].
    intros s0 a s1 I S. eapply GrpS.inv_step; eauto.
  Qed.

  Ltac open_inv s I :=
    destr_inv I; pose proof (k_spec (kc s)); pose proof (e_spec (ke s)); pose proof (c_spec (cc s)); pose proof (h_spec (hb s));
    pose proof (b2n_le1 (closed (errs s))); pose proof (b2n_le1 (client_closed s)); pose proof (b2n_le1 (closed_ch s));
    pose proof (b2n_le1 (once s)); pose proof (b2n_le1 (hb_dying s)); pose proof (b2n_le1 (hb_dead s)).

  (* whoever is between handleError's closed check and its send on c.errors — a consume goroutine, the heartbeat
     loop, release() after a failed Cleanup, an error forwarder — finds c.errors open *)
  Theorem group_no_send_on_closed : forall c l s, elock c = true -> run (step c) (init c) l = Some s ->
    (1 <= n_he s \/ hb s = HHe \/ (exists r, cc s = CRelHe r) \/ 1 <= fw_checked s) -> closed (errs s) = false.
  Proof.
    intros c l s E H D. pose proof (reach_inv_fixed c l s E H) as I. open_inv s I.
    apply b2n_0. destruct D as [D|[D|[[r D]|D]]].
    - specialize (IsyncG D). lia.
    - rewrite D in *. cbn in *. lia.
    - rewrite D in *. cbn in *. lia.
    - specialize (Ifw D). lia.
  Qed.

  (* whoever is about to close finds the channel open: c.closed (under closeOnce), c.errors (the goroutine Close
     spawns), the session's hbDying (release, under releaseOnce) and hbDead (the heartbeat loop's defer);
     and the session's WaitGroup counts exactly the consume goroutines that have not yet run their deferred Done *)
  Theorem group_no_double_close : forall c l s, elock c = true -> run (step c) (init c) l = Some s ->
    (kc s = KCloseCh -> closed_ch s = false) /\
    (ke s = EPending -> closed (errs s) = false) /\
    ((exists r, cc s = CRel3 r) -> hb_dying s = false) /\
    (hb s = HExit -> hb_dead s = false) /\
    wg s = n_start s + n_new s + n_run s + n_wait s + n_he s + n_defer s.
  Proof.
    intros c l s E H. pose proof (reach_inv_fixed c l s E H) as I. open_inv s I. unfold claims in *.
    repeat split; auto.
    - intro D. rewrite D in *. cbn in *. apply b2n_0. lia.
    - intro D. rewrite D in *. cbn in *. apply b2n_0. lia.
    - intros [r D]. rewrite D in *. cbn in *. apply b2n_0. lia.
    - intro D. rewrite D in *. cbn in *. apply b2n_0. lia.
  Qed.

  (* c.errors is closed after its last event: once it is closed nobody is positioned to send on it any more, Close
     has got past leave() (so c.closed is closed and every later handleError returns at its check) *)
  Theorem group_closed_after_last_event : forall c l s, elock c = true -> run (step c) (init c) l = Some s ->
    closed (errs s) = true ->
    n_he s = 0 /\ hb s <> HHe /\ (forall r, cc s <> CRelHe r) /\ fw_checked s = 0 /\ closed_ch s = true /\ ke s = EDone.
  Proof.
    intros c l s E H C. pose proof (reach_inv_fixed c l s E H) as I. open_inv s I.
    rewrite C in *. cbn [b2n] in *.
    assert (K : k46 (kc s) + b2n (client_closed s) = 1) by lia.
    repeat split.
    - destruct (n_he s) eqn:N; auto. exfalso. assert (D : 1 <= S n) by lia. specialize (IsyncG D). lia.
    - intro D. rewrite D in *. cbn in *. lia.
    - intros r D. rewrite D in *. cbn in *. lia.
    - destruct (fw_checked s) eqn:N; auto. exfalso. assert (D : 1 <= S n) by lia. specialize (Ifw D). lia.
    - destruct (closed_ch s); auto. cbn in *. lia.
    - destruct (ke s); cbn in *; auto; lia.
  Qed.
End GrpSites.
