(* C12 — consumer group, simulation by the observer automaton : one lemma per action, by [GrpSim.sim_go]. *)
(* part 2 of 9; lemmas packed by proof time so that no file of the family takes much over a minute *)
From Coq Require Import List Arith Bool Lia.
From SV Require Import C12.Lts C12.LtsProofs C12.Tac C12.Group C12.GroupProofs C12.GroupSafety C12.GroupSim.
Import ListNotations. Import Grp. Import GrpP. Import GrpSim.

Lemma sim_AHNet c s q s' x : (elock c = true \/ ~ GrpS.racy s (AHNet x)) -> R s q -> step c s (AHNet x) = Some s' ->
  match lbl (AHNet x) with None => R s' q | Some o => exists q', ostep q o = Some q' /\ R s' q' end.
Proof. intros G HR H. sim_go. Qed.
Lemma sim_AGDefer c s q s'  : (elock c = true \/ ~ GrpS.racy s AGDefer) -> R s q -> step c s AGDefer = Some s' ->
  match lbl AGDefer with None => R s' q | Some o => exists q', ostep q o = Some q' /\ R s' q' end.
Proof. intros G HR H. sim_go. Qed.
Lemma sim_AKLeaveLock c s q s'  : (elock c = true \/ ~ GrpS.racy s AKLeaveLock) -> R s q -> step c s AKLeaveLock = Some s' ->
  match lbl AKLeaveLock with None => R s' q | Some o => exists q', ostep q o = Some q' /\ R s' q' end.
Proof. intros G HR H. sim_go. Qed.
Lemma sim_ACCtxDone c s q s'  : (elock c = true \/ ~ GrpS.racy s ACCtxDone) -> R s q -> step c s ACCtxDone = Some s' ->
  match lbl ACCtxDone with None => R s' q | Some o => exists q', ostep q o = Some q' /\ R s' q' end.
Proof. intros G HR H. sim_go. Qed.
