(* C12 — preservation of the producer invariant (ProdProofs.Inv) : one lemma per action, by [ProdP.go]. *)
(* part 12 of 13; lemmas packed by proof time so that no file of the family takes much over a minute *)
From Coq Require Import List Arith Bool Lia.
From SV Require Import C12.Lts C12.LtsProofs C12.Tac C12.Prod C12.ProdProofs.
Import ListNotations. Import Prod. Import ProdP.

Lemma step_ABRecvResp c s s'  : Inv s -> step c s ABRecvResp = Some s' -> Inv s'.
Proof. intros I H. go s H I. Qed.
Lemma step_ADSeeClosed c s s'  : Inv s -> step c s ADSeeClosed = Some s' -> Inv s'.
Proof. intros I H. go s H I. Qed.
Lemma step_ABrSeeClosed c s s'  : Inv s -> step c s ABrSeeClosed = Some s' -> Inv s'.
Proof. intros I H. go s H I. Qed.
Lemma step_APFlush c s s'  : Inv s -> step c s APFlush = Some s' -> Inv s'.
Proof. intros I H. go s H I. Qed.
Lemma step_ABCloseOut c s s'  : Inv s -> step c s ABCloseOut = Some s' -> Inv s'.
Proof. intros I H. go s H I. Qed.
Lemma step_AAsyncClose c s s'  : Inv s -> step c s AAsyncClose = Some s' -> Inv s'.
Proof. intros I H. go s H I. Qed.
Lemma step_AInput c s s'  : Inv s -> step c s AInput = Some s' -> Inv s'.
Proof. intros I H. go s H I. Qed.
Lemma step_ABCloseStop c s s'  : Inv s -> step c s ABCloseStop = Some s' -> Inv s'.
Proof. intros I H. go s H I. Qed.
Lemma step_ASCloseSucc c s s'  : Inv s -> step c s ASCloseSucc = Some s' -> Inv s'.
Proof. intros I H. go s H I. Qed.
Lemma step_APMarkSend c s s'  : Inv s -> step c s APMarkSend = Some s' -> Inv s'.
Proof. intros I H. go s H I. Qed.
Lemma step_APSend c s s'  : Inv s -> step c s APSend = Some s' -> Inv s'.
Proof. intros I H. go s H I. Qed.
Lemma step_ADNewTp c s s'  : Inv s -> step c s ADNewTp = Some s' -> Inv s'.
Proof. intros I H. go s H I. Qed.
