(* C12 — partition consumer and the reference count of its broker worker.
   The child follows the holder protocol of Refs.v: it holds exactly one reference while child.broker != nil
   (dispatcher: `if child.broker != nil { unref; child.broker = nil }`), none otherwise; the worker's input is closed
   exactly when that reference was returned; and while the child is with the worker (in the subscription manager's
   buffer or in the subscription map) the reference is held.  For any number of children sharing a worker, RefsP
   (Refs.v) shows for holders following this protocol that bc.refs = number of holders and the input is closed only
   when nobody holds a reference: a worker with subscribers is never shut down. *)
From Coq Require Import List Arith Bool Lia.
From SV Require Import C12.Lts C12.LtsProofs C12.Tac C12.PCons C12.PConsProofs C12.PConsSafety C12.Refs C12.RefsProofs.
Import ListNotations.

Module PCRefs.
  Import PC. Import PCP.

  Theorem pc_worker_refcount : forall c l s, run (step c) (init c) l = Some s ->
    refs (w s) = (if has_broker s then 1 else 0) /\
    in_closed (w s) = negb (has_broker s) /\
    (buf (w s) = true \/ subs (w s) = true -> has_broker s = true).
  Proof.
    intros c l s H. assert (I : Inv s) by (apply (PCS.reach_inv c s); now exists l).
    destr_inv I. pose_specs s. unfold own in *.
    pose proof (b2n_le1 (has_broker s)). pose proof (b2n_le1 (in_closed (w s))).
    repeat split.
    - destruct (has_broker s); cbn in *; lia.
    - destruct (has_broker s), (in_closed (w s)); cbn in *; auto; lia.
    - intros [D|D]; rewrite D in *; destruct (has_broker s); cbn in *; auto; exfalso; lia.
  Qed.

  (* N children on one worker, each following the protocol above (ref only when it holds none, unref / send only while
     it holds one): the count is the number of holders, and a closed input means nobody holds a reference *)
  Theorem shared_worker_never_orphaned : forall n l s, run Refs.step (Refs.init n) l = Some s ->
    Refs.panic s = false /\ (Refs.in_closed s = true -> Refs.count (Refs.holders s) = 0).
  Proof. intros n l s H. split; [eapply RefsP.refs_no_panic | eapply RefsP.refs_closed_unreferenced]; eauto. Qed.
End PCRefs.
