(* C12 — async producer: the additional invariant Inv4 of ProdTerm.v is preserved by every action ([ProdT.qgo]) . *)
(* part 2 of 3; lemmas packed by proof time so that no file of the family takes much over a minute *)
From Coq Require Import List Arith Bool Lia.
From SV Require Import C12.Lts C12.LtsProofs C12.Tac C12.Prod C12.ProdProofs C12.ProdSafety C12.ProdTerm.
Import ListNotations. Import Prod. Import ProdP. Import ProdT.

Lemma q_APGetBp c s s'  : Inv4 s -> Inv s -> step c s APGetBp = Some s' -> Inv4 s'.
Proof. intros Q I H. qgo. Qed.
Lemma q_ADErr c s s' k : Inv4 s -> Inv s -> step c s (ADErr k) = Some s' -> Inv4 s'.
Proof. intros Q I H. qgo. Qed.
Lemma q_ADFwd c s s' hand : Inv4 s -> Inv s -> step c s (ADFwd hand) = Some s' -> Inv4 s'.
Proof. intros Q I H. qgo. Qed.
Lemma q_ADCloseH c s s'  : Inv4 s -> Inv s -> step c s ADCloseH = Some s' -> Inv4 s'.
Proof. intros Q I H. qgo. Qed.
Lemma q_APErr c s s' k : Inv4 s -> Inv s -> step c s (APErr k) = Some s' -> Inv4 s'.
Proof. intros Q I H. qgo. Qed.
Lemma q_ATCloseH c s s'  : Inv4 s -> Inv s -> step c s ATCloseH = Some s' -> Inv4 s'.
Proof. intros Q I H. qgo. Qed.
Lemma q_ABRespDone c s s'  : Inv4 s -> Inv s -> step c s ABRespDone = Some s' -> Inv4 s'.
Proof. intros Q I H. qgo. Qed.
Lemma q_ASMarker c s s'  : Inv4 s -> Inv s -> step c s ASMarker = Some s' -> Inv4 s'.
Proof. intros Q I H. qgo. Qed.
Lemma q_ABFlush c s s'  : Inv4 s -> Inv s -> step c s ABFlush = Some s' -> Inv4 s'.
Proof. intros Q I H. qgo. Qed.
Lemma q_AAsyncClose c s s'  : Inv4 s -> Inv s -> step c s AAsyncClose = Some s' -> Inv4 s'.
Proof. intros Q I H. qgo. Qed.
Lemma q_AInput c s s'  : Inv4 s -> Inv s -> step c s AInput = Some s' -> Inv4 s'.
Proof. intros Q I H. qgo. Qed.
Lemma q_ASeeClosedErr c s s'  : Inv4 s -> Inv s -> step c s ASeeClosedErr = Some s' -> Inv4 s'.
Proof. intros Q I H. qgo. Qed.
Lemma q_APExit c s s'  : Inv4 s -> Inv s -> step c s APExit = Some s' -> Inv4 s'.
Proof. intros Q I H. qgo. Qed.
Lemma q_APUnref c s s'  : Inv4 s -> Inv s -> step c s APUnref = Some s' -> Inv4 s'.
Proof. intros Q I H. qgo. Qed.
Lemma q_APFlush c s s'  : Inv4 s -> Inv s -> step c s APFlush = Some s' -> Inv4 s'.
Proof. intros Q I H. qgo. Qed.
