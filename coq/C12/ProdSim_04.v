(* C12 — async producer, simulation by the observer automaton : one lemma per action, by [ProdSim.sim_go]. *)
(* part 4 of 4; lemmas packed by proof time so that no file of the family takes much over a minute *)
From Coq Require Import List Arith Bool Lia.
From SV Require Import C12.Lts C12.LtsProofs C12.Tac C12.Prod C12.ProdProofs C12.ProdSafety C12.ProdSim.
Import ListNotations. Import Prod. Import ProdP. Import ProdSim.

Lemma sim_ADNewTp c s q s'  : R c s q -> step c s ADNewTp = Some s' ->
  match lbl c ADNewTp with None => R c s' q | Some o => exists q', ostep c q o = Some q' /\ R c s' q' end.
Proof. intros HR H. sim_go. Qed.
Lemma sim_ATTake c s q s'  : R c s q -> step c s ATTake = Some s' ->
  match lbl c ATTake with None => R c s' q | Some o => exists q', ostep c q o = Some q' /\ R c s' q' end.
Proof. intros HR H. sim_go. Qed.
Lemma sim_APBuffer c s q s'  : R c s q -> step c s APBuffer = Some s' ->
  match lbl c APBuffer with None => R c s' q | Some o => exists q', ostep c q o = Some q' /\ R c s' q' end.
Proof. intros HR H. sim_go. Qed.
Lemma sim_APTake c s q s'  : R c s q -> step c s APTake = Some s' ->
  match lbl c APTake with None => R c s' q | Some o => exists q', ostep c q o = Some q' /\ R c s' q' end.
Proof. intros HR H. sim_go. Qed.
Lemma sim_ABNeedSpace c s q s'  : R c s q -> step c s ABNeedSpace = Some s' ->
  match lbl c ABNeedSpace with None => R c s' q | Some o => exists q', ostep c q o = Some q' /\ R c s' q' end.
Proof. intros HR H. sim_go. Qed.
Lemma sim_ABCloseOut c s q s'  : R c s q -> step c s ABCloseOut = Some s' ->
  match lbl c ABCloseOut with None => R c s' q | Some o => exists q', ostep c q o = Some q' /\ R c s' q' end.
Proof. intros HR H. sim_go. Qed.
Lemma sim_ABKeep c s q s'  : R c s q -> step c s ABKeep = Some s' ->
  match lbl c ABKeep with None => R c s' q | Some o => exists q', ostep c q o = Some q' /\ R c s' q' end.
Proof. intros HR H. sim_go. Qed.
Lemma sim_ABSyn c s q s'  : R c s q -> step c s ABSyn = Some s' ->
  match lbl c ABSyn with None => R c s' q | Some o => exists q', ostep c q o = Some q' /\ R c s' q' end.
Proof. intros HR H. sim_go. Qed.
Lemma sim_ATNewPp c s q s'  : R c s q -> step c s ATNewPp = Some s' ->
  match lbl c ATNewPp with None => R c s' q | Some o => exists q', ostep c q o = Some q' /\ R c s' q' end.
Proof. intros HR H. sim_go. Qed.
Lemma sim_ABCloseStop c s q s'  : R c s q -> step c s ABCloseStop = Some s' ->
  match lbl c ABCloseStop with None => R c s' q | Some o => exists q', ostep c q o = Some q' /\ R c s' q' end.
Proof. intros HR H. sim_go. Qed.
Lemma sim_ABDrained c s q s'  : R c s q -> step c s ABDrained = Some s' ->
  match lbl c ABDrained with None => R c s' q | Some o => exists q', ostep c q o = Some q' /\ R c s' q' end.
Proof. intros HR H. sim_go. Qed.
Lemma sim_APSend c s q s'  : R c s q -> step c s APSend = Some s' ->
  match lbl c APSend with None => R c s' q | Some o => exists q', ostep c q o = Some q' /\ R c s' q' end.
Proof. intros HR H. sim_go. Qed.
