(* C12 — Print Assumptions of the statements of Export.v, part 3 (see the header of Export.v). *)
From SV Require Import C12.Export.
Redirect "C12/Export_c12_observable" Print Assumptions C12X.c12_observable.
Redirect "C12/Export_c12_double_close_harmless" Print Assumptions C12X.c12_double_close_harmless.
Redirect "C12/Export_c12_group_terminates" Print Assumptions C12X.c12_group_terminates.
Redirect "C12/Export_c12_no_send_on_closed_group_partial" Print Assumptions C12X.c12_no_send_on_closed_group_partial.
Redirect "C12/Export_c12_group_watcher" Print Assumptions C12X.c12_group_watcher.
Redirect "C12/Export_c12_group_release_has_heartbeat" Print Assumptions C12X.c12_group_release_has_heartbeat.
