(* C12 — preservation of the producer invariant (ProdProofs.Inv) : one lemma per action, by [ProdP.go]. *)
(* part 13 of 13; lemmas packed by proof time so that no file of the family takes much over a minute *)
From Coq Require Import List Arith Bool Lia.
From SV Require Import C12.Lts C12.LtsProofs C12.Tac C12.Prod C12.ProdProofs.
Import ListNotations. Import Prod. Import ProdP.

Lemma step_APConsume c s s'  : Inv s -> step c s APConsume = Some s' -> Inv s'.
Proof. intros I H. go s H I. Qed.
Lemma step_ABrCloseResp c s s'  : Inv s -> step c s ABrCloseResp = Some s' -> Inv s'.
Proof. intros I H. go s H I. Qed.
Lemma step_ATSeeClosed c s s'  : Inv s -> step c s ATSeeClosed = Some s' -> Inv s'.
Proof. intros I H. go s H I. Qed.
Lemma step_ABrNet c s s'  : Inv s -> step c s ABrNet = Some s' -> Inv s'.
Proof. intros I H. go s H I. Qed.
Lemma step_ASCloseIn c s s'  : Inv s -> step c s ASCloseIn = Some s' -> Inv s'.
Proof. intros I H. go s H I. Qed.
Lemma step_ASCloseRet c s s'  : Inv s -> step c s ASCloseRet = Some s' -> Inv s'.
Proof. intros I H. go s H I. Qed.
Lemma step_APBuffer c s s'  : Inv s -> step c s APBuffer = Some s' -> Inv s'.
Proof. intros I H. go s H I. Qed.
Lemma step_APSeeClosed c s s'  : Inv s -> step c s APSeeClosed = Some s' -> Inv s'.
Proof. intros I H. go s H I. Qed.
Lemma step_ASClient c s s'  : Inv s -> step c s ASClient = Some s' -> Inv s'.
Proof. intros I H. go s H I. Qed.
Lemma step_APStart c s s'  : Inv s -> step c s APStart = Some s' -> Inv s'.
Proof. intros I H. go s H I. Qed.
Lemma step_ASWait c s s'  : Inv s -> step c s ASWait = Some s' -> Inv s'.
Proof. intros I H. go s H I. Qed.
Lemma step_ABSyn c s s'  : Inv s -> step c s ABSyn = Some s' -> Inv s'.
Proof. intros I H. go s H I. Qed.
Lemma step_ABNeedSpace c s s'  : Inv s -> step c s ABNeedSpace = Some s' -> Inv s'.
Proof. intros I H. go s H I. Qed.
Lemma step_ATNewPp c s s'  : Inv s -> step c s ATNewPp = Some s' -> Inv s'.
Proof. intros I H. go s H I. Qed.
Lemma step_ABShutFlushed c s s'  : Inv s -> step c s ABShutFlushed = Some s' -> Inv s'.
Proof. intros I H. go s H I. Qed.
Lemma step_ABDrained c s s'  : Inv s -> step c s ABDrained = Some s' -> Inv s'.
Proof. intros I H. go s H I. Qed.
Lemma step_ABKeep c s s'  : Inv s -> step c s ABKeep = Some s' -> Inv s'.
Proof. intros I H. go s H I. Qed.
