(* C12 — consumer group termination : per action, the additional invariant Inv2 is preserved and the
   measure decreases in the phase. By the tactics [GrpT.jgo] / [GrpT.mgo]. *)
(* part 3 of 3; lemmas packed by proof time so that no file of the family takes much over a minute *)
From Coq Require Import List Arith Bool Lia.
From SV Require Import C12.Lts C12.LtsProofs C12.Tac C12.Group C12.GroupProofs C12.GroupSafety C12.GroupTerm.
Import ListNotations. Import Grp. Import GrpP. Import GrpT.

Lemma j_ACJoin c s s' j : Inv2 s -> Inv s -> step c s (ACJoin j) = Some s' -> Inv2 s'.
Proof. intros J I H. jgo. Qed.
Lemma j_AHNet c s s' x : Inv2 s -> Inv s -> step c s (AHNet x) = Some s' -> Inv2 s'.
Proof. intros J I H. jgo. Qed.
Lemma m_ACRel2 c s s' e : Inv s -> closed_ch s = true -> step c s (ACRel2 e) = Some s' -> lt3 (mu c s') (mu c s).
Proof. intros I P H. mgo. Qed.
Lemma j_AHExit c s s'  : Inv2 s -> Inv s -> step c s AHExit = Some s' -> Inv2 s'.
Proof. intros J I H. jgo. Qed.
Lemma m_AHNet c s s' x : Inv s -> closed_ch s = true -> step c s (AHNet x) = Some s' -> lt3 (mu c s') (mu c s).
Proof. intros I P H. mgo. Qed.
Lemma j_AGRunEnd c s s' err : Inv2 s -> Inv s -> step c s (AGRunEnd err) = Some s' -> Inv2 s'.
Proof. intros J I H. jgo. Qed.
Lemma j_AHBackTimer c s s'  : Inv2 s -> Inv s -> step c s AHBackTimer = Some s' -> Inv2 s'.
Proof. intros J I H. jgo. Qed.
Lemma m_AHTick c s s'  : Inv s -> closed_ch s = true -> step c s AHTick = Some s' -> lt3 (mu c s') (mu c s).
Proof. intros I P H. mgo. Qed.
Lemma m_AGRunEnd c s s' err : Inv s -> closed_ch s = true -> step c s (AGRunEnd err) = Some s' -> lt3 (mu c s') (mu c s).
Proof. intros I P H. mgo. Qed.
Lemma j_ACBackTimer c s s'  : Inv2 s -> Inv s -> step c s ACBackTimer = Some s' -> Inv2 s'.
Proof. intros J I H. jgo. Qed.
Lemma j_AKCall c s s'  : Inv2 s -> Inv s -> step c s AKCall = Some s' -> Inv2 s'.
Proof. intros J I H. jgo. Qed.
Lemma j_AGWaitErr c s s'  : Inv2 s -> Inv s -> step c s AGWaitErr = Some s' -> Inv2 s'.
Proof. intros J I H. jgo. Qed.
Lemma j_AHTick c s s'  : Inv2 s -> Inv s -> step c s AHTick = Some s' -> Inv2 s'.
Proof. intros J I H. jgo. Qed.
Lemma m_ACRel3 c s s'  : Inv s -> closed_ch s = true -> step c s ACRel3 = Some s' -> lt3 (mu c s') (mu c s).
Proof. intros I P H. mgo. Qed.
Lemma j_AGNew c s s' ok : Inv2 s -> Inv s -> step c s (AGNew ok) = Some s' -> Inv2 s'.
Proof. intros J I H. jgo. Qed.
Lemma m_ACRefresh c s s' ok : Inv s -> closed_ch s = true -> step c s (ACRefresh ok) = Some s' -> lt3 (mu c s') (mu c s).
Proof. intros I P H. mgo. Qed.
Lemma j_AFwCheck c s s'  : Inv2 s -> Inv s -> step c s AFwCheck = Some s' -> Inv2 s'.
Proof. intros J I H. jgo. Qed.
Lemma m_AKLeaveLock c s s'  : Inv s -> closed_ch s = true -> step c s AKLeaveLock = Some s' -> lt3 (mu c s') (mu c s).
Proof. intros I P H. mgo. Qed.
Lemma j_AKLeaveLock c s s'  : Inv2 s -> Inv s -> step c s AKLeaveLock = Some s' -> Inv2 s'.
Proof. intros J I H. jgo. Qed.
Lemma m_AGDefer c s s'  : Inv s -> closed_ch s = true -> step c s AGDefer = Some s' -> lt3 (mu c s') (mu c s).
Proof. intros I P H. mgo. Qed.
Lemma j_AKLeaveNet c s s' ok r : Inv2 s -> Inv s -> step c s (AKLeaveNet ok r) = Some s' -> Inv2 s'.
Proof. intros J I H. jgo. Qed.
Lemma j_ACRefresh c s s' ok : Inv2 s -> Inv s -> step c s (ACRefresh ok) = Some s' -> Inv2 s'.
Proof. intros J I H. jgo. Qed.
Lemma j_ALTick c s s'  : Inv2 s -> Inv s -> step c s ALTick = Some s' -> Inv2 s'.
Proof. intros J I H. jgo. Qed.
Lemma m_ACBackTimer c s s'  : Inv s -> closed_ch s = true -> step c s ACBackTimer = Some s' -> lt3 (mu c s') (mu c s).
Proof. intros I P H. mgo. Qed.
Lemma m_AKLeaveNet c s s' ok r : Inv s -> closed_ch s = true -> step c s (AKLeaveNet ok r) = Some s' -> lt3 (mu c s') (mu c s).
Proof. intros I P H. mgo. Qed.
Lemma j_ACCall c s s'  : Inv2 s -> Inv s -> step c s ACCall = Some s' -> Inv2 s'.
Proof. intros J I H. jgo. Qed.
Lemma j_AGStart c s s'  : Inv2 s -> Inv s -> step c s AGStart = Some s' -> Inv2 s'.
Proof. intros J I H. jgo. Qed.
Lemma m_AKDrainRecv c s s'  : Inv s -> closed_ch s = true -> step c s AKDrainRecv = Some s' -> lt3 (mu c s') (mu c s).
Proof. intros I P H. mgo. Qed.
Lemma m_ACCall c s s'  : Inv s -> closed_ch s = true -> step c s ACCall = Some s' -> lt3 (mu c s') (mu c s).
Proof. intros I P H. mgo. Qed.
Lemma m_AHExit c s s'  : Inv s -> closed_ch s = true -> step c s AHExit = Some s' -> lt3 (mu c s') (mu c s).
Proof. intros I P H. mgo. Qed.
Lemma m_AGNew c s s' ok : Inv s -> closed_ch s = true -> step c s (AGNew ok) = Some s' -> lt3 (mu c s') (mu c s).
Proof. intros I P H. mgo. Qed.
Lemma j_ACRel3 c s s'  : Inv2 s -> Inv s -> step c s ACRel3 = Some s' -> Inv2 s'.
Proof. intros J I H. jgo. Qed.
Lemma j_AGDefer c s s'  : Inv2 s -> Inv s -> step c s AGDefer = Some s' -> Inv2 s'.
Proof. intros J I H. jgo. Qed.
Lemma j_ASeeClosed c s s'  : Inv2 s -> Inv s -> step c s ASeeClosed = Some s' -> Inv2 s'.
Proof. intros J I H. jgo. Qed.
Lemma j_AHDying c s s'  : Inv2 s -> Inv s -> step c s AHDying = Some s' -> Inv2 s'.
Proof. intros J I H. jgo. Qed.
Lemma j_ALNet c s s' same : Inv2 s -> Inv s -> step c s (ALNet same) = Some s' -> Inv2 s'.
Proof. intros J I H. jgo. Qed.
Lemma m_AFwCheck c s s'  : Inv s -> closed_ch s = true -> step c s AFwCheck = Some s' -> lt3 (mu c s') (mu c s).
Proof. intros I P H. mgo. Qed.
Lemma m_AGWaitErr c s s'  : Inv s -> closed_ch s = true -> step c s AGWaitErr = Some s' -> lt3 (mu c s') (mu c s).
Proof. intros I P H. mgo. Qed.
Lemma m_ALNet c s s' same : Inv s -> closed_ch s = true -> step c s (ALNet same) = Some s' -> lt3 (mu c s') (mu c s).
Proof. intros I P H. mgo. Qed.
Lemma m_AKRet c s s' r : Inv s -> closed_ch s = true -> step c s (AKRet r) = Some s' -> lt3 (mu c s') (mu c s).
Proof. intros I P H. mgo. Qed.
Lemma m_ACBackClosed c s s'  : Inv s -> closed_ch s = true -> step c s ACBackClosed = Some s' -> lt3 (mu c s') (mu c s).
Proof. intros I P H. mgo. Qed.
Lemma m_AKDrainEnd c s s'  : Inv s -> closed_ch s = true -> step c s AKDrainEnd = Some s' -> lt3 (mu c s') (mu c s).
Proof. intros I P H. mgo. Qed.
Lemma j_AKDrainRecv c s s'  : Inv2 s -> Inv s -> step c s AKDrainRecv = Some s' -> Inv2 s'.
Proof. intros J I H. jgo. Qed.
Lemma m_ALTick c s s'  : Inv s -> closed_ch s = true -> step c s ALTick = Some s' -> lt3 (mu c s') (mu c s).
Proof. intros I P H. mgo. Qed.
Lemma m_AKSpawn c s s'  : Inv s -> closed_ch s = true -> step c s AKSpawn = Some s' -> lt3 (mu c s') (mu c s).
Proof. intros I P H. mgo. Qed.
Lemma j_AKSpawn c s s'  : Inv2 s -> Inv s -> step c s AKSpawn = Some s' -> Inv2 s'.
Proof. intros J I H. jgo. Qed.
Lemma m_AKClient c s s' r : Inv s -> closed_ch s = true -> step c s (AKClient r) = Some s' -> lt3 (mu c s') (mu c s).
Proof. intros I P H. mgo. Qed.
Lemma j_AKDrainEnd c s s'  : Inv2 s -> Inv s -> step c s AKDrainEnd = Some s' -> Inv2 s'.
Proof. intros J I H. jgo. Qed.
Lemma m_ALExit c s s'  : Inv s -> closed_ch s = true -> step c s ALExit = Some s' -> lt3 (mu c s') (mu c s).
Proof. intros I P H. mgo. Qed.
Lemma m_AKCloseCh c s s'  : Inv s -> closed_ch s = true -> step c s AKCloseCh = Some s' -> lt3 (mu c s') (mu c s).
Proof. intros I P H. mgo. Qed.
Lemma j_AHBackDying c s s'  : Inv2 s -> Inv s -> step c s AHBackDying = Some s' -> Inv2 s'.
Proof. intros J I H. jgo. Qed.
Lemma m_ACLock c s s'  : Inv s -> closed_ch s = true -> step c s ACLock = Some s' -> lt3 (mu c s') (mu c s).
Proof. intros I P H. mgo. Qed.
Lemma m_ARecvErr c s s'  : Inv s -> closed_ch s = true -> step c s ARecvErr = Some s' -> lt3 (mu c s') (mu c s).
Proof. intros I P H. mgo. Qed.
Lemma m_AECloseErrs c s s'  : Inv s -> closed_ch s = true -> step c s AECloseErrs = Some s' -> lt3 (mu c s') (mu c s).
Proof. intros I P H. mgo. Qed.
Lemma j_ACBackClosed c s s'  : Inv2 s -> Inv s -> step c s ACBackClosed = Some s' -> Inv2 s'.
Proof. intros J I H. jgo. Qed.
Lemma m_AHBackDying c s s'  : Inv s -> closed_ch s = true -> step c s AHBackDying = Some s' -> lt3 (mu c s') (mu c s).
Proof. intros I P H. mgo. Qed.
Lemma m_AGStart c s s'  : Inv s -> closed_ch s = true -> step c s AGStart = Some s' -> lt3 (mu c s') (mu c s).
Proof. intros I P H. mgo. Qed.
Lemma m_ACRel4 c s s'  : Inv s -> closed_ch s = true -> step c s ACRel4 = Some s' -> lt3 (mu c s') (mu c s).
Proof. intros I P H. mgo. Qed.
Lemma j_ACRet c s s' r : Inv2 s -> Inv s -> step c s (ACRet r) = Some s' -> Inv2 s'.
Proof. intros J I H. jgo. Qed.
Lemma m_AHDying c s s'  : Inv s -> closed_ch s = true -> step c s AHDying = Some s' -> lt3 (mu c s') (mu c s).
Proof. intros I P H. mgo. Qed.
Lemma m_ACRelWait c s s'  : Inv s -> closed_ch s = true -> step c s ACRelWait = Some s' -> lt3 (mu c s') (mu c s).
Proof. intros I P H. mgo. Qed.
Lemma m_ACCtxDone c s s'  : Inv s -> closed_ch s = true -> step c s ACCtxDone = Some s' -> lt3 (mu c s') (mu c s).
Proof. intros I P H. mgo. Qed.
Lemma j_AKCloseCh c s s'  : Inv2 s -> Inv s -> step c s AKCloseCh = Some s' -> Inv2 s'.
Proof. intros J I H. jgo. Qed.
Lemma j_AKClient c s s' r : Inv2 s -> Inv s -> step c s (AKClient r) = Some s' -> Inv2 s'.
Proof. intros J I H. jgo. Qed.
Lemma m_ACRel1 c s s'  : Inv s -> closed_ch s = true -> step c s ACRel1 = Some s' -> lt3 (mu c s') (mu c s).
Proof. intros I P H. mgo. Qed.
Lemma j_AECloseErrs c s s'  : Inv2 s -> Inv s -> step c s AECloseErrs = Some s' -> Inv2 s'.
Proof. intros J I H. jgo. Qed.
Lemma j_ALExit c s s'  : Inv2 s -> Inv s -> step c s ALExit = Some s' -> Inv2 s'.
Proof. intros J I H. jgo. Qed.
Lemma j_AGWaitEnd c s s'  : Inv2 s -> Inv s -> step c s AGWaitEnd = Some s' -> Inv2 s'.
Proof. intros J I H. jgo. Qed.
Lemma j_ARecvErr c s s'  : Inv2 s -> Inv s -> step c s ARecvErr = Some s' -> Inv2 s'.
Proof. intros J I H. jgo. Qed.
Lemma m_ACRet c s s' r : Inv s -> closed_ch s = true -> step c s (ACRet r) = Some s' -> lt3 (mu c s') (mu c s).
Proof. intros I P H. mgo. Qed.
Lemma m_AGWaitEnd c s s'  : Inv s -> closed_ch s = true -> step c s AGWaitEnd = Some s' -> lt3 (mu c s') (mu c s).
Proof. intros I P H. mgo. Qed.
Lemma j_AKRet c s s' r : Inv2 s -> Inv s -> step c s (AKRet r) = Some s' -> Inv2 s'.
Proof. intros J I H. jgo. Qed.
Lemma j_ACRel4 c s s'  : Inv2 s -> Inv s -> step c s ACRel4 = Some s' -> Inv2 s'.
Proof. intros J I H. jgo. Qed.
Lemma j_ACRelWait c s s'  : Inv2 s -> Inv s -> step c s ACRelWait = Some s' -> Inv2 s'.
Proof. intros J I H. jgo. Qed.
Lemma j_ACCtxDone c s s'  : Inv2 s -> Inv s -> step c s ACCtxDone = Some s' -> Inv2 s'.
Proof. intros J I H. jgo. Qed.
Lemma j_ACLock c s s'  : Inv2 s -> Inv s -> step c s ACLock = Some s' -> Inv2 s'.
Proof. intros J I H. jgo. Qed.
Lemma j_ACRel1 c s s'  : Inv2 s -> Inv s -> step c s ACRel1 = Some s' -> Inv2 s'.
Proof. intros J I H. jgo. Qed.
Lemma m_ASeeClosed c s s'  : Inv s -> closed_ch s = true -> step c s ASeeClosed = Some s' -> lt3 (mu c s') (mu c s).
Proof. intros I P H. mgo. Qed.
Lemma j_ALStop c s s'  : Inv2 s -> Inv s -> step c s ALStop = Some s' -> Inv2 s'.
Proof. intros J I H. jgo. Qed.
Lemma m_ALStop c s s'  : Inv s -> closed_ch s = true -> step c s ALStop = Some s' -> lt3 (mu c s') (mu c s).
Proof. intros I P H. mgo. Qed.
