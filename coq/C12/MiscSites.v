(* C12 — broker connection, client, offset manager: the safety statements site by site (projections of the
   inductive invariants of ConnProofs.v / OffMgrProofs.v). *)
From Coq Require Import List Arith Bool Lia.
From SV Require Import C12.Lts C12.LtsProofs C12.Tac C12.Conn C12.ConnProofs C12.OffMgr C12.OffMgrProofs.
Import ListNotations.

Module MiscSites.
  (* broker connection: a sender on b.responses (holding b.lock) and a Close about to close it (lock free, connection
     open) find it open, and the receiver has not closed b.done yet; b.done is closed by the receiver only after
     responses was closed and drained (closed after its last event) *)
  Theorem broker_sites : forall c l s, run (Broker.step c) (Broker.init c) l = Some s ->
    (Broker.lk s = Broker.LSend -> closed (Broker.resp s) = false /\ Broker.done s = false) /\
    (Broker.conn s = true -> Broker.lk s = Broker.LFree -> closed (Broker.resp s) = false /\ Broker.done s = false) /\
    (Broker.rc s = Broker.RIdle \/ Broker.rc s = Broker.RBusy -> Broker.done s = false) /\
    (Broker.rc s = Broker.RDone -> Broker.done s = true /\ closed (Broker.resp s) = true /\ len (Broker.resp s) = 0).
  Proof.
    intros c l s H. assert (I : BrokerP.Inv s) by (apply (BrokerP.reach_inv c s); now exists l).
    destruct I as (Hp & Hopen & Hsend & Hclose & Hrc & Hfin & Hdial & Hdone & Hrn & Hauth & Hmade & Hnc).
    repeat split; intros.
    - destruct (Hopen (Hsend H0) (or_intror H0)) as (A & B & _); auto.
    - destruct (Hopen (Hsend H0) (or_intror H0)) as (A & B & _); auto.
    - destruct (Hopen H0 (or_introl H1)) as (A & B & _); auto.
    - destruct (Hopen H0 (or_introl H1)) as (A & B & _); auto.
    - apply Hrc; auto.
    - apply Hdone; auto.
    - apply Hdone; auto.
    - apply Hdone; auto.
  Qed.

  (* client: closer is closed by the one Close that finds the client open (afterwards Close answers ErrClosedClient
     before touching anything); closed is closed by the background updater when it returns, and only then *)
  Theorem client_sites : forall c l s, run (Client.step c) (Client.init c) l = Some s ->
    (Client.closer s = false -> Client.cl s = Client.CIdle /\ Client.brokers_nil s = false) /\
    (Client.closedch s = true <-> Client.up s = Client.UDone).
  Proof.
    intros c l s H. assert (I : ClientP.Inv s) by (apply (ClientP.reach_inv c s); now exists l).
    destruct I as (Hp & Hc & Hr & Hd & Hn & Hw). split; auto.
  Qed.

  (* offset manager: a partition offset manager's errors channel is closed exactly by its release (releaseOnce), and a
     released one is no longer in om.poms: nothing is sent to it afterwards *)
  Theorem om_sites : forall c l s p, run (OM.step c) (OM.init c) l = Some s -> In p (OM.poms s) ->
    closed (OM.errs p) = OM.rel_once p /\ OM.managed p = negb (OM.rel_once p).
  Proof.
    intros c l s p H Hin. assert (I : OMP.Inv s) by (apply (OMP.reach_inv c s); now exists l).
    destruct I as (_ & _ & _ & _ & F). rewrite Forall_forall in F. destruct (F p Hin). split; auto.
  Qed.
End MiscSites.
