(* C12 — preservation of the partition-consumer invariant (PConsProofs.Inv), application, dispatcher and feeder actions.
   One lemma per action, all by the tactic [PCP.go] (case analysis of the step, then linear arithmetic). *)
From Coq Require Import List Arith Bool Lia.
From SV Require Import C12.Lts C12.LtsProofs C12.Tac C12.PCons C12.PConsProofs.
Import ListNotations. Import PC. Import PCP.

Lemma step_AAsyncClose c s s'  : Inv s -> step c s AAsyncClose = Some s' -> Inv s'.
Proof. intros I H. go s H I. Qed.
Lemma step_ACloseCall c s s'  : Inv s -> step c s ACloseCall = Some s' -> Inv s'.
Proof. intros I H. go s H I. Qed.
Lemma step_ACloseRecv c s s'  : Inv s -> step c s ACloseRecv = Some s' -> Inv s'.
Proof. intros I H. go s H I. Qed.
Lemma step_ACloseSeeClosed c s s'  : Inv s -> step c s ACloseSeeClosed = Some s' -> Inv s'.
Proof. intros I H. go s H I. Qed.
Lemma step_ARet c s s' n : Inv s -> step c s (ARet n) = Some s' -> Inv s'.
Proof. intros I H. go s H I. Qed.
Lemma step_ARecvMsg c s s'  : Inv s -> step c s ARecvMsg = Some s' -> Inv s'.
Proof. intros I H. go s H I. Qed.
Lemma step_ARecvErr c s s'  : Inv s -> step c s ARecvErr = Some s' -> Inv s'.
Proof. intros I H. go s H I. Qed.
Lemma step_ASeeClosedM c s s'  : Inv s -> step c s ASeeClosedM = Some s' -> Inv s'.
Proof. intros I H. go s H I. Qed.
Lemma step_ASeeClosedE c s s'  : Inv s -> step c s ASeeClosedE = Some s' -> Inv s'.
Proof. intros I H. go s H I. Qed.
Lemma step_ADTake c s s'  : Inv s -> step c s ADTake = Some s' -> Inv s'.
Proof. intros I H. go s H I. Qed.
Lemma step_ADSeeClosed c s s'  : Inv s -> step c s ADSeeClosed = Some s' -> Inv s'.
Proof. intros I H. go s H I. Qed.
Lemma step_ADDying c s s'  : Inv s -> step c s ADDying = Some s' -> Inv s'.
Proof. intros I H. go s H I. Qed.
Lemma step_ADTimer c s s'  : Inv s -> step c s ADTimer = Some s' -> Inv s'.
Proof. intros I H. go s H I. Qed.
Lemma step_ADUnref c s s'  : Inv s -> step c s ADUnref = Some s' -> Inv s'.
Proof. intros I H. go s H I. Qed.
Lemma step_ADNet c s s' ok : Inv s -> step c s (ADNet ok) = Some s' -> Inv s'.
Proof. intros I H. go s H I. Qed.
Lemma step_ADSub c s s'  : Inv s -> step c s ADSub = Some s' -> Inv s'.
Proof. intros I H. go s H I. Qed.
Lemma step_ADErr c s s' hand : Inv s -> step c s (ADErr hand) = Some s' -> Inv s'.
Proof. intros I H. go s H I. Qed.
Lemma step_ADTok c s s'  : Inv s -> step c s ADTok = Some s' -> Inv s'.
Proof. intros I H. go s H I. Qed.
Lemma step_ADExit c s s'  : Inv s -> step c s ADExit = Some s' -> Inv s'.
Proof. intros I H. go s H I. Qed.
Lemma step_ADCloseF c s s'  : Inv s -> step c s ADCloseF = Some s' -> Inv s'.
Proof. intros I H. go s H I. Qed.
Lemma step_AFTake c s s' o n toolarge : Inv s -> step c s (AFTake o n toolarge) = Some s' -> Inv s'.
Proof. intros I H. go s H I. Qed.
Lemma step_AFSeeClosed c s s'  : Inv s -> step c s AFSeeClosed = Some s' -> Inv s'.
Proof. intros I H. go s H I. Qed.
Lemma step_AFPErr c s s' hand : Inv s -> step c s (AFPErr hand) = Some s' -> Inv s'.
Proof. intros I H. go s H I. Qed.
Lemma step_AFDying c s s'  : Inv s -> step c s AFDying = Some s' -> Inv s'.
Proof. intros I H. go s H I. Qed.
Lemma step_AFSend c s s' hand : Inv s -> step c s (AFSend hand) = Some s' -> Inv s'.
Proof. intros I H. go s H I. Qed.
Lemma step_AFTick c s s'  : Inv s -> step c s AFTick = Some s' -> Inv s'.
Proof. intros I H. go s H I. Qed.
Lemma step_AFLSend c s s' hand : Inv s -> step c s (AFLSend hand) = Some s' -> Inv s'.
Proof. intros I H. go s H I. Qed.
Lemma step_AFLDying c s s'  : Inv s -> step c s AFLDying = Some s' -> Inv s'.
Proof. intros I H. go s H I. Qed.
