(* C12 — partition consumer: the measure of PConsMeasure.v decreases with every action once dying is closed, part 3 ([PCM.pmgo]). *)
From Coq Require Import List Arith Bool Lia.
From SV Require Import C12.Lts C12.LtsProofs C12.Tac C12.PCons C12.PConsProofs C12.PConsSafety C12.PConsMeasure.
Import ListNotations. Import PC. Import PCP. Import PCM.

Lemma m_AFLEnd c s s'  : Inv s -> dying (ch s) = true -> step c s AFLEnd = Some s' -> lt2 (mu c s') (mu c s).
Proof. intros I P H. pmgo. Qed.
Lemma m_AFResub c s s'  : Inv s -> dying (ch s) = true -> step c s AFResub = Some s' -> lt2 (mu c s') (mu c s).
Proof. intros I P H. pmgo. Qed.
Lemma m_AFAck c s s'  : Inv s -> dying (ch s) = true -> step c s AFAck = Some s' -> lt2 (mu c s') (mu c s).
Proof. intros I P H. pmgo. Qed.
Lemma m_AFCloseM c s s'  : Inv s -> dying (ch s) = true -> step c s AFCloseM = Some s' -> lt2 (mu c s') (mu c s).
Proof. intros I P H. pmgo. Qed.
Lemma m_AFCloseE c s s'  : Inv s -> dying (ch s) = true -> step c s AFCloseE = Some s' -> lt2 (mu c s') (mu c s).
Proof. intros I P H. pmgo. Qed.
Lemma m_ASMSeeClosed c s s'  : Inv s -> dying (ch s) = true -> step c s ASMSeeClosed = Some s' -> lt2 (mu c s') (mu c s).
Proof. intros I P H. pmgo. Qed.
Lemma m_ASMGive c s s'  : Inv s -> dying (ch s) = true -> step c s ASMGive = Some s' -> lt2 (mu c s') (mu c s).
Proof. intros I P H. pmgo. Qed.
Lemma m_ASMWait c s s'  : Inv s -> dying (ch s) = true -> step c s ASMWait = Some s' -> lt2 (mu c s') (mu c s).
Proof. intros I P H. pmgo. Qed.
Lemma m_ASMCloseWait c s s'  : Inv s -> dying (ch s) = true -> step c s ASMCloseWait = Some s' -> lt2 (mu c s') (mu c s).
Proof. intros I P H. pmgo. Qed.
Lemma m_ASMFlush c s s'  : Inv s -> dying (ch s) = true -> step c s ASMFlush = Some s' -> lt2 (mu c s') (mu c s).
Proof. intros I P H. pmgo. Qed.
Lemma m_ASMCloseNS c s s'  : Inv s -> dying (ch s) = true -> step c s ASMCloseNS = Some s' -> lt2 (mu c s') (mu c s).
Proof. intros I P H. pmgo. Qed.
Lemma m_ASCWaitClosed c s s'  : Inv s -> dying (ch s) = true -> step c s ASCWaitClosed = Some s' -> lt2 (mu c s') (mu c s).
Proof. intros I P H. pmgo. Qed.
Lemma m_ASCRangeClosed c s s'  : Inv s -> dying (ch s) = true -> step c s ASCRangeClosed = Some s' -> lt2 (mu c s') (mu c s).
Proof. intros I P H. pmgo. Qed.
Lemma m_ASCUpd c s s'  : Inv s -> dying (ch s) = true -> step c s ASCUpd = Some s' -> lt2 (mu c s') (mu c s).
Proof. intros I P H. pmgo. Qed.
