(* C12 — consumer group, simulation by the observer automaton : one lemma per action, by [GrpSim.sim_go]. *)
(* part 6 of 9; lemmas packed by proof time so that no file of the family takes much over a minute *)
From Coq Require Import List Arith Bool Lia.
From SV Require Import C12.Lts C12.LtsProofs C12.Tac C12.Group C12.GroupProofs C12.GroupSafety C12.GroupSim.
Import ListNotations. Import Grp. Import GrpP. Import GrpSim.

Lemma sim_AGWaitErr c s q s'  : (elock c = true \/ ~ GrpS.racy s AGWaitErr) -> R s q -> step c s AGWaitErr = Some s' ->
  match lbl AGWaitErr with None => R s' q | Some o => exists q', ostep q o = Some q' /\ R s' q' end.
Proof. intros G HR H. sim_go. Qed.
Lemma sim_AHHe c s q s' h : (elock c = true \/ ~ GrpS.racy s (AHHe h)) -> R s q -> step c s (AHHe h) = Some s' ->
  match lbl (AHHe h) with None => R s' q | Some o => exists q', ostep q o = Some q' /\ R s' q' end.
Proof. intros G HR H. sim_go. Qed.
Lemma sim_AFwCheck c s q s'  : (elock c = true \/ ~ GrpS.racy s AFwCheck) -> R s q -> step c s AFwCheck = Some s' ->
  match lbl AFwCheck with None => R s' q | Some o => exists q', ostep q o = Some q' /\ R s' q' end.
Proof. intros G HR H. sim_go. Qed.
Lemma sim_AKCall c s q s'  : (elock c = true \/ ~ GrpS.racy s AKCall) -> R s q -> step c s AKCall = Some s' ->
  match lbl AKCall with None => R s' q | Some o => exists q', ostep q o = Some q' /\ R s' q' end.
Proof. intros G HR H. sim_go. Qed.
Lemma sim_AKSpawn c s q s'  : (elock c = true \/ ~ GrpS.racy s AKSpawn) -> R s q -> step c s AKSpawn = Some s' ->
  match lbl AKSpawn with None => R s' q | Some o => exists q', ostep q o = Some q' /\ R s' q' end.
Proof. intros G HR H. sim_go. Qed.
