(* C12 — async producer: progress of the close cascade.  Once shutdown() has passed inFlight.Wait() (nothing
   is in flight), a state in which no step is enabled is final: the four public channels are closed and
   dispatcher, retry handler, topic / partition producers, broker producer and bridge have all returned.
   (The first half of the shutdown — that everything in flight is resolved, so that Wait() is passed — is the
   liveness part of property C01; see the Definition at the end.) *)
From Coq Require Import List Arith Bool Lia.
From SV Require Import C12.Lts C12.LtsProofs C12.Tac C12.Prod C12.ProdProofs C12.ProdSafety.
Import ListNotations.

Module ProdT.
  Import Prod. Import ProdP.

  (* a request in the bridge's hands is not empty *)
  Definition brNo (p : brpc) : nat := match p with BrNone => 1 | _ => 0 end.
  Definition bL3 (p : bpc) : nat := match p with BShutDrain | BShutStop | BDone => 1 | _ => 0 end.
  Lemma q_spec p a r : bL3 p <= bLate p a /\ brNo r + brB r + brDn r <= 1 /\ bL3 p + bNo p + bSel p + bRs p <= 1.
  Proof. destruct p, a, r; cbn; lia. Qed.

  Record Inv4 (s : st) : Prop := {
    q_br : brB (br s) <= br_set s;                                   (* a request in the bridge's hands is not empty *)
    q_tq : dDn (dp s) <= b2n (tpq_closed s) + tNo (tp s);             (* the dispatcher closed its handlers before returning *)
    q_pq : tDn (tp s) <= b2n (ppq_closed s) + pNo (pp s);
    q_bn : brNo (br s) = bNo (bp s);                                  (* worker and bridge are created together *)
    q_out : bLate (bp s) (b_after s) <= b2n (out_closed s);
    q_resp : brDn (br s) <= b2n (resp_closed s);
    q_tp : tNo (tp s) <= pNo (pp s)                                   (* the partition producer is made by the topic producer *)
  }.
  Lemma inv4_init c : Inv4 (init c). Proof. constructor; cbn; lia. Qed.

  Ltac qgo :=
    match goal with Q : Inv4 ?s, I : Inv ?s, H : step _ ?s _ = Some _ |- _ =>
      scbn H; unfold resolve in H; unacc;
      step_cases H; pair_cases; bool_hyps; pair_cases; bool_hyps;
      match goal with Q : Inv4 ?sx, I : Inv ?sx |- _ =>
        destruct Q as [Q1 Q2 Q3 Q4 Q5 Q6 Q7]; destr_inv I; pose_specs sx; pose proof (q_spec (bp sx) (b_after sx) (br sx)); unacc; rew_eqs sx;
        cbn [brB brDn brNo bL3 dDn tDn tNo pNo bNo bLate bSel bRs aL aW aOK b2n] in *;
        (constructor; red_goal; rew_goal sx; cbn [brB brDn brNo bL3 dDn tDn tNo pNo bNo bLate bSel bRs aL aW aOK b2n]; try lia2)
      end
    end.

  Ltac en Hs a := let X := fresh "X" in pose proof (Hs a) as X; cbn -[Nat.ltb Nat.leb Nat.eqb] in X.

  (* the close cascade: nothing in flight any more *)
  Lemma stuck_final c s : Inv s -> Inv4 s -> sLate (sp s) = 1 -> stuck (step c) s -> final s.
  Proof.
    intros I Q P Hs. destr_inv I. destruct Q as [Q1 Q2 Q3 Q4 Q5 Q6 Q7]. pose proof (q_spec (bp s) (b_after s) (br s)).
    pose_specs s. unfold tokens in *.
    assert (Z : inflight s = 0) by auto.
    rewrite Z in *.
    (* every place is empty *)
    assert (E0 : d_hold s = 0 /\ tpq s = 0 /\ t_hold s = 0 /\ ppq s = 0 /\ p_hold s = 0 /\ ppbuf s = 0 /\ p_mark s = 0 /\
                 b_hold s = 0 /\ b_buf s = 0 /\ br_set s = 0 /\ b_resp s = 0 /\ rh_buf s = 0 /\ old s = 0) by lia.
    destruct E0 as (D0 & Tq & Th & Pq & Ph & Pb & Pm & Bh & Bb & Bs & Br & Rb & Ol).
    rewrite D0, Tq, Th, Pq, Ph, Pb, Pm, Bh, Bb, Bs, Br, Rb, Ol in *.
    (* shutdown() has run to its end *)
    assert (S1 : sp s = SDone).
    { destruct (sp s) eqn:E; cbn in P; try discriminate; auto; exfalso.
      - en Hs ASClient. rewrite E in X. discriminate.
      - en Hs ASCloseIn. rewrite E in X. discriminate.
      - en Hs ASCloseRet. rewrite E in X. discriminate.
      - en Hs ASCloseErr. rewrite E in X. discriminate.
      - en Hs ASCloseSucc. rewrite E in X. discriminate. }
    rewrite S1 in *; cbn in *.
    assert (Ci : in_closed s = true) by (destruct (in_closed s); cbn in *; auto; lia).
    assert (Cr : ret_closed s = true) by (destruct (ret_closed s); cbn in *; auto; lia).
    assert (Ce : err_closed s = true) by (destruct (err_closed s); cbn in *; auto; lia).
    assert (Cs : succ_closed s = true) by (destruct (succ_closed s); cbn in *; auto; lia).
    (* dispatcher and retry handler *)
    assert (Dp : dp s = DDone).
    { destruct (dp s) eqn:E; auto; exfalso; cbn in *; try lia.
      - en Hs ADSeeClosed. rewrite E, Ci in X. discriminate.
      - en Hs ADCloseH. rewrite E in X. discriminate. }
    rewrite Dp in *; cbn in *.
    assert (Rh : rh s = RhDone).
    { destruct (rh s) eqn:E; auto; exfalso. en Hs ARhExit. rewrite E, Cr in X. discriminate. }
    (* topic producer *)
    assert (Tp : tp s = TNone \/ tp s = TDone).
    { destruct (tp s) eqn:E; auto; exfalso; cbn in *; try lia.
      - en Hs ATSeeClosed. rewrite E, Tq in X.
        assert (Tc : tpq_closed s = true) by (destruct (tpq_closed s); cbn in *; auto; lia).
        rewrite Tc in X. discriminate.
      - en Hs ATCloseH. rewrite E in X. discriminate. }
    (* partition producer *)
    assert (Pp : pp s = PNone \/ pp s = PDone).
    { destruct (pp s) eqn:E; auto; exfalso; cbn in *; try lia.
      - en Hs APSeeClosed. rewrite E, Pq in X.
        assert (Pc : ppq_closed s = true) by (destruct Tp as [T|T]; rewrite T in *; destruct (ppq_closed s); cbn in *; auto; lia).
        rewrite Pc in X. discriminate.
      - en Hs APExit. rewrite E in X. destruct (pp_ref s); [destruct (b_refs s) as [|[|?]]|]; discriminate. }
    assert (Pr : pp_ref s = false) by (destruct Pp as [T|T]; rewrite T in *; destruct (pp_ref s); cbn in *; auto; lia).
    rewrite Pr in *; cbn in *.
    (* bridge *)
    assert (Bg : br s = BrNone \/ br s = BrDone \/ (br s = BrRecv /\ out_closed s = false)).
    { destruct (br s) eqn:E; auto.
      - destruct (out_closed s) eqn:Eo; [|auto].
        exfalso. en Hs ABrSeeClosed. rewrite E, Eo in X. discriminate.
      - exfalso. cbn in *. lia.
      - exfalso. cbn in *. lia.
      - exfalso. en Hs ABrCloseResp. rewrite E in X. discriminate. }
    (* broker producer *)
    assert (Bp : bp s = BNone \/ bp s = BDone).
    { destruct (bp s) eqn:E; auto; exfalso; cbn in *; try lia.
      - en Hs ABSeeClosed. rewrite E in X.
        assert (Bc : b_in_closed s = true) by (destruct (b_in_closed s); cbn in *; auto; lia).
        rewrite Bc in X. discriminate.
      - en Hs ABRespDone. rewrite E, Br in X. discriminate.
      - en Hs ABShutFlushed. rewrite E, Bb in X. discriminate.
      - en Hs ABCloseOut. rewrite E in X. discriminate.
      - (* BShutDrain: the bridge has closed responses *)
        assert (Oc : out_closed s = true) by (destruct (out_closed s); cbn in *; auto; lia).
        destruct Bg as [G|[G|[G G2]]]; rewrite G in *; cbn in *; try lia; try congruence.
        en Hs ABDrained. rewrite E in X.
        assert (Rc : resp_closed s = true) by (destruct (resp_closed s); cbn in *; auto; lia).
        rewrite Rc in X. discriminate.
      - en Hs ABCloseStop. rewrite E in X. discriminate. }
    assert (Bg' : br s = BrNone \/ br s = BrDone).
    { destruct Bg as [G|[G|[G G2]]]; auto. exfalso.
      destruct Bp as [B|B]; rewrite B, G in *; cbn in *; try lia.
      rewrite G2 in *; cbn in *; lia. }
    unfold final. rewrite S1, Dp, Rh. repeat split; auto.
  Qed.
End ProdT.
