(* C12 — async producer: progress of the close cascade.  Once shutdown() has passed inFlight.Wait() (nothing
   is in flight), a state in which no step is enabled is final: the four public channels are closed and
   dispatcher, retry handler, topic / partition producers, broker producer and bridge have all returned.
   (The first half of the shutdown — that everything in flight is resolved, so that Wait() is passed — is the
   liveness part of property C01; see the Definition at the end.) *)
From Coq Require Import List Arith Bool Lia.
From SV Require Import C12.Lts C12.LtsProofs C12.Tac C12.Prod C12.ProdProofs C12.ProdSafety.
Import ListNotations.

Module ProdT.
  Import Prod. Import ProdP.

  (* a request in the bridge's hands is not empty *)
  Record Inv4 (s : st) : Prop := { q_br : brB (br s) <= br_set s }.
  Lemma inv4_init c : Inv4 (init c). Proof. constructor; cbn; lia. Qed.

  Ltac qgo :=
    match goal with Q : Inv4 ?s, H : step _ ?s _ = Some _ |- _ =>
      scbn H; unfold resolve in H; unacc;
      step_cases H; pair_cases; bool_hyps; pair_cases; bool_hyps;
      match goal with Q : Inv4 ?sx |- _ =>
        destruct Q as [Q1]; pose proof (br_spec (br sx)); unacc; rew_eqs sx;
        cbn [brB brDn] in *;
        (constructor; red_goal; rew_goal sx; cbn [brB brDn]; try lia)
      end
    end.

  Ltac en Hs a := let X := fresh "X" in pose proof (Hs a) as X; cbn -[Nat.ltb Nat.leb Nat.eqb] in X.

  (* the close cascade: nothing in flight any more *)
  Lemma stuck_final c s : Inv s -> Inv4 s -> sLate (sp s) = 1 -> stuck (step c) s -> final s.
  Proof.
    intros I Q P Hs. destr_inv I. destruct Q as [Q1].
    pose_specs s. unfold tokens in *.
    assert (Z : inflight s = 0) by auto.
    rewrite Z in *.
    (* every place is empty *)
    assert (E0 : d_hold s = 0 /\ tpq s = 0 /\ t_hold s = 0 /\ ppq s = 0 /\ p_hold s = 0 /\ ppbuf s = 0 /\ p_mark s = 0 /\
                 b_hold s = 0 /\ b_buf s = 0 /\ br_set s = 0 /\ b_resp s = 0 /\ rh_buf s = 0 /\ old s = 0) by lia.
    destruct E0 as (D0 & Tq & Th & Pq & Ph & Pb & Pm & Bh & Bb & Bs & Br & Rb & Ol).
    rewrite D0, Tq, Th, Pq, Ph, Pb, Pm, Bh, Bb, Bs, Br, Rb, Ol in *.
    (* shutdown() has run to its end *)
    assert (S1 : sp s = SDone).
    { destruct (sp s) eqn:E; cbn in P; try discriminate; auto; exfalso.
      - en Hs ASClient. rewrite E in X. discriminate.
      - en Hs ASCloseIn. rewrite E in X. discriminate.
      - en Hs ASCloseRet. rewrite E in X. discriminate.
      - en Hs ASCloseErr. rewrite E in X. discriminate.
      - en Hs ASCloseSucc. rewrite E in X. discriminate. }
    rewrite S1 in *; cbn in *.
    assert (Ci : in_closed s = true) by (destruct (in_closed s); cbn in *; auto; lia).
    assert (Cr : ret_closed s = true) by (destruct (ret_closed s); cbn in *; auto; lia).
    assert (Ce : err_closed s = true) by (destruct (err_closed s); cbn in *; auto; lia).
    assert (Cs : succ_closed s = true) by (destruct (succ_closed s); cbn in *; auto; lia).
    (* dispatcher and retry handler *)
    assert (Dp : dp s = DDone).
    { destruct (dp s) eqn:E; auto; exfalso; cbn in *; try lia.
      - en Hs ADSeeClosed. rewrite E, Ci in X. discriminate.
      - en Hs ADCloseH. rewrite E in X. discriminate. }
    rewrite Dp in *; cbn in *.
    assert (Rh : rh s = RhDone).
    { destruct (rh s) eqn:E; auto; exfalso. en Hs ARhExit. rewrite E, Cr in X. discriminate. }
    (* topic producer *)
    assert (Tp : tp s = TNone \/ tp s = TDone).
    { destruct (tp s) eqn:E; auto; exfalso; cbn in *; try lia.
      - en Hs ATSeeClosed. rewrite E, Tq in X.
        (* its input was closed by the dispatcher's exit *)
        admit_tpq.
      - en Hs ATCloseH. rewrite E in X. discriminate. }
    admit_rest.
  Admitted.
End ProdT.
