(* C12 — consumer group: every observable behaviour of the LTS (on the repaired tree: all of them; on
   the pinned tree: those avoiding the racy close) is accepted by the observer automaton Grp.ostep. *)
From Coq Require Import List Arith Bool Lia.
From SV Require Import C12.Lts C12.LtsProofs C12.Tac C12.Group C12.GroupProofs C12.GroupInv_01 C12.GroupInv_02 C12.GroupSafety.
Import ListNotations.

Module GrpSim.
  Import Grp. Import GrpP.

  Definition kI (k : kpc) : nat := match k with KIdle => 0 | _ => 1 end.
  Definition kRN (k : kpc) : nat := match k with KRet r => r | KIdle => 0 | _ => 1 end.
  Definition kRt (k : kpc) : nat := match k with KRet _ => 1 | _ => 0 end.
  Definition kCl (k : kpc) : nat := match k with KClient _ => 1 | _ => 0 end.
  Definition cI (x : cpc) : nat := match x with CIdle => 0 | _ => 1 end.
  Definition cR1 (x : cpc) : nat := match x with CRet 1 => 1 | _ => 0 end.
  Definition cRN (x : cpc) : nat :=
    match x with CRel1 r | CRelWait r | CRel2 r | CRelHe r | CRel3 r | CRel4 r | CRet r => r | _ => 0 end.
  Lemma k_spec2 k : kI k <= 1 /\ k1 k + k26 k + kRt k <= kI k /\ kCl k <= k56 k /\ kCl k + k5 k <= 1. Proof. destruct k; cbn; lia. Qed.
  Lemma c_spec2 x : cI x <= 1 /\ cR1 x <= cI x /\ cSess x <= cI x /\ (cR1 x = 1 -> cRN x = 1).
  Proof. destruct x as [| | | | | | | | | | | | |[|[|r]]]; cbn; lia. Qed.

  Record R (s : st) (q : os) : Prop := {
    r_inv : Inv s;
    r_kcalled : b2n (q_kcalled q) = b2n (once s);
    r_kin : b2n (q_kin q) = kI (kc s);
    r_kret : b2n (q_kret q) <= b2n (client_closed s) /\ b2n (client_closed s) <= b2n (q_kret q) + kI (kc s) /\
             (b2n (q_kret q) = 1 -> kRN (kc s) = 0);
    r_kr : kRN (kc s) <= 1 /\ kRt (kc s) <= b2n (once s) /\ (kCl (kc s) = 1 -> len (errs s) = 0);
    r_e : b2n (q_e q) = b2n (seen_e s) /\ b2n (seen_e s) <= b2n (closed (errs s)) /\ (b2n (seen_e s) = 1 -> len (errs s) = 0);
    r_cl : b2n (client_closed s) = 1 -> len (errs s) = 0;
    r_cin : b2n (q_cin q) = cI (cc s);
    r_cafter : b2n (q_cafter q) <= cR1 (cc s);
    r_crn : cRN (cc s) <= 2 /\ (cRN (cc s) = 1 -> b2n (closed_ch s) = 1)
  }.

  Lemma R_init c : R (init c) oinit.
  Proof. constructor; cbn; try lia. apply inv_init. Qed.

  Ltac destr_R HR := destruct HR as [RI Rkcalled Rkin Rkret Rkr Re Rcl Rcin Rcafter Rcrn].

  Ltac q_cases :=
    repeat match goal with
    | |- context [if ?b then _ else _] => destruct b eqn:?; cbn
    | |- context [match ?n with 0 => _ | S _ => _ end] => destruct n eqn:?; cbn
    end.

  Ltac rw_consts :=
    repeat match goal with
    | H : ?l = true |- context [?l] => rewrite H
    | H : ?l = false |- context [?l] => rewrite H
    end.

  Ltac bool_goal1 :=
    repeat match goal with
    | |- context [b2n (?a || ?b)] => destruct a eqn:?; destruct b eqn:?; cbn
    | |- context [b2n (?a && ?b)] => destruct a eqn:?; destruct b eqn:?; cbn
    | |- context [b2n (?a =? ?b)] => destruct (a =? b) eqn:?; bool_hyps; cbn
    end.
  (* lia on the purely linear part of the context first: the implications double its case analysis each *)
  Ltac lia0 := solve [ repeat match goal with H : _ -> _ |- _ => clear H end; lia ].
  Ltac lia2 := first [ lia0 | lia ].

  Ltac finish_R I' :=
    first
      [ exfalso; lia2
      | constructor; [exact I' | ..];
        unfold set_errs, with_panic, set_kc, set_cc, set_lk, set_sess, set_ctx, set_hb, set_lc, set_claims, set_budget, set_fw, claims;
        cbn; rw_consts; cbn; try lia2; bool_goal1; try lia2 ].

  Ltac sim_prep :=
    match goal with HR : R ?s ?q, H : step ?c ?s ?a = Some ?s', G : _ \/ _ |- _ =>
      let I' := fresh "I'" in
      pose proof (GrpS.inv_step c s a s' G (r_inv s q HR) H) as I';
      clear G;
      scbn H; unfold tick, toil, he_check, he_send, sync_checked in H;
      step_cases H; pair_cases; bool_hyps; pair_cases; bool_hyps;
      repeat match goal with X : _ \/ _ |- _ => destruct X end; bool_hyps;
      match goal with HR : R ?s0 ?q0 |- _ =>
        destr_R HR; pose_specs s0; pose proof (k_spec2 (kc s0)); pose proof (c_spec2 (cc s0));
        match goal with RI : Inv s0 |- _ => destr_inv RI end;
        unf; rew_eqs s0; cbn in *;
        destruct q0 as [qk qi qr qe qc qa];
        cbn [lbl lbl_h ostep q_kcalled q_kin q_kret q_e q_cin q_cafter fClose fConsume chE] in *
      end
    end.

  Ltac sim_fin :=
    match goal with I' : Inv _ |- _ =>
      lazymatch goal with
      | |- R _ _ => finish_R I'
      | _ =>
        repeat match goal with b : bool |- _ =>
          lazymatch goal with |- context [if b then _ else _] => destruct b | |- context [b || _] => destruct b
                            | |- context [_ || b] => destruct b | |- context [b && _] => destruct b
                            | |- context [_ && b] => destruct b | |- context [negb b] => destruct b end end;
        repeat match goal with |- context [?a =? ?b] => destruct (a =? b) eqn:? | |- context [?a <=? ?b] => destruct (a <=? b) eqn:? end;
        cbn in *; q_cases; bool_hyps; subst; cbn in *;
        first [ exfalso; cbn in *; lia2
              | eexists; split; [reflexivity|]; finish_R I' ]
      end
    end.
  Ltac sim_go := sim_prep; sim_fin.
End GrpSim.
