(* C12 — async producer: the observable trace of every run is accepted by the observer automaton. *)
From Coq Require Import List Arith Bool Lia.
From SV Require Import C12.Lts C12.LtsProofs C12.Tac C12.Prod C12.ProdProofs C12.ProdSafety C12.ProdSim C12.ProdSim_01 C12.ProdSim_02 C12.ProdSim_03 C12.ProdSim_04.
Import ListNotations.

Module ProdA.
  Import Prod. Import ProdP. Import ProdSim.

  Lemma sim c s q a s' : R c s q -> step c s a = Some s' ->
    match lbl c a with None => R c s' q | Some o => exists q', ostep c q o = Some q' /\ R c s' q' end.
  Proof.
    intros HR H. destruct a.
    - eapply sim_AInput; eauto.
    - eapply sim_AAsyncClose; eauto.
    - eapply sim_ASeeClosedErr; eauto.
    - eapply sim_ASeeClosedSucc; eauto.
    - eapply sim_ACloseSeeClosed; eauto.
    - eapply sim_ARet; eauto.
    - eapply sim_ASMarker; eauto.
    - eapply sim_ASWait; eauto.
    - eapply sim_ASClient; eauto.
    - eapply sim_ASCloseIn; eauto.
    - eapply sim_ASCloseRet; eauto.
    - eapply sim_ASCloseErr; eauto.
    - eapply sim_ASCloseSucc; eauto.
    - eapply sim_ADErr; eauto.
    - eapply sim_ADNewTp; eauto.
    - eapply sim_ADFwd; eauto.
    - eapply sim_ADSeeClosed; eauto.
    - eapply sim_ADCloseH; eauto.
    - eapply sim_ARhFeed; eauto.
    - eapply sim_ARhExit; eauto.
    - eapply sim_ATTake; eauto.
    - eapply sim_ATErr; eauto.
    - eapply sim_ATNewPp; eauto.
    - eapply sim_ATFwd; eauto.
    - eapply sim_ATSeeClosed; eauto.
    - eapply sim_ATCloseH; eauto.
    - eapply sim_APStart; eauto.
    - eapply sim_APTake; eauto.
    - eapply sim_APConsume; eauto.
    - eapply sim_APBuffer; eauto.
    - eapply sim_APErr; eauto.
    - eapply sim_APSend; eauto.
    - eapply sim_APMark; eauto.
    - eapply sim_APMarkSend; eauto.
    - eapply sim_APUnref; eauto.
    - eapply sim_APGetBp; eauto.
    - eapply sim_APFlush; eauto.
    - eapply sim_APSeeClosed; eauto.
    - eapply sim_APExit; eauto.
    - eapply sim_ABSyn; eauto.
    - eapply sim_ABKeep; eauto.
    - eapply sim_ABNeedSpace; eauto.
    - eapply sim_ABFate; eauto.
    - eapply sim_ABFlush; eauto.
    - eapply sim_ABRecvResp; eauto.
    - eapply sim_ABResolve; eauto.
    - eapply sim_ABDropBuf; eauto.
    - eapply sim_ABRespDone; eauto.
    - eapply sim_ABSeeClosed; eauto.
    - eapply sim_ABShutFlushed; eauto.
    - eapply sim_ABCloseOut; eauto.
    - eapply sim_ABDrained; eauto.
    - eapply sim_ABCloseStop; eauto.
    - eapply sim_ABrNet; eauto.
    - eapply sim_ABrSeeClosed; eauto.
    - eapply sim_ABrCloseResp; eauto.
    - eapply sim_AOld; eauto.
  Qed.

  (* every schedule, AsyncClose/Close at every moment: Successes() / Errors() are seen closed only after the
     close call and deliver nothing afterwards; with Close() no error reaches the application between call
     and return and Errors() is closed when Close() has returned *)
  Theorem prod_trace_accepted : forall c l s, run (step c) (init c) l = Some s ->
    accepts c (trace (lbl c) l) = true.
  Proof.
    intros c l s H. unfold accepts.
    eapply (sim_accepts (step c) (lbl c) (ostep c) (R c) (sim c)); [apply R_init | exact H].
  Qed.
End ProdA.
