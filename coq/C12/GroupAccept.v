(* C12 — consumer group: the observable trace of a run is accepted by the observer automaton. *)
From Coq Require Import List Arith Bool Lia.
From SV Require Import C12.Lts C12.LtsProofs C12.Tac C12.Group C12.GroupProofs C12.GroupSafety C12.GroupSim C12.GroupSim_01 C12.GroupSim_02 C12.GroupSim_03 C12.GroupSim_04 C12.GroupSim_05 C12.GroupSim_06 C12.GroupSim_07 C12.GroupSim_08 C12.GroupSim_09.
Import ListNotations.

Module GrpA.
  Import Grp. Import GrpP. Import GrpSim.

  Lemma sim c s q a s' : (elock c = true \/ ~ GrpS.racy s a) -> R s q -> step c s a = Some s' ->
    match lbl a with None => R s' q | Some o => exists q', ostep q o = Some q' /\ R s' q' end.
  Proof.
    intros G HR H. destruct a.
    - eapply sim_AKCall; eauto.
    - eapply sim_AKRet; eauto.
    - eapply sim_ACCall; eauto.
    - eapply sim_ACRet; eauto.
    - eapply sim_ARecvErr; eauto.
    - eapply sim_ASeeClosed; eauto.
    - eapply sim_AKCloseCh; eauto.
    - eapply sim_AKLeaveLock; eauto.
    - eapply sim_AKLeaveNet; eauto.
    - eapply sim_AKSpawn; eauto.
    - eapply sim_AECloseErrs; eauto.
    - eapply sim_AKDrainRecv; eauto.
    - eapply sim_AKDrainEnd; eauto.
    - eapply sim_AKClient; eauto.
    - eapply sim_ACLock; eauto.
    - eapply sim_ACRefresh; eauto.
    - eapply sim_ACJoin; eauto.
    - eapply sim_ACBackClosed; eauto.
    - eapply sim_ACBackTimer; eauto.
    - eapply sim_ACSetup; eauto.
    - eapply sim_ACCtxDone; eauto.
    - eapply sim_ACRel1; eauto.
    - eapply sim_ACRelWait; eauto.
    - eapply sim_ACRel2; eauto.
    - eapply sim_ACRelHe; eauto.
    - eapply sim_ACRel3; eauto.
    - eapply sim_ACRel4; eauto.
    - eapply sim_AHNet; eauto.
    - eapply sim_AHBackDying; eauto.
    - eapply sim_AHBackTimer; eauto.
    - eapply sim_AHTick; eauto.
    - eapply sim_AHDying; eauto.
    - eapply sim_AHHe; eauto.
    - eapply sim_AHExit; eauto.
    - eapply sim_ALNet; eauto.
    - eapply sim_ALTick; eauto.
    - eapply sim_ALStop; eauto.
    - eapply sim_ALExit; eauto.
    - eapply sim_AGStart; eauto.
    - eapply sim_AGNew; eauto.
    - eapply sim_AGRunEnd; eauto.
    - eapply sim_AGWaitErr; eauto.
    - eapply sim_AGWaitEnd; eauto.
    - eapply sim_AGHe; eauto.
    - eapply sim_AGDefer; eauto.
    - eapply sim_AFwCheck; eauto.
    - eapply sim_AFwSend; eauto.
  Qed.

  Lemma sim_avoiding c : forall l s q s', R s q -> (elock c = true \/ GrpS.avoids c s l) -> run (step c) s l = Some s' ->
    exists q', orun ostep q (trace lbl l) = Some q' /\ R s' q'.
  Proof.
    induction l as [|a l IH]; intros s q s' HR G H; cbn in *.
    - injection H as <-. eauto.
    - destruct (step c s a) as [s1|] eqn:E; [|discriminate].
      assert (G1 : elock c = true \/ ~ GrpS.racy s a) by (destruct G as [G|[G _]]; auto).
      assert (G2 : elock c = true \/ GrpS.avoids c s1 l) by (destruct G as [G|[_ G]]; auto; rewrite E in G; auto).
      pose proof (sim c s q a s1 G1 HR E) as S. destruct (lbl a) as [o|].
      + destruct S as [q1 [Hq1 HR1]]. cbn. rewrite Hq1. eapply IH; eauto.
      + eapply IH; eauto.
  Qed.

  (* repaired tree, every schedule, Close at every moment: the first Close returns nil or an error, every later
     one nil; Errors() delivers nothing after the first Close returned and is seen closed only after Close was
     called; Consume on a group whose Close has returned answers ErrClosedConsumerGroup, and never answers
     ErrClosedConsumerGroup before Close was called *)
  Theorem group_trace_accepted_fixed : forall c l s, elock c = true -> run (step c) (init c) l = Some s ->
    accepts (trace lbl l) = true.
  Proof.
    intros c l s E H. unfold accepts, oaccepts.
    destruct (sim_avoiding c l (init c) oinit s (R_init c) (or_introl E) H) as [q' [Hq _]]. now rewrite Hq.
  Qed.

  (* pinned tree: the same for schedules that avoid the racy close *)
  Theorem group_trace_accepted_partial : forall c l s, GrpS.avoids c (init c) l -> run (step c) (init c) l = Some s ->
    accepts (trace lbl l) = true.
  Proof.
    intros c l s A H. unfold accepts, oaccepts.
    destruct (sim_avoiding c l (init c) oinit s (R_init c) (or_intror A) H) as [q' [Hq _]]. now rewrite Hq.
  Qed.
End GrpA.
