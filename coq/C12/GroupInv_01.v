(* C12 — preservation of the consumer-group invariant (GroupProofs.Inv), application, Close and Consume actions.
   One lemma per action, by the tactic [GrpP.go] (case analysis of the step, then linear arithmetic). *)
(* part 1 of 2; lemmas packed by proof time so that no file of the family takes much over a minute *)
From Coq Require Import List Arith Bool Lia.
From SV Require Import C12.Lts C12.LtsProofs C12.Tac C12.Group C12.GroupProofs.
Import ListNotations. Import Grp. Import GrpP.

Lemma step_ACSetup c s s' m : Inv s -> step c s (ACSetup m) = Some s' -> Inv s'.
Proof. intros I H. go s H I. Qed.
Lemma step_ACRelHe c s s' h : Inv s -> step c s (ACRelHe h) = Some s' -> Inv s'.
Proof. intros I H. go s H I. Qed.
Lemma step_AHHe c s s' h : Inv s -> step c s (AHHe h) = Some s' -> Inv s'.
Proof. intros I H. go s H I. Qed.
Lemma step_AECloseErrs c s s' : (elock c = true \/ fw_checked s = 0) -> Inv s -> step c s AECloseErrs = Some s' -> Inv s'.
Proof.
  intros G I H. assert (F : fw_checked s = 0).
  { destruct G as [G|G]; [|exact G]. cbn in H. destruct (ke s); try discriminate. rewrite G in H. cbn in H.
    destruct (fw_checked s); [reflexivity|]. cbn in H. discriminate. }
  go s H I. all: intros; lia.
Qed.
