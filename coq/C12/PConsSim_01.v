(* C12 — partition consumer, simulation by the observer automaton: application, dispatcher and feeder actions. One lemma per action, by [PCSim.sim_go]. *)
(* part 1 of 2; lemmas packed by proof time so that no file of the family takes much over a minute *)
From Coq Require Import List Arith Bool Lia.
From SV Require Import C12.Lts C12.LtsProofs C12.Tac C12.PCons C12.PConsProofs C12.PConsSafety C12.PConsSim.
Import ListNotations. Import PC. Import PCP. Import PCSim.

Lemma sim_ASCHErr c s q s' hand : R c s q -> step c s (ASCHErr hand) = Some s' ->
  match lbl (ASCHErr hand) with None => R c s' q | Some o => exists q', ostep c true q o = Some q' /\ R c s' q' end.
Proof. intros HR H. sim_go. Qed.
Lemma sim_AFTake c s q s' o n toolarge : R c s q -> step c s (AFTake o n toolarge) = Some s' ->
  match lbl (AFTake o n toolarge) with None => R c s' q | Some o => exists q', ostep c true q o = Some q' /\ R c s' q' end.
Proof. intros HR H. sim_go. Qed.
Lemma sim_ASCHandle c s q s' moved : R c s q -> step c s (ASCHandle moved) = Some s' ->
  match lbl (ASCHandle moved) with None => R c s' q | Some o => exists q', ostep c true q o = Some q' /\ R c s' q' end.
Proof. intros HR H. sim_go. Qed.
Lemma sim_ADErr c s q s' hand : R c s q -> step c s (ADErr hand) = Some s' ->
  match lbl (ADErr hand) with None => R c s' q | Some o => exists q', ostep c true q o = Some q' /\ R c s' q' end.
Proof. intros HR H. sim_go. Qed.
Lemma sim_AFSend c s q s' hand : R c s q -> step c s (AFSend hand) = Some s' ->
  match lbl (AFSend hand) with None => R c s' q | Some o => exists q', ostep c true q o = Some q' /\ R c s' q' end.
Proof. intros HR H. sim_go. Qed.
Lemma sim_ASCAbNErr c s q s' hand : R c s q -> step c s (ASCAbNErr hand) = Some s' ->
  match lbl (ASCAbNErr hand) with None => R c s' q | Some o => exists q', ostep c true q o = Some q' /\ R c s' q' end.
Proof. intros HR H. sim_go. Qed.
Lemma sim_ASCWaitClosed c s q s'  : R c s q -> step c s ASCWaitClosed = Some s' ->
  match lbl ASCWaitClosed with None => R c s' q | Some o => exists q', ostep c true q o = Some q' /\ R c s' q' end.
Proof. intros HR H. sim_go. Qed.
Lemma sim_AFPErr c s q s' hand : R c s q -> step c s (AFPErr hand) = Some s' ->
  match lbl (AFPErr hand) with None => R c s' q | Some o => exists q', ostep c true q o = Some q' /\ R c s' q' end.
Proof. intros HR H. sim_go. Qed.
Lemma sim_AAsyncClose c s q s'  : R c s q -> step c s AAsyncClose = Some s' ->
  match lbl AAsyncClose with None => R c s' q | Some o => exists q', ostep c true q o = Some q' /\ R c s' q' end.
Proof. intros HR H. sim_go. Qed.
Lemma sim_ASCAbErr c s q s' hand : R c s q -> step c s (ASCAbErr hand) = Some s' ->
  match lbl (ASCAbErr hand) with None => R c s' q | Some o => exists q', ostep c true q o = Some q' /\ R c s' q' end.
Proof. intros HR H. sim_go. Qed.
Lemma sim_ASMWait c s q s'  : R c s q -> step c s ASMWait = Some s' ->
  match lbl ASMWait with None => R c s' q | Some o => exists q', ostep c true q o = Some q' /\ R c s' q' end.
Proof. intros HR H. sim_go. Qed.
Lemma sim_ASMGive c s q s'  : R c s q -> step c s ASMGive = Some s' ->
  match lbl ASMGive with None => R c s' q | Some o => exists q', ostep c true q o = Some q' /\ R c s' q' end.
Proof. intros HR H. sim_go. Qed.
Lemma sim_ADExit c s q s'  : R c s q -> step c s ADExit = Some s' ->
  match lbl ADExit with None => R c s' q | Some o => exists q', ostep c true q o = Some q' /\ R c s' q' end.
Proof. intros HR H. sim_go. Qed.
Lemma sim_ADUnref c s q s'  : R c s q -> step c s ADUnref = Some s' ->
  match lbl ADUnref with None => R c s' q | Some o => exists q', ostep c true q o = Some q' /\ R c s' q' end.
Proof. intros HR H. sim_go. Qed.
