(* C12 — generic facts about the LTS machinery of Lts.v: invariant rule, well-foundedness of the
   lexicographic orders, the measure rule for termination, and trace inclusion by simulation. *)
From Coq Require Import List Arith Bool Lia Wellfounded.
From SV Require Import C12.Lts.
Import ListNotations.

Section LTS.
  Context {st act : Type}.
  Variable step : st -> act -> option st.

  Lemma run_app : forall l1 l2 s, run step s (l1 ++ l2) =
    match run step s l1 with Some s' => run step s' l2 | None => None end.
  Proof.
    induction l1 as [|a l1 IH]; intros l2 s; cbn; [reflexivity|].
    destruct (step s a); [apply IH | reflexivity].
  Qed.

  Lemma reach_refl : forall i, Reach step i i.
  Proof. intro i. exists []. reflexivity. Qed.

  Lemma reach_step : forall i s a s', Reach step i s -> step s a = Some s' -> Reach step i s'.
  Proof.
    intros i s a s' [l Hl] Hs. exists (l ++ [a]). rewrite run_app, Hl. cbn. now rewrite Hs.
  Qed.

  (* the invariant rule: all schedules *)
  Lemma reach_inv (Inv : st -> Prop) (i : st) :
    Inv i -> (forall s a s', Inv s -> step s a = Some s' -> Inv s') ->
    forall s, Reach step i s -> Inv s.
  Proof.
    intros Hi Hstep s [l Hl]. revert i Hi Hl.
    induction l as [|a l IH]; intros i Hi Hl; cbn in Hl.
    - now injection Hl as <-.
    - destruct (step i a) as [s1|] eqn:E; [|discriminate]. eapply IH; [|exact Hl]. eapply Hstep; eauto.
  Qed.

  Lemma run_inv (Inv : st -> Prop) :
    (forall s a s', Inv s -> step s a = Some s' -> Inv s') ->
    forall l s s', Inv s -> run step s l = Some s' -> Inv s'.
  Proof.
    intros Hstep l; induction l as [|a l IH]; intros s s' Hi Hl; cbn in Hl.
    - now injection Hl as <-.
    - destruct (step s a) as [s1|] eqn:E; [|discriminate]. eapply IH; [|exact Hl]. eapply Hstep; eauto.
  Qed.

  Lemma reach_trans : forall i s s', Reach step i s -> Reach step s s' -> Reach step i s'.
  Proof. intros i s s' [l1 H1] [l2 H2]. exists (l1 ++ l2). now rewrite run_app, H1. Qed.
End LTS.

(* ---- well-founded orders ---- *)
Lemma lt2_wf : well_founded lt2.
Proof.
  intros [a b]. revert b. induction a as [a IHa] using lt_wf_ind. intro b.
  induction b as [b IHb] using lt_wf_ind.
  constructor. intros [a' b'] [H|[H1 H2]]; cbn in *.
  - now apply IHa.
  - subst a'. now apply IHb.
Qed.

Lemma lt3_wf : well_founded lt3.
Proof.
  intros [ab c]. revert c. induction ab as [ab IHa] using (well_founded_induction lt2_wf). intro c.
  induction c as [c IHc] using lt_wf_ind.
  constructor. intros [ab' c'] [H|[H1 H2]]; cbn in *.
  - now apply IHa.
  - subst ab'. now apply IHc.
Qed.

Section TERM.
  Context {st act : Type}.
  Variable step : st -> act -> option st.
  Variables ph fin : st -> Prop.

  (* measure rule: a phase closed under steps, with a measure into a well-founded order that every
     step of the phase decreases, and in which a stuck state is final, terminates *)
  Lemma terminates_by_measure {M : Type} (R : M -> M -> Prop) (mu : st -> M) :
    well_founded R ->
    (forall s a s', ph s -> step s a = Some s' -> R (mu s') (mu s)) ->
    (forall s, ph s -> stuck step s -> fin s) ->
    Terminates step ph fin.
  Proof.
    intros Hwf Hdec Hstuck. split; [|exact Hstuck].
    intros s _. remember (mu s) as m eqn:Em. revert s Em.
    induction m as [m IH] using (well_founded_induction Hwf). intros s ->.
    constructor. intros s' [Hp [a Ha]]. eapply IH; [|reflexivity]. eapply Hdec; eauto.
  Qed.

  (* consequence used in the examples: inside a terminating phase every run is finite, and a run that
     cannot be extended ended in a final state *)
  Lemma terminates_maximal_run :
    (forall s a s', ph s -> step s a = Some s' -> ph s') ->
    Terminates step ph fin ->
    forall s l s', ph s -> run step s l = Some s' -> stuck step s' -> fin s'.
  Proof.
    intros Hcl [_ Hst] s l s' Hp Hr Hs. apply Hst; [|exact Hs].
    eapply (run_inv step ph); eauto.
  Qed.
End TERM.

(* ---- trace inclusion in an observer automaton, by simulation ---- *)
Section SIM.
  Context {st act os : Type}.
  Variable step : st -> act -> option st.
  Variable lbl : act -> option obs.
  Variable ostep : os -> obs -> option os.
  Variable R : st -> os -> Prop.

  Hypothesis sim : forall s q a s', R s q -> step s a = Some s' ->
    match lbl a with
    | None => R s' q
    | Some o => exists q', ostep q o = Some q' /\ R s' q'
    end.

  Lemma sim_run : forall l s q s', R s q -> run step s l = Some s' ->
    exists q', orun ostep q (trace lbl l) = Some q' /\ R s' q'.
  Proof.
    induction l as [|a l IH]; intros s q s' HR Hr; cbn in *.
    - injection Hr as <-. eauto.
    - destruct (step s a) as [s1|] eqn:E; [|discriminate].
      pose proof (sim _ _ _ _ HR E) as Hs. destruct (lbl a) as [o|].
      + destruct Hs as [q1 [Hq1 HR1]]. cbn. rewrite Hq1. eapply IH; eauto.
      + eapply IH; eauto.
  Qed.

  Lemma sim_accepts : forall l s q s', R s q -> run step s l = Some s' ->
    oaccepts ostep q (trace lbl l) = true.
  Proof.
    intros l s q s' HR Hr. destruct (sim_run _ _ _ _ HR Hr) as [q' [Hq _]].
    unfold oaccepts. now rewrite Hq.
  Qed.
End SIM.
