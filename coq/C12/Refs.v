(* C12 — reference-counted broker workers, any number of holders (definitions only).
   async_producer.go getBrokerProducer / unrefBrokerProducer / abandonBrokerConnection and
   consumer.go refBrokerConsumer / unrefBrokerConsumer / abandonBrokerConsumer follow the same protocol,
   all under one mutex (each operation is one atomic step):
     ref:     worker = map[broker] (created with count 0 if absent); count++
     unref:   count--; if count == 0 { close(worker.input); delete map entry if it is this worker }
     abandon: delete map entry
   A holder sends on worker.input only between its ref and its unref.  retryBatch (idempotent producer)
   takes a reference it never returns ([HLeak]).  One worker's lifetime is modelled: once it left the
   map, ref creates a different worker. *)
From Coq Require Import List Arith Bool.
From SV Require Import C12.Lts.
Import ListNotations.

Module Refs.
  Inductive hpc := HOut | HIn | HLeak.
  Record st := { refs : nat; in_map : bool; in_closed : bool; holders : list hpc; panic : bool }.
  Definition init (n : nat) : st :=
    {| refs := 0; in_map := true; in_closed := false; holders := repeat HOut n; panic := false |}.

  Inductive act := ARef (i : nat) (leak : bool) | AUnref (i : nat) | ASend (i : nat) | AAbandon.

  Fixpoint set_nth (i : nat) (x : hpc) (l : list hpc) : list hpc :=
    match l, i with
    | [], _ => []
    | _ :: r, 0 => x :: r
    | y :: r, S j => y :: set_nth j x r
    end.

  Definition step (s : st) (a : act) : option st :=
    match a with
    | ARef i leak =>
      match nth_error (holders s) i with
      | Some HOut => if in_map s
                     then Some {| refs := S (refs s); in_map := true; in_closed := in_closed s;
                                  holders := set_nth i (if leak then HLeak else HIn) (holders s); panic := panic s |}
                     else None
      | _ => None
      end
    | AUnref i =>
      match nth_error (holders s) i with
      | Some HIn =>
        match refs s with
        | 0 => Some {| refs := 0; in_map := in_map s; in_closed := in_closed s; holders := set_nth i HOut (holders s); panic := true |}
        | 1 => Some {| refs := 0; in_map := false; in_closed := true; holders := set_nth i HOut (holders s);
                       panic := panic s || in_closed s |}
        | S n => Some {| refs := n; in_map := in_map s; in_closed := in_closed s; holders := set_nth i HOut (holders s); panic := panic s |}
        end
      | _ => None
      end
    | ASend i =>
      match nth_error (holders s) i with
      | Some HIn | Some HLeak => Some {| refs := refs s; in_map := in_map s; in_closed := in_closed s; holders := holders s;
                                         panic := panic s || in_closed s |}
      | _ => None
      end
    | AAbandon => Some {| refs := refs s; in_map := false; in_closed := in_closed s; holders := holders s; panic := panic s |}
    end.

  Definition holding (h : hpc) : bool := match h with HOut => false | _ => true end.
  Definition count (l : list hpc) : nat := length (filter holding l).
  Definition leaky (l : list hpc) : bool := existsb (fun h => match h with HLeak => true | _ => false end) l.
End Refs.
