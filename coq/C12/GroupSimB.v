(* C12 — consumer group, simulation by the observer automaton, part 2: one lemma per action, by [GrpSim.sim_go]. *)
From Coq Require Import List Arith Bool Lia.
From SV Require Import C12.Lts C12.LtsProofs C12.Tac C12.Group C12.GroupProofs C12.GroupSafety C12.GroupSim.
Import ListNotations. Import Grp. Import GrpP. Import GrpSim.

Lemma sim_AKLeaveNet c s q s' ok r : (elock c = true \/ ~ GrpS.racy s (AKLeaveNet ok r)) -> R s q -> step c s (AKLeaveNet ok r) = Some s' ->
  match lbl (AKLeaveNet ok r) with None => R s' q | Some o => exists q', ostep q o = Some q' /\ R s' q' end.
Proof. intros G HR H. sim_go. Qed.
Lemma sim_AKSpawn c s q s'  : (elock c = true \/ ~ GrpS.racy s AKSpawn) -> R s q -> step c s AKSpawn = Some s' ->
  match lbl AKSpawn with None => R s' q | Some o => exists q', ostep q o = Some q' /\ R s' q' end.
Proof. intros G HR H. sim_go. Qed.
Lemma sim_AECloseErrs c s q s'  : (elock c = true \/ ~ GrpS.racy s AECloseErrs) -> R s q -> step c s AECloseErrs = Some s' ->
  match lbl AECloseErrs with None => R s' q | Some o => exists q', ostep q o = Some q' /\ R s' q' end.
Proof. intros G HR H. sim_go. Qed.
Lemma sim_AKDrainRecv c s q s'  : (elock c = true \/ ~ GrpS.racy s AKDrainRecv) -> R s q -> step c s AKDrainRecv = Some s' ->
  match lbl AKDrainRecv with None => R s' q | Some o => exists q', ostep q o = Some q' /\ R s' q' end.
Proof. intros G HR H. sim_go. Qed.
Lemma sim_AKDrainEnd c s q s'  : (elock c = true \/ ~ GrpS.racy s AKDrainEnd) -> R s q -> step c s AKDrainEnd = Some s' ->
  match lbl AKDrainEnd with None => R s' q | Some o => exists q', ostep q o = Some q' /\ R s' q' end.
Proof. intros G HR H. sim_go. Qed.
Lemma sim_AKClient c s q s' r : (elock c = true \/ ~ GrpS.racy s (AKClient r)) -> R s q -> step c s (AKClient r) = Some s' ->
  match lbl (AKClient r) with None => R s' q | Some o => exists q', ostep q o = Some q' /\ R s' q' end.
Proof. intros G HR H. sim_go. Qed.
Lemma sim_ACLock c s q s'  : (elock c = true \/ ~ GrpS.racy s ACLock) -> R s q -> step c s ACLock = Some s' ->
  match lbl ACLock with None => R s' q | Some o => exists q', ostep q o = Some q' /\ R s' q' end.
Proof. intros G HR H. sim_go. Qed.
Lemma sim_ACRefresh c s q s' ok : (elock c = true \/ ~ GrpS.racy s (ACRefresh ok)) -> R s q -> step c s (ACRefresh ok) = Some s' ->
  match lbl (ACRefresh ok) with None => R s' q | Some o => exists q', ostep q o = Some q' /\ R s' q' end.
Proof. intros G HR H. sim_go. Qed.
