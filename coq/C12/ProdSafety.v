(* C12 — async producer: the invariant holds in every reachable state; consequences. *)
From Coq Require Import List Arith Bool Lia.
From SV Require Import C12.Lts C12.LtsProofs C12.Tac C12.Prod C12.ProdProofs C12.ProdInv_01 C12.ProdInv_02 C12.ProdInv_03 C12.ProdInv_04 C12.ProdInv_05 C12.ProdInv_06 C12.ProdInv_07 C12.ProdInv_08 C12.ProdInv_09 C12.ProdInv_10 C12.ProdInv_11 C12.ProdInv_12 C12.ProdInv_13.
Import ListNotations.

Module ProdS.
  Import Prod. Import ProdP.

  Lemma inv_step c s a s' : Inv s -> step c s a = Some s' -> Inv s'.
  Proof.
    intros I H. destruct a.
    - eapply step_AInput; eauto.
    - eapply step_AAsyncClose; eauto.
    - eapply step_ASeeClosedErr; eauto.
    - eapply step_ASeeClosedSucc; eauto.
    - eapply step_ACloseSeeClosed; eauto.
    - eapply step_ARet; eauto.
    - eapply step_ASMarker; eauto.
    - eapply step_ASWait; eauto.
    - eapply step_ASClient; eauto.
    - eapply step_ASCloseIn; eauto.
    - eapply step_ASCloseRet; eauto.
    - eapply step_ASCloseErr; eauto.
    - eapply step_ASCloseSucc; eauto.
    - eapply step_ADErr; eauto.
    - eapply step_ADNewTp; eauto.
    - eapply step_ADFwd; eauto.
    - eapply step_ADSeeClosed; eauto.
    - eapply step_ADCloseH; eauto.
    - eapply step_ARhFeed; eauto.
    - eapply step_ARhExit; eauto.
    - eapply step_ATTake; eauto.
    - eapply step_ATErr; eauto.
    - eapply step_ATNewPp; eauto.
    - eapply step_ATFwd; eauto.
    - eapply step_ATSeeClosed; eauto.
    - eapply step_ATCloseH; eauto.
    - eapply step_APStart; eauto.
    - eapply step_APTake; eauto.
    - eapply step_APConsume; eauto.
    - eapply step_APBuffer; eauto.
    - eapply step_APErr; eauto.
    - eapply step_APSend; eauto.
    - eapply step_APMark; eauto.
    - eapply step_APMarkSend; eauto.
    - eapply step_APUnref; eauto.
    - eapply step_APGetBp; eauto.
    - eapply step_APFlush; eauto.
    - eapply step_APSeeClosed; eauto.
    - eapply step_APExit; eauto.
    - eapply step_ABSyn; eauto.
    - eapply step_ABKeep; eauto.
    - eapply step_ABNeedSpace; eauto.
    - eapply step_ABFate; eauto.
    - eapply step_ABFlush; eauto.
    - eapply step_ABRecvResp; eauto.
    - eapply step_ABResolve; eauto.
    - eapply step_ABDropBuf; eauto.
    - eapply step_ABRespDone; eauto.
    - eapply step_ABSeeClosed; eauto.
    - eapply step_ABShutFlushed; eauto.
    - eapply step_ABCloseOut; eauto.
    - eapply step_ABDrained; eauto.
    - eapply step_ABCloseStop; eauto.
    - eapply step_ABrNet; eauto.
    - eapply step_ABrSeeClosed; eauto.
    - eapply step_ABrCloseResp; eauto.
    - eapply step_AOld; eauto.
  Qed.

  Lemma reach_inv c s : Reach (step c) (init c) s -> Inv s.
  Proof. apply reach_inv; [apply inv_init | apply inv_step]. Qed.

  (* every schedule, AsyncClose/Close at every moment: input, retries, errors, successes, the handlers' inputs,
     the worker's input / output / responses / stopchan are closed at most once, nothing is sent on them after
     the close, inFlight never goes negative *)
  Theorem prod_no_panic : forall c l s, run (step c) (init c) l = Some s -> panic s = false.
  Proof. intros c l s H. apply b2n_0. apply (reach_inv c s). now exists l. Qed.

  (* shutdown() closes the four channels only when nothing is in flight, and inFlight counts every token *)
  Theorem prod_closed_after_last_event : forall c l s, run (step c) (init c) l = Some s ->
    inflight s = tokens s /\
    (err_closed s = true \/ succ_closed s = true \/ ret_closed s = true \/ in_closed s = true -> tokens s = 0).
  Proof.
    intros c l s H. assert (I : Inv s) by (apply (reach_inv c s); now exists l).
    destruct I. split; [assumption|]. intros Hc. rewrite <- i_count0. apply i_late0.
    pose proof (s_spec (sp s)). destruct Hc as [E|[E|[E|E]]]; rewrite E in *; cbn in *; lia.
  Qed.
End ProdS.
