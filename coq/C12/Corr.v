(* C12 — correspondence: the harness (go/harness/cmd/c12corr) writes, per component instance of a run,
   the linearised sequence of what the application observed (calls and returns of Close / AsyncClose /
   Consume, events received from the public channels, channels seen closed) as a [case]; [ok] evaluates
   the component model's acceptance function (its observer automaton) on it.  Every behaviour of the
   component LTS is accepted by these automata (theorems *_trace_accepted in the proof files), so an
   observed sequence that is rejected is a behaviour the model does not have. *)
From Coq Require Import List Arith Bool.
From SV Require Import Base.Corr C12.Lts C12.Conn C12.OffMgr C12.PCons C12.Group C12.Prod.
Import ListNotations.

Inductive comp := CProducer | CPCons | CGroup | COffsets | CClient | CBroker.

(* c_cfg: the configuration the model needs, per component:
     producer  [ qcap; messages sent; sync_close ]
     pcons     [ Return.Errors; ChannelBufferSize; may shut itself down (offset out of range) ]
     group     [ ]
     offsets   [ AutoCommit; Return.Errors; ChannelBufferSize; Retry.Max; number of POMs ]
     client    [ ]
     broker    [ connection was open ]
   c_complete: the run was observed to its end (everything closed); informational. *)
Record case := { c_comp : comp; c_cfg : list nat; c_obs : list obs; c_complete : bool }.

Definition cfgn (k : case) (i : nat) : nat := nth i (c_cfg k) 0.
Definition cfgb (k : case) (i : nat) : bool := negb (cfgn k i =? 0).

Definition prod_cfg (k : case) : Prod.cfg :=
  {| Prod.qcap := cfgn k 0; Prod.nmsg := cfgn k 1; Prod.budget0 := 0; Prod.fuel0 := 0; Prod.sync_close := cfgb k 2 |}.
Definition pc_cfg (k : case) : PC.cfg :=
  {| PC.ret_err := cfgb k 0; PC.cap := cfgn k 1; PC.maxb := 0; PC.fuel0 := 0; PC.max_calls := 0 |}.
Definition om_cfg (k : case) : OM.cfg :=
  {| OM.auto := cfgb k 0; OM.ret_err := cfgb k 1; OM.ecap := cfgn k 2; OM.retry_max := cfgn k 3; OM.npom := cfgn k 4;
     OM.fuel0 := 0; OM.max_calls := 0 |}.

Definition ok (k : case) : bool :=
  match c_comp k with
  | CProducer => Prod.accepts (prod_cfg k) (c_obs k)
  | CPCons => PC.accepts (pc_cfg k) (cfgb k 2) (c_obs k)
  | CGroup => Grp.accepts (c_obs k)
  | COffsets => OM.accepts (om_cfg k) (c_obs k)
  | CClient => Client.accepts (c_obs k)
  | CBroker => Broker.accepts (cfgb k 0) (c_obs k)
  end.

Definition mismatches_c12 := mismatches ok.
