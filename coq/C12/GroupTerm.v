(* C12 — consumer group: termination of the shutdown (repaired tree).
   Phase: c.closed is closed.  Measure: lexicographic triple
     ( timer events and error reports still to come,  Close / Consume calls the application still makes,
       weighted sum of the program counters, claim counters, buffered errors ... )
   Every step of the phase decreases it; a state of the phase in which nothing can move is final. *)
From Coq Require Import List Arith Bool Lia.
From SV Require Import C12.Lts C12.LtsProofs C12.Tac C12.Group C12.GroupProofs C12.GroupInv1 C12.GroupInv2 C12.GroupSafety.
Import ListNotations.

Module GrpT.
  Import Grp. Import GrpP.

  (* ---- ranks ---- *)
  Definition kR (k : kpc) : nat :=
    match k with KIdle => 0 | KRet _ => 1 | KClient _ => 2 | KDrain _ => 3 | KSpawn _ => 4 | KLeaveNet => 5 | KLeaveLock => 6 | KCloseCh => 7 end.
  Definition eR (e : epc) : nat := match e with EPending => 1 | _ => 0 end.
  Definition hR (h : hpc) : nat := match h with HNone | HDone => 0 | HExit => 1 | HHe => 3 | HSel | HBack => 4 | HNet => 5 end.
  Definition lR (l : lpc) : nat := match l with LcNone | LcDone => 0 | LcExit => 1 | LcSel => 2 | LcNet => 3 end.
  (* potential of a fresh session *)
  Definition sessP (c : cfg) : nat := 7 * nclaims c + 5 + 3.
  Definition cR (c : cfg) (x : cpc) : nat :=
    match x with
    | CIdle => 0 | CRet _ => 1 | CRel4 _ => 2 | CRel3 _ => 3 | CRelHe _ => 5 | CRel2 _ => 6 | CRelWait _ => 7 | CRel1 _ => 8
    | CWaitCtx => 9 | CSetup => 10 + sessP c
    | CBackoff l => 11 + sessP c + 2 * l - 1
    | CJoin l => 11 + sessP c + 2 * l
    | CRefresh => 12 + sessP c + 2 * retry c
    | CLock => 13 + sessP c + 2 * retry c
    end.

  Definition L1 (s : st) : nat := fuel s + work s.
  Definition L2 (c : cfg) (s : st) : nat := (max_calls c - calls s) + (max_consume c - consumes s).
  Definition L3 (c : cfg) (s : st) : nat :=
    2 * kR (kc s) + eR (ke s) + cR c (cc s) + hR (hb s) + lR (lc s) +
    7 * n_start s + 6 * n_new s + 5 * n_run s + 4 * n_he s + 2 * n_wait s + n_defer s +
    2 * fw_checked s + len (errs s) + (1 - b2n (seen_e s)).
  Definition mu (c : cfg) (s : st) : nat * nat * nat := (L1 s, L2 c s, L3 c s).

  (* ---- additional invariant used by the progress argument ---- *)
  Definition cWC (x : cpc) : nat := match x with CWaitCtx => 1 | _ => 0 end.
  Definition cR4 (x : cpc) : nat := match x with CRel4 _ => 1 | _ => 0 end.
  Definition lA (l : lpc) : nat := match l with LcNet | LcSel | LcExit => 1 | _ => 0 end.
  Definition lD (l : lpc) : nat := match l with LcDone => 1 | _ => 0 end.
  Definition kErr (k : kpc) : nat := match k with KSpawn r | KDrain r | KClient r => r | _ => 0 end.

  Record Inv2 (s : st) : Prop := {
    j_wc : cWC (cc s) <= lA (lc s) + b2n (ctx_done s);
    j_ld : lD (lc s) <= b2n (ctx_done s);
    j_r4 : cR4 (cc s) <= b2n (hb_dying s);
    j_hb : cS2 (cc s) <= hA (hb s) + hD (hb s);
    j_kerr : kErr (kc s) <= 1
  }.

  Lemma inv2_init c : Inv2 (init c).
  Proof. constructor; cbn; lia. Qed.

  Lemma c_spec3 x : cWC x <= cS2 x /\ cR4 x <= cS2 x /\ cWC x + cR4 x <= 1 /\ cWC x <= cPre3 x /\ cR4 x + cPre3 x <= 1.
  Proof. destruct x; cbn; lia. Qed.
  Lemma l_spec3 l : lA l + lD l <= 1. Proof. destruct l; cbn; lia. Qed.

  Ltac jgo :=
    match goal with J : Inv2 ?s, I : Inv ?s, H : step _ ?s _ = Some _ |- _ =>
      scbn H; unfold tick, toil, he_check, he_send, sync_checked in H;
      step_cases H; pair_cases; bool_hyps; pair_cases; bool_hyps;
      match goal with J : Inv2 ?sx, I : Inv ?sx |- _ =>
        destruct J as [J1 J2 J3 J4 J5]; destr_inv I; pose_specs sx;
        pose proof (c_spec3 (cc sx)); pose proof (l_spec3 (lc sx)); pose proof (b2n_le1 (ctx_done sx));
        unf; rew_eqs sx; cbn in *;
        (constructor; unfold set_errs, with_panic, set_kc, set_cc, set_lk, set_sess, set_ctx, set_hb, set_lc, set_claims, set_budget, set_fw;
         cbn; rew_goal sx; cbn; try lia)
      end
    end.

  Lemma h_spec3 h : hA h = 0 -> hR h = 0. Proof. destruct h; cbn; lia. Qed.
  Lemma rank_bounds c x : cR c x <= 13 + sessP c + 2 * retry c \/ True. Proof. auto. Qed.

  Lemma lt3_intro a b c a' b' c' :
    a < a' \/ (a = a' /\ b < b') \/ (a = a' /\ b = b' /\ c < c') -> lt3 (a, b, c) (a', b', c').
  Proof.
    unfold lt3, lt2; cbn. intros [H|[[H1 H2]|[H1 [H2 H3]]]]; subst; auto.
  Qed.

  (* measure decrease of one action in the phase *)
  Ltac mgo :=
    match goal with I : Inv ?s, P : closed_ch ?s = true, H : step ?c ?s _ = Some _ |- _ =>
      scbn H; unfold tick, toil, he_check, he_send, sync_checked in H;
      step_cases H; pair_cases; bool_hyps; pair_cases; bool_hyps;
      match goal with I : Inv ?sx, P : closed_ch ?sx = true |- _ =>
        destr_inv I; pose_specs sx; pose proof (h_spec3 (hb sx));
        unf; rew_eqs sx; cbn in *; try discriminate;
        unfold mu; apply lt3_intro; unfold L1, L2, L3, sessP;
        unfold set_errs, with_panic, set_kc, set_cc, set_lk, set_sess, set_ctx, set_hb, set_lc, set_claims, set_budget, set_fw;
        cbn -[Nat.mul Nat.sub Nat.add]; rew_goal sx; cbn -[Nat.mul Nat.sub Nat.add];
        repeat match goal with |- context [b2n ?b] => is_var b; destruct b end;
        repeat match goal with |- context [b2n (seen_e ?x)] => destruct (seen_e x) end;
        cbn -[Nat.mul Nat.sub Nat.add]; try lia
      end
    end.
End GrpT.
