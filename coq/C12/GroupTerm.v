(* C12 — consumer group: termination of the shutdown (repaired tree).
   Phase: c.closed is closed.  Measure: lexicographic triple
     ( timer events and error reports still to come,  Close / Consume calls the application still makes,
       weighted sum of the program counters, claim counters, buffered errors ... )
   Every step of the phase decreases it; a state of the phase in which nothing can move is final. *)
From Coq Require Import List Arith Bool Lia.
From SV Require Import C12.Lts C12.LtsProofs C12.Tac C12.Group C12.GroupProofs C12.GroupInv_01 C12.GroupInv_02 C12.GroupSafety.
Import ListNotations.

Module GrpT.
  Import Grp. Import GrpP.

  (* ---- ranks ---- *)
  Definition kR (k : kpc) : nat :=
    match k with KIdle => 0 | KRet _ => 1 | KClient _ => 2 | KDrain _ => 3 | KSpawn _ => 4 | KLeaveNet => 5 | KLeaveLock => 6 | KCloseCh => 7 end.
  Definition eR (e : epc) : nat := match e with EPending => 1 | _ => 0 end.
  Definition hR (h : hpc) : nat := match h with HNone | HDone => 0 | HExit => 1 | HHe => 3 | HSel | HBack => 4 | HNet => 5 end.
  Definition lR (l : lpc) : nat := match l with LcNone | LcDone => 0 | LcExit => 1 | LcSel => 2 | LcNet => 3 end.
  (* potential of a fresh session *)
  Definition sessP (c : cfg) : nat := 7 * nclaims c + 5 + 3.
  Definition cR (c : cfg) (x : cpc) : nat :=
    match x with
    | CIdle => 0 | CRet _ => 1 | CRel4 _ => 2 | CRel3 _ => 3 | CRelHe _ => 5 | CRel2 _ => 6 | CRelWait _ => 7 | CRel1 _ => 8
    | CWaitCtx => 9 | CSetup => 10 + sessP c
    | CBackoff l => 11 + sessP c + 2 * l - 1
    | CJoin l => 11 + sessP c + 2 * l
    | CRefresh => 12 + sessP c + 2 * retry c
    | CLock => 13 + sessP c + 2 * retry c
    end.

  Definition L1 (s : st) : nat := fuel s + work s.
  Definition L2 (c : cfg) (s : st) : nat := (max_calls c - calls s) + (max_consume c - consumes s).
  Definition L3 (c : cfg) (s : st) : nat :=
    2 * kR (kc s) + eR (ke s) + cR c (cc s) + hR (hb s) + lR (lc s) +
    7 * n_start s + 6 * n_new s + 5 * n_run s + 4 * n_he s + 2 * n_wait s + n_defer s +
    2 * fw_checked s + len (errs s) + (1 - b2n (seen_e s)).
  Definition mu (c : cfg) (s : st) : nat * nat * nat := (L1 s, L2 c s, L3 c s).

  (* ---- additional invariant used by the progress argument ---- *)
  Definition cWC (x : cpc) : nat := match x with CWaitCtx => 1 | _ => 0 end.
  Definition cR4 (x : cpc) : nat := match x with CRel4 _ => 1 | _ => 0 end.
  Definition lA (l : lpc) : nat := match l with LcNet | LcSel | LcExit => 1 | _ => 0 end.
  Definition lD (l : lpc) : nat := match l with LcDone => 1 | _ => 0 end.
  Definition kErr (k : kpc) : nat := match k with KSpawn r | KDrain r | KClient r => r | _ => 0 end.

  Record Inv2 (s : st) : Prop := {
    j_wc : cWC (cc s) <= lA (lc s) + b2n (ctx_done s);
    j_ld : lD (lc s) <= b2n (ctx_done s);
    j_r4 : cR4 (cc s) <= b2n (hb_dying s);
    j_hb : cS2 (cc s) <= hA (hb s) + hD (hb s);
    j_kerr : kErr (kc s) <= 1;
    (* consume goroutines exist only in a session that was set up completely: its partition-number watcher was started *)
    j_run : 1 <= claims s -> lA (lc s) + lD (lc s) = 1
  }.

  Lemma inv2_init c : Inv2 (init c).
  Proof. constructor; unfold claims; cbn; lia. Qed.

  Lemma c_spec3 x : cWC x <= cS2 x /\ cR4 x <= cS2 x /\ cWC x + cR4 x <= 1 /\ cWC x <= cPre3 x /\ cR4 x + cPre3 x <= 1.
  Proof. destruct x; cbn; lia. Qed.
  Lemma l_spec3 l : lA l + lD l <= 1. Proof. destruct l; cbn; lia. Qed.

  Ltac jgo :=
    match goal with J : Inv2 ?s, I : Inv ?s, H : step _ ?s _ = Some _ |- _ =>
      scbn H; unfold tick, toil, he_check, he_send, sync_checked in H;
      step_cases H; pair_cases; bool_hyps; pair_cases; bool_hyps;
      match goal with J : Inv2 ?sx, I : Inv ?sx |- _ =>
        destruct J as [J1 J2 J3 J4 J5 J6]; destr_inv I; pose_specs sx;
        pose proof (c_spec3 (cc sx)); pose proof (l_spec3 (lc sx)); pose proof (b2n_le1 (ctx_done sx));
        unf; rew_eqs sx; cbn in *;
        (constructor; unfold set_errs, with_panic, set_kc, set_cc, set_lk, set_sess, set_ctx, set_hb, set_lc, set_claims, set_budget, set_fw, claims;
         cbn; rew_goal sx; cbn; try lia2)
      end
    end.

  Lemma h_spec3 h : hA h = 0 -> hR h = 0. Proof. destruct h; cbn; lia. Qed.
  Lemma rank_bounds c x : cR c x <= 13 + sessP c + 2 * retry c \/ True. Proof. auto. Qed.

  Lemma lt3_intro a b c a' b' c' :
    a < a' \/ (a = a' /\ b < b') \/ (a = a' /\ b = b' /\ c < c') -> lt3 (a, b, c) (a', b', c').
  Proof.
    unfold lt3, lt2; cbn. intros [H|[[H1 H2]|[H1 [H2 H3]]]]; subst; auto.
  Qed.

  (* measure decrease of one action in the phase *)
  Ltac mgo :=
    match goal with I : Inv ?s, P : closed_ch ?s = true, H : step ?c ?s _ = Some _ |- _ =>
      scbn H; unfold tick, toil, he_check, he_send, sync_checked in H; rewrite ?P in H; scbn H;
      step_cases H; pair_cases; bool_hyps; pair_cases; bool_hyps;
      match goal with I : Inv ?sx |- _ =>
        destr_inv I; pose_specs sx; pose proof (h_spec3 (hb sx));
        unf; rew_eqs sx; cbn in *; try discriminate;
        unfold mu; apply lt3_intro; unfold L1, L2, L3, sessP;
        unfold set_errs, with_panic, set_kc, set_cc, set_lk, set_sess, set_ctx, set_hb, set_lc, set_claims, set_budget, set_fw;
        cbn -[Nat.mul Nat.sub Nat.add]; rew_goal sx; cbn -[Nat.mul Nat.sub Nat.add];
        repeat match goal with |- context [b2n ?b] => is_var b; destruct b end;
        repeat match goal with |- context [b2n (seen_e ?x)] => destruct (seen_e x) end;
        cbn -[Nat.mul Nat.sub Nat.add]; unfold sessP; try lia2
      end
    end.

  (* ---- progress: in the phase, a state in which nothing can move is final ---- *)
  Lemma he_send_enabled c s : he_send c s HBuf <> None \/ he_send c s HDrop <> None.
  Proof.
    unfold he_send. destruct (len (errs s) <? ecap c) eqn:E.
    - left. discriminate.
    - right. apply Nat.ltb_ge in E. apply Nat.leb_le in E. rewrite E. discriminate.
  Qed.

  Ltac stuck_by Hs a := specialize (Hs a); scbn Hs.

  Lemma stuck_final c s : Inv s -> Inv2 s -> closed_ch s = true -> stuck (step c) s -> final s.
  Proof.
    intros I J P Hs.
    pose proof (he_send_enabled c s) as HE.
    (* nobody is inside handleError *)
    assert (A1 : fw_checked s = 0).
    { destruct (fw_checked s) eqn:E; auto. exfalso. destruct HE as [HE|HE]; apply HE.
      - pose proof (Hs (AFwSend HBuf)) as X. cbn -[he_send Nat.ltb Nat.leb Nat.eqb] in X. rewrite E in X. destruct (he_send c s HBuf); [discriminate|reflexivity].
      - pose proof (Hs (AFwSend HDrop)) as X. cbn -[he_send Nat.ltb Nat.leb Nat.eqb] in X. rewrite E in X. destruct (he_send c s HDrop); [discriminate|reflexivity]. }
    assert (A2 : n_he s = 0).
    { destruct (n_he s) eqn:E; auto. exfalso. destruct HE as [HE|HE]; apply HE.
      - pose proof (Hs (AGHe HBuf)) as X. cbn -[he_send Nat.ltb Nat.leb Nat.eqb] in X. rewrite E in X. destruct (he_send c s HBuf); [discriminate|reflexivity].
      - pose proof (Hs (AGHe HDrop)) as X. cbn -[he_send Nat.ltb Nat.leb Nat.eqb] in X. rewrite E in X. destruct (he_send c s HDrop); [discriminate|reflexivity]. }
    (* the consume goroutines are gone *)
    assert (A3 : n_start s = 0).
    { destruct (n_start s) eqn:E; auto. exfalso. pose proof (Hs AGStart) as X. scbn X. rewrite E in X.
      destruct (ctx_done s || closed_ch s); discriminate. }
    assert (A4 : n_new s = 0).
    { destruct (n_new s) eqn:E; auto. exfalso. pose proof (Hs (AGNew true)) as X. scbn X. rewrite E in X. discriminate. }
    (* the partition-count loop is not running *)
    assert (A8 : lc s = LcNone \/ lc s = LcDone).
    { destruct (lc s) eqn:E; auto; exfalso.
      - pose proof (Hs (ALNet true)) as X. scbn X. rewrite E in X. discriminate.
      - pose proof (Hs ALStop) as X. scbn X. rewrite E, P in X. rewrite orb_true_r in X. discriminate.
      - pose proof (Hs ALExit) as X. scbn X. rewrite E in X. discriminate. }
    assert (A5 : n_run s = 0).
    { destruct (n_run s) eqn:E; auto. exfalso. pose proof (Hs (AGRunEnd false)) as X. scbn X. rewrite E in X.
      destruct (hctx c); cbn in X; [|discriminate]. destruct (ctx_done s) eqn:Ec; cbn in X; [discriminate|].
      (* a handler waiting for the session context: the watcher is alive (and can move), or has cancelled the session *)
      pose proof (j_ld _ J) as K2. pose proof (j_run _ J) as K6. unfold claims in K6. rewrite E, Ec in *.
      destruct A8 as [A8|A8]; rewrite A8 in *; cbn in *; lia. }
    assert (A6 : n_wait s = 0).
    { destruct (n_wait s) eqn:E; auto. exfalso. pose proof (Hs AGWaitEnd) as X. scbn X. rewrite E in X. discriminate. }
    assert (A7 : n_defer s = 0).
    { destruct (n_defer s) eqn:E; auto. exfalso. pose proof (Hs AGDefer) as X. scbn X. rewrite E in X. discriminate. }
    destr_inv I. destruct J as [J1 J2 J3 J4 J5 J6]. pose_specs s. pose proof (c_spec3 (cc s)). pose proof (l_spec3 (lc s)).
    unfold claims in *. rewrite A2, A3, A4, A5, A6, A7 in *.
    (* the caller of Consume is back *)
    assert (B : cc s = CIdle).
    { destruct (cc s) eqn:E; auto; exfalso; cbn -[he_send] in *.
      - (* CLock *) destruct (lock s) eqn:El; cbn -[he_send] in *; try lia.
        + pose proof (Hs ACLock) as X. scbn X. rewrite E, El in X. discriminate.
        + (* leave holds the lock: Close is in LeaveGroup *)
          destruct (kc s) eqn:Ek; cbn -[he_send] in *; try lia.
          pose proof (Hs (AKLeaveNet false 0)) as X. scbn X. rewrite Ek in X. discriminate.
      - pose proof (Hs (ACRefresh false)) as X. scbn X. rewrite E in X. discriminate.
      - pose proof (Hs (ACJoin (JFail false 2))) as X. scbn X. rewrite E in X. discriminate.
      - pose proof (Hs ACBackClosed) as X. scbn X. rewrite E, P in X. discriminate.
      - pose proof (Hs (ACSetup SFailEarly)) as X. scbn X. rewrite E in X. discriminate.
      - (* CWaitCtx *) destruct (ctx_done s) eqn:Ec.
        + pose proof (Hs ACCtxDone) as X. scbn X. rewrite E, Ec in X. discriminate.
        + destruct A8 as [A8|A8]; rewrite A8 in *; cbn -[he_send] in *; lia.
      - pose proof (Hs ACRel1) as X. scbn X. rewrite E in X. discriminate.
      - pose proof (Hs ACRelWait) as X. scbn X. rewrite E in X.
        assert (W : wg s = 0) by lia. rewrite W in X. discriminate.
      - pose proof (Hs (ACRel2 false)) as X. scbn X. rewrite E in X. destruct (rel_once s); discriminate.
      - destruct HE as [HE|HE]; apply HE.
        + pose proof (Hs (ACRelHe HBuf)) as X. cbn -[he_send Nat.ltb Nat.leb Nat.eqb] in X. rewrite E in X. destruct (he_send c s HBuf); [discriminate|reflexivity].
        + pose proof (Hs (ACRelHe HDrop)) as X. cbn -[he_send Nat.ltb Nat.leb Nat.eqb] in X. rewrite E in X. destruct (he_send c s HDrop); [discriminate|reflexivity].
      - pose proof (Hs ACRel3) as X. scbn X. rewrite E in X. discriminate.
      - (* CRel4: the heartbeat loop sees hbDying *)
        assert (D : hb_dying s = true) by (destruct (hb_dying s); cbn -[he_send] in *; auto; lia).
        destruct (hb s) eqn:Eh; cbn -[he_send] in *; try lia.
        + pose proof (Hs (AHNet HbOk)) as X. scbn X. rewrite Eh in X. discriminate.
        + pose proof (Hs AHBackDying) as X. scbn X. rewrite Eh, D in X. discriminate.
        + pose proof (Hs AHDying) as X. scbn X. rewrite Eh, D in X. discriminate.
        + destruct HE as [HE|HE]; apply HE.
          * pose proof (Hs (AHHe HBuf)) as X. cbn -[he_send Nat.ltb Nat.leb Nat.eqb] in X. rewrite Eh in X. destruct (he_send c s HBuf); [discriminate|reflexivity].
          * pose proof (Hs (AHHe HDrop)) as X. cbn -[he_send Nat.ltb Nat.leb Nat.eqb] in X. rewrite Eh in X. destruct (he_send c s HDrop); [discriminate|reflexivity].
        + pose proof (Hs AHExit) as X. scbn X. rewrite Eh in X. discriminate.
        + (* HDone: hbDead is closed *)
          pose proof (Hs ACRel4) as X. scbn X. rewrite E in X.
          assert (D2 : hb_dead s = true) by (destruct (hb_dead s); cbn -[he_send] in *; auto; lia). rewrite D2 in X. discriminate.
      - pose proof (Hs (ACRet r)) as X. scbn X. rewrite E, Nat.eqb_refl in X. discriminate. }
    rewrite B in *; cbn -[he_send] in *.
    (* the caller of Close is back *)
    assert (C : kc s = KIdle).
    { destruct (kc s) eqn:E; auto; exfalso; cbn -[he_send] in *.
      - pose proof (Hs AKCloseCh) as X. scbn X. rewrite E in X. discriminate.
      - destruct (lock s) eqn:El; cbn -[he_send] in *; try lia.
        pose proof (Hs AKLeaveLock) as X. scbn X. rewrite E, El in X. destruct (member s); discriminate.
      - pose proof (Hs (AKLeaveNet false 0)) as X. scbn X. rewrite E in X. discriminate.
      - destruct (ke s) eqn:Ee; cbn -[he_send] in *; try lia.
        pose proof (Hs AKSpawn) as X. scbn X. rewrite E, Ee in X. discriminate.
      - (* KDrain *)
        destruct (len (errs s)) eqn:El.
        + destruct (closed (errs s)) eqn:Ec.
          * pose proof (Hs AKDrainEnd) as X. scbn X. rewrite E, Ec, El in X. discriminate.
          * destruct (ke s) eqn:Ee; cbn -[he_send] in *; try lia.
            pose proof (Hs AECloseErrs) as X. scbn X. rewrite Ee in X.
            unfold sync_checked in X. rewrite A1, A2, B in X. cbn in X.
            destruct (hb s) eqn:Eh; cbn -[he_send] in *; try lia; rewrite andb_false_r in X; discriminate.
        + pose proof (Hs AKDrainRecv) as X. scbn X. rewrite E, El in X. discriminate.
      - pose proof (Hs (AKClient 1)) as X. scbn X. rewrite E in X.
        assert (R1 : (r <=? 1) = true) by (apply Nat.leb_le; lia). rewrite R1 in X. discriminate.
      - pose proof (Hs (AKRet r)) as X. scbn X. rewrite E, Nat.eqb_refl in X. discriminate. }
    rewrite C in *; cbn -[he_send] in *.
    unfold final, session_over. rewrite A2, A3, A4, A5, A6, A7, B, C.
    assert (Cl : client_closed s = true) by (destruct (client_closed s); cbn -[he_send] in *; auto; rewrite P in *; cbn -[he_send] in *; lia).
    rewrite Cl in *; cbn -[he_send] in *.
    assert (Ke : ke s = EDone) by (destruct (ke s); cbn -[he_send] in *; auto; lia).
    rewrite Ke in *; cbn -[he_send] in *.
    assert (Ec : closed (errs s) = true) by (destruct (closed (errs s)); cbn -[he_send] in *; auto; lia).
    assert (Lk : lock s = LNone) by (destruct (lock s); cbn -[he_send] in *; auto; lia).
    assert (Hb : hb s = HNone \/ hb s = HDone) by (destruct (hb s); cbn -[he_send] in *; auto; lia).
    repeat split; auto.
  Qed.
End GrpT.
