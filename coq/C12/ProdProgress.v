(* C12 — async producer: progress of the close cascade. *)
From Coq Require Import List Arith Bool Lia.
From SV Require Import C12.Lts C12.LtsProofs C12.Tac C12.Prod C12.ProdProofs C12.ProdSafety C12.ProdTerm C12.ProdTerm_01 C12.ProdTerm_02 C12.ProdTerm_03.
Import ListNotations.

Module ProdTT.
  Import Prod. Import ProdP. Import ProdT.

  Lemma inv4_step c s a s' : Inv4 s -> Inv s -> step c s a = Some s' -> Inv4 s'.
  Proof.
    intros Q I H. destruct a.
    - eapply q_AInput; eauto.
    - eapply q_AAsyncClose; eauto.
    - eapply q_ASeeClosedErr; eauto.
    - eapply q_ASeeClosedSucc; eauto.
    - eapply q_ACloseSeeClosed; eauto.
    - eapply q_ARet; eauto.
    - eapply q_ASMarker; eauto.
    - eapply q_ASWait; eauto.
    - eapply q_ASClient; eauto.
    - eapply q_ASCloseIn; eauto.
    - eapply q_ASCloseRet; eauto.
    - eapply q_ASCloseErr; eauto.
    - eapply q_ASCloseSucc; eauto.
    - eapply q_ADErr; eauto.
    - eapply q_ADNewTp; eauto.
    - eapply q_ADFwd; eauto.
    - eapply q_ADSeeClosed; eauto.
    - eapply q_ADCloseH; eauto.
    - eapply q_ARhFeed; eauto.
    - eapply q_ARhExit; eauto.
    - eapply q_ATTake; eauto.
    - eapply q_ATErr; eauto.
    - eapply q_ATNewPp; eauto.
    - eapply q_ATFwd; eauto.
    - eapply q_ATSeeClosed; eauto.
    - eapply q_ATCloseH; eauto.
    - eapply q_APStart; eauto.
    - eapply q_APTake; eauto.
    - eapply q_APConsume; eauto.
    - eapply q_APBuffer; eauto.
    - eapply q_APErr; eauto.
    - eapply q_APSend; eauto.
    - eapply q_APMark; eauto.
    - eapply q_APMarkSend; eauto.
    - eapply q_APUnref; eauto.
    - eapply q_APGetBp; eauto.
    - eapply q_APFlush; eauto.
    - eapply q_APSeeClosed; eauto.
    - eapply q_APExit; eauto.
    - eapply q_ABSyn; eauto.
    - eapply q_ABKeep; eauto.
    - eapply q_ABNeedSpace; eauto.
    - eapply q_ABFate; eauto.
    - eapply q_ABFlush; eauto.
    - eapply q_ABRecvResp; eauto.
    - eapply q_ABResolve; eauto.
    - eapply q_ABDropBuf; eauto.
    - eapply q_ABRespDone; eauto.
    - eapply q_ABSeeClosed; eauto.
    - eapply q_ABShutFlushed; eauto.
    - eapply q_ABCloseOut; eauto.
    - eapply q_ABDrained; eauto.
    - eapply q_ABCloseStop; eauto.
    - eapply q_ABrNet; eauto.
    - eapply q_ABrSeeClosed; eauto.
    - eapply q_ABrCloseResp; eauto.
    - eapply q_AOld; eauto.
  Qed.

  Lemma reach_inv14 c s : Reach (step c) (init c) s -> Inv s /\ Inv4 s.
  Proof.
    apply (reach_inv (step c) (fun s => Inv s /\ Inv4 s)).
    - split; [apply inv_init | apply inv4_init].
    - intros s0 a s1 [I Q] H. split; [eapply ProdS.inv_step; eauto | eapply inv4_step; eauto].
  Qed.

  (* once shutdown() has passed inFlight.Wait(): whenever nothing can move any more, input, retries, errors and
     successes are closed and dispatcher, retry handler, topic and partition producer, broker producer and bridge
     have all returned *)
  Theorem prod_cascade_progress : forall c s, Reach (step c) (init c) s -> sLate (sp s) = 1 ->
    stuck (step c) s -> final s.
  Proof. intros c s R P Hs. destruct (reach_inv14 c s R) as [I Q]. eapply stuck_final; eauto. Qed.

  (* the full termination statement (after AsyncClose every run is finite and ends closed, under the retry /
     marker budgets); its first half — everything in flight gets resolved — is not proved for this model *)
  Definition prod_terminates_statement : Prop :=
    forall c, Terminates (step c) (fun s => Reach (step c) (init c) s /\ closing s) final.
End ProdTT.
