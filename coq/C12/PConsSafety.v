(* C12 — partition consumer: the invariant holds in every reachable state; consequences. *)
From Coq Require Import List Arith Bool Lia.
From SV Require Import C12.Lts C12.LtsProofs C12.Tac C12.PCons C12.PConsProofs C12.PConsInv_01 C12.PConsInv_02.
Import ListNotations.

Module PCS.
  Import PC. Import PCP.

  Lemma inv_step c s a s' : Inv s -> step c s a = Some s' -> Inv s'.
  Proof.
    intros I H. destruct a.
    - eapply step_AAsyncClose; eauto.
    - eapply step_ACloseCall; eauto.
    - eapply step_ACloseRecv; eauto.
    - eapply step_ACloseSeeClosed; eauto.
    - eapply step_ARet; eauto.
    - eapply step_ARecvMsg; eauto.
    - eapply step_ARecvErr; eauto.
    - eapply step_ASeeClosedM; eauto.
    - eapply step_ASeeClosedE; eauto.
    - eapply step_ADTake; eauto.
    - eapply step_ADSeeClosed; eauto.
    - eapply step_ADDying; eauto.
    - eapply step_ADTimer; eauto.
    - eapply step_ADUnref; eauto.
    - eapply step_ADNet; eauto.
    - eapply step_ADSub; eauto.
    - eapply step_ADErr; eauto.
    - eapply step_ADTok; eauto.
    - eapply step_ADExit; eauto.
    - eapply step_ADCloseF; eauto.
    - eapply step_AFTake; eauto.
    - eapply step_AFSeeClosed; eauto.
    - eapply step_AFPErr; eauto.
    - eapply step_AFDying; eauto.
    - eapply step_AFSend; eauto.
    - eapply step_AFTick; eauto.
    - eapply step_AFLSend; eauto.
    - eapply step_AFLDying; eauto.
    - eapply step_AFLEnd; eauto.
    - eapply step_AFResub; eauto.
    - eapply step_AFAck; eauto.
    - eapply step_AFCloseM; eauto.
    - eapply step_AFCloseE; eauto.
    - eapply step_ASMSeeClosed; eauto.
    - eapply step_ASMGive; eauto.
    - eapply step_ASMWait; eauto.
    - eapply step_ASMCloseWait; eauto.
    - eapply step_ASMFlush; eauto.
    - eapply step_ASMCloseNS; eauto.
    - eapply step_ASCWaitClosed; eauto.
    - eapply step_ASCRangeClosed; eauto.
    - eapply step_ASCUpd; eauto.
    - eapply step_ASCUpdClose; eauto.
    - eapply step_ASCLen; eauto.
    - eapply step_ASCFetch; eauto.
    - eapply step_ASCFeed; eauto.
    - eapply step_ASCAcks; eauto.
    - eapply step_ASCHandle; eauto.
    - eapply step_ASCHErr; eauto.
    - eapply step_ASCHTok; eauto.
    - eapply step_ASCHClose; eauto.
    - eapply step_ASCAbort; eauto.
    - eapply step_ASCAbErr; eauto.
    - eapply step_ASCAbTok; eauto.
    - eapply step_ASCAbNErr; eauto.
    - eapply step_ASCAbNTok; eauto.
  Qed.

  Lemma reach_inv c s : Reach (step c) (init c) s -> Inv s.
  Proof. apply reach_inv; [apply inv_init | apply inv_step]. Qed.

  (* every schedule, Close/AsyncClose at every moment: trigger, feeder, messages, errors, the worker's input,
     wait and newSubscriptions are closed at most once, nothing is sent on them after the close, acks never
     goes negative *)
  Theorem pc_no_panic : forall c l s, run (step c) (init c) l = Some s -> panic s = false.
  Proof. intros c l s H. apply b2n_0. apply (reach_inv c s). now exists l. Qed.

  (* messages / errors are closed by the feeder after its last send, the feeder channel by the dispatcher
     after it left its loop, and the trigger is closed when the dispatcher is about to leave *)
  Theorem pc_closed_after_last_event : forall c l s, run (step c) (init c) l = Some s ->
    (closed (msgs (ch s)) = true -> fp s = FCloseE \/ fp s = FDone) /\
    (closed (errs (ch s)) = true -> fp s = FDone) /\
    (feed_closed (ch s) = true -> dp s = DDone) /\
    (fp s = FCloseM \/ fp s = FCloseE \/ fp s = FDone -> feed_closed (ch s) = true /\ feed_full (ch s) = false).
  Proof.
    intros c l s H. assert (I : Inv s) by (apply (reach_inv c s); now exists l).
    destruct I. repeat split; intros.
    - rewrite H0 in i_msgs0. cbn in i_msgs0. destruct (fp s); cbn in *; auto; lia.
    - rewrite H0 in i_errs0. cbn in i_errs0. destruct (fp s); cbn in *; auto; lia.
    - rewrite H0 in i_fclosed0. cbn in i_fclosed0. destruct (dp s); cbn in *; auto; lia.
    - destruct i_fgone0 as [A B]. destruct (feed_closed (ch s)); auto. destruct H0 as [E|[E|E]]; rewrite E in A; cbn in A; lia.
    - destruct i_fgone0 as [A B]. destruct (feed_full (ch s)); auto. destruct H0 as [E|[E|E]]; rewrite E in B; cbn in B; lia.
  Qed.

  (* a second AsyncClose does nothing (closeOnce) *)
  Theorem pc_second_asyncclose_noop : forall c s s', once (ch s) = true -> step c s AAsyncClose = Some s' ->
    ch s' = ch s /\ dp s' = dp s /\ fp s' = fp s /\ w s' = w s /\ ap s' = ap s /\ panic s' = panic s.
  Proof.
    intros c s s' Ho H. scbn H. rewrite Ho in H. destruct (negb (calls s <? max_calls c)); [discriminate|].
    injection H as <-. cbn. repeat split; reflexivity.
  Qed.

  (* ---- site-level statements ---- *)
  Ltac site s :=
    intros;
    repeat match goal with
    | H : _ \/ _ |- _ => destruct H
    | H : exists _, _ |- _ => destruct H
    end;
    rew_eqs s; cbn in *;
    repeat match goal with |- _ /\ _ => split | |- _ <> _ => intro end;
    rew_eqs s; cbn in *;
    try (apply b2n_0); lia.

  (* whoever is about to send on a channel finds it open *)
  Theorem pc_no_send_on_closed : forall c l s, run (step c) (init c) l = Some s ->
    (* errors: dispatcher, feeder, broker worker (handleResponses / abort) *)
    ((dp s = DErr \/ fp s = FParseErr \/ (exists o, sc (w s) = SCHErr o) \/ sc (w s) = SCAbErr \/ sc (w s) = SCAbNErr) ->
       closed (errs (ch s)) = false) /\
    (* messages: the feeder *)
    ((exists n f, fp s = FMsgs n f) \/ (exists n, fp s = FLimbo n) -> closed (msgs (ch s)) = false) /\
    (* feeder channel: the broker worker *)
    (sc (w s) = SCFeed -> feed_closed (ch s) = false) /\
    (* trigger tokens: dispatcher, broker worker *)
    ((dp s = DTok \/ sc (w s) = SCHTok \/ sc (w s) = SCAbTok \/ sc (w s) = SCAbNTok) ->
       trig_closed (ch s) = false /\ trig_tok (ch s) = false) /\
    (* the worker's input: dispatcher and (after an expired hand-over) feeder *)
    ((dp s = DSub \/ fp s = FResub) -> in_closed (w s) = false).
  Proof.
    intros c l s H. assert (I : Inv s) by (apply (reach_inv c s); now exists l).
    destr_inv I. pose_specs s. unfold own in *.
    split; [site s|]. split; [site s|]. split; [site s|]. split; [site s|]. site s.
  Qed.

  (* whoever is about to close a channel finds it open: trigger is closed by the dispatcher (holding a
     token, dying closed) or by the broker worker holding the subscription — never by both —, feeder by the
     dispatcher, messages and errors by the feeder, the worker's input by the last unref, wait and
     newSubscriptions by the subscription manager *)
  Theorem pc_no_double_close : forall c l s, run (step c) (init c) l = Some s ->
    ((dp s = DSel \/ sc (w s) = SCUpdClose \/ sc (w s) = SCHClose) -> trig_closed (ch s) = false) /\
    (dp s = DCloseF -> feed_closed (ch s) = false) /\
    (fp s = FCloseM -> closed (msgs (ch s)) = false) /\
    (fp s = FCloseE -> closed (errs (ch s)) = false) /\
    (has_broker s = true -> in_closed (w s) = false) /\
    (sm (w s) = SMCloseWait -> wait_closed (w s) = false) /\
    (sm (w s) = SMCloseNS -> ns_closed (w s) = false) /\
    (* the two potential closers of trigger are never both positioned to close it *)
    (dp s = DSel -> sc (w s) <> SCUpdClose /\ sc (w s) <> SCHClose).
  Proof.
    intros c l s H. assert (I : Inv s) by (apply (reach_inv c s); now exists l).
    destr_inv I. pose_specs s. unfold own in *.
    split; [site s|]. split; [site s|]. split; [site s|]. split; [site s|]. split; [site s|].
    split; [site s|]. split; [site s|]. site s.
  Qed.
End PCS.
