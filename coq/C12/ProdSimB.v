(* C12 — async producer, simulation by the observer automaton, part 2: one lemma per action, by [ProdSim.sim_go]. *)
From Coq Require Import List Arith Bool Lia.
From SV Require Import C12.Lts C12.LtsProofs C12.Tac C12.Prod C12.ProdProofs C12.ProdSafety C12.ProdSim.
Import ListNotations. Import Prod. Import ProdP. Import ProdSim.

Lemma sim_ASMarker c s q s'  : R c s q -> step c s ASMarker = Some s' ->
  match lbl c ASMarker with None => R c s' q | Some o => exists q', ostep c q o = Some q' /\ R c s' q' end.
Proof. intros HR H. sim_go. Qed.
Lemma sim_ASWait c s q s'  : R c s q -> step c s ASWait = Some s' ->
  match lbl c ASWait with None => R c s' q | Some o => exists q', ostep c q o = Some q' /\ R c s' q' end.
Proof. intros HR H. sim_go. Qed.
Lemma sim_ASClient c s q s'  : R c s q -> step c s ASClient = Some s' ->
  match lbl c ASClient with None => R c s' q | Some o => exists q', ostep c q o = Some q' /\ R c s' q' end.
Proof. intros HR H. sim_go. Qed.
Lemma sim_ASCloseIn c s q s'  : R c s q -> step c s ASCloseIn = Some s' ->
  match lbl c ASCloseIn with None => R c s' q | Some o => exists q', ostep c q o = Some q' /\ R c s' q' end.
Proof. intros HR H. sim_go. Qed.
Lemma sim_ASCloseRet c s q s'  : R c s q -> step c s ASCloseRet = Some s' ->
  match lbl c ASCloseRet with None => R c s' q | Some o => exists q', ostep c q o = Some q' /\ R c s' q' end.
Proof. intros HR H. sim_go. Qed.
Lemma sim_ASCloseErr c s q s'  : R c s q -> step c s ASCloseErr = Some s' ->
  match lbl c ASCloseErr with None => R c s' q | Some o => exists q', ostep c q o = Some q' /\ R c s' q' end.
Proof. intros HR H. sim_go. Qed.
