(* C12 — Print Assumptions of the statements of Export.v, part 4 (see the header of Export.v). *)
From SV Require Import C12.Export.
Redirect "C12/Export_c12_consumer_terminates" Print Assumptions C12X.c12_consumer_terminates.
Redirect "C12/Export_c12_producer_terminates_partial" Print Assumptions C12X.c12_producer_terminates_partial.
