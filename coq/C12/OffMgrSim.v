(* C12 — offset manager: every observable behaviour of the LTS is accepted by the observer automaton. *)
From Coq Require Import List Arith Bool Lia.
From SV Require Import C12.Lts C12.LtsProofs C12.Tac C12.OffMgr C12.OffMgrProofs.
Import ListNotations.

Module OMSim.
  Import OM. Import OMP.

  Definition kidle (k : kpc) : bool := match k with KIdle => true | _ => false end.
  (* what the application has seen closed is closed and drained *)
  Definition seen_ok (p : pom) : Prop := seen_closed p = true -> closed (errs p) = true /\ len (errs p) = 0.

  Definition R (s : st) (q : os) : Prop :=
    Inv s /\ q_call q = negb (kidle (kc s)) /\ q_seen q = map seen_closed (poms s) /\ Forall seen_ok (poms s).

  Lemma R_init c : R (init c) (oinit (npom c)).
  Proof.
    unfold R. split; [apply inv_init|]. split; [reflexivity|]. split.
    - cbn. induction (npom c) as [|n IHn]; cbn; [reflexivity | f_equal; exact IHn].
    - cbn. apply forall_repeat. intro H. discriminate.
  Qed.

  Lemma map_upd_nth_same {A B} (g : A -> B) f : (forall x, g (f x) = g x) -> forall l i, map g (upd_nth i f l) = map g l.
  Proof. intros Hf l. induction l as [|x l IH]; intros [|i]; cbn; auto; rewrite ?Hf, ?IH; auto. Qed.

  Lemma map_upd_nth_set {A B} (g : A -> B) f b : (forall x, g (f x) = b) ->
    forall l i, map g (upd_nth i f l) = upd_nth i (fun _ => b) (map g l).
  Proof. intros Hf l. induction l as [|x l IH]; intros [|i]; cbn; auto; rewrite ?Hf, ?IH; auto. Qed.

  Lemma map_map_same {A B} (g : A -> B) f : (forall x, g (f x) = g x) -> forall l, map g (map f l) = map g l.
  Proof. intros Hf l. induction l; cbn; auto. rewrite Hf, IHl. auto. Qed.

  Lemma nth_error_map_some {A B} (g : A -> B) l i x : nth_error l i = Some x -> nth_error (map g l) i = Some (g x).
  Proof. revert i. induction l as [|y l IH]; intros [|i] H; cbn in *; try discriminate; auto. now injection H as ->. Qed.

  Lemma release1_seen force p : seen_closed (fst (release1 force p)) = seen_closed p.
  Proof. unfold release1. destruct (managed p && pdone p && (force || negb (dirty p))); auto. destruct (rel_once p); auto. Qed.

  Lemma release1_seen_ok force p : pom_ok p -> seen_ok p -> seen_ok (fst (release1 force p)).
  Proof.
    intros [Pm Pc] Hs. unfold seen_ok, release1 in *.
    destruct (managed p && pdone p && (force || negb (dirty p))) eqn:E; auto.
    destruct (rel_once p) eqn:Er; cbn; auto.
    intro Hx. destruct (Hs Hx) as [A B]. split; auto.
  Qed.

  Lemma forall2_map {A} (P Q : A -> Prop) f : (forall x, P x -> Q x -> Q (f x)) ->
    forall l, Forall P l -> Forall Q l -> Forall Q (map f l).
  Proof.
    intros Hf l HP HQ. induction l as [|x l IH]; cbn; constructor; inversion HP; inversion HQ; subst; auto.
  Qed.

  Lemma mkR s q : Inv s -> q_call q = negb (kidle (kc s)) -> q_seen q = map seen_closed (poms s) ->
    Forall seen_ok (poms s) -> R s q.
  Proof. unfold R. auto. Qed.

  Lemma set_flush_R s q f : R s q -> R (set_flush s f) q.
  Proof.
    intros (I & Q1 & Q2 & Fs). pose proof (set_flush_fields s f) as (F1 & _).
    apply mkR.
    - now apply set_flush_inv.
    - rewrite Q1. unfold set_flush. destruct (ml s) eqn:Em; try (destruct (kc s) eqn:Ek); cbn; rewrite ?Ek; cbn; auto.
    - now rewrite F1.
    - now rewrite F1.
  Qed.

  Lemma sim c s q a s' : R s q -> step c s a = Some s' ->
    match lbl a with None => R s' q | Some o => exists q', ostep q o = Some q' /\ R s' q' end.
  Proof.
    intros HR H. pose proof HR as (I & Q1 & Q2 & Fs).
    pose proof (inv_step c s a s' I H) as I'.
    pose proof I as (_ & _ & _ & _ & Hf).
    destruct a; scbn H; cbn [lbl].
    - (* AMark *) destruct (nth_error (poms s) i); [|discriminate]. injection H as <-.
      apply mkR; [exact I' | exact Q1 | |]; cbn.
      + rewrite Q2. symmetry. apply map_upd_nth_same. reflexivity.
      + apply forall_upd_nth; auto.
    - (* APomClose *) destruct (nth_error (poms s) i); [|discriminate]. injection H as <-.
      apply mkR; [exact I' | exact Q1 | |]; cbn.
      + rewrite Q2. symmetry. apply map_upd_nth_same. reflexivity.
      + apply forall_upd_nth; auto.
    - (* ATick *) destruct (ml s); try discriminate.
      destruct (closing_ch s); [destruct (fuel s); [discriminate|]|]; injection H as <-;
        (apply mkR; [exact I' | exact Q1 | exact Q2 | exact Fs]).
    - (* AMSeeClosing *) destruct (ml s); try discriminate. destruct (closing_ch s); [|discriminate].
      injection H as <-. apply mkR; [exact I' | exact Q1 | exact Q2 | exact Fs].
    - (* AMRel *) destruct (ml s); try discriminate. injection H as <-.
      apply mkR; [exact I' | exact Q1 | |]; cbn.
      + rewrite Q2. symmetry. apply map_map_same. intro x. apply release1_seen.
      + eapply forall2_map; [|exact Hf|exact Fs]. intros x. apply release1_seen_ok.
    - (* AFl *) destruct (cur_flush s) as [f|] eqn:Ef; [|discriminate].
      unfold flush_step in H. destruct f.
      + injection H as <-. now apply set_flush_R.
      + injection H as <-. now apply set_flush_R.
      + injection H as <-. now apply set_flush_R.
      + destruct (npom c <=? i); [injection H as <-; now apply set_flush_R|].
        destruct (nth_error (poms s) i) as [p|] eqn:En; [|injection H as <-; now apply set_flush_R].
        destruct (managed p && ret_err c) eqn:Em; [|injection H as <-; now apply set_flush_R].
        destruct (len (errs p) <? ecap c); [|discriminate]. injection H as <-.
        apply andb_true_iff in Em as [Em _].
        pose proof (nth_error_forall _ _ _ _ Hf En) as [Pm Pc]. rewrite Em in Pm.
        pose proof (set_flush_R s q (FlErrs (S i)) HR) as (_ & Q1' & _ & _).
        apply mkR; [exact I' | exact Q1' | |]; cbn.
        * rewrite Q2. symmetry. apply map_upd_nth_same. reflexivity.
        * eapply forall_upd_nth_at; eauto. unfold seen_ok, set_errs; cbn. intro Hx.
          destruct (nth_error_forall _ _ _ _ Fs En Hx) as [A _]. rewrite Pc in A. destruct (rel_once p); cbn in *; congruence.
      + injection H as <-. apply set_flush_R. apply mkR; [| exact Q1 | |]; cbn.
        * apply inv_set_poms; auto. apply forall_map; auto. intros x [X1 X2].
          destruct (managed x) eqn:Emx; unfold pom_ok, set_dirty; cbn; split; congruence.
        * rewrite Q2. symmetry. apply map_map_same. intro x. destruct (managed x); reflexivity.
        * apply forall_map; auto. intros x Hx. destruct (managed x); auto.
      + destruct (ml s) eqn:Em; try (destruct (kc s) eqn:Ek); try discriminate; injection H as <-;
          (apply mkR; [exact I' | cbn; rewrite Q1, ?Ek; reflexivity | exact Q2 | exact Fs]).
    - (* AFlHand *) destruct (cur_flush s) as [[| | |j| |]|] eqn:Ef; try discriminate.
      destruct (negb (j =? i)) eqn:Eji; [discriminate|]. apply negb_false_iff, Nat.eqb_eq in Eji. subst j.
      destruct (npom c <=? i); [discriminate|].
      destruct (nth_error (poms s) i) as [p|] eqn:En; [|discriminate].
      destruct (managed p && ret_err c && (len (errs p) =? 0)) eqn:Em; [|discriminate]. injection H as <-.
      apply andb_true_iff in Em as [Em _]. apply andb_true_iff in Em as [Em _].
      pose proof (nth_error_forall _ _ _ _ Hf En) as [Pm Pc]. rewrite Em in Pm.
      assert (Hseen : seen_closed p = false).
      { destruct (seen_closed p) eqn:Es; auto. destruct (nth_error_forall _ _ _ _ Fs En Es) as [A _].
        rewrite Pc in A. destruct (rel_once p); cbn in *; congruence. }
      exists q. split.
      + unfold ostep. rewrite Q2. rewrite (nth_error_map_some seen_closed _ _ _ En). now rewrite Hseen.
      + pose proof (set_flush_R s q (FlErrs (S i)) HR) as (_ & Q1' & _ & _).
        apply mkR; [exact I' | exact Q1' | exact Q2 | exact Fs].
    - (* ACall *) destruct (kc s) eqn:Ek; try discriminate.
      destruct (negb (calls s <? max_calls c)); [discriminate|].
      cbn in Q1.
      destruct (once s); injection H as <-; (eexists; split; [unfold ostep; rewrite Q1; reflexivity|]);
        (apply mkR; [exact I' | cbn; destruct (auto c); reflexivity | exact Q2 | exact Fs]).
    - (* AKWaited *) destruct (kc s) eqn:Ek; try discriminate. destruct (closed_ch s); [|discriminate].
      injection H as <-. apply mkR; [exact I' | cbn; rewrite Q1; reflexivity | exact Q2 | exact Fs].
    - (* AKAsync *) destruct (kc s) eqn:Ek; try discriminate. injection H as <-.
      apply mkR; [exact I' | | |]; cbn.
      + rewrite Q1. destruct (auto c); reflexivity.
      + rewrite Q2. symmetry. apply map_map_same. reflexivity.
      + apply forall_map; auto.
    - (* AKRel *) destruct (kc s) eqn:Ek; try discriminate. injection H as <-.
      apply mkR; [exact I' | | |]; cbn.
      + rewrite Q1. destruct ((remaining _ =? 0) || _); reflexivity.
      + rewrite Q2. symmetry. apply map_map_same. intro x. apply release1_seen.
      + eapply forall2_map; [|exact Hf|exact Fs]. intros x. apply release1_seen_ok.
    - (* AKForce *) destruct (kc s) eqn:Ek; try discriminate. injection H as <-.
      apply mkR; [exact I' | | |]; cbn.
      + rewrite Q1. reflexivity.
      + rewrite Q2. symmetry. apply map_map_same. intro x. apply release1_seen.
      + eapply forall2_map; [|exact Hf|exact Fs]. intros x. apply release1_seen_ok.
    - (* ARet *) destruct (kc s) eqn:Ek; try discriminate. injection H as <-. cbn in Q1.
      eexists; split; [unfold ostep; rewrite Q1; reflexivity|].
      apply mkR; [exact I' | reflexivity | exact Q2 | exact Fs].
    - (* ARecv *) destruct (nth_error (poms s) i) as [p|] eqn:En; [|discriminate].
      destruct (len (errs p)) eqn:El; [discriminate|]. injection H as <-.
      assert (Hseen : seen_closed p = false).
      { destruct (seen_closed p) eqn:Es; auto. destruct (nth_error_forall _ _ _ _ Fs En Es) as [_ B]. lia. }
      exists q. split.
      + unfold ostep. rewrite Q2. rewrite (nth_error_map_some seen_closed _ _ _ En). now rewrite Hseen.
      + apply mkR; [exact I' | exact Q1 | |]; cbn.
        * rewrite Q2. symmetry. apply map_upd_nth_same. reflexivity.
        * eapply forall_upd_nth_at; eauto. unfold seen_ok, set_errs; cbn. rewrite Hseen. discriminate.
    - (* ASeeClosed *) destruct (nth_error (poms s) i) as [p|] eqn:En; [|discriminate].
      destruct (closed (errs p) && (len (errs p) =? 0) && negb (seen_closed p)) eqn:Eb; [|discriminate]. injection H as <-.
      apply andb_true_iff in Eb as [Eb Es]. apply andb_true_iff in Eb as [Ec El].
      apply negb_true_iff in Es. apply Nat.eqb_eq in El.
      eexists. split.
      + unfold ostep. rewrite Q2. rewrite (nth_error_map_some seen_closed _ _ _ En). rewrite Es. reflexivity.
      + apply mkR; [exact I' | exact Q1 | |]; cbn.
        * rewrite ?Q2. symmetry. apply map_upd_nth_set. reflexivity.
        * eapply forall_upd_nth_at; eauto. unfold seen_ok, set_seen; cbn. auto.
  Qed.

  Theorem om_trace_accepted : forall c l s, run (step c) (init c) l = Some s -> accepts c (trace lbl l) = true.
  Proof.
    intros c l s H. unfold accepts.
    eapply (sim_accepts (step c) lbl ostep R (sim c)); [apply R_init | exact H].
  Qed.
End OMSim.
