(* C12 — consumer group, simulation by the observer automaton, part 1: one lemma per action, by [GrpSim.sim_go]. *)
From Coq Require Import List Arith Bool Lia.
From SV Require Import C12.Lts C12.LtsProofs C12.Tac C12.Group C12.GroupProofs C12.GroupSafety C12.GroupSim.
Import ListNotations. Import Grp. Import GrpP. Import GrpSim.

Lemma sim_AKCall c s q s'  : (elock c = true \/ ~ GrpS.racy s AKCall) -> R s q -> step c s AKCall = Some s' ->
  match lbl AKCall with None => R s' q | Some o => exists q', ostep q o = Some q' /\ R s' q' end.
Proof. intros G HR H. sim_go. Qed.
Lemma sim_AKRet c s q s' r : (elock c = true \/ ~ GrpS.racy s (AKRet r)) -> R s q -> step c s (AKRet r) = Some s' ->
  match lbl (AKRet r) with None => R s' q | Some o => exists q', ostep q o = Some q' /\ R s' q' end.
Proof. intros G HR H. sim_go. Qed.
Lemma sim_ACCall c s q s'  : (elock c = true \/ ~ GrpS.racy s ACCall) -> R s q -> step c s ACCall = Some s' ->
  match lbl ACCall with None => R s' q | Some o => exists q', ostep q o = Some q' /\ R s' q' end.
Proof. intros G HR H. sim_go. Qed.
Lemma sim_ACRet c s q s' r : (elock c = true \/ ~ GrpS.racy s (ACRet r)) -> R s q -> step c s (ACRet r) = Some s' ->
  match lbl (ACRet r) with None => R s' q | Some o => exists q', ostep q o = Some q' /\ R s' q' end.
Proof. intros G HR H. sim_go. Qed.
Lemma sim_ARecvErr c s q s'  : (elock c = true \/ ~ GrpS.racy s ARecvErr) -> R s q -> step c s ARecvErr = Some s' ->
  match lbl ARecvErr with None => R s' q | Some o => exists q', ostep q o = Some q' /\ R s' q' end.
Proof. intros G HR H. sim_go. Qed.
Lemma sim_ASeeClosed c s q s'  : (elock c = true \/ ~ GrpS.racy s ASeeClosed) -> R s q -> step c s ASeeClosed = Some s' ->
  match lbl ASeeClosed with None => R s' q | Some o => exists q', ostep q o = Some q' /\ R s' q' end.
Proof. intros G HR H. sim_go. Qed.
Lemma sim_AKCloseCh c s q s'  : (elock c = true \/ ~ GrpS.racy s AKCloseCh) -> R s q -> step c s AKCloseCh = Some s' ->
  match lbl AKCloseCh with None => R s' q | Some o => exists q', ostep q o = Some q' /\ R s' q' end.
Proof. intros G HR H. sim_go. Qed.
Lemma sim_AKLeaveLock c s q s'  : (elock c = true \/ ~ GrpS.racy s AKLeaveLock) -> R s q -> step c s AKLeaveLock = Some s' ->
  match lbl AKLeaveLock with None => R s' q | Some o => exists q', ostep q o = Some q' /\ R s' q' end.
Proof. intros G HR H. sim_go. Qed.
