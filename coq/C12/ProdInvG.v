(* C12 — preservation of the producer invariant (ProdProofs.Inv), part 7: one lemma per action, by [ProdP.go]. *)
From Coq Require Import List Arith Bool Lia.
From SV Require Import C12.Lts C12.LtsProofs C12.Tac C12.Prod C12.ProdProofs.
Import ListNotations. Import Prod. Import ProdP.

Lemma step_APFlush c s s'  : Inv s -> step c s APFlush = Some s' -> Inv s'.
Proof. intros I H. go s H I. Qed.
Lemma step_APSeeClosed c s s'  : Inv s -> step c s APSeeClosed = Some s' -> Inv s'.
Proof. intros I H. go s H I. Qed.
Lemma step_APExit c s s'  : Inv s -> step c s APExit = Some s' -> Inv s'.
Proof. intros I H. go s H I. Qed.
Lemma step_ABSyn c s s'  : Inv s -> step c s ABSyn = Some s' -> Inv s'.
Proof. intros I H. go s H I. Qed.
Lemma step_ABKeep c s s'  : Inv s -> step c s ABKeep = Some s' -> Inv s'.
Proof. intros I H. go s H I. Qed.
Lemma step_ABNeedSpace c s s'  : Inv s -> step c s ABNeedSpace = Some s' -> Inv s'.
Proof. intros I H. go s H I. Qed.
