(* C12 — partition consumer: progress of the shutdown.  After AsyncClose/Close (dying closed) a state in which
   no step is enabled is final: dispatcher, feeder, subscription manager and subscription consumer have all
   returned and messages / errors are closed.  (Deadlock freedom; the other half of termination — no
   infinite run — is PConsMeasure.v / PConsTerminates.v.) *)
From Coq Require Import List Arith Bool Lia.
From SV Require Import C12.Lts C12.LtsProofs C12.Tac C12.PCons C12.PConsProofs C12.PConsInv_01 C12.PConsInv_02 C12.PConsSafety.
Import ListNotations.

Module PCT.
  Import PC. Import PCP.

  (* ---- additional invariant: what has been closed / left stays consistent ---- *)
  Definition dDF (d : dpc) : nat := match d with DCloseF | DDone => 1 | _ => 0 end.
  Definition cQ (p : scpc) : nat := match p with SCFirst | SCIdle | SCAbLoop | SCAbWait | SCDone => 1 | _ => 0 end.  (* no subscription held *)
  Definition cDn (p : scpc) : nat := match p with SCDone => 1 | _ => 0 end.
  Lemma cQ_spec p : cQ p + cS p <= 1 /\ cQ p + nI p <= 1 /\ cDn p <= cQ p. Proof. destruct p; cbn; lia. Qed.

  Record Inv3 (s : st) : Prop := {
    k_q : cQ (sc (w s)) + b2n (subs (w s)) <= 1;
    k_dd : dD (dp s) <= b2n (feed_closed (ch s));
    k_fe : fE (fp s) <= b2n (closed (msgs (ch s)));
    k_fd : fD (fp s) <= b2n (closed (errs (ch s)));
    k_m2 : m2 (sm (w s)) <= b2n (wait_closed (w s));
    k_m4 : m4 (sm (w s)) <= b2n (ns_closed (w s));
    k_hb : dDF (dp s) + b2n (has_broker s) <= 1;
    k_scd : cDn (sc (w s)) <= b2n (ns_closed (w s))
  }.

  Lemma inv3_init c : Inv3 (init c).
  Proof. constructor; cbn; lia. Qed.

  Ltac kgo :=
    match goal with K : Inv3 ?s, I : Inv ?s, H : step _ ?s _ = Some _ |- _ =>
      scbn H; unfold send_err, send_msg, put_token, w_unref, parse_ok, draining in H;
      step_cases H; pair_cases; bool_hyps; pair_cases; bool_hyps;
      match goal with K : Inv3 ?sx, I : Inv ?sx |- _ =>
        destruct K as [K1 K2 K3 K4 K5 K6 K7 K8]; destr_inv I; pose_specs sx; pose proof (cQ_spec (sc (w sx)));
        unf; rew_eqs sx; cbn in *;
        (constructor; unf; cbn; rew_eqs sx; cbn; try lia; bool_goal; try lia)
      end
    end.

  (* ---- progress ---- *)
  (* with an empty errors buffer and the application (or its Close()) receiving, sendError never blocks *)
  Lemma send_err_en c s : len (errs (ch s)) = 0 -> (ap s = ApIdle \/ exists n, ap s = ApDrain n) ->
    exists h, send_err c s h <> None.
  Proof.
    intros L A. unfold send_err. destruct (ret_err c); [|exists HBuf; discriminate].
    destruct (cap c) eqn:Ec.
    - destruct A as [A|[n A]]; rewrite A, L; cbn.
      + exists HApp. discriminate.
      + exists HClose. discriminate.
    - exists HBuf. rewrite L. cbn. discriminate.
  Qed.

  Ltac en Hs a := let X := fresh "X" in pose proof (Hs a) as X; cbn -[send_err put_token w_unref Nat.ltb Nat.leb Nat.eqb] in X.

  Lemma stuck_final c s : Inv s -> Inv3 s -> dying (ch s) = true -> stuck (step c) s -> final s.
  Proof.
    intros I K P Hs.
    (* the application has taken everything that was delivered and is not inside a returning Close() *)
    assert (Lm : len (msgs (ch s)) = 0).
    { destruct (len (msgs (ch s))) eqn:E; auto. exfalso. en Hs ARecvMsg. rewrite E in X. discriminate. }
    assert (Ap : ap s = ApIdle \/ exists n, ap s = ApDrain n).
    { destruct (ap s) eqn:E; eauto. exfalso. en Hs (ARet n). rewrite E, Nat.eqb_refl in X. discriminate. }
    assert (Le : len (errs (ch s)) = 0).
    { destruct (len (errs (ch s))) eqn:E; auto. exfalso. destruct Ap as [A|[n0 A]].
      - en Hs ARecvErr. rewrite A, E in X. discriminate.
      - en Hs ACloseRecv. rewrite A, E in X. discriminate. }
    destruct (send_err_en c s Le Ap) as [hh SE].
    destr_inv I. destruct K as [K1 K2 K3 K4 K5 K6 K7 K8]. pose_specs s. pose proof (cQ_spec (sc (w s))).
    unfold own in *.
    (* the feeder is waiting for a response or has returned *)
    assert (F : fp s = FWait \/ fp s = FDone).
    { destruct (fp s) eqn:E; auto; exfalso.
      - en Hs (AFPErr hh). rewrite E in X. destruct (send_err c s hh) as [[[? ?] ?]|] eqn:Es; [discriminate|congruence].
      - en Hs AFDying. rewrite E, P in X. discriminate.
      - destruct n.
        + en Hs AFLEnd. rewrite E in X. discriminate.
        + en Hs AFLDying. rewrite E, P in X. discriminate.
      - (* FResub: the manager is in its loop *)
        rewrite ?E in *; cbn in *.
        assert (Hb : has_broker s = true) by (destruct (has_broker s); cbn in *; auto; lia).
        rewrite Hb in *; cbn in *.
        destruct (sm (w s)) eqn:Es; cbn in *; try lia.
        en Hs AFResub. rewrite E, Es in X. discriminate.
      - en Hs AFAck. rewrite E in X. discriminate.
      - en Hs AFCloseM. rewrite E in X. discriminate.
      - en Hs AFCloseE. rewrite E in X. discriminate. }
    (* the subscription consumer is at a blocking operation (or in acks.Wait with the feeder still busy) *)
    assert (C : cQ (sc (w s)) = 1 \/ sc (w s) = SCRange \/ (sc (w s) = SCAcks /\ acks (w s) <> 0)).
    { destruct (sc (w s)) eqn:E; cbn; auto.
      all: try (match goal with |- _ \/ _ \/ (SCAcks = SCAcks /\ _) =>
                  destruct (acks (w s)) eqn:Ea; [|right; right; split; [reflexivity|lia]] end).
      all: exfalso.
      - en Hs ASCUpd. rewrite E in X. discriminate.
      - en Hs ASCUpdClose. rewrite E in X. discriminate.
      - en Hs ASCLen. rewrite E in X. discriminate.
      - en Hs (ASCFetch true). rewrite E in X. discriminate.
      - rewrite ?E in *; cbn in *. en Hs ASCFeed. rewrite E in X.
        assert (Ff : feed_full (ch s) = false) by (destruct (feed_full (ch s)); cbn in *; auto; lia).
        rewrite Ff in X. discriminate.
      - en Hs ASCAcks. rewrite E, Ea in X. discriminate.
      - en Hs (ASCHandle false). rewrite E in X. destruct (rres s); discriminate.
      - en Hs (ASCHErr hh). rewrite E in X. destruct (send_err c s hh) as [[[? ?] ?]|] eqn:Es; [discriminate|congruence].
      - rewrite ?E in *; cbn in *. en Hs ASCHTok. rewrite E in X. unfold put_token in X.
        assert (T1 : trig_closed (ch s) = false) by (destruct (trig_closed (ch s)); cbn in *; auto; lia).
        assert (T2 : trig_tok (ch s) = false) by (destruct (trig_tok (ch s)); cbn in *; auto; lia).
        rewrite T1, T2 in X. discriminate.
      - en Hs ASCHClose. rewrite E in X. discriminate.
      - en Hs ASCAbort. rewrite E in X. discriminate.
      - en Hs (ASCAbErr hh). rewrite E in X. destruct (send_err c s hh) as [[[? ?] ?]|] eqn:Es; [discriminate|congruence].
      - rewrite ?E in *; cbn in *. en Hs ASCAbTok. rewrite E in X. unfold put_token in X.
        assert (T1 : trig_closed (ch s) = false) by (destruct (trig_closed (ch s)); cbn in *; auto; lia).
        assert (T2 : trig_tok (ch s) = false) by (destruct (trig_tok (ch s)); cbn in *; auto; lia).
        rewrite T1, T2 in X. discriminate.
      - en Hs (ASCAbNErr hh). rewrite E in X. destruct (send_err c s hh) as [[[? ?] ?]|] eqn:Es; [discriminate|congruence].
      - rewrite ?E in *; cbn in *. en Hs ASCAbNTok. rewrite E in X. unfold put_token in X.
        assert (T1 : trig_closed (ch s) = false) by (destruct (trig_closed (ch s)); cbn in *; auto; lia).
        assert (T2 : trig_tok (ch s) = false) by (destruct (trig_tok (ch s)); cbn in *; auto; lia).
        rewrite T1, T2 in X. discriminate. }
    (* the dispatcher is waiting for a trigger token or has returned *)
    assert (D : dp s = DDone \/ (dp s = DWait /\ trig_tok (ch s) = false /\ trig_closed (ch s) = false)).
    { destruct (dp s) eqn:E.
      - destruct (trig_tok (ch s)) eqn:Et.
        + exfalso. en Hs ADTake. rewrite E, Et in X. discriminate.
        + destruct (trig_closed (ch s)) eqn:Ec.
          * exfalso. en Hs ADSeeClosed. rewrite E, Ec, Et in X. discriminate.
          * right. auto.
      - exfalso. en Hs ADDying. rewrite E, P in X. discriminate.
      - exfalso. en Hs ADUnref. rewrite E in X. destruct (has_broker s); [destruct (w_unref (w s))|]; discriminate.
      - exfalso. en Hs (ADNet false). rewrite E in X. discriminate.
      - exfalso. rewrite ?E in *; cbn in *.
        assert (Hb : has_broker s = true) by (destruct (has_broker s); cbn in *; auto; lia).
        rewrite Hb in *; cbn in *.
        destruct (sm (w s)) eqn:Es; cbn in *; try lia.
        en Hs ADSub. rewrite E, Es in X. discriminate.
      - exfalso. en Hs (ADErr hh). rewrite E in X. destruct (send_err c s hh) as [[[? ?] ?]|] eqn:Es; [discriminate|congruence].
      - exfalso. rewrite ?E in *; cbn in *. en Hs ADTok. rewrite E in X. unfold put_token in X.
        assert (T1 : trig_closed (ch s) = false) by (destruct (trig_closed (ch s)); cbn in *; auto; lia).
        assert (T2 : trig_tok (ch s) = false) by (destruct (trig_tok (ch s)); cbn in *; auto; lia).
        rewrite T1, T2 in X. discriminate.
      - exfalso. en Hs ADExit. rewrite E in X. destruct (has_broker s); [destruct (w_unref (w s))|]; discriminate.
      - exfalso. en Hs ADCloseF. rewrite E in X. discriminate.
      - left. reflexivity. }
    destruct D as [Dd | (Dw & Tt & Tc)].
    2: { (* the dispatcher waits: somebody else owns the child, and can move *)
      exfalso. rewrite Dw, Tt, Tc in *; cbn in *.
      destruct F as [Fw|Fd]; [rewrite Fw in *|rewrite Fd in *]; cbn in *; try lia.
      assert (Hb : has_broker s = true) by (destruct (has_broker s); cbn in *; auto; lia).
      rewrite Hb in *; cbn in *.
      assert (Sm : sm (w s) = SMLoop) by (destruct (sm (w s)); cbn in *; auto; lia).
      destruct C as [Cq|[Cr|[Ca Ck]]].
      - assert (Bf : buf (w s) = true) by (destruct (buf (w s)); cbn in *; auto; lia).
        destruct (sc (w s)) eqn:E; cbn in Cq; try discriminate; cbn in *.
        + en Hs ASMWait. rewrite Sm, Bf, E in X. discriminate.
        + en Hs ASMWait. rewrite Sm, Bf, E in X. discriminate.
        + en Hs ASMGive. rewrite Sm, E in X. discriminate.
        + en Hs ASMWait. rewrite Sm, Bf, E in X. discriminate.
        + rewrite Sm in *; cbn in *. lia.
      - en Hs ASMGive. rewrite Sm, Cr in X. discriminate.
      - rewrite Ca in *; cbn in *.
        assert (Ff : feed_full (ch s) = true) by (destruct (feed_full (ch s)); cbn in *; auto; lia).
        en Hs (AFTake RNone 0 false). rewrite Fw, Ff in X. cbn in X. discriminate. }
    (* the dispatcher has returned *)
    rewrite Dd in *; cbn in *.
    assert (Fd : fp s = FDone).
    { destruct F as [Fw|Fd]; auto. exfalso. rewrite Fw in *; cbn in *.
      destruct (feed_full (ch s)) eqn:Ef.
      - en Hs (AFTake RNone 0 false). rewrite Fw, Ef in X. cbn in X. discriminate.
      - en Hs AFSeeClosed. rewrite Fw, Ef in X.
        assert (Fc : feed_closed (ch s) = true) by (destruct (feed_closed (ch s)); cbn in *; auto; lia).
        rewrite Fc in X. discriminate. }
    rewrite Fd in *; cbn in *.
    assert (Sm : sm (w s) = SMDone).
    { destruct (sm (w s)) eqn:E; auto; exfalso; cbn in *.
      - en Hs ASMSeeClosed. rewrite E in X.
        assert (Ic : in_closed (w s) = true) by (destruct (in_closed (w s)); destruct (has_broker s); cbn in *; auto; lia).
        rewrite Ic in X. discriminate.
      - en Hs ASMCloseWait. rewrite E in X. discriminate.
      - lia.
      - en Hs ASMCloseNS. rewrite E in X. discriminate. }
    rewrite Sm in *; cbn in *.
    assert (Wc : wait_closed (w s) = true) by (destruct (wait_closed (w s)); cbn in *; auto; lia).
    assert (Nc : ns_closed (w s) = true) by (destruct (ns_closed (w s)); cbn in *; auto; lia).
    assert (Sc : sc (w s) = SCDone).
    { destruct C as [Cq|[Cr|[Ca Ck]]].
      - destruct (sc (w s)) eqn:E; cbn in Cq; try discriminate; auto; exfalso.
        + en Hs ASCWaitClosed. rewrite Wc, E in X. discriminate.
        + en Hs ASCWaitClosed. rewrite Wc, E in X. discriminate.
        + en Hs ASCRangeClosed. rewrite Nc, E in X. discriminate.
        + en Hs ASCWaitClosed. rewrite Wc, E in X. discriminate.
      - exfalso. en Hs ASCRangeClosed. rewrite Nc, Cr in X. discriminate.
      - exfalso. rewrite Ca in *; cbn in *. lia. }
    unfold final. rewrite Dd, Fd, Sm, Sc.
    assert (Mc : closed (msgs (ch s)) = true) by (destruct (closed (msgs (ch s))); cbn in *; auto; lia).
    assert (Ec : closed (errs (ch s)) = true) by (destruct (closed (errs (ch s))); cbn in *; auto; lia).
    repeat split; auto.
  Qed.
End PCT.
