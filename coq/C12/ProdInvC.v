(* C12 — preservation of the producer invariant (ProdProofs.Inv), part 3: one lemma per action, by [ProdP.go]. *)
From Coq Require Import List Arith Bool Lia.
From SV Require Import C12.Lts C12.LtsProofs C12.Tac C12.Prod C12.ProdProofs.
Import ListNotations. Import Prod. Import ProdP.

Lemma step_ASCloseSucc c s s'  : Inv s -> step c s ASCloseSucc = Some s' -> Inv s'.
Proof. intros I H. go s H I. Qed.
Lemma step_ADErr c s s' k : Inv s -> step c s (ADErr k) = Some s' -> Inv s'.
Proof. intros I H. go s H I. Qed.
Lemma step_ADNewTp c s s'  : Inv s -> step c s ADNewTp = Some s' -> Inv s'.
Proof. intros I H. go s H I. Qed.
Lemma step_ADFwd c s s' hand : Inv s -> step c s (ADFwd hand) = Some s' -> Inv s'.
Proof. intros I H. go s H I. Qed.
Lemma step_ADSeeClosed c s s'  : Inv s -> step c s ADSeeClosed = Some s' -> Inv s'.
Proof. intros I H. go s H I. Qed.
Lemma step_ADCloseH c s s'  : Inv s -> step c s ADCloseH = Some s' -> Inv s'.
Proof. intros I H. go s H I. Qed.
