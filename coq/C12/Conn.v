(* C12 — shutdown models of the client (client.go: Close, Closed, backgroundMetadataUpdater) and of a
   broker connection (broker.go: Open, Close, send, responseReceiver).  Definitions only. *)
From Coq Require Import List Arith Bool.
From SV Require Import C12.Lts.
Import ListNotations.

(* API / result numbering used in the observations of both models *)
Definition fClose : nat := 0.
Definition rNil : nat := 0.
Definition rErrClosedClient : nat := 1.
Definition rErrNotConnected : nat := 2.

(* =============================================================================================
   Client.
     Close():  if Closed() { return ErrClosedClient }         -- Closed() = (brokers == nil), under lock
               close(client.closer); <-client.closed          -- stop the background updater
               lock; close broker connections; brokers = nil; unlock; return nil
     backgroundMetadataUpdater():  defer close(client.closed)
               if RefreshFrequency == 0 { return }
               for { select { case <-ticker.C: refreshMetadata() (network);  case <-closer: return } }
   The application calls Close sequentially (a second call starts after the first returned);
   concurrent calls of Close are outside the property.  [c_fuel] bounds how often the updater's select
   prefers the ticker although [closer] is already closed (fairness; arbitrary). *)
Module Client.
  Record cfg := { refresh_on : bool; c_fuel : nat; max_calls : nat (* Close calls the application makes *) }.

  Inductive upc := USel | UNet | UDone.                 (* background updater *)
  Inductive cpc := CIdle | CWait | CFin | CRet (r : nat). (* the application's Close call *)

  Record st := {
    closer : bool;        (* client.closer closed *)
    closedch : bool;      (* client.closed closed *)
    brokers_nil : bool;   (* client.brokers == nil : the closed flag *)
    up : upc;
    cl : cpc;
    calls : nat;          (* Close calls started so far *)
    fuel : nat;
    panic : bool }.

  Definition init (c : cfg) : st :=
    {| closer := false; closedch := false; brokers_nil := false; up := USel; cl := CIdle; calls := 0;
       fuel := c_fuel c; panic := false |}.

  Inductive act :=
  | ACall            (* application calls Close *)
  | AWaited          (* Close: <-client.closed returned *)
  | AFin             (* Close: lock; brokers = nil; unlock *)
  | ARet (r : nat)   (* application sees Close return with result r *)
  | ATick            (* updater: ticker case *)
  | ANetDone         (* updater: refreshMetadata returned (result irrelevant) *)
  | ASeeCloser       (* updater: closer case -> return -> deferred close(closed) *)
  | AUpExit.         (* updater with RefreshFrequency == 0: return at once -> close(closed) *)

  Definition set_up (s : st) (u : upc) : st :=
    {| closer := closer s; closedch := closedch s; brokers_nil := brokers_nil s; up := u; cl := cl s;
       calls := calls s; fuel := fuel s; panic := panic s |}.
  Definition set_cl (s : st) (c : cpc) : st :=
    {| closer := closer s; closedch := closedch s; brokers_nil := brokers_nil s; up := up s; cl := c;
       calls := calls s; fuel := fuel s; panic := panic s |}.

  Definition step (c : cfg) (s : st) (a : act) : option st :=
    match a with
    | ACall =>
      match cl s with
      | CIdle =>
        if negb (calls s <? max_calls c) then None else
        if brokers_nil s then
          Some {| closer := closer s; closedch := closedch s; brokers_nil := true; up := up s;
                  cl := CRet rErrClosedClient; calls := S (calls s); fuel := fuel s; panic := panic s |}
        else
          (* close(client.closer): closing it twice panics *)
          Some {| closer := true; closedch := closedch s; brokers_nil := false; up := up s;
                  cl := CWait; calls := S (calls s); fuel := fuel s; panic := panic s || closer s |}
      | _ => None
      end
    | AWaited => match cl s with CWait => if closedch s then Some (set_cl s CFin) else None | _ => None end
    | AFin =>
      match cl s with
      | CFin => Some {| closer := closer s; closedch := closedch s; brokers_nil := true; up := up s;
                        cl := CRet rNil; calls := calls s; fuel := fuel s; panic := panic s |}
      | _ => None
      end
    | ARet r => match cl s with CRet r' => if Nat.eqb r r' then Some (set_cl s CIdle) else None | _ => None end
    | ATick =>
      match up s with
      | USel =>
        if refresh_on c then
          if closer s then
            match fuel s with
            | 0 => None
            | S f => Some {| closer := closer s; closedch := closedch s; brokers_nil := brokers_nil s;
                             up := UNet; cl := cl s; calls := calls s; fuel := f; panic := panic s |}
            end
          else Some (set_up s UNet)
        else None
      | _ => None
      end
    | ANetDone => match up s with UNet => Some (set_up s USel) | _ => None end
    | ASeeCloser =>
      match up s with
      | USel =>
        if refresh_on c && closer s then
          Some {| closer := closer s; closedch := true; brokers_nil := brokers_nil s; up := UDone;
                  cl := cl s; calls := calls s; fuel := fuel s; panic := panic s || closedch s |}
        else None
      | _ => None
      end
    | AUpExit =>
      match up s with
      | USel =>
        if refresh_on c then None else
          Some {| closer := closer s; closedch := true; brokers_nil := brokers_nil s; up := UDone;
                  cl := cl s; calls := calls s; fuel := fuel s; panic := panic s || closedch s |}
      | _ => None
      end
    end.

  (* visible: the call, and the return with its result *)
  Definition lbl (a : act) : option obs :=
    match a with
    | ACall => Some (OCall fClose)
    | ARet r => Some (ORet fClose r)
    | _ => None
    end.

  (* observer automaton: Call Ret(nil) (Call Ret(ErrClosedClient))*  and its prefixes *)
  Inductive os := QOpen | QCalling1 | QClosed | QCallingN.
  Definition ostep (q : os) (o : obs) : option os :=
    match q, o with
    | QOpen, OCall 0 => Some QCalling1
    | QCalling1, ORet 0 0 => Some QClosed
    | QClosed, OCall 0 => Some QCallingN
    | QCallingN, ORet 0 1 => Some QClosed
    | _, _ => None
    end.
  Definition accepts (l : list obs) : bool := oaccepts ostep QOpen l.

  (* shutdown phase and final states *)
  Definition closing (s : st) : Prop := calls s <> 0.
  Definition final (s : st) : Prop :=
    brokers_nil s = true /\ closedch s = true /\ up s = UDone /\ cl s = CIdle.
End Client.

(* =============================================================================================
   Broker connection.  Every public operation holds b.lock for its whole duration:
     Open():   CAS opened 0->1; lock; go { dial (failure: conn = nil, unlock);
               with Net.SASL.Enable: authenticateViaSASL() on the new connection (handshake / auth round trips;
               failure: conn.Close(), conn = nil, unlock — responses / done are NOT created);
               responses = make(chan, MaxOpenRequests-1), done = make(chan); go responseReceiver(); unlock }
     send():   lock; if conn == nil { return ErrNotConnected }; write; b.responses <- promise; unlock
     Close():  lock; if conn == nil { return ErrNotConnected }; close(b.responses); <-b.done;
               conn.Close(); conn = nil; ...; unlock
     responseReceiver():  for p := range b.responses { read the response (or fail it at once when the
               connection is already dead); hand the result to the caller }   ; close(b.done)
   Callers wait for their result in a select on the promise's two channels, so the hand-over never
   blocks.  Reads have a deadline (Net.ReadTimeout): a network wait always ends. *)
Module Broker.
  Record cfg := { cap : nat (* MaxOpenRequests - 1 *); bmax : nat (* Close calls the application makes *);
                  sasl : bool (* Net.SASL.Enable *) }.

  Inductive lockpc :=
  | LFree
  | LDial            (* Open's goroutine is dialing, holding the lock *)
  | LAuth            (* dialled (conn != nil), SASL handshake / authentication in progress, still holding the lock;
                        responses / done do not exist yet and no receiver runs *)
  | LSend            (* send(): wrote the request, blocked on b.responses <- promise *)
  | LClose           (* Close(): closed b.responses, blocked on <-b.done *)
  | LCloseFin.       (* Close(): done received; conn.Close(), conn = nil *)
  Inductive rpc := RNone | RIdle | RBusy | RDone.       (* responseReceiver *)

  Record st := {
    conn : bool;          (* b.conn != nil *)
    lk : lockpc;
    resp : chan;          (* b.responses (of the current connection) *)
    done : bool;          (* b.done closed *)
    made : bool;          (* b.responses / b.done exist (non-nil): created by Open after dial and authentication,
                             reset to nil by Close *)
    rc : rpc;
    ret : option nat;     (* result of a finished Close call not yet observed *)
    ncalls : nat;
    panic : bool }.

  Definition init (_ : cfg) : st :=
    {| conn := false; lk := LFree; resp := ch0; done := false; made := false; rc := RNone; ret := None; ncalls := 0; panic := false |}.

  Inductive act :=
  | AOpen | ADialOk | ADialFail
  | AAuthOk | AAuthFail   (* the SASL step ends (a network wait always ends: read deadline) *)
  | ASendBegin            (* send(): lock taken, request written (conn != nil) *)
  | ASendEnq              (* b.responses <- promise : buffer slot available *)
  | ASendHand             (* b.responses <- promise : direct hand-off to the idle receiver *)
  | ARTake                (* receiver takes a buffered promise *)
  | ARFinish              (* receiver got the response / a read error and handed it to the caller *)
  | ARExit                (* receiver: channel closed and drained -> close(b.done) *)
  | ACloseCall            (* application calls Close *)
  | ACloseDone            (* Close: <-b.done returned *)
  | ACloseFin             (* Close: conn = nil, unlock, return nil *)
  | ARet (r : nat).       (* application sees Close return with result r *)

  Definition upd (s : st) conn' lk' resp' done' rc' ret' nc' panic' : st :=
    {| conn := conn'; lk := lk'; resp := resp'; done := done'; made := made s; rc := rc'; ret := ret'; ncalls := nc'; panic := panic' |}.
  Definition set_made (s : st) (m : bool) : st :=
    {| conn := conn s; lk := lk s; resp := resp s; done := done s; made := m; rc := rc s; ret := ret s; ncalls := ncalls s; panic := panic s |}.

  Definition step (c : cfg) (s : st) (a : act) : option st :=
    match a with
    | AOpen => match lk s, conn s with
               | LFree, false => Some (upd s false LDial (resp s) (done s) (rc s) (ret s) (ncalls s) (panic s))
               | _, _ => None end
    | ADialOk => match lk s with
                 | LDial => if sasl c
                            then Some (upd s true LAuth (resp s) (done s) (rc s) (ret s) (ncalls s) (panic s))
                            else Some (set_made (upd s true LFree ch0 false RIdle (ret s) (ncalls s) (panic s)) true)
                 | _ => None end
    | AAuthOk => match lk s with
                 | LAuth => Some (set_made (upd s true LFree ch0 false RIdle (ret s) (ncalls s) (panic s)) true)
                 | _ => None end
    | AAuthFail => match lk s with
                   | LAuth => Some (upd s false LFree (resp s) (done s) (rc s) (ret s) (ncalls s) (panic s))
                   | _ => None end
    | ADialFail => match lk s with
                   | LDial => Some (upd s false LFree (resp s) (done s) (rc s) (ret s) (ncalls s) (panic s))
                   | _ => None end
    | ASendBegin => match lk s, conn s with
                    | LFree, true => Some (upd s true LSend (resp s) (done s) (rc s) (ret s) (ncalls s) (panic s))
                    | _, _ => None end
    | ASendEnq => match lk s with
                  | LSend => if len (resp s) <? cap c
                             then Some (upd s (conn s) LFree (ch_push (resp s)) (done s) (rc s) (ret s) (ncalls s)
                                            (panic s || closed (resp s)))
                             else None
                  | _ => None end
    | ASendHand => match lk s, rc s with
                   | LSend, RIdle => if len (resp s) =? 0
                                     then Some (upd s (conn s) LFree (resp s) (done s) RBusy (ret s) (ncalls s)
                                                    (panic s || closed (resp s)))
                                     else None
                   | _, _ => None end
    | ARTake => match rc s with
                | RIdle => match len (resp s) with
                           | 0 => None
                           | S _ => Some (upd s (conn s) (lk s) (ch_pop (resp s)) (done s) RBusy (ret s) (ncalls s) (panic s))
                           end
                | _ => None end
    | ARFinish => match rc s with
                  | RBusy => Some (upd s (conn s) (lk s) (resp s) (done s) RIdle (ret s) (ncalls s) (panic s))
                  | _ => None end
    | ARExit => match rc s with
                | RIdle => if closed (resp s) && (len (resp s) =? 0)
                           then Some (upd s (conn s) (lk s) (resp s) true RDone (ret s) (ncalls s) (panic s || done s))
                           else None
                | _ => None end
    | ACloseCall =>
      match lk s, ret s with
      | LFree, None =>
        if negb (ncalls s <? bmax c) then None else
        if conn s
        then Some (upd s true LClose (ch_close (resp s)) (done s) (rc s) None (S (ncalls s)) (panic s || closed (resp s)))
        else Some (upd s false LFree (resp s) (done s) (rc s) (Some rErrNotConnected) (S (ncalls s)) (panic s))
      | _, _ => None
      end
    | ACloseDone => match lk s with
                    | LClose => if done s then Some (upd s (conn s) LCloseFin (resp s) (done s) (rc s) (ret s) (ncalls s) (panic s))
                                else None
                    | _ => None end
    | ACloseFin => match lk s with
                   | LCloseFin => Some (set_made (upd s false LFree (resp s) (done s) RNone (Some rNil) (ncalls s) (panic s)) false)
                   | _ => None end
    | ARet r => match ret s with
                | Some r' => if Nat.eqb r r'
                             then Some (upd s (conn s) (lk s) (resp s) (done s) (rc s) None (ncalls s) (panic s))
                             else None
                | None => None end
    end.

  Definition lbl (a : act) : option obs :=
    match a with
    | ACloseCall => Some (OCall fClose)
    | ARet r => Some (ORet fClose r)
    | _ => None
    end.

  (* observer automaton, parameterised by whether the connection was open when the run started being
     observed: an open connection answers nil to the first Close, every Close of a connection that is
     not open answers ErrNotConnected. (Re-opening is not observed in the scenarios.) *)
  Inductive os := QOpen | QCall1 | QNot | QCallN.
  Definition ostep (q : os) (o : obs) : option os :=
    match q, o with
    | QOpen, OCall 0 => Some QCall1
    | QCall1, ORet 0 0 => Some QNot
    | QNot, OCall 0 => Some QCallN
    | QCallN, ORet 0 2 => Some QNot
    | _, _ => None
    end.
  Definition accepts (was_open : bool) (l : list obs) : bool :=
    oaccepts ostep (if was_open then QOpen else QNot) l.

  (* the phase in which a Close holds the lock, and its final states *)
  Definition closing (s : st) : Prop := lk s = LClose \/ lk s = LCloseFin.
End Broker.
