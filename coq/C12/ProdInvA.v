(* C12 — preservation of the producer invariant (ProdProofs.Inv), part 1: one lemma per action, by [ProdP.go]. *)
From Coq Require Import List Arith Bool Lia.
From SV Require Import C12.Lts C12.LtsProofs C12.Tac C12.Prod C12.ProdProofs.
Import ListNotations. Import Prod. Import ProdP.

Lemma step_AInput c s s'  : Inv s -> step c s AInput = Some s' -> Inv s'.
Proof. intros I H. go s H I. Qed.
Lemma step_AAsyncClose c s s'  : Inv s -> step c s AAsyncClose = Some s' -> Inv s'.
Proof. intros I H. go s H I. Qed.
Lemma step_ASeeClosedErr c s s'  : Inv s -> step c s ASeeClosedErr = Some s' -> Inv s'.
Proof. intros I H. go s H I. Qed.
Lemma step_ASeeClosedSucc c s s'  : Inv s -> step c s ASeeClosedSucc = Some s' -> Inv s'.
Proof. intros I H. go s H I. Qed.
Lemma step_ACloseSeeClosed c s s'  : Inv s -> step c s ACloseSeeClosed = Some s' -> Inv s'.
Proof. intros I H. go s H I. Qed.
Lemma step_ARet c s s' n : Inv s -> step c s (ARet n) = Some s' -> Inv s'.
Proof. intros I H. go s H I. Qed.
