(* C12 — partition consumer: the measure of PConsMeasure.v decreases with every action once dying is closed  ([PCM.pmgo]). *)
(* part 6 of 7; lemmas packed by proof time so that no file of the family takes much over a minute *)
From Coq Require Import List Arith Bool Lia.
From SV Require Import C12.Lts C12.LtsProofs C12.Tac C12.PCons C12.PConsProofs C12.PConsSafety C12.PConsMeasure.
Import ListNotations. Import PC. Import PCP. Import PCM.

Lemma m_AFAck c s s'  : Inv s -> dying (ch s) = true -> step c s AFAck = Some s' -> lt2 (mu c s') (mu c s).
Proof. intros I P H. pmgo. Qed.
Lemma m_ACloseSeeClosed c s s'  : Inv s -> dying (ch s) = true -> step c s ACloseSeeClosed = Some s' -> lt2 (mu c s') (mu c s).
Proof. intros I P H. pmgo. Qed.
Lemma m_ARet c s s' n : Inv s -> dying (ch s) = true -> step c s (ARet n) = Some s' -> lt2 (mu c s') (mu c s).
Proof. intros I P H. pmgo. Qed.
Lemma m_ASMSeeClosed c s s'  : Inv s -> dying (ch s) = true -> step c s ASMSeeClosed = Some s' -> lt2 (mu c s') (mu c s).
Proof. intros I P H. pmgo. Qed.
Lemma m_ADDying c s s'  : Inv s -> dying (ch s) = true -> step c s ADDying = Some s' -> lt2 (mu c s') (mu c s).
Proof. intros I P H. pmgo. Qed.
Lemma m_ASCUpdClose c s s'  : Inv s -> dying (ch s) = true -> step c s ASCUpdClose = Some s' -> lt2 (mu c s') (mu c s).
Proof. intros I P H. pmgo. Qed.
Lemma m_ASMCloseNS c s s'  : Inv s -> dying (ch s) = true -> step c s ASMCloseNS = Some s' -> lt2 (mu c s') (mu c s).
Proof. intros I P H. pmgo. Qed.
Lemma m_ARecvErr c s s'  : Inv s -> dying (ch s) = true -> step c s ARecvErr = Some s' -> lt2 (mu c s') (mu c s).
Proof. intros I P H. pmgo. Qed.
Lemma m_AFCloseE c s s'  : Inv s -> dying (ch s) = true -> step c s AFCloseE = Some s' -> lt2 (mu c s') (mu c s).
Proof. intros I P H. pmgo. Qed.
Lemma m_ADSub c s s'  : Inv s -> dying (ch s) = true -> step c s ADSub = Some s' -> lt2 (mu c s') (mu c s).
Proof. intros I P H. pmgo. Qed.
Lemma m_ASCFetch c s s' ok : Inv s -> dying (ch s) = true -> step c s (ASCFetch ok) = Some s' -> lt2 (mu c s') (mu c s).
Proof. intros I P H. pmgo. Qed.
Lemma m_ASCRangeClosed c s s'  : Inv s -> dying (ch s) = true -> step c s ASCRangeClosed = Some s' -> lt2 (mu c s') (mu c s).
Proof. intros I P H. pmgo. Qed.
Lemma m_ASMCloseWait c s s'  : Inv s -> dying (ch s) = true -> step c s ASMCloseWait = Some s' -> lt2 (mu c s') (mu c s).
Proof. intros I P H. pmgo. Qed.
Lemma m_ASCHTok c s s'  : Inv s -> dying (ch s) = true -> step c s ASCHTok = Some s' -> lt2 (mu c s') (mu c s).
Proof. intros I P H. pmgo. Qed.
Lemma m_ASCAbNTok c s s'  : Inv s -> dying (ch s) = true -> step c s ASCAbNTok = Some s' -> lt2 (mu c s') (mu c s).
Proof. intros I P H. pmgo. Qed.
Lemma m_ASCAbTok c s s'  : Inv s -> dying (ch s) = true -> step c s ASCAbTok = Some s' -> lt2 (mu c s') (mu c s).
Proof. intros I P H. pmgo. Qed.
Lemma m_ASCFeed c s s'  : Inv s -> dying (ch s) = true -> step c s ASCFeed = Some s' -> lt2 (mu c s') (mu c s).
Proof. intros I P H. pmgo. Qed.
