(* C12 — preservation of the partition-consumer invariant (PConsProofs.Inv), application, dispatcher and feeder actions.
   One lemma per action, all by the tactic [PCP.go] (case analysis of the step, then linear arithmetic). *)
(* part 1 of 2; lemmas packed by proof time so that no file of the family takes much over a minute *)
From Coq Require Import List Arith Bool Lia.
From SV Require Import C12.Lts C12.LtsProofs C12.Tac C12.PCons C12.PConsProofs.
Import ListNotations. Import PC. Import PCP.

Lemma step_ASMFlush c s s'  : Inv s -> step c s ASMFlush = Some s' -> Inv s'.
Proof. intros I H. go s H I. Qed.
Lemma step_AFTake c s s' o n toolarge : Inv s -> step c s (AFTake o n toolarge) = Some s' -> Inv s'.
Proof. intros I H. go s H I. Qed.
Lemma step_ASCHErr c s s' hand : Inv s -> step c s (ASCHErr hand) = Some s' -> Inv s'.
Proof. intros I H. go s H I. Qed.
Lemma step_ASCHandle c s s' moved : Inv s -> step c s (ASCHandle moved) = Some s' -> Inv s'.
Proof. intros I H. go s H I. Qed.
Lemma step_ADExit c s s'  : Inv s -> step c s ADExit = Some s' -> Inv s'.
Proof. intros I H. go s H I. Qed.
Lemma step_ADUnref c s s'  : Inv s -> step c s ADUnref = Some s' -> Inv s'.
Proof. intros I H. go s H I. Qed.
Lemma step_ASCAbNErr c s s' hand : Inv s -> step c s (ASCAbNErr hand) = Some s' -> Inv s'.
Proof. intros I H. go s H I. Qed.
Lemma step_ASCAbErr c s s' hand : Inv s -> step c s (ASCAbErr hand) = Some s' -> Inv s'.
Proof. intros I H. go s H I. Qed.
Lemma step_ASMGive c s s'  : Inv s -> step c s ASMGive = Some s' -> Inv s'.
Proof. intros I H. go s H I. Qed.
Lemma step_ADErr c s s' hand : Inv s -> step c s (ADErr hand) = Some s' -> Inv s'.
Proof. intros I H. go s H I. Qed.
Lemma step_AFPErr c s s' hand : Inv s -> step c s (AFPErr hand) = Some s' -> Inv s'.
Proof. intros I H. go s H I. Qed.
Lemma step_AFSend c s s' hand : Inv s -> step c s (AFSend hand) = Some s' -> Inv s'.
Proof. intros I H. go s H I. Qed.
Lemma step_AAsyncClose c s s'  : Inv s -> step c s AAsyncClose = Some s' -> Inv s'.
Proof. intros I H. go s H I. Qed.
Lemma step_ASMWait c s s'  : Inv s -> step c s ASMWait = Some s' -> Inv s'.
Proof. intros I H. go s H I. Qed.
Lemma step_ASCHTok c s s'  : Inv s -> step c s ASCHTok = Some s' -> Inv s'.
Proof. intros I H. go s H I. Qed.
Lemma step_ASCWaitClosed c s s'  : Inv s -> step c s ASCWaitClosed = Some s' -> Inv s'.
Proof. intros I H. go s H I. Qed.
Lemma step_ASCLen c s s'  : Inv s -> step c s ASCLen = Some s' -> Inv s'.
Proof. intros I H. go s H I. Qed.
Lemma step_ASeeClosedE c s s'  : Inv s -> step c s ASeeClosedE = Some s' -> Inv s'.
Proof. intros I H. go s H I. Qed.
