(* C12 — preservation of the producer invariant (ProdProofs.Inv) : one lemma per action, by [ProdP.go]. *)
(* part 11 of 13; lemmas packed by proof time so that no file of the family takes much over a minute *)
From Coq Require Import List Arith Bool Lia.
From SV Require Import C12.Lts C12.LtsProofs C12.Tac C12.Prod C12.ProdProofs.
Import ListNotations. Import Prod. Import ProdP.

Lemma step_APExit c s s'  : Inv s -> step c s APExit = Some s' -> Inv s'.
Proof. intros I H. go s H I. Qed.
Lemma step_ABRespDone c s s'  : Inv s -> step c s ABRespDone = Some s' -> Inv s'.
Proof. intros I H. go s H I. Qed.
Lemma step_APMark c s s'  : Inv s -> step c s APMark = Some s' -> Inv s'.
Proof. intros I H. go s H I. Qed.
Lemma step_APUnref c s s'  : Inv s -> step c s APUnref = Some s' -> Inv s'.
Proof. intros I H. go s H I. Qed.
Lemma step_ASeeClosedSucc c s s'  : Inv s -> step c s ASeeClosedSucc = Some s' -> Inv s'.
Proof. intros I H. go s H I. Qed.
Lemma step_ARet c s s' n : Inv s -> step c s (ARet n) = Some s' -> Inv s'.
Proof. intros I H. go s H I. Qed.
Lemma step_ACloseSeeClosed c s s'  : Inv s -> step c s ACloseSeeClosed = Some s' -> Inv s'.
Proof. intros I H. go s H I. Qed.
Lemma step_ATTake c s s'  : Inv s -> step c s ATTake = Some s' -> Inv s'.
Proof. intros I H. go s H I. Qed.
