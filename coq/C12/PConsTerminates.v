(* C12 — partition consumer: the shutdown terminates. *)
From Coq Require Import List Arith Bool Lia.
From SV Require Import C12.Lts C12.LtsProofs C12.Tac C12.ConnProofs C12.PCons C12.PConsProofs C12.PConsSafety C12.PConsTerm C12.PConsProgress
  C12.PConsMeasure C12.PConsMeasure_01 C12.PConsMeasure_02 C12.PConsMeasure_03 C12.PConsMeasure_04 C12.PConsMeasure_05 C12.PConsMeasure_06 C12.PConsMeasure_07.
Import ListNotations.

Module PCTerm.
  Import PC. Import PCP. Import PCT. Import PCM.

  Lemma mu_step c s a s' : Inv s -> dying (ch s) = true -> step c s a = Some s' -> lt2 (mu c s') (mu c s).
  Proof.
    intros I P H. destruct a.
    - eapply m_AAsyncClose; eauto.
    - eapply m_ACloseCall; eauto.
    - eapply m_ACloseRecv; eauto.
    - eapply m_ACloseSeeClosed; eauto.
    - eapply m_ARet; eauto.
    - eapply m_ARecvMsg; eauto.
    - eapply m_ARecvErr; eauto.
    - eapply m_ASeeClosedM; eauto.
    - eapply m_ASeeClosedE; eauto.
    - eapply m_ADTake; eauto.
    - eapply m_ADSeeClosed; eauto.
    - eapply m_ADDying; eauto.
    - eapply m_ADTimer; eauto.
    - eapply m_ADUnref; eauto.
    - eapply m_ADNet; eauto.
    - eapply m_ADSub; eauto.
    - eapply m_ADErr; eauto.
    - eapply m_ADTok; eauto.
    - eapply m_ADExit; eauto.
    - eapply m_ADCloseF; eauto.
    - eapply m_AFTake; eauto.
    - eapply m_AFSeeClosed; eauto.
    - eapply m_AFPErr; eauto.
    - eapply m_AFDying; eauto.
    - eapply m_AFSend; eauto.
    - eapply m_AFTick; eauto.
    - eapply m_AFLSend; eauto.
    - eapply m_AFLDying; eauto.
    - eapply m_AFLEnd; eauto.
    - eapply m_AFResub; eauto.
    - eapply m_AFAck; eauto.
    - eapply m_AFCloseM; eauto.
    - eapply m_AFCloseE; eauto.
    - eapply m_ASMSeeClosed; eauto.
    - eapply m_ASMGive; eauto.
    - eapply m_ASMWait; eauto.
    - eapply m_ASMCloseWait; eauto.
    - eapply m_ASMFlush; eauto.
    - eapply m_ASMCloseNS; eauto.
    - eapply m_ASCWaitClosed; eauto.
    - eapply m_ASCRangeClosed; eauto.
    - eapply m_ASCUpd; eauto.
    - eapply m_ASCUpdClose; eauto.
    - eapply m_ASCLen; eauto.
    - eapply m_ASCFetch; eauto.
    - eapply m_ASCFeed; eauto.
    - eapply m_ASCAcks; eauto.
    - eapply m_ASCHandle; eauto.
    - eapply m_ASCHErr; eauto.
    - eapply m_ASCHTok; eauto.
    - eapply m_ASCHClose; eauto.
    - eapply m_ASCAbort; eauto.
    - eapply m_ASCAbErr; eauto.
    - eapply m_ASCAbTok; eauto.
    - eapply m_ASCAbNErr; eauto.
    - eapply m_ASCAbNTok; eauto.
  Qed.

  (* dying stays closed *)
  Lemma dying_step c s a s' : dying (ch s) = true -> step c s a = Some s' -> dying (ch s') = true.
  Proof.
    intros P H. destruct a; scbn H; unfold send_err, send_msg, put_token, w_unref, parse_ok, draining in H;
      step_cases H; pair_cases; bool_hyps; pair_cases; unf; cbn; auto; try congruence; try discriminate.
  Qed.

  Definition ph (c : cfg) (s : st) : Prop := Inv s /\ Inv3 s /\ dying (ch s) = true.

  (* From AsyncClose / Close on (dying closed): no infinite run — under the stated bounds: the dispatcher's select
     prefers its back-off timer over the closed dying channel finitely often, the application makes finitely many
     further calls; network calls are single steps and the application keeps receiving —, and whenever nothing can
     move, dispatcher, feeder, subscription manager and subscription consumer have returned and messages / errors
     are closed. *)
  Theorem pc_terminates : forall c,
    Terminates (step c) (fun s => Reach (step c) (init c) s /\ dying (ch s) = true) final.
  Proof.
    intros c. apply terminates_weaken with (ph2 := ph c).
    - intros s [R P]. destruct (PCTT.reach_inv13 c s R). split; auto.
    - apply terminates_by_measure with (R := lt2) (mu := mu c).
      + apply lt2_wf.
      + intros s a s' (I & K & P) H. eapply mu_step; eauto.
      + intros s (I & K & P) Hs. eapply stuck_final; eauto.
  Qed.
End PCTerm.
