(* C12 — Print Assumptions of the statements of Export.v, part 1 (see the header of Export.v). *)
From SV Require Import C12.Export.
Redirect "C12/Export_c12_no_panic" Print Assumptions C12X.c12_no_panic.
Redirect "C12/Export_c12_no_send_on_closed" Print Assumptions C12X.c12_no_send_on_closed.
Redirect "C12/Export_c12_worker_refcount" Print Assumptions C12X.c12_worker_refcount.
Redirect "C12/Export_c12_refs_leak_never_closed" Print Assumptions C12X.c12_refs_leak_never_closed.
