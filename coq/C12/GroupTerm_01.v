(* C12 — consumer group termination : per action, the additional invariant Inv2 is preserved and the
   measure decreases in the phase. By the tactics [GrpT.jgo] / [GrpT.mgo]. *)
(* part 1 of 3; lemmas packed by proof time so that no file of the family takes much over a minute *)
From Coq Require Import List Arith Bool Lia.
From SV Require Import C12.Lts C12.LtsProofs C12.Tac C12.Group C12.GroupProofs C12.GroupSafety C12.GroupTerm.
Import ListNotations. Import Grp. Import GrpP. Import GrpT.

Lemma m_ACSetup c s s' m : Inv s -> closed_ch s = true -> step c s (ACSetup m) = Some s' -> lt3 (mu c s') (mu c s).
Proof. intros I P H. mgo. Qed.
Lemma m_ACRelHe c s s' h : Inv s -> closed_ch s = true -> step c s (ACRelHe h) = Some s' -> lt3 (mu c s') (mu c s).
Proof. intros I P H. mgo. Qed.
Lemma m_AHHe c s s' h : Inv s -> closed_ch s = true -> step c s (AHHe h) = Some s' -> lt3 (mu c s') (mu c s).
Proof. intros I P H. mgo. Qed.
Lemma m_AHBackTimer c s s'  : Inv s -> closed_ch s = true -> step c s AHBackTimer = Some s' -> lt3 (mu c s') (mu c s).
Proof. intros I P H. mgo. Qed.
