(* C12 — consumer group, simulation by the observer automaton, part 5: one lemma per action, by [GrpSim.sim_go]. *)
From Coq Require Import List Arith Bool Lia.
From SV Require Import C12.Lts C12.LtsProofs C12.Tac C12.Group C12.GroupProofs C12.GroupSafety C12.GroupSim.
Import ListNotations. Import Grp. Import GrpP. Import GrpSim.

Lemma sim_AHHe c s q s' h : (elock c = true \/ ~ GrpS.racy s (AHHe h)) -> R s q -> step c s (AHHe h) = Some s' ->
  match lbl (AHHe h) with None => R s' q | Some o => exists q', ostep q o = Some q' /\ R s' q' end.
Proof. intros G HR H. sim_go. Qed.
Lemma sim_AHExit c s q s'  : (elock c = true \/ ~ GrpS.racy s AHExit) -> R s q -> step c s AHExit = Some s' ->
  match lbl AHExit with None => R s' q | Some o => exists q', ostep q o = Some q' /\ R s' q' end.
Proof. intros G HR H. sim_go. Qed.
Lemma sim_ALNet c s q s' same : (elock c = true \/ ~ GrpS.racy s (ALNet same)) -> R s q -> step c s (ALNet same) = Some s' ->
  match lbl (ALNet same) with None => R s' q | Some o => exists q', ostep q o = Some q' /\ R s' q' end.
Proof. intros G HR H. sim_go. Qed.
Lemma sim_ALTick c s q s'  : (elock c = true \/ ~ GrpS.racy s ALTick) -> R s q -> step c s ALTick = Some s' ->
  match lbl ALTick with None => R s' q | Some o => exists q', ostep q o = Some q' /\ R s' q' end.
Proof. intros G HR H. sim_go. Qed.
Lemma sim_ALStop c s q s'  : (elock c = true \/ ~ GrpS.racy s ALStop) -> R s q -> step c s ALStop = Some s' ->
  match lbl ALStop with None => R s' q | Some o => exists q', ostep q o = Some q' /\ R s' q' end.
Proof. intros G HR H. sim_go. Qed.
Lemma sim_ALExit c s q s'  : (elock c = true \/ ~ GrpS.racy s ALExit) -> R s q -> step c s ALExit = Some s' ->
  match lbl ALExit with None => R s' q | Some o => exists q', ostep q o = Some q' /\ R s' q' end.
Proof. intros G HR H. sim_go. Qed.
Lemma sim_AGStart c s q s'  : (elock c = true \/ ~ GrpS.racy s AGStart) -> R s q -> step c s AGStart = Some s' ->
  match lbl AGStart with None => R s' q | Some o => exists q', ostep q o = Some q' /\ R s' q' end.
Proof. intros G HR H. sim_go. Qed.
Lemma sim_AGNew c s q s' ok : (elock c = true \/ ~ GrpS.racy s (AGNew ok)) -> R s q -> step c s (AGNew ok) = Some s' ->
  match lbl (AGNew ok) with None => R s' q | Some o => exists q', ostep q o = Some q' /\ R s' q' end.
Proof. intros G HR H. sim_go. Qed.
