(* C12 — preservation of the consumer-group invariant (GroupProofs.Inv), session, claim and forwarder actions.
   One lemma per action, by the tactic [GrpP.go] (case analysis of the step, then linear arithmetic). *)
From Coq Require Import List Arith Bool Lia.
From SV Require Import C12.Lts C12.LtsProofs C12.Tac C12.Group C12.GroupProofs.
Import ListNotations. Import Grp. Import GrpP.

Lemma step_ACRelHe c s s' h : Inv s -> step c s (ACRelHe h) = Some s' -> Inv s'.
Proof. intros I H. go s H I. Qed.
Lemma step_ACRel3 c s s'  : Inv s -> step c s ACRel3 = Some s' -> Inv s'.
Proof. intros I H. go s H I. Qed.
Lemma step_ACRel4 c s s'  : Inv s -> step c s ACRel4 = Some s' -> Inv s'.
Proof. intros I H. go s H I. Qed.
Lemma step_AHNet c s s' x : Inv s -> step c s (AHNet x) = Some s' -> Inv s'.
Proof. intros I H. go s H I. Qed.
Lemma step_AHBackDying c s s'  : Inv s -> step c s AHBackDying = Some s' -> Inv s'.
Proof. intros I H. go s H I. Qed.
Lemma step_AHBackTimer c s s'  : Inv s -> step c s AHBackTimer = Some s' -> Inv s'.
Proof. intros I H. go s H I. Qed.
Lemma step_AHTick c s s'  : Inv s -> step c s AHTick = Some s' -> Inv s'.
Proof. intros I H. go s H I. Qed.
Lemma step_AHDying c s s'  : Inv s -> step c s AHDying = Some s' -> Inv s'.
Proof. intros I H. go s H I. Qed.
Lemma step_AHHe c s s' h : Inv s -> step c s (AHHe h) = Some s' -> Inv s'.
Proof. intros I H. go s H I. Qed.
Lemma step_AHExit c s s'  : Inv s -> step c s AHExit = Some s' -> Inv s'.
Proof. intros I H. go s H I. Qed.
Lemma step_ALNet c s s' same : Inv s -> step c s (ALNet same) = Some s' -> Inv s'.
Proof. intros I H. go s H I. Qed.
Lemma step_ALTick c s s'  : Inv s -> step c s ALTick = Some s' -> Inv s'.
Proof. intros I H. go s H I. Qed.
Lemma step_ALStop c s s'  : Inv s -> step c s ALStop = Some s' -> Inv s'.
Proof. intros I H. go s H I. Qed.
Lemma step_ALExit c s s'  : Inv s -> step c s ALExit = Some s' -> Inv s'.
Proof. intros I H. go s H I. Qed.
Lemma step_AGStart c s s'  : Inv s -> step c s AGStart = Some s' -> Inv s'.
Proof. intros I H. go s H I. Qed.
Lemma step_AGNew c s s' ok : Inv s -> step c s (AGNew ok) = Some s' -> Inv s'.
Proof. intros I H. go s H I. Qed.
Lemma step_AGRunEnd c s s' err : Inv s -> step c s (AGRunEnd err) = Some s' -> Inv s'.
Proof. intros I H. go s H I. Qed.
Lemma step_AGWaitErr c s s'  : Inv s -> step c s AGWaitErr = Some s' -> Inv s'.
Proof. intros I H. go s H I. Qed.
Lemma step_AGWaitEnd c s s'  : Inv s -> step c s AGWaitEnd = Some s' -> Inv s'.
Proof. intros I H. go s H I. Qed.
Lemma step_AGHe c s s' h : Inv s -> step c s (AGHe h) = Some s' -> Inv s'.
Proof. intros I H. go s H I. Qed.
Lemma step_AGDefer c s s'  : Inv s -> step c s AGDefer = Some s' -> Inv s'.
Proof. intros I H. go s H I. Qed.
Lemma step_AFwCheck c s s'  : Inv s -> step c s AFwCheck = Some s' -> Inv s'.
Proof. intros I H. go s H I. Qed.
Lemma step_AFwSend c s s' h : Inv s -> step c s (AFwSend h) = Some s' -> Inv s'.
Proof. intros I H. go s H I. Qed.

(* close(c.errors): with errorsLock it waits for everybody inside handleError; without it the step is
   harmless only if no forwarder is between the check and the send *)
Lemma step_AECloseErrs c s s' : (elock c = true \/ fw_checked s = 0) -> Inv s -> step c s AECloseErrs = Some s' -> Inv s'.
Proof.
  intros G I H. assert (F : fw_checked s = 0).
  { destruct G as [G|G]; [|exact G]. cbn in H. destruct (ke s); try discriminate. rewrite G in H. cbn in H.
    destruct (fw_checked s); [reflexivity|]. cbn in H. discriminate. }
  go s H I. all: intros; lia.
Qed.

