(* C12 — shutdown model of a consumer group (consumer_group.go: Close, Consume, newSession /
   retryNewSession, newConsumerGroupSession, consume, release, heartbeatLoop,
   loopCheckPartitionNumbers, leave, handleError).  Definitions only.

   Goroutines: the caller of Close (K) with the goroutine it spawns for close(c.errors) (E), the caller
   of Consume (C), per session the heartbeat loop (H), the partition-count loop (L) and one consume
   goroutine per claim (counted per program point: the claims are interchangeable), and the error
   forwarders (`for err := range pom.Errors()` / `range pcm.Errors()` / `range claim.Errors()`), which
   nothing waits for.  State: c.closed, closeOnce, c.lock (held by Consume for a whole session and by
   leave), memberID, c.errors, per session ctx, waitGroup, releaseOnce, hbDying, hbDead.

   handleError is   select { case <-c.closed: return; default: };  select { case c.errors <- err: default: }
   i.e. a check and a non-blocking send, two steps.  For the goroutines a session waits for (consume
   goroutines, heartbeat, release itself) Close cannot reach close(c.errors) in between, because leave()
   needs c.lock.  For the forwarders nothing orders the two steps against close(c.errors): on the pinned
   tree ([elock] = false) a forwarder that passed the check before Close was called can send after the
   channel was closed.  With the repair ([elock] = true: handleError holds errorsLock.RLock over both
   steps, the closing goroutine takes errorsLock.Lock) the close waits for such a forwarder.

   A partition consumer inside a claim is abstracted to "closes after AsyncClose" (model PCons.v), an
   offset manager inside a session to "Close returns" (model OffMgr.v); network calls return.
   [fuel] bounds the timer events (heartbeat / partition-check tickers, back-off timers, immediate
   rejoin answers) that happen once c.closed is closed; [work] bounds the errors forwarders and
   consume goroutines still have to report. *)
From Coq Require Import List Arith Bool.
From SV Require Import C12.Lts.
Import ListNotations.

Module Grp.
  Record cfg := {
    ret_err : bool;        (* Consumer.Return.Errors *)
    ecap : nat;            (* capacity of c.errors (ChannelBufferSize) *)
    nclaims : nat;         (* claims of a session *)
    retry : nat;           (* Consumer.Group.Rebalance.Retry.Max *)
    elock : bool;          (* handleError / close(c.errors) serialised by errorsLock (repaired tree) *)
    hctx : bool;           (* the handler's ConsumeClaim does not range over Messages() but blocks on
                              session.Context().Done(): it returns only once the session is cancelled *)
    fuel0 : nat;
    work0 : nat;
    max_calls : nat;       (* Close calls the application makes *)
    max_consume : nat }.   (* Consume calls the application makes *)

  Inductive lockpc := LNone | LConsume | LLeave.

  (* caller of Close *)
  Inductive kpc :=
  | KIdle
  | KCloseCh               (* closeOnce.Do entered: close(c.closed) *)
  | KLeaveLock             (* leave(): c.lock.Lock() *)
  | KLeaveNet              (* Coordinator(); LeaveGroup (network), lock held *)
  | KSpawn (r : nat)       (* go func() { close(c.errors) }() *)
  | KDrain (r : nat)       (* for e := range c.errors { err = e } *)
  | KClient (r : nat)      (* c.client.Close() *)
  | KRet (r : nat).
  Inductive epc := ENone | EPending | EDone.

  (* caller of Consume; [r] = result class: 0 nil, 1 ErrClosedConsumerGroup, 2 another error *)
  Inductive cpc :=
  | CIdle
  | CLock                  (* passed the closed check; c.lock.Lock() *)
  | CRefresh               (* RefreshMetadata (network) *)
  | CJoin (left : nat)     (* newSession: Coordinator, JoinGroup, SyncGroup (network) *)
  | CBackoff (left : nat)  (* retryNewSession: select { <-c.closed ; <-time.After(backoff) } *)
  | CSetup                 (* newConsumerGroupSession *)
  | CWaitCtx               (* <-sess.ctx.Done() *)
  | CRel1 (r : nat)        (* release: s.cancel() *)
  | CRelWait (r : nat)     (* s.waitGroup.Wait() *)
  | CRel2 (r : nat)        (* releaseOnce.Do: Cleanup, offsets.Close() *)
  | CRelHe (r : nat)       (* ... Cleanup failed: handleError, after its closed check *)
  | CRel3 (r : nat)        (* close(s.hbDying) *)
  | CRel4 (r : nat)        (* <-s.hbDead *)
  | CRet (r : nat).

  Inductive hpc := HNone | HNet | HBack | HSel | HHe | HExit | HDone.   (* HHe: handleError after its closed check *)
  Inductive lpc := LcNone | LcNet | LcSel | LcExit | LcDone.

  Record st := {
    closed_ch : bool;      (* c.closed closed *)
    once : bool;           (* closeOnce consumed *)
    lock : lockpc;
    member : bool;         (* memberID != "" *)
    errs : chan;           (* c.errors *)
    seen_e : bool;
    client_closed : bool;
    kc : kpc; ke : epc;
    cc : cpc;
    (* current session *)
    ctx_done : bool; wg : nat; rel_once : bool; hb_dying : bool; hb_dead : bool;
    hb : hpc; lc : lpc;
    n_start : nat; n_new : nat; n_run : nat; n_wait : nat; n_he : nat; n_defer : nat;
    (* forwarders *)
    fw_on : bool;          (* some session created forwarders *)
    fw_checked : nat;      (* forwarders between handleError's check and its send *)
    calls : nat; consumes : nat; fuel : nat; work : nat;
    panic : bool }.

  Definition init (c : cfg) : st :=
    {| closed_ch := false; once := false; lock := LNone; member := false; errs := ch0; seen_e := false;
       client_closed := false; kc := KIdle; ke := ENone; cc := CIdle;
       ctx_done := false; wg := 0; rel_once := false; hb_dying := false; hb_dead := false; hb := HNone; lc := LcNone;
       n_start := 0; n_new := 0; n_run := 0; n_wait := 0; n_he := 0; n_defer := 0;
       fw_on := false; fw_checked := 0; calls := 0; consumes := 0; fuel := fuel0 c; work := work0 c; panic := false |}.

  (* how handleError's non-blocking send ends *)
  Inductive hnd := HBuf | HApp | HClose | HDrop.

  Inductive join_res := JOk | JRetry | JAgain | JFail (joined : bool) (r : nat).
  Inductive setup_res := SOk | SFailEarly | SFailLate.
  Inductive hb_res := HbOk | HbStop | HbRetry | HbNoCoord | HbFatal.

  Inductive act :=
  (* application *)
  | AKCall | AKRet (r : nat) | ACCall | ACRet (r : nat) | ARecvErr | ASeeClosed
  (* Close *)
  | AKCloseCh | AKLeaveLock | AKLeaveNet (ok : bool) (r : nat) | AKSpawn | AECloseErrs
  | AKDrainRecv | AKDrainEnd | AKClient (r : nat)
  (* Consume *)
  | ACLock | ACRefresh (ok : bool) | ACJoin (j : join_res) | ACBackClosed | ACBackTimer
  | ACSetup (m : setup_res) | ACCtxDone | ACRel1 | ACRelWait | ACRel2 (cleanup_err : bool) | ACRelHe (h : hnd)
  | ACRel3 | ACRel4
  (* heartbeat / partition-count loop *)
  | AHNet (x : hb_res) | AHBackDying | AHBackTimer | AHTick | AHDying | AHHe (h : hnd) | AHExit
  | ALNet (same : bool) | ALTick | ALStop | ALExit
  (* consume goroutines *)
  | AGStart | AGNew (ok : bool) | AGRunEnd (err : bool) | AGWaitErr | AGWaitEnd | AGHe (h : hnd) | AGDefer
  (* forwarders *)
  | AFwCheck | AFwSend (h : hnd).

  Definition set_errs (s : st) (e : chan) (pn : bool) : st :=
    {| closed_ch := closed_ch s; once := once s; lock := lock s; member := member s; errs := e; seen_e := seen_e s;
       client_closed := client_closed s; kc := kc s; ke := ke s; cc := cc s;
       ctx_done := ctx_done s; wg := wg s; rel_once := rel_once s; hb_dying := hb_dying s; hb_dead := hb_dead s; hb := hb s; lc := lc s;
       n_start := n_start s; n_new := n_new s; n_run := n_run s; n_wait := n_wait s; n_he := n_he s; n_defer := n_defer s;
       fw_on := fw_on s; fw_checked := fw_checked s; calls := calls s; consumes := consumes s; fuel := fuel s; work := work s;
       panic := panic s || pn |}.
  Definition with_panic (s : st) (pn : bool) : st := set_errs s (errs s) pn.
  Definition set_kc (s : st) (k : kpc) : st :=
    {| closed_ch := closed_ch s; once := once s; lock := lock s; member := member s; errs := errs s; seen_e := seen_e s;
       client_closed := client_closed s; kc := k; ke := ke s; cc := cc s;
       ctx_done := ctx_done s; wg := wg s; rel_once := rel_once s; hb_dying := hb_dying s; hb_dead := hb_dead s; hb := hb s; lc := lc s;
       n_start := n_start s; n_new := n_new s; n_run := n_run s; n_wait := n_wait s; n_he := n_he s; n_defer := n_defer s;
       fw_on := fw_on s; fw_checked := fw_checked s; calls := calls s; consumes := consumes s; fuel := fuel s; work := work s;
       panic := panic s |}.
  Definition set_cc (s : st) (x : cpc) : st :=
    {| closed_ch := closed_ch s; once := once s; lock := lock s; member := member s; errs := errs s; seen_e := seen_e s;
       client_closed := client_closed s; kc := kc s; ke := ke s; cc := x;
       ctx_done := ctx_done s; wg := wg s; rel_once := rel_once s; hb_dying := hb_dying s; hb_dead := hb_dead s; hb := hb s; lc := lc s;
       n_start := n_start s; n_new := n_new s; n_run := n_run s; n_wait := n_wait s; n_he := n_he s; n_defer := n_defer s;
       fw_on := fw_on s; fw_checked := fw_checked s; calls := calls s; consumes := consumes s; fuel := fuel s; work := work s;
       panic := panic s |}.
  (* lock, member and Consume / Close program counters together *)
  Definition set_lk (s : st) (l : lockpc) (m : bool) (k : kpc) (x : cpc) : st :=
    {| closed_ch := closed_ch s; once := once s; lock := l; member := m; errs := errs s; seen_e := seen_e s;
       client_closed := client_closed s; kc := k; ke := ke s; cc := x;
       ctx_done := ctx_done s; wg := wg s; rel_once := rel_once s; hb_dying := hb_dying s; hb_dead := hb_dead s; hb := hb s; lc := lc s;
       n_start := n_start s; n_new := n_new s; n_run := n_run s; n_wait := n_wait s; n_he := n_he s; n_defer := n_defer s;
       fw_on := fw_on s; fw_checked := fw_checked s; calls := calls s; consumes := consumes s; fuel := fuel s; work := work s;
       panic := panic s |}.
  (* session part *)
  Definition set_sess (s : st) cd w ro hd hdd h l : st :=
    {| closed_ch := closed_ch s; once := once s; lock := lock s; member := member s; errs := errs s; seen_e := seen_e s;
       client_closed := client_closed s; kc := kc s; ke := ke s; cc := cc s;
       ctx_done := cd; wg := w; rel_once := ro; hb_dying := hd; hb_dead := hdd; hb := h; lc := l;
       n_start := n_start s; n_new := n_new s; n_run := n_run s; n_wait := n_wait s; n_he := n_he s; n_defer := n_defer s;
       fw_on := fw_on s; fw_checked := fw_checked s; calls := calls s; consumes := consumes s; fuel := fuel s; work := work s;
       panic := panic s |}.
  Definition set_ctx (s : st) (b : bool) := set_sess s b (wg s) (rel_once s) (hb_dying s) (hb_dead s) (hb s) (lc s).
  Definition set_hb (s : st) (h : hpc) := set_sess s (ctx_done s) (wg s) (rel_once s) (hb_dying s) (hb_dead s) h (lc s).
  Definition set_lc (s : st) (l : lpc) := set_sess s (ctx_done s) (wg s) (rel_once s) (hb_dying s) (hb_dead s) (hb s) l.
  Definition set_claims (s : st) a b c d e f : st :=
    {| closed_ch := closed_ch s; once := once s; lock := lock s; member := member s; errs := errs s; seen_e := seen_e s;
       client_closed := client_closed s; kc := kc s; ke := ke s; cc := cc s;
       ctx_done := ctx_done s; wg := wg s; rel_once := rel_once s; hb_dying := hb_dying s; hb_dead := hb_dead s; hb := hb s; lc := lc s;
       n_start := a; n_new := b; n_run := c; n_wait := d; n_he := e; n_defer := f;
       fw_on := fw_on s; fw_checked := fw_checked s; calls := calls s; consumes := consumes s; fuel := fuel s; work := work s;
       panic := panic s |}.
  Definition set_budget (s : st) (f wk : nat) : st :=
    {| closed_ch := closed_ch s; once := once s; lock := lock s; member := member s; errs := errs s; seen_e := seen_e s;
       client_closed := client_closed s; kc := kc s; ke := ke s; cc := cc s;
       ctx_done := ctx_done s; wg := wg s; rel_once := rel_once s; hb_dying := hb_dying s; hb_dead := hb_dead s; hb := hb s; lc := lc s;
       n_start := n_start s; n_new := n_new s; n_run := n_run s; n_wait := n_wait s; n_he := n_he s; n_defer := n_defer s;
       fw_on := fw_on s; fw_checked := fw_checked s; calls := calls s; consumes := consumes s; fuel := f; work := wk;
       panic := panic s |}.
  Definition set_fw (s : st) (on : bool) (n : nat) : st :=
    {| closed_ch := closed_ch s; once := once s; lock := lock s; member := member s; errs := errs s; seen_e := seen_e s;
       client_closed := client_closed s; kc := kc s; ke := ke s; cc := cc s;
       ctx_done := ctx_done s; wg := wg s; rel_once := rel_once s; hb_dying := hb_dying s; hb_dead := hb_dead s; hb := hb s; lc := lc s;
       n_start := n_start s; n_new := n_new s; n_run := n_run s; n_wait := n_wait s; n_he := n_he s; n_defer := n_defer s;
       fw_on := on; fw_checked := n; calls := calls s; consumes := consumes s; fuel := fuel s; work := work s;
       panic := panic s |}.

  (* a timer event: free before c.closed is closed, one unit of fuel afterwards *)
  Definition tick (s : st) : option st :=
    if closed_ch s then match fuel s with 0 => None | S f => Some (set_budget s f (work s)) end else Some s.
  (* one more error to report *)
  Definition toil (s : st) : option st :=
    match work s with 0 => None | S k => Some (set_budget s (fuel s) k) end.

  (* handleError, first step: Return.Errors off -> logged; c.closed closed -> dropped; else go on to the send.
     true = proceed to the send *)
  Definition he_check (c : cfg) (s : st) : bool := ret_err c && negb (closed_ch s).

  (* handleError, second step: select { case c.errors <- err: default: } *)
  Definition he_send (c : cfg) (s : st) (h : hnd) : option st :=
    match h with
    | HBuf => if len (errs s) <? ecap c then Some (set_errs s (ch_push (errs s)) (closed (errs s))) else None
    | HApp => if len (errs s) =? 0 then Some (set_errs s (errs s) (closed (errs s))) else None
    | HClose => match kc s with
                | KDrain r => if len (errs s) =? 0 then Some (set_kc (set_errs s (errs s) (closed (errs s))) (KDrain 1)) else None
                | _ => None
                end
    | HDrop => (* default branch: no slot; a send on a closed channel panics even inside a select *)
      if ecap c <=? len (errs s) then Some (set_errs s (errs s) (closed (errs s))) else None
    end.

  (* somebody of the session-bound goroutines is between check and send: with errorsLock they hold RLock *)
  Definition sync_checked (s : st) : bool :=
    (0 <? n_he s) || match hb s with HHe => true | _ => false end || match cc s with CRelHe _ => true | _ => false end.

  Definition step (c : cfg) (s : st) (a : act) : option st :=
    match a with
    (* ---------------- application ---------------- *)
    | AKCall =>
      match kc s with
      | KIdle =>
        if negb (calls s <? max_calls c) then None else
        let s1 := {| closed_ch := closed_ch s; once := true; lock := lock s; member := member s; errs := errs s; seen_e := seen_e s;
                     client_closed := client_closed s; kc := (if once s then KRet 0 else KCloseCh); ke := ke s; cc := cc s;
                     ctx_done := ctx_done s; wg := wg s; rel_once := rel_once s; hb_dying := hb_dying s; hb_dead := hb_dead s; hb := hb s; lc := lc s;
                     n_start := n_start s; n_new := n_new s; n_run := n_run s; n_wait := n_wait s; n_he := n_he s; n_defer := n_defer s;
                     fw_on := fw_on s; fw_checked := fw_checked s; calls := S (calls s); consumes := consumes s; fuel := fuel s; work := work s;
                     panic := panic s |} in Some s1
      | _ => None
      end
    | AKRet r => match kc s with KRet r' => if r =? r' then Some (set_kc s KIdle) else None | _ => None end
    | ACCall =>
      match cc s with
      | CIdle =>
        if negb (consumes s <? max_consume c) then None else
        Some {| closed_ch := closed_ch s; once := once s; lock := lock s; member := member s; errs := errs s; seen_e := seen_e s;
                client_closed := client_closed s; kc := kc s; ke := ke s; cc := (if closed_ch s then CRet 1 else CLock);
                ctx_done := ctx_done s; wg := wg s; rel_once := rel_once s; hb_dying := hb_dying s; hb_dead := hb_dead s; hb := hb s; lc := lc s;
                n_start := n_start s; n_new := n_new s; n_run := n_run s; n_wait := n_wait s; n_he := n_he s; n_defer := n_defer s;
                fw_on := fw_on s; fw_checked := fw_checked s; calls := calls s; consumes := S (consumes s); fuel := fuel s; work := work s;
                panic := panic s |}
      | _ => None
      end
    | ACRet r => match cc s with CRet r' => if r =? r' then Some (set_cc s CIdle) else None | _ => None end
    | ARecvErr => match kc s, len (errs s) with
                  | _, 0 => None
                  | _, S _ => Some (set_errs s (ch_pop (errs s)) false)
                  end
    | ASeeClosed => if closed (errs s) && (len (errs s) =? 0) && negb (seen_e s)
                    then Some {| closed_ch := closed_ch s; once := once s; lock := lock s; member := member s; errs := errs s; seen_e := true;
                                 client_closed := client_closed s; kc := kc s; ke := ke s; cc := cc s;
                                 ctx_done := ctx_done s; wg := wg s; rel_once := rel_once s; hb_dying := hb_dying s; hb_dead := hb_dead s; hb := hb s; lc := lc s;
                                 n_start := n_start s; n_new := n_new s; n_run := n_run s; n_wait := n_wait s; n_he := n_he s; n_defer := n_defer s;
                                 fw_on := fw_on s; fw_checked := fw_checked s; calls := calls s; consumes := consumes s; fuel := fuel s; work := work s;
                                 panic := panic s |}
                    else None
    (* ---------------- Close ---------------- *)
    | AKCloseCh =>
      match kc s with
      | KCloseCh => Some {| closed_ch := true; once := once s; lock := lock s; member := member s; errs := errs s; seen_e := seen_e s;
                            client_closed := client_closed s; kc := KLeaveLock; ke := ke s; cc := cc s;
                            ctx_done := ctx_done s; wg := wg s; rel_once := rel_once s; hb_dying := hb_dying s; hb_dead := hb_dead s; hb := hb s; lc := lc s;
                            n_start := n_start s; n_new := n_new s; n_run := n_run s; n_wait := n_wait s; n_he := n_he s; n_defer := n_defer s;
                            fw_on := fw_on s; fw_checked := fw_checked s; calls := calls s; consumes := consumes s; fuel := fuel s; work := work s;
                            panic := panic s || closed_ch s |}
      | _ => None
      end
    | AKLeaveLock =>
      match kc s, lock s with
      | KLeaveLock, LNone => if member s then Some (set_lk s LLeave true KLeaveNet (cc s))
                             else Some (set_lk s LNone false (KSpawn 0) (cc s))
      | _, _ => None
      end
    | AKLeaveNet ok r =>
      match kc s with
      | KLeaveNet => if ok then if r <=? 1 then Some (set_lk s LNone false (KSpawn r) (cc s)) else None
                     else Some (set_lk s LNone (member s) (KSpawn 1) (cc s))
      | _ => None
      end
    | AKSpawn =>
      match kc s, ke s with
      | KSpawn r, ENone =>
        Some {| closed_ch := closed_ch s; once := once s; lock := lock s; member := member s; errs := errs s; seen_e := seen_e s;
                client_closed := client_closed s; kc := KDrain r; ke := EPending; cc := cc s;
                ctx_done := ctx_done s; wg := wg s; rel_once := rel_once s; hb_dying := hb_dying s; hb_dead := hb_dead s; hb := hb s; lc := lc s;
                n_start := n_start s; n_new := n_new s; n_run := n_run s; n_wait := n_wait s; n_he := n_he s; n_defer := n_defer s;
                fw_on := fw_on s; fw_checked := fw_checked s; calls := calls s; consumes := consumes s; fuel := fuel s; work := work s;
                panic := panic s |}
      | _, _ => None
      end
    | AECloseErrs =>
      match ke s with
      | EPending =>
        (* with errorsLock the close waits for everybody inside handleError *)
        if elock c && ((0 <? fw_checked s) || sync_checked s) then None else
        Some {| closed_ch := closed_ch s; once := once s; lock := lock s; member := member s; errs := ch_close (errs s); seen_e := seen_e s;
                client_closed := client_closed s; kc := kc s; ke := EDone; cc := cc s;
                ctx_done := ctx_done s; wg := wg s; rel_once := rel_once s; hb_dying := hb_dying s; hb_dead := hb_dead s; hb := hb s; lc := lc s;
                n_start := n_start s; n_new := n_new s; n_run := n_run s; n_wait := n_wait s; n_he := n_he s; n_defer := n_defer s;
                fw_on := fw_on s; fw_checked := fw_checked s; calls := calls s; consumes := consumes s; fuel := fuel s; work := work s;
                panic := panic s || closed (errs s) |}
      | _ => None
      end
    | AKDrainRecv =>
      match kc s, len (errs s) with
      | KDrain _, S _ => Some (set_kc (set_errs s (ch_pop (errs s)) false) (KDrain 1))
      | _, _ => None
      end
    | AKDrainEnd =>
      match kc s with
      | KDrain r => if closed (errs s) && (len (errs s) =? 0) then Some (set_kc s (KClient r)) else None
      | _ => None
      end
    | AKClient r =>
      match kc s with
      | KClient r0 =>
        if (r0 <=? r) && (r <=? 1) then
          Some {| closed_ch := closed_ch s; once := once s; lock := lock s; member := member s; errs := errs s; seen_e := seen_e s;
                  client_closed := true; kc := KRet r; ke := ke s; cc := cc s;
                  ctx_done := ctx_done s; wg := wg s; rel_once := rel_once s; hb_dying := hb_dying s; hb_dead := hb_dead s; hb := hb s; lc := lc s;
                  n_start := n_start s; n_new := n_new s; n_run := n_run s; n_wait := n_wait s; n_he := n_he s; n_defer := n_defer s;
                  fw_on := fw_on s; fw_checked := fw_checked s; calls := calls s; consumes := consumes s; fuel := fuel s; work := work s;
                  panic := panic s |}
        else None
      | _ => None
      end
    (* ---------------- Consume ---------------- *)
    | ACLock => match cc s, lock s with
                | CLock, LNone => Some (set_lk s LConsume (member s) (kc s) CRefresh)
                | _, _ => None end
    | ACRefresh ok =>
      match cc s with
      | CRefresh => if ok then if client_closed s then None else Some (set_cc s (CJoin (retry c)))
                    else Some (set_lk s LNone (member s) (kc s) (CRet 2))
      | _ => None
      end
    | ACJoin j =>
      match cc s with
      | CJoin lft =>
        match j with
        | JOk => if client_closed s then None else Some (set_lk s LConsume true (kc s) CSetup)
        | JRetry => match lft with
                    | 0 => Some (set_lk s LNone (member s) (kc s) (CRet 2))
                    | S _ => Some (set_cc s (CBackoff lft))
                    end
        | JAgain => (* UnknownMemberId / IllegalGeneration: memberID = "", rejoin at once *)
          match tick s with
          | Some s1 => Some (set_lk s1 LConsume false (kc s) (CJoin lft))
          | None => None
          end
        | JFail joined r =>
          if ((r =? 2) || ((r =? 1) && client_closed s)) then
            Some (set_lk s LNone (member s || joined) (kc s) (CRet r))
          else None
        end
      | _ => None
      end
    | ACBackClosed =>
      match cc s with
      | CBackoff _ => if closed_ch s then Some (set_lk s LNone (member s) (kc s) (CRet 1)) else None
      | _ => None
      end
    | ACBackTimer =>
      match cc s with
      | CBackoff lft => match tick s with
                         | Some s1 => Some (set_cc s1 (CJoin (pred lft)))
                         | None => None end
      | _ => None
      end
    | ACSetup m =>
      match cc s with
      | CSetup =>
        match m with
        | SFailEarly => Some (set_lk s LNone (member s) (kc s) (CRet 2))
        | SFailLate =>
          (* heartbeat already running; release(false/true) is run before returning the error *)
          Some (set_cc (set_sess s false 0 false false false HNet LcNone) (CRel1 2))
        | SOk =>
          if client_closed s then None else
          Some (set_fw (set_claims (set_cc (set_sess s false (nclaims c) false false false HNet LcNet) CWaitCtx)
                                   (nclaims c) 0 0 0 0 0)
                       (fw_on s || (0 <? nclaims c)) (fw_checked s))
        end
      | _ => None
      end
    | ACCtxDone => match cc s with CWaitCtx => if ctx_done s then Some (set_cc s (CRel1 0)) else None | _ => None end
    | ACRel1 => match cc s with CRel1 r => Some (set_cc (set_ctx s true) (CRelWait r)) | _ => None end
    | ACRelWait => match cc s with CRelWait r => if wg s =? 0 then Some (set_cc s (CRel2 r)) else None | _ => None end
    | ACRel2 cleanup_err =>
      match cc s with
      | CRel2 r =>
        if rel_once s then Some (set_lk s LNone (member s) (kc s) (CRet r))
        else
          let s1 := set_sess s (ctx_done s) (wg s) true (hb_dying s) (hb_dead s) (hb s) (lc s) in
          if cleanup_err then
            (* handleError(e, "", -1): first step *)
            if he_check c s then Some (set_cc s1 (CRelHe 2)) else Some (set_cc s1 (CRel3 2))
          else Some (set_cc s1 (CRel3 r))
      | _ => None
      end
    | ACRelHe h =>
      match cc s with
      | CRelHe r => match he_send c s h with Some s1 => Some (set_cc s1 (CRel3 r)) | None => None end
      | _ => None
      end
    | ACRel3 =>
      match cc s with
      | CRel3 r => Some (with_panic (set_cc (set_sess s (ctx_done s) (wg s) (rel_once s) true (hb_dead s) (hb s) (lc s)) (CRel4 r))
                                    (hb_dying s))
      | _ => None
      end
    | ACRel4 =>
      match cc s with
      | CRel4 r => if hb_dead s then Some (set_lk s LNone (member s) (kc s) (CRet r)) else None
      | _ => None
      end
    (* ---------------- heartbeat loop ---------------- *)
    | AHNet x =>
      match hb s with
      | HNet =>
        match x with
        | HbOk => Some (set_hb s HSel)
        | HbStop => Some (set_hb s HExit)
        | HbRetry => match tick s with Some s1 => Some (set_hb s1 HNet) | None => None end
        | HbNoCoord => Some (set_hb s HBack)
        | HbFatal => if he_check c s then Some (set_hb s HHe) else Some (set_hb s HExit)
        end
      | _ => None
      end
    | AHBackDying => match hb s with HBack => if hb_dying s then Some (set_hb s HExit) else None | _ => None end
    | AHBackTimer => match hb s with
                     | HBack => match tick s with Some s1 => Some (set_hb s1 HNet) | None => None end
                     | _ => None end
    | AHTick => match hb s with
                | HSel => match tick s with Some s1 => Some (set_hb s1 HNet) | None => None end
                | _ => None end
    | AHDying => match hb s with HSel => if hb_dying s then Some (set_hb s HExit) else None | _ => None end
    | AHHe h => match hb s with
                | HHe => match he_send c s h with Some s1 => Some (set_hb s1 HExit) | None => None end
                | _ => None end
    | AHExit =>
      (* deferred: s.cancel(); close(s.hbDead) *)
      match hb s with
      | HExit => Some (with_panic (set_sess s true (wg s) (rel_once s) (hb_dying s) true HDone (lc s)) (hb_dead s))
      | _ => None
      end
    (* ---------------- partition-count loop ---------------- *)
    | ALNet same => match lc s with
                    | LcNet => Some (set_lc s (if same then LcSel else LcExit))
                    | _ => None end
    | ALTick => match lc s with
                | LcSel => match tick s with Some s1 => Some (set_lc s1 LcNet) | None => None end
                | _ => None end
    | ALStop => match lc s with
                | LcSel => if ctx_done s || closed_ch s then Some (set_lc s LcExit) else None
                | _ => None end
    | ALExit => match lc s with
                | LcExit => Some (set_lc (set_ctx s true) LcDone)
                | _ => None end
    (* ---------------- consume goroutines ---------------- *)
    | AGStart =>
      match n_start s with
      | S k => if ctx_done s || closed_ch s
               then Some (set_claims s k (n_new s) (n_run s) (n_wait s) (n_he s) (S (n_defer s)))
               else Some (set_claims s k (S (n_new s)) (n_run s) (n_wait s) (n_he s) (n_defer s))
      | 0 => None
      end
    | AGNew ok =>
      match n_new s with
      | S k => if ok then Some (set_claims s (n_start s) k (S (n_run s)) (n_wait s) (n_he s) (n_defer s))
               else if he_check c s
                    then Some (set_claims s (n_start s) k (n_run s) (n_wait s) (S (n_he s)) (n_defer s))
                    else Some (set_claims s (n_start s) k (n_run s) (n_wait s) (n_he s) (S (n_defer s)))
      | 0 => None
      end
    | AGRunEnd err =>
      (* ConsumeClaim returns: its Messages() was closed (after the watcher's AsyncClose) or by itself; a handler
         that waits for the session context ([hctx]) returns only after the session was cancelled — by another
         consume goroutine's exit, by the heartbeat loop, or by the partition-number watcher (ALStop / ALExit),
         the only one of them that reacts to c.closed when no claim ends by itself *)
      match n_run s with
      | S k => if hctx c && negb (ctx_done s) then None else
               if err then
                 match toil s with
                 | Some s1 => if he_check c s
                              then Some (set_claims s1 (n_start s) (n_new s) k (n_wait s) (S (n_he s)) (n_defer s))
                              else Some (set_claims s1 (n_start s) (n_new s) k (S (n_wait s)) (n_he s) (n_defer s))
                 | None => None
                 end
               else Some (set_claims s (n_start s) (n_new s) k (S (n_wait s)) (n_he s) (n_defer s))
      | 0 => None
      end
    | AGWaitErr =>
      (* waitClosed returned an error of the partition consumer: handleError *)
      match n_wait s with
      | S k => match toil s with
               | Some s1 => if he_check c s
                            then Some (set_claims s1 (n_start s) (n_new s) (n_run s) k (S (n_he s)) (n_defer s))
                            else Some s1
               | None => None
               end
      | 0 => None
      end
    | AGWaitEnd =>
      match n_wait s with
      | S k => Some (set_claims s (n_start s) (n_new s) (n_run s) k (n_he s) (S (n_defer s)))
      | 0 => None
      end
    | AGHe h =>
      (* second step of a consume goroutine's handleError; it continues in its drain loop (or ends) *)
      match n_he s with
      | S k => match he_send c s h with
               | Some s1 => Some (set_claims s1 (n_start s) (n_new s) (n_run s) (S (n_wait s)) k (n_defer s))
               | None => None end
      | 0 => None
      end
    | AGDefer =>
      (* deferred: sess.cancel(); sess.waitGroup.Done() *)
      match n_defer s with
      | S k => Some (with_panic (set_claims (set_sess s true (pred (wg s)) (rel_once s) (hb_dying s) (hb_dead s) (hb s) (lc s))
                                            (n_start s) (n_new s) (n_run s) (n_wait s) (n_he s) k)
                                (wg s =? 0))
      | 0 => None
      end
    (* ---------------- forwarders ---------------- *)
    | AFwCheck =>
      if fw_on s then
        match toil s with
        | Some s1 => if he_check c s then Some (set_fw s1 true (S (fw_checked s))) else Some s1
        | None => None
        end
      else None
    | AFwSend h =>
      match fw_checked s with
      | S k => match he_send c s h with Some s1 => Some (set_fw s1 (fw_on s) k) | None => None end
      | 0 => None
      end
    end.

  (* ---- observations ---- *)
  Definition fClose : nat := 0.
  Definition fConsume : nat := 1.
  Definition chE : nat := 0.

  Definition lbl_h (h : hnd) : option obs := match h with HApp => Some (OEv chE) | _ => None end.
  Definition lbl (a : act) : option obs :=
    match a with
    | AKCall => Some (OCall fClose)
    | AKRet r => Some (ORet fClose r)
    | ACCall => Some (OCall fConsume)
    | ACRet r => Some (ORet fConsume r)
    | ARecvErr => Some (OEv chE)
    | ASeeClosed => Some (OClosed chE)
    | ACRelHe h | AHHe h | AGHe h | AFwSend h => lbl_h h
    | _ => None
    end.

  (* ---- observer automaton ----
     Close: the first call returns nil or an error (0/1), every later one nil.  c.errors: events only
     before its close was observed and not after the first Close returned (Close drained it); closed
     only after Close was called.  Consume: a call made after the first Close returned answers
     ErrClosedConsumerGroup; one made before Close was called does not answer ErrClosedConsumerGroup
     unless Close was called meanwhile. *)
  Record os := {
    q_kcalled : bool; q_kin : bool; q_kret : bool;       (* Close called / in progress / first returned *)
    q_e : bool;                                          (* close of errors observed *)
    q_cin : bool; q_cafter : bool }.                     (* Consume in progress; it was called after Close returned *)
  Definition oinit : os := {| q_kcalled := false; q_kin := false; q_kret := false; q_e := false; q_cin := false; q_cafter := false |}.

  Definition ostep (q : os) (o : obs) : option os :=
    match o with
    | OCall 0 => if q_kin q then None
                 else Some {| q_kcalled := true; q_kin := true; q_kret := q_kret q; q_e := q_e q; q_cin := q_cin q; q_cafter := q_cafter q |}
    | ORet 0 r => if q_kin q && ((r =? 0) || ((r =? 1) && negb (q_kret q)))
                  then Some {| q_kcalled := true; q_kin := false; q_kret := true; q_e := q_e q; q_cin := q_cin q; q_cafter := q_cafter q |}
                  else None
    | OCall 1 => if q_cin q then None
                 else Some {| q_kcalled := q_kcalled q; q_kin := q_kin q; q_kret := q_kret q; q_e := q_e q; q_cin := true; q_cafter := q_kret q |}
    | ORet 1 r => if q_cin q &&
                     (if q_cafter q then r =? 1 else (r <=? 2) && (negb (r =? 1) || q_kcalled q))
                  then Some {| q_kcalled := q_kcalled q; q_kin := q_kin q; q_kret := q_kret q; q_e := q_e q; q_cin := false; q_cafter := false |}
                  else None
    | OEv 0 => if q_e q || q_kret q then None else Some q
    | OClosed 0 => if q_e q || negb (q_kcalled q) then None
                   else Some {| q_kcalled := q_kcalled q; q_kin := q_kin q; q_kret := q_kret q; q_e := true; q_cin := q_cin q; q_cafter := q_cafter q |}
    | _ => None
    end.
  Definition accepts (l : list obs) : bool := oaccepts ostep oinit l.

  Definition closing (s : st) : Prop := closed_ch s = true.
  Definition session_over (s : st) : Prop :=
    n_start s = 0 /\ n_new s = 0 /\ n_run s = 0 /\ n_wait s = 0 /\ n_he s = 0 /\ n_defer s = 0 /\
    (hb s = HNone \/ hb s = HDone) /\ (lc s = LcNone \/ lc s = LcDone).
  Definition final (s : st) : Prop :=
    kc s = KIdle /\ cc s = CIdle /\ ke s = EDone /\ closed (errs s) = true /\ client_closed s = true /\
    lock s = LNone /\ session_over s.
End Grp.
