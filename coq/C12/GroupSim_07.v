(* C12 — consumer group, simulation by the observer automaton : one lemma per action, by [GrpSim.sim_go]. *)
(* part 7 of 9; lemmas packed by proof time so that no file of the family takes much over a minute *)
From Coq Require Import List Arith Bool Lia.
From SV Require Import C12.Lts C12.LtsProofs C12.Tac C12.Group C12.GroupProofs C12.GroupSafety C12.GroupSim.
Import ListNotations. Import Grp. Import GrpP. Import GrpSim.

Lemma sim_ACRelHe c s q s' h : (elock c = true \/ ~ GrpS.racy s (ACRelHe h)) -> R s q -> step c s (ACRelHe h) = Some s' ->
  match lbl (ACRelHe h) with None => R s' q | Some o => exists q', ostep q o = Some q' /\ R s' q' end.
Proof. intros G HR H. sim_go. Qed.
Lemma sim_ALStop c s q s'  : (elock c = true \/ ~ GrpS.racy s ALStop) -> R s q -> step c s ALStop = Some s' ->
  match lbl ALStop with None => R s' q | Some o => exists q', ostep q o = Some q' /\ R s' q' end.
Proof. intros G HR H. sim_go. Qed.
Lemma sim_ALNet c s q s' same : (elock c = true \/ ~ GrpS.racy s (ALNet same)) -> R s q -> step c s (ALNet same) = Some s' ->
  match lbl (ALNet same) with None => R s' q | Some o => exists q', ostep q o = Some q' /\ R s' q' end.
Proof. intros G HR H. sim_go. Qed.
Lemma sim_AHBackTimer c s q s'  : (elock c = true \/ ~ GrpS.racy s AHBackTimer) -> R s q -> step c s AHBackTimer = Some s' ->
  match lbl AHBackTimer with None => R s' q | Some o => exists q', ostep q o = Some q' /\ R s' q' end.
Proof. intros G HR H. sim_go. Qed.
Lemma sim_ACRel3 c s q s'  : (elock c = true \/ ~ GrpS.racy s ACRel3) -> R s q -> step c s ACRel3 = Some s' ->
  match lbl ACRel3 with None => R s' q | Some o => exists q', ostep q o = Some q' /\ R s' q' end.
Proof. intros G HR H. sim_go. Qed.
