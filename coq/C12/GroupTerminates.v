(* C12 — consumer group: the shutdown terminates (repaired tree). *)
From Coq Require Import List Arith Bool Lia.
From SV Require Import C12.Lts C12.LtsProofs C12.Tac C12.ConnProofs C12.Group C12.GroupProofs C12.GroupSafety C12.GroupTerm C12.GroupTerm_01 C12.GroupTerm_02 C12.GroupTerm_03.
Import ListNotations.

Module GrpTT.
  Import Grp. Import GrpP. Import GrpT.

  Lemma inv2_step c s a s' : Inv2 s -> Inv s -> step c s a = Some s' -> Inv2 s'.
  Proof.
    intros J I H. destruct a.
    - eapply j_AKCall; eauto.
    - eapply j_AKRet; eauto.
    - eapply j_ACCall; eauto.
    - eapply j_ACRet; eauto.
    - eapply j_ARecvErr; eauto.
    - eapply j_ASeeClosed; eauto.
    - eapply j_AKCloseCh; eauto.
    - eapply j_AKLeaveLock; eauto.
    - eapply j_AKLeaveNet; eauto.
    - eapply j_AKSpawn; eauto.
    - eapply j_AECloseErrs; eauto.
    - eapply j_AKDrainRecv; eauto.
    - eapply j_AKDrainEnd; eauto.
    - eapply j_AKClient; eauto.
    - eapply j_ACLock; eauto.
    - eapply j_ACRefresh; eauto.
    - eapply j_ACJoin; eauto.
    - eapply j_ACBackClosed; eauto.
    - eapply j_ACBackTimer; eauto.
    - eapply j_ACSetup; eauto.
    - eapply j_ACCtxDone; eauto.
    - eapply j_ACRel1; eauto.
    - eapply j_ACRelWait; eauto.
    - eapply j_ACRel2; eauto.
    - eapply j_ACRelHe; eauto.
    - eapply j_ACRel3; eauto.
    - eapply j_ACRel4; eauto.
    - eapply j_AHNet; eauto.
    - eapply j_AHBackDying; eauto.
    - eapply j_AHBackTimer; eauto.
    - eapply j_AHTick; eauto.
    - eapply j_AHDying; eauto.
    - eapply j_AHHe; eauto.
    - eapply j_AHExit; eauto.
    - eapply j_ALNet; eauto.
    - eapply j_ALTick; eauto.
    - eapply j_ALStop; eauto.
    - eapply j_ALExit; eauto.
    - eapply j_AGStart; eauto.
    - eapply j_AGNew; eauto.
    - eapply j_AGRunEnd; eauto.
    - eapply j_AGWaitErr; eauto.
    - eapply j_AGWaitEnd; eauto.
    - eapply j_AGHe; eauto.
    - eapply j_AGDefer; eauto.
    - eapply j_AFwCheck; eauto.
    - eapply j_AFwSend; eauto.
  Qed.

  Lemma mu_step c s a s' : Inv s -> closed_ch s = true -> step c s a = Some s' -> lt3 (mu c s') (mu c s).
  Proof.
    intros I P H. destruct a.
    - eapply m_AKCall; eauto.
    - eapply m_AKRet; eauto.
    - eapply m_ACCall; eauto.
    - eapply m_ACRet; eauto.
    - eapply m_ARecvErr; eauto.
    - eapply m_ASeeClosed; eauto.
    - eapply m_AKCloseCh; eauto.
    - eapply m_AKLeaveLock; eauto.
    - eapply m_AKLeaveNet; eauto.
    - eapply m_AKSpawn; eauto.
    - eapply m_AECloseErrs; eauto.
    - eapply m_AKDrainRecv; eauto.
    - eapply m_AKDrainEnd; eauto.
    - eapply m_AKClient; eauto.
    - eapply m_ACLock; eauto.
    - eapply m_ACRefresh; eauto.
    - eapply m_ACJoin; eauto.
    - eapply m_ACBackClosed; eauto.
    - eapply m_ACBackTimer; eauto.
    - eapply m_ACSetup; eauto.
    - eapply m_ACCtxDone; eauto.
    - eapply m_ACRel1; eauto.
    - eapply m_ACRelWait; eauto.
    - eapply m_ACRel2; eauto.
    - eapply m_ACRelHe; eauto.
    - eapply m_ACRel3; eauto.
    - eapply m_ACRel4; eauto.
    - eapply m_AHNet; eauto.
    - eapply m_AHBackDying; eauto.
    - eapply m_AHBackTimer; eauto.
    - eapply m_AHTick; eauto.
    - eapply m_AHDying; eauto.
    - eapply m_AHHe; eauto.
    - eapply m_AHExit; eauto.
    - eapply m_ALNet; eauto.
    - eapply m_ALTick; eauto.
    - eapply m_ALStop; eauto.
    - eapply m_ALExit; eauto.
    - eapply m_AGStart; eauto.
    - eapply m_AGNew; eauto.
    - eapply m_AGRunEnd; eauto.
    - eapply m_AGWaitErr; eauto.
    - eapply m_AGWaitEnd; eauto.
    - eapply m_AGHe; eauto.
    - eapply m_AGDefer; eauto.
    - eapply m_AFwCheck; eauto.
    - eapply m_AFwSend; eauto.
  Qed.

  (* c.closed stays closed *)
  Lemma closed_step c s a s' : closed_ch s = true -> step c s a = Some s' -> closed_ch s' = true.
  Proof.
    intros P H. destruct a; scbn H; unfold tick, toil, he_check, he_send, sync_checked in H;
      step_cases H; pair_cases; unfold set_errs, with_panic, set_kc, set_cc, set_lk, set_sess, set_ctx, set_hb, set_lc, set_claims, set_budget, set_fw; cbn; auto; try congruence; try discriminate.
  Qed.

  Definition ph (c : cfg) (s : st) : Prop := Inv s /\ Inv2 s /\ closed_ch s = true.

  Lemma reach_inv12 c s : elock c = true -> Reach (step c) (init c) s -> Inv s /\ Inv2 s.
  Proof.
    intros E. apply (reach_inv (step c) (fun s => Inv s /\ Inv2 s)).
    - split; [apply inv_init | apply inv2_init].
    - intros s0 a s1 [I J] H. split; [eapply GrpS.inv_step; eauto | eapply inv2_step; eauto].
  Qed.

  (* Under the stated assumptions (every timer event after the close and every error report consumes from
     finite budgets; the application makes finitely many calls; network calls return — they are single
     steps here), from the moment c.closed is closed: no infinite run, and whenever nothing can move,
     Close and Consume have returned, c.errors is closed, the client is closed, the lock is free and no
     goroutine of the session is left. *)
  Theorem group_terminates : forall c, elock c = true ->
    Terminates (step c) (fun s => Reach (step c) (init c) s /\ closed_ch s = true) final.
  Proof.
    intros c E. apply terminates_weaken with (ph2 := ph c).
    - intros s [R P]. destruct (reach_inv12 c s E R). split; auto.
    - apply terminates_by_measure with (R := lt3) (mu := mu c).
      + apply lt3_wf.
      + intros s a s' (I & J & P) H. eapply mu_step; eauto.
      + intros s (I & J & P) Hs. eapply stuck_final; eauto.
  Qed.

  (* The partition-number watcher (loopCheckPartitionNumbers) is the goroutine that turns c.closed into the end of the
     session when no claim ends by itself (empty assignment; handlers that wait for the session context): while
     Consume waits for the session context the watcher is alive or the context is already cancelled; a watcher that
     has returned has cancelled the context; consume goroutines exist only in a session whose watcher was started;
     and a watcher waiting in its select leaves as soon as c.closed is closed (the `case <-c.closed` arm). *)
  Theorem group_watcher : forall c s, elock c = true -> Reach (step c) (init c) s ->
    (cc s = CWaitCtx -> ctx_done s = true \/ lc s = LcNet \/ lc s = LcSel \/ lc s = LcExit) /\
    (lc s = LcDone -> ctx_done s = true) /\
    (1 <= n_start s + n_new s + n_run s + n_wait s + n_he s + n_defer s -> lc s <> LcNone) /\
    (lc s = LcSel -> closed_ch s = true -> exists s', step c s ALStop = Some s' /\ lc s' = LcExit).
  Proof.
    intros c s E R. destruct (reach_inv12 c s E R) as [I J]. destruct J as [J1 J2 J3 J4 J5 J6].
    pose proof (l_spec3 (lc s)). pose proof (b2n_le1 (ctx_done s)). unfold claims in J6.
    repeat split.
    - intro D. rewrite D in *. cbn in *. destruct (ctx_done s); auto. destruct (lc s); cbn in *; auto; lia.
    - intro D. rewrite D in *. cbn in *. destruct (ctx_done s); auto. cbn in *. lia.
    - intros D N. specialize (J6 D). rewrite N in *. cbn in *. lia.
    - intros D P. cbn. rewrite D, P. rewrite orb_true_r. eexists. split; [reflexivity|]. reflexivity.
  Qed.

  (* release() waits for hbDead only in a session whose heartbeat loop was started: from the moment Consume waits for
     the session context until release has returned, the heartbeat loop is running or has closed hbDead (the session
     object is created with the loop already started, before the claims' offsets are fetched — a failure there
     releases a session that has its heartbeat loop); and release waits on hbDead only after closing hbDying *)
  Theorem group_release_has_heartbeat : forall c s, elock c = true -> Reach (step c) (init c) s ->
    ((cc s = CWaitCtx \/ (exists r, cc s = CRel1 r) \/ (exists r, cc s = CRelWait r) \/ (exists r, cc s = CRel2 r) \/
      (exists r, cc s = CRelHe r) \/ (exists r, cc s = CRel3 r) \/ (exists r, cc s = CRel4 r)) -> hb s <> HNone) /\
    ((exists r, cc s = CRel4 r) -> hb_dying s = true) /\
    (hb s = HDone <-> hb_dead s = true).
  Proof.
    intros c s E R. destruct (reach_inv12 c s E R) as [I J]. destruct J as [J1 J2 J3 J4 J5 J6]. destr_inv I.
    pose proof (h_spec (hb s)). pose proof (b2n_le1 (hb_dying s)). pose proof (b2n_le1 (hb_dead s)).
    repeat split.
    - intros D N. rewrite N in *. cbn in *.
      destruct D as [D|[[r D]|[[r D]|[[r D]|[[r D]|[[r D]|[r D]]]]]]]; rewrite D in *; cbn in *; lia.
    - intros [r D]. rewrite D in *. cbn in *. destruct (hb_dying s); auto. cbn in *. lia.
    - intro D. rewrite D in *. cbn in *. destruct (hb_dead s); auto. cbn in *. lia.
    - intro D. rewrite D in *. cbn in *. destruct (hb s); cbn in *; auto; lia.
  Qed.
End GrpTT.
