(* C12 — preservation of the producer invariant (ProdProofs.Inv), part 4: one lemma per action, by [ProdP.go]. *)
From Coq Require Import List Arith Bool Lia.
From SV Require Import C12.Lts C12.LtsProofs C12.Tac C12.Prod C12.ProdProofs.
Import ListNotations. Import Prod. Import ProdP.

Lemma step_ARhFeed c s s'  : Inv s -> step c s ARhFeed = Some s' -> Inv s'.
Proof. intros I H. go s H I. Qed.
Lemma step_ARhExit c s s'  : Inv s -> step c s ARhExit = Some s' -> Inv s'.
Proof. intros I H. go s H I. Qed.
Lemma step_ATTake c s s'  : Inv s -> step c s ATTake = Some s' -> Inv s'.
Proof. intros I H. go s H I. Qed.
Lemma step_ATErr c s s' k : Inv s -> step c s (ATErr k) = Some s' -> Inv s'.
Proof. intros I H. go s H I. Qed.
Lemma step_ATNewPp c s s'  : Inv s -> step c s ATNewPp = Some s' -> Inv s'.
Proof. intros I H. go s H I. Qed.
Lemma step_ATFwd c s s' hand : Inv s -> step c s (ATFwd hand) = Some s' -> Inv s'.
Proof. intros I H. go s H I. Qed.
