(* C12 — async producer, simulation by the observer automaton : one lemma per action, by [ProdSim.sim_go]. *)
(* part 1 of 4; lemmas packed by proof time so that no file of the family takes much over a minute *)
From Coq Require Import List Arith Bool Lia.
From SV Require Import C12.Lts C12.LtsProofs C12.Tac C12.Prod C12.ProdProofs C12.ProdSafety C12.ProdSim.
Import ListNotations. Import Prod. Import ProdP. Import ProdSim.

Lemma sim_AOld c s q s' f : R c s q -> step c s (AOld f) = Some s' ->
  match lbl c (AOld f) with None => R c s' q | Some o => exists q', ostep c q o = Some q' /\ R c s' q' end.
Proof. intros HR H. sim_go. Qed.
Lemma sim_ADErr c s q s' k : R c s q -> step c s (ADErr k) = Some s' ->
  match lbl c (ADErr k) with None => R c s' q | Some o => exists q', ostep c q o = Some q' /\ R c s' q' end.
Proof. intros HR H. sim_go. Qed.
Lemma sim_ABResolve c s q s' f : R c s q -> step c s (ABResolve f) = Some s' ->
  match lbl c (ABResolve f) with None => R c s' q | Some o => exists q', ostep c q o = Some q' /\ R c s' q' end.
Proof. intros HR H. sim_go. Qed.
