(* C12 — shutdown model of the offset manager (offset_manager.go).  Definitions only.

     Close():  closeOnce.Do {
                 close(om.closing); if AutoCommit { <-om.closed }       -- stop mainLoop
                 asyncClosePOMs()                                      -- every POM: done = true
                 if AutoCommit { for attempt := 0; attempt <= Retry.Max; attempt++ {
                                   flushToBroker(); if releasePOMs(false) == 0 { break } } }
                 releasePOMs(true); broker = nil }
     mainLoop():  defer close(om.closed)
                 for { select { case <-ticker.C: flushToBroker(); releasePOMs(false)
                                case <-om.closing: return } }
     flushToBroker():  request from the dirty POMs (none dirty: return); coordinator() (network);
                 CommitOffset (network); on a transport error every managed POM gets the error
                 (pom.errors <- err, a blocking send), on an answer each POM of the request is marked
                 clean or gets its error
     releasePOMs(force):  under pomsLock: every POM with done && (force || !dirty) is released
                 (releaseOnce: close(pom.errors)) and removed from om.poms
   A released POM is no longer in om.poms, so nothing sends to it any more.  The application drains
   every POM's Errors() until it is closed, may mark offsets and close single POMs at any time.
   [fuel] bounds how often mainLoop's select prefers the ticker although om.closing is closed. *)
From Coq Require Import List Arith Bool.
From SV Require Import C12.Lts.
Import ListNotations.

Module OM.
  Record cfg := {
    auto : bool;            (* Consumer.Offsets.AutoCommit.Enable *)
    ret_err : bool;         (* Consumer.Return.Errors *)
    ecap : nat;             (* capacity of pom.errors (ChannelBufferSize) *)
    retry_max : nat;        (* Consumer.Offsets.Retry.Max *)
    npom : nat;             (* managed partitions *)
    fuel0 : nat;
    max_calls : nat }.      (* Close calls the application makes *)

  Record pom := {
    pdone : bool;           (* AsyncClose'd *)
    dirty : bool;
    managed : bool;         (* still in om.poms *)
    rel_once : bool;        (* releaseOnce used *)
    errs : chan;            (* pom.errors *)
    seen_closed : bool }.   (* the application has observed the close *)

  Definition pom0 : pom :=
    {| pdone := false; dirty := false; managed := true; rel_once := false; errs := ch0; seen_closed := false |}.

  (* flushToBroker as a sub-machine; who runs it is given by the caller's program counter *)
  Inductive flpc :=
  | FlStart                 (* constructRequest *)
  | FlCoord                 (* coordinator(): RefreshCoordinator / Coordinator (network) *)
  | FlCommit                (* broker.CommitOffset (network) *)
  | FlErrs (i : nat)        (* handleError / per-partition errors: POM i is next *)
  | FlOk                    (* handleResponse without errors: requested POMs become clean *)
  | FlEnd.

  Inductive mlpc := MSel | MFlush (f : flpc) | MRel | MDone.
  Inductive kpc :=
  | KIdle
  | KWaitClosed             (* <-om.closed *)
  | KAsync                  (* asyncClosePOMs *)
  | KFlush (attempt : nat) (f : flpc)
  | KRel (attempt : nat)    (* releasePOMs(false) == 0 ? *)
  | KForce                  (* releasePOMs(true); broker = nil *)
  | KRet.                   (* returning nil *)

  Record st := {
    closing_ch : bool;
    closed_ch : bool;
    once : bool;            (* closeOnce consumed *)
    ml : mlpc;
    kc : kpc;
    poms : list pom;
    calls : nat;
    fuel : nat;
    panic : bool }.

  Definition init (c : cfg) : st :=
    {| closing_ch := false; closed_ch := false; once := false;
       ml := if auto c then MSel else MDone; kc := KIdle;
       poms := repeat pom0 (npom c); calls := 0; fuel := fuel0 c; panic := false |}.

  Inductive act :=
  | AMark (i : nat)           (* application: MarkOffset on POM i *)
  | APomClose (i : nat)       (* application: POM i AsyncClose *)
  | ATick                     (* mainLoop: ticker case -> Commit() *)
  | AMSeeClosing              (* mainLoop: closing case -> return -> close(om.closed) *)
  | AMRel                     (* mainLoop: releasePOMs(false) *)
  | AFl (k : bool)            (* one step of the running flush; k = environment's choice (network ok / error) *)
  | AFlHand (i : nat)         (* the flush hands POM i's error directly to the receiving application *)
  | ACall                     (* application calls Close *)
  | AKWaited | AKAsync | AKRel | AKForce
  | ARet
  | ARecv (i : nat)           (* application receives a buffered error of POM i *)
  | ASeeClosed (i : nat).     (* application observes POM i's Errors() closed *)

  (* ---- list helpers ---- *)
  Fixpoint upd_nth {A} (i : nat) (f : A -> A) (l : list A) : list A :=
    match l, i with
    | [], _ => []
    | x :: r, 0 => f x :: r
    | x :: r, S j => x :: upd_nth j f r
    end.

  Definition set_dirty (b : bool) (p : pom) : pom :=
    {| pdone := pdone p; dirty := b; managed := managed p; rel_once := rel_once p; errs := errs p; seen_closed := seen_closed p |}.
  Definition set_done (p : pom) : pom :=
    {| pdone := true; dirty := dirty p; managed := managed p; rel_once := rel_once p; errs := errs p; seen_closed := seen_closed p |}.
  Definition set_errs (e : chan) (p : pom) : pom :=
    {| pdone := pdone p; dirty := dirty p; managed := managed p; rel_once := rel_once p; errs := e; seen_closed := seen_closed p |}.
  Definition set_seen (p : pom) : pom :=
    {| pdone := pdone p; dirty := dirty p; managed := managed p; rel_once := rel_once p; errs := errs p; seen_closed := true |}.

  (* releasePOMs on one POM: pom.release() = releaseOnce.Do(close(errors)); delete from om.poms.
     Returns the POM and whether a closed channel was closed again. *)
  Definition release1 (force : bool) (p : pom) : pom * bool :=
    if managed p && pdone p && (force || negb (dirty p)) then
      if rel_once p then
        ({| pdone := pdone p; dirty := dirty p; managed := false; rel_once := true; errs := errs p; seen_closed := seen_closed p |}, false)
      else
        ({| pdone := pdone p; dirty := dirty p; managed := false; rel_once := true; errs := ch_close (errs p); seen_closed := seen_closed p |},
         closed (errs p))
    else (p, false).
  Definition release_all (force : bool) (l : list pom) : list pom * bool :=
    (map (fun p => fst (release1 force p)) l, existsb (fun p => snd (release1 force p)) l).
  Definition remaining (l : list pom) : nat := length (filter managed l).
  Definition any_dirty (l : list pom) : bool := existsb (fun p => managed p && dirty p) l.
  (* a successful commit cleans the managed POMs that were dirty when the request was built; marks made
     in between keep the POM dirty (updateCommitted compares offsets): [k] decides per flush *)
  Definition clean_all (l : list pom) : list pom := map (fun p => if managed p then set_dirty false p else p) l.

  Definition mk (s : st) cg cd o m k ps n f pn : st :=
    {| closing_ch := cg; closed_ch := cd; once := o; ml := m; kc := k; poms := ps; calls := n; fuel := f; panic := pn |}.
  Definition set_poms (s : st) ps := mk s (closing_ch s) (closed_ch s) (once s) (ml s) (kc s) ps (calls s) (fuel s) (panic s).
  Definition set_ml (s : st) m := mk s (closing_ch s) (closed_ch s) (once s) m (kc s) (poms s) (calls s) (fuel s) (panic s).
  Definition set_kc (s : st) k := mk s (closing_ch s) (closed_ch s) (once s) (ml s) k (poms s) (calls s) (fuel s) (panic s).

  (* the flush that is currently running, if any *)
  Definition cur_flush (s : st) : option flpc :=
    match ml s, kc s with
    | MFlush f, _ => Some f
    | _, KFlush _ f => Some f
    | _, _ => None
    end.
  Definition set_flush (s : st) (f : flpc) : st :=
    match ml s, kc s with
    | MFlush _, _ => set_ml s (MFlush f)
    | _, KFlush a _ => set_kc s (KFlush a f)
    | _, _ => s
    end.

  (* one step of flushToBroker; [k] is the environment's choice at the network calls *)
  Definition flush_step (c : cfg) (s : st) (f : flpc) (k : bool) : option st :=
    match f with
    | FlStart => Some (set_flush s (if any_dirty (poms s) then FlCoord else FlEnd))
    | FlCoord => Some (set_flush s (if k then FlCommit else FlErrs 0))
    | FlCommit => Some (set_flush s (if k then FlOk else FlErrs 0))
    | FlOk => Some (set_flush (set_poms s (clean_all (poms s))) FlEnd)
    | FlErrs i =>
      if npom c <=? i then Some (set_flush s FlEnd) else
      match nth_error (poms s) i with
      | None => Some (set_flush s FlEnd)
      | Some p =>
        if managed p && ret_err c then
          (* pom.errors <- cErr : needs a free slot (the direct hand-off is AFlHand) *)
          if len (errs p) <? ecap c then
            Some (mk s (closing_ch s) (closed_ch s) (once s)
                     (ml (set_flush s (FlErrs (S i)))) (kc (set_flush s (FlErrs (S i))))
                     (upd_nth i (set_errs (ch_push (errs p))) (poms s)) (calls s) (fuel s)
                     (panic s || closed (errs p)))
          else None
        else Some (set_flush s (FlErrs (S i)))
      end
    | FlEnd =>
      match ml s, kc s with
      | MFlush _, _ => Some (set_ml s MRel)
      | _, KFlush a _ => Some (set_kc s (KRel a))
      | _, _ => None
      end
    end.

  Definition step (c : cfg) (s : st) (a : act) : option st :=
    match a with
    | AMark i => match nth_error (poms s) i with
                 | Some _ => Some (set_poms s (upd_nth i (set_dirty true) (poms s)))
                 | None => None end
    | APomClose i => match nth_error (poms s) i with
                     | Some _ => Some (set_poms s (upd_nth i set_done (poms s)))
                     | None => None end
    | ATick =>
      match ml s with
      | MSel =>
        if closing_ch s then
          match fuel s with
          | 0 => None
          | S f => Some (mk s (closing_ch s) (closed_ch s) (once s) (MFlush FlStart) (kc s) (poms s) (calls s) f (panic s))
          end
        else Some (set_ml s (MFlush FlStart))
      | _ => None
      end
    | AMSeeClosing =>
      match ml s with
      | MSel => if closing_ch s
                then Some (mk s (closing_ch s) true (once s) MDone (kc s) (poms s) (calls s) (fuel s) (panic s || closed_ch s))
                else None
      | _ => None
      end
    | AMRel =>
      match ml s with
      | MRel => let '(ps, dbl) := release_all false (poms s) in
                Some (mk s (closing_ch s) (closed_ch s) (once s) MSel (kc s) ps (calls s) (fuel s) (panic s || dbl))
      | _ => None
      end
    | AFl k => match cur_flush s with Some f => flush_step c s f k | None => None end
    | AFlHand j =>
      match cur_flush s with
      | Some (FlErrs i) =>
        if negb (i =? j) then None else
        if npom c <=? i then None else
        match nth_error (poms s) i with
        | Some p => if managed p && ret_err c && (len (errs p) =? 0)
                    then Some (mk s (closing_ch s) (closed_ch s) (once s)
                                  (ml (set_flush s (FlErrs (S i)))) (kc (set_flush s (FlErrs (S i))))
                                  (poms s) (calls s) (fuel s) (panic s || closed (errs p)))
                    else None
        | None => None
        end
      | _ => None
      end
    | ACall =>
      match kc s with
      | KIdle =>
        if negb (calls s <? max_calls c) then None else
        if once s then Some (mk s (closing_ch s) (closed_ch s) true (ml s) KRet (poms s) (S (calls s)) (fuel s) (panic s))
        else Some (mk s true (closed_ch s) true (ml s) (if auto c then KWaitClosed else KAsync) (poms s)
                      (S (calls s)) (fuel s) (panic s || closing_ch s))
      | _ => None
      end
    | AKWaited => match kc s with KWaitClosed => if closed_ch s then Some (set_kc s KAsync) else None | _ => None end
    | AKAsync =>
      match kc s with
      | KAsync => Some (mk s (closing_ch s) (closed_ch s) (once s) (ml s)
                           (if auto c then KFlush 0 FlStart else KForce)
                           (map set_done (poms s)) (calls s) (fuel s) (panic s))
      | _ => None
      end
    | AKRel =>
      match kc s with
      | KRel a => let '(ps, dbl) := release_all false (poms s) in
                  Some (mk s (closing_ch s) (closed_ch s) (once s) (ml s)
                           (if (remaining ps =? 0) || (retry_max c <=? a) then KForce else KFlush (S a) FlStart)
                           ps (calls s) (fuel s) (panic s || dbl))
      | _ => None
      end
    | AKForce =>
      match kc s with
      | KForce => let '(ps, dbl) := release_all true (poms s) in
                  Some (mk s (closing_ch s) (closed_ch s) (once s) (ml s) KRet ps (calls s) (fuel s) (panic s || dbl))
      | _ => None
      end
    | ARet => match kc s with KRet => Some (set_kc s KIdle) | _ => None end
    | ARecv i =>
      match nth_error (poms s) i with
      | Some p => match len (errs p) with
                  | 0 => None
                  | S _ => Some (set_poms s (upd_nth i (set_errs (ch_pop (errs p))) (poms s)))
                  end
      | None => None
      end
    | ASeeClosed i =>
      match nth_error (poms s) i with
      | Some p => if closed (errs p) && (len (errs p) =? 0) && negb (seen_closed p)
                  then Some (set_poms s (upd_nth i set_seen (poms s))) else None
      | None => None
      end
    end.

  (* observations: API 0 = OffsetManager.Close (always returns nil); channel i = Errors() of POM i *)
  Definition fClose : nat := 0.
  Definition lbl (a : act) : option obs :=
    match a with
    | ACall => Some (OCall fClose)
    | ARet => Some (ORet fClose 0)
    | AFlHand i => Some (OEv i)
    | ARecv i => Some (OEv i)
    | ASeeClosed i => Some (OClosed i)
    | _ => None
    end.

  (* ---- observer automaton ----
     per POM: error events, then at most one close observation, nothing afterwards; Close calls and returns
     alternate and Close returns nil. *)
  Record os := { q_seen : list bool; q_call : bool }.
  Definition oinit (n : nat) : os := {| q_seen := repeat false n; q_call := false |}.

  Definition ostep (q : os) (o : obs) : option os :=
    match o with
    | OCall 0 => if q_call q then None else Some {| q_seen := q_seen q; q_call := true |}
    | ORet 0 0 => if q_call q then Some {| q_seen := q_seen q; q_call := false |} else None
    | OEv i => match nth_error (q_seen q) i with Some false => Some q | _ => None end
    | OClosed i =>
      match nth_error (q_seen q) i with
      | Some false => Some {| q_seen := upd_nth i (fun _ => true) (q_seen q); q_call := q_call q |}
      | _ => None
      end
    | _ => None
    end.
  Definition accepts (c : cfg) (l : list obs) : bool := oaccepts ostep (oinit (npom c)) l.

  Definition closing (s : st) : Prop := once s = true.
  Definition final (s : st) : Prop :=
    kc s = KIdle /\ ml s = MDone /\ Forall (fun p => managed p = false /\ closed (errs p) = true) (poms s).
End OM.
