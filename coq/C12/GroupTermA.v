(* C12 — consumer group termination, part 1: per action, the additional invariant Inv2 is preserved and the
   measure decreases in the phase. By the tactics [GrpT.jgo] / [GrpT.mgo]. *)
From Coq Require Import List Arith Bool Lia.
From SV Require Import C12.Lts C12.LtsProofs C12.Tac C12.Group C12.GroupProofs C12.GroupSafety C12.GroupTerm.
Import ListNotations. Import Grp. Import GrpP. Import GrpT.

Lemma j_AKCall c s s'  : Inv2 s -> Inv s -> step c s AKCall = Some s' -> Inv2 s'.
Proof. intros J I H. jgo. Qed.
Lemma m_AKCall c s s'  : Inv s -> closed_ch s = true -> step c s AKCall = Some s' -> lt3 (mu c s') (mu c s).
Proof. intros I P H. mgo. Qed.
Lemma j_AKRet c s s' r : Inv2 s -> Inv s -> step c s (AKRet r) = Some s' -> Inv2 s'.
Proof. intros J I H. jgo. Qed.
Lemma m_AKRet c s s' r : Inv s -> closed_ch s = true -> step c s (AKRet r) = Some s' -> lt3 (mu c s') (mu c s).
Proof. intros I P H. mgo. Qed.
Lemma j_ACCall c s s'  : Inv2 s -> Inv s -> step c s ACCall = Some s' -> Inv2 s'.
Proof. intros J I H. jgo. Qed.
Lemma m_ACCall c s s'  : Inv s -> closed_ch s = true -> step c s ACCall = Some s' -> lt3 (mu c s') (mu c s).
Proof. intros I P H. mgo. Qed.
Lemma j_ACRet c s s' r : Inv2 s -> Inv s -> step c s (ACRet r) = Some s' -> Inv2 s'.
Proof. intros J I H. jgo. Qed.
Lemma m_ACRet c s s' r : Inv s -> closed_ch s = true -> step c s (ACRet r) = Some s' -> lt3 (mu c s') (mu c s).
Proof. intros I P H. mgo. Qed.
Lemma j_ARecvErr c s s'  : Inv2 s -> Inv s -> step c s ARecvErr = Some s' -> Inv2 s'.
Proof. intros J I H. jgo. Qed.
Lemma m_ARecvErr c s s'  : Inv s -> closed_ch s = true -> step c s ARecvErr = Some s' -> lt3 (mu c s') (mu c s).
Proof. intros I P H. mgo. Qed.
Lemma j_ASeeClosed c s s'  : Inv2 s -> Inv s -> step c s ASeeClosed = Some s' -> Inv2 s'.
Proof. intros J I H. jgo. Qed.
Lemma m_ASeeClosed c s s'  : Inv s -> closed_ch s = true -> step c s ASeeClosed = Some s' -> lt3 (mu c s') (mu c s).
Proof. intros I P H. mgo. Qed.
Lemma j_AKCloseCh c s s'  : Inv2 s -> Inv s -> step c s AKCloseCh = Some s' -> Inv2 s'.
Proof. intros J I H. jgo. Qed.
Lemma m_AKCloseCh c s s'  : Inv s -> closed_ch s = true -> step c s AKCloseCh = Some s' -> lt3 (mu c s') (mu c s).
Proof. intros I P H. mgo. Qed.
Lemma j_AKLeaveLock c s s'  : Inv2 s -> Inv s -> step c s AKLeaveLock = Some s' -> Inv2 s'.
Proof. intros J I H. jgo. Qed.
Lemma m_AKLeaveLock c s s'  : Inv s -> closed_ch s = true -> step c s AKLeaveLock = Some s' -> lt3 (mu c s') (mu c s).
Proof. intros I P H. mgo. Qed.
Lemma j_AKLeaveNet c s s' ok r : Inv2 s -> Inv s -> step c s (AKLeaveNet ok r) = Some s' -> Inv2 s'.
Proof. intros J I H. jgo. Qed.
Lemma m_AKLeaveNet c s s' ok r : Inv s -> closed_ch s = true -> step c s (AKLeaveNet ok r) = Some s' -> lt3 (mu c s') (mu c s).
Proof. intros I P H. mgo. Qed.
Lemma j_AKSpawn c s s'  : Inv2 s -> Inv s -> step c s AKSpawn = Some s' -> Inv2 s'.
Proof. intros J I H. jgo. Qed.
Lemma m_AKSpawn c s s'  : Inv s -> closed_ch s = true -> step c s AKSpawn = Some s' -> lt3 (mu c s') (mu c s).
Proof. intros I P H. mgo. Qed.
Lemma j_AECloseErrs c s s'  : Inv2 s -> Inv s -> step c s AECloseErrs = Some s' -> Inv2 s'.
Proof. intros J I H. jgo. Qed.
Lemma m_AECloseErrs c s s'  : Inv s -> closed_ch s = true -> step c s AECloseErrs = Some s' -> lt3 (mu c s') (mu c s).
Proof. intros I P H. mgo. Qed.
Lemma j_AKDrainRecv c s s'  : Inv2 s -> Inv s -> step c s AKDrainRecv = Some s' -> Inv2 s'.
Proof. intros J I H. jgo. Qed.
Lemma m_AKDrainRecv c s s'  : Inv s -> closed_ch s = true -> step c s AKDrainRecv = Some s' -> lt3 (mu c s') (mu c s).
Proof. intros I P H. mgo. Qed.
Lemma j_AKDrainEnd c s s'  : Inv2 s -> Inv s -> step c s AKDrainEnd = Some s' -> Inv2 s'.
Proof. intros J I H. jgo. Qed.
Lemma m_AKDrainEnd c s s'  : Inv s -> closed_ch s = true -> step c s AKDrainEnd = Some s' -> lt3 (mu c s') (mu c s).
Proof. intros I P H. mgo. Qed.
Lemma j_AKClient c s s' r : Inv2 s -> Inv s -> step c s (AKClient r) = Some s' -> Inv2 s'.
Proof. intros J I H. jgo. Qed.
Lemma m_AKClient c s s' r : Inv s -> closed_ch s = true -> step c s (AKClient r) = Some s' -> lt3 (mu c s') (mu c s).
Proof. intros I P H. mgo. Qed.
Lemma j_ACLock c s s'  : Inv2 s -> Inv s -> step c s ACLock = Some s' -> Inv2 s'.
Proof. intros J I H. jgo. Qed.
Lemma m_ACLock c s s'  : Inv s -> closed_ch s = true -> step c s ACLock = Some s' -> lt3 (mu c s') (mu c s).
Proof. intros I P H. mgo. Qed.
Lemma j_ACRefresh c s s' ok : Inv2 s -> Inv s -> step c s (ACRefresh ok) = Some s' -> Inv2 s'.
Proof. intros J I H. jgo. Qed.
Lemma m_ACRefresh c s s' ok : Inv s -> closed_ch s = true -> step c s (ACRefresh ok) = Some s' -> lt3 (mu c s') (mu c s).
Proof. intros I P H. mgo. Qed.
Lemma j_ACJoin c s s' j : Inv2 s -> Inv s -> step c s (ACJoin j) = Some s' -> Inv2 s'.
Proof. intros J I H. jgo. Qed.
Lemma m_ACJoin c s s' j : Inv s -> closed_ch s = true -> step c s (ACJoin j) = Some s' -> lt3 (mu c s') (mu c s).
Proof. intros I P H. mgo. Qed.
Lemma j_ACBackClosed c s s'  : Inv2 s -> Inv s -> step c s ACBackClosed = Some s' -> Inv2 s'.
Proof. intros J I H. jgo. Qed.
Lemma m_ACBackClosed c s s'  : Inv s -> closed_ch s = true -> step c s ACBackClosed = Some s' -> lt3 (mu c s') (mu c s).
Proof. intros I P H. mgo. Qed.
Lemma j_ACBackTimer c s s'  : Inv2 s -> Inv s -> step c s ACBackTimer = Some s' -> Inv2 s'.
Proof. intros J I H. jgo. Qed.
Lemma m_ACBackTimer c s s'  : Inv s -> closed_ch s = true -> step c s ACBackTimer = Some s' -> lt3 (mu c s') (mu c s).
Proof. intros I P H. mgo. Qed.
Lemma j_ACSetup c s s' m : Inv2 s -> Inv s -> step c s (ACSetup m) = Some s' -> Inv2 s'.
Proof. intros J I H. jgo. Qed.
Lemma m_ACSetup c s s' m : Inv s -> closed_ch s = true -> step c s (ACSetup m) = Some s' -> lt3 (mu c s') (mu c s).
Proof. intros I P H. mgo. Qed.
Lemma j_ACCtxDone c s s'  : Inv2 s -> Inv s -> step c s ACCtxDone = Some s' -> Inv2 s'.
Proof. intros J I H. jgo. Qed.
Lemma m_ACCtxDone c s s'  : Inv s -> closed_ch s = true -> step c s ACCtxDone = Some s' -> lt3 (mu c s') (mu c s).
Proof. intros I P H. mgo. Qed.
Lemma j_ACRel1 c s s'  : Inv2 s -> Inv s -> step c s ACRel1 = Some s' -> Inv2 s'.
Proof. intros J I H. jgo. Qed.
Lemma m_ACRel1 c s s'  : Inv s -> closed_ch s = true -> step c s ACRel1 = Some s' -> lt3 (mu c s') (mu c s).
Proof. intros I P H. mgo. Qed.
Lemma j_ACRelWait c s s'  : Inv2 s -> Inv s -> step c s ACRelWait = Some s' -> Inv2 s'.
Proof. intros J I H. jgo. Qed.
Lemma m_ACRelWait c s s'  : Inv s -> closed_ch s = true -> step c s ACRelWait = Some s' -> lt3 (mu c s') (mu c s).
Proof. intros I P H. mgo. Qed.
