(* C12 — preservation of the partition-consumer invariant (PConsProofs.Inv), feeder (rest), subscription manager and subscription consumer actions.
   One lemma per action, all by the tactic [PCP.go] (case analysis of the step, then linear arithmetic). *)
From Coq Require Import List Arith Bool Lia.
From SV Require Import C12.Lts C12.LtsProofs C12.Tac C12.PCons C12.PConsProofs.
Import ListNotations. Import PC. Import PCP.

Lemma step_AFLEnd c s s'  : Inv s -> step c s AFLEnd = Some s' -> Inv s'.
Proof. intros I H. go s H I. Qed.
Lemma step_AFResub c s s'  : Inv s -> step c s AFResub = Some s' -> Inv s'.
Proof. intros I H. go s H I. Qed.
Lemma step_AFAck c s s'  : Inv s -> step c s AFAck = Some s' -> Inv s'.
Proof. intros I H. go s H I. Qed.
Lemma step_AFCloseM c s s'  : Inv s -> step c s AFCloseM = Some s' -> Inv s'.
Proof. intros I H. go s H I. Qed.
Lemma step_AFCloseE c s s'  : Inv s -> step c s AFCloseE = Some s' -> Inv s'.
Proof. intros I H. go s H I. Qed.
Lemma step_ASMSeeClosed c s s'  : Inv s -> step c s ASMSeeClosed = Some s' -> Inv s'.
Proof. intros I H. go s H I. Qed.
Lemma step_ASMGive c s s'  : Inv s -> step c s ASMGive = Some s' -> Inv s'.
Proof. intros I H. go s H I. Qed.
Lemma step_ASMWait c s s'  : Inv s -> step c s ASMWait = Some s' -> Inv s'.
Proof. intros I H. go s H I. Qed.
Lemma step_ASMCloseWait c s s'  : Inv s -> step c s ASMCloseWait = Some s' -> Inv s'.
Proof. intros I H. go s H I. Qed.
Lemma step_ASMFlush c s s'  : Inv s -> step c s ASMFlush = Some s' -> Inv s'.
Proof. intros I H. go s H I. Qed.
Lemma step_ASMCloseNS c s s'  : Inv s -> step c s ASMCloseNS = Some s' -> Inv s'.
Proof. intros I H. go s H I. Qed.
Lemma step_ASCWaitClosed c s s'  : Inv s -> step c s ASCWaitClosed = Some s' -> Inv s'.
Proof. intros I H. go s H I. Qed.
Lemma step_ASCRangeClosed c s s'  : Inv s -> step c s ASCRangeClosed = Some s' -> Inv s'.
Proof. intros I H. go s H I. Qed.
Lemma step_ASCUpd c s s'  : Inv s -> step c s ASCUpd = Some s' -> Inv s'.
Proof. intros I H. go s H I. Qed.
Lemma step_ASCUpdClose c s s'  : Inv s -> step c s ASCUpdClose = Some s' -> Inv s'.
Proof. intros I H. go s H I. Qed.
Lemma step_ASCLen c s s'  : Inv s -> step c s ASCLen = Some s' -> Inv s'.
Proof. intros I H. go s H I. Qed.
Lemma step_ASCFetch c s s' ok : Inv s -> step c s (ASCFetch ok) = Some s' -> Inv s'.
Proof. intros I H. go s H I. Qed.
Lemma step_ASCFeed c s s'  : Inv s -> step c s ASCFeed = Some s' -> Inv s'.
Proof. intros I H. go s H I. Qed.
Lemma step_ASCAcks c s s'  : Inv s -> step c s ASCAcks = Some s' -> Inv s'.
Proof. intros I H. go s H I. Qed.
Lemma step_ASCHandle c s s' moved : Inv s -> step c s (ASCHandle moved) = Some s' -> Inv s'.
Proof. intros I H. go s H I. Qed.
Lemma step_ASCHErr c s s' hand : Inv s -> step c s (ASCHErr hand) = Some s' -> Inv s'.
Proof. intros I H. go s H I. Qed.
Lemma step_ASCHTok c s s'  : Inv s -> step c s ASCHTok = Some s' -> Inv s'.
Proof. intros I H. go s H I. Qed.
Lemma step_ASCHClose c s s'  : Inv s -> step c s ASCHClose = Some s' -> Inv s'.
Proof. intros I H. go s H I. Qed.
Lemma step_ASCAbort c s s'  : Inv s -> step c s ASCAbort = Some s' -> Inv s'.
Proof. intros I H. go s H I. Qed.
Lemma step_ASCAbErr c s s' hand : Inv s -> step c s (ASCAbErr hand) = Some s' -> Inv s'.
Proof. intros I H. go s H I. Qed.
Lemma step_ASCAbTok c s s'  : Inv s -> step c s ASCAbTok = Some s' -> Inv s'.
Proof. intros I H. go s H I. Qed.
Lemma step_ASCAbNErr c s s' hand : Inv s -> step c s (ASCAbNErr hand) = Some s' -> Inv s'.
Proof. intros I H. go s H I. Qed.
Lemma step_ASCAbNTok c s s'  : Inv s -> step c s ASCAbNTok = Some s' -> Inv s'.
Proof. intros I H. go s H I. Qed.
