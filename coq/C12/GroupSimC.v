(* C12 — consumer group, simulation by the observer automaton, part 3: one lemma per action, by [GrpSim.sim_go]. *)
From Coq Require Import List Arith Bool Lia.
From SV Require Import C12.Lts C12.LtsProofs C12.Tac C12.Group C12.GroupProofs C12.GroupSafety C12.GroupSim.
Import ListNotations. Import Grp. Import GrpP. Import GrpSim.

Lemma sim_ACJoin c s q s' j : (elock c = true \/ ~ GrpS.racy s (ACJoin j)) -> R s q -> step c s (ACJoin j) = Some s' ->
  match lbl (ACJoin j) with None => R s' q | Some o => exists q', ostep q o = Some q' /\ R s' q' end.
Proof. intros G HR H. sim_go. Qed.
Lemma sim_ACBackClosed c s q s'  : (elock c = true \/ ~ GrpS.racy s ACBackClosed) -> R s q -> step c s ACBackClosed = Some s' ->
  match lbl ACBackClosed with None => R s' q | Some o => exists q', ostep q o = Some q' /\ R s' q' end.
Proof. intros G HR H. sim_go. Qed.
Lemma sim_ACBackTimer c s q s'  : (elock c = true \/ ~ GrpS.racy s ACBackTimer) -> R s q -> step c s ACBackTimer = Some s' ->
  match lbl ACBackTimer with None => R s' q | Some o => exists q', ostep q o = Some q' /\ R s' q' end.
Proof. intros G HR H. sim_go. Qed.
Lemma sim_ACSetup c s q s' m : (elock c = true \/ ~ GrpS.racy s (ACSetup m)) -> R s q -> step c s (ACSetup m) = Some s' ->
  match lbl (ACSetup m) with None => R s' q | Some o => exists q', ostep q o = Some q' /\ R s' q' end.
Proof. intros G HR H. sim_go. Qed.
Lemma sim_ACCtxDone c s q s'  : (elock c = true \/ ~ GrpS.racy s ACCtxDone) -> R s q -> step c s ACCtxDone = Some s' ->
  match lbl ACCtxDone with None => R s' q | Some o => exists q', ostep q o = Some q' /\ R s' q' end.
Proof. intros G HR H. sim_go. Qed.
Lemma sim_ACRel1 c s q s'  : (elock c = true \/ ~ GrpS.racy s ACRel1) -> R s q -> step c s ACRel1 = Some s' ->
  match lbl ACRel1 with None => R s' q | Some o => exists q', ostep q o = Some q' /\ R s' q' end.
Proof. intros G HR H. sim_go. Qed.
Lemma sim_ACRelWait c s q s'  : (elock c = true \/ ~ GrpS.racy s ACRelWait) -> R s q -> step c s ACRelWait = Some s' ->
  match lbl ACRelWait with None => R s' q | Some o => exists q', ostep q o = Some q' /\ R s' q' end.
Proof. intros G HR H. sim_go. Qed.
Lemma sim_ACRel2 c s q s' e : (elock c = true \/ ~ GrpS.racy s (ACRel2 e)) -> R s q -> step c s (ACRel2 e) = Some s' ->
  match lbl (ACRel2 e) with None => R s' q | Some o => exists q', ostep q o = Some q' /\ R s' q' end.
Proof. intros G HR H. sim_go. Qed.
