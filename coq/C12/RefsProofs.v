(* C12 — proofs about the reference-count protocol (Refs.v), for any number of holders. *)
From Coq Require Import List Arith Bool Lia.
From SV Require Import C12.Lts C12.LtsProofs C12.Tac C12.Refs.
Import ListNotations.

Module RefsP.
  Import Refs.

  Lemma count_set_nth : forall l i x y, nth_error l i = Some y ->
    count (set_nth i x l) + (if holding y then 1 else 0) = count l + (if holding x then 1 else 0).
  Proof.
    induction l as [|h l IH]; intros [|i] x y H; cbn in H; try discriminate.
    - injection H as ->. unfold count. cbn. destruct (holding x), (holding y); cbn; lia.
    - specialize (IH i x y H). unfold count in *. cbn. destruct (holding h); cbn; lia.
  Qed.

  Lemma leaky_set_nth : forall l i x y, nth_error l i = Some y -> y <> HLeak ->
    leaky l = true -> leaky (set_nth i x l) = true.
  Proof.
    induction l as [|h l IH]; intros [|i] x y H Hy HL; cbn in H; try discriminate.
    - injection H as ->. unfold leaky in *. cbn in *. destruct y; try congruence; cbn in HL; rewrite HL; apply orb_true_r.
    - unfold leaky in *. cbn in *. apply orb_true_iff in HL. destruct HL as [HL|HL]; [rewrite HL; reflexivity|].
      rewrite (IH i x y H Hy HL). apply orb_true_r.
  Qed.

  Lemma leaky_count : forall l, leaky l = true -> 0 < count l.
  Proof.
    induction l as [|h l IH]; cbn; [discriminate|]. intro H. unfold count in *. cbn.
    destruct h; cbn in *; try lia; auto.
  Qed.

  Definition Inv (s : st) : Prop :=
    panic s = false /\ refs s = count (holders s) /\
    (in_closed s = true -> refs s = 0 /\ in_map s = false).

  Lemma count_repeat n : count (repeat HOut n) = 0.
  Proof. induction n; cbn; auto. Qed.

  Lemma inv_init n : Inv (init n).
  Proof. unfold Inv, init; cbn [refs in_map in_closed holders panic]. rewrite count_repeat. repeat split; intros; try discriminate; auto. Qed.

  (* the model starts after the first ref (a worker is created by its first ref): from Inv with a holder *)
  Lemma inv_step s a s' : Inv s -> step s a = Some s' -> Inv s'.
  Proof.
    intros (Hp & Hr & Hc) H. destruct a; cbn in H.
    - destruct (nth_error (holders s) i) as [[| |]|] eqn:E; try discriminate.
      destruct (in_map s) eqn:Em; [|discriminate]. injection H as <-. unfold Inv; cbn.
      pose proof (count_set_nth _ _ (if leak then HLeak else HIn) _ E) as C. cbn in C.
      assert (Hh : holding (if leak then HLeak else HIn) = true) by (destruct leak; reflexivity).
      rewrite Hh in C. unfold count in *. repeat split; intros; try assumption; try lia.
      all: match goal with H : in_closed _ = true |- _ => destruct (Hc H); congruence end.
    - destruct (nth_error (holders s) i) as [[| |]|] eqn:E; try discriminate.
      pose proof (count_set_nth _ _ HOut _ E) as C. cbn in C.
      destruct (refs s) as [|[|n]] eqn:Er; injection H as <-; unfold Inv; cbn; unfold count in *.
      + lia.
      + assert (Hcl : in_closed s = false).
        { destruct (in_closed s) eqn:Ecl; auto. destruct (Hc eq_refl). lia. }
        rewrite Hp, Hcl. repeat split; intros; auto; try lia.
      + repeat split; intros; auto; try lia.
        all: match goal with H : in_closed _ = true |- _ => destruct (Hc H); lia end.
    - destruct (nth_error (holders s) i) as [[| |]|] eqn:E; try discriminate; injection H as <-; unfold Inv; cbn.
      all: assert (Hpos : 0 < refs s) by
        (rewrite Hr; pose proof (count_set_nth _ _ HOut _ E) as C; cbn in C; unfold count in *; lia).
      all: assert (Hcl : in_closed s = false) by
        (destruct (in_closed s) eqn:Ecl; auto; destruct (Hc eq_refl); lia).
      all: rewrite Hp, Hcl; repeat split; auto; intros; try discriminate; try lia.
    - injection H as <-. unfold Inv; cbn. repeat split; intros; auto.
      all: match goal with H : in_closed _ = true |- _ => destruct (Hc H); auto end.
  Qed.

  (* for any number of holders and any schedule: the input is closed at most once, nobody sends on it
     after the close, the count never goes negative *)
  Theorem refs_no_panic : forall n l s, run step (init n) l = Some s -> panic s = false.
  Proof.
    intros n l s H. assert (I : Inv s).
    { apply (reach_inv step Inv (init n)); [apply inv_init | apply inv_step | now exists l]. }
    apply I.
  Qed.

  (* the input is closed only when nobody holds a reference *)
  Theorem refs_closed_unreferenced : forall n l s, run step (init n) l = Some s ->
    in_closed s = true -> count (holders s) = 0.
  Proof.
    intros n l s H Hc. assert (I : Inv s).
    { apply (reach_inv step Inv (init n)); [apply inv_init | apply inv_step | now exists l]. }
    destruct I as (_ & Hr & Hcl). destruct (Hcl Hc). lia.
  Qed.

  (* a reference that is never returned (retryBatch) keeps the worker's input open for ever *)
  Lemma leaky_step s a s' : step s a = Some s' -> leaky (holders s) = true -> leaky (holders s') = true.
  Proof.
    intros H HL. destruct a; cbn in H.
    - destruct (nth_error (holders s) i) as [[| |]|] eqn:E; try discriminate.
      destruct (in_map s); [|discriminate]. injection H as <-. cbn. eapply leaky_set_nth; eauto. discriminate.
    - destruct (nth_error (holders s) i) as [[| |]|] eqn:E; try discriminate.
      destruct (refs s) as [|[|n]]; injection H as <-; cbn; eapply leaky_set_nth; eauto; discriminate.
    - destruct (nth_error (holders s) i) as [[| |]|] eqn:E; try discriminate; injection H as <-; cbn; auto.
    - injection H as <-. auto.
  Qed.

  Theorem refs_leak_never_closed : forall n l1 s1 l2 s2,
    run step (init n) l1 = Some s1 -> leaky (holders s1) = true ->
    run step s1 l2 = Some s2 -> in_closed s2 = false.
  Proof.
    intros n l1 s1 l2 s2 H1 HL H2.
    assert (I : Inv s2).
    { apply (reach_inv step Inv (init n)); [apply inv_init | apply inv_step |].
      exists (l1 ++ l2). now rewrite run_app, H1. }
    assert (L2 : leaky (holders s2) = true).
    { clear H1 I. revert s1 HL H2. induction l2 as [|a l2 IH]; intros s1 HL H2; cbn in H2.
      - now injection H2 as <-.
      - destruct (step s1 a) as [s'|] eqn:E; [|discriminate].
        eapply (IH s'); eauto. eapply leaky_step; eauto. }
    destruct I as (_ & Hr & Hc). destruct (in_closed s2) eqn:E; auto.
    destruct (Hc eq_refl) as [Hz _]. pose proof (leaky_count _ L2). lia.
  Qed.
End RefsP.
