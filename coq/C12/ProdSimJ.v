(* C12 — async producer, simulation by the observer automaton, part 10: one lemma per action, by [ProdSim.sim_go]. *)
From Coq Require Import List Arith Bool Lia.
From SV Require Import C12.Lts C12.LtsProofs C12.Tac C12.Prod C12.ProdProofs C12.ProdSafety C12.ProdSim.
Import ListNotations. Import Prod. Import ProdP. Import ProdSim.

Lemma sim_ABrSeeClosed c s q s'  : R c s q -> step c s ABrSeeClosed = Some s' ->
  match lbl c ABrSeeClosed with None => R c s' q | Some o => exists q', ostep c q o = Some q' /\ R c s' q' end.
Proof. intros HR H. sim_go. Qed.
Lemma sim_ABrCloseResp c s q s'  : R c s q -> step c s ABrCloseResp = Some s' ->
  match lbl c ABrCloseResp with None => R c s' q | Some o => exists q', ostep c q o = Some q' /\ R c s' q' end.
Proof. intros HR H. sim_go. Qed.
Lemma sim_AOld c s q s' f : R c s q -> step c s (AOld f) = Some s' ->
  match lbl c (AOld f) with None => R c s' q | Some o => exists q', ostep c q o = Some q' /\ R c s' q' end.
Proof. intros HR H. sim_go. Qed.
