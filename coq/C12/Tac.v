(* C12 — small tactics shared by the proof files. *)
From Coq Require Import List Arith Bool Lia.

(* case-split on every [match]/[if] scrutinee of a hypothesis [H : step ... = Some s'], then invert it *)
Ltac step_cases H :=
  repeat (first
    [ discriminate H
    | match type of H with
      | context [match ?x with _ => _ end] => destruct x eqn:?
      end ]);
  try discriminate H;
  try (injection H as H; try subst).

Ltac bool_hyps :=
  repeat match goal with
  | H : _ && _ = true |- _ => apply andb_true_iff in H; destruct H
  | H : _ || _ = false |- _ => apply orb_false_iff in H; destruct H
  | H : _ && _ = false |- _ => apply andb_false_iff in H
  | H : _ || _ = true |- _ => apply orb_true_iff in H
  | H : (_ <? _) = true |- _ => apply Nat.ltb_lt in H
  | H : (_ <? _) = false |- _ => apply Nat.ltb_ge in H
  | H : (_ <=? _) = true |- _ => apply Nat.leb_le in H
  | H : (_ <=? _) = false |- _ => apply Nat.leb_gt in H
  | H : (_ =? _) = true |- _ => apply Nat.eqb_eq in H
  | H : (_ =? _) = false |- _ => apply Nat.eqb_neq in H
  | H : negb _ = true |- _ => apply negb_true_iff in H
  | H : negb _ = false |- _ => apply negb_false_iff in H
  end.

(* cbn that keeps arithmetic comparisons and operations folded *)
Ltac scbn H := cbn -[Nat.ltb Nat.leb Nat.eqb Nat.sub Nat.mul Nat.add] in H.
Ltac gcbn := cbn -[Nat.ltb Nat.leb Nat.eqb Nat.sub Nat.mul Nat.add].
