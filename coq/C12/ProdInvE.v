(* C12 — preservation of the producer invariant (ProdProofs.Inv), part 5: one lemma per action, by [ProdP.go]. *)
From Coq Require Import List Arith Bool Lia.
From SV Require Import C12.Lts C12.LtsProofs C12.Tac C12.Prod C12.ProdProofs.
Import ListNotations. Import Prod. Import ProdP.

Lemma step_ATSeeClosed c s s'  : Inv s -> step c s ATSeeClosed = Some s' -> Inv s'.
Proof. intros I H. go s H I. Qed.
Lemma step_ATCloseH c s s'  : Inv s -> step c s ATCloseH = Some s' -> Inv s'.
Proof. intros I H. go s H I. Qed.
Lemma step_APStart c s s'  : Inv s -> step c s APStart = Some s' -> Inv s'.
Proof. intros I H. go s H I. Qed.
Lemma step_APTake c s s'  : Inv s -> step c s APTake = Some s' -> Inv s'.
Proof. intros I H. go s H I. Qed.
Lemma step_APConsume c s s'  : Inv s -> step c s APConsume = Some s' -> Inv s'.
Proof. intros I H. go s H I. Qed.
Lemma step_APBuffer c s s'  : Inv s -> step c s APBuffer = Some s' -> Inv s'.
Proof. intros I H. go s H I. Qed.
