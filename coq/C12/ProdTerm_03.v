(* C12 — async producer: the additional invariant Inv4 of ProdTerm.v is preserved by every action ([ProdT.qgo]) . *)
(* part 3 of 3; lemmas packed by proof time so that no file of the family takes much over a minute *)
From Coq Require Import List Arith Bool Lia.
From SV Require Import C12.Lts C12.LtsProofs C12.Tac C12.Prod C12.ProdProofs C12.ProdSafety C12.ProdTerm.
Import ListNotations. Import Prod. Import ProdP. Import ProdT.

Lemma q_APMark c s s'  : Inv4 s -> Inv s -> step c s APMark = Some s' -> Inv4 s'.
Proof. intros Q I H. qgo. Qed.
Lemma q_APConsume c s s'  : Inv4 s -> Inv s -> step c s APConsume = Some s' -> Inv4 s'.
Proof. intros Q I H. qgo. Qed.
Lemma q_ASWait c s s'  : Inv4 s -> Inv s -> step c s ASWait = Some s' -> Inv4 s'.
Proof. intros Q I H. qgo. Qed.
Lemma q_ASCloseSucc c s s'  : Inv4 s -> Inv s -> step c s ASCloseSucc = Some s' -> Inv4 s'.
Proof. intros Q I H. qgo. Qed.
Lemma q_ABRecvResp c s s'  : Inv4 s -> Inv s -> step c s ABRecvResp = Some s' -> Inv4 s'.
Proof. intros Q I H. qgo. Qed.
Lemma q_ASCloseIn c s s'  : Inv4 s -> Inv s -> step c s ASCloseIn = Some s' -> Inv4 s'.
Proof. intros Q I H. qgo. Qed.
Lemma q_ASCloseErr c s s'  : Inv4 s -> Inv s -> step c s ASCloseErr = Some s' -> Inv4 s'.
Proof. intros Q I H. qgo. Qed.
Lemma q_ASCloseRet c s s'  : Inv4 s -> Inv s -> step c s ASCloseRet = Some s' -> Inv4 s'.
Proof. intros Q I H. qgo. Qed.
Lemma q_ARhFeed c s s'  : Inv4 s -> Inv s -> step c s ARhFeed = Some s' -> Inv4 s'.
Proof. intros Q I H. qgo. Qed.
Lemma q_ASClient c s s'  : Inv4 s -> Inv s -> step c s ASClient = Some s' -> Inv4 s'.
Proof. intros Q I H. qgo. Qed.
Lemma q_ARet c s s' n : Inv4 s -> Inv s -> step c s (ARet n) = Some s' -> Inv4 s'.
Proof. intros Q I H. qgo. Qed.
Lemma q_ASeeClosedSucc c s s'  : Inv4 s -> Inv s -> step c s ASeeClosedSucc = Some s' -> Inv4 s'.
Proof. intros Q I H. qgo. Qed.
Lemma q_ACloseSeeClosed c s s'  : Inv4 s -> Inv s -> step c s ACloseSeeClosed = Some s' -> Inv4 s'.
Proof. intros Q I H. qgo. Qed.
Lemma q_ARhExit c s s'  : Inv4 s -> Inv s -> step c s ARhExit = Some s' -> Inv4 s'.
Proof. intros Q I H. qgo. Qed.
Lemma q_ADSeeClosed c s s'  : Inv4 s -> Inv s -> step c s ADSeeClosed = Some s' -> Inv4 s'.
Proof. intros Q I H. qgo. Qed.
Lemma q_APSend c s s'  : Inv4 s -> Inv s -> step c s APSend = Some s' -> Inv4 s'.
Proof. intros Q I H. qgo. Qed.
Lemma q_ABCloseStop c s s'  : Inv4 s -> Inv s -> step c s ABCloseStop = Some s' -> Inv4 s'.
Proof. intros Q I H. qgo. Qed.
Lemma q_ABCloseOut c s s'  : Inv4 s -> Inv s -> step c s ABCloseOut = Some s' -> Inv4 s'.
Proof. intros Q I H. qgo. Qed.
Lemma q_APMarkSend c s s'  : Inv4 s -> Inv s -> step c s APMarkSend = Some s' -> Inv4 s'.
Proof. intros Q I H. qgo. Qed.
Lemma q_APBuffer c s s'  : Inv4 s -> Inv s -> step c s APBuffer = Some s' -> Inv4 s'.
Proof. intros Q I H. qgo. Qed.
Lemma q_ATSeeClosed c s s'  : Inv4 s -> Inv s -> step c s ATSeeClosed = Some s' -> Inv4 s'.
Proof. intros Q I H. qgo. Qed.
Lemma q_APTake c s s'  : Inv4 s -> Inv s -> step c s APTake = Some s' -> Inv4 s'.
Proof. intros Q I H. qgo. Qed.
Lemma q_ATTake c s s'  : Inv4 s -> Inv s -> step c s ATTake = Some s' -> Inv4 s'.
Proof. intros Q I H. qgo. Qed.
Lemma q_APStart c s s'  : Inv4 s -> Inv s -> step c s APStart = Some s' -> Inv4 s'.
Proof. intros Q I H. qgo. Qed.
Lemma q_ABrNet c s s'  : Inv4 s -> Inv s -> step c s ABrNet = Some s' -> Inv4 s'.
Proof. intros Q I H. qgo. Qed.
Lemma q_APSeeClosed c s s'  : Inv4 s -> Inv s -> step c s APSeeClosed = Some s' -> Inv4 s'.
Proof. intros Q I H. qgo. Qed.
Lemma q_ABrCloseResp c s s'  : Inv4 s -> Inv s -> step c s ABrCloseResp = Some s' -> Inv4 s'.
Proof. intros Q I H. qgo. Qed.
Lemma q_ADNewTp c s s'  : Inv4 s -> Inv s -> step c s ADNewTp = Some s' -> Inv4 s'.
Proof. intros Q I H. qgo. Qed.
Lemma q_ABrSeeClosed c s s'  : Inv4 s -> Inv s -> step c s ABrSeeClosed = Some s' -> Inv4 s'.
Proof. intros Q I H. qgo. Qed.
Lemma q_ATNewPp c s s'  : Inv4 s -> Inv s -> step c s ATNewPp = Some s' -> Inv4 s'.
Proof. intros Q I H. qgo. Qed.
Lemma q_ABNeedSpace c s s'  : Inv4 s -> Inv s -> step c s ABNeedSpace = Some s' -> Inv4 s'.
Proof. intros Q I H. qgo. Qed.
Lemma q_ABSyn c s s'  : Inv4 s -> Inv s -> step c s ABSyn = Some s' -> Inv4 s'.
Proof. intros Q I H. qgo. Qed.
Lemma q_ABShutFlushed c s s'  : Inv4 s -> Inv s -> step c s ABShutFlushed = Some s' -> Inv4 s'.
Proof. intros Q I H. qgo. Qed.
Lemma q_ABSeeClosed c s s'  : Inv4 s -> Inv s -> step c s ABSeeClosed = Some s' -> Inv4 s'.
Proof. intros Q I H. qgo. Qed.
Lemma q_ABKeep c s s'  : Inv4 s -> Inv s -> step c s ABKeep = Some s' -> Inv4 s'.
Proof. intros Q I H. qgo. Qed.
Lemma q_ABDrained c s s'  : Inv4 s -> Inv s -> step c s ABDrained = Some s' -> Inv4 s'.
Proof. intros Q I H. qgo. Qed.
