(* C12 — consumer group, simulation by the observer automaton : one lemma per action, by [GrpSim.sim_go]. *)
(* part 5 of 9; lemmas packed by proof time so that no file of the family takes much over a minute *)
From Coq Require Import List Arith Bool Lia.
From SV Require Import C12.Lts C12.LtsProofs C12.Tac C12.Group C12.GroupProofs C12.GroupSafety C12.GroupSim.
Import ListNotations. Import Grp. Import GrpP. Import GrpSim.

Lemma sim_AGRunEnd c s q s' err : (elock c = true \/ ~ GrpS.racy s (AGRunEnd err)) -> R s q -> step c s (AGRunEnd err) = Some s' ->
  match lbl (AGRunEnd err) with None => R s' q | Some o => exists q', ostep q o = Some q' /\ R s' q' end.
Proof. intros G HR H. sim_go. Qed.
Lemma sim_AGNew c s q s' ok : (elock c = true \/ ~ GrpS.racy s (AGNew ok)) -> R s q -> step c s (AGNew ok) = Some s' ->
  match lbl (AGNew ok) with None => R s' q | Some o => exists q', ostep q o = Some q' /\ R s' q' end.
Proof. intros G HR H. sim_go. Qed.
Lemma sim_ACRel4 c s q s'  : (elock c = true \/ ~ GrpS.racy s ACRel4) -> R s q -> step c s ACRel4 = Some s' ->
  match lbl ACRel4 with None => R s' q | Some o => exists q', ostep q o = Some q' /\ R s' q' end.
Proof. intros G HR H. sim_go. Qed.
