(* C12 — async producer, simulation by the observer automaton, part 6: one lemma per action, by [ProdSim.sim_go]. *)
From Coq Require Import List Arith Bool Lia.
From SV Require Import C12.Lts C12.LtsProofs C12.Tac C12.Prod C12.ProdProofs C12.ProdSafety C12.ProdSim.
Import ListNotations. Import Prod. Import ProdP. Import ProdSim.

Lemma sim_APErr c s q s' k : R c s q -> step c s (APErr k) = Some s' ->
  match lbl c (APErr k) with None => R c s' q | Some o => exists q', ostep c q o = Some q' /\ R c s' q' end.
Proof. intros HR H. sim_go. Qed.
Lemma sim_APSend c s q s'  : R c s q -> step c s APSend = Some s' ->
  match lbl c APSend with None => R c s' q | Some o => exists q', ostep c q o = Some q' /\ R c s' q' end.
Proof. intros HR H. sim_go. Qed.
Lemma sim_APMark c s q s'  : R c s q -> step c s APMark = Some s' ->
  match lbl c APMark with None => R c s' q | Some o => exists q', ostep c q o = Some q' /\ R c s' q' end.
Proof. intros HR H. sim_go. Qed.
Lemma sim_APMarkSend c s q s'  : R c s q -> step c s APMarkSend = Some s' ->
  match lbl c APMarkSend with None => R c s' q | Some o => exists q', ostep c q o = Some q' /\ R c s' q' end.
Proof. intros HR H. sim_go. Qed.
Lemma sim_APUnref c s q s'  : R c s q -> step c s APUnref = Some s' ->
  match lbl c APUnref with None => R c s' q | Some o => exists q', ostep c q o = Some q' /\ R c s' q' end.
Proof. intros HR H. sim_go. Qed.
Lemma sim_APGetBp c s q s'  : R c s q -> step c s APGetBp = Some s' ->
  match lbl c APGetBp with None => R c s' q | Some o => exists q', ostep c q o = Some q' /\ R c s' q' end.
Proof. intros HR H. sim_go. Qed.
