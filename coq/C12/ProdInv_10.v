(* C12 — preservation of the producer invariant (ProdProofs.Inv) : one lemma per action, by [ProdP.go]. *)
(* part 10 of 13; lemmas packed by proof time so that no file of the family takes much over a minute *)
From Coq Require Import List Arith Bool Lia.
From SV Require Import C12.Lts C12.LtsProofs C12.Tac C12.Prod C12.ProdProofs.
Import ListNotations. Import Prod. Import ProdP.

Lemma step_ASMarker c s s'  : Inv s -> step c s ASMarker = Some s' -> Inv s'.
Proof. intros I H. go s H I. Qed.
Lemma step_ABFlush c s s'  : Inv s -> step c s ABFlush = Some s' -> Inv s'.
Proof. intros I H. go s H I. Qed.
Lemma step_ARhFeed c s s'  : Inv s -> step c s ARhFeed = Some s' -> Inv s'.
Proof. intros I H. go s H I. Qed.
Lemma step_ASeeClosedErr c s s'  : Inv s -> step c s ASeeClosedErr = Some s' -> Inv s'.
Proof. intros I H. go s H I. Qed.
Lemma step_APTake c s s'  : Inv s -> step c s APTake = Some s' -> Inv s'.
Proof. intros I H. go s H I. Qed.
