(* C12 — preservation of the consumer-group invariant (GroupProofs.Inv), application, Close and Consume actions.
   One lemma per action, by the tactic [GrpP.go] (case analysis of the step, then linear arithmetic). *)
From Coq Require Import List Arith Bool Lia.
From SV Require Import C12.Lts C12.LtsProofs C12.Tac C12.Group C12.GroupProofs.
Import ListNotations. Import Grp. Import GrpP.

Lemma step_AKCall c s s'  : Inv s -> step c s AKCall = Some s' -> Inv s'.
Proof. intros I H. go s H I. Qed.
Lemma step_AKRet c s s' r : Inv s -> step c s (AKRet r) = Some s' -> Inv s'.
Proof. intros I H. go s H I. Qed.
Lemma step_ACCall c s s'  : Inv s -> step c s ACCall = Some s' -> Inv s'.
Proof. intros I H. go s H I. Qed.
Lemma step_ACRet c s s' r : Inv s -> step c s (ACRet r) = Some s' -> Inv s'.
Proof. intros I H. go s H I. Qed.
Lemma step_ARecvErr c s s'  : Inv s -> step c s ARecvErr = Some s' -> Inv s'.
Proof. intros I H. go s H I. Qed.
Lemma step_ASeeClosed c s s'  : Inv s -> step c s ASeeClosed = Some s' -> Inv s'.
Proof. intros I H. go s H I. Qed.
Lemma step_AKCloseCh c s s'  : Inv s -> step c s AKCloseCh = Some s' -> Inv s'.
Proof. intros I H. go s H I. Qed.
Lemma step_AKLeaveLock c s s'  : Inv s -> step c s AKLeaveLock = Some s' -> Inv s'.
Proof. intros I H. go s H I. Qed.
Lemma step_AKLeaveNet c s s' ok r : Inv s -> step c s (AKLeaveNet ok r) = Some s' -> Inv s'.
Proof. intros I H. go s H I. Qed.
Lemma step_AKSpawn c s s'  : Inv s -> step c s AKSpawn = Some s' -> Inv s'.
Proof. intros I H. go s H I. Qed.
Lemma step_AKDrainRecv c s s'  : Inv s -> step c s AKDrainRecv = Some s' -> Inv s'.
Proof. intros I H. go s H I. Qed.
Lemma step_AKDrainEnd c s s'  : Inv s -> step c s AKDrainEnd = Some s' -> Inv s'.
Proof. intros I H. go s H I. Qed.
Lemma step_AKClient c s s' r : Inv s -> step c s (AKClient r) = Some s' -> Inv s'.
Proof. intros I H. go s H I. Qed.
Lemma step_ACLock c s s'  : Inv s -> step c s ACLock = Some s' -> Inv s'.
Proof. intros I H. go s H I. Qed.
Lemma step_ACRefresh c s s' ok : Inv s -> step c s (ACRefresh ok) = Some s' -> Inv s'.
Proof. intros I H. go s H I. Qed.
Lemma step_ACJoin c s s' j : Inv s -> step c s (ACJoin j) = Some s' -> Inv s'.
Proof. intros I H. go s H I. Qed.
Lemma step_ACBackClosed c s s'  : Inv s -> step c s ACBackClosed = Some s' -> Inv s'.
Proof. intros I H. go s H I. Qed.
Lemma step_ACBackTimer c s s'  : Inv s -> step c s ACBackTimer = Some s' -> Inv s'.
Proof. intros I H. go s H I. Qed.
Lemma step_ACSetup c s s' m : Inv s -> step c s (ACSetup m) = Some s' -> Inv s'.
Proof. intros I H. go s H I. Qed.
Lemma step_ACCtxDone c s s'  : Inv s -> step c s ACCtxDone = Some s' -> Inv s'.
Proof. intros I H. go s H I. Qed.
Lemma step_ACRel1 c s s'  : Inv s -> step c s ACRel1 = Some s' -> Inv s'.
Proof. intros I H. go s H I. Qed.
Lemma step_ACRelWait c s s'  : Inv s -> step c s ACRelWait = Some s' -> Inv s'.
Proof. intros I H. go s H I. Qed.
Lemma step_ACRel2 c s s' e : Inv s -> step c s (ACRel2 e) = Some s' -> Inv s'.
Proof. intros I H. go s H I. Qed.

