(* C12 — async producer, simulation by the observer automaton : one lemma per action, by [ProdSim.sim_go]. *)
(* part 3 of 4; lemmas packed by proof time so that no file of the family takes much over a minute *)
From Coq Require Import List Arith Bool Lia.
From SV Require Import C12.Lts C12.LtsProofs C12.Tac C12.Prod C12.ProdProofs C12.ProdSafety C12.ProdSim.
Import ListNotations. Import Prod. Import ProdP. Import ProdSim.

Lemma sim_ARhFeed c s q s'  : R c s q -> step c s ARhFeed = Some s' ->
  match lbl c ARhFeed with None => R c s' q | Some o => exists q', ostep c q o = Some q' /\ R c s' q' end.
Proof. intros HR H. sim_go. Qed.
Lemma sim_ATCloseH c s q s'  : R c s q -> step c s ATCloseH = Some s' ->
  match lbl c ATCloseH with None => R c s' q | Some o => exists q', ostep c q o = Some q' /\ R c s' q' end.
Proof. intros HR H. sim_go. Qed.
Lemma sim_ABRespDone c s q s'  : R c s q -> step c s ABRespDone = Some s' ->
  match lbl c ABRespDone with None => R c s' q | Some o => exists q', ostep c q o = Some q' /\ R c s' q' end.
Proof. intros HR H. sim_go. Qed.
Lemma sim_ASeeClosedSucc c s q s'  : R c s q -> step c s ASeeClosedSucc = Some s' ->
  match lbl c ASeeClosedSucc with None => R c s' q | Some o => exists q', ostep c q o = Some q' /\ R c s' q' end.
Proof. intros HR H. sim_go. Qed.
Lemma sim_ASCloseSucc c s q s'  : R c s q -> step c s ASCloseSucc = Some s' ->
  match lbl c ASCloseSucc with None => R c s' q | Some o => exists q', ostep c q o = Some q' /\ R c s' q' end.
Proof. intros HR H. sim_go. Qed.
Lemma sim_ARet c s q s' n : R c s q -> step c s (ARet n) = Some s' ->
  match lbl c (ARet n) with None => R c s' q | Some o => exists q', ostep c q o = Some q' /\ R c s' q' end.
Proof. intros HR H. sim_go. Qed.
Lemma sim_ARhExit c s q s'  : R c s q -> step c s ARhExit = Some s' ->
  match lbl c ARhExit with None => R c s' q | Some o => exists q', ostep c q o = Some q' /\ R c s' q' end.
Proof. intros HR H. sim_go. Qed.
Lemma sim_ADSeeClosed c s q s'  : R c s q -> step c s ADSeeClosed = Some s' ->
  match lbl c ADSeeClosed with None => R c s' q | Some o => exists q', ostep c q o = Some q' /\ R c s' q' end.
Proof. intros HR H. sim_go. Qed.
Lemma sim_ASMarker c s q s'  : R c s q -> step c s ASMarker = Some s' ->
  match lbl c ASMarker with None => R c s' q | Some o => exists q', ostep c q o = Some q' /\ R c s' q' end.
Proof. intros HR H. sim_go. Qed.
Lemma sim_AAsyncClose c s q s'  : R c s q -> step c s AAsyncClose = Some s' ->
  match lbl c AAsyncClose with None => R c s' q | Some o => exists q', ostep c q o = Some q' /\ R c s' q' end.
Proof. intros HR H. sim_go. Qed.
Lemma sim_ABrSeeClosed c s q s'  : R c s q -> step c s ABrSeeClosed = Some s' ->
  match lbl c ABrSeeClosed with None => R c s' q | Some o => exists q', ostep c q o = Some q' /\ R c s' q' end.
Proof. intros HR H. sim_go. Qed.
Lemma sim_AInput c s q s'  : R c s q -> step c s AInput = Some s' ->
  match lbl c AInput with None => R c s' q | Some o => exists q', ostep c q o = Some q' /\ R c s' q' end.
Proof. intros HR H. sim_go. Qed.
Lemma sim_ATSeeClosed c s q s'  : R c s q -> step c s ATSeeClosed = Some s' ->
  match lbl c ATSeeClosed with None => R c s' q | Some o => exists q', ostep c q o = Some q' /\ R c s' q' end.
Proof. intros HR H. sim_go. Qed.
Lemma sim_APExit c s q s'  : R c s q -> step c s APExit = Some s' ->
  match lbl c APExit with None => R c s' q | Some o => exists q', ostep c q o = Some q' /\ R c s' q' end.
Proof. intros HR H. sim_go. Qed.
Lemma sim_APMark c s q s'  : R c s q -> step c s APMark = Some s' ->
  match lbl c APMark with None => R c s' q | Some o => exists q', ostep c q o = Some q' /\ R c s' q' end.
Proof. intros HR H. sim_go. Qed.
Lemma sim_ACloseSeeClosed c s q s'  : R c s q -> step c s ACloseSeeClosed = Some s' ->
  match lbl c ACloseSeeClosed with None => R c s' q | Some o => exists q', ostep c q o = Some q' /\ R c s' q' end.
Proof. intros HR H. sim_go. Qed.
Lemma sim_ABRecvResp c s q s'  : R c s q -> step c s ABRecvResp = Some s' ->
  match lbl c ABRecvResp with None => R c s' q | Some o => exists q', ostep c q o = Some q' /\ R c s' q' end.
Proof. intros HR H. sim_go. Qed.
Lemma sim_ABrCloseResp c s q s'  : R c s q -> step c s ABrCloseResp = Some s' ->
  match lbl c ABrCloseResp with None => R c s' q | Some o => exists q', ostep c q o = Some q' /\ R c s' q' end.
Proof. intros HR H. sim_go. Qed.
Lemma sim_ABSeeClosed c s q s'  : R c s q -> step c s ABSeeClosed = Some s' ->
  match lbl c ABSeeClosed with None => R c s' q | Some o => exists q', ostep c q o = Some q' /\ R c s' q' end.
Proof. intros HR H. sim_go. Qed.
Lemma sim_APFlush c s q s'  : R c s q -> step c s APFlush = Some s' ->
  match lbl c APFlush with None => R c s' q | Some o => exists q', ostep c q o = Some q' /\ R c s' q' end.
Proof. intros HR H. sim_go. Qed.
Lemma sim_ABFlush c s q s'  : R c s q -> step c s ABFlush = Some s' ->
  match lbl c ABFlush with None => R c s' q | Some o => exists q', ostep c q o = Some q' /\ R c s' q' end.
Proof. intros HR H. sim_go. Qed.
Lemma sim_APUnref c s q s'  : R c s q -> step c s APUnref = Some s' ->
  match lbl c APUnref with None => R c s' q | Some o => exists q', ostep c q o = Some q' /\ R c s' q' end.
Proof. intros HR H. sim_go. Qed.
Lemma sim_APSeeClosed c s q s'  : R c s q -> step c s APSeeClosed = Some s' ->
  match lbl c APSeeClosed with None => R c s' q | Some o => exists q', ostep c q o = Some q' /\ R c s' q' end.
Proof. intros HR H. sim_go. Qed.
Lemma sim_ASCloseRet c s q s'  : R c s q -> step c s ASCloseRet = Some s' ->
  match lbl c ASCloseRet with None => R c s' q | Some o => exists q', ostep c q o = Some q' /\ R c s' q' end.
Proof. intros HR H. sim_go. Qed.
Lemma sim_ASWait c s q s'  : R c s q -> step c s ASWait = Some s' ->
  match lbl c ASWait with None => R c s' q | Some o => exists q', ostep c q o = Some q' /\ R c s' q' end.
Proof. intros HR H. sim_go. Qed.
Lemma sim_ASCloseIn c s q s'  : R c s q -> step c s ASCloseIn = Some s' ->
  match lbl c ASCloseIn with None => R c s' q | Some o => exists q', ostep c q o = Some q' /\ R c s' q' end.
Proof. intros HR H. sim_go. Qed.
Lemma sim_ASCloseErr c s q s'  : R c s q -> step c s ASCloseErr = Some s' ->
  match lbl c ASCloseErr with None => R c s' q | Some o => exists q', ostep c q o = Some q' /\ R c s' q' end.
Proof. intros HR H. sim_go. Qed.
Lemma sim_ASClient c s q s'  : R c s q -> step c s ASClient = Some s' ->
  match lbl c ASClient with None => R c s' q | Some o => exists q', ostep c q o = Some q' /\ R c s' q' end.
Proof. intros HR H. sim_go. Qed.
Lemma sim_ABrNet c s q s'  : R c s q -> step c s ABrNet = Some s' ->
  match lbl c ABrNet with None => R c s' q | Some o => exists q', ostep c q o = Some q' /\ R c s' q' end.
Proof. intros HR H. sim_go. Qed.
Lemma sim_APStart c s q s'  : R c s q -> step c s APStart = Some s' ->
  match lbl c APStart with None => R c s' q | Some o => exists q', ostep c q o = Some q' /\ R c s' q' end.
Proof. intros HR H. sim_go. Qed.
Lemma sim_APConsume c s q s'  : R c s q -> step c s APConsume = Some s' ->
  match lbl c APConsume with None => R c s' q | Some o => exists q', ostep c q o = Some q' /\ R c s' q' end.
Proof. intros HR H. sim_go. Qed.
Lemma sim_APMarkSend c s q s'  : R c s q -> step c s APMarkSend = Some s' ->
  match lbl c APMarkSend with None => R c s' q | Some o => exists q', ostep c q o = Some q' /\ R c s' q' end.
Proof. intros HR H. sim_go. Qed.
