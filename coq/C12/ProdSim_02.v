(* C12 — async producer, simulation by the observer automaton : one lemma per action, by [ProdSim.sim_go]. *)
(* part 2 of 4; lemmas packed by proof time so that no file of the family takes much over a minute *)
From Coq Require Import List Arith Bool Lia.
From SV Require Import C12.Lts C12.LtsProofs C12.Tac C12.Prod C12.ProdProofs C12.ProdSafety C12.ProdSim.
Import ListNotations. Import Prod. Import ProdP. Import ProdSim.

Lemma sim_APErr c s q s' k : R c s q -> step c s (APErr k) = Some s' ->
  match lbl c (APErr k) with None => R c s' q | Some o => exists q', ostep c q o = Some q' /\ R c s' q' end.
Proof. intros HR H. sim_go. Qed.
Lemma sim_APGetBp c s q s'  : R c s q -> step c s APGetBp = Some s' ->
  match lbl c APGetBp with None => R c s' q | Some o => exists q', ostep c q o = Some q' /\ R c s' q' end.
Proof. intros HR H. sim_go. Qed.
Lemma sim_ATFwd c s q s' hand : R c s q -> step c s (ATFwd hand) = Some s' ->
  match lbl c (ATFwd hand) with None => R c s' q | Some o => exists q', ostep c q o = Some q' /\ R c s' q' end.
Proof. intros HR H. sim_go. Qed.
Lemma sim_ADFwd c s q s' hand : R c s q -> step c s (ADFwd hand) = Some s' ->
  match lbl c (ADFwd hand) with None => R c s' q | Some o => exists q', ostep c q o = Some q' /\ R c s' q' end.
Proof. intros HR H. sim_go. Qed.
Lemma sim_ATErr c s q s' k : R c s q -> step c s (ATErr k) = Some s' ->
  match lbl c (ATErr k) with None => R c s' q | Some o => exists q', ostep c q o = Some q' /\ R c s' q' end.
Proof. intros HR H. sim_go. Qed.
Lemma sim_ABFate c s q s' f : R c s q -> step c s (ABFate f) = Some s' ->
  match lbl c (ABFate f) with None => R c s' q | Some o => exists q', ostep c q o = Some q' /\ R c s' q' end.
Proof. intros HR H. sim_go. Qed.
Lemma sim_ADCloseH c s q s'  : R c s q -> step c s ADCloseH = Some s' ->
  match lbl c ADCloseH with None => R c s' q | Some o => exists q', ostep c q o = Some q' /\ R c s' q' end.
Proof. intros HR H. sim_go. Qed.
Lemma sim_ABDropBuf c s q s' f : R c s q -> step c s (ABDropBuf f) = Some s' ->
  match lbl c (ABDropBuf f) with None => R c s' q | Some o => exists q', ostep c q o = Some q' /\ R c s' q' end.
Proof. intros HR H. sim_go. Qed.
Lemma sim_ASeeClosedErr c s q s'  : R c s q -> step c s ASeeClosedErr = Some s' ->
  match lbl c ASeeClosedErr with None => R c s' q | Some o => exists q', ostep c q o = Some q' /\ R c s' q' end.
Proof. intros HR H. sim_go. Qed.
Lemma sim_ABShutFlushed c s q s'  : R c s q -> step c s ABShutFlushed = Some s' ->
  match lbl c ABShutFlushed with None => R c s' q | Some o => exists q', ostep c q o = Some q' /\ R c s' q' end.
Proof. intros HR H. sim_go. Qed.
