(* C12 — async producer: the additional invariant Inv4 of ProdTerm.v is preserved by every action ([ProdT.qgo]), part 2. *)
From Coq Require Import List Arith Bool Lia.
From SV Require Import C12.Lts C12.LtsProofs C12.Tac C12.Prod C12.ProdProofs C12.ProdSafety C12.ProdTerm.
Import ListNotations. Import Prod. Import ProdP. Import ProdT.

Lemma q_APConsume c s s'  : Inv4 s -> Inv s -> step c s APConsume = Some s' -> Inv4 s'.
Proof. intros Q I H. qgo. Qed.
Lemma q_APBuffer c s s'  : Inv4 s -> Inv s -> step c s APBuffer = Some s' -> Inv4 s'.
Proof. intros Q I H. qgo. Qed.
Lemma q_APErr c s s' k : Inv4 s -> Inv s -> step c s (APErr k) = Some s' -> Inv4 s'.
Proof. intros Q I H. qgo. Qed.
Lemma q_APSend c s s'  : Inv4 s -> Inv s -> step c s APSend = Some s' -> Inv4 s'.
Proof. intros Q I H. qgo. Qed.
Lemma q_APMark c s s'  : Inv4 s -> Inv s -> step c s APMark = Some s' -> Inv4 s'.
Proof. intros Q I H. qgo. Qed.
Lemma q_APMarkSend c s s'  : Inv4 s -> Inv s -> step c s APMarkSend = Some s' -> Inv4 s'.
Proof. intros Q I H. qgo. Qed.
Lemma q_APUnref c s s'  : Inv4 s -> Inv s -> step c s APUnref = Some s' -> Inv4 s'.
Proof. intros Q I H. qgo. Qed.
Lemma q_APGetBp c s s'  : Inv4 s -> Inv s -> step c s APGetBp = Some s' -> Inv4 s'.
Proof. intros Q I H. qgo. Qed.
Lemma q_APFlush c s s'  : Inv4 s -> Inv s -> step c s APFlush = Some s' -> Inv4 s'.
Proof. intros Q I H. qgo. Qed.
Lemma q_APSeeClosed c s s'  : Inv4 s -> Inv s -> step c s APSeeClosed = Some s' -> Inv4 s'.
Proof. intros Q I H. qgo. Qed.
Lemma q_APExit c s s'  : Inv4 s -> Inv s -> step c s APExit = Some s' -> Inv4 s'.
Proof. intros Q I H. qgo. Qed.
Lemma q_ABSyn c s s'  : Inv4 s -> Inv s -> step c s ABSyn = Some s' -> Inv4 s'.
Proof. intros Q I H. qgo. Qed.
Lemma q_ABKeep c s s'  : Inv4 s -> Inv s -> step c s ABKeep = Some s' -> Inv4 s'.
Proof. intros Q I H. qgo. Qed.
Lemma q_ABNeedSpace c s s'  : Inv4 s -> Inv s -> step c s ABNeedSpace = Some s' -> Inv4 s'.
Proof. intros Q I H. qgo. Qed.
Lemma q_ABFate c s s' f : Inv4 s -> Inv s -> step c s (ABFate f) = Some s' -> Inv4 s'.
Proof. intros Q I H. qgo. Qed.
Lemma q_ABFlush c s s'  : Inv4 s -> Inv s -> step c s ABFlush = Some s' -> Inv4 s'.
Proof. intros Q I H. qgo. Qed.
Lemma q_ABRecvResp c s s'  : Inv4 s -> Inv s -> step c s ABRecvResp = Some s' -> Inv4 s'.
Proof. intros Q I H. qgo. Qed.
Lemma q_ABResolve c s s' f : Inv4 s -> Inv s -> step c s (ABResolve f) = Some s' -> Inv4 s'.
Proof. intros Q I H. qgo. Qed.
Lemma q_ABDropBuf c s s' f : Inv4 s -> Inv s -> step c s (ABDropBuf f) = Some s' -> Inv4 s'.
Proof. intros Q I H. qgo. Qed.
Lemma q_ABRespDone c s s'  : Inv4 s -> Inv s -> step c s ABRespDone = Some s' -> Inv4 s'.
Proof. intros Q I H. qgo. Qed.
Lemma q_ABSeeClosed c s s'  : Inv4 s -> Inv s -> step c s ABSeeClosed = Some s' -> Inv4 s'.
Proof. intros Q I H. qgo. Qed.
Lemma q_ABShutFlushed c s s'  : Inv4 s -> Inv s -> step c s ABShutFlushed = Some s' -> Inv4 s'.
Proof. intros Q I H. qgo. Qed.
Lemma q_ABCloseOut c s s'  : Inv4 s -> Inv s -> step c s ABCloseOut = Some s' -> Inv4 s'.
Proof. intros Q I H. qgo. Qed.
Lemma q_ABDrained c s s'  : Inv4 s -> Inv s -> step c s ABDrained = Some s' -> Inv4 s'.
Proof. intros Q I H. qgo. Qed.
Lemma q_ABCloseStop c s s'  : Inv4 s -> Inv s -> step c s ABCloseStop = Some s' -> Inv4 s'.
Proof. intros Q I H. qgo. Qed.
Lemma q_ABrNet c s s'  : Inv4 s -> Inv s -> step c s ABrNet = Some s' -> Inv4 s'.
Proof. intros Q I H. qgo. Qed.
Lemma q_ABrSeeClosed c s s'  : Inv4 s -> Inv s -> step c s ABrSeeClosed = Some s' -> Inv4 s'.
Proof. intros Q I H. qgo. Qed.
Lemma q_ABrCloseResp c s s'  : Inv4 s -> Inv s -> step c s ABrCloseResp = Some s' -> Inv4 s'.
Proof. intros Q I H. qgo. Qed.
Lemma q_AOld c s s' f : Inv4 s -> Inv s -> step c s (AOld f) = Some s' -> Inv4 s'.
Proof. intros Q I H. qgo. Qed.
