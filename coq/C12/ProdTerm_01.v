(* C12 — async producer: the additional invariant Inv4 of ProdTerm.v is preserved by every action ([ProdT.qgo]) . *)
(* part 1 of 3; lemmas packed by proof time so that no file of the family takes much over a minute *)
From Coq Require Import List Arith Bool Lia.
From SV Require Import C12.Lts C12.LtsProofs C12.Tac C12.Prod C12.ProdProofs C12.ProdSafety C12.ProdTerm.
Import ListNotations. Import Prod. Import ProdP. Import ProdT.

Lemma q_AOld c s s' f : Inv4 s -> Inv s -> step c s (AOld f) = Some s' -> Inv4 s'.
Proof. intros Q I H. qgo. Qed.
Lemma q_ATFwd c s s' hand : Inv4 s -> Inv s -> step c s (ATFwd hand) = Some s' -> Inv4 s'.
Proof. intros Q I H. qgo. Qed.
Lemma q_ABResolve c s s' f : Inv4 s -> Inv s -> step c s (ABResolve f) = Some s' -> Inv4 s'.
Proof. intros Q I H. qgo. Qed.
Lemma q_ABFate c s s' f : Inv4 s -> Inv s -> step c s (ABFate f) = Some s' -> Inv4 s'.
Proof. intros Q I H. qgo. Qed.
Lemma q_ABDropBuf c s s' f : Inv4 s -> Inv s -> step c s (ABDropBuf f) = Some s' -> Inv4 s'.
Proof. intros Q I H. qgo. Qed.
Lemma q_ATErr c s s' k : Inv4 s -> Inv s -> step c s (ATErr k) = Some s' -> Inv4 s'.
Proof. intros Q I H. qgo. Qed.
