(* C12 — consumer group termination : per action, the additional invariant Inv2 is preserved and the
   measure decreases in the phase. By the tactics [GrpT.jgo] / [GrpT.mgo]. *)
(* part 2 of 3; lemmas packed by proof time so that no file of the family takes much over a minute *)
From Coq Require Import List Arith Bool Lia.
From SV Require Import C12.Lts C12.LtsProofs C12.Tac C12.Group C12.GroupProofs C12.GroupSafety C12.GroupTerm.
Import ListNotations. Import Grp. Import GrpP. Import GrpT.

Lemma j_ACSetup c s s' m : Inv2 s -> Inv s -> step c s (ACSetup m) = Some s' -> Inv2 s'.
Proof. intros J I H. jgo. Qed.
Lemma m_AFwSend c s s' h : Inv s -> closed_ch s = true -> step c s (AFwSend h) = Some s' -> lt3 (mu c s') (mu c s).
Proof. intros I P H. mgo. Qed.
Lemma m_AGHe c s s' h : Inv s -> closed_ch s = true -> step c s (AGHe h) = Some s' -> lt3 (mu c s') (mu c s).
Proof. intros I P H. mgo. Qed.
Lemma j_ACRelHe c s s' h : Inv2 s -> Inv s -> step c s (ACRelHe h) = Some s' -> Inv2 s'.
Proof. intros J I H. jgo. Qed.
Lemma j_AFwSend c s s' h : Inv2 s -> Inv s -> step c s (AFwSend h) = Some s' -> Inv2 s'.
Proof. intros J I H. jgo. Qed.
Lemma j_AGHe c s s' h : Inv2 s -> Inv s -> step c s (AGHe h) = Some s' -> Inv2 s'.
Proof. intros J I H. jgo. Qed.
Lemma j_AHHe c s s' h : Inv2 s -> Inv s -> step c s (AHHe h) = Some s' -> Inv2 s'.
Proof. intros J I H. jgo. Qed.
Lemma m_ACJoin c s s' j : Inv s -> closed_ch s = true -> step c s (ACJoin j) = Some s' -> lt3 (mu c s') (mu c s).
Proof. intros I P H. mgo. Qed.
Lemma m_AKCall c s s'  : Inv s -> closed_ch s = true -> step c s AKCall = Some s' -> lt3 (mu c s') (mu c s).
Proof. intros I P H. mgo. Qed.
Lemma j_ACRel2 c s s' e : Inv2 s -> Inv s -> step c s (ACRel2 e) = Some s' -> Inv2 s'.
Proof. intros J I H. jgo. Qed.
