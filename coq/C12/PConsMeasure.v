(* C12 — partition consumer: no infinite run after AsyncClose / Close.
   Measure: lexicographic pair ( timer events and application calls still to come,  potential ), where the
   potential is a weighted sum of the program points of dispatcher, feeder, subscription manager and
   subscription consumer, the trigger token, the manager's buffered subscription, a response waiting in the
   feeder channel and the buffered messages / errors.  The subscription consumer's waiting points weigh more
   while a wake-up (buffered subscription or closed wait channel) is available. *)
From Coq Require Import List Arith Bool Lia.
From SV Require Import C12.Lts C12.LtsProofs C12.Tac C12.PCons C12.PConsProofs C12.PConsInv_01 C12.PConsInv_02 C12.PConsSafety.
Import ListNotations.

Module PCM.
  Import PC. Import PCP.

  Definition Wt : nat := 12.   (* a trigger token *)
  Definition Wb : nat := 20.   (* the child in the manager's buffer *)
  Definition Wsm : nat := 12.  (* one step of the manager's way out *)
  Definition Kf (c : cfg) : nat := 3 * maxb c + 44.   (* a response in the feeder channel *)

  Definition dR (d : dpc) : nat :=
    match d with DDone => 0 | DCloseF => 1 | DExit => 2 | DWait => 3 | DSel => 4 | DTok => 16 | DErr => 18
               | DSub => 34 | DNet => 86 | DUnref => 87 end.
  Definition fR (f : fpc) : nat :=
    match f with
    | FDone => 0 | FCloseE => 1 | FCloseM => 2 | FWait => 3 | FAck => 5 | FParseErr => 8
    | FResub => 36 | FLimbo n => 3 * n + 40 | FMsgs n first => 3 * n + 44 + (if first then 1 else 0)
    end.
  Definition mR (p : smpc) : nat :=
    match p with SMDone => 0 | SMCloseNS => 1 | SMFlush => 2 | SMCloseWait => 3 | SMLoop => 4 end.
  (* b = wake-up bonus, k = Kf c *)
  Definition scR (p : scpc) (sub : bool) (b k : nat) : nat :=
    match p with
    | SCDone => 0
    | SCFirst | SCIdle | SCAbWait => 2 + b
    | SCLen => if sub then 62 + k else 4 + b
    | SCUpdClose => 5 + b
    | SCUpd => 6 + b
    | SCRange | SCAbLoop => 8
    | SCAbNTok => 22 | SCAbNErr => 24
    | SCAbTok => 28 | SCAbErr => 30
    | SCHClose => 45 | SCHTok => 46 | SCHErr _ => 50 | SCHandle => 54 | SCAcks => 56
    | SCFeed => 58 + k | SCAbort => 59 + k | SCFetch => 60 + k
    end.
  Definition aR (a : apc) : nat := match a with ApIdle => 0 | ApRet _ => 1 | ApDrain _ => 2 end.

  Definition bonus (s : st) : nat := if buf (w s) || wait_closed (w s) then 10 else 0.
  Definition L1 (c : cfg) (s : st) : nat := fuel s + (max_calls c - calls s).
  Definition L2 (c : cfg) (s : st) : nat :=
    dR (dp s) + Wt * b2n (trig_tok (ch s)) + Wb * b2n (buf (w s)) + fR (fp s) + Kf c * b2n (feed_full (ch s)) +
    Wsm * mR (sm (w s)) + scR (sc (w s)) (subs (w s)) (bonus s) (Kf c) +
    len (msgs (ch s)) + len (errs (ch s)) + aR (ap s) + (1 - b2n (seen_m (ch s))) + (1 - b2n (seen_e (ch s))).
  Definition mu (c : cfg) (s : st) : nat * nat := (L1 c s, L2 c s).

  Lemma scR_bonus p sub k : scR p sub 10 k <= scR p sub 0 k + 10 /\ scR p sub 0 k <= scR p sub 10 k.
  Proof. destruct p, sub; cbn; lia. Qed.

  Lemma lt2_intro a b a' b' : a < a' \/ (a = a' /\ b < b') -> lt2 (a, b) (a', b').
  Proof. unfold lt2; cbn. auto. Qed.

  Ltac pmgo :=
    match goal with I : Inv ?s, P : dying (ch ?s) = true, H : step ?c ?s _ = Some _ |- _ =>
      scbn H; unfold send_err, send_msg, put_token, w_unref, parse_ok, draining in H; rewrite ?P in H; scbn H;
      step_cases H; pair_cases; bool_hyps; pair_cases; bool_hyps;
      match goal with I : Inv ?sx |- _ =>
        destr_inv I; pose_specs sx;
        unf; rew_eqs sx; cbn in *; try discriminate;
        unfold mu; apply lt2_intro; unfold L1, L2, bonus, Kf, Wt, Wb, Wsm;
        unfold mk, with_ch, with_dp, with_fp, with_w, with_ap, with_rr, with_panic,
               c_dying, c_trig, c_feed, c_msgs, c_errs, c_seen, w_sm, w_sc, w_buf, w_subs, w_acks, w_waitc, w_nsc, wk_fresh;
        cbn -[Nat.mul Nat.sub Nat.add]; rew_eqs sx; cbn -[Nat.mul Nat.sub Nat.add];
        repeat match goal with
        | |- context [?a || ?b] => destruct a eqn:?; destruct b eqn:?; cbn -[Nat.mul Nat.sub Nat.add] in *
        | |- context [if ?b then _ else _] => destruct b eqn:?; cbn -[Nat.mul Nat.sub Nat.add] in *
        | |- context [b2n ?b] => destruct b eqn:?; cbn -[Nat.mul Nat.sub Nat.add] in *
        end;
        repeat match goal with |- context [scR ?p ?sb 10 ?k] =>
          lazymatch goal with H : scR p sb 10 k <= _ /\ _ |- _ => fail | _ => pose proof (scR_bonus p sb k) end end;
        try lia
      end
    end.
End PCM.
