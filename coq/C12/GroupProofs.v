(* C12 — safety of the consumer-group shutdown model (Group.v).
   With errorsLock (repaired tree) no schedule panics.  Without it (pinned tree) the only way to a panic
   is the step "close(c.errors) while a forwarder is between handleError's check and its send": every
   schedule that avoids this step is panic-free, and a schedule that takes it reaches a send on the
   closed channel (group_send_on_closed_refuted).
   Same proof engineering as PConsProofs.v: 0/1 indicators of program-point classes, linear clauses, lia. *)
From Coq Require Import List Arith Bool Lia.
From SV Require Import C12.Lts C12.LtsProofs C12.Tac C12.Group.
Import ListNotations.

Module GrpP.
  Import Grp.

  Definition b2n (b : bool) : nat := if b then 1 else 0.
  Lemma b2n_le1 b : b2n b <= 1. Proof. destruct b; cbn; lia. Qed.
  Lemma b2n_0 b : b2n b = 0 -> b = false. Proof. destruct b; cbn; congruence. Qed.

  (* Close caller *)
  Definition k1 (k : kpc) : nat := match k with KCloseCh => 1 | _ => 0 end.
  Definition k26 (k : kpc) : nat := match k with KLeaveLock | KLeaveNet | KSpawn _ | KDrain _ | KClient _ => 1 | _ => 0 end.
  Definition k3 (k : kpc) : nat := match k with KLeaveNet => 1 | _ => 0 end.
  Definition k46 (k : kpc) : nat := match k with KSpawn _ | KDrain _ | KClient _ => 1 | _ => 0 end.
  Definition k56 (k : kpc) : nat := match k with KDrain _ | KClient _ => 1 | _ => 0 end.
  Definition k5 (k : kpc) : nat := match k with KDrain _ => 1 | _ => 0 end.
  Lemma k_spec k : k1 k + k26 k <= 1 /\ k3 k + k46 k <= k26 k /\ k56 k <= k46 k /\ k5 k <= k56 k.
  Proof. destruct k; cbn; lia. Qed.
  Definition eP (e : epc) : nat := match e with EPending => 1 | _ => 0 end.
  Definition eD (e : epc) : nat := match e with EDone => 1 | _ => 0 end.
  Lemma e_spec e : eP e + eD e <= 1. Proof. destruct e; cbn; lia. Qed.
  Definition lC (l : lockpc) : nat := match l with LConsume => 1 | _ => 0 end.
  Definition lL (l : lockpc) : nat := match l with LLeave => 1 | _ => 0 end.
  Lemma l_spec l : lC l + lL l <= 1. Proof. destruct l; cbn; lia. Qed.
  (* Consume caller: holds the lock / session exists / before close(hbDying) / in handleError *)
  Definition cSess (x : cpc) : nat :=
    match x with CIdle | CLock | CRet _ => 0 | _ => 1 end.
  Definition cS2 (x : cpc) : nat :=
    match x with CWaitCtx | CRel1 _ | CRelWait _ | CRel2 _ | CRelHe _ | CRel3 _ | CRel4 _ => 1 | _ => 0 end.
  Definition cPre3 (x : cpc) : nat :=
    match x with CWaitCtx | CRel1 _ | CRelWait _ | CRel2 _ | CRelHe _ | CRel3 _ => 1 | _ => 0 end.
  Definition cWg (x : cpc) : nat := match x with CWaitCtx | CRel1 _ | CRelWait _ => 1 | _ => 0 end.
  Definition cHe (x : cpc) : nat := match x with CRelHe _ => 1 | _ => 0 end.
  Definition cPre2 (x : cpc) : nat := match x with CWaitCtx | CRel1 _ | CRelWait _ | CRel2 _ => 1 | _ => 0 end.
  Definition cOnce (x : cpc) : nat := match x with CRelHe _ | CRel3 _ | CRel4 _ => 1 | _ => 0 end.
  Lemma c_spec x : cS2 x <= cSess x /\ cPre3 x <= cS2 x /\ cWg x <= cPre3 x /\ cHe x <= cPre3 x /\ cHe x + cWg x <= 1 /\
                   cOnce x <= cS2 x /\ cOnce x + cWg x <= 1 /\ cHe x <= cOnce x /\ cPre2 x + cOnce x <= 1 /\ cWg x <= cPre2 x.
  Proof. destruct x; cbn; lia. Qed.
  Definition hA (h : hpc) : nat := match h with HNet | HBack | HSel | HHe | HExit => 1 | _ => 0 end.
  Definition hHe (h : hpc) : nat := match h with HHe => 1 | _ => 0 end.
  Definition hD (h : hpc) : nat := match h with HDone => 1 | _ => 0 end.
  Lemma h_spec h : hHe h <= hA h /\ hA h + hD h <= 1. Proof. destruct h; cbn; lia. Qed.

  Definition claims (s : st) : nat := n_start s + n_new s + n_run s + n_wait s + n_he s + n_defer s.

  Record Inv (s : st) : Prop := {
    i_panic : b2n (panic s) = 0;
    (* the caller of Close and the flags it sets *)
    i_cc : b2n (closed_ch s) = k26 (kc s) + b2n (client_closed s);
    i_on : b2n (once s) = k1 (kc s) + b2n (closed_ch s);
    i_ke : eP (ke s) + eD (ke s) = k56 (kc s) + b2n (client_closed s) /\ eP (ke s) <= k5 (kc s);
    i_ec : b2n (closed (errs s)) = eD (ke s);
    (* the lock *)
    i_lL : lL (lock s) = k3 (kc s);
    i_lC : lC (lock s) = cSess (cc s);
    (* session *)
    i_hb : hA (hb s) <= cS2 (cc s);
    i_hdd : b2n (hb_dead s) = hD (hb s);
    i_hd : b2n (hb_dying s) + cPre3 (cc s) <= 1;
    i_wg : wg s = claims s;
    i_wgc : 1 <= wg s -> cWg (cc s) = 1;
    i_ro : cOnce (cc s) <= b2n (rel_once s) /\ cPre2 (cc s) + b2n (rel_once s) <= 1;
    (* whoever is inside handleError with the session's lock held keeps Close before the leave *)
    i_syncC : cHe (cc s) + k46 (kc s) + b2n (client_closed s) <= 1;
    i_syncH : hHe (hb s) + k46 (kc s) + b2n (client_closed s) <= 1;
    i_syncG : 1 <= n_he s -> k46 (kc s) + b2n (client_closed s) = 0;
    (* forwarders inside handleError: the channel is still open *)
    i_fw : 1 <= fw_checked s -> eD (ke s) = 0
  }.

  Lemma inv_init c : Inv (init c).
  Proof. constructor; cbn; lia. Qed.

  Ltac unf := unfold set_errs, with_panic, set_kc, set_cc, set_lk, set_sess, set_ctx, set_hb, set_lc, set_claims, set_budget, set_fw, claims in *.

  Ltac rew_eqs s :=
    repeat match goal with
    | H : ?l = ?r |- _ =>
      lazymatch r with
      | context [s] => fail
      | _ => lazymatch l with context [s] => progress (rewrite H in * ) end
      end
    end.

  Ltac destr_inv I :=
    destruct I as [Ipanic Icc Ion Ike Iec IlL IlC Ihb Ihdd Ihd Iwg Iwgc Iro IsyncC IsyncH IsyncG Ifw].

  Ltac pose_specs s :=
    pose proof (k_spec (kc s)); pose proof (e_spec (ke s)); pose proof (l_spec (lock s));
    pose proof (c_spec (cc s)); pose proof (h_spec (hb s));
    pose proof (b2n_le1 (closed_ch s)); pose proof (b2n_le1 (once s)); pose proof (b2n_le1 (client_closed s));
    pose proof (b2n_le1 (closed (errs s))); pose proof (b2n_le1 (hb_dead s)); pose proof (b2n_le1 (hb_dying s));
    pose proof (b2n_le1 (rel_once s)).

  Ltac pair_cases :=
    repeat match goal with
    | H : None = Some _ |- _ => discriminate H
    | H : (match ?x with _ => _ end) = Some _ |- _ => destruct x eqn:?
    | H : (match ?x with _ => _ end) = true |- _ => destruct x eqn:?; try discriminate H
    | H : Some _ = Some _ |- _ => injection H as ?; subst
    end.

  Ltac bool_goal :=
    repeat match goal with
    | |- context [b2n (?a || ?b)] => destruct a eqn:?; destruct b eqn:?; cbn in *
    | |- context [b2n (?a && ?b)] => destruct a eqn:?; destruct b eqn:?; cbn in *
    | |- context [b2n (?a =? ?b)] => destruct (a =? b) eqn:?; bool_hyps; cbn in *
    end.

  (* rewrite the goal only *)
  Ltac rew_goal s :=
    repeat match goal with
    | H : ?l = ?r |- _ =>
      lazymatch r with
      | context [s] => fail
      | _ => lazymatch l with context [s] => progress (rewrite H) end
      end
    end.

  (* lia on the purely linear part of the context first: every implication in the context doubles lia's case analysis *)
  Ltac lia0 := solve [ repeat match goal with H : _ -> _ |- _ => clear H end; lia ].
  Ltac lia2 := first [ lia0 | lia ].
  Ltac go_fin :=
    match goal with I : Inv ?s |- _ =>
      pose_specs s; destr_inv I;
      match goal with Hpn : b2n (panic _) = 0 |- _ =>
        let Hp := fresh "Hp" in pose proof (b2n_0 _ Hpn) as Hp; try rewrite Hp in * end;
      unf; rew_eqs s; cbn in *;
      (constructor; unf; cbn; rew_goal s; cbn; try lia2; bool_goal; try lia2)
    end.
  Ltac go s H I :=
    scbn H; unfold tick, toil, he_check, he_send, sync_checked in H;
    step_cases H; pair_cases; bool_hyps; pair_cases; bool_hyps; go_fin.
End GrpP.
