(* C12 — safety of the async-producer shutdown model (Prod.v): for every schedule and every moment of
   AsyncClose/Close, no channel is closed twice, nothing is sent on a closed channel, inFlight never
   goes negative.  The invariant: inFlight counts exactly the tokens in the pipeline (every goroutine that
   can send on errors / successes / retries / input holds one), shutdown() passes inFlight.Wait() only at
   zero and nothing is added afterwards; the partition producer's reference keeps its worker's input open.
   Same proof engineering as PConsProofs.v. *)
From Coq Require Import List Arith Bool Lia.
From SV Require Import C12.Lts C12.LtsProofs C12.Tac C12.Prod.
Import ListNotations.

Module ProdP.
  Import Prod.

  Definition b2n (b : bool) : nat := if b then 1 else 0.
  Lemma b2n_le1 b : b2n b <= 1. Proof. destruct b; cbn; lia. Qed.
  Lemma b2n_0 b : b2n b = 0 -> b = false. Proof. destruct b; cbn; congruence. Qed.

  (* shutdown(): holds the marker / passed Wait / has closed input, retries, errors, successes *)
  Definition sM (p : spc) : nat := match p with SSend => 1 | _ => 0 end.
  Definition sLate (p : spc) : nat := match p with SClient | SCloseIn | SCloseRet | SCloseErr | SCloseSucc | SDone => 1 | _ => 0 end.
  Definition sI (p : spc) : nat := match p with SCloseRet | SCloseErr | SCloseSucc | SDone => 1 | _ => 0 end.
  Definition sR (p : spc) : nat := match p with SCloseErr | SCloseSucc | SDone => 1 | _ => 0 end.
  Definition sE (p : spc) : nat := match p with SCloseSucc | SDone => 1 | _ => 0 end.
  Definition sS (p : spc) : nat := match p with SDone => 1 | _ => 0 end.
  Definition s0 (p : spc) : nat := match p with SIdle => 1 | _ => 0 end.
  Lemma s_spec p : sM p + sLate p + s0 p <= 1 /\ sI p <= sLate p /\ sR p <= sI p /\ sE p <= sR p /\ sS p <= sE p.
  Proof. destruct p; cbn; lia. Qed.
  Definition dH (p : dpc) : nat := match p with DHold => 1 | _ => 0 end.
  Definition dDn (p : dpc) : nat := match p with DDone => 1 | _ => 0 end.
  Lemma d_spec p : dH p + dDn p <= 1. Proof. destruct p; cbn; lia. Qed.
  Definition tH (p : tpc) : nat := match p with THold | TSend => 1 | _ => 0 end.
  Definition tS (p : tpc) : nat := match p with TSend => 1 | _ => 0 end.
  Definition tDn (p : tpc) : nat := match p with TDone => 1 | _ => 0 end.
  Definition tNo (p : tpc) : nat := match p with TNone => 1 | _ => 0 end.
  Lemma t_spec p : tH p + tDn p + tNo p <= 1 /\ tS p <= tH p. Proof. destruct p; cbn; lia. Qed.
  Definition pH (p : ppc) : nat := match p with PHold => 1 | _ => 0 end.
  Definition pSt (p : ppc) : nat := match p with PStart => 1 | _ => 0 end.
  Definition pNo (p : ppc) : nat := match p with PNone => 1 | _ => 0 end.
  Definition pAct (p : ppc) : nat := match p with PHold | PStart => 1 | _ => 0 end.
  Definition pLive (p : ppc) : nat := match p with PNone | PDone => 0 | _ => 1 end.
  Lemma p_spec p : pH p + pSt p + pNo p <= 1 /\ pAct p = pH p + pSt p /\ pAct p <= pLive p /\ pLive p + pNo p <= 1.
  Proof. destruct p; cbn; lia. Qed.
  Definition aW (p : bpc) : nat := match p with BWaitSpace => 1 | _ => 0 end.
  Definition bHd (p a : bpc) : nat := match p with BHold | BWaitSpace => 1 | BResp => aW a | _ => 0 end.
  Definition bRs (p : bpc) : nat := match p with BResp => 1 | _ => 0 end.
  Definition bNo (p : bpc) : nat := match p with BNone => 1 | _ => 0 end.
  Definition aL (a : bpc) : nat := match a with BShutDrain => 1 | _ => 0 end.
  Definition aOK (a : bpc) : nat := match a with BSelect | BWaitSpace | BShutFlush | BShutDrain => 1 | _ => 0 end.
  (* past close(bp.output); a response being handled counts as the point it was received at *)
  Definition bLate (p a : bpc) : nat := match p with BShutDrain | BShutStop | BDone => 1 | BResp => aL a | _ => 0 end.
  Definition bDn (p : bpc) : nat := match p with BDone => 1 | _ => 0 end.
  Definition bSel (p : bpc) : nat := match p with BSelect => 1 | _ => 0 end.
  Lemma b_spec p a : bHd p a <= 1 /\ bRs p + bNo p + bSel p <= 1 /\ bNo p + bLate p a + bSel p <= 1 /\ bDn p <= bLate p a /\ aW a <= 1 /\
                     bSel p + bHd p a <= 1 /\ bNo p + bHd p a <= 1 /\ bLate p a + bHd p a <= 1 /\ bLate p a <= 1 /\
                     aL a + aW a <= aOK a /\ aOK a <= 1 /\ bDn p + bRs p <= 1.
  Proof. destruct p, a; cbn; lia. Qed.
  Definition brB (p : brpc) : nat := match p with BrNet | BrSend => 1 | _ => 0 end.
  Definition brDn (p : brpc) : nat := match p with BrDone => 1 | _ => 0 end.
  Lemma br_spec p : brB p + brDn p <= 1. Proof. destruct p; cbn; lia. Qed.

  (* counted tokens *)
  Definition tokens (s : st) : nat :=
    sM (sp s) + d_hold s + tpq s + t_hold s + ppq s + p_hold s + ppbuf s + p_mark s +
    b_hold s + b_buf s + br_set s + b_resp s + rh_buf s + old s.

  Record Inv (s : st) : Prop := {
    i_panic : b2n (panic s) = 0;
    i_count : inflight s = tokens s;
    (* after inFlight.Wait() nothing is in flight any more *)
    i_late : sLate (sp s) = 1 -> inflight s = 0;
    (* the four closes of shutdown(), in order *)
    i_cin : b2n (in_closed s) = sI (sp s);
    i_cret : b2n (ret_closed s) = sR (sp s);
    i_cerr : b2n (err_closed s) = sE (sp s);
    i_csucc : b2n (succ_closed s) = sS (sp s);
    (* one token in a goroutine's hands *)
    i_dh : d_hold s = dH (dp s);
    i_th : t_hold s = tH (tp s);
    i_ph : p_hold s = pH (pp s);
    i_pm : p_mark s <= pAct (pp s);
    i_bh : b_hold s = bHd (bp s) (b_after s);
    i_brs : bRs (bp s) = 0 -> b_resp s = 0;
    i_brset : brB (br s) = 0 -> br_set s = 0;
    (* the handlers' inputs are closed by their feeders when those are done *)
    i_tpqc : b2n (tpq_closed s) <= dDn (dp s) /\ b2n (tpq_closed s) + tNo (tp s) <= 1;
    i_ppqc : b2n (ppq_closed s) <= tDn (tp s) /\ b2n (ppq_closed s) + pNo (pp s) <= 1;
    i_tno : tNo (tp s) = 1 -> tpq s = 0;
    i_pno2 : pNo (pp s) = 1 -> ppq s + ppbuf s + p_mark s = 0;
    (* a partition producer that is still prefetching has its first message waiting *)
    i_pst : pSt (pp s) <= ppq s + tS (tp s);
    (* the worker reference *)
    i_ref : b_refs s = b2n (pp_ref s) /\ b2n (pp_ref s) + b2n (b_in_closed s) <= 1 /\
            1 <= b2n (pp_ref s) + bNo (bp s) + b2n (b_in_closed s) /\ b2n (pp_ref s) + bNo (bp s) <= 1 /\
            b2n (pp_ref s) <= pLive (pp s);
    i_bno : bNo (bp s) = 1 -> b_buf s + b_resp s + br_set s = 0;
    (* the worker's own closes *)
    i_out : b2n (out_closed s) <= bLate (bp s) (b_after s);
    i_after : bRs (bp s) <= aOK (b_after s);
    i_resp : b2n (resp_closed s) <= brDn (br s);
    i_stop : b2n (stop_closed s) <= bDn (bp s)
  }.

  Lemma inv_init c : Inv (init c).
  Proof. constructor; cbn; try lia; auto. Qed.

  Ltac unf := unfold upd_panic, set_s, set_infl, set_app, set_d, set_t, set_p, set_mark, set_b, set_br, set_misc, done1, fresh_b, tokens in *.

  Ltac rew_eqs s :=
    repeat match goal with
    | H : ?l = ?r |- _ =>
      lazymatch r with
      | context [s] => fail
      | _ => lazymatch l with context [s] => progress (rewrite H in * ) end
      end
    end.
  Ltac rew_goal s :=
    repeat match goal with
    | H : ?l = ?r |- _ =>
      lazymatch r with
      | context [s] => fail
      | _ => lazymatch l with context [s] => progress (rewrite H) end
      end
    end.

  Ltac destr_inv I :=
    destruct I as [Ipanic Icount Ilate Icin Icret Icerr Icsucc Idh Ith Iph Ipm Ibh Ibrs Ibrset Itpqc Ippqc Itno Ipno2 Ipst Iref Ibno Iout Iafter Iresp Istop].

  Ltac pose_specs s :=
    pose proof (s_spec (sp s)); pose proof (d_spec (dp s)); pose proof (t_spec (tp s)); pose proof (p_spec (pp s));
    pose proof (b_spec (bp s) (b_after s)); pose proof (br_spec (br s));
    pose proof (b2n_le1 (in_closed s)); pose proof (b2n_le1 (ret_closed s)); pose proof (b2n_le1 (err_closed s));
    pose proof (b2n_le1 (succ_closed s)); pose proof (b2n_le1 (tpq_closed s)); pose proof (b2n_le1 (ppq_closed s));
    pose proof (b2n_le1 (pp_ref s)); pose proof (b2n_le1 (b_in_closed s)); pose proof (b2n_le1 (out_closed s));
    pose proof (b2n_le1 (resp_closed s)); pose proof (b2n_le1 (stop_closed s)).

  Ltac pair_cases :=
    repeat match goal with
    | H : None = Some _ |- _ => discriminate H
    | H : (match ?x with _ => _ end) = Some _ |- _ => destruct x eqn:?
    | H : (match ?x with _ => _ end) = true |- _ => destruct x eqn:?; try discriminate H
    | H : Some _ = Some _ |- _ => injection H as ?; subst
    end.

  Ltac bool_goal :=
    repeat match goal with
    | |- context [b2n (?a || ?b)] => destruct a eqn:?; destruct b eqn:?; cbn in *
    | |- context [b2n (?a && ?b)] => destruct a eqn:?; destruct b eqn:?; cbn in *
    | |- context [b2n (?a =? ?b)] => destruct (a =? b) eqn:?; bool_hyps; cbn in *
    end.

  (* reduce projections of updated states by call-by-value over the setters only (cbn is far too slow on
     this record), then evaluate the indicators that now see constructors *)
  (* accessors are unfolded everywhere (hypotheses too) so that both sides speak about the sub-record
     projections *)
  Ltac unacc := unfold inflight, sp, in_closed, ret_closed, err_closed, succ_closed, seen_err, seen_succ, sent, ap, dp, d_hold, shutting, rh, rh_buf, tp, tpq, tpq_closed, t_hold, pp, ppq, ppq_closed, p_hold, ppbuf, pp_ref, p_mark, bp, b_refs, b_in_closed, b_hold, b_buf, b_resp, b_after, br, br_set, out_closed, resp_closed, stop_closed in *.
  Ltac red_goal :=
    unfold upd_panic, set_s, set_infl, set_app, set_d, set_t, set_p, set_mark, set_b, set_br, set_misc, done1, fresh_b, tokens;
    unfold inflight, sp, in_closed, ret_closed, err_closed, succ_closed, seen_err, seen_succ, sent, ap, dp, d_hold, shutting, rh, rh_buf, tp, tpq, tpq_closed, t_hold, pp, ppq, ppq_closed, p_hold, ppbuf, pp_ref, p_mark, bp, b_refs, b_in_closed, b_hold, b_buf, b_resp, b_after, br, br_set, out_closed, resp_closed, stop_closed; cbn.

  (* lia on the purely linear part of the context first: every implication in the context doubles lia's case analysis *)
  Ltac lia0 := solve [ repeat match goal with H : _ -> _ |- _ => clear H end; lia ].
  Ltac lia2 := first [ lia0 | lia ].
  Ltac go_fin :=
    match goal with I : Inv ?s |- _ =>
      pose_specs s; destr_inv I;
      match goal with Hpn : b2n (panic _) = 0 |- _ =>
        let Hp := fresh "Hp" in pose proof (b2n_0 _ Hpn) as Hp; try rewrite Hp in * end;
      unfold tokens in *; unacc; rew_eqs s;
      cbn [sM sLate sI sR sE sS s0 dH dDn tH tS tDn tNo pH pSt pNo pAct pLive aW aL aOK bHd bRs bNo bLate bDn bSel brB brDn b2n orb andb] in *;
      (constructor; red_goal; rew_goal s; red_goal; try lia2; bool_goal; bool_hyps; try lia2)
    end.
  Ltac go s H I :=
    scbn H; unfold resolve in H; unacc;
    step_cases H; pair_cases; bool_hyps; pair_cases; bool_hyps; go_fin.
End ProdP.
