(* C12 — partition consumer: the additional invariant Inv3 of PConsTerm.v is preserved by every action ([PCT.kgo]),
   and the progress theorem. *)
From Coq Require Import List Arith Bool Lia.
From SV Require Import C12.Lts C12.LtsProofs C12.Tac C12.PCons C12.PConsProofs C12.PConsSafety C12.PConsTerm.
Import ListNotations.

Module PCTT.
  Import PC. Import PCP. Import PCT.

  Lemma k_AAsyncClose c s s'  : Inv3 s -> Inv s -> step c s AAsyncClose = Some s' -> Inv3 s'.
  Proof. intros K I H. kgo. Qed.
  Lemma k_ACloseCall c s s'  : Inv3 s -> Inv s -> step c s ACloseCall = Some s' -> Inv3 s'.
  Proof. intros K I H. kgo. Qed.
  Lemma k_ACloseRecv c s s'  : Inv3 s -> Inv s -> step c s ACloseRecv = Some s' -> Inv3 s'.
  Proof. intros K I H. kgo. Qed.
  Lemma k_ACloseSeeClosed c s s'  : Inv3 s -> Inv s -> step c s ACloseSeeClosed = Some s' -> Inv3 s'.
  Proof. intros K I H. kgo. Qed.
  Lemma k_ARet c s s' n : Inv3 s -> Inv s -> step c s (ARet n) = Some s' -> Inv3 s'.
  Proof. intros K I H. kgo. Qed.
  Lemma k_ARecvMsg c s s'  : Inv3 s -> Inv s -> step c s ARecvMsg = Some s' -> Inv3 s'.
  Proof. intros K I H. kgo. Qed.
  Lemma k_ARecvErr c s s'  : Inv3 s -> Inv s -> step c s ARecvErr = Some s' -> Inv3 s'.
  Proof. intros K I H. kgo. Qed.
  Lemma k_ASeeClosedM c s s'  : Inv3 s -> Inv s -> step c s ASeeClosedM = Some s' -> Inv3 s'.
  Proof. intros K I H. kgo. Qed.
  Lemma k_ASeeClosedE c s s'  : Inv3 s -> Inv s -> step c s ASeeClosedE = Some s' -> Inv3 s'.
  Proof. intros K I H. kgo. Qed.
  Lemma k_ADTake c s s'  : Inv3 s -> Inv s -> step c s ADTake = Some s' -> Inv3 s'.
  Proof. intros K I H. kgo. Qed.
  Lemma k_ADSeeClosed c s s'  : Inv3 s -> Inv s -> step c s ADSeeClosed = Some s' -> Inv3 s'.
  Proof. intros K I H. kgo. Qed.
  Lemma k_ADDying c s s'  : Inv3 s -> Inv s -> step c s ADDying = Some s' -> Inv3 s'.
  Proof. intros K I H. kgo. Qed.
  Lemma k_ADTimer c s s'  : Inv3 s -> Inv s -> step c s ADTimer = Some s' -> Inv3 s'.
  Proof. intros K I H. kgo. Qed.
  Lemma k_ADUnref c s s'  : Inv3 s -> Inv s -> step c s ADUnref = Some s' -> Inv3 s'.
  Proof. intros K I H. kgo. Qed.
  Lemma k_ADNet c s s' ok : Inv3 s -> Inv s -> step c s (ADNet ok) = Some s' -> Inv3 s'.
  Proof. intros K I H. kgo. Qed.
  Lemma k_ADSub c s s'  : Inv3 s -> Inv s -> step c s ADSub = Some s' -> Inv3 s'.
  Proof. intros K I H. kgo. Qed.
  Lemma k_ADErr c s s' hand : Inv3 s -> Inv s -> step c s (ADErr hand) = Some s' -> Inv3 s'.
  Proof. intros K I H. kgo. Qed.
  Lemma k_ADTok c s s'  : Inv3 s -> Inv s -> step c s ADTok = Some s' -> Inv3 s'.
  Proof. intros K I H. kgo. Qed.
  Lemma k_ADExit c s s'  : Inv3 s -> Inv s -> step c s ADExit = Some s' -> Inv3 s'.
  Proof. intros K I H. kgo. Qed.
  Lemma k_ADCloseF c s s'  : Inv3 s -> Inv s -> step c s ADCloseF = Some s' -> Inv3 s'.
  Proof. intros K I H. kgo. Qed.
  Lemma k_AFTake c s s' o n toolarge : Inv3 s -> Inv s -> step c s (AFTake o n toolarge) = Some s' -> Inv3 s'.
  Proof. intros K I H. kgo. Qed.
  Lemma k_AFSeeClosed c s s'  : Inv3 s -> Inv s -> step c s AFSeeClosed = Some s' -> Inv3 s'.
  Proof. intros K I H. kgo. Qed.
  Lemma k_AFPErr c s s' hand : Inv3 s -> Inv s -> step c s (AFPErr hand) = Some s' -> Inv3 s'.
  Proof. intros K I H. kgo. Qed.
  Lemma k_AFDying c s s'  : Inv3 s -> Inv s -> step c s AFDying = Some s' -> Inv3 s'.
  Proof. intros K I H. kgo. Qed.
  Lemma k_AFSend c s s' hand : Inv3 s -> Inv s -> step c s (AFSend hand) = Some s' -> Inv3 s'.
  Proof. intros K I H. kgo. Qed.
  Lemma k_AFTick c s s'  : Inv3 s -> Inv s -> step c s AFTick = Some s' -> Inv3 s'.
  Proof. intros K I H. kgo. Qed.
  Lemma k_AFLSend c s s' hand : Inv3 s -> Inv s -> step c s (AFLSend hand) = Some s' -> Inv3 s'.
  Proof. intros K I H. kgo. Qed.
  Lemma k_AFLDying c s s'  : Inv3 s -> Inv s -> step c s AFLDying = Some s' -> Inv3 s'.
  Proof. intros K I H. kgo. Qed.
  Lemma k_AFLEnd c s s'  : Inv3 s -> Inv s -> step c s AFLEnd = Some s' -> Inv3 s'.
  Proof. intros K I H. kgo. Qed.
  Lemma k_AFResub c s s'  : Inv3 s -> Inv s -> step c s AFResub = Some s' -> Inv3 s'.
  Proof. intros K I H. kgo. Qed.
  Lemma k_AFAck c s s'  : Inv3 s -> Inv s -> step c s AFAck = Some s' -> Inv3 s'.
  Proof. intros K I H. kgo. Qed.
  Lemma k_AFCloseM c s s'  : Inv3 s -> Inv s -> step c s AFCloseM = Some s' -> Inv3 s'.
  Proof. intros K I H. kgo. Qed.
  Lemma k_AFCloseE c s s'  : Inv3 s -> Inv s -> step c s AFCloseE = Some s' -> Inv3 s'.
  Proof. intros K I H. kgo. Qed.
  Lemma k_ASMSeeClosed c s s'  : Inv3 s -> Inv s -> step c s ASMSeeClosed = Some s' -> Inv3 s'.
  Proof. intros K I H. kgo. Qed.
  Lemma k_ASMGive c s s'  : Inv3 s -> Inv s -> step c s ASMGive = Some s' -> Inv3 s'.
  Proof. intros K I H. kgo. Qed.
  Lemma k_ASMWait c s s'  : Inv3 s -> Inv s -> step c s ASMWait = Some s' -> Inv3 s'.
  Proof. intros K I H. kgo. Qed.
  Lemma k_ASMCloseWait c s s'  : Inv3 s -> Inv s -> step c s ASMCloseWait = Some s' -> Inv3 s'.
  Proof. intros K I H. kgo. Qed.
  Lemma k_ASMFlush c s s'  : Inv3 s -> Inv s -> step c s ASMFlush = Some s' -> Inv3 s'.
  Proof. intros K I H. kgo. Qed.
  Lemma k_ASMCloseNS c s s'  : Inv3 s -> Inv s -> step c s ASMCloseNS = Some s' -> Inv3 s'.
  Proof. intros K I H. kgo. Qed.
  Lemma k_ASCWaitClosed c s s'  : Inv3 s -> Inv s -> step c s ASCWaitClosed = Some s' -> Inv3 s'.
  Proof. intros K I H. kgo. Qed.
  Lemma k_ASCRangeClosed c s s'  : Inv3 s -> Inv s -> step c s ASCRangeClosed = Some s' -> Inv3 s'.
  Proof. intros K I H. kgo. Qed.
  Lemma k_ASCUpd c s s'  : Inv3 s -> Inv s -> step c s ASCUpd = Some s' -> Inv3 s'.
  Proof. intros K I H. kgo. Qed.
  Lemma k_ASCUpdClose c s s'  : Inv3 s -> Inv s -> step c s ASCUpdClose = Some s' -> Inv3 s'.
  Proof. intros K I H. kgo. Qed.
  Lemma k_ASCLen c s s'  : Inv3 s -> Inv s -> step c s ASCLen = Some s' -> Inv3 s'.
  Proof. intros K I H. kgo. Qed.
  Lemma k_ASCFetch c s s' ok : Inv3 s -> Inv s -> step c s (ASCFetch ok) = Some s' -> Inv3 s'.
  Proof. intros K I H. kgo. Qed.
  Lemma k_ASCFeed c s s'  : Inv3 s -> Inv s -> step c s ASCFeed = Some s' -> Inv3 s'.
  Proof. intros K I H. kgo. Qed.
  Lemma k_ASCAcks c s s'  : Inv3 s -> Inv s -> step c s ASCAcks = Some s' -> Inv3 s'.
  Proof. intros K I H. kgo. Qed.
  Lemma k_ASCHandle c s s' moved : Inv3 s -> Inv s -> step c s (ASCHandle moved) = Some s' -> Inv3 s'.
  Proof. intros K I H. kgo. Qed.
  Lemma k_ASCHErr c s s' hand : Inv3 s -> Inv s -> step c s (ASCHErr hand) = Some s' -> Inv3 s'.
  Proof. intros K I H. kgo. Qed.
  Lemma k_ASCHTok c s s'  : Inv3 s -> Inv s -> step c s ASCHTok = Some s' -> Inv3 s'.
  Proof. intros K I H. kgo. Qed.
  Lemma k_ASCHClose c s s'  : Inv3 s -> Inv s -> step c s ASCHClose = Some s' -> Inv3 s'.
  Proof. intros K I H. kgo. Qed.
  Lemma k_ASCAbort c s s'  : Inv3 s -> Inv s -> step c s ASCAbort = Some s' -> Inv3 s'.
  Proof. intros K I H. kgo. Qed.
  Lemma k_ASCAbErr c s s' hand : Inv3 s -> Inv s -> step c s (ASCAbErr hand) = Some s' -> Inv3 s'.
  Proof. intros K I H. kgo. Qed.
  Lemma k_ASCAbTok c s s'  : Inv3 s -> Inv s -> step c s ASCAbTok = Some s' -> Inv3 s'.
  Proof. intros K I H. kgo. Qed.
  Lemma k_ASCAbNErr c s s' hand : Inv3 s -> Inv s -> step c s (ASCAbNErr hand) = Some s' -> Inv3 s'.
  Proof. intros K I H. kgo. Qed.
  Lemma k_ASCAbNTok c s s'  : Inv3 s -> Inv s -> step c s ASCAbNTok = Some s' -> Inv3 s'.
  Proof. intros K I H. kgo. Qed.

  Lemma inv3_step c s a s' : Inv3 s -> Inv s -> step c s a = Some s' -> Inv3 s'.
  Proof.
    intros K I H. destruct a.
    - eapply k_AAsyncClose; eauto.
    - eapply k_ACloseCall; eauto.
    - eapply k_ACloseRecv; eauto.
    - eapply k_ACloseSeeClosed; eauto.
    - eapply k_ARet; eauto.
    - eapply k_ARecvMsg; eauto.
    - eapply k_ARecvErr; eauto.
    - eapply k_ASeeClosedM; eauto.
    - eapply k_ASeeClosedE; eauto.
    - eapply k_ADTake; eauto.
    - eapply k_ADSeeClosed; eauto.
    - eapply k_ADDying; eauto.
    - eapply k_ADTimer; eauto.
    - eapply k_ADUnref; eauto.
    - eapply k_ADNet; eauto.
    - eapply k_ADSub; eauto.
    - eapply k_ADErr; eauto.
    - eapply k_ADTok; eauto.
    - eapply k_ADExit; eauto.
    - eapply k_ADCloseF; eauto.
    - eapply k_AFTake; eauto.
    - eapply k_AFSeeClosed; eauto.
    - eapply k_AFPErr; eauto.
    - eapply k_AFDying; eauto.
    - eapply k_AFSend; eauto.
    - eapply k_AFTick; eauto.
    - eapply k_AFLSend; eauto.
    - eapply k_AFLDying; eauto.
    - eapply k_AFLEnd; eauto.
    - eapply k_AFResub; eauto.
    - eapply k_AFAck; eauto.
    - eapply k_AFCloseM; eauto.
    - eapply k_AFCloseE; eauto.
    - eapply k_ASMSeeClosed; eauto.
    - eapply k_ASMGive; eauto.
    - eapply k_ASMWait; eauto.
    - eapply k_ASMCloseWait; eauto.
    - eapply k_ASMFlush; eauto.
    - eapply k_ASMCloseNS; eauto.
    - eapply k_ASCWaitClosed; eauto.
    - eapply k_ASCRangeClosed; eauto.
    - eapply k_ASCUpd; eauto.
    - eapply k_ASCUpdClose; eauto.
    - eapply k_ASCLen; eauto.
    - eapply k_ASCFetch; eauto.
    - eapply k_ASCFeed; eauto.
    - eapply k_ASCAcks; eauto.
    - eapply k_ASCHandle; eauto.
    - eapply k_ASCHErr; eauto.
    - eapply k_ASCHTok; eauto.
    - eapply k_ASCHClose; eauto.
    - eapply k_ASCAbort; eauto.
    - eapply k_ASCAbErr; eauto.
    - eapply k_ASCAbTok; eauto.
    - eapply k_ASCAbNErr; eauto.
    - eapply k_ASCAbNTok; eauto.
  Qed.

  Lemma reach_inv13 c s : Reach (step c) (init c) s -> Inv s /\ Inv3 s.
  Proof.
    apply (reach_inv (step c) (fun s => Inv s /\ Inv3 s)).
    - split; [apply inv_init | apply inv3_init].
    - intros s0 a s1 [I K] H. split; [eapply PCS.inv_step; eauto | eapply inv3_step; eauto].
  Qed.

  (* after AsyncClose / Close, whenever nothing can move any more the shutdown is complete: dispatcher, feeder,
     subscription manager and subscription consumer have returned, messages and errors are closed — there is no
     reachable deadlock (the application keeps receiving: a delivery into its hands is a step of the model) *)
  Theorem pc_shutdown_progress : forall c s, Reach (step c) (init c) s -> dying (ch s) = true ->
    stuck (step c) s -> final s.
  Proof. intros c s R P Hs. destruct (reach_inv13 c s R) as [I K]. eapply stuck_final; eauto. Qed.

  (* the full termination statement; proved in PConsTerminates.v *)
  Definition pc_terminates_statement : Prop :=
    forall c, Terminates (step c) (fun s => Reach (step c) (init c) s /\ dying (ch s) = true) final.
End PCTT.
