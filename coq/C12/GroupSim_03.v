(* C12 — consumer group, simulation by the observer automaton : one lemma per action, by [GrpSim.sim_go]. *)
(* part 3 of 9; lemmas packed by proof time so that no file of the family takes much over a minute *)
From Coq Require Import List Arith Bool Lia.
From SV Require Import C12.Lts C12.LtsProofs C12.Tac C12.Group C12.GroupProofs C12.GroupSafety C12.GroupSim.
Import ListNotations. Import Grp. Import GrpP. Import GrpSim.

Lemma sim_AGHe c s q s' h : (elock c = true \/ ~ GrpS.racy s (AGHe h)) -> R s q -> step c s (AGHe h) = Some s' ->
  match lbl (AGHe h) with None => R s' q | Some o => exists q', ostep q o = Some q' /\ R s' q' end.
Proof. intros G HR H. sim_go. Qed.
Lemma sim_AHTick c s q s'  : (elock c = true \/ ~ GrpS.racy s AHTick) -> R s q -> step c s AHTick = Some s' ->
  match lbl AHTick with None => R s' q | Some o => exists q', ostep q o = Some q' /\ R s' q' end.
Proof. intros G HR H. sim_go. Qed.
