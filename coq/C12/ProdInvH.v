(* C12 — preservation of the producer invariant (ProdProofs.Inv), part 8: one lemma per action, by [ProdP.go]. *)
From Coq Require Import List Arith Bool Lia.
From SV Require Import C12.Lts C12.LtsProofs C12.Tac C12.Prod C12.ProdProofs.
Import ListNotations. Import Prod. Import ProdP.

Lemma step_ABFate c s s' f : Inv s -> step c s (ABFate f) = Some s' -> Inv s'.
Proof. intros I H. go s H I. Qed.
Lemma step_ABFlush c s s'  : Inv s -> step c s ABFlush = Some s' -> Inv s'.
Proof. intros I H. go s H I. Qed.
Lemma step_ABRecvResp c s s'  : Inv s -> step c s ABRecvResp = Some s' -> Inv s'.
Proof. intros I H. go s H I. Qed.
Lemma step_ABResolve c s s' f : Inv s -> step c s (ABResolve f) = Some s' -> Inv s'.
Proof. intros I H. go s H I. Qed.
Lemma step_ABDropBuf c s s' f : Inv s -> step c s (ABDropBuf f) = Some s' -> Inv s'.
Proof. intros I H. go s H I. Qed.
Lemma step_ABRespDone c s s'  : Inv s -> step c s ABRespDone = Some s' -> Inv s'.
Proof. intros I H. go s H I. Qed.
