(* C12 — preservation of the producer invariant (ProdProofs.Inv), part 2: one lemma per action, by [ProdP.go]. *)
From Coq Require Import List Arith Bool Lia.
From SV Require Import C12.Lts C12.LtsProofs C12.Tac C12.Prod C12.ProdProofs.
Import ListNotations. Import Prod. Import ProdP.

Lemma step_ASMarker c s s'  : Inv s -> step c s ASMarker = Some s' -> Inv s'.
Proof. intros I H. go s H I. Qed.
Lemma step_ASWait c s s'  : Inv s -> step c s ASWait = Some s' -> Inv s'.
Proof. intros I H. go s H I. Qed.
Lemma step_ASClient c s s'  : Inv s -> step c s ASClient = Some s' -> Inv s'.
Proof. intros I H. go s H I. Qed.
Lemma step_ASCloseIn c s s'  : Inv s -> step c s ASCloseIn = Some s' -> Inv s'.
Proof. intros I H. go s H I. Qed.
Lemma step_ASCloseRet c s s'  : Inv s -> step c s ASCloseRet = Some s' -> Inv s'.
Proof. intros I H. go s H I. Qed.
Lemma step_ASCloseErr c s s'  : Inv s -> step c s ASCloseErr = Some s' -> Inv s'.
Proof. intros I H. go s H I. Qed.
